"""C20 — utility kernels equal their dense definitions.

Every case is (cell id, kernel name, JSON-able args).  `evaluate` builds the tensors, calls the REAL
kernel (`impl`), computes the dense definition independently (`spec`), and emits the line(s) for the
Lean driver (`model`).  Exact regime: integer-valued data, bit-for-bit comparison (also with the
rational model); tolerance only for the FFT-based Toeplitz products and QR / pseudo-inverse."""
import itertools
import json
import math
from fractions import Fraction
from unittest import mock

import torch

from ..common import fmt_rat

DT = {"f32": torch.float32, "f64": torch.float64, "i64": torch.int64}
DTN = {v: k for k, v in DT.items()}


# ------------------------------------------------------------------------------------------------
# encoding helpers
# ------------------------------------------------------------------------------------------------
def targ(t):
    """torch tensor -> JSON-able arg"""
    return {"shape": list(t.shape), "data": t.reshape(-1).tolist(), "dtype": DTN[t.dtype]}


def tt(a):
    return torch.tensor(a["data"], dtype=DT[a["dtype"]]).reshape(a["shape"])


def sparg(s):
    return {"shape": list(s.shape), "indices": s._indices().tolist(), "values": s._values().tolist(),
            "dtype": DTN[s.dtype]}


def sp(a):
    nd = len(a["shape"])
    ind = torch.tensor(a["indices"], dtype=torch.long).reshape(nd, -1)
    return torch.sparse_coo_tensor(ind, torch.tensor(a["values"], dtype=DT[a["dtype"]]), tuple(a["shape"]))


def enc(t):
    vals = t.reshape(-1).tolist()
    return ",".join(map(str, t.shape)) + "|" + (",".join(fmt_rat(v) for v in vals) if vals else "-")


def encsp(s):
    ind = s._indices().t().reshape(-1).tolist()
    vals = s._values().tolist()
    return (",".join(map(str, s.shape)) + "|" + (",".join(map(str, ind)) if ind else "-") + "|"
            + (",".join(fmt_rat(v) for v in vals) if vals else "-"))


def canon(x):
    """result of a kernel -> canonical value"""
    if isinstance(x, tuple) and x and x[0] in ("T", "V", "ERR"):
        return x
    if torch.is_tensor(x):
        if x.is_sparse:
            ind = x._indices()
            if ind.numel():
                size = torch.tensor(list(x.shape), dtype=torch.long).unsqueeze(-1)
                if ind.shape[0] != len(x.shape) or bool((ind < 0).any()) or bool((ind >= size).any()):
                    return ("ERR", "SparseIndexOutOfRange", f"indices {ind.tolist()} for shape {list(x.shape)}")
            x = x.to_dense()
        if x.dim() == 0:
            return ("V", float(x), DTN.get(x.dtype, str(x.dtype)))
        return ("T", tuple(x.shape), [float(v) for v in x.detach().reshape(-1).tolist()], DTN.get(x.dtype, str(x.dtype)))
    return ("V", float(x), "py")


def call(f):
    try:
        return canon(f())
    except Exception as e:  # noqa
        return ("ERR", type(e).__name__, str(e)[:120])


def _snap(t):
    if t is None:
        return None
    if t.is_sparse:
        return ("S", t._indices().clone(), t._values().clone(), t._indices()._version, t._values()._version, tuple(t.shape))
    return ("D", t.clone(), t._version, tuple(t.shape))


def _changed(t, sn):
    """None, or a description of how input tensor `t` differs from its snapshot"""
    if t is None:
        return None
    if sn[0] == "S":
        if tuple(t.shape) != sn[5]:
            return f"sparse shape {tuple(t.shape)} was {sn[5]}"
        i, v = t._indices(), t._values()
        if i.shape != sn[1].shape or not torch.equal(i, sn[1]):
            return f"sparse _indices() {i.tolist()} was {sn[1].tolist()}"
        if v.shape != sn[2].shape or not torch.equal(v, sn[2]):
            return f"sparse _values() {v.tolist()} was {sn[2].tolist()}"
        if i._version != sn[3] or v._version != sn[4]:
            return f"sparse _indices()/_values() written in place (_version {i._version}/{v._version} was {sn[3]}/{sn[4]})"
        return None
    if tuple(t.shape) != sn[3]:
        return f"shape {tuple(t.shape)} was {sn[3]}"
    if not torch.equal(t, sn[1]):
        return f"values {t.reshape(-1).tolist()[:12]} were {sn[1].reshape(-1).tolist()[:12]}"
    if t._version != sn[2]:
        return f"written in place (_version {t._version} was {sn[2]})"
    return None


def call2(f, inputs):
    """call the kernel TWICE on the same operand objects; after each call every operand must be unchanged
    (values, sparse indices/values, shapes, version counters).  -> (first result, {second, mutated})"""
    snaps = [_snap(t) for t in inputs]
    res, mutated = [], None
    for k in (1, 2):
        res.append(call(f))
        for j, (t, sn) in enumerate(zip(inputs, snaps)):
            m = _changed(t, sn)
            if m and mutated is None:
                mutated = f"input #{j} changed by call {k}: {m}"
    return res[0], {"second": res[1], "mutated": mutated}



def parse_model(line):
    """driver output -> canonical (values as Fractions)"""
    w = line.split(" ")
    if w[0] == "ERR":
        return ("ERR", w[1])
    if w[0] == "V":
        return ("V", Fraction(w[1]))
    if w[0] == "T":
        sh, vs = w[1].split("|")
        shape = tuple(int(s) for s in sh.split(",")) if sh != "-" else ()
        vals = [Fraction(v) for v in vs.split(",")] if vs != "-" else []
        return ("T", shape, vals)
    return ("BAD", line)


def close(x, y, tol, scale):
    if tol == 0:
        return x == y
    if math.isnan(x) or math.isnan(y) or math.isinf(x) or math.isinf(y):
        return False
    return abs(x - y) <= tol * scale


def same(a, b, tol=0.0, dtype=True):
    """a, b canonical; values of `b` may be Fractions"""
    if a[0] != b[0]:
        return False
    if a[0] == "ERR":
        return a[1] == b[1]
    if a[0] == "V":
        ok = close(float(a[1]), float(b[1]), tol, 1 + abs(float(b[1])))
        return ok and (not dtype or len(a) < 3 or len(b) < 3 or a[2] == b[2])
    if tuple(a[1]) != tuple(b[1]) or len(a[2]) != len(b[2]):
        return False
    scale = 1 + max([abs(float(v)) for v in b[2]] or [0])
    if not all(close(float(x), float(y), tol, scale) for x, y in zip(a[2], b[2])):
        return False
    return not dtype or len(a) < 4 or len(b) < 4 or a[3] == b[3]


def short(c):
    s = str(c)
    return s if len(s) < 260 else s[:260] + "…"


# ------------------------------------------------------------------------------------------------
# dense definitions (independent of the library)
# ------------------------------------------------------------------------------------------------
def dense_toeplitz(c, r):
    """(..., n), (..., n) -> (..., n, n):  T[i,j] = c[i-j] (i >= j) else r[j-i]"""
    n = c.shape[-1]
    i = torch.arange(n).unsqueeze(-1)
    j = torch.arange(n).unsqueeze(-2)
    d = i - j
    return torch.where(d >= 0, c[..., d.clamp(min=0)], r[..., (-d).clamp(min=0)])


def dense_interp(idx, val, n):
    """W (..., R, n): W[.., r, idx[.., r, k]] += val[.., r, k]"""
    W = torch.zeros(*idx.shape[:-1], n, dtype=val.dtype)
    W.scatter_add_(-1, idx, val)
    return W


def expand_batch(t, batch, k):
    return t.expand(*batch, *t.shape[t.dim() - k:])


def err(cls="RuntimeError"):
    return ("ERR", cls)


# ------------------------------------------------------------------------------------------------
# kernels: args -> dict(impl, spec, lines, tol, mtol, modelspec)
# ------------------------------------------------------------------------------------------------
def _U():
    from linear_operator.utils import toeplitz, interpolation, sparse, permutation
    return toeplitz, interpolation, sparse, permutation


def ev_toeplitz(a):
    TZ = _U()[0]
    c, r = tt(a["c"]), tt(a["r"])
    if a.get("sym"):
        impl, x2 = call2(lambda: TZ.sym_toeplitz(c), [c, r])
    else:
        impl, x2 = call2(lambda: TZ.toeplitz(c, r), [c, r])
    if len(c) != len(r) or c[0] != r[0]:
        spec = err()
    else:
        spec = canon(dense_toeplitz(c, r))
    return dict(impl=impl, spec=spec, lines=[f"toeplitz {enc(c)} {enc(r)}"], **x2)


def ev_tgetitem(a):
    TZ = _U()[0]
    c, r = tt(a["c"]), tt(a["r"])
    n = len(c)
    if a.get("sym"):
        impl, x2 = call2(lambda: torch.stack([torch.stack([TZ.sym_toeplitz_getitem(c, i, j) for j in range(n)]) for i in range(n)]), [c, r])
    else:
        impl, x2 = call2(lambda: torch.stack([torch.stack([TZ.toeplitz_getitem(c, r, i, j) for j in range(n)]) for i in range(n)]), [c, r])
    spec = canon(dense_toeplitz(c, r))
    lines = [f"tgetitem {enc(c)} {enc(r)} {i} {j}" for i in range(n) for j in range(n)]
    return dict(impl=impl, spec=spec, lines=lines, gather=("T", (n, n)), **x2)


def ev_tmatmul(a):
    TZ = _U()[0]
    c, r, x = tt(a["c"]), tt(a["r"]), tt(a["x"])
    if a.get("sym"):
        impl, x2 = call2(lambda: TZ.sym_toeplitz_matmul(c, x), [c, r, x])
    else:
        impl, x2 = call2(lambda: TZ.toeplitz_matmul(c, r, x), [c, r, x])
    tol = 2e-5 if c.dtype == torch.float32 else 1e-11
    spec = None
    if c.shape != r.shape:
        spec = err()
    else:
        try:
            T = dense_toeplitz(c.double(), r.double())
            y = torch.matmul(T, x.double())
            bsh = y.shape[:-1] if x.dim() == 1 else y.shape[:-2]
            cb, rb = c.expand(*bsh, c.shape[-1]), r.expand(*bsh, c.shape[-1])
            spec = err() if not torch.equal(cb[..., 0], rb[..., 0]) else canon(y.to(c.dtype))
        except RuntimeError:
            spec = err()
    return dict(impl=impl, spec=spec, lines=[f"tmatmul 1 {enc(c)} {enc(r)} {enc(x)}"], tol=tol, **x2)


def ev_dqf(a):
    TZ = _U()[0]
    u, v = tt(a["u"]), tt(a["v"])
    impl, x2 = call2(lambda: TZ.sym_toeplitz_derivative_quadratic_form(u, v), [u, v])
    U2, V2 = (u.unsqueeze(1), v.unsqueeze(1)) if u.dim() == 1 else (u, v)
    m = U2.shape[-2]
    ai = torch.arange(m)
    res = []
    for i in range(m):
        D = ((ai.unsqueeze(-1) - ai.unsqueeze(-2)).abs() == i).to(torch.float64)
        res.append((U2.double() * (D @ V2.double())).sum((-2, -1)))
    spec = canon(torch.stack(res, -1).to(u.dtype))
    tol = 5e-5 if u.dtype == torch.float32 else 1e-11
    return dict(impl=impl, spec=spec, lines=[f"dqf {enc(u)} {enc(v)}"], tol=tol, **x2)


def ev_linterp(a):
    IN = _U()[1]
    idx, val, x = tt(a["idx"]), tt(a["val"]), tt(a["x"])
    impl, x2 = call2(lambda: IN.left_interp(idx, val, x), [idx, val, x])
    n = x.shape[0] if x.dim() == 1 else x.shape[-2]
    spec = canon(torch.matmul(dense_interp(idx, val, n), x))
    return dict(impl=impl, spec=spec, lines=[f"linterp {enc(idx)} {enc(val)} {enc(x)}"], **x2)


def ev_ltinterp(a):
    IN = _U()[1]
    idx, val, x, od = tt(a["idx"]), tt(a["val"]), tt(a["x"]), a["outdim"]
    impl, x2 = call2(lambda: IN.left_t_interp(idx, val, x, od), [idx, val, x])
    W = dense_interp(idx, val, od)
    spec = canon(torch.matmul(W.transpose(-1, -2), x))
    return dict(impl=impl, spec=spec, lines=[f"ltinterp {enc(idx)} {enc(val)} {enc(x)} {od}"], **x2)


def ev_mksparse(a):
    SP = _U()[2]
    idx, val, nr = tt(a["idx"]), tt(a["val"]), a["nrows"]
    impl, x2 = call2(lambda: SP.make_sparse_from_indices_and_values(idx, val, nr), [idx, val])
    spec = canon(dense_interp(idx, val, nr).transpose(-1, -2).contiguous())
    return dict(impl=impl, spec=spec, lines=[f"mksparse {enc(idx)} {enc(val)} {nr}"], **x2)


def ev_bdsmm(a):
    SP = _U()[2]
    s, d = sp(a["s"]), tt(a["d"])
    if a.get("via") == "dsmm":
        from linear_operator import dsmm
        f = lambda: dsmm(s, d)  # noqa
    else:
        f = lambda: SP.bdsmm(s, d)  # noqa
    try:
        spec = canon(torch.matmul(s.to_dense(), d))
    except RuntimeError:
        spec = err()
    line = f"bdsmm 1 {encsp(s)} {enc(d)}"
    impl, x2 = call2(f, [s, d])
    return dict(impl=impl, spec=spec, lines=[line], **x2)


def ev_dsmmback(a):
    from linear_operator import dsmm
    s, d, g = sp(a["s"]), tt(a["d"]), tt(a["g"])

    def run():
        x = d.clone().requires_grad_(True)
        out = dsmm(s, x)
        out.backward(g)
        return x.grad
    x = d.clone().requires_grad_(True)
    torch.matmul(s.to_dense(), x).backward(g)
    spec = canon(x.grad)
    line = f"dsmmback 1 {encsp(s)} {enc(g)}"
    impl, x2 = call2(run, [s, d, g])
    # model: bdsmm(S^T, g) has the broadcast batch shape; autograd sums it down to the shape of `d`
    return dict(impl=impl, spec=spec, lines=[line], sumto=tuple(d.shape), **x2)


def ev_speye(a):
    SP = _U()[2]
    n = a["n"]
    impl = call(lambda: SP.sparse_eye(n))
    return dict(impl=impl, spec=canon(torch.eye(n)), lines=[f"speye {n}"])


def _ix(items):
    res = []
    for it in items:
        res.append(it[1] if it[0] == "i" else slice(*it[1:]))
    return tuple(res)


def ev_spgetitem(a):
    SP = _U()[2]
    s = sp(a["s"])
    dense = s.to_dense()
    ix = _ix(a["items"])
    arg = ix[0] if (len(ix) == 1 and a.get("bare")) else ix
    if any(isinstance(i, slice) and i.step not in (None, 1) for i in ix):
        spec = err()
    else:
        spec = canon(dense[ix])
    items = ";".join(f"i{it[1]}" if it[0] == "i" else "s" + ":".join("n" if v is None else str(v) for v in it[1:]) for it in a["items"])
    line = f"spgetitem 1 {encsp(s)} {items}"
    impl, x2 = call2(lambda: SP.sparse_getitem(s, arg), [s])
    return dict(impl=impl, spec=spec, lines=[line], **x2)


def ev_sprepeat(a):
    SP = _U()[2]
    s, reps = sp(a["s"]), a["reps"]
    spec = canon(s.to_dense().repeat(*reps))
    r = ",".join(map(str, reps))
    line = f"sprepeat 1 {encsp(s)} {r}"
    f = (lambda: SP.sparse_repeat(s, *reps)) if not a.get("tuplearg") else (lambda: SP.sparse_repeat(s, tuple(reps)))
    impl, x2 = call2(f, [s])
    return dict(impl=impl, spec=spec, lines=[line], **x2)


def ev_tosparse(a):
    SP = _U()[2]
    d = tt(a["d"])
    res = None

    def run():
        nonlocal res
        res = SP.to_sparse(d)
        if not res.is_sparse or tuple(res.shape) != tuple(d.shape):
            raise AssertionError("to_sparse did not return a sparse tensor of the same shape")
        return res
    spec = canon(d.clone())
    impl, x2 = call2(run, [d])
    return dict(impl=impl, spec=spec, lines=[f"tosparse {enc(d)}"], **x2)


def ev_perm(a):
    PM = _U()[3]
    K = tt(a["K"])
    l = tt(a["l"]) if a.get("l") else None
    r = tt(a["r"]) if a.get("r") else None
    if a.get("asop"):
        from linear_operator.operators import DenseLinearOperator
        impl, x2 = call2(lambda: PM.apply_permutation(DenseLinearOperator(K), l, r), [K, l, r])
    else:
        impl, x2 = call2(lambda: PM.apply_permutation(K, l, r), [K, l, r])
    # dense definition: Π_l K Π_r^T as explicit (partial) permutation matrices
    m, n = K.shape[-2:]
    out = K
    if l is not None:
        Pl = torch.nn.functional.one_hot(l, m).to(K.dtype)  # (..., nl, m)
        out = torch.matmul(Pl, out)
    if r is not None:
        Pr = torch.nn.functional.one_hot(r, n).to(K.dtype)  # (..., nr, n)
        out = torch.matmul(out, Pr.transpose(-1, -2))
    spec = canon(out)
    return dict(impl=impl, spec=spec, lines=[f"perm {enc(K)} {enc(l) if l is not None else 'N'} {enc(r) if r is not None else 'N'}"], **x2)


def ev_invperm(a):
    PM = _U()[3]
    p = tt(a["p"])
    impl, x2 = call2(lambda: PM.inverse_permutation(p), [p])
    flat = p.reshape(-1, p.shape[-1]).tolist()
    inv = []
    for row in flat:
        q = [0] * len(row)
        for i, v in enumerate(row):
            q[v] = i
        inv.append(q)
    spec = canon(torch.tensor(inv, dtype=p.dtype).reshape(p.shape))
    return dict(impl=impl, spec=spec, lines=[f"invperm {enc(p)}"], **x2)


def ev_mbshape(a):
    from linear_operator.utils.broadcasting import _matmul_broadcast_shape
    sa, sb = a["a"], a["b"]
    impl = call(lambda: ("T", (len(_matmul_broadcast_shape(torch.Size(sa), torch.Size(sb))),),
                         [float(v) for v in _matmul_broadcast_shape(torch.Size(sa), torch.Size(sb))]))
    try:
        sh = torch.matmul(torch.zeros(sa), torch.zeros(sb)).shape
        spec = ("T", (len(sh),), [float(v) for v in sh])
    except RuntimeError:
        spec = err()
    return dict(impl=impl, spec=spec, lines=[f"mbshape {','.join(map(str, sa))} {','.join(map(str, sb))}"], shape_line=True)


def _qr_fake(R_override):
    real = torch.linalg.qr

    def fake(mat, *args, **kw):
        Q, R = real(mat, *args, **kw)
        R = R.clone()
        k = min(R.shape[-2:])
        d = torch.tensor(R_override[:k], dtype=R.dtype)
        torch.diagonal(R, dim1=-2, dim2=-1).copy_(d.expand(*R.shape[:-2], k))
        return Q, R
    return fake


def ev_stableqr(a):
    """impl: stable_qr(A) (optionally with the QR primitive's R diagonal overridden so that chosen
    near-zero / negative / zero pivots occur); spec: Q unchanged, R' = R + J, J = 1e-6 * sign (0 -> +)
    on entries with |R_ii| < 1e-6, only if any such entry exists."""
    from linear_operator.utils.qr import stable_qr
    from linear_operator import settings
    A = tt(a["A"])
    ov = a.get("override")
    ctx = mock.patch("torch.linalg.qr", _qr_fake(ov)) if ov else mock.patch("torch.linalg.qr", torch.linalg.qr)
    with settings.stable_qr_cpu_threshold(a.get("threshold", 128)):
        with ctx:
            Q0, R0 = torch.linalg.qr(A)

            def runqr():
                Q, R = stable_qr(A)
                return ("T", tuple(Q.shape) + tuple(R.shape), [float(v) for v in Q.reshape(-1).tolist() + R.reshape(-1).tolist()], DTN[R.dtype])
            impl, x2 = call2(runqr, [A])
    d = torch.diagonal(R0, dim1=-2, dim2=-1)
    zeroish = d.abs() < 1e-6
    Rs = R0.clone()
    if bool(zeroish.any()):
        sign = torch.where(d < 0, -torch.ones_like(d), torch.ones_like(d))
        torch.diagonal(Rs, dim1=-2, dim2=-1).add_(1e-6 * sign * zeroish.to(d))
    spec = ("T", tuple(Q0.shape) + tuple(Rs.shape), [float(v) for v in Q0.reshape(-1).tolist() + Rs.reshape(-1).tolist()], DTN[Rs.dtype])
    lines = []
    if A.dim() == 2:
        lines = [f"stableqr 1 {enc(R0)}"]
    res = dict(impl=impl, spec=spec, lines=lines, tol=1e-12 if A.dtype == torch.float64 else 1e-6, extra_contract=(A, ov), **x2)
    if impl[0] == "T" and lines:
        res["impl_for_model"] = ("T", tuple(R0.shape), impl[2][-R0.numel():])
    return res


def frac_pinv(rows):
    """exact Moore-Penrose inverse of a full-rank integer matrix (list of lists)"""
    m, n = len(rows), len(rows[0])
    A = [[Fraction(v) for v in r] for r in rows]

    def T(M):
        return [list(x) for x in zip(*M)]

    def mul(X, Y):
        return [[sum(X[i][k] * Y[k][j] for k in range(len(Y))) for j in range(len(Y[0]))] for i in range(len(X))]

    def inv(M):
        k = len(M)
        aug = [list(M[i]) + [Fraction(int(i == j)) for j in range(k)] for i in range(k)]
        for c in range(k):
            p = next(i for i in range(c, k) if aug[i][c] != 0)
            aug[c], aug[p] = aug[p], aug[c]
            pv = aug[c][c]
            aug[c] = [v / pv for v in aug[c]]
            for i in range(k):
                if i != c and aug[i][c] != 0:
                    f = aug[i][c]
                    aug[i] = [x - f * y for x, y in zip(aug[i], aug[c])]
        return [r[k:] for r in aug]
    At = T(A)
    if m >= n:
        return mul(inv(mul(At, A)), At)
    return mul(At, inv(mul(A, At)))


def ev_pinv(a):
    from linear_operator.utils.pinverse import stable_pinverse
    A = tt(a["A"])
    impl, x2 = call2(lambda: stable_pinverse(A), [A])
    mats = A.reshape(-1, *A.shape[-2:])
    out = []
    for M in mats:
        P = frac_pinv([[int(v) for v in row] for row in M.tolist()])
        out.append(torch.tensor([[float(v) for v in row] for row in P], dtype=torch.float64))
    spec = canon(torch.stack(out).reshape(*A.shape[:-2], A.shape[-1], A.shape[-2]).to(A.dtype))
    lines = []
    if A.dim() == 2:
        m, n = A.shape
        Qa, Ra = torch.linalg.qr(A)
        Qt, Rt = torch.linalg.qr(A.mT)
        lines = [f"pinv {m} {n} {enc(Qa)} {enc(Ra)} {enc(Qt)} {enc(Rt)}"]
    tol = 1e-9 if A.dtype == torch.float64 else 2e-4
    return dict(impl=impl, spec=spec, lines=lines, tol=tol, **x2)


def ev_pinv_deficient(a):
    """(nearly) rank-deficient input: the dense definition is R'^{-1} Q^T with (Q, R') = stable_qr; checked
    as  R' P = Q^T  (relative), finite values, documented shape."""
    from linear_operator.utils.pinverse import stable_pinverse
    from linear_operator.utils.qr import stable_qr
    A = tt(a["A"])
    sn = _snap(A)
    try:
        P = stable_pinverse(A)
        P2 = stable_pinverse(A)
        if _changed(A, sn) or not torch.equal(P, P2):
            raise AssertionError("input changed or second call differs: " + str(_changed(A, sn)))
        m, n = A.shape[-2:]
        B = A if m >= n else A.mT
        Q, R = stable_qr(B)
        X = P if m >= n else P.mT
        resid = (R @ X - Q.mT).abs().max().item()
        scale = 1 + (R.abs().max() * X.abs().max()).item()
        ok = tuple(P.shape) == tuple(A.shape[:-2]) + (n, m) and bool(torch.isfinite(P).all()) and resid <= 1e-6 * scale \
            and P.dtype == A.dtype
        impl = ("V", 1.0 if ok else 0.0)
    except Exception as e:  # noqa
        impl = ("ERR", type(e).__name__, str(e)[:100])
    return dict(impl=impl, spec=("V", 1.0), lines=[])


ERR_SENTINEL = 77777.0


def ev_tgetitemz(a):
    """toeplitz_getitem / sym_toeplitz_getitem on arbitrary Python ints (negative, beyond n): only i - j matters,
    |i - j| >= n raises IndexError (encoded as a sentinel so that one case covers a whole list of index pairs)"""
    TZ = _U()[0]
    c, r = tt(a["c"]), tt(a["r"])
    n = len(c)
    pairs = [tuple(p) for p in a["pairs"]]

    def one(i, j):
        try:
            v = TZ.sym_toeplitz_getitem(c, i, j) if a.get("sym") else TZ.toeplitz_getitem(c, r, i, j)
            if v.dim() != 0:
                raise AssertionError(f"toeplitz_getitem({i},{j}) returned shape {tuple(v.shape)}")
            return float(v)
        except IndexError:
            return ERR_SENTINEL
    impl, x2 = call2(lambda: torch.tensor([one(i, j) for i, j in pairs], dtype=c.dtype), [c, r])
    vals = []
    for i, j in pairs:
        d = i - j
        if abs(d) >= n:
            vals.append(ERR_SENTINEL)
        elif a.get("sym"):
            vals.append(float(c[abs(d)]))
        else:
            vals.append(float(c[d]) if d >= 0 else float(r[-d]))
    spec = ("T", (len(pairs),), vals, DTN[c.dtype])
    rr = c if a.get("sym") else r
    lines = [f"tgetitemz {enc(c)} {enc(rr)} {i} {j}" for i, j in pairs]
    return dict(impl=impl, spec=spec, lines=lines, gather=("T", (len(pairs),)), errsentinel=ERR_SENTINEL, **x2)


def ev_bdsmmflat(a):
    """intermediate state of bdsmm's first branch: the block-diagonal `sparse_2d` and the flattened `dense_2d` handed to torch.dsmm
    (recorded through a pass-through patch of torch.dsmm), against block_diag / expand+reshape and the Lean `bdsmmFlat`"""
    SP = _U()[2]
    s, d = sp(a["s"]), tt(a["d"])
    real = torch.dsmm

    def run():
        rec = []

        def fake(S2, D2):
            rec.append((S2, D2))
            return real(S2, D2)
        with mock.patch.object(torch, "dsmm", fake):
            SP.bdsmm(s, d)
        if len(rec) != 1:
            raise AssertionError(f"torch.dsmm called {len(rec)} times")
        S2, D2 = rec[0]
        cs = canon(S2)
        if cs[0] == "ERR":
            raise IndexError(cs[2])
        if not S2.is_sparse or S2.dim() != 2 or D2.dim() != 2:
            raise AssertionError("torch.dsmm operands are not (2-D sparse, 2-D dense)")
        return torch.cat([torch.tensor(list(S2.shape), dtype=d.dtype), S2.to_dense().reshape(-1),
                          torch.tensor(list(D2.shape), dtype=d.dtype), D2.reshape(-1)])
    try:
        m, n = s.shape[-2:]
        pp = d.shape[-1]
        if d.shape[-2] != n:
            raise RuntimeError("inner")
        ob = torch.broadcast_shapes(tuple(s.shape[:-2]), tuple(d.shape[:-2]))
        Sd = s.to_dense().expand(*ob, m, n).reshape(-1, m, n)
        blk = torch.block_diag(*[Sd[k] for k in range(Sd.shape[0])])
        Dd = d.expand(*ob, n, pp).reshape(-1, pp)
        spec = canon(torch.cat([torch.tensor(list(blk.shape), dtype=d.dtype), blk.reshape(-1),
                                torch.tensor(list(Dd.shape), dtype=d.dtype), Dd.reshape(-1)]))
    except RuntimeError:
        spec = err()
    impl, x2 = call2(run, [s, d])
    return dict(impl=impl, spec=spec, lines=[f"bdsmmflat {encsp(s)} {enc(d)}"], **x2)


def ev_dsmmbackdirect(a):
    """DSMM.backward called directly (no autograd sum-reduction): the un-reduced gradient bdsmm(S^T, grad) = S^T @ grad"""
    import types
    from linear_operator.functions._dsmm import DSMM
    s, g = sp(a["s"]), tt(a["g"])
    ctx = types.SimpleNamespace(sparse=s)

    def run():
        res = DSMM.backward(ctx, g)
        if not (isinstance(res, tuple) and len(res) == 2 and res[0] is None):
            raise AssertionError("DSMM.backward must return (None, grad)")
        return res[1]
    try:
        spec = canon(torch.matmul(s.to_dense().transpose(-1, -2), g))
    except RuntimeError:
        spec = err()
    impl, x2 = call2(run, [s, g])
    return dict(impl=impl, spec=spec, lines=[f"dsmmback 1 {encsp(s)} {enc(g)}"], **x2)


KERNELS = {"tgetitemz": ev_tgetitemz, "bdsmmflat": ev_bdsmmflat, "dsmmbackdirect": ev_dsmmbackdirect, "toeplitz": ev_toeplitz, "tgetitem": ev_tgetitem, "tmatmul": ev_tmatmul, "dqf": ev_dqf, "linterp": ev_linterp,
           "ltinterp": ev_ltinterp, "mksparse": ev_mksparse, "bdsmm": ev_bdsmm, "dsmmback": ev_dsmmback, "speye": ev_speye,
           "spgetitem": ev_spgetitem, "sprepeat": ev_sprepeat, "tosparse": ev_tosparse, "perm": ev_perm, "invperm": ev_invperm,
           "mbshape": ev_mbshape, "stableqr": ev_stableqr, "pinv": ev_pinv, "pinv_deficient": ev_pinv_deficient}


# ------------------------------------------------------------------------------------------------
# case generation
# ------------------------------------------------------------------------------------------------
def ival(rng, shape, lo=-4, hi=4, dtype=torch.float64, nonzero=False):
    n = 1
    for s in shape:
        n *= s
    vals = []
    for _ in range(n):
        v = rng.randint(lo, hi)
        while nonzero and v == 0:
            v = rng.randint(lo, hi)
        vals.append(v)
    return torch.tensor(vals, dtype=dtype).reshape(shape)


def bname(b):
    return "x".join(map(str, b)) if b else "none"


def rand_sparse(rng, shape, dtype, dup=False, density=0.6, empty=False):
    nd = len(shape)
    total = 1
    for s in shape:
        total *= s
    ents = []
    if not empty:
        for p in range(total):
            if rng.random() < density:
                ix, q = [], p
                for s in reversed(shape):
                    ix.append(q % s)
                    q //= s
                ents.append((ix[::-1], rng.choice([-3, -2, -1, 1, 2, 3])))
        if dup and ents:
            for _ in range(2):
                e = rng.choice(ents)
                ents.append((e[0], rng.choice([-2, 1, 2])))
        rng.shuffle(ents)
    ind = torch.tensor([e[0] for e in ents], dtype=torch.long).reshape(-1, nd).t()
    vals = torch.tensor([float(e[1]) for e in ents], dtype=dtype)
    return torch.sparse_coo_tensor(ind, vals, tuple(shape))


def box_sparse(rng, shape, box, density=1.0, dup=False):
    """sparse tensor whose stored entries all lie inside `box` = ((lo, hi), ...) per dimension"""
    ents = []
    for ix in itertools.product(*[range(lo, hi) for lo, hi in box]):
        if rng.random() < density:
            ents.append((list(ix), rng.choice([-3, -2, -1, 1, 2, 3])))
    if not ents:
        ents.append(([lo for lo, _ in box], 2))
    if dup:
        e = rng.choice(ents)
        ents.append((e[0], rng.choice([-2, 1, 2])))
    rng.shuffle(ents)
    ind = torch.tensor([e[0] for e in ents], dtype=torch.long).reshape(-1, len(shape)).t()
    return torch.sparse_coo_tensor(ind, torch.tensor([float(e[1]) for e in ents], dtype=torch.float64), tuple(shape))


def gen_cases(rng, tier):
    """-> list of (cell, kernel, args).  Cell membership is deterministic; values come from rng."""
    cases = []
    thorough = tier == "thorough"
    reps = 4 if thorough else 1
    dts = [("f64", torch.float64), ("f32", torch.float32)]
    sizes = [1, 2, 3, 5] + ([4, 8] if thorough else [])

    def add(cell, kernel, **args):
        cases.append((cell, kernel, args))

    for _ in range(reps):
        # ---------------------------------------------------------------- toeplitz construction / lookup
        for n in sizes:
            for dn, dt in dts:
                for sym in (0, 1):
                    c = ival(rng, (n,), dtype=dt)
                    r = c.clone() if sym else ival(rng, (n,), dtype=dt)
                    r[0] = c[0]
                    add(f"C20/toeplitz/n={n}/{dn}/sym={sym}", "toeplitz", c=targ(c), r=targ(r), sym=sym)
                    add(f"C20/toeplitz_getitem/n={n}/{dn}/sym={sym}", "tgetitem", c=targ(c), r=targ(r), sym=sym)
            c = ival(rng, (n,))
            r = ival(rng, (n,))
            r[0] = c[0] + 1
            add(f"C20/toeplitz/n={n}/err=first", "toeplitz", c=targ(c), r=targ(r))
            r2 = ival(rng, (n + 1,))
            r2[0] = c[0]
            add(f"C20/toeplitz/n={n}/err=len", "toeplitz", c=targ(c), r=targ(r2))
            # arbitrary Python ints: the n x n grid shifted by negative / beyond-n offsets, and differences >= n (IndexError)
            for sym in (0, 1):
                c = ival(rng, (n,), nonzero=True)
                r = c.clone() if sym else ival(rng, (n,), nonzero=True)
                r[0] = c[0]
                for oname, o in (("neg", -n), ("minus1", -1), ("n", n), ("big", 2 * n + 3)):
                    pairs = [[i + o, j + o] for i in range(n) for j in range(n)]
                    add(f"C20/toeplitz_getitem_int/n={n}/sym={sym}/shift={oname}", "tgetitemz", c=targ(c), r=targ(r), sym=sym, pairs=pairs)
                pairs = [[n, 0], [0, n], [-1, n - 1], [n + 1, 0], [0, n + 2], [-n, 0], [2 * n, n], [n - 1, -1], [-1, -1 - n]]
                add(f"C20/toeplitz_getitem_int/n={n}/sym={sym}/outofrange", "tgetitemz", c=targ(c), r=targ(r), sym=sym, pairs=pairs)
        # ---------------------------------------------------------------- toeplitz_matmul
        # (c batch, rhs batch): none/one/several/broadcasting
        combos = [((), ()), ((2,), (2,)), ((2, 3), (2, 3)), ((), (2,)), ((2,), ()), ((1,), (3,)), ((3, 1), (2,)), ((2,), (3, 1)),
                  ((2, 1), (1, 3)), ((2, 3), (3,)), ((1, 1, 2), (3, 1))]
        for n in sizes:
            for (cb, xb) in combos:
                for dn, dt in dts:
                    for sym in (0, 1):
                        if sym and cb not in ((), (2,), (2, 1), (2, 3)):
                            continue
                        for p in (1, 3):
                            c = ival(rng, cb + (n,), dtype=dt)
                            r = c.clone() if sym else ival(rng, cb + (n,), dtype=dt)
                            r[..., 0] = c[..., 0]
                            x = ival(rng, xb + (n, p), dtype=dt)
                            add(f"C20/toeplitz_matmul/sym={sym}/rhs=mat/n={n}/p={p}/cb={bname(cb)}/xb={bname(xb)}/{dn}", "tmatmul",
                                c=targ(c), r=targ(r), x=targ(x), sym=sym)
            for cb in ((), (2,), (2, 3)):
                for sym in (0, 1):
                    c = ival(rng, cb + (n,))
                    r = c.clone() if sym else ival(rng, cb + (n,))
                    r[..., 0] = c[..., 0]
                    x = ival(rng, (n,))
                    add(f"C20/toeplitz_matmul/sym={sym}/rhs=vec/n={n}/cb={bname(cb)}", "tmatmul", c=targ(c), r=targ(r), x=targ(x), sym=sym)
            # errors: first element differs in ONE batch member; inner size mismatch; c / r shapes differ
            c = ival(rng, (2, n))
            r = ival(rng, (2, n))
            r[..., 0] = c[..., 0]
            r[1, 0] += 1
            add(f"C20/toeplitz_matmul/err=first/n={n}", "tmatmul", c=targ(c), r=targ(r), x=targ(ival(rng, (n, 2))))
            c = ival(rng, (n,))
            add(f"C20/toeplitz_matmul/err=inner/n={n}", "tmatmul", c=targ(c), r=targ(c), x=targ(ival(rng, (n + 1, 2))))
            add(f"C20/toeplitz_matmul/err=crshape/n={n}", "tmatmul", c=targ(c), r=targ(torch.cat([c, c])), x=targ(ival(rng, (n, 2))))
        # ---------------------------------------------------------------- derivative quadratic form
        for m in sizes:
            for dn, dt in dts:
                add(f"C20/toeplitz_dqf/m={m}/s=vec/{dn}", "dqf", u=targ(ival(rng, (m,), dtype=dt)), v=targ(ival(rng, (m,), dtype=dt)))
                for s in (1, 2, 3):
                    for b in ((), (2,), (2, 2), (1,), (2, 1, 2), (1, 2, 1, 2)):
                        if len(b) > 2 and m > 3 and not thorough:
                            continue
                        add(f"C20/toeplitz_dqf/m={m}/s={s}/b={bname(b)}/{dn}", "dqf", u=targ(ival(rng, b + (m, s), dtype=dt)),
                            v=targ(ival(rng, b + (m, s), dtype=dt)))
        # ---------------------------------------------------------------- interpolation
        icombos = [((), ()), ((2,), ()), ((), (2,)), ((2,), (2,)), ((2, 3), (2, 3)), ((1,), (3,)), ((2, 1), (3,)), ((3,), (2, 1)),
                   ((1, 2), (3, 1)), ((2, 1, 1), (3, 2)), ((1, 1), ())]
        for n in (1, 3, 4):
            for R in (1, 2, 4):
                for K in (1, 2, 3):
                    for kind in ("rand", "dup", "zeros", "allzero"):
                        if kind == "dup" and K == 1:
                            continue
                        for (ib, xb) in (icombos if (R, K) in ((2, 2), (4, 3)) else icombos[:4]):
                            dn, dt = dts[rng.randrange(2)]
                            idx = ival(rng, ib + (R, K), 0, n - 1, torch.long)
                            val = ival(rng, ib + (R, K), dtype=dt, nonzero=True)
                            if kind == "dup":
                                idx[..., 1] = idx[..., 0]
                            if kind == "zeros":
                                val[..., 0] = 0
                            if kind == "allzero":
                                val.zero_()
                            for cols in (1, 2):
                                x = ival(rng, xb + (n, cols), dtype=dt)
                                add(f"C20/left_interp/rhs=mat/n={n}/R={R}/K={K}/{kind}/ib={bname(ib)}/xb={bname(xb)}/cols={cols}", "linterp",
                                    idx=targ(idx), val=targ(val), x=targ(x))
                                xt = ival(rng, xb + (R, cols), dtype=dt)
                                for od in (n, n + 2):
                                    add(f"C20/left_t_interp/rhs=mat/n={n}/R={R}/K={K}/{kind}/ib={bname(ib)}/xb={bname(xb)}/cols={cols}/od={od - n}",
                                        "ltinterp", idx=targ(idx), val=targ(val), x=targ(xt), outdim=od)
                            if xb == ():
                                add(f"C20/left_interp/rhs=vec/n={n}/R={R}/K={K}/{kind}/ib={bname(ib)}", "linterp",
                                    idx=targ(idx), val=targ(val), x=targ(ival(rng, (n,), dtype=dt)))
                                add(f"C20/left_t_interp/rhs=vec/n={n}/R={R}/K={K}/{kind}/ib={bname(ib)}", "ltinterp",
                                    idx=targ(idx), val=targ(val), x=targ(ival(rng, (R,), dtype=dt)), outdim=n + 1)
                            # make_sparse on the same index / value tensors
                            if xb == () or ib == (2, 3):
                                add(f"C20/make_sparse/n={n}/T={R}/K={K}/{kind}/b={bname(ib)}", "mksparse", idx=targ(idx), val=targ(val), nrows=n + (K % 2))
        # ---------------------------------------------------------------- bdsmm / dsmm / backward
        bcombos = [((), ()), ((), (2,)), ((), (2, 3)), ((2,), (2,)), ((2, 3), (2, 3)), ((2,), ()), ((1,), (3,)), ((2,), (3, 1)),
                   ((3, 1), (2,)), ((1, 2), (3, 1)),
                   # session 5: size-1 dims in the middle / on both sides, rank differences in both directions, three batch dims, mismatch
                   ((2, 1), (2, 3)), ((1, 1), (2, 3)), ((2,), (3, 1, 2)), ((1, 3), (2, 1)), ((2, 1, 2), (3, 1)), ((2, 3), (3,)),
                   ((2,), (3,)), ((2, 3), (2, 2))]
        for (m, n, p) in ((1, 1, 1), (2, 3, 2), (3, 2, 1), (3, 3, 2)):
            for (sb, db) in bcombos:
                for kind in ("rand", "dup", "empty"):
                    dn, dt = dts[rng.randrange(2)]
                    s = rand_sparse(rng, sb + (m, n), dt, dup=(kind == "dup"), empty=(kind == "empty"))
                    d = ival(rng, db + (n, p), dtype=dt)
                    for via in ("bdsmm", "dsmm"):
                        add(f"C20/{via}/m={m}/n={n}/p={p}/sb={bname(sb)}/db={bname(db)}/{kind}", "bdsmm", s=sparg(s), d=targ(d), via=via)
                    if sb != ():
                        # the operands handed to torch.dsmm (block-diagonal sparse_2d, flattened dense_2d)
                        add(f"C20/bdsmm_flat/m={m}/n={n}/p={p}/sb={bname(sb)}/db={bname(db)}/{kind}", "bdsmmflat", s=sparg(s), d=targ(d))
                    if kind != "empty":
                        try:
                            osh = torch.broadcast_shapes(sb, db) + (m, p)
                        except RuntimeError:
                            continue
                        g = ival(rng, tuple(osh), dtype=dt)
                        add(f"C20/dsmm_backward/m={m}/n={n}/p={p}/sb={bname(sb)}/db={bname(db)}/{kind}", "dsmmback", s=sparg(s), d=targ(d), g=targ(g))
                        # DSMM.backward itself (no autograd reduction), cotangent batch = broadcast batch and = dense batch
                        add(f"C20/dsmm_backward_direct/m={m}/n={n}/p={p}/sb={bname(sb)}/gb={bname(tuple(osh[:-2]))}/{kind}", "dsmmbackdirect",
                            s=sparg(s), g=targ(g))
                        if tuple(db) != tuple(osh[:-2]):
                            g2 = ival(rng, db + (m, p), dtype=dt)
                            add(f"C20/dsmm_backward_direct/m={m}/n={n}/p={p}/sb={bname(sb)}/gb={bname(db)}/{kind}", "dsmmbackdirect",
                                s=sparg(s), g=targ(g2))
            s = rand_sparse(rng, (m, n), torch.float64)
            add(f"C20/bdsmm/err=inner/m={m}/n={n}", "bdsmm", s=sparg(s), d=targ(ival(rng, (n + 1, p))), via="bdsmm")
        # ---------------------------------------------------------------- sparse_eye / to_sparse
        for n in (1, 2, 3, 5):
            add(f"C20/sparse_eye/n={n}", "speye", n=n)
        for shape in ((1,), (4,), (1, 1), (2, 3), (3, 2), (2, 2, 3), (1, 2, 1, 2)):
            for kind in ("rand", "allzero", "full"):
                dn, dt = dts[rng.randrange(2)]
                d = ival(rng, shape, dtype=dt, nonzero=(kind == "full"))
                if kind == "allzero":
                    d.zero_()
                add(f"C20/to_sparse/shape={bname(shape)}/{kind}", "tosparse", d=targ(d))
        # ---------------------------------------------------------------- sparse_getitem
        for shape in ((1,), (4,), (1, 1), (3, 4), (4, 2)):
            nd = len(shape)
            per_dim = []
            for sz in shape:
                opts = [("i", 0), ("i", sz - 1), ("s", None, None, None)]
                if sz > 1:
                    opts += [("s", 1, None, None), ("s", None, sz - 1, None), ("s", 1, sz, None), ("s", -2, None, None),
                             ("s", 0, -1, None), ("s", 0, sz + 3, None), ("i", -1), ("i", -sz)]
                if sz > 2:
                    opts += [("i", 1), ("s", 1, sz - 1, None), ("s", 1, 2, 1)]
                per_dim.append(opts)
            tuples = [(o,) for o in per_dim[0]]
            if nd == 2:
                tuples += [(a, b) for a in per_dim[0] for b in per_dim[1]]
            if not thorough and len(tuples) > 60:
                tuples = tuples[:len(per_dim[0])] + rng.sample(tuples[len(per_dim[0]):], 60)
            for items in tuples:
                for kind in ("rand", "dup", "empty"):
                    if kind == "empty" and rng.random() < 0.7:
                        continue
                    s = rand_sparse(rng, shape, torch.float64, dup=(kind == "dup"), empty=(kind == "empty"), density=0.7)
                    neg = "neg" if any(it[0] == "i" and it[1] < 0 for it in items) else "nonneg"
                    desc = ",".join(("int" if it[0] == "i" else "slice" + ("" if it[1:] == (None, None, None) else "B")) for it in items)
                    add(f"C20/sparse_getitem/int={neg}/shape={bname(shape)}/{desc}/{kind}", "spgetitem", s=sparg(s),
                        items=[list(it) for it in items], bare=(len(items) == 1 and rng.random() < 0.5))
            s = rand_sparse(rng, shape, torch.float64)
            add(f"C20/sparse_getitem/err=step/shape={bname(shape)}", "spgetitem", s=sparg(s), items=[["s", 0, None, 2]])
        # "nothing to filter" inputs: EVERY stored entry lies inside the slice (start > 0) / in the selected row or column,
        # in every position of the index tuple (a shortcut that skips the copy must not touch the caller's tensor)
        for shape, box in (((4,), ((1, 4),)), ((5,), ((2, 4),)), ((3, 3), ((1, 3), (1, 3))), ((4, 5), ((1, 3), (2, 5))),
                           ((5, 2), ((3, 5), (1, 2))), ((4, 3), ((2, 3), (0, 3))), ((3, 4), ((0, 3), (1, 2)))):
            opts = []
            for d, (lo, hi) in enumerate(box):
                sz = shape[d]
                o = [("s", None, None, None)]
                if lo > 0:
                    o += [("s", lo, hi, None), ("s", lo, None, None), ("s", lo - sz, None, None), ("s", lo, sz + 2, None)]
                    if lo > 1:
                        o.append(("s", 1, None, None))
                if hi - lo == 1:
                    o += [("i", lo), ("i", lo - sz)]
                opts.append(o)
            tuples = [(x,) for x in opts[0]]
            if len(shape) == 2:
                tuples += [(x, y) for x in opts[0] for y in opts[1]]
            for items in tuples:
                if all(it == ("s", None, None, None) for it in items):
                    continue
                for kind in ("full", "part", "dup"):
                    s = box_sparse(rng, shape, box, density=1.0 if kind == "full" else 0.6, dup=(kind == "dup"))
                    desc = ",".join(("int" if it[0] == "i" else "all" if it[1:] == (None, None, None) else f"slice{'P' if it[1] > 0 else 'N'}")
                                    for it in items)
                    add(f"C20/sparse_getitem/allkept/shape={bname(shape)}/box={'_'.join(f'{lo}-{hi}' for lo, hi in box)}/{desc}/{kind}",
                        "spgetitem", s=sparg(s), items=[list(it) for it in items], bare=(len(items) == 1 and rng.random() < 0.5))
        # ---------------------------------------------------------------- sparse_repeat
        for shape in ((1,), (3,), (1, 1), (1, 3), (2, 1), (2, 3), (1, 2, 3), (2, 1, 2)):
            nd = len(shape)
            rlist = [tuple(1 for _ in shape)]
            for i in range(nd):
                for k in (2, 3):
                    rlist.append(tuple(k if j == i else 1 for j in range(nd)))
            rlist.append((1,) + tuple(1 for _ in shape))       # nothing to repeat, one new leading dim
            rlist.append(tuple(2 for _ in shape))
            rlist.append((2,) + tuple(1 for _ in shape))      # one new leading dim
            rlist.append((3, 2) + tuple(1 for _ in shape))    # two new leading dims
            rlist.append((2,) + tuple(2 if j == nd - 1 else 1 for j in range(nd)))
            for rp in rlist:
                off = len(rp) - nd
                big = any(rp[off + j] > 1 and shape[j] > 1 for j in range(nd))
                for kind in ("rand", "empty"):
                    if kind == "empty" and rng.random() < 0.6:
                        continue
                    s = rand_sparse(rng, shape, torch.float64, empty=(kind == "empty"), dup=rng.random() < 0.3)
                    cell = f"C20/sparse_repeat/{'dimsize>1' if big else 'dimsize=1'}/shape={bname(shape)}/reps={bname(rp)}/{kind}"
                    # a single repeat size must be passed as a tuple (sparse_repeat(s, 3) raises TypeError: noted, not claimed)
                    add(cell, "sprepeat", s=sparg(s), reps=list(rp), tuplearg=(len(rp) == 1 or rng.random() < 0.3))
        # ---------------------------------------------------------------- permutations
        for n in (1, 2, 3, 5):
            for kb in ((), (2,), (2, 3)):
                for lk, rk in itertools.product(("none", "full", "partial", "batched", "bcast"), repeat=2):
                    if n == 1 and "partial" in (lk, rk):
                        continue
                    if (lk, rk) != ("none", "none") and kb == (2, 3) and rng.random() < 0.5 and not thorough:
                        continue

                    def mk(kind, size):
                        if kind == "none":
                            return None
                        if kind in ("full", "partial"):
                            k = size if kind == "full" else max(1, size - 1 - rng.randrange(max(1, size - 1)))
                            return torch.tensor(rng.sample(range(size), k), dtype=torch.long)
                        b = kb if kind == "batched" else ((2,) if kb == () else (1,) * len(kb))
                        if b == ():
                            b = (1,)
                        tot = 1
                        for v in b:
                            tot *= v
                        k = size if rng.random() < 0.5 else max(1, size - 1)
                        return torch.tensor([rng.sample(range(size), k) for _ in range(tot)], dtype=torch.long).reshape(b + (k,))
                    m2 = n + (1 if rng.random() < 0.3 else 0)  # rectangular K occasionally
                    K = ival(rng, kb + (n, m2), -9, 9)
                    l, r = mk(lk, n), mk(rk, m2)
                    asop = rng.random() < 0.3 and n == m2
                    add(f"C20/apply_permutation/n={n}/kb={bname(kb)}/l={lk}/r={rk}/{'op' if asop else 'tensor'}", "perm", K=targ(K),
                        l=targ(l) if l is not None else None, r=targ(r) if r is not None else None, asop=asop)
        # mixed batch ranks: K, left and right permutation with different batch shapes (incl. more batch dims than K)
        for n in (2, 3):
            for kb, lb, rb in (((3,), (2, 1), (3,)), ((), (2,), (2,)), ((2, 1), (1, 3), ()), ((1, 2), (3, 1, 1), (2,)), ((2,), (), (3, 1)),
                               ((2, 3), (3,), (2, 1))):
                def mkp(b, size, k):
                    tot = 1
                    for v in b:
                        tot *= v
                    return torch.tensor([rng.sample(range(size), k) for _ in range(tot)], dtype=torch.long).reshape(b + (k,))
                K = ival(rng, kb + (n, n + 1), -9, 9)
                l, r = mkp(lb, n, n if rng.random() < 0.5 else n - 1), mkp(rb, n + 1, n + 1 if rng.random() < 0.5 else n)
                add(f"C20/apply_permutation/mixed/n={n}/kb={bname(kb)}/lb={bname(lb)}/rb={bname(rb)}", "perm", K=targ(K), l=targ(l), r=targ(r),
                    asop=False)
        for n in (1, 2, 3, 4, 6):
            for b in ((), (1,), (3,), (2, 3), (2, 1, 2)):
                tot = 1
                for v in b:
                    tot *= v
                p = torch.tensor([rng.sample(range(n), n) for _ in range(tot)], dtype=torch.long).reshape(b + (n,))
                add(f"C20/inverse_permutation/n={n}/b={bname(b)}", "invperm", p=targ(p))
        # ---------------------------------------------------------------- _matmul_broadcast_shape
        shapes_a = [(2, 3), (1, 3), (4, 2, 3), (1, 2, 3), (2, 1, 2, 3)]
        shapes_b = [(3,), (2,), (3, 1), (3, 2), (2, 2), (4, 3, 2), (1, 3, 2), (3, 3, 2), (5, 1, 3, 2), (2, 4, 3, 2), (4, 3)]
        for sa in shapes_a:
            for sb in shapes_b:
                add(f"C20/matmul_broadcast_shape/a={bname(sa)}/b={bname(sb)}", "mbshape", a=list(sa), b=list(sb))
        # ---------------------------------------------------------------- stable_qr / stable_pinverse
        for (m, n) in ((1, 1), (2, 2), (3, 3), (4, 2), (3, 1), (5, 3), (2, 4), (1, 3), (3, 5)):
            for dn, dt in dts:
                for b in ((), (2,)):
                    A = wellcond(rng, b, m, n, dt)
                    for thr in (128, 2):
                        add(f"C20/stable_qr/shape={'tall' if m > n else 'fat' if m < n else 'square'}/jitter=0/m={m}/n={n}/b={bname(b)}/{dn}/thr={thr}",
                            "stableqr", A=targ(A), threshold=thr)
                    add(f"C20/stable_pinverse/shape={'tall' if m > n else 'fat' if m < n else 'square'}/m={m}/n={n}/b={bname(b)}/{dn}", "pinv", A=targ(A))
                # chosen pivots: zero, tiny +/-, just above the threshold, regular
                k = min(m, n)
                pool = [0.0, 1e-9, -1e-9, 5e-7, -5e-7, 2e-6, -2e-6, 1.0, -3.0]
                ov = [rng.choice(pool) for _ in range(k)]
                ov[rng.randrange(k)] = rng.choice(pool[:5])
                A = wellcond(rng, (), m, n, dt)
                shape = 'tall' if m > n else 'fat' if m < n else 'square'
                add(f"C20/stable_qr/shape={shape}/jitter=1/m={m}/n={n}/{dn}/override", "stableqr", A=targ(A), override=ov)
                ov2 = [rng.choice(pool[5:]) for _ in range(k)]
                add(f"C20/stable_qr/shape={shape}/jitter=0/m={m}/n={n}/{dn}/override", "stableqr", A=targ(A), override=ov2)
                # genuinely rank-deficient / nearly rank-deficient inputs
                if k >= 1:
                    A = wellcond(rng, (), m, n, dt)
                    if n > 1 and m > 1:
                        A[..., :, -1] = A[..., :, 0] * (1 + (1e-9 if dt == torch.float64 else 0))
                        A[..., -1, :] = A[..., 0, :]
                    else:
                        A.zero_()
                    add(f"C20/stable_qr/shape={shape}/jitter=1/m={m}/n={n}/{dn}/deficient", "stableqr", A=targ(A))
                    add(f"C20/stable_pinverse/shape={shape}/m={m}/n={n}/{dn}/deficient", "pinv_deficient", A=targ(A))
    return cases


def wellcond(rng, b, m, n, dt):
    """integer matrix, full rank and well conditioned: small random part + a scaled identity block"""
    A = ival(rng, b + (m, n), -1, 1, dt)
    k = min(m, n)
    A[..., :k, :k] += torch.eye(k, dtype=dt) * 4
    return A


# ------------------------------------------------------------------------------------------------
# one case
# ------------------------------------------------------------------------------------------------
def evaluate(kernel, args):
    torch.manual_seed(0)
    return KERNELS[kernel](args)


def extra_checks(kernel, args, res):
    """property parts that are not a plain value comparison"""
    if kernel == "stableqr" and res["impl"][0] == "T":
        A, ov = res["extra_contract"]
        if ov is None:
            # contract: Q has orthonormal columns, R upper triangular, Q R' = A + Q J with |J| <= 1e-6
            from linear_operator.utils.qr import stable_qr
            Q, R = stable_qr(A)
            tol = 1e-9 if A.dtype == torch.float64 else 1e-4
            k = Q.shape[-1]
            if (Q.mT @ Q - torch.eye(k, dtype=A.dtype)).abs().max() > tol:
                return "Q columns not orthonormal"
            if R.tril(-1).abs().max() > 0:
                return "R not upper triangular"
            if (Q @ R - A).abs().max() > tol * (1 + A.abs().max()) + 2e-6:
                return "Q R' differs from A by more than the jitter"
            if torch.diagonal(R, dim1=-2, dim2=-1).abs().min() < 0.99e-6:
                return "diagonal of R' below 1e-6"
    return None


# ------------------------------------------------------------------------------------------------
# run / replay
# ------------------------------------------------------------------------------------------------
def model_value(res, outs):
    """combine the driver outputs of one case into canonical values (one per alternative)"""
    if outs is None:
        return None
    if "gather" in res:
        vals = []
        for o in outs:
            p = parse_model(o)
            if p[0] == "ERR" and p[1] == "IndexError" and "errsentinel" in res:
                vals.append(Fraction(res["errsentinel"]))
                continue
            if p[0] != "V":
                return [p]
            vals.append(p[1])
        return [("T", res["gather"][1], vals)]
    ms = []
    for o in outs:
        o = o.split(" nnz=")[0]
        if o.startswith("SHAPE "):
            vals = [Fraction(v) for v in o[6:].split(",")] if o[6:] != "-" else []
            ms.append(("T", (len(vals),), vals))
            continue
        p = parse_model(o)
        if "sumto" in res and p[0] == "T":
            t = torch.tensor([float(v) for v in p[2]], dtype=torch.float64).reshape(p[1])
            t = t.sum_to_size(res["sumto"]) if tuple(t.shape) != res["sumto"] else t
            p = ("T", tuple(t.shape), [Fraction(v) for v in t.reshape(-1).tolist()])
        ms.append(p)
    return ms


def worker_main(path, start):
    """evaluate cases[start:] of the JSON file, one JSON line per case (flushed): a crash of the interpreter
    (heap corruption through malformed sparse indices, ...) is attributed to the case in flight by the parent."""
    import sys
    torch.set_num_threads(2)
    cases = json.load(open(path))
    for i in range(start, len(cases)):
        cell, kernel, args = cases[i]
        out = {"i": i}
        try:
            res = evaluate(kernel, args)
            impl, spec, tol = res["impl"], res["spec"], res.get("tol", 0.0)
            ok, what = same(impl, spec, tol), None
            if not ok:
                what = f"{kernel}: implementation {short(impl)} != dense definition {short(spec)}"
            elif res.get("mutated"):
                ok, what = False, f"{kernel}: {res['mutated']} (a corrupted operand makes every later call on it wrong)"
            elif "second" in res and not same(res["second"], spec, tol):
                ok, what = False, (f"{kernel}: SECOND call on the same operands {short(res['second'])} != dense definition {short(spec)} "
                                   f"(first call agreed)")
            else:
                ex = extra_checks(kernel, args, res)
                if ex:
                    ok, what = False, f"{kernel}: {ex}"
            out.update(ok=ok, what=what, impl=impl, lines=res["lines"], tol=tol, mtol=res.get("mtol", tol))
            for k in ("gather", "sumto", "impl_for_model", "errsentinel"):
                if k in res:
                    out[k] = res[k]
        except Exception as e:  # noqa
            out["harness_error"] = f"{type(e).__name__}: {e}"
        sys.stdout.write(json.dumps(out) + "\n")
        sys.stdout.flush()


def eval_cases(cases):
    """-> list of per-case dicts; {'crash': rc} for a case that killed the worker"""
    import os
    import subprocess
    import sys
    import tempfile
    fd, path = tempfile.mkstemp(prefix="c20_cases_", suffix=".json")
    with os.fdopen(fd, "w") as fh:
        json.dump(cases, fh)
    results, start, restarts = [], 0, 0
    try:
        while start < len(cases):
            r = subprocess.run([sys.executable, "-W", "ignore", "-m", "harness.checks.c20", "--worker", path, str(start)],
                               capture_output=True, text=True)
            got = []
            for ln in r.stdout.split("\n"):
                if ln.startswith("{"):
                    try:
                        got.append(json.loads(ln))
                    except ValueError:
                        break
            results += got
            start += len(got)
            if start < len(cases):
                results.append({"crash": r.returncode, "stderr": r.stderr[-300:]})
                start += 1
                restarts += 1
                if restarts > 25:
                    while start < len(cases):
                        results.append({"skipped": True})
                        start += 1
    finally:
        os.unlink(path)
    return results


def run(chk, cases=None):
    chk.rule = ("fixed catalogue of cells (kernel x size n>=1 x batch kind none/one/several/broadcast x rhs kind vector/matrix x "
                "dtype x value kind rand/duplicate-index/zero/all-zero/empty x index kind ...; also the operands handed to torch.dsmm, "
                "DSMM.backward called directly, toeplitz_getitem on arbitrary ints, three batch dims / size-1 dims on both sides / "
                "mismatching batches) with seed-random integer values; "
                "distinct = distinct (kernel, encoded inputs); non-trivial = result is not an error, not 1x1, not all zero")
    chk.assumptions += ["torch.fft / torch.dsmm / torch.linalg.qr / solve_triangular meet their textbook contracts (FFT = circular "
                        "convolution; dsmm = densify-then-matmul)", "torch dense indexing, matmul, repeat, scatter_add as reference semantics",
                        "float32/float64 arithmetic on integers |x| <= 2^24 is exact"]
    from ..extract import c20_kernels
    try:
        facts = c20_kernels.generate()
        for bad in c20_kernels.dynamic_crosscheck(facts):
            chk.proof_break("translator(c20_kernels inventory)", bad)
    except Exception as e:  # noqa
        chk.proof_break("translator(c20_kernels)", f"{type(e).__name__}: {e}")
    chk.prove("LinOp.Properties.C20", ["LinOp/C20", "LinOp/Generated/C20Facts.lean", "LinOp/Core/Parse.lean", "LinOp/Core/Basic.lean"])
    if cases is None:
        cases = gen_cases(chk.rng, chk.tier)
    cases = [list(c) for c in cases]
    results = eval_cases(cases)
    lines, owner = [], []
    for ci, res in enumerate(results):
        for ln in res.get("lines", []):
            lines.append(ln)
            owner.append(ci)
    outs = chk.run_driver("C20", lines) if lines else []
    per_case = {}
    if outs is not None:
        for o, ci in zip(outs, owner):
            per_case.setdefault(ci, []).append(o)
    for ci, (cell, kernel, args) in enumerate(cases):
        res = results[ci] if ci < len(results) else {"skipped": True}
        payload = {"kernel": kernel, "args": args, "cell": cell}
        if "crash" in res:
            chk.case(f"{kernel} {json.dumps(args, sort_keys=True)}", nontrivial=False)
            chk.violation(cell, f"{kernel}: the interpreter died (rc={res['crash']}) while evaluating this case: {res.get('stderr', '')[-160:]} "
                                f"| args {short(json.dumps(args))}", payload)
            continue
        if res.get("skipped"):
            continue
        if "harness_error" in res:
            chk.violation(cell, f"harness could not evaluate the case: {res['harness_error']}", payload)
            continue
        impl = res["impl"]
        nontriv = impl[0] != "ERR" and not (impl[0] == "T" and (len(impl[2]) <= 1 or not any(impl[2])))
        chk.case(f"{kernel} {json.dumps(args, sort_keys=True)}", nontrivial=nontriv)
        chk.count("kernel:" + kernel)
        chk.count("result:" + impl[0])
        if not res["ok"]:
            chk.violation(cell, res["what"] + f" | args {short(json.dumps(args))}", payload)
            continue
        if not res["lines"]:
            continue
        if "sumto" in res:
            res["sumto"] = tuple(res["sumto"])
        ms = model_value(res, per_case.get(ci)) if outs is not None else None
        if ms is None:
            continue
        if any(same(res.get("impl_for_model", impl), m, res["mtol"], dtype=False) for m in ms):
            chk.traces_validated += 1
        else:
            chk.corr_break(cell, f"{kernel}: model {short(ms)} != implementation {short(impl)} | line {res['lines'][0][:300]}", payload)


def replay(chk, payload):
    p = payload.get("payload") or {}
    if "kernel" not in p:
        print("replay names broken obligations only:", json.dumps(p)[:2000])
        return run(chk)
    return run(chk, cases=[(p.get("cell", payload.get("cell", "C20/replay")), p["kernel"], p["args"])])


if __name__ == "__main__":
    import sys
    if len(sys.argv) == 4 and sys.argv[1] == "--worker":
        worker_main(sys.argv[2], int(sys.argv[3]))
