"""C15 — torch.* dispatch on operators matches the methods, in either argument order.

Implementation side: every entry of both registered-function tables x a small integer-valued instance of every
concrete operator class x batch kinds x operand kinds (tensor, broadcast tensor, 0-d tensor, python scalar,
another operator: unrelated class / same class / instance of the direct base class) x both operand orders, plus
python operators (`T @ op`, `T - op`, `2 * op`, ...) and a list of unregistered torch functions.

For every case three things are computed on identical twin instances:
  impl    torch.f(args) with spies on the handler name in every class of the operands' MROs
          (-> which definition ran, with which positional arguments, and the result / exception)
  method  the call the Lean model predicts (defining class, method name, swapped or not), made directly
  dense   torch.f on `to_dense()` of the operands
Checks:  model routing == observed routing (correspondence, exact);  impl result == method result (exact);
         impl result == dense result (exact for ring / shape functions, tolerance for factorisations);
         unregistered functions raise NotImplementedError.
"""
import functools
import json
import math
import operator as pyop
import random
import types
import warnings

import torch

from ..extract import c15_dispatch
from ..extract import c15_rejections
from ..extract import c15_sigs
from ..extract import c15_bodies
from . import c15_ext

# --------------------------------------------------------------------------------------------------------------
# instances
# --------------------------------------------------------------------------------------------------------------


def imat(rng, *shape, lo=-3, hi=3, dtype=torch.float64):
    n = 1
    for s in shape:
        n *= s
    return torch.tensor([rng.randint(lo, hi) for _ in range(n)], dtype=dtype).reshape(*shape)


def inz(rng, *shape, dtype=torch.float64):
    """integers without zeros (divisors); powers of two so that reciprocals are exact"""
    n = 1
    for s in shape:
        n *= s
    return torch.tensor([rng.choice([-4, -2, -1, 1, 2, 4]) for _ in range(n)], dtype=dtype).reshape(*shape)


def ipsd(rng, *batch, n, dtype=torch.float64):
    L = torch.tril(imat(rng, *batch, n, n, lo=-1, hi=1, dtype=dtype), -1)
    d = imat(rng, *batch, n, lo=1, hi=2, dtype=dtype)
    L = L + torch.diag_embed(d)
    return L @ L.mT, L


def ipos(rng, *shape, dtype=torch.float64):
    return imat(rng, *shape, lo=1, hi=4, dtype=dtype)


def _lin_kernel(x1, x2, diag=False, **kw):
    if diag:
        return (x1 * x2).sum(-1)
    return x1 @ x2.mT


ABSTRACT = {"LinearOperator", "BlockLinearOperator", "AbstractPermutationLinearOperator"}
SIZE4 = {"BlockDiagLinearOperator", "BlockInterleavedLinearOperator", "KroneckerProductDiagLinearOperator",
         "KroneckerProductAddedDiagLinearOperator", "SumKroneckerLinearOperator", "KroneckerProductLinearOperator",
         "KroneckerProductTriangularLinearOperator", "TransposePermutationLinearOperator"}
# direct concrete base class that can be built with the same shape -> used as the *left* operand of op-op cases
SUPER_PARTNER = {
    "ConstantDiagLinearOperator": "DiagLinearOperator", "IdentityLinearOperator": "ConstantDiagLinearOperator",
    "DiagLinearOperator": "TriangularLinearOperator", "PsdSumLinearOperator": "SumLinearOperator",
    "AddedDiagLinearOperator": "SumLinearOperator", "KroneckerProductAddedDiagLinearOperator": "AddedDiagLinearOperator",
    "LowRankRootAddedDiagLinearOperator": "AddedDiagLinearOperator", "SumKroneckerLinearOperator": "SumLinearOperator",
    "CholLinearOperator": "RootLinearOperator", "LowRankRootLinearOperator": "RootLinearOperator",
    "KroneckerProductTriangularLinearOperator": "KroneckerProductLinearOperator",
    "KroneckerProductDiagLinearOperator": "DiagLinearOperator",
}


def build(name, rng, batch=(), n=None, dtype=torch.float64):
    """Small integer-valued instance of class `name` (symmetric positive definite where the class allows)."""
    import linear_operator.operators as O
    from linear_operator.operators.keops_linear_operator import KeOpsLinearOperator
    from linear_operator.operators.permutation_linear_operator import PermutationLinearOperator, TransposePermutationLinearOperator
    b = tuple(batch)
    D = O.DenseLinearOperator
    name, _, variant = name.partition("@")
    if n is None:
        n = 4 if name in SIZE4 else 3
    psd = lambda *bb, m=n: ipsd(rng, *b, *bb, n=m, dtype=dtype)  # noqa: E731
    if name == "DenseLinearOperator":
        return D(psd()[0])
    if name == "BlockDiagLinearOperator":
        return O.BlockDiagLinearOperator(D(psd(2, m=2)[0]))
    if name == "BlockInterleavedLinearOperator":
        return O.BlockInterleavedLinearOperator(D(psd(2, m=2)[0]))
    if name == "SumBatchLinearOperator":
        return O.SumBatchLinearOperator(D(psd(2)[0]))
    if name == "BatchRepeatLinearOperator":
        base = D(ipsd(rng, *((1,) * len(b)), n=n, dtype=dtype)[0])
        return O.BatchRepeatLinearOperator(base, torch.Size(b if b else (1,)))
    if name == "TriangularLinearOperator":
        if variant == "upper":
            return O.TriangularLinearOperator(psd()[1].mT.contiguous(), upper=True)
        return O.TriangularLinearOperator(psd()[1])
    if name == "DiagLinearOperator":
        return O.DiagLinearOperator(ipos(rng, *b, n, dtype=dtype))
    if name == "ConstantDiagLinearOperator":
        return O.ConstantDiagLinearOperator(ipos(rng, *b, 1, dtype=dtype), diag_shape=n)
    if name == "IdentityLinearOperator":
        return O.IdentityLinearOperator(n, batch_shape=torch.Size(b), dtype=dtype)
    if name == "KroneckerProductDiagLinearOperator":
        return O.KroneckerProductDiagLinearOperator(O.DiagLinearOperator(ipos(rng, *b, 2, dtype=dtype)),
                                                    O.DiagLinearOperator(ipos(rng, *b, 2, dtype=dtype)))
    if name == "ZeroLinearOperator":
        return O.ZeroLinearOperator(*b, n, n, dtype=dtype)
    if name == "SumLinearOperator":
        return O.SumLinearOperator(D(psd()[0]), D(psd()[0]))
    if name == "PsdSumLinearOperator":
        return O.PsdSumLinearOperator(D(psd()[0]), D(psd()[0]))
    if name == "AddedDiagLinearOperator":
        return O.AddedDiagLinearOperator(D(psd()[0]), O.DiagLinearOperator(ipos(rng, *b, n, dtype=dtype)))
    if name == "KroneckerProductAddedDiagLinearOperator":
        k = O.KroneckerProductLinearOperator(D(psd(m=2)[0]), D(psd(m=2)[0]))
        return O.KroneckerProductAddedDiagLinearOperator(k, O.DiagLinearOperator(ipos(rng, *b, 4, dtype=dtype)))
    if name == "LowRankRootAddedDiagLinearOperator":
        return O.LowRankRootAddedDiagLinearOperator(O.LowRankRootLinearOperator(imat(rng, *b, n, 1, dtype=dtype)),
                                                    O.DiagLinearOperator(ipos(rng, *b, n, dtype=dtype)))
    if name == "SumKroneckerLinearOperator":
        k1 = O.KroneckerProductLinearOperator(D(psd(m=2)[0]), D(psd(m=2)[0]))
        k2 = O.KroneckerProductLinearOperator(D(psd(m=2)[0]), D(psd(m=2)[0]))
        return O.SumKroneckerLinearOperator(k1, k2)
    if name == "MatmulLinearOperator":
        r = imat(rng, *b, n, n, lo=-1, hi=1, dtype=dtype) + 3 * torch.eye(n, dtype=dtype)
        return O.MatmulLinearOperator(D(r), D(r.mT.contiguous()))
    if name == "RootLinearOperator":
        return O.RootLinearOperator(psd()[1])
    if name == "CholLinearOperator":
        return O.CholLinearOperator(O.TriangularLinearOperator(psd()[1]))
    if name == "LowRankRootLinearOperator":
        return O.LowRankRootLinearOperator(psd()[1])
    if name == "CatLinearOperator":
        A = psd()[0]
        if variant.startswith("b"):          # concatenated along batch dim k, unequal pieces where the size allows
            k = int(variant[1:])
            return O.CatLinearOperator(D(A.narrow(k, 0, 1)), D(A.narrow(k, 1, A.shape[k] - 1)), dim=k)
        if variant == "cols":
            return O.CatLinearOperator(D(A[..., :, :1]), D(A[..., :, 1:]), dim=-1)
        if variant == "3rows":
            return O.CatLinearOperator(D(A[..., :1, :]), D(A[..., 1:2, :]), D(A[..., 2:, :]), dim=-2)
        return O.CatLinearOperator(D(A[..., :2, :]), D(A[..., 2:, :]), dim=-2)
    if name == "ConstantMulLinearOperator":
        return O.ConstantMulLinearOperator(D(psd()[0]), torch.tensor(2.0, dtype=dtype))
    if name == "InterpolatedLinearOperator":
        return O.InterpolatedLinearOperator(D(psd()[0]))
    if name == "KeOpsLinearOperator":
        x = psd()[1]
        with warnings.catch_warnings():
            warnings.simplefilter("ignore")
            return KeOpsLinearOperator(x, x, _lin_kernel)
    if name == "KernelLinearOperator":
        x = psd()[1]
        return O.KernelLinearOperator(x, x, covar_func=_lin_kernel)
    if name == "KroneckerProductLinearOperator":
        return O.KroneckerProductLinearOperator(D(psd(m=2)[0]), D(psd(m=2)[0]))
    if name == "KroneckerProductTriangularLinearOperator":
        return O.KroneckerProductTriangularLinearOperator(O.TriangularLinearOperator(psd(m=2)[1]),
                                                          O.TriangularLinearOperator(psd(m=2)[1]))
    if name == "MaskedLinearOperator":
        base = D(psd(m=n + 1)[0])
        m = torch.tensor([True, False] + [True] * (n - 1))
        return O.MaskedLinearOperator(base, m, m)
    if name == "MulLinearOperator":
        return O.MulLinearOperator(O.RootLinearOperator(psd()[1]), O.RootLinearOperator(psd()[1]))
    if name == "PermutationLinearOperator":
        p = list(range(n))
        rng.shuffle(p)
        return PermutationLinearOperator(torch.tensor(p).expand(*b, n).contiguous())
    if name == "TransposePermutationLinearOperator":
        return TransposePermutationLinearOperator(2)
    if name == "ToeplitzLinearOperator":
        c = imat(rng, *b, n, lo=-1, hi=1, dtype=dtype)
        c[..., 0] = 4
        return O.ToeplitzLinearOperator(c)
    raise KeyError(name)


class TS(torch.Tensor):
    """Tensor subclass with the default __torch_function__"""


class FG:
    """Foreign participant of the torch-function protocol"""

    @classmethod
    def __torch_function__(cls, func, types, args=(), kwargs=None):
        return NotImplemented


# --------------------------------------------------------------------------------------------------------------
# observation
# --------------------------------------------------------------------------------------------------------------


_CLOCK = [0]


class Spy:
    """Wrap every definition of `name` on the MROs of the given classes; record the first (outermost) call."""

    def __init__(self, classes, name):
        self.name, self.calls, self.patched = name, [], []
        seen = []
        for cls in classes:
            for k in cls.__mro__:
                if k not in seen and name in k.__dict__ and isinstance(k.__dict__[name], types.FunctionType):
                    seen.append(k)
        self.targets = seen
        self.depth = 0

    def __enter__(self):
        for k in self.targets:
            orig = k.__dict__[self.name]

            def wrapper(*a, __orig=orig, __k=k, **kw):
                if self.depth == 0:
                    _CLOCK[0] += 1
                    self.calls.append((__k.__name__, a, kw, _CLOCK[0]))
                self.depth += 1
                try:
                    return __orig(*a, **kw)
                finally:
                    self.depth -= 1

            functools.update_wrapper(wrapper, orig)
            self.patched.append((k, orig))
            setattr(k, self.name, wrapper)
        return self

    def __exit__(self, *exc):
        for k, orig in self.patched:
            setattr(k, self.name, orig)
        return False


def is_op(x):
    from linear_operator.operators import LinearOperator
    return isinstance(x, LinearOperator)


def arg_token(x):
    if is_op(x):
        return "op:" + type(x).__name__
    if isinstance(x, TS):
        return "ts"
    if isinstance(x, FG):
        return "fg"
    if type(x) is torch.Tensor:
        return "t"
    return "s"


def canon(x):
    """result -> nested structure of ('T'|'O', tensor) / python values"""
    if is_op(x):
        return ("O", x.to_dense())
    if isinstance(x, torch.Tensor):
        return ("T", x.as_subclass(torch.Tensor) if type(x) is not torch.Tensor else x)
    if isinstance(x, (tuple, list)):
        return ("L", [canon(y) for y in x])
    return ("V", x)


def same(a, b, tol=0.0, check_kind=True, check_dtype=True):
    """compare canon structures; returns None or a description of the first difference"""
    if a[0] == "L" or b[0] == "L":
        if a[0] != b[0] or len(a[1]) != len(b[1]):
            return f"structure {a[0]} vs {b[0]}"
        for x, y in zip(a[1], b[1]):
            d = same(x, y, tol, check_kind, check_dtype)
            if d:
                return d
        return None
    if a[0] == "V" or b[0] == "V":
        av = a[1].item() if a[0] in "TO" and a[1].numel() == 1 else a[1]
        bv = b[1].item() if b[0] in "TO" and b[1].numel() == 1 else b[1]
        if isinstance(av, torch.Tensor) or isinstance(bv, torch.Tensor):
            return "tensor vs python value"
        return None if av == bv else f"value {av!r} vs {bv!r}"
    if check_kind and a[0] != b[0]:
        return f"kind {a[0]} vs {b[0]}"
    x, y = a[1], b[1]
    if tuple(x.shape) != tuple(y.shape):
        return f"shape {tuple(x.shape)} vs {tuple(y.shape)}"
    if check_dtype and x.dtype != y.dtype:
        return f"dtype {x.dtype} vs {y.dtype}"
    if x.dtype == torch.bool or y.dtype == torch.bool:
        return None if torch.equal(x.bool(), y.bool()) else "bool values differ"
    xd, yd = x.double(), y.double()
    if tol == 0.0:
        ok = torch.equal(torch.nan_to_num(xd, nan=12345.0), torch.nan_to_num(yd, nan=12345.0))
    else:
        ok = torch.allclose(xd, yd, rtol=tol, atol=tol, equal_nan=True)
    if not ok:
        return f"values differ (max abs diff {(xd - yd).abs().max().item():.6g})"
    return None


def densify(x):
    if is_op(x):
        return x.to_dense()
    if isinstance(x, TS):
        return x.as_subclass(torch.Tensor)
    if isinstance(x, (list, tuple)) and any(is_op(y) for y in x):
        return type(x)(densify(y) for y in x)
    return x


EXACT = {"torch.add", "torch.sub", "torch.mul", "torch.matmul", "torch.clone", "torch.numel", "torch.transpose", "torch.permute",
         "torch.squeeze", "torch.unsqueeze", "torch.sum", "torch.diagonal", "torch.isclose", "torch.abs", "torch.div",
         "torch.Tensor.add", "torch.Tensor.sub", "torch.Tensor.mul", "torch.Tensor.matmul"}
SHAPE_ONLY = {"torch.clone", "torch.numel", "torch.transpose", "torch.permute", "torch.squeeze", "torch.unsqueeze", "torch.isclose"}
# functions that reject by type / shape only (never by value): new rejections are reported
SHAPE_FNS = {"torch.permute", "torch.transpose", "torch.sum", "torch.prod", "torch.squeeze", "torch.unsqueeze", "torch.diagonal",
             "torch.clone", "torch.numel"}
STRICT = {"torch.add", "torch.sub", "torch.mul", "torch.div", "torch.matmul", "torch.isclose", "torch.clone", "torch.numel",
          "torch.transpose", "torch.permute", "torch.squeeze", "torch.unsqueeze", "torch.sum", "torch.diagonal",
          "torch.Tensor.add", "torch.Tensor.sub", "torch.Tensor.mul", "torch.Tensor.matmul", "pyop"}
# argument forms a method may decline with its own NotImplementedError (today it silently ignores them: open finding)
LEGIT_NOT_IMPLEMENTED = {("torch.diagonal", "batch-dims")}
# ... and on batched operators only: forms that leave dim1 and/or dim2 to torch's defaults (0, 1), which are not the matrix dims there
# (today the method silently substitutes its own defaults -2 / -1: open finding; notes/C15_fix_6.diff makes it decline)
LEGIT_NOT_IMPLEMENTED_BATCHED = {("torch.diagonal", lb) for lb in ("()", "offset0", "mix:offset|dim2", "kw:dim1", "pos:offset,dim1")}
BASELINE_OUT = None   # dict while (re)recording the rejection baseline (development only, see record_baseline)

# one-operand numeric functions whose *method* semantics (matrix function vs elementwise, symmetric-only eigh, ...) is the
# business of C04-C06: dispatch == method is checked exactly, disagreement with dense torch is only counted
METHOD_LEVEL = {"torch.abs", "torch.exp", "torch.log", "torch.sqrt", "torch.inverse", "torch.logdet", "torch.prod", "torch.linalg.cholesky",
                "torch.linalg.eigh", "torch.linalg.eigvalsh", "torch.linalg.svd", "torch.linalg.solve", "torch.linalg.solve_triangular"}
RECON = {"torch.linalg.eigh", "torch.linalg.svd"}


def compare_dense(fkey, impl, dense, A, dt):
    try:
        return _compare_dense(fkey, impl, dense, A, dt)
    except Exception as e:  # noqa: BLE001
        return ("value", f"comparison failed: {type(e).__name__}: {e}")


def _compare_dense(fkey, impl, dense, A, dt):
    """impl result vs torch on dense operands.  Returns None or a (aspect, description)."""
    tol = 1e-7 if dt == torch.float64 else 2e-3
    ci, cd = canon(impl), canon(dense)
    if fkey == "torch.linalg.eigh":
        if ci[0] != "L" or len(ci[1]) != 2:
            return ("shape", "eigh did not return a pair")
        d = same(ci[1][0], cd[1][0], tol, check_kind=False)
        if d:
            return ("value", "eigenvalues: " + d)
        V, e = ci[1][1][1], ci[1][0][1]
        rec = V @ torch.diag_embed(e) @ V.mT
        return None if torch.allclose(rec.double(), A.double(), rtol=tol * 10, atol=tol * 10) else ("value", "V diag(e) V^T != A")
    if fkey == "torch.linalg.svd":
        if ci[0] != "L" or len(ci[1]) != 3:
            return ("shape", "svd did not return a triple")
        U, S, Vh = ci[1][0][1], ci[1][1][1], ci[1][2][1]
        d = same(("T", torch.sort(S, dim=-1, descending=True).values), cd[1][1], tol, check_kind=False)
        if d:
            return ("value", "singular values: " + d)
        rec = U @ torch.diag_embed(S) @ Vh
        return None if torch.allclose(rec.double(), A.double(), rtol=tol * 10, atol=tol * 10) else ("value", "U S Vh != A")
    d = same(ci, cd, tol, check_kind=False)
    if d is None:
        return None
    aspect = "shape" if d.startswith(("shape", "structure", "tensor vs")) else ("dtype" if d.startswith("dtype") else "value")
    return (aspect, d)


# --------------------------------------------------------------------------------------------------------------
# case catalogue
# --------------------------------------------------------------------------------------------------------------

REQUIRED_FIRST = ["torch.add", "torch.sub", "torch.mul", "torch.div", "torch.matmul", "torch.diagonal", "torch.logdet",
                  "torch.linalg.solve", "torch.linalg.cholesky", "torch.linalg.eigh", "torch.linalg.eigvalsh", "torch.linalg.svd",
                  "torch.linalg.solve_triangular", "torch.inverse", "torch.abs", "torch.exp", "torch.log", "torch.sqrt", "torch.sum",
                  "torch.prod", "torch.squeeze", "torch.unsqueeze", "torch.transpose", "torch.permute", "torch.clone", "torch.numel",
                  "torch.isclose"]
REQUIRED_SECOND = ["torch.add", "torch.sub", "torch.mul", "torch.matmul", "torch.Tensor.add", "torch.Tensor.sub",
                   "torch.Tensor.mul", "torch.Tensor.matmul"]
BINARY = {"torch.add", "torch.sub", "torch.mul", "torch.div", "torch.matmul", "torch.isclose",
          "torch.Tensor.add", "torch.Tensor.sub", "torch.Tensor.mul", "torch.Tensor.matmul"}
UNARY_PLAIN = {"torch.abs", "torch.exp", "torch.log", "torch.sqrt", "torch.clone", "torch.numel", "torch.logdet", "torch.inverse",
               "torch.linalg.eigh", "torch.linalg.eigvalsh", "torch.linalg.svd"}

UNREGISTERED = [  # (name, arity)  arity 1: f(op); 2: f(op, T) and f(T, op); 'v': f(op, v); 'l': f([op, T])
    ("torch.trace", 1), ("torch.det", 1), ("torch.neg", 1), ("torch.t", 1), ("torch.linalg.inv", 1), ("torch.linalg.matrix_norm", 1),
    ("torch.linalg.det", 1), ("torch.linalg.slogdet", 1), ("torch.zeros_like", 1), ("torch.ones_like", 1), ("torch.tril", 1),
    ("torch.triu", 1), ("torch.diag", 1), ("torch.flatten", 1), ("torch.linalg.pinv", 1), ("torch.linalg.eigvals", 1),
    ("torch.mean", 1), ("torch.square", 1), ("torch.sign", 1), ("torch.relu", 1), ("torch.linalg.matrix_rank", 1),
    ("torch.linalg.cond", 1), ("torch.linalg.svdvals", 1), ("torch.linalg.qr", 1), ("torch.cholesky_inverse", 1), ("torch.max", 1),
    ("torch.argmax", 1), ("torch.diag_embed", 1), ("torch.detach", 1), ("torch.reciprocal", 1), ("torch.rsqrt", 1),
    ("torch.kron", 2), ("torch.cholesky_solve", 2), ("torch.allclose", 2), ("torch.equal", 2), ("torch.mm", 2), ("torch.maximum", 2),
    ("torch.minimum", 2), ("torch.eq", 2), ("torch.ne", 2), ("torch.lt", 2), ("torch.true_divide", 2), ("torch.linalg.lstsq", 2),
    ("torch.cdist", 2), ("torch.pow", 2), ("torch.bmm", 2), ("torch.rsub", 2), ("torch.fmod", 2), ("torch.atan2", 2),
    ("torch.Tensor.div", "second"), ("torch.Tensor.add_", "second"), ("torch.Tensor.sub_", "second"), ("torch.Tensor.mul_", "second"),
    ("torch.Tensor.__iadd__", "second"), ("torch.Tensor.__isub__", "second"), ("torch.Tensor.__imul__", "second"),
    ("torch.Tensor.__rsub__", "second"), ("torch.Tensor.__truediv__", "second"), ("torch.Tensor.mm", "second"),
    ("torch.Tensor.eq", "second"), ("torch.Tensor.copy_", "second"),
    ("torch.mv", "v"), ("torch.dot", "vv"), ("torch.stack", "l"), ("torch.cat", "l"), ("torch.linalg.multi_dot", "l"),
    ("torch.block_diag", "l2"),
]


def operand_kinds(rng, cname, b, n, dt, seedbase):
    """name -> (thunk producing a fresh operand, token-free description).  Operators are produced twice (twin)."""
    kinds = {}
    T = imat(rng, *b, n, n, dtype=dt)
    kinds["tensor"] = lambda: T
    if b:
        Tb = imat(rng, n, n, dtype=dt)
        kinds["tensor-bcast"] = lambda: Tb
    z = torch.tensor(float(rng.choice([-2, 2, 3])), dtype=dt)
    kinds["0d"] = lambda: z
    sc = float(rng.choice([-2, 2, 4]))
    kinds["scalar"] = lambda: sc
    isc = rng.choice([-1, 2, 3])
    kinds["int"] = lambda: isc
    # constants shaped like a matrix: (1,1), and one constant per batch member (*batch,1,1) with pairwise different values
    c11 = torch.tensor([[float(rng.choice([-2, 2, 4]))]], dtype=dt)
    kinds["const11"] = lambda: c11
    if b:
        pool = [2.0, -2.0, 4.0, -4.0, 8.0, -8.0, 0.5, -0.5, 16.0, -16.0, 0.25, -0.25]
        rng.shuffle(pool)
        nbm = 1
        for x in b:
            nbm *= x
        bc = torch.tensor([pool[i % len(pool)] for i in range(nbm)], dtype=dt).reshape(*b, 1, 1)
        kinds["bconst"] = lambda: bc
        if len(b) >= 2:
            bp = torch.tensor([pool[(i + 3) % len(pool)] for i in range(b[-1])], dtype=dt).reshape(b[-1], 1, 1)
            kinds["bconst-partial"] = lambda: bp
    s1, s2, s3 = (rng.randrange(2 ** 31) for _ in range(3))
    unrelated = "DiagLinearOperator" if cname in ("DenseLinearOperator",) else "DenseLinearOperator"
    if dt == torch.float64:
        kinds["op-unrelated"] = lambda: build(unrelated, random.Random(s1), b, n=n, dtype=dt)
        kinds["op-same"] = lambda: build(cname, random.Random(s2), b, dtype=dt)
        if cname in SUPER_PARTNER:
            kinds["op-super"] = lambda: build(SUPER_PARTNER[cname], random.Random(s3), b, n=n, dtype=dt)
        kinds["op-tril"] = lambda: build("TriangularLinearOperator", random.Random(s3 + 1), b, n=n, dtype=dt)
        kinds["op-triu"] = lambda: build("TriangularLinearOperator@upper", random.Random(s3 + 2), b, n=n, dtype=dt)
        kinds["op-diag"] = lambda: build("DiagLinearOperator", random.Random(s3 + 3), b, n=n, dtype=dt)
    return kinds


FORM_PREFIXES = ("pos:", "kw:", "mix:", "nan:")   # call-form templates: every optional argument positionally / by keyword


def isclose_forms(K, asym):
    """Call forms of torch.isclose(x, y, rtol=1e-05, atol=1e-08, equal_nan=False): every optional argument passed positionally and
    by keyword, with values / operands for which the defaults give a different mask.  (label, other operand, kwargs, extra positionals);
    `nan:` forms run on a twin of the operator that carries a NaN.  `asym` = the operand for which rtol=0.5 holds in one direction only.
      near-dense  = A (1 + 2^-10)   relative distance ~1e-3: close with rtol=1e-2 only
      shift-dense = A + 1/2         absolute distance 0.5:   close with atol=1 only
      nan-dense   = A_nan           NaN at the same places:  close with equal_nan=True only"""
    return [("pos:rtol", K("near-dense"), {}, [1e-2]),
            ("pos:rtol,atol", K("shift-dense"), {}, [0.0, 1.0]),
            ("pos:rtol,atol/asym", K(asym), {}, [0.5, 0.0]),
            ("pos:rtol,atol,equal_nan=False", K("near-dense"), {}, [1e-2, 0.0, False]),
            ("mix:rtol|atol", K("shift-dense"), {"atol": 1.0}, [0.0]),
            ("mix:rtol|equal_nan", K("near-dense"), {"equal_nan": False}, [1e-2]),
            ("kw:rtol", K("near-dense"), {"rtol": 1e-2}, []),
            ("kw:atol", K("shift-dense"), {"atol": 1.0}, []),
            ("kw:atol,rtol", K("shift-dense"), {"atol": 1.0, "rtol": 0.0}, []),
            ("nan:pos:rtol,atol,equal_nan", K("nan-near-dense"), {}, [1e-2, 0.0, True]),
            ("nan:mix:rtol,atol|equal_nan", K("nan-near-dense"), {"equal_nan": True}, [1e-2, 0.0]),
            ("nan:kw:equal_nan", K("nan-dense"), {"equal_nan": True}, []),
            ("nan:kw:all", K("nan-near-dense"), {"equal_nan": True, "atol": 0.0, "rtol": 1e-2}, []),
            ("nan:default", K("nan-dense"), {}, [])]


def nanify(op):
    """Twin of `op` (same class, same structure) with a NaN in the last element of the first floating-point tensor of its
    representation; None if the class holds no floating-point data (Identity, Zero, permutations)."""
    from linear_operator.operators import LinearOperator
    done = [False]

    def rec(x):
        if done[0]:
            return x
        if isinstance(x, LinearOperator):
            args = [rec(a) for a in x._args]
            return x.__class__(*args, **x._kwargs) if done[0] else x
        if isinstance(x, torch.Tensor) and x.is_floating_point() and x.numel() > 0:
            y = x.clone()
            y.reshape(-1)[-1] = float("nan")
            done[0] = True
            return y
        return x

    res = rec(op)
    return res if done[0] else None


def templates_first(fkey, b, n, dt, rng, kinds):
    """[(label, extra positional args (thunks or values), kwargs)] for torch.f(op, *extra, **kwargs)"""
    nb = len(b)
    K = lambda k: ("kind", k)  # noqa: E731
    if fkey == "torch.clone":
        return [("()", [], {}), ("memory_format", [], {"memory_format": torch.contiguous_format})]
    if fkey in ("torch.linalg.eigh", "torch.linalg.eigvalsh"):
        return [("()", [], {}), ("UPLO", [], {"UPLO": "U"}), ("pos:UPLO", ["U"], {})]
    if fkey == "torch.linalg.svd":
        return [("()", [], {}), ("full_matrices", [], {"full_matrices": False}), ("pos:full_matrices", [False], {})]
    if fkey in UNARY_PLAIN:
        return [("()", [], {})]
    if fkey == "torch.linalg.cholesky":
        return [("()", [], {}), ("upper", [], {"upper": True}), ("upper=False", [], {"upper": False})]
    if fkey == "torch.diagonal":
        res = [("()", [], {}), ("dims", [], {"dim1": -2, "dim2": -1}), ("offset0", [0], {}), ("offset1", [1], {}),
               ("dims-rev", [], {"dim1": -1, "dim2": -2}), ("offset-1", [-1], {}), ("kw-offset0+dims", [], {"offset": 0, "dim1": -2, "dim2": -1}),
               ("pos-dims", [], {"dim1": nb, "dim2": nb + 1}), ("positional", [0, -2, -1], {}),
               ("kw-offset1+dims", [], {"offset": 1, "dim1": -2, "dim2": -1})]
        # one dim supplied, the other left to the default (torch: dim1=0 / dim2=1, the method: -2 / -1): same dims without a batch
        res += [("mix:offset|dim2", [0], {"dim2": -1}), ("kw:dim1", [], {"dim1": -2}), ("pos:offset,dim1", [0, -2], {})]
        if nb:
            res += [("batch-dims", [], {"dim1": 0, "dim2": -1})]
        return res
    if fkey == "torch.transpose":
        res = [("-1,-2", [-1, -2], {}), ("-2,-1", [-2, -1], {}), (f"{nb},{nb + 1}", [nb, nb + 1], {}), ("mixed-sign", [nb, -1], {}),
               ("same", [-1, -1], {}), ("kw-dim0-dim1", [], {"dim0": -1, "dim1": -2})]
        if nb:
            res += [("0,-1", [0, -1], {}), ("-3,-1", [-3, -1], {})]
        if nb >= 2:
            res += [("0,1", [0, 1], {}), ("-4,-3", [-4, -3], {})]
        if nb >= 3:
            res += [(f"{i},{j}", [i, j], {}) for i in range(nb) for j in range(nb) if i != j and (i, j) != (0, 1)]
            res += [(f"{i - nb - 2},{j}", [i - nb - 2, j], {}) for i, j in ((0, 2), (2, 1))]
        return res
    if fkey == "torch.permute":
        ident = tuple(range(nb + 2))
        res = [("identity", [ident], {}), ("swap-mat", [ident[:-2] + (nb + 1, nb)], {}), ("neg", [tuple(range(-nb - 2, 0))], {}),
               ("kw-dims", [], {"dims": ident}), ("list", [list(ident)], {})]
        if nb >= 2:
            res += [("batch-perm", [(1, 0) + ident[2:]], {}), ("batch-perm-neg", [(-3, -4, -2, -1)], {})]
        if nb:
            res += [("batch-into-matrix", [(nb,) + ident[:nb] + (nb + 1,)], {})]
        if nb >= 3:
            import itertools
            for perm in itertools.permutations(range(nb)):
                if perm != tuple(range(nb)):
                    res += [("perm" + "".join(map(str, perm)), [perm + ident[nb:]], {})]
            res += [("perm-cyclic-neg", [tuple(x - nb - 2 for x in (1, 2, 0)) + (-2, -1)], {}),
                    ("perm-cyclic-varargs", [1, 2, 0, nb, nb + 1], {}), ("perm-cyclic+T", [(2, 0, 1) + (nb + 1, nb)], {})]
        return res
    if fkey == "torch.squeeze" and nb >= 3:
        return [(str(i), [i], {}) for i in range(nb + 2)] + [(str(i - nb - 2), [i - nb - 2], {}) for i in range(nb)] + [("none", [], {})]
    if fkey == "torch.unsqueeze" and nb >= 3:
        return [(str(i), [i], {}) for i in range(nb + 1)] + [(str(i - nb - 3), [i - nb - 3], {}) for i in range(nb + 1)]
    if fkey == "torch.sum" and nb >= 3:
        return [(str(i), [i], {}) for i in range(nb + 2)] + [(str(i - nb - 2), [i - nb - 2], {}) for i in range(nb)] + \
               [("dim=1", [], {"dim": 1}), ("all", [], {})]
    if fkey == "torch.prod" and nb >= 3:
        return [(str(i), [i], {}) for i in range(nb)] + [(str(i - nb - 2), [i - nb - 2], {}) for i in range(nb)]
    if fkey == "torch.squeeze":
        return [("0", [0], {}), ("-1", [-1], {}), ("none", [], {}), ("dim=0", [], {"dim": 0}), ("pos-last", [nb + 1], {}),
                ("neg-first", [-(nb + 2)], {})]
    if fkey == "torch.unsqueeze":
        return [("0", [0], {}), ("dim=0", [], {"dim": 0}), ("-1", [-1], {}), ("neg-first", [-(nb + 3)], {}), ("-3", [-3], {})] + \
               ([("1", [1], {})] if nb else [])
    if fkey == "torch.sum":
        return [("pos:dim,keepdim", [-1, True], {}), ("kw:dim,keepdim", [], {"keepdim": True, "dim": -2}), ("mix:dim|dtype", [-1], {"dtype": torch.float32}),
                ("-1", [-1], {}), ("-2", [-2], {}), ("dim=-1", [], {"dim": -1}), ("pos-last", [nb + 1], {}), ("pos-rows", [nb], {}),
                ("tuple", [(-1, -2)], {}), ("dim=tuple", [], {"dim": (-2, -1)}), ("keepdim", [-1], {"keepdim": True}),
                ("dim=-2,keepdim", [], {"dim": -2, "keepdim": True})] + \
               ([("0", [0], {}), ("neg-batch", [-3], {}), ("dim=0,keepdim", [], {"dim": 0, "keepdim": True})] if nb else []) + [("all", [], {})]
    if fkey == "torch.prod":
        return [("pos:dim,keepdim", [0, True], {}), ("kw:dim,keepdim", [], {"keepdim": True, "dim": 0}),
                ("0", [0], {}), ("-1", [-1], {}), ("dim=0", [], {"dim": 0}), ("-2", [-2], {}), ("keepdim", [0], {"keepdim": True})] + \
               ([("neg-batch", [-3], {})] if nb else [])
    if fkey == "torch.linalg.solve":
        B = imat(rng, *b, n, 2, dtype=dt)
        v = imat(rng, n, 1, dtype=dt)
        Bl = imat(rng, *b, 2, n, dtype=dt)
        return [("mat", [B], {}), ("col-bcast", [v], {}), ("left=True", [B], {"left": True}), ("left=False", [Bl], {"left": False})]
    if fkey == "torch.linalg.solve_triangular":
        B = imat(rng, *b, n, 2, dtype=dt)
        Bl = imat(rng, *b, 2, n, dtype=dt)
        return [("lower", [B], {"upper": False}), ("upper", [B], {"upper": True}), ("left=False", [Bl], {"upper": False, "left": False}),
                ("unitriangular", [B], {"upper": False, "unitriangular": True}), ("left=True", [B], {"upper": False, "left": True})]
    if fkey == "torch.isclose":
        return [("tensor", [K("self-dense")], {}), ("tensor-off", [K("tensor")], {}), ("rtol", [K("double-dense")], {"rtol": 0.5, "atol": 0.0}),
                ("op", [K("op-same")], {}), ("equal_nan", [K("self-dense")], {"equal_nan": True}), ("kw-other", [], {"other": K("self-dense")}),
                ("atol", [K("tensor")], {"rtol": 0.0, "atol": 2.0})] + \
               [(lb, [x] + extra, kw) for lb, x, kw, extra in isclose_forms(K, "double-dense")]
    if fkey == "torch.matmul":
        M = imat(rng, *b, n, 2, dtype=dt)
        v = imat(rng, n, dtype=dt)
        Mb = imat(rng, n, 2, dtype=dt)
        res = [("mat", [M], {}), ("vec", [v], {}), ("square", [K("tensor")], {}), ("0d", [K("0d")], {})]
        if nb:
            res += [("mat-bcast", [Mb], {})]
        res += [(k, [K(k)], {}) for k in ("op-unrelated", "op-same", "op-super", "op-tril", "op-triu", "op-diag") if k in kinds]
        res += [("kw-other", [], {"other": K("tensor")}), ("out", [K("tensor")], {"out": K("outbuf")})]
        return res
    if fkey in ("torch.add", "torch.sub"):
        res = [(k, [K(k)], {}) for k in kinds if k not in MATMUL_ONLY]
        res += [(k + "/alpha", [K(k)], {"alpha": 2}) for k in ("tensor", "op-unrelated", "op-same", "op-super") if k in kinds]
        res += [("tensor/alpha-float", [K("tensor")], {"alpha": -1.5}), ("kw-other", [], {"other": K("tensor")}),
                ("kw-other/alpha", [], {"other": K("tensor"), "alpha": 2}), ("out", [K("tensor")], {"out": K("outbuf")})]
        # falsy alpha values are values (the result is the first operand), not "no alpha"
        res += [(f"{k}/alpha0:{nm}", [K(k)], {"alpha": v}) for k in ("tensor", "op-unrelated", "op-same", "op-super") if k in kinds
                for nm, v in (FALSY_ALPHA if k == "tensor" else FALSY_ALPHA_OPS)]
        return res
    if fkey == "torch.mul":
        return [(k, [K(k)], {}) for k in kinds if k not in MATMUL_ONLY] + [("kw-other", [], {"other": K("tensor")}), ("kw-other-0d", [], {"other": K("0d")}),
                                                    ("out", [K("tensor")], {"out": K("outbuf")})]
    if fkey == "torch.div":
        D = inz(rng, *b, n, n, dtype=dt)
        return [("tensor-nz", [D], {})] + \
               [(k, [K(k)], {}) for k in ("0d", "scalar", "int", "const11", "bconst", "bconst-partial", "op-unrelated", "op-super") if k in kinds] + \
               [("kw-other-0d", [], {"other": K("0d")}), ("rounding_mode", [K("0d")], {"rounding_mode": "floor"})]
    # unknown registered function: generic attempts
    return [("()", [], {}), ("tensor", [K("tensor")], {})]


def templates_second(fkey, b, n, dt, rng, kinds):
    """[(label, first positional arg, kwargs)] for torch.f(x, op, **kwargs)"""
    K = lambda k: ("kind", k)  # noqa: E731
    if fkey in ("torch.matmul", "torch.Tensor.matmul"):
        M = imat(rng, *b, 2, n, dtype=dt)
        v = imat(rng, n, dtype=dt)
        res = [("mat", M, {}), ("vec", v, {}), ("square", K("tensor"), {})]
        if b:
            res += [("mat-bcast", imat(rng, 2, n, dtype=dt), {})]
        if fkey == "torch.matmul":
            res += [("0d", K("0d"), {}), ("tsub", ("tsub",), {})]
            res += [(k, K(k), {}) for k in ("op-unrelated", "op-same", "op-super", "op-tril", "op-triu", "op-diag") if k in kinds]
            res += [("kw-op", K("tensor"), {"other": SELF}), ("kw-input+op", None, {"input": K("tensor"), "other": SELF})]
        return res
    if fkey == "torch.isclose":
        return [("tensor", K("self-dense"), {}), ("tensor-off", K("tensor"), {}), ("rtol", K("half-dense"), {"rtol": 0.5, "atol": 0.0})] + \
               ([("op-super", K("op-super"), {})] if "op-super" in kinds else []) + isclose_forms(K, "half-dense")
    if fkey.startswith("torch.Tensor."):
        ks = [k for k in ("tensor", "tensor-bcast", "0d", "const11", "bconst", "bconst-partial") if k in kinds]
        res = [(k, K(k), {}) for k in ks]
        if fkey in ("torch.Tensor.add", "torch.Tensor.sub"):
            res += [("tensor/alpha", K("tensor"), {"alpha": 2})]
            res += [(f"tensor/alpha0:{nm}", K("tensor"), {"alpha": v}) for nm, v in FALSY_ALPHA]
        return res
    res = [(k, K(k), {}) for k in kinds if k not in MATMUL_ONLY]
    res += [("tsub", ("tsub",), {}), ("foreign", ("foreign",), {})]
    if fkey in ("torch.add", "torch.sub"):
        res += [(k + "/alpha", K(k), {"alpha": 2}) for k in ("tensor", "op-super", "0d") if k in kinds]
        res += [("tensor/alpha-float", K("tensor"), {"alpha": -1.5})]
        res += [(f"{k}/alpha0:{nm}", K(k), {"alpha": v}) for k in ("tensor", "op-super") if k in kinds
                for nm, v in (FALSY_ALPHA if k == "tensor" else FALSY_ALPHA_OPS)]
    res += [("kw-op", K("tensor"), {"other": SELF}), ("kw-input+op", None, {"input": K("tensor"), "other": SELF})]
    return res


MATMUL_ONLY = {"op-tril", "op-triu", "op-diag"}
# alpha values that are falsy in Python: `torch.add/sub(x, y, alpha=0)` is `x` (dense torch rejects a bool alpha for float results: counted)
# (a 0-dim float32 tensor: as a python scalar it never promotes the result dtype, for float32 and float64 operators alike)
FALSY_ALPHA = [("int", 0), ("float", 0.0), ("tensor", torch.tensor(0.0)), ("bool", False)]
FALSY_ALPHA_OPS = FALSY_ALPHA[:1]      # operator-valued second operands: one falsy value (all four for tensor operands)
SELF = ("self",)   # the operator under test, passed by keyword

PYOPS = [("T_matmul_op", "torch.Tensor.matmul", lambda T, op: T @ op), ("T_add_op", "torch.Tensor.add", lambda T, op: T + op),
         ("T_sub_op", "torch.Tensor.sub", lambda T, op: T - op), ("T_mul_op", "torch.Tensor.mul", lambda T, op: T * op),
         ("T_div_op", "torch.Tensor.div", lambda T, op: T / op),
         ("op_matmul_T", None, lambda T, op: op @ T), ("op_add_T", None, lambda T, op: op + T), ("op_sub_T", None, lambda T, op: op - T),
         ("op_mul_T", None, lambda T, op: op * T), ("op_div_2", None, lambda T, op: op / 2.0), ("2_mul_op", None, lambda T, op: 2.0 * op),
         ("op_mul_2", None, lambda T, op: op * 2.0), ("v_matmul_op", "torch.Tensor.matmul", lambda T, op: T[..., 0, :] @ op),
         ("op_mul_0d", None, lambda T, op, c: op * c, "0d"), ("0d_mul_op", "torch.Tensor.mul", lambda T, op, c: c * op, "0d"),
         ("op_div_0d", None, lambda T, op, c: op / c, "0d"),
         ("op_mul_c11", None, lambda T, op, c: op * c, "const11"), ("c11_mul_op", "torch.Tensor.mul", lambda T, op, c: c * op, "const11"),
         ("op_div_c11", None, lambda T, op, c: op / c, "const11"),
         ("op_mul_bconst", None, lambda T, op, c: op * c, "bconst"), ("bconst_mul_op", "torch.Tensor.mul", lambda T, op, c: c * op, "bconst"),
         ("op_div_bconst", None, lambda T, op, c: op / c, "bconst"),
         ("op_mul_bpartial", None, lambda T, op, c: op * c, "bconst-partial"),
         ("bpartial_mul_op", "torch.Tensor.mul", lambda T, op, c: c * op, "bconst-partial"),
         ("op_div_bpartial", None, lambda T, op, c: op / c, "bconst-partial"),
         ("op_neg", None, lambda T, op: -op), ("op_rsub_T", None, lambda T, op: op.__rsub__(T)), ("op_radd_T", None, lambda T, op: op.__radd__(T))]


# --------------------------------------------------------------------------------------------------------------
# running one case
# --------------------------------------------------------------------------------------------------------------


def outcome(thunk):
    try:
        with warnings.catch_warnings():
            warnings.simplefilter("ignore")
            res = thunk()
            return ("ok", res, canon(res))   # a lazy result that cannot be evaluated counts as raising
    except Exception as e:  # noqa: BLE001
        return ("raise", e)


def from_torch_function(e):
    return isinstance(e, NotImplementedError) and str(e).startswith("torch.") and str(e).rstrip().endswith("is not implemented.")


class Group:
    """All cases for one (class, batch, dtype) with one seed."""

    def __init__(self, chk, tab, cname, batch, dt, gseed, restricted=False):
        self.chk, self.tab, self.cname, self.batch, self.dt, self.gseed = chk, tab, cname, tuple(batch), dt, gseed
        self.restricted = bool(restricted)   # shape functions only (groups with three batch dims)
        self.first = dict(tab["first"])
        self.second = dict(tab["second"])
        self.lines = []   # (driver line, expected impl string, cell, payload, kind)
        self.bid = "b=?"

    # fresh twins --------------------------------------------------------------------------------------------
    def op(self):
        return build(self.cname, random.Random(self.gseed), self.batch, dtype=self.dt)

    def op_nan(self):
        return nanify(self.op())

    def setup(self):
        op = self.op()
        self.opdt = op.dtype
        self.n = op.shape[-1]
        self.b = tuple(op.shape[:-2])
        self.A = op.to_dense()
        self.bid = "b=" + ("x".join(map(str, self.b)) or "-") + ("" if self.dt == torch.float64 else "|f32")
        rng = random.Random(self.gseed + 1)
        self.kinds = operand_kinds(rng, self.cname, self.b, self.n, self.opdt, self.gseed)
        A = self.A
        self.kinds_extra = {"self-dense": lambda: A.clone(), "double-dense": lambda: 2 * A, "half-dense": lambda: A / 2,
                            "outbuf": lambda: torch.empty_like(A),
                            "near-dense": lambda: A * (1 + 2.0 ** -10), "shift-dense": lambda: A + 0.5}
        try:
            with warnings.catch_warnings():
                warnings.simplefilter("ignore")
                opn = self.op_nan()
                An = None if opn is None else opn.to_dense()
        except Exception:  # noqa: BLE001 -- a class that cannot hold a NaN: the nan: forms are skipped (counted)
            An = None
        self.has_nan = An is not None and bool(torch.isnan(An).any()) and tuple(An.shape) == tuple(A.shape)
        if self.has_nan:
            self.kinds_extra["nan-dense"] = lambda: An.clone()
            self.kinds_extra["nan-near-dense"] = lambda: An * (1 + 2.0 ** -10)
        self.trng = rng

    def value(self, spec):
        if isinstance(spec, tuple) and spec and spec[0] == "kind":
            k = spec[1]
            return (self.kinds.get(k) or self.kinds_extra[k])()
        if isinstance(spec, tuple) and spec == ("tsub",):
            return self.kinds["tensor"]().as_subclass(TS)
        if isinstance(spec, tuple) and spec == ("foreign",):
            return FG()
        return spec

    def rej_key(self, fkey, posname, label):
        if "/alpha0:" in label:
            label = label.split("/alpha0:")[0] + "/alpha"
        return f"{fkey}/{posname}/{self.cname}/{label}/{'b+' if self.b else 'b0'}{'' if self.dt == torch.float64 else '|f32'}"

    def payload(self, **kw):
        d = {"class": self.cname, "batch": list(self.batch), "dtype": str(self.dt), "gseed": self.gseed, "restricted": self.restricted}
        d.update(kw)
        return d

    # one dispatched call ------------------------------------------------------------------------------------
    def run_call(self, fkey, fn, pos, label, argspecs, kwargs, table_name, replaying=False):
        """pos = index of the operator under test in the positional arguments; argspecs has `None` there."""
        chk = self.chk
        posname = "first" if pos == 0 else ("second" if pos == 1 else "kw")
        cell = f"C15/{fkey}/{posname}/{self.cname}/{label}/{self.bid}"
        kwspecs = kwargs

        is_form = label.startswith(FORM_PREFIXES)
        maker = self.op_nan if label.startswith("nan:") else self.op

        def mk():
            op = maker()
            return ([op if s is None else self.value(s) for s in argspecs],
                    {k: (op if v == SELF else self.value(v)) for k, v in kwspecs.items()})

        (args1, kwargs1), (args2, kwargs2), (args3, kwargs3) = mk(), mk(), mk()
        call_args, call_kwargs = list(args1), dict(kwargs1)      # what torch.f is called with
        if self.tab.get("kw_normalised"):
            # __torch_function__ completes the positional tuple from input= / other=: expectations refer to the completed call
            def complete(a, k):
                a, k = list(a), dict(k)
                for names in (("input", "A"), ("other", "B"))[len(a):]:
                    nm = next((x for x in names if x in k), None)
                    if nm is None:
                        break
                    a.append(k.pop(nm))
                return a, k
            (args1, kwargs1), (args2, kwargs2), (args3, kwargs3) = complete(args1, kwargs1), complete(args2, kwargs2), complete(args3, kwargs3)
        kwargs = kwargs1
        kwshow = {k: (arg_token(v) if isinstance(v, torch.Tensor) or is_op(v) else v) for k, v in kwargs1.items()}
        desc = f"{cell} seed={self.gseed} kwargs={kwshow}"
        ops_classes = [type(a) for a in list(args1) + list(kwargs1.values()) if is_op(a)]
        names = sorted({v for v in list(self.first.values()) + list(self.second.values())})
        # observe: spy on every handler name that either table could select for this function
        cand = {self.first.get(fkey), self.second.get(fkey)} - {None}
        spies = [Spy(ops_classes, nm) for nm in sorted(cand)]
        for s in spies:
            s.__enter__()
        try:
            r_impl = outcome(lambda: fn(*call_args, **call_kwargs))
        finally:
            for s in reversed(spies):
                s.__exit__()
        calls = sorted(((s.name,) + s.calls[0] for s in spies if s.calls), key=lambda c: c[4])
        # the handler call is the earliest observed call (the one __torch_function__ makes)
        obs = calls[0][:4] if calls else None
        tokens = [arg_token(a) for a in call_args]
        if obs is not None:
            nm, definer, a, kw = obs
            swapped = len(args1) > 1 and a[0] is args1[1] and (len(a) < 2 or a[1] is args1[0])
            direct = all(x is y for x, y in zip(a, args1)) and len(a) == len(args1)
            exp_args = ([args1[1], args1[0]] + args1[2:]) if swapped else args1
            order_ok = len(a) == len(exp_args) and all(x is y for x, y in zip(a, exp_args)) and (swapped or direct)
            toks = [arg_token(x) for x in exp_args]
            impl_route = f"call {definer}.{nm} swapped={1 if swapped else 0} args={';'.join(toks)}"
            if not order_ok:
                impl_route += " [positional arguments are not the original ones in this order]"
            if set(kw) != set(kwargs1) or any(not (kw[k] is kwargs1[k] or (not isinstance(kw[k], torch.Tensor) and not is_op(kw[k])
                                                                            and kw[k] == kwargs1[k])) for k in kw):
                impl_route += f" [kwargs {sorted(kw)} are not the original {sorted(kwargs1)}]"
        elif r_impl[0] == "raise" and from_torch_function(r_impl[1]):
            impl_route = "raise NotImplementedError"
        elif r_impl[0] == "raise" and isinstance(r_impl[1], IndexError) and str(r_impl[1]).startswith("tuple index out of range"):
            impl_route = "raise IndexError"
        elif r_impl[0] == "raise":
            impl_route = f"pre-dispatch {type(r_impl[1]).__name__}"
        else:
            impl_route = "no-handler-observed"
        if obs is not None and is_op(obs[2][0]):
            self.bind_line(cell, obs, self.payload(fkey=fkey, pos=pos, label=label))
        chk.count("route:" + impl_route.split(" ")[0] + (":" + impl_route.split(" ")[1].split(".")[-1] if impl_route.startswith("call") else ""))
        kwtok = [arg_token(v) for v in call_kwargs.values() if isinstance(v, torch.Tensor) or is_op(v) or isinstance(v, FG)]
        if kwtok:
            line = f"dispk {fkey} {';'.join(tokens) or '-'} {';'.join(kwtok)}"
        else:
            line = f"disp {fkey} {';'.join(tokens)}"
        if not impl_route.startswith("pre-dispatch"):
            self.lines.append((line, impl_route, cell + "/route", self.payload(fkey=fkey, pos=pos, label=label), "route"))
        # method twin: make the call the observation says (if any) directly
        r_dense = outcome(lambda: fn(*[densify(a) for a in args3], **{k: densify(v) for k, v in kwargs3.items()}))
        nontrivial = r_impl[0] == "ok"
        if is_form and r_dense[0] == "ok":
            # does every supplied optional argument matter?  dense torch without the trailing positional / without each keyword
            nop = 1 if pos == 0 and fkey not in BINARY else 2
            dargs, dkw = [densify(a) for a in args3], {k: densify(v) for k, v in kwargs3.items()}
            variants = ([(dargs[:-1], dkw)] if len(dargs) > nop else []) + [(dargs, {k: v for k, v in dkw.items() if k != kk}) for kk in dkw]
            outs = [outcome(lambda a=a, k=k: fn(*a, **k)) for a, k in variants]
            disc = [o[0] != "ok" or same(o[2], r_dense[2], 0.0) is not None for o in outs]
            chk.count("form:" + ("no-optional-argument" if not disc else "every-argument-matters" if all(disc) else
                                 "some-argument-matters" if any(disc) else "arguments-do-not-matter"))
            nontrivial = nontrivial and (any(disc) or not disc)
        chk.case(desc, nontrivial=nontrivial)
        chk.count("fn:" + fkey)
        chk.count("class:" + self.cname)
        chk.count("kind:" + label.split("/")[0])
        if r_impl[0] == "raise":
            chk.count("impl-raises:" + type(r_impl[1]).__name__)
        problems = []
        if obs is not None:
            nm, definer, a, kw = obs
            swapped = len(args1) > 1 and a[0] is args1[1]
            margs = ([args2[1], args2[0]] + args2[2:]) if swapped else args2
            if is_op(margs[0]):
                r_meth = outcome(lambda: getattr(margs[0], nm)(*margs[1:], **kwargs2))
                if r_impl[0] != r_meth[0]:
                    problems.append(("vs-method", f"dispatch {self.short(r_impl)} but method {nm} {self.short(r_meth)}"))
                elif r_impl[0] == "raise":
                    if type(r_impl[1]) is not type(r_meth[1]):
                        problems.append(("vs-method", f"dispatch raises {type(r_impl[1]).__name__}, method raises {type(r_meth[1]).__name__}"))
                else:
                    d = same(r_impl[2], r_meth[2], 0.0)
                    if d:
                        problems.append(("vs-method", f"dispatch result differs from {nm}(): {d}"))
        # versus dense torch
        required = fkey in (REQUIRED_FIRST if pos == 0 else REQUIRED_SECOND) and pos is not None
        if r_dense[0] == "ok":
            if r_impl[0] == "ok":
                d = compare_dense(fkey, r_impl[1], r_dense[1], self.A, self.opdt)
                if d and fkey == "torch.prod" and d[0] == "shape":
                    problems.append(("vs-dense:shape", d[1]))
                elif d and fkey in METHOD_LEVEL:
                    chk.count("method-vs-dense-differs:" + fkey)
                elif d:
                    problems.append(("vs-dense:" + d[0], d[1]))
                else:
                    chk.count("agree-with-dense")
            elif from_torch_function(r_impl[1]) and obs is None and required and "fg" not in tokens:
                problems.append(("missing-registration", f"{fkey} is not dispatched although the property lists it: {r_impl[1]}"))
            else:
                chk.count("rejected:" + type(r_impl[1]).__name__)
                # ring / shape functions reject by type or shape only: a rejection that the unchanged tree does not have
                # (baseline harness/extract/c15_rejections.py) is a failure to give the dense result
                legit = ((fkey, label) in LEGIT_NOT_IMPLEMENTED or (self.b and (fkey, label) in LEGIT_NOT_IMPLEMENTED_BATCHED)) and \
                    isinstance(r_impl[1], NotImplementedError) and obs is not None
                if is_form and obs is not None and isinstance(r_impl[1], TypeError) and self.sig_rejects(obs):
                    # the handler's signature has no such parameter: rejected by Python's argument binding (modelled: `bind` lines,
                    # generated signatures, `forward_drops_nothing`) — it raises, it does not drop the argument
                    chk.count("rejected:by-signature")
                elif fkey in STRICT and "fg" not in tokens and not legit:
                    key = self.rej_key(fkey, posname, label)
                    if BASELINE_OUT is not None and posname != "kw" and "bconst" not in label:   # never baseline known defects
                        BASELINE_OUT[key] = type(r_impl[1]).__name__
                    elif key not in c15_rejections.REJECTED:
                        problems.append(("raises", f"raises {type(r_impl[1]).__name__}: {str(r_impl[1])[:120]} although torch on the dense "
                                                   f"operands returns a value and the unchanged tree does not reject this combination"))
        else:
            chk.count("dense-rejects:" + ("impl-ok" if r_impl[0] == "ok" else "impl-raises"))
        ok = True
        for aspect, what in problems:
            ok = False
            chk.violation(cell + "/" + aspect, f"{fkey}({', '.join(tokens)}{', ' + str(kwshow) if kwshow else ''}): {what}",
                          self.payload(fkey=fkey, pos=pos, label=label))
        # two-step dispatch: registered one-operand functions applied to an operator-valued result of a two-operand call
        if (ok and r_impl[0] == "ok" and r_dense[0] == "ok" and is_op(r_impl[1]) and fkey in BINARY and fkey != "torch.isclose"
                and "/alpha0:" not in label   # the result is the first operand: nothing new for a second step
                and isinstance(r_dense[1], torch.Tensor) and r_dense[1].dim() >= 2 and r_dense[1].shape[-1] == r_dense[1].shape[-2]):
            self.two_step(cell, fkey, tokens, r_impl[1], r_dense[1].as_subclass(torch.Tensor), self.payload(fkey=fkey, pos=pos, label=label))
        # value line for the Lean denotational layer (unbatched, matrix operands, exact data)
        if (not self.batch and r_impl[0] == "ok" and len(args1) == 2 and fkey in BINARY and fkey != "torch.isclose" and fkey != "torch.div"
                and all(is_op(x) or (isinstance(x, torch.Tensor) and x.dim() == 2 and x.shape[0] == x.shape[1] == self.n) for x in args1)
                and set(kwargs) <= {"alpha"} and self.opdt == torch.float64 and not isinstance(kwargs.get("alpha"), bool) and float(kwargs.get("alpha", 1)).is_integer()):
            X, Y = (densify(a) for a in args3)
            got = r_impl[2][1]
            if got.dim() == 2 and torch.isfinite(got).all() and (got - got.round()).abs().max() < 1e-6 and \
                    all((t - t.round()).abs().max() == 0 for t in (X, Y)):
                got = got.round()
                al = str(int(float(kwargs["alpha"]))) if "alpha" in kwargs else "n"
                vline = f"val {fkey} {arg_token(args1[0])} {arg_token(args1[1])} {al} {fmt(X)} {fmt(Y)}"
                self.lines.append((vline, fmt(got), cell + "/value-model", self.payload(fkey=fkey, pos=pos, label=label), "val"))
        return ok

    @staticmethod
    def sig_rejects(obs):
        import inspect
        nm, definer, a, kw = obs
        try:
            inspect.signature(getattr(type(a[0]), nm)).bind(*a, **kw)
            return False
        except TypeError:
            return True

    def bind_line(self, cell, obs, payload):
        """Correspondence of the argument-binding model: Lean `bindPy` on the generated signature of the resolved handler vs Python's
        own binding (`inspect.signature(handler).bind(...)` + defaults) of the observed handler call, one line per distinct call shape."""
        import inspect
        nm, definer, a, kw = obs
        cls = type(a[0])

        def tok(v):
            if is_op(v):
                return "op"
            if isinstance(v, torch.Tensor):
                return "t"
            return c15_sigs.token(v)

        ptoks, ktoks = [tok(v) for v in a], {k: tok(v) for k, v in kw.items()}
        if any(ch in t for t in ptoks + list(ktoks.values()) for ch in "; =") or any("=" in k for k in ktoks):
            return
        key = (cls.__name__, nm, tuple(ptoks), tuple(sorted(ktoks.items())))
        if key in self.chk.__dict__.setdefault("_c15_bind_seen", set()):
            return
        self.chk._c15_bind_seen.add(key)
        f = getattr(cls, nm)
        sig = inspect.signature(f)
        try:
            ba = sig.bind(*ptoks, **ktoks)
            ba.apply_defaults()
            parts = []
            for pname, v in ba.arguments.items():
                kind = sig.parameters[pname].kind
                if kind == inspect.Parameter.VAR_POSITIONAL:
                    parts.append("*=(" + ",".join(v) + ")")
                elif kind == inspect.Parameter.VAR_KEYWORD:
                    parts.append("**={" + ",".join(f"{k}={x}" for k, x in v.items()) + "}")
                else:
                    parts.append(f"{pname}={v if isinstance(v, str) and (v in ptoks or v in ktoks.values()) else c15_sigs.token(v)}")
            exp = "ok " + ";".join(parts)
        except TypeError:
            exp = "err"
        line = f"bind {cls.__name__} {nm} {';'.join(ptoks) or '-'} {';'.join(f'{k}={v}' for k, v in ktoks.items()) or '-'}"
        self.lines.append((line, exp, cell + "/bind", payload, "bind"))
        self.chk.count("bind-shapes:" + ("accepted" if exp != "err" else "TypeError"))

    def two_step(self, cell, fkey, tokens, res, D, payload):
        """`res` (operator) is the dispatched result, `D` what torch gives on dense operands (already found equal).
        Apply structure-using registered functions to `res` through torch.* and compare with torch on `D`."""
        from linear_operator.operators.triangular_linear_operator import _TriangularLinearOperatorBase
        chk = self.chk
        n = D.shape[-1]
        steps = [("diagonal", lambda x: torch.diagonal(x, dim1=-2, dim2=-1), 0.0), ("transpose", lambda x: torch.transpose(x, -1, -2), 0.0),
                 ("sum-1", lambda x: torch.sum(x, -1), 0.0), ("sum-2", lambda x: torch.sum(x, -2), 0.0)]
        Dd = D.double()
        finite = bool(torch.isfinite(Dd).all())
        if finite and n > 0:
            sv = torch.linalg.svdvals(Dd)
            wellcond = bool((sv[..., -1] > 1e-3).all() and (sv[..., 0] / sv[..., -1].clamp_min(1e-300) < 1e4).all())
            lower = bool(torch.equal(Dd, torch.tril(Dd)))
            upper = bool(torch.equal(Dd, torch.triu(Dd)))
            tri = isinstance(res, _TriangularLinearOperatorBase) and (lower or upper)
            sym = bool(torch.equal(Dd, Dd.mT))
            spd = sym and wellcond and bool((torch.linalg.eigvalsh(Dd) > 0.5).all())
            B = torch.tensor([((7 * i + 3 * j) % 5) - 2.0 for i in range(n) for j in range(2)], dtype=D.dtype).reshape(n, 2)
            tol = 1e-6 if D.dtype == torch.float64 else 5e-3
            if wellcond and (tri or spd):
                kind = "tri" if tri else "spd"
                steps += [("solve", lambda x: torch.linalg.solve(x, B), tol), ("inverse", lambda x: torch.inverse(x), tol)]
                if spd or bool((torch.diagonal(Dd, dim1=-2, dim2=-1) > 0).all()):
                    steps += [("logdet", lambda x: torch.logdet(x), tol)]
                if tri:
                    up = upper and not lower
                    steps += [("solve_triangular", lambda x: torch.linalg.solve_triangular(x, B, upper=up), tol)]
                if spd:
                    steps += [("cholesky", lambda x: torch.linalg.cholesky(x), tol)]
                chk.count("two-step-numeric:" + kind)
        for name, g, tol in steps:
            r2 = outcome(lambda: g(res))
            d2 = outcome(lambda: g(D))
            chk.case(f"{cell}/then:{name} seed={self.gseed}", nontrivial=r2[0] == "ok", sample=False)
            chk.count("two-step:" + name)
            if d2[0] != "ok":
                continue
            if r2[0] != "ok":
                chk.count("two-step-rejected:" + name + ":" + type(r2[1]).__name__)
                continue
            scale = max(1.0, float(d2[2][1].double().abs().max())) if d2[2][0] in "TO" and d2[2][1].numel() else 1.0
            d = same(r2[2], d2[2], tol * scale if tol else 1e-7 * scale, check_kind=False)
            if d:
                aspect = "shape" if d.startswith(("shape", "structure", "tensor vs")) else ("dtype" if d.startswith("dtype") else "value")
                chk.violation(f"{cell}/then:{name}/vs-dense:{aspect}",
                              f"{name}({fkey}({', '.join(tokens)})) [result class {type(res).__name__}]: {d}", payload)
            else:
                chk.count("two-step-agree")

    @staticmethod
    def short(r):
        return "returns" if r[0] == "ok" else f"raises {type(r[1]).__name__}: {str(r[1])[:80]}"

    # the whole group ----------------------------------------------------------------------------------------
    def run(self, only=None):
        self.setup()
        tab = self.tab
        rng = self.trng
        for fkey, meth in tab["first"]:
            if self.restricted and fkey not in SHAPE_FNS:
                continue
            fn = c15_dispatch.resolve_torch_name(fkey)
            for label, extra, kwargs in templates_first(fkey, self.b, self.n, self.opdt, rng, self.kinds):
                if any(isinstance(s, tuple) and s[:1] == ("kind",) and s[1] not in self.kinds and s[1] not in self.kinds_extra
                       for s in list(extra) + list(kwargs.values())):
                    if label.startswith("nan:"):
                        self.chk.count("nan-form-skipped:no-floating-point-data")
                    continue
                if only and (fkey, 0, label) != only:
                    continue
                self.run_call(fkey, fn, 0, label, [None] + list(extra), kwargs, "first")
        for fkey, meth in ([] if self.restricted else tab["second"]):
            fn = c15_dispatch.resolve_torch_name(fkey)
            for label, x, kwargs, *more in templates_second(fkey, self.b, self.n, self.opdt, rng, self.kinds):
                extra = list(more[0]) if more else []      # positional arguments after the two operands
                if isinstance(x, tuple) and x[:1] == ("kind",) and x[1] not in self.kinds and x[1] not in self.kinds_extra:
                    if label.startswith("nan:"):
                        self.chk.count("nan-form-skipped:no-floating-point-data")
                    continue
                if fkey.startswith("torch.Tensor.") and SELF in kwargs.values():
                    continue
                by_kw = SELF in kwargs.values()
                if only and (fkey, None if by_kw else 1, label) != only:
                    continue
                if by_kw:
                    self.run_call(fkey, fn, None, label, [] if x is None else [x], kwargs, "second")
                else:
                    self.run_call(fkey, fn, 1, label, [x, None] + extra, kwargs, "second")
        # python operators
        for entry in ([] if self.restricted else PYOPS):
            label, fkey, f = entry[:3]
            if only and (label, "pyop", label) != only:
                continue
            if len(entry) > 3:
                if entry[3] not in self.kinds:
                    continue
                c = self.kinds[entry[3]]()
                self.run_pyop(label, fkey, lambda T, op, f=f, c=c: f(T, op, c))
            else:
                self.run_pyop(label, fkey, f)
        # unregistered functions (on the unbatched and the (2,)-batched instance of every class; quick: unbatched only)
        skip_unreg = self.restricted or not only and ((self.chk.tier == "quick" and self.batch) or len(self.batch) > 1 or self.batch == (self.n,))
        for name, arity in ([] if skip_unreg else UNREGISTERED):
            if only and (name, "unreg", str(arity)) != only:
                continue
            self.run_unregistered(name, arity)

    def run_pyop(self, label, fkey, f):
        chk = self.chk
        cell = f"C15/pyop/{label}/{self.cname}/{self.bid}"
        T = self.kinds["tensor"]()
        r_impl = outcome(lambda: f(T, self.op()))
        r_dense = outcome(lambda: f(T, self.A))
        chk.case(f"{cell} seed={self.gseed}", nontrivial=r_impl[0] == "ok")
        chk.count("fn:pyop " + label)
        if fkey is not None and fkey not in self.second and fkey not in self.first:
            # e.g. T / op: must raise NotImplementedError from __torch_function__
            if not (r_impl[0] == "raise" and from_torch_function(r_impl[1])):
                chk.violation(cell + "/unregistered", f"{label}: expected NotImplementedError, got {self.short(r_impl)}",
                              self.payload(pyop=label))
            return
        if r_dense[0] != "ok":
            chk.count("dense-rejects:pyop")
            return
        if r_impl[0] != "ok":
            if from_torch_function(r_impl[1]):
                chk.violation(cell + "/missing-registration", f"{label}: {r_impl[1]}", self.payload(pyop=label))
            else:
                chk.count("rejected:" + type(r_impl[1]).__name__)
                key = self.rej_key("pyop", "op", label)
                if BASELINE_OUT is not None and "bconst" not in label and "bpartial" not in label:
                    BASELINE_OUT[key] = type(r_impl[1]).__name__
                elif key not in c15_rejections.REJECTED:
                    chk.violation(cell + "/raises", f"{label}: raises {type(r_impl[1]).__name__}: {str(r_impl[1])[:120]} although the dense "
                                  f"computation returns a value and the unchanged tree does not reject this combination", self.payload(pyop=label))
            return
        d = compare_dense("torch.add", r_impl[1], r_dense[1], self.A, self.opdt)
        if d:
            chk.violation(cell + "/vs-dense:" + d[0], f"{label}: {d[1]}", self.payload(pyop=label))
        else:
            chk.count("agree-with-dense")

    def run_unregistered(self, name, arity):
        chk = self.chk
        try:
            fn = c15_dispatch.resolve_torch_name(name)
        except AttributeError:
            return
        if name in self.first or name in self.second or fn in self.rt_first or fn in self.rt_second:
            chk.count("unregistered-now-registered")
            return
        T = self.kinds["tensor"]()
        v = T[..., 0]
        forms = []
        if arity == 1:
            forms = [("f(op)", lambda: fn(self.op()), ["op"])]
        elif arity == 2:
            forms = [("f(op,T)", lambda: fn(self.op(), T), ["op", "t"]), ("f(T,op)", lambda: fn(T, self.op()), ["t", "op"])]
        elif arity == "second":
            forms = [("f(T,op)", lambda: fn(T.clone(), self.op()), ["t", "op"])]
        elif arity == "v":
            forms = [("f(op,v)", lambda: fn(self.op(), v), ["op", "t"])]
        elif arity == "vv":
            forms = [("f(v,op)", lambda: fn(v, self.op()), ["t", "op"])]
        elif arity == "l":
            forms = [("f([op,T])", lambda: fn([self.op(), T]), None), ("f([T,op])", lambda: fn([T, self.op()]), None)]
        elif arity == "l2":
            forms = [("f(op,T)", lambda: fn(self.op(), T), ["op", "t"])]
        for flabel, thunk, toks in forms:
            cell = f"C15/unregistered/{name}/{flabel}/{self.cname}/{self.bid}"
            r = outcome(thunk)
            chk.case(f"{cell} seed={self.gseed}", nontrivial=True, sample=False)
            chk.count("unregistered-calls")
            if r[0] == "raise" and from_torch_function(r[1]):
                chk.count("unregistered-raises-NotImplementedError")
                if toks:
                    line = f"disp {name} {';'.join('op:' + self.cname if t == 'op' else t for t in toks)}"
                    self.lines.append((line, "raise NotImplementedError", cell + "/route", self.payload(unreg=name, arity=str(arity)), "route"))
            elif r[0] == "raise" and isinstance(r[1], TypeError) and not flabel.startswith("f(op") and "descriptor" in str(r[1]):
                chk.count("unregistered-not-applicable")
            else:
                chk.violation(cell, f"{name} {flabel} on {self.cname}: expected NotImplementedError from __torch_function__, got {self.short(r)}",
                              self.payload(unreg=name, arity=str(arity)))


def fmt(M):
    return ";".join(",".join(str(int(x)) if float(x) == int(x) else str(float(x)) for x in row) for row in M.tolist())


# --------------------------------------------------------------------------------------------------------------
# entry points
# --------------------------------------------------------------------------------------------------------------

LEAN_SOURCES = ["LinOp/C15", "LinOp/Generated/C15Tables.lean", "LinOp/Generated/C15Sigs.lean", "LinOp/Generated/C15Bodies.lean", "LinOp/Core/Parse.lean", "LinOp/Core/Basic.lean", "LinOp/Core/Bridge.lean"]


def mro_lines(tab):
    """Correspondence of the class model: C3 linearisation and method resolution vs run time."""
    res = []
    interest = tab["interest"]
    for k in c15_dispatch.runtime_classes():
        res.append((f"mro {k.__name__}", ",".join(c.__name__ for c in k.__mro__), f"C15/mro/{k.__name__}", {"class": k.__name__}, "mro"))
        for m in interest:
            definer = next((c for c in k.__mro__ if m in c.__dict__), None)
            exp = definer.__name__ if definer is not None else "none"
            if definer is not None:
                attr = getattr(k, m, None)
                qn = getattr(getattr(attr, "__func__", attr), "__qualname__", None)
                if qn is not None and qn.split(".")[0] != exp and "<locals>" not in qn:
                    exp = exp + f" [but __qualname__ is {qn}]"
            res.append((f"resolve {k.__name__} {m}", exp, f"C15/resolve/{k.__name__}/{m}", {"class": k.__name__, "method": m}, "resolve"))
    return res


def concrete_classes():
    return [k.__name__ for k in c15_dispatch.runtime_classes() if k.__name__ not in ABSTRACT]


def check_lines(chk, lines):
    outs = chk.run_driver("C15", [ln[0] for ln in lines])
    if outs is None:
        return
    for (line, expect, cell, payload, kind), out in zip(lines, outs):
        if kind == "val":
            model = out.split(" spec=")[0].replace("model=", "")
            spec = out.split(" spec=")[1] if " spec=" in out else "none"
            impl = "ok " + expect
            if spec != "none" and impl != spec:
                if spec.startswith("ok"):
                    chk.violation(cell.replace("/value-model", "/vs-dense:value"), f"`{line}`: implementation {impl} but dense meaning {spec}", payload)
            elif impl != model:
                chk.corr_break(cell, f"`{line}`: model {model} implementation {impl}", payload)
            else:
                chk.traces_validated += 1
            if impl != model and spec != "none" and impl == spec:
                chk.corr_break(cell, f"`{line}`: model {model} implementation {impl}", payload)
        else:
            if out != expect:
                chk.corr_break(cell, f"`{line}`: model `{out}` implementation `{expect}`", payload)
            else:
                chk.traces_validated += 1


def plan(chk, classes):
    """[(class, batch, dtype, seed)] of the tier"""
    groups = []
    for c in classes:
        n = 4 if c in SIZE4 else 3
        groups.append((c, (), torch.float64, chk.rng.randrange(2 ** 31)))
        groups.append((c, (2,), torch.float64, chk.rng.randrange(2 ** 31)))
        groups.append((c, (n,), torch.float64, chk.rng.randrange(2 ** 31)))     # batch size == matrix size
        groups.append((c, (2, 3), torch.float64, chk.rng.randrange(2 ** 31)))   # two batch dims
    # structural variants
    for c, bs in (("CatLinearOperator@b0", [(2,), (3,), (2, 3)]), ("CatLinearOperator@b1", [(2, 3)]), ("CatLinearOperator@cols", [(), (2,)]),
                  ("CatLinearOperator@3rows", [(), (2,)]), ("TriangularLinearOperator@upper", [(), (2,), (3,)])):
        for b in bs:
            groups.append((c, b, torch.float64, chk.rng.randrange(2 ** 31)))
    # three batch dims of pairwise different sizes (and one with a size-1 dim): shape functions with every batch permutation / dim
    for c in classes + ["CatLinearOperator@b0", "CatLinearOperator@b1", "CatLinearOperator@b2", "CatLinearOperator@cols"]:
        for b in ((2, 5, 6), (3, 1, 2)):
            if "@b" in c and b[int(c[-1])] < 2:
                continue
            groups.append((c, b, torch.float64, chk.rng.randrange(2 ** 31), True))
    if chk.tier == "thorough":
        for c in classes:
            groups.append((c, (), torch.float32, chk.rng.randrange(2 ** 31)))
            groups.append((c, (2, 1), torch.float64, chk.rng.randrange(2 ** 31)))
            for _ in range(2):
                groups.append((c, (), torch.float64, chk.rng.randrange(2 ** 31)))
                groups.append((c, (2,), torch.float64, chk.rng.randrange(2 ** 31)))
    return groups


def enumerate_unregistered(chk, tab, lines):
    """Every function of `torch.overrides.get_overridable_functions()` that is in neither table: what `__torch_function__` sees
    (called directly with the `types` / `args` torch would pass) for f(op), f(op, T), f(T, op), f([op, T]), f((T, op)) must be a
    NotImplementedError, on a leaf class, a subclass with overrides and the abstract base; the model agrees (`disp` / `dispk`)."""
    import linear_operator.operators as O
    from linear_operator.operators import _linear_operator as L
    from torch.overrides import get_overridable_functions
    registered = set(L._HANDLED_FUNCTIONS) | set(L._HANDLED_SECOND_ARG_FUNCTIONS)
    T = torch.eye(3, dtype=torch.float64)
    ops = [O.DenseLinearOperator(T + 1), O.DiagLinearOperator(torch.ones(3, dtype=torch.float64)),
           O.IdentityLinearOperator(3, dtype=torch.float64)]
    seen, nfn = set(), 0
    for ns, fns in get_overridable_functions().items():
        nsname = ns.__name__ if hasattr(ns, "__name__") else str(ns)
        for fn in fns:
            if id(fn) in seen:
                continue
            seen.add(id(fn))
            if fn in registered:
                chk.count("overridable:registered")
                continue
            nfn += 1
            fname = f"{nsname}.{getattr(fn, '__name__', type(fn).__name__)}".replace(" ", "_")
            for op in ops:
                cn = type(op).__name__
                forms = [("f(op)", (op,), f"disp ovr:{fname} op:{cn}"), ("f(op,T)", (op, T), f"disp ovr:{fname} op:{cn};t"),
                         ("f(T,op)", (T, op), f"disp ovr:{fname} t;op:{cn}"), ("f([op,T])", ([op, T],), f"dispk ovr:{fname} s op:{cn}"),
                         ("f((T,op),0)", ((T, op), 0), f"dispk ovr:{fname} s;s op:{cn}")]
                for flabel, args, line in forms:
                    cell = f"C15/unregistered-all/{flabel}/{cn}"
                    try:
                        r = type(op).__torch_function__(fn, (type(op),), args, {})
                        got = "returned " + type(r).__name__
                    except NotImplementedError as e:
                        got = "ok" if from_torch_function(e) else f"NotImplementedError with another message: {e}"
                    except Exception as e:  # noqa: BLE001
                        got = f"{type(e).__name__}: {e}"
                    chk.count("overridable:calls")
                    if got != "ok":
                        chk.violation(cell, f"__torch_function__({fname}, {flabel}) on {cn}: expected NotImplementedError, got {got}",
                                      {"unreg_all": fname, "form": flabel, "class": cn})
                    elif op is ops[0] or flabel == "f(T,op)":
                        lines.append((line, "raise NotImplementedError", cell + "/route", {"unreg_all": fname}, "route"))
    chk.case(f"C15/unregistered-all: {nfn} overridable functions x 3 classes x 5 argument forms", nontrivial=True)
    chk.count("overridable:unregistered-functions", nfn)


# torch's published test lambda for permute names the parameter `dim`; the real parameter is `dims` (validated on dense tensors)
TESTING_OVERRIDES_QUIRKS = {"torch.permute: torch publishes a required parameter `dim` that the table lacks"}


def run(chk, only_group=None):
    torch.manual_seed(chk.rng.randrange(2 ** 31))
    tab = c15_dispatch.generate()
    chk.rule = ("catalogue: every entry of both registered-function tables x every concrete operator class x batch () and (2,) "
                "(thorough: + float32, batch (2,1), 3 seeds) x operand kinds (tensor, broadcast tensor, 0-d tensor, python float/int, Tensor "
                "subclass, foreign object, operator of an unrelated / the same / the direct base class) x both orders, python operators, "
                "and ~60 unregistered torch functions; values seed-random small integers; distinct = distinct (cell, seed); non-trivial = "
                "the dispatched call returned a value")
    chk.assumptions += ["torch's overloaded-argument ordering (subclass before superclass, else left to right) as in torch.overrides",
                        "overrides of matmul/mul/div and of the one-operand functions mean what the base-class method means "
                        "(checked on the implementation against dense torch, not proved)",
                        "float data are small integers, so ring results are exact"]
    for msg in c15_dispatch.dynamic_crosscheck(tab):
        chk.proof_break("translator(C15Tables)", msg)
    sg = c15_sigs.generate(tab)
    for msg in c15_sigs.dynamic_crosscheck(sg):
        chk.proof_break("translator(C15Sigs)", msg)
    for msg in c15_sigs.validate_torch_sigs():
        chk.proof_break("translator(C15Sigs: torch signatures)", msg)
    bd = c15_bodies.generate()
    for msg in c15_bodies.dynamic_crosscheck(bd):
        chk.proof_break("translator(C15Bodies)", msg)
    msgs, ncmp = c15_bodies.crosscheck_testing_overrides()
    chk.count("torch-signatures:compared-with-torch.overrides.get_testing_overrides", ncmp)
    for msg in msgs:
        if msg not in TESTING_OVERRIDES_QUIRKS:
            chk.proof_break("translator(C15Sigs: torch signatures vs torch.overrides.get_testing_overrides)", msg)
    chk.prove("LinOp.Properties.C15", LEAN_SOURCES)
    # required registrations (the property statement lists them)
    first, second = dict(tab["first"]), dict(tab["second"])
    for f in REQUIRED_FIRST:
        if f not in first:
            chk.proof_break("required-registration", f"{f} is no longer registered for operator-first calls")
    for f in REQUIRED_SECOND:
        if f not in second:
            chk.proof_break("required-registration", f"{f} is no longer registered for operator-second calls")
    from linear_operator.operators import _linear_operator as L
    lines = mro_lines(tab)
    classes = concrete_classes()
    groups = plan(chk, classes) if only_group is None else [only_group]
    for cname, batch, dt, gseed, *rest in groups:
        g = Group(chk, tab, cname, batch, dt, gseed, *rest)
        g.rt_first, g.rt_second = L._HANDLED_FUNCTIONS, L._HANDLED_SECOND_ARG_FUNCTIONS
        try:
            g.run()
        except Exception as e:  # noqa: BLE001 -- a harness error must not pass silently
            chk.proof_break("harness", f"group {cname} {batch} {dt} seed {gseed}: {type(e).__name__}: {e}")
        lines += g.lines
    if only_group is None:
        try:
            enumerate_unregistered(chk, tab, lines)
        except Exception as e:  # noqa: BLE001
            chk.proof_break("harness", f"enumeration of the overridable functions: {type(e).__name__}: {e}")
    check_lines(chk, lines)
    if only_group is None:
        # session 5: rectangular operands, div, isclose order semantics, sum(dim), renamed-parameter call forms
        # (drawn from chk.rng after every other group, so the seeds of the existing catalogue are unchanged)
        try:
            c15_ext.extra(chk)
        except Exception as e:  # noqa: BLE001
            chk.proof_break("harness", f"extension cells: {type(e).__name__}: {e}")


def replay(chk, payload):
    p = payload.get("payload") or {}
    if "unreg_all" in p:
        lines = []
        enumerate_unregistered(chk, c15_dispatch.generate(), lines)
        return check_lines(chk, lines)
    if p.get("ext"):
        c15_dispatch.generate()
        c15_sigs.generate(c15_dispatch.generate())
        c15_bodies.generate()
        return c15_ext.replay(chk, p)
    if "gseed" not in p:
        print("replay names broken obligations only:", json.dumps(p)[:2000])
        return run(chk)
    dt = torch.float32 if "32" in p["dtype"] else torch.float64
    tab = c15_dispatch.generate()
    c15_sigs.generate(tab)
    from linear_operator.operators import _linear_operator as L
    g = Group(chk, tab, p["class"], tuple(p["batch"]), dt, p["gseed"], p.get("restricted", False))
    g.rt_first, g.rt_second = L._HANDLED_FUNCTIONS, L._HANDLED_SECOND_ARG_FUNCTIONS
    if "fkey" in p:
        only = (p["fkey"], p["pos"], p["label"])
    elif "pyop" in p:
        only = (p["pyop"], "pyop", p["pyop"])
    else:
        only = (p["unreg"], "unreg", p["arity"])
    g.run(only=only)
    check_lines(chk, g.lines)


def record_baseline(seeds=(0, 1, 2, 3, 4, 5), thorough_seeds=(0, 1)):
    """Development only: (re)record which strict-function cells the tree rejects, merged into
    harness/extract/c15_rejections.py.  Run on a tree whose rejections are all accepted as legitimate."""
    import os
    from ..common import Check
    global BASELINE_OUT
    BASELINE_OUT = dict(c15_rejections.REJECTED) if os.environ.get("C15_BASELINE_MERGE") else {}
    for tier, ss in (("quick", seeds), ("thorough", thorough_seeds)):
        for sd in ss:
            chk = Check("C15", tier, sd, replay="/dev/null")
            chk.prove = lambda *a, **k: True
            chk.run_driver = lambda *a, **k: None
            run(chk)
    path = c15_rejections.__file__
    with open(path, "w") as fh:
        fh.write('"""Rejection baseline of the C15 catalogue (generated by harness.checks.c15.record_baseline; do not edit by hand).\n\n'
                 'Keys: <torch fn>/<operator position>/<class>/<operand-kind label>/<b0|b+>[|f32] for the ring / shape functions\n'
                 '(STRICT in checks/c15.py) for which the tree raises inside the handler although torch on the dense operands returns a\n'
                 'value (python scalars for add/sub, out=, keepdim=, shapes a class does not support, ...).  A rejection that is not\n'
                 'listed here is reported as a violation; a listed cell that starts to work is accepted silently."""\n')
        fh.write("REJECTED = {\n")
        for k in sorted(BASELINE_OUT):
            fh.write(f"    {k!r}: {BASELINE_OUT[k]!r},\n")
        fh.write("}\n")
    n = len(BASELINE_OUT)
    BASELINE_OUT = None
    return n
