"""Shared machinery of the /verif checks: Lean build/audit, driver line protocol, evidence,
known findings, verdict.  Run by /venv/bin/python (torch + the editable install of /repo)."""
import fnmatch
import json
import os
import random
import re
import subprocess
import sys
import time
import hashlib

VERIF = os.path.dirname(os.path.dirname(os.path.abspath(__file__)))
LEAN = os.path.join(VERIF, "lean")
REPO = os.environ.get("VERIF_REPO", "/repo")
ALLOWED_AXIOMS = {"propext", "Classical.choice", "Quot.sound"}
FORBIDDEN = re.compile(r"\bsorry\b|\badmit\b|^\s*axiom\s|native_decide|bv_decide|implemented_by|\bunsafe\s|maxHeartbeats\s+0\b")
GUARD = "LINEAR_OPERATOR_VERIF"


def _strip_comments(src):
    # remove /- ... -/ (nested) and -- comments
    out, i, depth = [], 0, 0
    while i < len(src):
        if src.startswith("/-", i):
            depth += 1
            i += 2
        elif depth and src.startswith("-/", i):
            depth -= 1
            i += 2
        elif depth:
            if src[i] == "\n":
                out.append("\n")
            i += 1
        elif src.startswith("--", i):
            while i < len(src) and src[i] != "\n":
                i += 1
        elif src[i] == '"':
            j = i + 1
            while j < len(src) and src[j] != '"':
                j += 2 if src[j] == "\\" else 1
            out.append('""')
            i = j + 1
        else:
            out.append(src[i])
            i += 1
    return "".join(out)


class Check:
    def __init__(self, pid, tier="quick", seed=0, replay=None):
        self.pid = pid
        self.tier = tier
        self.seed = seed
        self.rng = random.Random(f"{pid}:{seed}")
        self.t0 = time.time()
        self.replay_path = replay
        self.evaluations = 0
        self.distinct = set()
        self.samples = []
        self.dist = {}
        self.violations = []  # (cell, what, replay_path)
        self.known_hits = {}  # finding line -> count
        self.corr_breaks = []  # correspondence disagreements impl != model where impl == spec
        self.proof_breaks = []  # broken obligations
        self.obligations = []  # (name, ok, axioms)
        self.trusted = set()
        self.traces_validated = 0
        self.assumptions = []
        self.extra = {}
        self.rule = ""
        self.checker_cmds = []
        self.findings = self._load_findings()

    # ------------------------------------------------------------------ known findings
    def _load_findings(self):
        res = []
        p = os.path.join(VERIF, "known_findings.txt")
        if not os.path.exists(p):
            return res
        for line in open(p):
            line = line.strip()
            if not line or line.startswith("#"):
                continue
            m = re.match(r"open:\s+property=(\S+)\s+cell=(\S+)\s+(.*)$", line)
            if m and m.group(1) == self.pid:
                res.append({"cell": m.group(2), "what": m.group(3), "line": line})
        return res

    def known(self, cell):
        for f in self.findings:
            if fnmatch.fnmatchcase(cell, f["cell"]):
                return f
        return None

    # ------------------------------------------------------------------ bookkeeping
    def count(self, key, n=1):
        self.dist[key] = self.dist.get(key, 0) + n

    def case(self, desc, nontrivial=True, sample=True):
        """Register one evaluated case.  `desc` is a canonical description (string)."""
        self.evaluations += 1
        if nontrivial:
            self.distinct.add(hashlib.blake2b(desc.encode(), digest_size=8).digest())
        if sample and len(self.samples) < 12 and (self.evaluations % 37 == 1 or len(self.samples) < 3):
            self.samples.append(desc[:600])

    def violation(self, cell, what, payload=None):
        """The implementation disagrees with the specification on a concrete input."""
        f = self.known(cell)
        if f is not None:
            self.known_hits[f["line"]] = self.known_hits.get(f["line"], 0) + 1
            return False
        if any(v[0] == cell for v in self.violations):
            return True
        if len(self.violations) >= 25:
            return True
        path = self._write_replay(cell, what, payload, kind="failing-input")
        self.violations.append((cell, what, path))
        return True

    def corr_break(self, cell, what, payload=None):
        """Model and implementation disagree although the implementation agrees with the spec
        (or no spec verdict is available): the model no longer describes the code."""
        if self.known(cell) is not None:
            f = self.known(cell)
            self.known_hits[f["line"]] = self.known_hits.get(f["line"], 0) + 1
            return
        if len(self.corr_breaks) < 25:
            self.corr_breaks.append((cell, what, payload))

    def proof_break(self, name, detail):
        self.proof_breaks.append((name, detail))

    def _write_replay(self, cell, what, payload, kind):
        os.makedirs(os.path.join(VERIF, "replays"), exist_ok=True)
        h = hashlib.blake2b(f"{self.pid}:{cell}".encode(), digest_size=5).hexdigest()
        path = os.path.join("replays", f"{self.pid}_{h}.json")
        if self.replay_path:  # do not overwrite while replaying
            return self.replay_path
        with open(os.path.join(VERIF, path), "w") as fh:
            json.dump({"property": self.pid, "kind": kind, "cell": cell, "what": what,
                       "seed": self.seed, "tier": self.tier, "payload": payload}, fh, indent=1, default=str)
        return path

    # ------------------------------------------------------------------ Lean
    def lean_build(self, targets):
        if isinstance(targets, str):
            targets = [targets]
        t = time.time()
        r = subprocess.run(["lake", "build"] + targets, cwd=LEAN, capture_output=True, text=True)
        self.extra.setdefault("lean_build_s", 0)
        self.extra["lean_build_s"] = round(self.extra["lean_build_s"] + time.time() - t, 2)
        return r.returncode == 0, (r.stdout + r.stderr)

    def grep_forbidden(self, files):
        bad = []
        for f in files:
            src = _strip_comments(open(f).read())
            for n, line in enumerate(src.split("\n"), 1):
                if FORBIDDEN.search(line):
                    bad.append(f"{os.path.relpath(f, VERIF)}:{n}: {line.strip()[:100]}")
        return bad

    def lean_files(self, subdirs):
        res = []
        for sd in subdirs:
            p = os.path.join(LEAN, sd)
            if os.path.isfile(p):
                res.append(p)
            for root, _, fs in os.walk(p):
                res += [os.path.join(root, f) for f in fs if f.endswith(".lean")]
        return sorted(res)

    def prove(self, module, source_dirs):
        """Build the property module, audit axioms of every theorem in it, grep sources.
        Returns True if all obligations are discharged."""
        rel = module.replace(".", "/") + ".lean"
        path = os.path.join(LEAN, rel)
        ok, out = self.lean_build([module])
        self.checker_cmds.append(f"cd lean && lake build {module} && lake env lean <generated #print axioms audit>")
        src = _strip_comments(open(path).read())
        names, ns = [], []
        for line in src.split("\n"):
            m = re.match(r"\s*namespace\s+(\S+)", line)
            if m:
                ns.append(m.group(1))
            m = re.match(r"\s*end\s+(\S+)\s*$", line)
            if m and ns and ns[-1] == m.group(1):
                ns.pop()
            m = re.match(r"\s*(?:@\[[^\]]*\]\s*)?(?:protected\s+)?theorem\s+(\S+)", line)
            if m:
                names.append(".".join(ns + [m.group(1)]))
        if not ok:
            first = ""
            m = re.search(r"error: (.*?)\n(.*?)\n", out, re.S)
            if m:
                first = (m.group(1) + " " + m.group(2))[:400]
            for n in names:
                self.obligations.append((n, False, []))
            self.proof_break(module, "lake build failed: " + first)
            self.extra["build_output_tail"] = out[-1500:]
            return False
        bad = self.grep_forbidden(self.lean_files(source_dirs) + [path])
        if bad:
            self.proof_break(module, "forbidden token(s): " + "; ".join(bad[:5]))
        audit = os.path.join(LEAN, ".lake", f"Audit_{self.pid}.lean")
        os.makedirs(os.path.dirname(audit), exist_ok=True)
        with open(audit, "w") as fh:
            fh.write(f"import {module}\n" + "".join(f"#print axioms {n}\n" for n in names))
        r = subprocess.run(["lake", "env", "lean", audit], cwd=LEAN, capture_output=True, text=True)
        text = r.stdout + r.stderr
        found = {}
        for m in re.finditer(r"'([^']+)' depends on axioms: \[(.*?)\]", text, re.S):
            found[m.group(1)] = [a.strip() for a in m.group(2).replace("\n", " ").split(",") if a.strip()]
        for m in re.finditer(r"'([^']+)' does not depend on any axioms", text):
            found[m.group(1)] = []
        allok = not bad
        for n in names:
            if n not in found:
                self.obligations.append((n, False, ["<not found by audit>"]))
                self.proof_break(n, "audit did not report axioms: " + text[-300:])
                allok = False
                continue
            ax = found[n]
            good = set(ax) <= ALLOWED_AXIOMS
            self.trusted.update(ax)
            self.obligations.append((n, good, ax))
            if not good:
                self.proof_break(n, f"depends on non-standard axioms {ax}")
                allok = False
        if not names:
            self.proof_break(module, "no theorems found in property module")
            allok = False
        if self.tier == "thorough" and allok:
            allok = self.leanchecker([module]) and allok
        return allok

    def leanchecker(self, modules):
        r = subprocess.run(["lake", "env", "leanchecker"] + modules, cwd=LEAN, capture_output=True, text=True)
        self.extra["leanchecker"] = {"modules": modules, "rc": r.returncode, "tail": (r.stdout + r.stderr)[-300:]}
        self.checker_cmds.append("cd lean && lake env leanchecker " + " ".join(modules))
        if r.returncode != 0:
            self.proof_break("leanchecker", (r.stdout + r.stderr)[-400:])
        return r.returncode == 0

    def run_driver(self, module, lines, timeout=3600):
        """Build `module` (e.g. LinOp.C17.Driver, a file with `def main`) and pipe `lines` to it with
        `lake env lean --run`; returns the list of output lines (same length) or None (recorded as broken)."""
        if not lines:
            return []
        if "." not in module:
            module = f"LinOp.{module}.Driver"
        ok, out = self.lean_build([module])
        rel = module.replace(".", "/") + ".lean"
        if not ok:
            m = re.search(r"error: (.*?)\n(.*?)\n", out, re.S)
            self.proof_break(module, "driver does not build: " + ((m.group(1) + " " + m.group(2))[:400] if m else out[-400:]))
            return None
        inp = "\n".join(lines) + "\n"
        t = time.time()
        r = subprocess.run(["lake", "env", "lean", "--run", rel], cwd=LEAN, input=inp,
                           capture_output=True, text=True, timeout=timeout)
        self.extra["driver_s"] = round(self.extra.get("driver_s", 0) + time.time() - t, 2)
        outs = r.stdout.split("\n")
        if outs and outs[-1] == "":
            outs.pop()
        if r.returncode != 0 or len(outs) != len(lines):
            self.proof_break(module, f"driver failed rc={r.returncode} got {len(outs)} lines for {len(lines)}: {(r.stderr or r.stdout)[-400:]}")
            return None
        return outs

    # ------------------------------------------------------------------ verdict
    def finish(self):
        wall = time.time() - self.t0
        nviol = len(self.violations)
        lines = []
        for cell, what, path in self.violations:
            lines.append(f"VIOLATION property={self.pid} replay={path}")
        if nviol == 0 and (self.proof_breaks or self.corr_breaks):
            # the property is no longer shown to hold and the search produced no failing input
            payload = {"broken_obligations": [{"name": n, "detail": d} for n, d in self.proof_breaks],
                       "broken_correspondence": [{"cell": c, "what": w, "payload": p} for c, w, p in self.corr_breaks]}
            path = self._write_replay("no-failing-input", "proof obligation or correspondence no longer checks",
                                      payload, kind="broken-proof-or-correspondence")
            lines.append(f"VIOLATION property={self.pid} replay={path} no-failing-input-found")
            nviol = 1
        for f in self.findings:
            if f["line"] in self.known_hits:
                print(f"KNOWN-FINDING: property={self.pid} {f['what']} [cell={f['cell']} hits={self.known_hits[f['line']]}]")
        nob = len(self.obligations)
        ndis = sum(1 for o in self.obligations if o[1])
        cov = {
            "obligations": nob,
            "discharged": ndis,
            "checker_cmd": " ; ".join(dict.fromkeys(self.checker_cmds)) or "none",
            "trusted_base": sorted(self.trusted) + ["Lean 4.33 kernel", "Mathlib v4.33", "harness/ (Python correspondence + extractors)"],
            "theorems": [{"name": n, "ok": ok, "axioms": ax} for n, ok, ax in self.obligations],
            "evaluations": self.evaluations,
            "distinct_nontrivial": len(self.distinct),
            "rule": self.rule,
            "samples": self.samples or ["<none>"],
            "traces_validated_against_impl": self.traces_validated,
            "distribution": dict(sorted(self.dist.items())),
            "known_findings_hit": self.known_hits,
            "broken_obligations": [f"{n}: {d}"[:500] for n, d in self.proof_breaks],
            "broken_correspondence": [f"{c}: {w}"[:500] for c, w, _ in self.corr_breaks],
        }
        cov.update(self.extra)
        ev = {"property_id": self.pid, "tier": self.tier, "seed": self.seed, "level": "proof", "coverage": cov,
              "assumptions": self.assumptions, "wall_s": round(wall, 2), "violations": nviol}
        if not self.replay_path:
            # development runs against a scratch worktree (VERIF_REPO) never overwrite the committed evidence
            evdir = os.path.join(VERIF, "evidence") if REPO == "/repo" else os.path.join(VERIF, "evidence_scratch")
            os.makedirs(evdir, exist_ok=True)
            with open(os.path.join(evdir, f"{self.pid}.json"), "w") as fh:
                json.dump(ev, fh, indent=1, default=str)
        for cell, what, path in self.violations:
            print(f"  violation cell={cell}: {what[:300]}")
        for n, d in self.proof_breaks:
            print(f"  broken obligation {n}: {d[:300]}")
        for c, w, _ in self.corr_breaks[:10]:
            print(f"  broken correspondence {c}: {w[:300]}")
        for ln in lines:
            print(ln)
        print(f"{self.pid} tier={self.tier} seed={self.seed}: obligations {ndis}/{nob}, evaluations {self.evaluations}, "
              f"distinct {len(self.distinct)}, violations {nviol}, wall {wall:.1f}s")
        return 1 if nviol else 0


def fmt_rat(x):
    """Python number (int / Fraction / integral float) -> protocol scalar."""
    from fractions import Fraction
    if isinstance(x, Fraction):
        return str(x.numerator) if x.denominator == 1 else f"{x.numerator}/{x.denominator}"
    if isinstance(x, float):
        fr = Fraction(x)
        return fmt_rat(fr)
    return str(int(x))


def fmt_list(xs):
    xs = list(xs)
    return ",".join(fmt_rat(x) for x in xs) if xs else "-"


def fmt_mat(rows):
    return ";".join(fmt_list(r) for r in rows)
