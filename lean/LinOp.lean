import LinOp.Core.Basic
import LinOp.Core.Parse
import LinOp.Core.Bridge
