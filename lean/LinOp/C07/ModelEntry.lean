import LinOp.C07.ModelFn
/-
C07 — entry points that reach `_bilinear_derivative` through `Matmul` with special right-hand sides (core Lean only), and the
generic context of the autograd Functions:

* `to_dense()`           = `self.matmul(eye)`             → `Matmul.backward` → `_bilinear_derivative(G, eye)`
* `diagonal()`           (diagonal of the product with eye) → `_bilinear_derivative(diag(g), eye)`
* `op[i, j]`             = `e_iᵀ (op @ e_j)`               → `_bilinear_derivative(g·e_i, e_j)`
* `op.sum(-1)`           = `op @ ones`                     → `_bilinear_derivative(g, ones)`
* `op.sum(-2)`           = `onesᵀ op`                      → `_bilinear_derivative(ones, g)`
* `OpCtx` / `ctxOperator`: what every Function's forward leaves in `ctx` (saved `representation()` tensors; the operator object
  `ctx._linear_op` only when `settings.memory_efficient` is off) and the operator its backward works with
  (`ctx._linear_op if hasattr(ctx, "_linear_op") else ctx.representation_tree(*matrix_args)`): Matmul, Solve, InvQuad,
  RootDecomposition, Diagonalization keep-or-rebuild; InvQuadLogdet, PivotedCholesky always rebuild (table `C07Funcs`).
-/
namespace LinOp.C07
open LinOp

variable {α : Type}

/-- `torch.eye(m)`. -/
def idMat [Zero α] [One α] (m : Nat) : Mat α m m := fun i j => if i = j then 1 else 0
/-- `torch.diag_embed(g)`. -/
def diagMat [Zero α] {n : Nat} (g : Fin n → α) : Mat α n n := fun i j => if i = j then g i else 0
/-- the single column `g · e_i`. -/
def unitCol [Zero α] {n : Nat} (i : Fin n) (g : α) : Mat α n 1 := fun a _ => if a = i then g else 0
/-- a vector as an `n × 1` matrix. -/
def colOf {n : Nat} (g : Fin n → α) : Mat α n 1 := fun a _ => g a

section
variable [Add α] [Mul α] [Zero α] [Sub α] [One α]

/-- parameter gradients of `⟨G, op.to_dense()⟩`. -/
def toDenseBackward {n m : Nat} (o : Op n m) (θ : Param α o) (G : Mat α n m) : Param α o :=
  bilinDeriv o θ G (idMat m)

/-- parameter gradients of `⟨g, diag(op)⟩` (square operators). -/
def diagonalBackward {n : Nat} (o : Op n n) (θ : Param α o) (g : Fin n → α) : Param α o :=
  bilinDeriv o θ (diagMat g) (idMat n)

/-- parameter gradients of `g · op[i, j]`. -/
def getitemBackward {n m : Nat} (o : Op n m) (θ : Param α o) (i : Fin n) (j : Fin m) (g : α) : Param α o :=
  bilinDeriv o θ (unitCol i g) (unitCol j 1)

/-- parameter gradients of `⟨g, op.sum(-1)⟩` (`op @ ones`). -/
def sumLastBackward {n m : Nat} (o : Op n m) (θ : Param α o) (g : Fin n → α) : Param α o :=
  bilinDeriv o θ (colOf g) (colOf fun _ : Fin m => (1 : α))

/-- parameter gradients of `⟨g, op.sum(-2)⟩` (`onesᵀ op`). -/
def sumFirstBackward {n m : Nat} (o : Op n m) (θ : Param α o) (g : Fin m → α) : Param α o :=
  bilinDeriv o θ (colOf fun _ : Fin n => (1 : α)) (colOf g)
end

/-! ### The generic Function context -/

/-- What a Function's forward leaves behind: the saved tensors always, the operator object only when memory_efficient is off. -/
structure OpCtx (α : Type) {n m : Nat} (o : Op n m) where
  savedArgs : List α
  keptOp : Option (Param α o)

def forwardCtx {n m : Nat} (memoryEfficient : Bool) (o : Op n m) (θ : Param α o) : OpCtx α o :=
  ⟨flat o θ, if memoryEfficient then none else some θ⟩

/-- `linear_op = ctx._linear_op if hasattr(ctx, "_linear_op") else ctx.representation_tree(*matrix_args)`. -/
def ctxOperator [Zero α] {n m : Nat} (o : Op n m) (ctx : OpCtx α o) : Param α o :=
  match ctx.keptOp with
  | some p => p
  | none => (rebuild o ctx.savedArgs).1

/-- Functions whose backward always rebuilds (`InvQuadLogdet`, `PivotedCholesky`). -/
def ctxRebuilt [Zero α] {n m : Nat} (o : Op n m) (ctx : OpCtx α o) : Param α o :=
  (rebuild o ctx.savedArgs).1

/-- `InvQuadLogdet.forward`: the context does not depend on `settings.skip_logdet_forward` (only the returned logdet value does:
zeros when the flag is on).  `logdet` is the value the forward would compute. -/
def invQuadLogdetForward [Zero α] {n m : Nat} (skipLogdetForward memoryEfficient : Bool) (o : Op n m) (θ : Param α o) (logdet : α) :
    OpCtx α o × α :=
  (forwardCtx memoryEfficient o θ, if skipLogdetForward then 0 else logdet)

/-- `InvQuadLogdet.backward`'s parameter gradients: ONE `_bilinear_derivative` call on the REBUILT operator with the
concatenated probe block / inv_quad block factors. -/
def invQuadLogdetBackwardArgs [Add α] [Mul α] [Zero α] [Sub α] [One α] {n m d₁ d₂ : Nat} (o : Op n m) (ctx : OpCtx α o)
    (L₁ : Mat α n d₁) (L₂ : Mat α n d₂) (R₁ : Mat α m d₁) (R₂ : Mat α m d₂) : Param α o :=
  bilinDeriv o (ctxRebuilt o ctx) (hcat L₁ L₂) (hcat R₁ R₂)

/-! ### Which code each class's derivative comes from (checked against the generated table `Generated.C07.providers`) -/

/-- class that PROVIDES a hand-written `_bilinear_derivative` → the model constructor(s) mirroring that code. -/
def providerCtor : List (String × String) :=
  [("DenseLinearOperator", "dense"), ("DiagLinearOperator", "diag"), ("ConstantDiagLinearOperator", "constDiag"),
   ("ToeplitzLinearOperator", "toeplitz"), ("ConstantMulLinearOperator", "constMul"), ("MatmulLinearOperator", "matmul"),
   ("SumLinearOperator", "sum"), ("MulLinearOperator", "mulRoot / mul"), ("MaskedLinearOperator", "masked"),
   ("InterpolatedLinearOperator", "interp"), ("BlockLinearOperator", "blockDiag / blockInterleaved / sumBatch"),
   ("BatchRepeatLinearOperator", "batchRepeatDeriv"),
   ("KroneckerProductDiagLinearOperator", "kron (the override delegates to the default derivative)")]

/-- providers outside the model (Zero: constant-free; KeOps: external backend). -/
def providerUnmodelled : List String := ["KeOpsLinearOperator", "ZeroLinearOperator"]

/-- classes resolving to `LinearOperator._bilinear_derivative` (autograd of their own `_matmul`) → model constructor by reverse
sweep through that `_matmul`, or "-" when outside the model. -/
def defaultCtor : List (String × String) :=
  [("LinearOperator", "-"), ("RootLinearOperator", "root"), ("LowRankRootLinearOperator", "root"), ("CholLinearOperator", "root"),
   ("KroneckerProductLinearOperator", "kron"), ("KroneckerProductTriangularLinearOperator", "kron"),
   ("CatLinearOperator", "catRows / catCols"), ("TriangularLinearOperator", "dense"), ("KernelLinearOperator", "-"),
   ("AbstractPermutationLinearOperator", "-"), ("PermutationLinearOperator", "-"), ("TransposePermutationLinearOperator", "-")]

end LinOp.C07
