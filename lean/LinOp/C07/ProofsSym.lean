import LinOp.C07.ProofsToeplitz
import LinOp.C07.ModelFn
/-!
C07 — the concatenated / symmetrised factors of `Solve.backward` and `InvQuadLogdet.backward`.
-/
namespace LinOp.C07
open LinOp Matrix

variable {α : Type} [CommRing α]

/-- The bilinear form is additive over concatenated columns. -/
theorem bilS_hcat {n m d₁ d₂ : Nat} (D : Mat α n m) (L₁ : Mat α n d₁) (L₂ : Mat α n d₂) (R₁ : Mat α m d₁) (R₂ : Mat α m d₂) :
    bilS D (hcat L₁ L₂) (hcat R₁ R₂) = bilS D L₁ R₁ + bilS D L₂ R₂ := by
  simp only [bilS_eq_sum, Fin.sum_univ_add]
  congr 1
  · refine Finset.sum_congr rfl fun c _ => Finset.sum_congr rfl fun i _ => Finset.sum_congr rfl fun j _ => ?_
    simp [hcat]
  · refine Finset.sum_congr rfl fun c _ => Finset.sum_congr rfl fun i _ => Finset.sum_congr rfl fun j _ => ?_
    simp [hcat]

theorem bilS_scale_right {n m d : Nat} (D : Mat α n m) (s : α) (U : Mat α n d) (V : Mat α m d) :
    bilS D U (fun j c => V j c * s) = bilS D U V * s := by
  simp only [bilS_eq_sum, Finset.sum_mul]
  refine Finset.sum_congr rfl fun c _ => Finset.sum_congr rfl fun i _ => Finset.sum_congr rfl fun j _ => ?_
  ring

/-- For a symmetric perturbation the two orders of the factors agree. -/
theorem bilS_symm {n d : Nat} (D : Mat α n n) (hD : ∀ i j, D i j = D j i) (L R : Mat α n d) :
    bilS D R L = bilS D L R := by
  simp only [bilS_eq_sum]
  refine Finset.sum_congr rfl fun c _ => ?_
  rw [Finset.sum_comm]
  refine Finset.sum_congr rfl fun i _ => Finset.sum_congr rfl fun j _ => ?_
  rw [hD j i]
  ring

/-- `_bilinear_derivative(cat[L, R], −½·cat[R, L])` pairs to `−½ (Σ lᵀ D r + Σ rᵀ D l)` — for EVERY operator tree. -/
theorem symmetrisedDeriv_pair {n : Nat} (o : Op n n) (θ δ : Param α o) (half : α) {d : Nat} (L R : Mat α n d) :
    pair o (symmetrisedDeriv o θ half L R) δ
      = (bilS (dDenote o θ δ) L R + bilS (dDenote o θ δ) R L) * (-half) := by
  unfold symmetrisedDeriv
  rw [(all_correct o (Or.inr correct_toeplitz)).2 θ δ (d + d), bilS_scale_right, bilS_hcat]

/-! ### flat / rebuild round trip -/

theorem takeN_flatN {β : Type} (rd : List α → β × List α) (fl : β → List α)
    (h : ∀ x rest, rd (fl x ++ rest) = (x, rest)) :
    ∀ (k : Nat) (f : Fin k → β) (rest : List α), takeN rd k (flatN fl k f ++ rest) = (f, rest) := by
  intro k
  induction k with
  | zero =>
    intro f rest
    simp only [takeN, flatN, List.nil_append, Prod.mk.injEq, and_true]
    funext i; exact i.elim0
  | succ k ih =>
    intro f rest
    simp only [takeN, flatN, List.append_assoc, h, ih, Prod.mk.injEq, and_true]
    funext i
    refine Fin.cases ?_ (fun j => ?_) i <;> simp

theorem rdScalar_single (x : α) (rest : List α) : rdScalar ([x] ++ rest) = (x, rest) := rfl

/-- `representation_tree()(*representation()) = the operator` (the flat-list form of C14's rebuild/flatten theorem,
for the operator classes of this model). -/
theorem rebuild_flat {n m : Nat} (o : Op n m) : ∀ (θ : Param α o) (rest : List α), rebuild o (flat o θ ++ rest) = (θ, rest) := by
  induction o with
  | dense n m =>
    intro θ rest
    exact takeN_flatN _ _ (takeN_flatN _ _ rdScalar_single m) n θ rest
  | diag n => intro θ rest; exact takeN_flatN _ _ rdScalar_single n θ rest
  | constDiag n => intro θ rest; rfl
  | toeplitz n => intro θ rest; exact takeN_flatN _ _ rdScalar_single n θ rest
  | constMul o ih =>
    intro θ rest
    simp only [rebuild, flat, List.append_assoc, ih, rdScalar_single]
  | matmul a b iha ihb => intro θ rest; simp only [rebuild, flat, List.append_assoc, iha, ihb]
  | sum a b iha ihb => intro θ rest; simp only [rebuild, flat, List.append_assoc, iha, ihb]
  | mul a b iha ihb => intro θ rest; simp only [rebuild, flat, List.append_assoc, iha, ihb]
  | masked rows cols o ih => intro θ rest; exact ih θ rest
  | interp ql qr li ri o ih =>
    intro θ rest
    simp only [rebuild, flat, List.append_assoc, ih,
      takeN_flatN _ _ (takeN_flatN _ _ rdScalar_single ql), takeN_flatN _ _ (takeN_flatN _ _ rdScalar_single qr)]
  | blockDiag k o ih => intro θ rest; exact takeN_flatN _ _ ih k θ rest
  | blockInterleaved k o ih => intro θ rest; exact takeN_flatN _ _ ih k θ rest
  | sumBatch k o ih => intro θ rest; exact takeN_flatN _ _ ih k θ rest
  | transpose o ih => intro θ rest; exact ih θ rest
  | root o ih => intro θ rest; exact ih θ rest
  | mulRoot a b iha ihb => intro θ rest; simp only [rebuild, flat, List.append_assoc, iha, ihb]
  | kron a b iha ihb => intro θ rest; simp only [rebuild, flat, List.append_assoc, iha, ihb]
  | catRows a b iha ihb => intro θ rest; simp only [rebuild, flat, List.append_assoc, iha, ihb]
  | catCols a b iha ihb => intro θ rest; simp only [rebuild, flat, List.append_assoc, iha, ihb]

theorem rebuild_flat' {n m : Nat} (o : Op n m) (θ : Param α o) : (rebuild o (flat o θ)).1 = θ := by
  have := rebuild_flat o θ []
  rw [List.append_nil] at this
  rw [this]

/-- **memory_efficient is irrelevant for `Matmul.backward`**: the context left by the forward with the flag on (operator
rebuilt from the saved tensors) and off (operator object kept) yield the same parameter and rhs gradients. -/
theorem matmulBackward_memoryEfficient {n m c : Nat} (o : Op n m) (θ : Param α o) (rhs : Mat α m c) (G : Mat α n c) :
    matmulBackward o (matmulForwardCtx true o θ rhs) G = matmulBackward o (matmulForwardCtx false o θ rhs) G := by
  simp only [matmulBackward, matmulForwardCtx, rebuild_flat', if_true, Bool.false_eq_true, if_false]

/-- **memory_efficient is irrelevant for `Solve.backward`** (same for `InvQuad.backward`, which differs only in the factors). -/
theorem solveBackward_memoryEfficient {n c : Nat} (o : Op n n) (θ : Param α o) (half : α) (X Ls : Mat α n c) :
    solveBackwardArgs o (solveForwardCtx true o θ X) half Ls = solveBackwardArgs o (solveForwardCtx false o θ X) half Ls := by
  simp only [solveBackwardArgs, solveForwardCtx, rebuild_flat', if_true, Bool.false_eq_true, if_false]

/-- The symmetrised concatenation for a SYMMETRIC perturbation: `−½ (lᵀDr + rᵀDl) = −lᵀDr`. -/
theorem symmetrisedDeriv_symm {n : Nat} (o : Op n n) (θ δ : Param α o) (half : α) (hh : half + half = 1)
    (hD : ∀ i j, dDenote o θ δ i j = dDenote o θ δ j i) {d : Nat} (L R : Mat α n d) :
    pair o (symmetrisedDeriv o θ half L R) δ = - bilS (dDenote o θ δ) L R := by
  rw [symmetrisedDeriv_pair, bilS_symm _ hD L R]
  have : (bilS (dDenote o θ δ) L R + bilS (dDenote o θ δ) L R) * -half = -((half + half) * bilS (dDenote o θ δ) L R) := by ring
  rw [this, hh, one_mul]

end LinOp.C07
