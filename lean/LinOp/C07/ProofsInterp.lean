import LinOp.C07.ProofsMul
/-!
C07 — step lemma for InterpolatedLinearOperator: `⟦op⟧ = W_L · K · W_Rᵀ` with `W[i, idx i a] += val i a`.
-/
namespace LinOp.C07
open LinOp Matrix

variable {α : Type} [CommRing α]

/-- The interpolation matrix `W[i, p] = Σ_a [idx i a = p] val i a`. -/
def wMat {n r q : Nat} (idx : Fin r → Fin q → Fin n) (val : Mat α r q) : Matrix (Fin r) (Fin n) α :=
  fun i p => ∑ a, if idx i a = p then val i a else 0

theorem interpT_eq {n r q d : Nat} (idx : Fin r → Fin q → Fin n) (val : Mat α r q) (U : Mat α r d) :
    interpT idx val U = ((wMat idx val)ᵀ * Matrix.of U : Matrix (Fin n) (Fin d) α) := by
  funext p c
  simp only [interpT, wMat, sumFin_eq_sum, Matrix.mul_apply, Matrix.transpose_apply, Matrix.of_apply, Finset.sum_mul, ite_mul,
    zero_mul]

/-- `Σ_a Σ_b x[i,a] · K[li i a, ri j b] · y[j,b] = (W(x) K W(y)ᵀ)[i,j]`. -/
theorem triple_eq {n m r s ql qr : Nat} (li : Fin r → Fin ql → Fin n) (ri : Fin s → Fin qr → Fin m)
    (x : Mat α r ql) (K : Mat α n m) (y : Mat α s qr) (i : Fin r) (j : Fin s) :
    (∑ a, ∑ b, x i a * K (li i a) (ri j b) * y j b) = (wMat li x * Matrix.of K * (wMat ri y)ᵀ) i j := by
  simp only [wMat, Matrix.mul_apply, Matrix.transpose_apply, Matrix.of_apply, Finset.sum_mul, Finset.mul_sum, ite_mul, mul_ite,
    zero_mul, mul_zero]
  conv_rhs => rw [Finset.sum_comm]
  rw [Finset.sum_comm]
  refine Finset.sum_congr rfl fun b _ => ?_
  rw [Finset.sum_ite_eq]
  simp only [Finset.mem_univ, if_true]
  rw [Finset.sum_comm]
  refine Finset.sum_congr rfl fun a _ => ?_
  rw [Finset.sum_ite_eq]
  simp only [Finset.mem_univ, if_true]

/-- The gather form of the value gradients: `Σ_i Σ_a (Σ_c K[idx i a, c] U[i,c]) δ[i,a] = tr(Uᵀ W(δ) K)`. -/
theorem pairing_wMat {n r q d : Nat} (idx : Fin r → Fin q → Fin n) (δv : Mat α r q) (K : Mat α n d) (U : Mat α r d) :
    (∑ i, ∑ a, (∑ c, K (idx i a) c * U i c) * δv i a) = Matrix.trace ((Matrix.of U)ᵀ * wMat idx δv * Matrix.of K) := by
  simp only [Matrix.trace, Matrix.diag_apply, Matrix.mul_apply, Matrix.transpose_apply, Matrix.of_apply, wMat, Finset.sum_mul,
    Finset.mul_sum, ite_mul, mul_ite, zero_mul, mul_zero]
  conv_rhs =>
    enter [2, c]
    rw [Finset.sum_comm]
    enter [2, i]
    rw [Finset.sum_comm]
  simp only [Finset.sum_ite_eq, Finset.mem_univ, if_true]
  symm
  rw [Finset.sum_comm]
  refine Finset.sum_congr rfl fun i _ => ?_
  rw [Finset.sum_comm]
  refine Finset.sum_congr rfl fun a _ => Finset.sum_congr rfl fun c _ => ?_
  ring

theorem bilS_add3 {n m d : Nat} (A B C : Matrix (Fin n) (Fin m) α) (U : Mat α n d) (V : Mat α m d) :
    bilS (fun i j => A i j + (B i j + C i j)) U V
      = bilS (fun i j => A i j) U V + (bilS (fun i j => B i j) U V + bilS (fun i j => C i j) U V) := by
  simp only [bilS_eq_sum, mul_add, add_mul, Finset.sum_add_distrib]

theorem reOK_interp {n m r s : Nat} (ql qr : Nat) (li : Fin r → Fin ql → Fin n) (ri : Fin s → Fin qr → Fin m) (o : Op n m)
    (h : ReOK α o) : ReOK α (.interp ql qr li ri o) := by
  intro θ δ i j
  show (sumFin ql fun a => sumFin qr fun b =>
      (⟨θ.2.1 i a, δ.2.1 i a⟩ : Dual α) * denote o (mkDual o θ.1 δ.1) (li i a) (ri j b) * ⟨θ.2.2 j b, δ.2.2 j b⟩).re
    = sumFin ql fun a => sumFin qr fun b => θ.2.1 i a * denote o θ.1 (li i a) (ri j b) * θ.2.2 j b
  simp only [sumFin_re, sumFin_eq_sum, Dual.mul_re, h θ.1 δ.1]

theorem dDenote_interp {n m r s : Nat} (ql qr : Nat) (li : Fin r → Fin ql → Fin n) (ri : Fin s → Fin qr → Fin m) (o : Op n m)
    (h : ReOK α o) (θ δ : Param α (.interp ql qr li ri o)) :
    dDenote (.interp ql qr li ri o) θ δ = fun i j =>
      (wMat li θ.2.1 * Matrix.of (denote o θ.1) * (wMat ri δ.2.2)ᵀ) i j
        + ((wMat li θ.2.1 * Matrix.of (dDenote o θ.1 δ.1) * (wMat ri θ.2.2)ᵀ) i j
          + (wMat li δ.2.1 * Matrix.of (denote o θ.1) * (wMat ri θ.2.2)ᵀ) i j) := by
  funext i j
  show (sumFin ql fun a => sumFin qr fun b =>
      (⟨θ.2.1 i a, δ.2.1 i a⟩ : Dual α) * denote o (mkDual o θ.1 δ.1) (li i a) (ri j b) * ⟨θ.2.2 j b, δ.2.2 j b⟩).eps = _
  simp only [sumFin_eps, Dual.mul_eps, Dual.mul_re, h θ.1 δ.1, ← triple_eq]
  simp only [dDenote, ← Finset.sum_add_distrib]
  refine Finset.sum_congr rfl fun a _ => Finset.sum_congr rfl fun b _ => ?_
  ring

theorem correct_interp {n m r s : Nat} (ql qr : Nat) (li : Fin r → Fin ql → Fin n) (ri : Fin s → Fin qr → Fin m) (o : Op n m)
    (hr : ReOK α o) (h : Correct α o) : Correct α (.interp ql qr li ri o) := by
  intro θ δ d U V
  rw [dDenote_interp ql qr li ri o hr θ δ, bilS_add3]
  -- the three pieces of the returned tuple
  have e1 : pair o (bilinDeriv o θ.1 (getV (memoV (interpT li θ.2.1 U))) (getV (memoV (interpT ri θ.2.2 V)))) δ.1
      = bilS (fun i j => (wMat li θ.2.1 * Matrix.of (dDenote o θ.1 δ.1) * (wMat ri θ.2.2)ᵀ) i j) U V := by
    rw [getV_memoV, getV_memoV, h θ.1 δ.1 d, interpT_eq, interpT_eq]
    show Matrix.trace (((wMat li θ.2.1)ᵀ * Matrix.of U)ᵀ * Matrix.of (dDenote o θ.1 δ.1) * ((wMat ri θ.2.2)ᵀ * Matrix.of V))
      = Matrix.trace ((Matrix.of U)ᵀ * (wMat li θ.2.1 * Matrix.of (dDenote o θ.1 δ.1) * (wMat ri θ.2.2)ᵀ) * Matrix.of V)
    simp only [Matrix.transpose_mul, Matrix.transpose_transpose, Matrix.mul_assoc]
  have e2 : (sumFin r fun i => sumFin ql fun a =>
        (sumFin d fun c => getV (memoV (mmul (denote o θ.1) (getV (memoV (interpT ri θ.2.2 V))))) (li i a) c * U i c) * δ.2.1 i a)
      = bilS (fun i j => (wMat li δ.2.1 * Matrix.of (denote o θ.1) * (wMat ri θ.2.2)ᵀ) i j) U V := by
    rw [getV_memoV, getV_memoV]
    simp only [sumFin_eq_sum]
    rw [pairing_wMat li δ.2.1 (mmul (denote o θ.1) (interpT ri θ.2.2 V)) U, mmul_eq, interpT_eq]
    have hk : (Matrix.of fun i j => ∑ l, denote o θ.1 i l * ((wMat ri θ.2.2)ᵀ * Matrix.of V) l j)
        = Matrix.of (denote o θ.1) * ((wMat ri θ.2.2)ᵀ * Matrix.of V) := by
      ext i j; simp [Matrix.mul_apply]
    rw [hk]
    show _ = Matrix.trace ((Matrix.of U)ᵀ * (wMat li δ.2.1 * Matrix.of (denote o θ.1) * (wMat ri θ.2.2)ᵀ) * Matrix.of V)
    simp only [Matrix.mul_assoc]
  have e3 : (sumFin s fun j => sumFin qr fun b =>
        (sumFin d fun c => getV (memoV (mmul (Mat.transpose (denote o θ.1)) (getV (memoV (interpT li θ.2.1 U))))) (ri j b) c * V j c)
          * δ.2.2 j b)
      = bilS (fun i j => (wMat li θ.2.1 * Matrix.of (denote o θ.1) * (wMat ri δ.2.2)ᵀ) i j) U V := by
    rw [getV_memoV, getV_memoV]
    simp only [sumFin_eq_sum]
    rw [pairing_wMat ri δ.2.2 (mmul (Mat.transpose (denote o θ.1)) (interpT li θ.2.1 U)) V, mmul_eq, interpT_eq]
    have hk : (Matrix.of fun i j => ∑ l, Mat.transpose (denote o θ.1) i l * ((wMat li θ.2.1)ᵀ * Matrix.of U) l j)
        = (Matrix.of (denote o θ.1))ᵀ * ((wMat li θ.2.1)ᵀ * Matrix.of U) := by
      ext i j; simp [Matrix.mul_apply, Mat.transpose]
    rw [hk]
    show _ = Matrix.trace ((Matrix.of U)ᵀ * (wMat li θ.2.1 * Matrix.of (denote o θ.1) * (wMat ri δ.2.2)ᵀ) * Matrix.of V)
    rw [← Matrix.trace_transpose ((Matrix.of U)ᵀ * (wMat li θ.2.1 * Matrix.of (denote o θ.1) * (wMat ri δ.2.2)ᵀ) * Matrix.of V)]
    simp only [Matrix.transpose_mul, Matrix.transpose_transpose, Matrix.mul_assoc]
  rw [← e1, ← e2, ← e3]
  show pair o (bilinDeriv o θ.1 (getV (memoV (interpT li θ.2.1 U))) (getV (memoV (interpT ri θ.2.2 V)))) δ.1
      + ((sumFin r fun i => sumFin ql fun a =>
          (sumFin d fun c => getV (memoV (mmul (denote o θ.1) (getV (memoV (interpT ri θ.2.2 V))))) (li i a) c * U i c) * δ.2.1 i a)
        + (sumFin s fun j => sumFin qr fun b =>
          (sumFin d fun c => getV (memoV (mmul (Mat.transpose (denote o θ.1)) (getV (memoV (interpT li θ.2.1 U))))) (ri j b) c * V j c)
            * δ.2.2 j b)) = _
  ring

end LinOp.C07
