import LinOp.C07.ProofsBlock
/-!
C07 — step lemmas that split the column index `Fin (r * d)`: Mul (Hadamard-scaled columns) and BatchRepeat.
-/
namespace LinOp.C07
open LinOp Matrix

variable {α : Type} [CommRing α]

/-- The Mul factors: `n·d` columns `U[:,c]·B[:,r]` against `V[:,c]·e_r` reproduce the Hadamard product with `B`. -/
theorem bilS_hadamard {n d : Nat} (D B : Mat α n n) (U V : Mat α n d) :
    bilS D (d := n * d) (fun i c => U i (innerIdx c) * B i (outerIdx c))
        (fun j c => V j (innerIdx c) * (if j = outerIdx c then 1 else 0))
      = bilS (fun i j => D i j * B i j) U V := by
  simp only [bilS_eq_sum, sum_pairIdx (k := n) (n := d), outer_pairIdx, inner_pairIdx, mul_ite, mul_one, mul_zero]
  rw [Finset.sum_comm]
  refine Finset.sum_congr rfl fun c _ => ?_
  rw [Finset.sum_comm]
  refine Finset.sum_congr rfl fun i _ => ?_
  rw [Finset.sum_comm]
  refine Finset.sum_congr rfl fun j _ => ?_
  rw [Finset.sum_ite_eq]
  simp only [Finset.mem_univ, if_true]
  ring

theorem reOK_mul {n : Nat} (a b : Op n n) (ha : ReOK α a) (hb : ReOK α b) : ReOK α (.mul a b) := by
  intro θ δ i j
  show (denote a (mkDual a θ.1 δ.1) i j * denote b (mkDual b θ.2 δ.2) i j).re = denote a θ.1 i j * denote b θ.2 i j
  rw [Dual.mul_re, ha θ.1 δ.1 i j, hb θ.2 δ.2 i j]

theorem correct_mul {n : Nat} (a b : Op n n) (hra : ReOK α a) (hrb : ReOK α b) (ha : Correct α a) (hb : Correct α b) :
    Correct α (.mul a b) := by
  intro θ δ d U V
  have hD : dDenote (.mul a b) θ δ = fun i j =>
      dDenote b θ.2 δ.2 i j * denote a θ.1 i j + dDenote a θ.1 δ.1 i j * denote b θ.2 i j := by
    funext i j
    show (denote a (mkDual a θ.1 δ.1) i j * denote b (mkDual b θ.2 δ.2) i j).eps = _
    rw [Dual.mul_eps, hra θ.1 δ.1 i j, hrb θ.2 δ.2 i j]
    simp only [dDenote]
    ring
  rw [hD, bilS_add, ← bilS_hadamard, ← bilS_hadamard, ← ha θ.1 δ.1 (n * d), ← hb θ.2 δ.2 (n * d), add_comm]
  show pair a (bilinDeriv a θ.1 (d := n * d) (fun i c => U i (innerIdx c) * getV (memoV (denote b θ.2)) i (outerIdx c))
        (fun j c => V j (innerIdx c) * (if j = outerIdx c then 1 else 0))) δ.1
      + pair b (bilinDeriv b θ.2 (d := n * d) (fun i c => U i (innerIdx c) * getV (memoV (denote a θ.1)) i (outerIdx c))
        (fun j c => V j (innerIdx c) * (if j = outerIdx c then 1 else 0))) δ.2 = _
  rw [getV_memoV, getV_memoV]

/-- **BatchRepeat**: moving the `r` repeat batches into the columns makes the base operator's parameters receive the SUM
over the repeats of the per-repeat bilinear forms (`broadcast_params_summed`). -/
theorem batchRepeatDeriv_correct {n m : Nat} (o : Op n m) (h : Correct α o) (θ δ : Param α o) {r d : Nat}
    (U : Fin r → Mat α n d) (V : Fin r → Mat α m d) :
    pair o (batchRepeatDeriv o θ U V) δ = ∑ q, bilS (dDenote o θ δ) (U q) (V q) := by
  unfold batchRepeatDeriv
  rw [h θ δ (r * d)]
  simp only [bilS_eq_sum, sum_pairIdx (k := r) (n := d), outer_pairIdx, inner_pairIdx]

/-- Pairing the summed-back gradient of a broadcast parameter with a perturbation of the (small) parameter equals the sum
over the batch members of the member gradient times the perturbation the member sees. -/
theorem bcastSum_pair {B K : Nat} (π : Fin B → Fin K) (g : Fin B → α) (δ : Fin K → α) :
    ∑ k, bcastSum π g k * δ k = ∑ b, g b * δ (π b) := by
  simp only [bcastSum, sumFin_eq_sum, Finset.sum_mul, ite_mul, zero_mul]
  rw [Finset.sum_comm]
  refine Finset.sum_congr rfl fun b _ => ?_
  rw [Finset.sum_ite_eq]
  simp

/-- The constant's slot of ConstantMul's derivative is `Σ_i Σ_c U[i,c] (⟦base⟧ V)[i,c]`, for every base operator. -/
theorem constMul_const_grad {n m : Nat} (o : Op n m) (θ : Param α (.constMul o)) {d : Nat} (U : Mat α n d) (V : Mat α m d)
    (δc : α) :
    (bilinDeriv (.constMul o) θ U V).2 * δc = bilS (fun i j => denote o θ.1 i j * δc) U V := by
  rw [bilS_const]
  show (sumFin n fun i => sumFin d fun c => U i c * getV (memoV (mmul (denote o θ.1) V)) i c) * δc = _
  rw [getV_memoV, mmul_eq]
  simp only [sumFin_eq_sum]

end LinOp.C07
