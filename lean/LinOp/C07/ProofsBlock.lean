import LinOp.C07.ProofsMore
import Mathlib.Logic.Equiv.Fin.Basic
import Mathlib.Algebra.BigOperators.Group.Finset.Sigma
/-!
C07 — step lemmas for the block operators: sums over `Fin (k * n)` split into block / within-block sums.
-/
namespace LinOp.C07
open LinOp Matrix

variable {α : Type} [CommRing α]

theorem outer_pairIdx {k n : Nat} (a : Fin k) (b : Fin n) : outerIdx (pairIdx a b) = a := by
  apply Fin.ext
  have hn : 0 < n := Nat.pos_of_ne_zero (by intro h; have := b.2; omega)
  simp only [outerIdx, pairIdx]
  rw [Nat.add_comm, Nat.mul_comm, Nat.add_mul_div_left _ _ hn, Nat.div_eq_of_lt b.2, Nat.zero_add]

theorem inner_pairIdx {k n : Nat} (a : Fin k) (b : Fin n) : innerIdx (pairIdx a b) = b := by
  apply Fin.ext
  simp only [innerIdx, pairIdx]
  rw [Nat.add_comm, Nat.mul_comm, Nat.add_mul_mod_self_left, Nat.mod_eq_of_lt b.2]

/-- A sum over the pair index splits into the double sum. -/
theorem sum_pairIdx {k n : Nat} {β : Type} [AddCommMonoid β] (f : Fin (k * n) → β) :
    ∑ I, f I = ∑ a : Fin k, ∑ b : Fin n, f (pairIdx a b) := by
  rw [← Fintype.sum_prod_type' (f := fun a b => f (pairIdx a b))]
  symm
  apply Fintype.sum_equiv finProdFinEquiv
  intro x
  congr 1
  apply Fin.ext
  simp [pairIdx, finProdFinEquiv, Nat.add_comm, Nat.mul_comm]

/-! ### BlockDiag -/

theorem reOK_blockDiag {n m : Nat} (k : Nat) (o : Op n m) (h : ReOK α o) : ReOK α (.blockDiag k o) := by
  intro θ δ i j
  show (if (outerIdx i).1 = (outerIdx j).1 then denote o (mkDual o (θ (outerIdx i)) (δ (outerIdx i))) (innerIdx i) (innerIdx j)
      else (0 : Dual α)).re
    = if (outerIdx i).1 = (outerIdx j).1 then denote o (θ (outerIdx i)) (innerIdx i) (innerIdx j) else 0
  simp only [Dual.ite_re, Dual.zero_re]
  rw [h (θ (outerIdx i)) (δ (outerIdx i))]

theorem dDenote_blockDiag {n m : Nat} (k : Nat) (o : Op n m) (θ δ : Param α (.blockDiag k o)) (I : Fin (k * n)) (J : Fin (k * m)) :
    dDenote (.blockDiag k o) θ δ I J
      = if outerIdx I = outerIdx J then dDenote o (θ (outerIdx I)) (δ (outerIdx I)) (innerIdx I) (innerIdx J) else 0 := by
  show (if (outerIdx I).1 = (outerIdx J).1 then denote o (mkDual o (θ (outerIdx I)) (δ (outerIdx I))) (innerIdx I) (innerIdx J)
      else (0 : Dual α)).eps = _
  simp only [Dual.ite_eps, Dual.zero_eps, dDenote, Fin.val_inj]

theorem correct_blockDiag {n m : Nat} (k : Nat) (o : Op n m) (h : Correct α o) : Correct α (.blockDiag k o) := by
  intro θ δ d U V
  show (sumFin k fun b => pair o (bilinDeriv o (θ b) (fun i c => U (pairIdx b i) c) (fun j c => V (pairIdx b j) c)) (δ b)) = _
  rw [sumFin_eq_sum, bilS_eq_sum]
  have hl : ∀ b : Fin k, pair o (bilinDeriv o (θ b) (fun i c => U (pairIdx b i) c) (fun j c => V (pairIdx b j) c)) (δ b)
      = ∑ c, ∑ i, ∑ j, U (pairIdx b i) c * dDenote o (θ b) (δ b) i j * V (pairIdx b j) c := by
    intro b; rw [h (θ b) (δ b) d, bilS_eq_sum]
  simp only [hl, dDenote_blockDiag, sum_pairIdx (k := k), outer_pairIdx, inner_pairIdx, mul_ite, ite_mul, mul_zero, zero_mul]
  rw [Finset.sum_comm]
  refine Finset.sum_congr rfl fun c _ => Finset.sum_congr rfl fun a _ => Finset.sum_congr rfl fun i _ => ?_
  rw [Finset.sum_comm]
  refine Finset.sum_congr rfl fun j _ => ?_
  rw [Finset.sum_ite_eq]
  simp

/-! ### BlockInterleaved: row index `i * k + b` — block = inner index, within-block row = outer index -/

theorem reOK_blockInterleaved {n m : Nat} (k : Nat) (o : Op n m) (h : ReOK α o) : ReOK α (.blockInterleaved k o) := by
  intro θ δ i j
  show (if (innerIdx i).1 = (innerIdx j).1 then denote o (mkDual o (θ (innerIdx i)) (δ (innerIdx i))) (outerIdx i) (outerIdx j)
      else (0 : Dual α)).re
    = if (innerIdx i).1 = (innerIdx j).1 then denote o (θ (innerIdx i)) (outerIdx i) (outerIdx j) else 0
  simp only [Dual.ite_re, Dual.zero_re]
  rw [h (θ (innerIdx i)) (δ (innerIdx i))]

theorem dDenote_blockInterleaved {n m : Nat} (k : Nat) (o : Op n m) (θ δ : Param α (.blockInterleaved k o))
    (I : Fin (n * k)) (J : Fin (m * k)) :
    dDenote (.blockInterleaved k o) θ δ I J
      = if innerIdx I = innerIdx J then dDenote o (θ (innerIdx I)) (δ (innerIdx I)) (outerIdx I) (outerIdx J) else 0 := by
  show (if (innerIdx I).1 = (innerIdx J).1 then denote o (mkDual o (θ (innerIdx I)) (δ (innerIdx I))) (outerIdx I) (outerIdx J)
      else (0 : Dual α)).eps = _
  simp only [Dual.ite_eps, Dual.zero_eps, dDenote, Fin.val_inj]

theorem correct_blockInterleaved {n m : Nat} (k : Nat) (o : Op n m) (h : Correct α o) : Correct α (.blockInterleaved k o) := by
  intro θ δ d U V
  show (sumFin k fun b => pair o (bilinDeriv o (θ b) (fun i c => U (pairIdx i b) c) (fun j c => V (pairIdx j b) c)) (δ b)) = _
  rw [sumFin_eq_sum, bilS_eq_sum]
  have hl : ∀ b : Fin k, pair o (bilinDeriv o (θ b) (fun i c => U (pairIdx i b) c) (fun j c => V (pairIdx j b) c)) (δ b)
      = ∑ c, ∑ i, ∑ j, U (pairIdx i b) c * dDenote o (θ b) (δ b) i j * V (pairIdx j b) c := by
    intro b; rw [h (θ b) (δ b) d, bilS_eq_sum]
  simp only [hl, dDenote_blockInterleaved, sum_pairIdx (n := k), outer_pairIdx, inner_pairIdx, mul_ite, ite_mul, mul_zero, zero_mul]
  rw [Finset.sum_comm]
  refine Finset.sum_congr rfl fun c _ => ?_
  rw [Finset.sum_comm]
  refine Finset.sum_congr rfl fun i _ => Finset.sum_congr rfl fun b _ => Finset.sum_congr rfl fun j _ => ?_
  rw [Finset.sum_ite_eq]
  simp

end LinOp.C07
