import LinOp.C07.ProofsAll
/-!
C07 — the Toeplitz leaf: `sym_toeplitz_derivative_quadratic_form` computes `Σ_c Σ_{|a−b| = k} U[a,c] V[b,c]`.
-/
namespace LinOp.C07
open LinOp

variable {α : Type} [CommRing α]

theorem sum_ite_val {n : Nat} (u : Fin n → α) (t : Nat) :
    (∑ a : Fin n, if a.1 = t then u a else 0) = if h : t < n then u ⟨t, h⟩ else 0 := by
  by_cases h : t < n
  · rw [dif_pos h, Finset.sum_eq_single (⟨t, h⟩ : Fin n)]
    · simp
    · intro b _ hb
      have : b.1 ≠ t := fun e => hb (Fin.ext e)
      simp [this]
    · simp
  · rw [dif_neg h]
    apply Finset.sum_eq_zero
    intro a _
    have : a.1 ≠ t := by have := a.2; omega
    simp [this]

/-- The index set `{a : |a − b| = k}` is `{b − k, b + k}` (one element for `k = 0`). -/
theorem toeplitz_fiber {n : Nat} (u : Fin n → α) (b k : Fin n) :
    (∑ a : Fin n, if absDiff a b = k then u a else 0)
      = (if h : k.1 ≤ b.1 then u ⟨b.1 - k.1, by have := b.2; omega⟩ else 0)
        + (if h : b.1 + k.1 < n then u ⟨b.1 + k.1, h⟩ else 0)
        - (if k.1 = 0 then u b else 0) := by
  by_cases hk : k.1 = 0
  · have hiff : ∀ a : Fin n, (absDiff a b = k) ↔ a.1 = b.1 := by
      intro a
      rw [Fin.ext_iff]
      simp only [absDiff]
      split <;> omega
    have h1 : k.1 ≤ b.1 := by omega
    have h2 : b.1 + k.1 < n := by have := b.2; omega
    simp only [hiff, sum_ite_val, dif_pos b.2, dif_pos h1, dif_pos h2, if_pos hk]
    have e1 : (⟨b.1 - k.1, by have := b.2; omega⟩ : Fin n) = b := Fin.ext (by simp [hk])
    have e2 : (⟨b.1 + k.1, h2⟩ : Fin n) = b := Fin.ext (by simp [hk])
    rw [e1, e2]
    have e3 : (⟨b.1, b.2⟩ : Fin n) = b := rfl
    rw [e3]
    ring
  · have hsplit : ∀ a : Fin n, (if absDiff a b = k then u a else 0)
        = (if a.1 = b.1 - k.1 ∧ k.1 ≤ b.1 then u a else 0) + (if a.1 = b.1 + k.1 then u a else 0) := by
      intro a
      have hiff : (absDiff a b = k) ↔ ((a.1 = b.1 - k.1 ∧ k.1 ≤ b.1) ∨ a.1 = b.1 + k.1) := by
        rw [Fin.ext_iff]
        simp only [absDiff]
        split <;> omega
      by_cases h1 : a.1 = b.1 - k.1 ∧ k.1 ≤ b.1
      · have h2 : ¬ a.1 = b.1 + k.1 := by omega
        rw [if_pos (hiff.2 (Or.inl h1)), if_pos h1, if_neg h2, add_zero]
      · by_cases h2 : a.1 = b.1 + k.1
        · rw [if_pos (hiff.2 (Or.inr h2)), if_neg h1, if_pos h2, zero_add]
        · have h3 : ¬ (absDiff a b = k) := fun e => (hiff.1 e).elim h1 h2
          rw [if_neg h3, if_neg h1, if_neg h2, add_zero]
    simp only [hsplit, Finset.sum_add_distrib, if_neg hk, sub_zero]
    congr 1
    · by_cases hkb : k.1 ≤ b.1
      · simp only [hkb, and_true, sum_ite_val]
        rw [dif_pos (show b.1 - k.1 < n by have := b.2; omega)]
        simp
      · simp [hkb]
    · rw [sum_ite_val]

theorem toeplitzQF_eq {n d : Nat} (U V : Mat α n d) (k : Fin n) :
    toeplitzQF U V k = ∑ c, ∑ b, (∑ a, if absDiff a b = k then U a c else 0) * V b c := by
  simp only [toeplitz_fiber (fun a => U a _), toeplitzQF, sumFin_eq_sum, sub_mul, add_mul, Finset.sum_sub_distrib,
    Finset.sum_add_distrib, dite_mul, ite_mul, zero_mul]
  by_cases hk : k.1 = 0 <;> simp [hk]

theorem correct_toeplitz (n : Nat) : Correct α (.toeplitz n) := by
  intro θ δ d U V
  have hD : dDenote (.toeplitz n) θ δ = fun a b => δ (absDiff a b) := rfl
  rw [hD, bilS_eq_sum]
  show (sumFin n fun k => toeplitzQF U V k * δ k) = _
  simp only [sumFin_eq_sum, toeplitzQF_eq, Finset.sum_mul, ite_mul, zero_mul]
  rw [Finset.sum_comm]
  refine Finset.sum_congr rfl fun c _ => ?_
  rw [Finset.sum_comm]
  conv_rhs => rw [Finset.sum_comm]
  refine Finset.sum_congr rfl fun b _ => ?_
  rw [Finset.sum_comm]
  refine Finset.sum_congr rfl fun a _ => ?_
  rw [Finset.sum_ite_eq]
  simp only [Finset.mem_univ, if_true]
  ring

end LinOp.C07
