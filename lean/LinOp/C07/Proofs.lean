import LinOp.C07.Model
import LinOp.Core.Bridge
import Mathlib.Algebra.BigOperators.Ring.Finset
import Mathlib.Algebra.BigOperators.Fin
import Mathlib.Tactic.Ring
/-!
C07 — helper lemmas: dual-number bookkeeping, the bilinear form as a `Finset` sum, and one step lemma per
operator class (the induction hypothesis of the sub-operator is an explicit hypothesis, quantified over
ALL vector pairs, because a nested class feeds *intermediate* vectors to its sub-operator's derivative).
-/
namespace LinOp.C07
open LinOp

variable {α : Type} [CommRing α]

/-! ### Dual numbers -/
@[simp] theorem Dual.add_re (a b : Dual α) : (a + b).re = a.re + b.re := rfl
@[simp] theorem Dual.add_eps (a b : Dual α) : (a + b).eps = a.eps + b.eps := rfl
@[simp] theorem Dual.mul_re (a b : Dual α) : (a * b).re = a.re * b.re := rfl
@[simp] theorem Dual.mul_eps (a b : Dual α) : (a * b).eps = a.re * b.eps + a.eps * b.re := rfl
@[simp] theorem Dual.zero_re : (0 : Dual α).re = 0 := rfl
@[simp] theorem Dual.zero_eps : (0 : Dual α).eps = 0 := rfl
@[simp] theorem Dual.ite_re (c : Prop) [Decidable c] (a b : Dual α) : (if c then a else b).re = if c then a.re else b.re := by
  split <;> rfl
@[simp] theorem Dual.ite_eps (c : Prop) [Decidable c] (a b : Dual α) : (if c then a else b).eps = if c then a.eps else b.eps := by
  split <;> rfl

theorem sumFin_re (n : Nat) (f : Fin n → Dual α) : (sumFin n f).re = ∑ i, (f i).re := by
  unfold sumFin
  induction n with
  | zero => simp [Fin.foldl_zero]
  | succ n ih =>
    rw [Fin.foldl_succ_last, Fin.sum_univ_castSucc, Dual.add_re]
    congr 1
    exact ih _

theorem sumFin_eps (n : Nat) (f : Fin n → Dual α) : (sumFin n f).eps = ∑ i, (f i).eps := by
  unfold sumFin
  induction n with
  | zero => simp [Fin.foldl_zero]
  | succ n ih =>
    rw [Fin.foldl_succ_last, Fin.sum_univ_castSucc, Dual.add_eps]
    congr 1
    exact ih _

/-! ### The bilinear form as a Finset sum -/

/-- `Σ_c Σ_i Σ_j U[i,c] A[i,j] V[j,c]`. -/
def bilS {n m d : Nat} (A : Mat α n m) (U : Mat α n d) (V : Mat α m d) : α :=
  ∑ c, ∑ i, ∑ j, U i c * A i j * V j c

theorem bil_eq_bilS {n m d : Nat} (A : Mat α n m) (U : Mat α n d) (V : Mat α m d) : bil A U V = bilS A U V := by
  simp [bil, bilS, sumFin_eq_sum]

theorem bilS_add {n m d : Nat} (A B : Mat α n m) (U : Mat α n d) (V : Mat α m d) :
    bilS (fun i j => A i j + B i j) U V = bilS A U V + bilS B U V := by
  simp only [bilS, mul_add, add_mul, Finset.sum_add_distrib]

theorem bilS_scale {n m d : Nat} (A : Mat α n m) (k : α) (U : Mat α n d) (V : Mat α m d) :
    bilS (fun i j => A i j * k) U V = bilS A (fun i c => U i c * k) V := by
  unfold bilS
  refine Finset.sum_congr rfl fun c _ => Finset.sum_congr rfl fun i _ => Finset.sum_congr rfl fun j _ => ?_
  ring

theorem bilS_const {n m d : Nat} (A : Mat α n m) (k : α) (U : Mat α n d) (V : Mat α m d) :
    bilS (fun i j => A i j * k) U V = (∑ i, ∑ c, U i c * (∑ j, A i j * V j c)) * k := by
  unfold bilS
  rw [Finset.sum_comm, Finset.sum_mul]
  refine Finset.sum_congr rfl fun i _ => ?_
  rw [Finset.sum_mul]
  refine Finset.sum_congr rfl fun c _ => ?_
  rw [Finset.mul_sum, Finset.sum_mul]
  refine Finset.sum_congr rfl fun j _ => ?_
  ring

theorem bilS_mul_right {n k m d : Nat} (D : Mat α n k) (B : Mat α k m) (U : Mat α n d) (V : Mat α m d) :
    bilS D U (fun l c => ∑ j, B l j * V j c) = bilS (fun i j => ∑ l, D i l * B l j) U V := by
  unfold bilS
  refine Finset.sum_congr rfl fun c _ => Finset.sum_congr rfl fun i _ => ?_
  simp only [Finset.mul_sum, Finset.sum_mul]
  rw [Finset.sum_comm]
  refine Finset.sum_congr rfl fun j _ => Finset.sum_congr rfl fun l _ => ?_
  ring

theorem bilS_mul_left {n k m d : Nat} (A : Mat α n k) (D : Mat α k m) (U : Mat α n d) (V : Mat α m d) :
    bilS D (fun l c => ∑ i, A i l * U i c) V = bilS (fun i j => ∑ l, A i l * D l j) U V := by
  unfold bilS
  refine Finset.sum_congr rfl fun c _ => ?_
  simp only [Finset.mul_sum, Finset.sum_mul]
  rw [Finset.sum_comm]
  refine Finset.sum_congr rfl fun i _ => ?_
  rw [Finset.sum_comm]
  refine Finset.sum_congr rfl fun j _ => Finset.sum_congr rfl fun l _ => ?_
  ring

theorem bilS_sum {n m d k : Nat} (A : Fin k → Mat α n m) (U : Mat α n d) (V : Mat α m d) :
    bilS (fun i j => ∑ b, A b i j) U V = ∑ b, bilS (A b) U V := by
  unfold bilS
  simp only [Finset.mul_sum, Finset.sum_mul]
  rw [Finset.sum_comm]
  refine Finset.sum_congr rfl fun c _ => ?_
  rw [Finset.sum_comm]
  refine Finset.sum_congr rfl fun i _ => ?_
  rw [Finset.sum_comm]

end LinOp.C07
