import LinOp.C07.Model
import LinOp.Core.Bridge
import Mathlib.Algebra.BigOperators.Ring.Finset
import Mathlib.Algebra.BigOperators.Fin
import Mathlib.Tactic.Ring
import Mathlib.Data.Matrix.Mul
import Mathlib.Data.Matrix.Basic
import Mathlib.LinearAlgebra.Matrix.Trace
/-!
C07 — helper lemmas: dual-number bookkeeping, the bilinear form as a `Finset` sum, and one step lemma per
operator class (the induction hypothesis of the sub-operator is an explicit hypothesis, quantified over
ALL vector pairs, because a nested class feeds *intermediate* vectors to its sub-operator's derivative).
-/
namespace LinOp.C07
open LinOp

variable {α : Type} [CommRing α]

/-! ### Dual numbers -/
@[simp] theorem Dual.add_re (a b : Dual α) : (a + b).re = a.re + b.re := rfl
@[simp] theorem Dual.add_eps (a b : Dual α) : (a + b).eps = a.eps + b.eps := rfl
@[simp] theorem Dual.mul_re (a b : Dual α) : (a * b).re = a.re * b.re := rfl
@[simp] theorem Dual.mul_eps (a b : Dual α) : (a * b).eps = a.re * b.eps + a.eps * b.re := rfl
@[simp] theorem Dual.zero_re : (0 : Dual α).re = 0 := rfl
@[simp] theorem Dual.zero_eps : (0 : Dual α).eps = 0 := rfl
@[simp] theorem Dual.ite_re (c : Prop) [Decidable c] (a b : Dual α) : (if c then a else b).re = if c then a.re else b.re := by
  split <;> rfl
@[simp] theorem Dual.ite_eps (c : Prop) [Decidable c] (a b : Dual α) : (if c then a else b).eps = if c then a.eps else b.eps := by
  split <;> rfl

theorem sumFin_re (n : Nat) (f : Fin n → Dual α) : (sumFin n f).re = ∑ i, (f i).re := by
  unfold sumFin
  induction n with
  | zero => simp [Fin.foldl_zero]
  | succ n ih =>
    rw [Fin.foldl_succ_last, Fin.sum_univ_castSucc, Dual.add_re]
    congr 1
    exact ih _

theorem sumFin_eps (n : Nat) (f : Fin n → Dual α) : (sumFin n f).eps = ∑ i, (f i).eps := by
  unfold sumFin
  induction n with
  | zero => simp [Fin.foldl_zero]
  | succ n ih =>
    rw [Fin.foldl_succ_last, Fin.sum_univ_castSucc, Dual.add_eps]
    congr 1
    exact ih _

/-! ### The bilinear form as a trace -/
open Matrix

/-- `Σ_c Σ_i Σ_j U[i,c] A[i,j] V[j,c] = tr(Uᵀ A V)`. -/
def bilS {n m d : Nat} (A : Mat α n m) (U : Mat α n d) (V : Mat α m d) : α :=
  Matrix.trace ((Matrix.of U)ᵀ * Matrix.of A * Matrix.of V)

theorem bilS_eq_sum {n m d : Nat} (A : Mat α n m) (U : Mat α n d) (V : Mat α m d) :
    bilS A U V = ∑ c, ∑ i, ∑ j, U i c * A i j * V j c := by
  simp only [bilS, Matrix.trace, Matrix.diag_apply, Matrix.mul_apply, Matrix.transpose_apply, Matrix.of_apply,
    Finset.sum_mul]
  refine Finset.sum_congr rfl fun c _ => ?_
  exact Finset.sum_comm

theorem bil_eq_bilS {n m d : Nat} (A : Mat α n m) (U : Mat α n d) (V : Mat α m d) : bil A U V = bilS A U V := by
  rw [bilS_eq_sum]
  simp [bil, sumFin_eq_sum]

theorem bilS_add {n m d : Nat} (A B : Mat α n m) (U : Mat α n d) (V : Mat α m d) :
    bilS (fun i j => A i j + B i j) U V = bilS A U V + bilS B U V := by
  have : (Matrix.of fun i j => A i j + B i j) = Matrix.of A + Matrix.of B := rfl
  simp only [bilS, this, Matrix.mul_add, Matrix.add_mul, Matrix.trace_add]

theorem bilS_scale {n m d : Nat} (A : Mat α n m) (k : α) (U : Mat α n d) (V : Mat α m d) :
    bilS (fun i j => A i j * k) U V = bilS A (fun i c => U i c * k) V := by
  simp only [bilS_eq_sum]
  refine Finset.sum_congr rfl fun c _ => Finset.sum_congr rfl fun i _ => Finset.sum_congr rfl fun j _ => ?_
  ring

theorem bilS_mul_right {n k m d : Nat} (D : Mat α n k) (B : Mat α k m) (U : Mat α n d) (V : Mat α m d) :
    bilS D U (fun l c => ∑ j, B l j * V j c) = bilS (fun i j => ∑ l, D i l * B l j) U V := by
  have h1 : (Matrix.of fun l c => ∑ j, B l j * V j c) = Matrix.of B * Matrix.of V := by
    ext l c; simp [Matrix.mul_apply]
  have h2 : (Matrix.of fun i j => ∑ l, D i l * B l j) = Matrix.of D * Matrix.of B := by
    ext i j; simp [Matrix.mul_apply]
  simp only [bilS, h1, h2, Matrix.mul_assoc]

theorem bilS_mul_left {n k m d : Nat} (A : Mat α n k) (D : Mat α k m) (U : Mat α n d) (V : Mat α m d) :
    bilS D (fun l c => ∑ i, A i l * U i c) V = bilS (fun i j => ∑ l, A i l * D l j) U V := by
  have h1 : (Matrix.of fun l c => ∑ i, A i l * U i c) = (Matrix.of A)ᵀ * Matrix.of U := by
    ext l c; simp [Matrix.mul_apply]
  have h2 : (Matrix.of fun i j => ∑ l, A i l * D l j) = Matrix.of A * Matrix.of D := by
    ext i j; simp [Matrix.mul_apply]
  simp only [bilS, h1, h2, Matrix.transpose_mul, Matrix.transpose_transpose, Matrix.mul_assoc]

theorem bilS_sum {n m d k : Nat} (A : Fin k → Mat α n m) (U : Mat α n d) (V : Mat α m d) :
    bilS (fun i j => ∑ b, A b i j) U V = ∑ b, bilS (A b) U V := by
  have h : (Matrix.of fun i j => ∑ b, A b i j) = ∑ b, Matrix.of (A b) := by
    ext i j; simp [Matrix.sum_apply]
  simp only [bilS, h, Matrix.mul_sum, Matrix.sum_mul, Matrix.trace_sum]

/-- `tr(Uᵀ M)` is the entrywise pairing `Σ_i Σ_c U[i,c] M[i,c]`. -/
theorem pairing_eq_trace {n d : Nat} (U M : Mat α n d) :
    ∑ i, ∑ c, U i c * M i c = Matrix.trace ((Matrix.of U)ᵀ * Matrix.of M) := by
  simp only [Matrix.trace, Matrix.diag_apply, Matrix.mul_apply, Matrix.transpose_apply, Matrix.of_apply]
  exact Finset.sum_comm

end LinOp.C07
