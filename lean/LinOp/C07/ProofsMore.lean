import LinOp.C07.ProofsStruct
/-!
C07 — further step lemmas: Masked (gather of rows/columns = scatter of the vectors).
-/
namespace LinOp.C07
open LinOp Matrix

variable {α : Type} [CommRing α]

/-- selection matrix of an index map: `S[q, p] = 1` iff `rows q = p`. -/
def selMat {n r : Nat} (rows : Fin r → Fin n) : Matrix (Fin r) (Fin n) α :=
  fun q p => if rows q = p then 1 else 0

theorem expandRows_eq {n r d : Nat} (rows : Fin r → Fin n) (U : Mat α r d) :
    expandRows rows U = ((selMat rows)ᵀ * Matrix.of U : Matrix (Fin n) (Fin d) α) := by
  funext p c
  simp [expandRows, selMat, sumFin_eq_sum, Matrix.mul_apply]

theorem gather_eq {n m r s : Nat} (rows : Fin r → Fin n) (cols : Fin s → Fin m) (A : Mat α n m) :
    (fun i j => A (rows i) (cols j)) = (selMat rows * Matrix.of A * (selMat cols)ᵀ : Matrix (Fin r) (Fin s) α) := by
  funext i j
  simp [selMat, Matrix.mul_apply, Finset.sum_mul]

theorem bilS_gather {n m r s d : Nat} (rows : Fin r → Fin n) (cols : Fin s → Fin m) (A : Mat α n m)
    (U : Mat α r d) (V : Mat α s d) :
    bilS (fun i j => A (rows i) (cols j)) U V = bilS A (expandRows rows U) (expandRows cols V) := by
  rw [gather_eq, expandRows_eq, expandRows_eq]
  show Matrix.trace ((Matrix.of U)ᵀ * (selMat rows * Matrix.of A * (selMat cols)ᵀ) * Matrix.of V)
    = Matrix.trace (((selMat rows)ᵀ * Matrix.of U)ᵀ * Matrix.of A * ((selMat cols)ᵀ * Matrix.of V))
  simp only [Matrix.transpose_mul, Matrix.transpose_transpose, Matrix.mul_assoc]

theorem reOK_masked {n m r s : Nat} (rows : Fin r → Fin n) (cols : Fin s → Fin m) (o : Op n m) (h : ReOK α o) :
    ReOK α (.masked rows cols o) := by
  intro θ δ i j
  exact h θ δ (rows i) (cols j)

theorem correct_masked {n m r s : Nat} (rows : Fin r → Fin n) (cols : Fin s → Fin m) (o : Op n m) (h : Correct α o) :
    Correct α (.masked rows cols o) := by
  intro θ δ d U V
  have hD : dDenote (.masked rows cols o) θ δ = fun i j => dDenote o θ δ (rows i) (cols j) := rfl
  rw [hD, bilS_gather, ← h θ δ d]
  show pair o (bilinDeriv o θ (getV (memoV (expandRows rows U))) (getV (memoV (expandRows cols V)))) δ = _
  rw [getV_memoV, getV_memoV]

end LinOp.C07
