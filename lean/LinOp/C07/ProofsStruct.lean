import LinOp.C07.Proofs
/-!
C07 — one step lemma per operator class and the structural induction.
`ReOK o`    : the ε⁰-part of `⟦o⟧(θ+εδ)` is `⟦o⟧θ`.
`Correct o` : `Σ_k (bilinDeriv o θ U V)_k δ_k = tr(Uᵀ · D⟦o⟧_θ[δ] · V)` for ALL vector pairs (any number of columns).
-/
namespace LinOp.C07
open LinOp Matrix

variable (α : Type) [CommRing α]

def ReOK {n m : Nat} (o : Op n m) : Prop :=
  ∀ (θ δ : Param α o) (i : Fin n) (j : Fin m), (denote o (mkDual o θ δ) i j).re = denote o θ i j

def Correct {n m : Nat} (o : Op n m) : Prop :=
  ∀ (θ δ : Param α o) (d : Nat) (U : Mat α n d) (V : Mat α m d),
    pair o (bilinDeriv o θ U V) δ = bilS (dDenote o θ δ) U V

variable {α}

theorem mmul_eq {n k m : Nat} (A : Mat α n k) (B : Mat α k m) : mmul A B = fun i j => ∑ l, A i l * B l j := by
  funext i j
  unfold mmul
  rw [sumFin_eq_sum]

/-! ### leaves -/

theorem reOK_dense (n m : Nat) : ReOK α (.dense n m) := fun _ _ _ _ => rfl

theorem correct_dense (n m : Nat) : Correct α (.dense n m) := by
  intro θ δ d U V
  have hD : dDenote (.dense n m) θ δ = δ := rfl
  rw [hD]
  show (sumFin n fun i => sumFin m fun j => (fun i j => sumFin d fun c => U i c * V j c) i j * δ i j) = _
  simp only [tab_eq, sumFin_eq_sum]
  have hg : (fun i j => ∑ c, U i c * V j c) = (Matrix.of U * (Matrix.of V)ᵀ : Matrix (Fin n) (Fin m) α) := by
    ext i j; simp [Matrix.mul_apply]
  have := pairing_eq_trace (fun i j => ∑ c, U i c * V j c) δ
  rw [this, hg]
  show Matrix.trace ((Matrix.of U * (Matrix.of V)ᵀ)ᵀ * Matrix.of δ) = Matrix.trace ((Matrix.of U)ᵀ * Matrix.of δ * Matrix.of V)
  rw [Matrix.transpose_mul, Matrix.transpose_transpose, Matrix.mul_assoc, Matrix.trace_mul_comm]

theorem reOK_diag (n : Nat) : ReOK α (.diag n) := by
  intro θ δ i j
  show (if i = j then (⟨θ i, δ i⟩ : Dual α) else 0).re = if i = j then θ i else 0
  simp

theorem dDenote_diag (n : Nat) (θ δ : Param α (.diag n)) (i j : Fin n) :
    dDenote (.diag n) θ δ i j = if i = j then δ i else 0 := by
  show (if i = j then (⟨θ i, δ i⟩ : Dual α) else 0).eps = _
  simp

theorem correct_diag (n : Nat) : Correct α (.diag n) := by
  intro θ δ d U V
  rw [bilS_eq_sum]
  simp only [dDenote_diag]
  show (sumFin n fun i => (fun i => sumFin d fun c => U i c * V i c) i * δ i) = _
  simp only [tab1_eq, sumFin_eq_sum, mul_ite, ite_mul, mul_zero, zero_mul, Finset.sum_ite_eq, Finset.mem_univ, if_true,
    Finset.sum_mul]
  rw [Finset.sum_comm]
  refine Finset.sum_congr rfl fun c _ => Finset.sum_congr rfl fun i _ => ?_
  ring

theorem reOK_constDiag (n : Nat) : ReOK α (.constDiag n) := by
  intro θ δ i j
  show (if i = j then (⟨θ, δ⟩ : Dual α) else 0).re = if i = j then (show α from θ) else 0
  simp

theorem dDenote_constDiag (n : Nat) (θ δ : Param α (.constDiag n)) (i j : Fin n) :
    dDenote (.constDiag n) θ δ i j = if i = j then (show α from δ) else 0 := by
  show (if i = j then (⟨θ, δ⟩ : Dual α) else 0).eps = _
  simp

theorem constDiag_aux (n d : Nat) (δ : α) (U V : Mat α n d) :
    (∑ i, ∑ c, U i c * V i c) * δ = ∑ c, ∑ i, ∑ j, U i c * (if i = j then δ else 0) * V j c := by
  simp only [mul_ite, ite_mul, mul_zero, zero_mul, Finset.sum_ite_eq, Finset.mem_univ, if_true, Finset.sum_mul]
  rw [Finset.sum_comm]
  refine Finset.sum_congr rfl fun c _ => Finset.sum_congr rfl fun i _ => ?_
  ring

theorem correct_constDiag (n : Nat) : Correct α (.constDiag n) := by
  intro θ δ d U V
  rw [bilS_eq_sum]
  simp only [dDenote_constDiag]
  show (sumFin n fun i => sumFin d fun c => U i c * V i c : α) * (show α from δ) = _
  simp only [sumFin_eq_sum]
  exact constDiag_aux (α := α) n d (show α from δ) U V

/-! ### nesting classes -/

theorem reOK_constMul {n m : Nat} (o : Op n m) (h : ReOK α o) : ReOK α (.constMul o) := by
  intro θ δ i j
  show (denote o (mkDual o θ.1 δ.1) i j * (⟨θ.2, δ.2⟩ : Dual α)).re = denote o θ.1 i j * θ.2
  simp [h θ.1 δ.1 i j]

theorem dDenote_constMul {n m : Nat} (o : Op n m) (h : ReOK α o) (θ δ : Param α (.constMul o)) (i : Fin n) (j : Fin m) :
    dDenote (.constMul o) θ δ i j = denote o θ.1 i j * δ.2 + dDenote o θ.1 δ.1 i j * θ.2 := by
  show (denote o (mkDual o θ.1 δ.1) i j * (⟨θ.2, δ.2⟩ : Dual α)).eps = _
  simp [h θ.1 δ.1 i j, dDenote]

theorem bilS_const {n m d : Nat} (A : Mat α n m) (k : α) (U : Mat α n d) (V : Mat α m d) :
    bilS (fun i j => A i j * k) U V = (∑ i, ∑ c, U i c * (∑ j, A i j * V j c)) * k := by
  have h1 : (∑ i, ∑ c, U i c * (∑ j, A i j * V j c)) = ∑ i, ∑ c, U i c * (Matrix.of A * Matrix.of V) i c := by
    simp [Matrix.mul_apply]
  rw [h1, pairing_eq_trace U (Matrix.of A * Matrix.of V)]
  have h2 : (Matrix.of fun i j => A i j * k) = k • Matrix.of A := by
    ext i j; simp [mul_comm]
  simp only [bilS, h2, Matrix.mul_smul, Matrix.smul_mul, Matrix.trace_smul, smul_eq_mul, Matrix.mul_assoc]
  rw [mul_comm]
  rfl

theorem correct_constMul {n m : Nat} (o : Op n m) (hr : ReOK α o) (h : Correct α o) : Correct α (.constMul o) := by
  intro θ δ d U V
  have hD : dDenote (.constMul o) θ δ = fun i j => denote o θ.1 i j * δ.2 + dDenote o θ.1 δ.1 i j * θ.2 := by
    funext i j; exact dDenote_constMul o hr θ δ i j
  rw [hD, bilS_add, bilS_const, bilS_scale, ← h θ.1 δ.1 d (fun i c => U i c * θ.2) V]
  show pair o (bilinDeriv o θ.1 (fun i c => U i c * θ.2) V) δ.1
      + (sumFin n fun i => sumFin d fun c => U i c * getV (memoV (mmul (denote o θ.1) V)) i c) * δ.2 = _
  simp only [getV_memoV, mmul, sumFin_eq_sum]
  ring

theorem reOK_matmul {n k m : Nat} (a : Op n k) (b : Op k m) (ha : ReOK α a) (hb : ReOK α b) : ReOK α (.matmul a b) := by
  intro θ δ i j
  show (mmul (denote a (mkDual a θ.1 δ.1)) (denote b (mkDual b θ.2 δ.2)) i j).re = mmul (denote a θ.1) (denote b θ.2) i j
  simp only [mmul, tab_eq, sumFin_re, sumFin_eq_sum, Dual.mul_re, ha θ.1 δ.1, hb θ.2 δ.2]

theorem dDenote_matmul {n k m : Nat} (a : Op n k) (b : Op k m) (ha : ReOK α a) (hb : ReOK α b)
    (θ δ : Param α (.matmul a b)) (i : Fin n) (j : Fin m) :
    dDenote (.matmul a b) θ δ i j
      = (∑ l, denote a θ.1 i l * dDenote b θ.2 δ.2 l j) + ∑ l, dDenote a θ.1 δ.1 i l * denote b θ.2 l j := by
  show (mmul (denote a (mkDual a θ.1 δ.1)) (denote b (mkDual b θ.2 δ.2)) i j).eps = _
  simp only [mmul, tab_eq, sumFin_eps, Dual.mul_eps, ha θ.1 δ.1, hb θ.2 δ.2, Finset.sum_add_distrib, dDenote]

theorem correct_matmul {n k m : Nat} (a : Op n k) (b : Op k m) (hra : ReOK α a) (hrb : ReOK α b)
    (ha : Correct α a) (hb : Correct α b) : Correct α (.matmul a b) := by
  intro θ δ d U V
  have hD : dDenote (.matmul a b) θ δ = fun i j =>
      (∑ l, denote a θ.1 i l * dDenote b θ.2 δ.2 l j) + ∑ l, dDenote a θ.1 δ.1 i l * denote b θ.2 l j := by
    funext i j; exact dDenote_matmul a b hra hrb θ δ i j
  rw [hD, bilS_add, ← bilS_mul_left, ← bilS_mul_right]
  show pair a (bilinDeriv a θ.1 U (getV (memoV (mmul (denote b θ.2) V)))) δ.1
      + pair b (bilinDeriv b θ.2 (getV (memoV (mmul (Mat.transpose (denote a θ.1)) U))) V) δ.2 = _
  rw [getV_memoV, getV_memoV, ha θ.1 δ.1 d, hb θ.2 δ.2 d, add_comm]
  rw [mmul_eq, mmul_eq]
  rfl

theorem reOK_sum {n m : Nat} (a b : Op n m) (ha : ReOK α a) (hb : ReOK α b) : ReOK α (.sum a b) := by
  intro θ δ i j
  show (denote a (mkDual a θ.1 δ.1) i j + denote b (mkDual b θ.2 δ.2) i j).re = denote a θ.1 i j + denote b θ.2 i j
  simp [ha θ.1 δ.1 i j, hb θ.2 δ.2 i j]

theorem correct_sum {n m : Nat} (a b : Op n m) (ha : Correct α a) (hb : Correct α b) : Correct α (.sum a b) := by
  intro θ δ d U V
  have hD : dDenote (.sum a b) θ δ = fun i j => dDenote a θ.1 δ.1 i j + dDenote b θ.2 δ.2 i j := rfl
  rw [hD, bilS_add, ← ha θ.1 δ.1 d U V, ← hb θ.2 δ.2 d U V]
  rfl

theorem reOK_sumBatch {n m : Nat} (k : Nat) (o : Op n m) (h : ReOK α o) : ReOK α (.sumBatch k o) := by
  intro θ δ i j
  show (sumFin k fun b => denote o (mkDual o (θ b) (δ b)) i j).re = sumFin k fun b => denote o (θ b) i j
  simp only [sumFin_re, sumFin_eq_sum]
  exact Finset.sum_congr rfl fun b _ => h (θ b) (δ b) i j

theorem correct_sumBatch {n m : Nat} (k : Nat) (o : Op n m) (h : Correct α o) : Correct α (.sumBatch k o) := by
  intro θ δ d U V
  have hD : dDenote (.sumBatch k o) θ δ = fun i j => ∑ b, dDenote o (θ b) (δ b) i j := by
    funext i j
    show (sumFin k fun b => denote o (mkDual o (θ b) (δ b)) i j).eps = _
    simp only [sumFin_eps, dDenote]
  rw [hD, bilS_sum]
  show (sumFin k fun b => pair o (bilinDeriv o (θ b) U V) (δ b)) = _
  simp only [sumFin_eq_sum]
  exact Finset.sum_congr rfl fun b _ => h (θ b) (δ b) d U V

/-! ### the induction -/

/-- The operator classes for which the step lemma is closed. -/
inductive Supported : {n m : Nat} → Op n m → Prop
  | dense (n m : Nat) : Supported (.dense n m)
  | diag (n : Nat) : Supported (.diag n)
  | constDiag (n : Nat) : Supported (.constDiag n)
  | constMul {n m : Nat} {o : Op n m} : Supported o → Supported (.constMul o)
  | matmul {n k m : Nat} {a : Op n k} {b : Op k m} : Supported a → Supported b → Supported (.matmul a b)
  | sum {n m : Nat} {a b : Op n m} : Supported a → Supported b → Supported (.sum a b)
  | sumBatch {n m : Nat} (k : Nat) {o : Op n m} : Supported o → Supported (.sumBatch k o)

theorem supported_correct {n m : Nat} {o : Op n m} (h : Supported o) : ReOK α o ∧ Correct α o := by
  induction h with
  | dense n m => exact ⟨reOK_dense n m, correct_dense n m⟩
  | diag n => exact ⟨reOK_diag n, correct_diag n⟩
  | constDiag n => exact ⟨reOK_constDiag n, correct_constDiag n⟩
  | constMul _ ih => exact ⟨reOK_constMul _ ih.1, correct_constMul _ ih.1 ih.2⟩
  | matmul _ _ iha ihb => exact ⟨reOK_matmul _ _ iha.1 ihb.1, correct_matmul _ _ iha.1 ihb.1 iha.2 ihb.2⟩
  | sum _ _ iha ihb => exact ⟨reOK_sum _ _ iha.1 ihb.1, correct_sum _ _ iha.2 ihb.2⟩
  | sumBatch k _ ih => exact ⟨reOK_sumBatch k _ ih.1, correct_sumBatch k _ ih.2⟩

end LinOp.C07
