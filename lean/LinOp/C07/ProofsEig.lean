import LinOp.C07.ProofsBackward
import Mathlib.LinearAlgebra.Matrix.Hadamard
/-!
C07 — `Diagonalization.backward`: first-order perturbation of a symmetric eigen-decomposition under the eigh contract
(`A U = U Λ`, `Uᵀ U = 1`) and the gradient `dL/dA = U (F ∘ (Uᵀ dL/dU) + diag(dL/dΛ)) Uᵀ`, `F_ij = 1/(λ_j − λ_i)`.
-/
namespace LinOp.C07
open LinOp Matrix

variable {α : Type} [CommRing α]

theorem trace_transpose_mul_eq_sum {n m : Nat} (X Y : Matrix (Fin n) (Fin m) α) :
    Matrix.trace (Xᵀ * Y) = ∑ i, ∑ j, X i j * Y i j := by
  simp only [Matrix.trace, Matrix.diag_apply, Matrix.mul_apply, Matrix.transpose_apply]
  exact Finset.sum_comm

/-- The projected first-order equation: with `C = Uᵀ dU`, `S = Uᵀ dA U`: `S + Λ C = C Λ + diag(dλ)`. -/
theorem eig_projected {n : Nat} (U A dA dU : Matrix (Fin n) (Fin n) α) (lam dlam : Fin n → α)
    (hU : Uᵀ * U = 1) (hA : A * U = U * Matrix.diagonal lam) (hAs : Aᵀ = A)
    (h1 : dA * U + A * dU = dU * Matrix.diagonal lam + U * Matrix.diagonal dlam) :
    Uᵀ * dA * U + Matrix.diagonal lam * (Uᵀ * dU) = (Uᵀ * dU) * Matrix.diagonal lam + Matrix.diagonal dlam := by
  have hUA : Uᵀ * A = Matrix.diagonal lam * Uᵀ := by
    have := congrArg Matrix.transpose hA
    rwa [Matrix.transpose_mul, hAs, Matrix.transpose_mul, Matrix.diagonal_transpose] at this
  have := congrArg (fun M => Uᵀ * M) h1
  simp only [Matrix.mul_add] at this
  rw [← Matrix.mul_assoc, ← Matrix.mul_assoc Uᵀ A, hUA, ← Matrix.mul_assoc Uᵀ dU, ← Matrix.mul_assoc Uᵀ U, hU, Matrix.one_mul,
    Matrix.mul_assoc (Matrix.diagonal lam)] at this
  exact this

/-- **First-order perturbation of the eigen-decomposition** (distinct eigenvalues: `F_ij (λ_j − λ_i) = 1` off the diagonal,
`F_ii = 0`; `x + x = 0 → x = 0`): `dλ_i = (Uᵀ dA U)_ii` and `Uᵀ dU = F ∘ (Uᵀ dA U)`. -/
theorem eig_first_order {n : Nat} (U A dA dU F : Matrix (Fin n) (Fin n) α) (lam dlam : Fin n → α)
    (hU : Uᵀ * U = 1) (hA : A * U = U * Matrix.diagonal lam) (hAs : Aᵀ = A)
    (h1 : dA * U + A * dU = dU * Matrix.diagonal lam + U * Matrix.diagonal dlam)
    (h2 : dUᵀ * U + Uᵀ * dU = 0)
    (hF : ∀ i j, i ≠ j → F i j * (lam j - lam i) = 1) (hF0 : ∀ i, F i i = 0) (h2c : ∀ x : α, x + x = 0 → x = 0) :
    (∀ i, dlam i = (Uᵀ * dA * U) i i) ∧ (∀ i j, (Uᵀ * dU) i j = F i j * (Uᵀ * dA * U) i j) := by
  have hp := eig_projected U A dA dU lam dlam hU hA hAs h1
  have he : ∀ i j, (Uᵀ * dA * U) i j + lam i * (Uᵀ * dU) i j
      = (Uᵀ * dU) i j * lam j + (if i = j then dlam i else 0) := by
    intro i j
    have := congrFun (congrFun hp i) j
    simpa [Matrix.add_apply, Matrix.diagonal_mul, Matrix.mul_diagonal, Matrix.diagonal_apply] using this
  have hdiag : ∀ i, (Uᵀ * dU) i i = 0 := by
    intro i
    apply h2c
    have := congrFun (congrFun h2 i) i
    have ht : (dUᵀ * U) i i = (Uᵀ * dU) i i := by
      rw [← Matrix.transpose_apply (dUᵀ * U) i i, Matrix.transpose_mul, Matrix.transpose_transpose]
    simpa [Matrix.add_apply, ht] using this
  refine ⟨fun i => ?_, fun i j => ?_⟩
  · have := he i i
    simp only [if_true] at this
    have hc : lam i * (Uᵀ * dU) i i = (Uᵀ * dU) i i * lam i := mul_comm _ _
    rw [hc] at this
    exact (add_right_cancel (b := (Uᵀ * dU) i i * lam i) (by rw [add_comm (dlam i)]; exact this.symm))
  · by_cases hij : i = j
    · subst hij; rw [hdiag, hF0, zero_mul]
    · have h := he i j
      simp only [hij, if_false, add_zero] at h
      have hS : (Uᵀ * dA * U) i j = (Uᵀ * dU) i j * (lam j - lam i) := by
        rw [mul_sub, ← h]; ring
      rw [hS, ← mul_assoc, mul_comm (F i j), mul_assoc, hF i j hij, mul_one]

/-- The kernel is antisymmetric: `F_ji = −F_ij` (so `kmat` and `kmat.mT` differ exactly by the sign). -/
theorem eigKernel_antisymm {n : Nat} (F : Matrix (Fin n) (Fin n) α) (lam : Fin n → α)
    (hF : ∀ i j, i ≠ j → F i j * (lam j - lam i) = 1) (i j : Fin n) (hij : i ≠ j) : F j i = - F i j := by
  have h1 := hF i j hij
  have h2 := hF j i (Ne.symm hij)
  calc F j i = F j i * (F i j * (lam j - lam i)) := by rw [h1, mul_one]
    _ = - (F i j * (F j i * (lam i - lam j))) := by ring
    _ = - F i j := by rw [h2, mul_one]

/-- **`Diagonalization.backward`**: for upstream gradients `G = dL/dU`, `g = dL/dΛ` the code returns
`dL/dM = U (kmat.mT ∘ (Uᵀ G)) Uᵀ + U diag(g) Uᵀ` with `kmat.mT = F`, `F_ij = 1/(λ_j − λ_i)` (`kmat_ij = 1/(λ_i − λ_j)` is
transposed ONCE; `F` is antisymmetric, so dropping the transposition flips the sign of the eigenvector term).  Under the eigh
contract it pairs with every symmetric-path perturbation `dA` to the first-order change of the loss:
`⟨G, dU⟩ + Σ_i g_i dλ_i = ⟨dL/dM, dA⟩`. -/
theorem diagonalization_pullback {n : Nat} (U A dA dU F G : Matrix (Fin n) (Fin n) α) (lam dlam g : Fin n → α)
    (hU : Uᵀ * U = 1) (hA : A * U = U * Matrix.diagonal lam) (hAs : Aᵀ = A)
    (h1 : dA * U + A * dU = dU * Matrix.diagonal lam + U * Matrix.diagonal dlam)
    (h2 : dUᵀ * U + Uᵀ * dU = 0)
    (hF : ∀ i j, i ≠ j → F i j * (lam j - lam i) = 1) (hF0 : ∀ i, F i i = 0) (h2c : ∀ x : α, x + x = 0 → x = 0) :
    Matrix.trace (Gᵀ * dU) + ∑ i, g i * dlam i
      = Matrix.trace ((U * (Matrix.hadamard F (Uᵀ * G) + Matrix.diagonal g) * Uᵀ)ᵀ * dA) := by
  obtain ⟨hl, hC⟩ := eig_first_order U A dA dU F lam dlam hU hA hAs h1 h2 hF hF0 h2c
  have hUU : U * Uᵀ = 1 := mul_eq_one_comm.1 hU
  have hdU : dU = U * (Uᵀ * dU) := by rw [← Matrix.mul_assoc, hUU, Matrix.one_mul]
  -- left side
  have hL : Matrix.trace (Gᵀ * dU) = ∑ i, ∑ j, (Uᵀ * G) i j * (F i j * (Uᵀ * dA * U) i j) := by
    have : Gᵀ * dU = (Uᵀ * G)ᵀ * (Uᵀ * dU) := by
      rw [Matrix.transpose_mul, Matrix.transpose_transpose, Matrix.mul_assoc, ← hdU]
    rw [this, trace_transpose_mul_eq_sum]
    exact Finset.sum_congr rfl fun i _ => Finset.sum_congr rfl fun j _ => by rw [hC]
  -- right side
  have hR : Matrix.trace ((U * (Matrix.hadamard F (Uᵀ * G) + Matrix.diagonal g) * Uᵀ)ᵀ * dA)
      = ∑ i, ∑ j, (Matrix.hadamard F (Uᵀ * G) + Matrix.diagonal g) i j * (Uᵀ * dA * U) i j := by
    rw [← trace_transpose_mul_eq_sum]
    simp only [Matrix.transpose_mul, Matrix.transpose_transpose, Matrix.mul_assoc]
    rw [Matrix.trace_mul_comm]
    simp only [Matrix.mul_assoc]
  rw [hL, hR]
  simp only [Matrix.add_apply, Matrix.hadamard_apply, Matrix.diagonal_apply, add_mul, Finset.sum_add_distrib, ite_mul, zero_mul,
    Finset.sum_ite_eq, Finset.mem_univ, if_true]
  congr 1
  · exact Finset.sum_congr rfl fun i _ => Finset.sum_congr rfl fun j _ => by ring
  · exact Finset.sum_congr rfl fun i _ => by rw [hl]

end LinOp.C07
