import LinOp.C07.ProofsInterp
/-!
C07 — step lemmas for the classes whose derivative is the reverse sweep through their own `_matmul` (Root / LowRankRoot / Chol,
Kronecker, Cat, transposes) and for the live (root) branch of Mul's hand-written derivative.
-/
namespace LinOp.C07
open LinOp Matrix

variable {α : Type} [CommRing α]

/-! ### accumulation of gradient tuples -/

theorem pair_addP {n m : Nat} (o : Op n m) :
    ∀ (g h δ : Param α o), pair o (addP o g h) δ = pair o g δ + pair o h δ := by
  induction o with
  | dense n m =>
    intro g h δ
    show (sumFin n fun i => sumFin m fun j => (g i j + h i j) * δ i j)
      = (sumFin n fun i => sumFin m fun j => g i j * δ i j) + (sumFin n fun i => sumFin m fun j => h i j * δ i j)
    simp only [sumFin_eq_sum, add_mul, Finset.sum_add_distrib]
  | diag n =>
    intro g h δ
    show (sumFin n fun i => (g i + h i) * δ i) = (sumFin n fun i => g i * δ i) + (sumFin n fun i => h i * δ i)
    simp only [sumFin_eq_sum, add_mul, Finset.sum_add_distrib]
  | constDiag n =>
    intro g h δ
    show ((show α from g) + (show α from h)) * (show α from δ) = (show α from g) * (show α from δ) + (show α from h) * (show α from δ)
    exact add_mul _ _ _
  | toeplitz n =>
    intro g h δ
    show (sumFin n fun i => (g i + h i) * δ i) = (sumFin n fun i => g i * δ i) + (sumFin n fun i => h i * δ i)
    simp only [sumFin_eq_sum, add_mul, Finset.sum_add_distrib]
  | constMul o ih =>
    intro g h δ
    show pair o (addP o g.1 h.1) δ.1 + (g.2 + h.2) * δ.2 = (pair o g.1 δ.1 + g.2 * δ.2) + (pair o h.1 δ.1 + h.2 * δ.2)
    rw [ih]; ring
  | matmul a b iha ihb =>
    intro g h δ
    show pair a (addP a g.1 h.1) δ.1 + pair b (addP b g.2 h.2) δ.2 = (pair a g.1 δ.1 + pair b g.2 δ.2) + (pair a h.1 δ.1 + pair b h.2 δ.2)
    rw [iha, ihb]; ring
  | sum a b iha ihb =>
    intro g h δ
    show pair a (addP a g.1 h.1) δ.1 + pair b (addP b g.2 h.2) δ.2 = (pair a g.1 δ.1 + pair b g.2 δ.2) + (pair a h.1 δ.1 + pair b h.2 δ.2)
    rw [iha, ihb]; ring
  | mul a b iha ihb =>
    intro g h δ
    show pair a (addP a g.1 h.1) δ.1 + pair b (addP b g.2 h.2) δ.2 = (pair a g.1 δ.1 + pair b g.2 δ.2) + (pair a h.1 δ.1 + pair b h.2 δ.2)
    rw [iha, ihb]; ring
  | masked rows cols o ih => intro g h δ; exact ih g h δ
  | @interp n m r s ql qr li ri o ih =>
    intro g h δ
    show pair o (addP o g.1 h.1) δ.1
        + ((sumFin r fun i => sumFin ql fun a => (g.2.1 i a + h.2.1 i a) * δ.2.1 i a)
          + (sumFin s fun j => sumFin qr fun b => (g.2.2 j b + h.2.2 j b) * δ.2.2 j b))
      = (pair o g.1 δ.1 + ((sumFin r fun i => sumFin ql fun a => g.2.1 i a * δ.2.1 i a)
          + (sumFin s fun j => sumFin qr fun b => g.2.2 j b * δ.2.2 j b)))
        + (pair o h.1 δ.1 + ((sumFin r fun i => sumFin ql fun a => h.2.1 i a * δ.2.1 i a)
          + (sumFin s fun j => sumFin qr fun b => h.2.2 j b * δ.2.2 j b)))
    rw [ih]
    simp only [sumFin_eq_sum, add_mul, Finset.sum_add_distrib]
    ring
  | blockDiag k o ih =>
    intro g h δ
    show (sumFin k fun b => pair o (addP o (g b) (h b)) (δ b)) = (sumFin k fun b => pair o (g b) (δ b)) + (sumFin k fun b => pair o (h b) (δ b))
    simp only [sumFin_eq_sum, ih, Finset.sum_add_distrib]
  | blockInterleaved k o ih =>
    intro g h δ
    show (sumFin k fun b => pair o (addP o (g b) (h b)) (δ b)) = (sumFin k fun b => pair o (g b) (δ b)) + (sumFin k fun b => pair o (h b) (δ b))
    simp only [sumFin_eq_sum, ih, Finset.sum_add_distrib]
  | sumBatch k o ih =>
    intro g h δ
    show (sumFin k fun b => pair o (addP o (g b) (h b)) (δ b)) = (sumFin k fun b => pair o (g b) (δ b)) + (sumFin k fun b => pair o (h b) (δ b))
    simp only [sumFin_eq_sum, ih, Finset.sum_add_distrib]
  | transpose o ih => intro g h δ; exact ih g h δ
  | root o ih => intro g h δ; exact ih g h δ
  | mulRoot a b iha ihb =>
    intro g h δ
    show pair a (addP a g.1 h.1) δ.1 + pair b (addP b g.2 h.2) δ.2 = (pair a g.1 δ.1 + pair b g.2 δ.2) + (pair a h.1 δ.1 + pair b h.2 δ.2)
    rw [iha, ihb]; ring
  | kron a b iha ihb =>
    intro g h δ
    show pair a (addP a g.1 h.1) δ.1 + pair b (addP b g.2 h.2) δ.2 = (pair a g.1 δ.1 + pair b g.2 δ.2) + (pair a h.1 δ.1 + pair b h.2 δ.2)
    rw [iha, ihb]; ring
  | catRows a b iha ihb =>
    intro g h δ
    show pair a (addP a g.1 h.1) δ.1 + pair b (addP b g.2 h.2) δ.2 = (pair a g.1 δ.1 + pair b g.2 δ.2) + (pair a h.1 δ.1 + pair b h.2 δ.2)
    rw [iha, ihb]; ring
  | catCols a b iha ihb =>
    intro g h δ
    show pair a (addP a g.1 h.1) δ.1 + pair b (addP b g.2 h.2) δ.2 = (pair a g.1 δ.1 + pair b g.2 δ.2) + (pair a h.1 δ.1 + pair b h.2 δ.2)
    rw [iha, ihb]; ring

/-! ### transpose -/

theorem bilS_transpose {n m d : Nat} (D : Mat α n m) (U : Mat α m d) (V : Mat α n d) :
    bilS (fun i j => D j i) U V = bilS D V U := by
  simp only [bilS_eq_sum]
  refine Finset.sum_congr rfl fun c _ => ?_
  rw [Finset.sum_comm]
  refine Finset.sum_congr rfl fun i _ => Finset.sum_congr rfl fun j _ => ?_
  ring

theorem reOK_transpose {n m : Nat} (o : Op n m) (h : ReOK α o) : ReOK α (.transpose o) :=
  fun θ δ i j => h θ δ j i

theorem correct_transpose {n m : Nat} (o : Op n m) (h : Correct α o) : Correct α (.transpose o) := by
  intro θ δ d U V
  have hD : dDenote (.transpose o) θ δ = fun i j => dDenote o θ δ j i := rfl
  rw [hD, bilS_transpose, ← h θ δ d V U]
  rfl

/-! ### Root -/

/-- The reverse sweep through `root._matmul(root._t_matmul(rhs))`: if the root operator's derivative `bd` pairs to the bilinear
form of `dR`, the accumulated tuple pairs to the bilinear form of `d(R Rᵀ) = R dRᵀ + dR Rᵀ`. -/
theorem rootDerivWith_pair {n k d : Nat} (o : Op n k) (R dR : Mat α n k) (bd : Mat α n d → Mat α k d → Param α o)
    (δ : Param α o) (hbd : ∀ X Y, pair o (bd X Y) δ = bilS dR X Y) (U V : Mat α n d) :
    pair o (rootDerivWith o R bd U V) δ = bilS (fun i j => ∑ l, (R i l * dR j l + dR i l * R j l)) U V := by
  unfold rootDerivWith
  simp only [getV_memoV, pair_addP, hbd, mmul_eq, Mat.transpose]
  have h1 : bilS dR U (fun l c => ∑ j, R j l * V j c) = bilS (fun i j => ∑ l, dR i l * R j l) U V :=
    bilS_mul_right dR (fun l j => R j l) U V
  have h2 : bilS dR V (fun l c => ∑ j, R j l * U j c) = bilS (fun i j => ∑ l, R i l * dR j l) U V := by
    rw [bilS_mul_right dR (fun l j => R j l) V U, ← bilS_transpose]
    congr 1
    funext i j
    exact Finset.sum_congr rfl fun l _ => mul_comm _ _
  rw [h1, h2, add_comm, ← bilS_add]
  congr 1
  funext i j
  rw [Finset.sum_add_distrib]

theorem reOK_root {n k : Nat} (o : Op n k) (h : ReOK α o) : ReOK α (.root o) := by
  intro θ δ i j
  show (sumFin k fun l => denote o (mkDual o θ δ) i l * denote o (mkDual o θ δ) j l).re = sumFin k fun l => denote o θ i l * denote o θ j l
  simp only [sumFin_re, sumFin_eq_sum, Dual.mul_re, h θ δ]

theorem dDenote_root {n k : Nat} (o : Op n k) (h : ReOK α o) (θ δ : Param α (.root o)) (i j : Fin n) :
    dDenote (.root o) θ δ i j = ∑ l, (denote o θ i l * dDenote o θ δ j l + dDenote o θ δ i l * denote o θ j l) := by
  show (sumFin k fun l => denote o (mkDual o θ δ) i l * denote o (mkDual o θ δ) j l).eps = _
  simp only [sumFin_eps, Dual.mul_eps, h θ δ, dDenote]

theorem correct_root {n k : Nat} (o : Op n k) (hr : ReOK α o) (h : Correct α o) : Correct α (.root o) := by
  intro θ δ d U V
  have hD : dDenote (.root o) θ δ
      = fun i j => ∑ l, (denote o θ i l * dDenote o θ δ j l + dDenote o θ δ i l * denote o θ j l) := by
    funext i j; exact dDenote_root o hr θ δ i j
  rw [hD]
  exact rootDerivWith_pair o (denote o θ) (dDenote o θ δ) (fun X Y => bilinDeriv o θ X Y) δ (fun X Y => h θ δ d X Y) U V

/-! ### Mul, root branch -/

/-- Hadamard-scaled columns against a ROOT: `k·d` columns `U[:,c]·B[:,r]` against `V[:,c]·B[:,r]` reproduce the Hadamard
product with `B Bᵀ`. -/
theorem bilS_hadamard_root {n k d : Nat} (D : Mat α n n) (B : Mat α n k) (U V : Mat α n d) :
    bilS D (d := k * d) (fun i c => U i (innerIdx c) * B i (outerIdx c)) (fun j c => V j (innerIdx c) * B j (outerIdx c))
      = bilS (fun i j => D i j * ∑ r, B i r * B j r) U V := by
  simp only [bilS_eq_sum, sum_pairIdx (k := k) (n := d), outer_pairIdx, inner_pairIdx, Finset.mul_sum, Finset.sum_mul]
  rw [Finset.sum_comm]
  refine Finset.sum_congr rfl fun c _ => ?_
  rw [Finset.sum_comm]
  refine Finset.sum_congr rfl fun i _ => ?_
  rw [Finset.sum_comm]
  refine Finset.sum_congr rfl fun j _ => Finset.sum_congr rfl fun r _ => ?_
  ring

theorem reOK_mulRoot {n k₁ k₂ : Nat} (a : Op n k₁) (b : Op n k₂) (ha : ReOK α a) (hb : ReOK α b) : ReOK α (.mulRoot a b) := by
  intro θ δ i j
  show ((sumFin k₁ fun l => denote a (mkDual a θ.1 δ.1) i l * denote a (mkDual a θ.1 δ.1) j l)
      * (sumFin k₂ fun l => denote b (mkDual b θ.2 δ.2) i l * denote b (mkDual b θ.2 δ.2) j l)).re
    = (sumFin k₁ fun l => denote a θ.1 i l * denote a θ.1 j l) * (sumFin k₂ fun l => denote b θ.2 i l * denote b θ.2 j l)
  simp only [Dual.mul_re, sumFin_re, sumFin_eq_sum, ha θ.1 δ.1, hb θ.2 δ.2]

theorem correct_mulRoot {n k₁ k₂ : Nat} (a : Op n k₁) (b : Op n k₂) (hra : ReOK α a) (hrb : ReOK α b)
    (ha : Correct α a) (hb : Correct α b) : Correct α (.mulRoot a b) := by
  intro θ δ d U V
  have hD : dDenote (.mulRoot a b) θ δ = fun i j =>
      (∑ l, (denote b θ.2 i l * dDenote b θ.2 δ.2 j l + dDenote b θ.2 δ.2 i l * denote b θ.2 j l))
          * (∑ r, denote a θ.1 i r * denote a θ.1 j r)
        + (∑ l, (denote a θ.1 i l * dDenote a θ.1 δ.1 j l + dDenote a θ.1 δ.1 i l * denote a θ.1 j l))
          * (∑ r, denote b θ.2 i r * denote b θ.2 j r) := by
    funext i j
    show ((sumFin k₁ fun l => denote a (mkDual a θ.1 δ.1) i l * denote a (mkDual a θ.1 δ.1) j l)
      * (sumFin k₂ fun l => denote b (mkDual b θ.2 δ.2) i l * denote b (mkDual b θ.2 δ.2) j l)).eps = _
    simp only [Dual.mul_eps, sumFin_re, sumFin_eps, Dual.mul_re, hra θ.1 δ.1, hrb θ.2 δ.2, dDenote]
    ring
  rw [hD, bilS_add, ← bilS_hadamard_root, ← bilS_hadamard_root,
    ← rootDerivWith_pair a (denote a θ.1) (dDenote a θ.1 δ.1) (fun X Y => bilinDeriv a θ.1 X Y) δ.1 (fun X Y => ha θ.1 δ.1 _ X Y),
    ← rootDerivWith_pair b (denote b θ.2) (dDenote b θ.2 δ.2) (fun X Y => bilinDeriv b θ.2 X Y) δ.2 (fun X Y => hb θ.2 δ.2 _ X Y),
    add_comm]
  show pair a (rootDerivWith (d := k₂ * d) a (denote a θ.1) (fun X Y => bilinDeriv a θ.1 X Y)
          (fun i c => U i (innerIdx c) * getV (memoV (denote b θ.2)) i (outerIdx c))
          (fun j c => V j (innerIdx c) * getV (memoV (denote b θ.2)) j (outerIdx c))) δ.1
      + pair b (rootDerivWith (d := k₁ * d) b (denote b θ.2) (fun X Y => bilinDeriv b θ.2 X Y)
          (fun i c => U i (innerIdx c) * getV (memoV (denote a θ.1)) i (outerIdx c))
          (fun j c => V j (innerIdx c) * getV (memoV (denote a θ.1)) j (outerIdx c))) δ.2 = _
  rw [getV_memoV, getV_memoV]

/-! ### Kronecker product -/

theorem reOK_kron {n₁ m₁ n₂ m₂ : Nat} (a : Op n₁ m₁) (b : Op n₂ m₂) (ha : ReOK α a) (hb : ReOK α b) : ReOK α (.kron a b) := by
  intro θ δ i j
  show (denote a (mkDual a θ.1 δ.1) (outerIdx i) (outerIdx j) * denote b (mkDual b θ.2 δ.2) (innerIdx i) (innerIdx j)).re
    = denote a θ.1 (outerIdx i) (outerIdx j) * denote b θ.2 (innerIdx i) (innerIdx j)
  rw [Dual.mul_re, ha θ.1 δ.1, hb θ.2 δ.2]

/-- second factor: upstream `U` and the first factor's output, both re-viewed with the first factor's row index in the columns. -/
theorem bilS_kron_right {n₁ m₁ n₂ m₂ d : Nat} (A : Mat α n₁ m₁) (dB : Mat α n₂ m₂)
    (U : Mat α (n₁ * n₂) d) (V : Mat α (m₁ * m₂) d) :
    bilS dB (d := n₁ * d) (fun i₂ c => U (pairIdx (outerIdx c) i₂) (innerIdx c))
        (fun j₂ c => ∑ j₁, A (outerIdx c) j₁ * V (pairIdx j₁ (outerIdx (pairIdx (k := m₂) j₂ (innerIdx c)))) (innerIdx (pairIdx (k := m₂) j₂ (innerIdx c))))
      = bilS (fun i j => A (outerIdx i) (outerIdx j) * dB (innerIdx i) (innerIdx j)) U V := by
  simp only [bilS_eq_sum, sum_pairIdx (k := n₁) (n := d), sum_pairIdx (k := n₁) (n := n₂), sum_pairIdx (k := m₁) (n := m₂),
    outer_pairIdx, inner_pairIdx]
  -- lhs: i₁ c i₂ j₂ (j₁);  rhs: c i₁ i₂ j₁ j₂
  rw [Finset.sum_comm]
  refine Finset.sum_congr rfl fun c _ => Finset.sum_congr rfl fun i₁ _ => Finset.sum_congr rfl fun i₂ _ => ?_
  conv_rhs => rw [Finset.sum_comm]
  refine Finset.sum_congr rfl fun j₂ _ => ?_
  rw [Finset.mul_sum]
  refine Finset.sum_congr rfl fun j₁ _ => ?_
  ring

/-- first factor: the upstream gradient is `Bᵀ` applied to the re-viewed `U`, transposed back. -/
theorem bilS_kron_left {n₁ m₁ n₂ m₂ d : Nat} (dA : Mat α n₁ m₁) (B : Mat α n₂ m₂)
    (U : Mat α (n₁ * n₂) d) (V : Mat α (m₁ * m₂) d) :
    bilS dA (d := m₂ * d)
        (fun i₁ c => ∑ i₂, B i₂ (outerIdx c) * U (pairIdx (outerIdx (pairIdx (k := n₁) i₁ (innerIdx c))) i₂) (innerIdx (pairIdx (k := n₁) i₁ (innerIdx c))))
        (fun j₁ c => V (pairIdx j₁ (outerIdx c)) (innerIdx c))
      = bilS (fun i j => dA (outerIdx i) (outerIdx j) * B (innerIdx i) (innerIdx j)) U V := by
  simp only [bilS_eq_sum, sum_pairIdx (k := m₂) (n := d), sum_pairIdx (k := n₁) (n := n₂), sum_pairIdx (k := m₁) (n := m₂),
    outer_pairIdx, inner_pairIdx, Finset.sum_mul]
  -- lhs: j₂ c i₁ j₁ i₂ ;  rhs: c i₁ i₂ j₁ j₂
  rw [Finset.sum_comm]
  refine Finset.sum_congr rfl fun c _ => ?_
  rw [Finset.sum_comm]
  refine Finset.sum_congr rfl fun i₁ _ => ?_
  -- lhs: j₂ j₁ i₂ ; rhs: i₂ j₁ j₂
  rw [Finset.sum_comm]
  conv_rhs => rw [Finset.sum_comm]
  refine Finset.sum_congr rfl fun j₁ _ => ?_
  rw [Finset.sum_comm]
  refine Finset.sum_congr rfl fun i₂ _ => Finset.sum_congr rfl fun j₂ _ => ?_
  ring

theorem correct_kron {n₁ m₁ n₂ m₂ : Nat} (a : Op n₁ m₁) (b : Op n₂ m₂) (hra : ReOK α a) (hrb : ReOK α b)
    (ha : Correct α a) (hb : Correct α b) : Correct α (.kron a b) := by
  intro θ δ d U V
  have hD : dDenote (.kron a b) θ δ = fun i j =>
      denote a θ.1 (outerIdx i) (outerIdx j) * dDenote b θ.2 δ.2 (innerIdx i) (innerIdx j)
        + dDenote a θ.1 δ.1 (outerIdx i) (outerIdx j) * denote b θ.2 (innerIdx i) (innerIdx j) := by
    funext i j
    show (denote a (mkDual a θ.1 δ.1) (outerIdx i) (outerIdx j) * denote b (mkDual b θ.2 δ.2) (innerIdx i) (innerIdx j)).eps = _
    rw [Dual.mul_eps, hra θ.1 δ.1, hrb θ.2 δ.2]
    rfl
  rw [hD, bilS_add, ← bilS_kron_right, ← bilS_kron_left, ← ha θ.1 δ.1 (m₂ * d), ← hb θ.2 δ.2 (n₁ * d), add_comm]
  show pair a (bilinDeriv a θ.1 (d := m₂ * d)
        (fun i₁ c => getV (memoV (mmul (Mat.transpose (getV (memoV (denote b θ.2))))
          (fun i₂ c => U (pairIdx (outerIdx c) i₂) (innerIdx c)))) (outerIdx c) (pairIdx i₁ (innerIdx c)))
        (fun j₁ c => V (pairIdx j₁ (outerIdx c)) (innerIdx c))) δ.1
    + pair b (bilinDeriv b θ.2 (d := n₁ * d) (fun i₂ c => U (pairIdx (outerIdx c) i₂) (innerIdx c))
        (fun j₂ c => getV (memoV (mmul (getV (memoV (denote a θ.1))) (fun j₁ c => V (pairIdx j₁ (outerIdx c)) (innerIdx c))))
          (outerIdx c) (pairIdx j₂ (innerIdx c)))) δ.2 = _
  simp only [getV_memoV, mmul_eq, Mat.transpose]

/-! ### Cat -/

theorem bilS_catRows {n₁ n₂ m d : Nat} (A : Mat α n₁ m) (B : Mat α n₂ m) (U : Mat α (n₁ + n₂) d) (V : Mat α m d) :
    bilS (fun i j => Fin.addCases (fun i₁ => A i₁ j) (fun i₂ => B i₂ j) i) U V
      = bilS A (fun i c => U (Fin.castAdd n₂ i) c) V + bilS B (fun i c => U (Fin.natAdd n₁ i) c) V := by
  simp only [bilS_eq_sum, Fin.sum_univ_add, Fin.addCases_left, Fin.addCases_right, Finset.sum_add_distrib]

theorem bilS_catCols {n m₁ m₂ d : Nat} (A : Mat α n m₁) (B : Mat α n m₂) (U : Mat α n d) (V : Mat α (m₁ + m₂) d) :
    bilS (fun i j => Fin.addCases (fun j₁ => A i j₁) (fun j₂ => B i j₂) j) U V
      = bilS A U (fun j c => V (Fin.castAdd m₂ j) c) + bilS B U (fun j c => V (Fin.natAdd m₁ j) c) := by
  simp only [bilS_eq_sum, Fin.sum_univ_add, Fin.addCases_left, Fin.addCases_right, Finset.sum_add_distrib]

theorem reOK_catRows {n₁ n₂ m : Nat} (a : Op n₁ m) (b : Op n₂ m) (ha : ReOK α a) (hb : ReOK α b) : ReOK α (.catRows a b) := by
  intro θ δ i j
  show (Fin.addCases (motive := fun _ => Dual α) (fun i₁ => denote a (mkDual a θ.1 δ.1) i₁ j) (fun i₂ => denote b (mkDual b θ.2 δ.2) i₂ j) i).re
    = Fin.addCases (motive := fun _ => α) (fun i₁ => denote a θ.1 i₁ j) (fun i₂ => denote b θ.2 i₂ j) i
  induction i using Fin.addCases with
  | left i₁ => simp only [Fin.addCases_left]; exact ha θ.1 δ.1 i₁ j
  | right i₂ => simp only [Fin.addCases_right]; exact hb θ.2 δ.2 i₂ j

theorem reOK_catCols {n m₁ m₂ : Nat} (a : Op n m₁) (b : Op n m₂) (ha : ReOK α a) (hb : ReOK α b) : ReOK α (.catCols a b) := by
  intro θ δ i j
  show (Fin.addCases (motive := fun _ => Dual α) (fun j₁ => denote a (mkDual a θ.1 δ.1) i j₁) (fun j₂ => denote b (mkDual b θ.2 δ.2) i j₂) j).re
    = Fin.addCases (motive := fun _ => α) (fun j₁ => denote a θ.1 i j₁) (fun j₂ => denote b θ.2 i j₂) j
  induction j using Fin.addCases with
  | left j₁ => simp only [Fin.addCases_left]; exact ha θ.1 δ.1 i j₁
  | right j₂ => simp only [Fin.addCases_right]; exact hb θ.2 δ.2 i j₂

theorem correct_catRows {n₁ n₂ m : Nat} (a : Op n₁ m) (b : Op n₂ m) (ha : Correct α a) (hb : Correct α b) :
    Correct α (.catRows a b) := by
  intro θ δ d U V
  have hD : dDenote (.catRows a b) θ δ
      = fun i j => Fin.addCases (fun i₁ => dDenote a θ.1 δ.1 i₁ j) (fun i₂ => dDenote b θ.2 δ.2 i₂ j) i := by
    funext i j
    show (Fin.addCases (motive := fun _ => Dual α) (fun i₁ => denote a (mkDual a θ.1 δ.1) i₁ j) (fun i₂ => denote b (mkDual b θ.2 δ.2) i₂ j) i).eps = _
    induction i using Fin.addCases with
    | left i₁ => simp only [Fin.addCases_left]; rfl
    | right i₂ => simp only [Fin.addCases_right]; rfl
  rw [hD, bilS_catRows, ← ha θ.1 δ.1 d, ← hb θ.2 δ.2 d]
  rfl

theorem correct_catCols {n m₁ m₂ : Nat} (a : Op n m₁) (b : Op n m₂) (ha : Correct α a) (hb : Correct α b) :
    Correct α (.catCols a b) := by
  intro θ δ d U V
  have hD : dDenote (.catCols a b) θ δ
      = fun i j => Fin.addCases (fun j₁ => dDenote a θ.1 δ.1 i j₁) (fun j₂ => dDenote b θ.2 δ.2 i j₂) j := by
    funext i j
    show (Fin.addCases (motive := fun _ => Dual α) (fun j₁ => denote a (mkDual a θ.1 δ.1) i j₁) (fun j₂ => denote b (mkDual b θ.2 δ.2) i j₂) j).eps = _
    induction j using Fin.addCases with
    | left j₁ => simp only [Fin.addCases_left]; rfl
    | right j₂ => simp only [Fin.addCases_right]; rfl
  rw [hD, bilS_catCols, ← ha θ.1 δ.1 d, ← hb θ.2 δ.2 d]
  rfl

end LinOp.C07
