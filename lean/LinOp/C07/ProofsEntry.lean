import LinOp.C07.ProofsBackward
import LinOp.C07.ModelEntry
/-!
C07 — entry points that reach `_bilinear_derivative` through `Matmul` with a special right-hand side (`to_dense`, diagonal,
single entries, row / column sums), the generic memory_efficient statement, `DSMM.backward`, the `lhs` branch of
`SqrtInvMatmul.backward`, and the differential of the factor re-computed in `PivotedCholesky.backward`.
-/
namespace LinOp.C07
open LinOp Matrix

variable {α : Type} [CommRing α]

/-- The bilinear form pairs the matrix with the sum of outer products `Σ_c u_c v_cᵀ`. -/
theorem bilS_outer {n m d : Nat} (D : Mat α n m) (U : Mat α n d) (V : Mat α m d) :
    bilS D U V = ∑ i, ∑ j, D i j * ∑ c, U i c * V j c := by
  rw [bilS_eq_sum, Finset.sum_comm]
  refine Finset.sum_congr rfl fun i _ => ?_
  rw [Finset.sum_comm]
  refine Finset.sum_congr rfl fun j _ => ?_
  rw [Finset.mul_sum]
  exact Finset.sum_congr rfl fun c _ => by ring

theorem outer_id {n m : Nat} (G : Mat α n m) (i : Fin n) (j : Fin m) : ∑ c, G i c * (idMat m : Mat α m m) j c = G i j := by
  simp [idMat]

theorem outer_diag_id {n : Nat} (g : Fin n → α) (i j : Fin n) :
    ∑ c, (diagMat g : Mat α n n) i c * (idMat n : Mat α n n) j c = if i = j then g i else 0 := by
  simp only [diagMat, idMat]
  by_cases h : i = j
  · subst h; simp
  · simp only [h, if_false]
    refine Finset.sum_eq_zero fun c _ => ?_
    by_cases hc : i = c
    · have : ¬ j = c := fun e => h (hc.trans e.symm)
      simp [this]
    · simp [hc]

theorem all_correct' {n m : Nat} (o : Op n m) (θ δ : Param α o) {d : Nat} (U : Mat α n d) (V : Mat α m d) :
    pair o (bilinDeriv o θ U V) δ = bilS (dDenote o θ δ) U V :=
  (all_correct o (Or.inr correct_toeplitz)).2 θ δ d U V

theorem toDense_pair {n m : Nat} (o : Op n m) (θ δ : Param α o) (G : Mat α n m) :
    pair o (toDenseBackward o θ G) δ = ∑ i, ∑ j, G i j * dDenote o θ δ i j := by
  unfold toDenseBackward
  rw [all_correct', bilS_outer]
  refine Finset.sum_congr rfl fun i _ => Finset.sum_congr rfl fun j _ => ?_
  rw [outer_id, mul_comm]

/-- the `num_rows < num_cols` branch of `to_dense`: `self.mT.matmul(eye).mT` — the transposed operator's derivative with
`(Gᵀ, eye)`, i.e. (model of `transpose`) the operator's own with `(eye, Gᵀ)`. -/
theorem toDenseWide_pair {n m : Nat} (o : Op n m) (θ δ : Param α o) (G : Mat α n m) :
    pair (.transpose o) (bilinDeriv (.transpose o) θ (fun j i => G i j) (idMat n)) δ = ∑ i, ∑ j, G i j * dDenote o θ δ i j := by
  have h : bilinDeriv (.transpose o) θ (fun j i => G i j) (idMat n) = bilinDeriv o θ (idMat n) (fun j i => G i j) := rfl
  have hp : ∀ g : Param α o, pair (.transpose o) g δ = pair o g δ := fun _ => rfl
  rw [h, hp, all_correct', bilS_outer]
  refine Finset.sum_congr rfl fun i _ => Finset.sum_congr rfl fun j _ => ?_
  have : ∑ c, (idMat n : Mat α n n) i c * G c j = G i j := by simp [idMat]
  rw [this, mul_comm]

theorem diagonal_pair {n : Nat} (o : Op n n) (θ δ : Param α o) (g : Fin n → α) :
    pair o (diagonalBackward o θ g) δ = ∑ i, g i * dDenote o θ δ i i := by
  unfold diagonalBackward
  rw [all_correct', bilS_outer]
  refine Finset.sum_congr rfl fun i _ => ?_
  simp only [outer_diag_id, mul_ite, mul_zero]
  rw [Finset.sum_ite_eq]
  simp [mul_comm]

theorem getitem_pair {n m : Nat} (o : Op n m) (θ δ : Param α o) (i : Fin n) (j : Fin m) (g : α) :
    pair o (getitemBackward o θ i j g) δ = g * dDenote o θ δ i j := by
  unfold getitemBackward
  rw [all_correct', bilS_outer]
  simp only [unitCol, Finset.univ_unique, Finset.sum_singleton, mul_ite, mul_one, mul_zero, ite_mul, zero_mul]
  rw [Finset.sum_eq_single i]
  · rw [Finset.sum_eq_single j]
    · simp [mul_comm]
    · intro b _ hb; simp [hb]
    · intro h; exact absurd (Finset.mem_univ j) h
  · intro a _ ha; simp [ha]
  · intro h; exact absurd (Finset.mem_univ i) h

theorem sumLast_pair {n m : Nat} (o : Op n m) (θ δ : Param α o) (g : Fin n → α) :
    pair o (sumLastBackward o θ g) δ = ∑ i, g i * ∑ j, dDenote o θ δ i j := by
  unfold sumLastBackward
  rw [all_correct', bilS_outer]
  refine Finset.sum_congr rfl fun i _ => ?_
  rw [Finset.mul_sum]
  refine Finset.sum_congr rfl fun j _ => ?_
  simp [colOf, mul_comm]

theorem sumFirst_pair {n m : Nat} (o : Op n m) (θ δ : Param α o) (g : Fin m → α) :
    pair o (sumFirstBackward o θ g) δ = ∑ j, g j * ∑ i, dDenote o θ δ i j := by
  unfold sumFirstBackward
  rw [all_correct', bilS_outer, Finset.sum_comm]
  refine Finset.sum_congr rfl fun j _ => ?_
  rw [Finset.mul_sum]
  refine Finset.sum_congr rfl fun i _ => ?_
  simp [colOf, mul_comm]

/-! ### memory_efficient / skip_logdet_forward -/

theorem ctxOperator_forward {n m : Nat} (me : Bool) (o : Op n m) (θ : Param α o) : ctxOperator o (forwardCtx me o θ) = θ := by
  cases me <;> simp [ctxOperator, forwardCtx, rebuild_flat']

theorem ctxRebuilt_forward {n m : Nat} (me : Bool) (o : Op n m) (θ : Param α o) : ctxRebuilt o (forwardCtx me o θ) = θ := by
  cases me <;> simp [ctxRebuilt, forwardCtx, rebuild_flat']

/-! ### DSMM.backward -/

theorem dsmm_pullback {n k c : Nat} (S : Matrix (Fin n) (Fin k) α) (dB : Matrix (Fin k) (Fin c) α) (G : Matrix (Fin n) (Fin c) α) :
    Matrix.trace (Gᵀ * (S * dB)) = Matrix.trace ((Sᵀ * G)ᵀ * dB) := by
  rw [Matrix.transpose_mul, Matrix.transpose_transpose, Matrix.mul_assoc]

/-! ### SqrtInvMatmul.backward, `lhs` branch -/

/-- `Y = L · Σ_q w_q X_q`, `(v·A + s_q) X_q = B`: pullback to the left factor, the rhs and the matrix. -/
theorem sqrtInvMatmul_lhs_pullback {Q n c l : Nat} (v : α) (w s : Fin Q → α) (A dA : Matrix (Fin n) (Fin n) α)
    (Minv : Fin Q → Matrix (Fin n) (Fin n) α) (X dX : Fin Q → Matrix (Fin n) (Fin c) α) (B dB : Matrix (Fin n) (Fin c) α)
    (L dL : Matrix (Fin l) (Fin n) α) (G : Matrix (Fin l) (Fin c) α)
    (hinv : ∀ q, Minv q * (v • A + s q • 1) = 1) (h0 : ∀ q, (v • A + s q • 1) * X q = B)
    (h1 : ∀ q, (v • A + s q • 1) * dX q + (v • dA) * X q = dB) :
    Matrix.trace (Gᵀ * (dL * (∑ q, w q • X q) + L * ∑ q, w q • dX q))
      = Matrix.trace ((G * (∑ q, w q • X q)ᵀ)ᵀ * dL)
        + (Matrix.trace ((∑ q, w q • ((Minv q)ᵀ * (Lᵀ * G)))ᵀ * dB)
            - v * ∑ q, bilS dA (w q • ((Minv q)ᵀ * (Lᵀ * G))) (X q)) := by
  have e1 : Matrix.trace (Gᵀ * (dL * ∑ q, w q • X q)) = Matrix.trace ((G * (∑ q, w q • X q)ᵀ)ᵀ * dL) := by
    rw [Matrix.transpose_mul, Matrix.transpose_transpose, Matrix.mul_assoc, ← Matrix.mul_assoc, Matrix.trace_mul_comm]
  have e2 : Gᵀ * (L * ∑ q, w q • dX q) = (Lᵀ * G)ᵀ * ∑ q, w q • dX q := by
    rw [Matrix.transpose_mul, Matrix.transpose_transpose, Matrix.mul_assoc]
  rw [Matrix.mul_add, Matrix.trace_add, e1, e2, sqrtInvMatmul_pullback v w s A dA Minv X dX B dB (Lᵀ * G) hinv h0 h1]

/-- The factors the code builds in the `lhs` branch: `terms1 = lhs_solves = M_q⁻¹ Lᵀ`, `terms2 = (w_q X_q) Gᵀ`
(`weighted_rhs_solves_mul_grad`) pair to the same bilinear form as `(w_q M_q⁻ᵀ Lᵀ G, X_q)`. -/
theorem sqrtInvMatmul_lhs_factors {n c l : Nat} (wq : α) (dA Minv : Matrix (Fin n) (Fin n) α) (Xq : Matrix (Fin n) (Fin c) α)
    (L : Matrix (Fin l) (Fin n) α) (G : Matrix (Fin l) (Fin c) α) :
    bilS dA (wq • (Minvᵀ * (Lᵀ * G))) Xq = bilS dA (Minvᵀ * Lᵀ) ((wq • Xq) * Gᵀ) := by
  rw [bilS_def, bilS_def]
  have e : (Minvᵀ * Lᵀ)ᵀ * dA * ((wq • Xq) * Gᵀ) = wq • ((L * Minv * dA * Xq) * Gᵀ) := by
    simp only [Matrix.transpose_mul, Matrix.transpose_transpose, Matrix.smul_mul, Matrix.mul_smul, Matrix.mul_assoc]
  have e' : (wq • (Minvᵀ * (Lᵀ * G)))ᵀ * dA * Xq = wq • (Gᵀ * (L * Minv * dA * Xq)) := by
    simp only [Matrix.transpose_smul, Matrix.transpose_mul, Matrix.transpose_transpose, Matrix.smul_mul, Matrix.mul_assoc]
  rw [e, e', Matrix.trace_smul, Matrix.trace_smul, Matrix.trace_mul_comm]

/-- inv_quad block of the `lhs` branch: `terms1 = S = A⁻¹Lᵀ` (`lhs_no_shift_solves`), `terms2 = −S·diag(g)`
(`neg_inv_quad_solves_mul_grad`) pair to `−Σ_i g_i s_iᵀ dA s_i`. -/
theorem invQuad_weighted_factors {n l : Nat} (dA : Matrix (Fin n) (Fin n) α) (S : Matrix (Fin n) (Fin l) α) (g : Fin l → α) :
    bilS dA S (-(S * Matrix.diagonal g)) = - ∑ i, g i * (Sᵀ * dA * S) i i := by
  rw [bilS_def, Matrix.mul_neg, Matrix.trace_neg, ← Matrix.mul_assoc]
  simp only [Matrix.trace, Matrix.diag_apply, Matrix.mul_diagonal]
  congr 1
  exact Finset.sum_congr rfl fun i _ => mul_comm _ _

/-! ### InvQuad.backward with the per-column upstream gradient -/

theorem trace_diag_transpose_swap {c : Nat} (g : Fin c → α) (M : Matrix (Fin c) (Fin c) α) :
    Matrix.trace (Matrix.diagonal g * Mᵀ) = Matrix.trace (Matrix.diagonal g * M) := by
  have h : (Matrix.diagonal g * Mᵀ) = (M * Matrix.diagonal g)ᵀ := by
    rw [Matrix.transpose_mul, Matrix.diagonal_transpose]
  rw [h, Matrix.trace_transpose, Matrix.trace_mul_comm]

/-- `q_c = x_cᵀ b_c`, `A X = B`, `A` symmetric, upstream gradient `g_c` per column:
`Σ_c g_c dq_c = 2 Σ_c g_c x_cᵀ db_c + bil(dA; −X diag g, X)` — the rhs receives `2·X diag g`
(`neg_inv_quad_solves_times_grad_out.mul(-2)`), the parameters `_bilinear_derivative(−X diag g, X)`. -/
theorem invQuad_weighted_first_order {n c : Nat} (A dA : Matrix (Fin n) (Fin n) α) (X dX B dB : Matrix (Fin n) (Fin c) α)
    (g : Fin c → α) (hs : Aᵀ = A) (h0 : A * X = B) (h1 : A * dX + dA * X = dB) :
    Matrix.trace (Matrix.diagonal g * (dXᵀ * B + Xᵀ * dB))
      = Matrix.trace (Matrix.diagonal g * (Xᵀ * dB)) + Matrix.trace (Matrix.diagonal g * (Xᵀ * dB))
        + bilS dA (-(X * Matrix.diagonal g)) X := by
  have hAdX : A * dX = dB - dA * X := by rw [← h1, add_sub_cancel_right]
  have e : dXᵀ * B = (Xᵀ * dB)ᵀ - (Xᵀ * dA * X)ᵀ := by
    calc dXᵀ * B = dXᵀ * (A * X) := by rw [h0]
      _ = (A * dX)ᵀ * X := by rw [Matrix.transpose_mul, hs, Matrix.mul_assoc]
      _ = (dB - dA * X)ᵀ * X := by rw [hAdX]
      _ = (Xᵀ * dB)ᵀ - (Xᵀ * dA * X)ᵀ := by
          simp only [Matrix.transpose_sub, Matrix.transpose_mul, Matrix.transpose_transpose, Matrix.sub_mul, Matrix.mul_assoc]
  have hb : bilS dA (-(X * Matrix.diagonal g)) X = - Matrix.trace (Matrix.diagonal g * (Xᵀ * dA * X)) := by
    rw [bilS_def, Matrix.transpose_neg, Matrix.transpose_mul, Matrix.diagonal_transpose, Matrix.neg_mul, Matrix.neg_mul,
      Matrix.trace_neg]
    simp only [Matrix.mul_assoc]
  rw [e, hb, Matrix.mul_add, Matrix.trace_add, Matrix.mul_sub, Matrix.trace_sub, trace_diag_transpose_swap,
    trace_diag_transpose_swap]
  ring

/-! ### PivotedCholesky.backward: differential of the re-computed factor, permutation fixed -/

/-- A lower-triangular `X` with `X + Xᵀ = S` is `Φ(S)`: strictly lower part of `S`, half its diagonal, zero above. -/
theorem lower_of_symm_sum {m : Nat} (X S : Matrix (Fin m) (Fin m) α) (hX : ∀ i j, i < j → X i j = 0) (hS : X + Xᵀ = S) :
    (∀ i j, j < i → X i j = S i j) ∧ (∀ i, X i i + X i i = S i i) ∧ (∀ i j, i < j → X i j = 0) := by
  refine ⟨fun i j hji => ?_, fun i => ?_, hX⟩
  · have := congrFun (congrFun hS i) j
    simp only [Matrix.add_apply, Matrix.transpose_apply, hX j i hji, add_zero] at this
    exact this
  · have := congrFun (congrFun hS i) i
    simpa only [Matrix.add_apply, Matrix.transpose_apply] using this

/-- `L Lᵀ = K₁₁` to first order: `dL Lᵀ + L dLᵀ = dK₁₁` ⇒ `X = L⁻¹ dL` satisfies `X + Xᵀ = L⁻¹ dK₁₁ L⁻ᵀ`. -/
theorem cholesky_first_order {m : Nat} (L Linv dL dK : Matrix (Fin m) (Fin m) α) (hinv : Linv * L = 1)
    (h1 : dL * Lᵀ + L * dLᵀ = dK) :
    Linv * dL + (Linv * dL)ᵀ = Linv * dK * Linvᵀ := by
  have hT : Lᵀ * Linvᵀ = 1 := by
    have := congrArg Matrix.transpose hinv
    rwa [Matrix.transpose_mul, Matrix.transpose_one] at this
  rw [← h1, Matrix.mul_add, Matrix.add_mul, Matrix.transpose_mul]
  congr 1
  · rw [Matrix.mul_assoc, Matrix.mul_assoc, hT, Matrix.mul_one]
  · rw [← Matrix.mul_assoc Linv L, hinv, Matrix.one_mul]

/-- the rows below the pivots: `F₂ Lᵀ = K₂₁` to first order gives `dF₂ = (dK₂₁ − F₂ dLᵀ) L⁻ᵀ`. -/
theorem pivoted_lower_block {m r : Nat} (L Linv dL : Matrix (Fin m) (Fin m) α) (F2 dF2 dK21 : Matrix (Fin r) (Fin m) α)
    (hinv : Linv * L = 1) (h2 : dF2 * Lᵀ + F2 * dLᵀ = dK21) :
    dF2 = (dK21 - F2 * dLᵀ) * Linvᵀ := by
  have hT : Lᵀ * Linvᵀ = 1 := by
    have := congrArg Matrix.transpose hinv
    rwa [Matrix.transpose_mul, Matrix.transpose_one] at this
  rw [← h2, add_sub_cancel_right, Matrix.mul_assoc, hT, Matrix.mul_one]

end LinOp.C07
