import LinOp.C07.ProofsSym
import LinOp.C07.ProofsFunc
import Mathlib.LinearAlgebra.Matrix.NonsingularInverse
/-!
C07 — backward formulas of `RootDecomposition`, `SqrtInvMatmul`, `InvQuadLogdet` (probe vectors drawn with a preconditioner,
concatenated factors) and the re-computation inside `PivotedCholesky.backward`, as first-order matrix identities over an
arbitrary commutative ring.
-/
namespace LinOp.C07
open LinOp Matrix

variable {α : Type} [CommRing α]

theorem bilS_def {n m d : Nat} (D : Matrix (Fin n) (Fin m) α) (L : Matrix (Fin n) (Fin d) α) (R : Matrix (Fin m) (Fin d) α) :
    bilS D L R = Matrix.trace (Lᵀ * D * R) := rfl

/-! ### RootDecomposition.backward -/

/-- The root differential chosen by `RootDecomposition.backward`: `dR = ½ dA R⁻ᵀ` (with `W = R⁻ᵀ` the saved inverse root)
is a first-order root of `A + ε dA`: `dR Rᵀ + R dRᵀ = dA` for symmetric `dA`. -/
theorem rootDiff_isRoot {n : Nat} (half : α) (hh : half + half = 1) (R W dA : Matrix (Fin n) (Fin n) α)
    (hW : W * Rᵀ = 1) (hs : dAᵀ = dA) :
    (half • (dA * W)) * Rᵀ + R * (half • (dA * W))ᵀ = dA := by
  have hW' : R * Wᵀ = 1 := by
    have := congrArg Matrix.transpose hW
    rwa [Matrix.transpose_mul, Matrix.transpose_transpose, Matrix.transpose_one] at this
  rw [Matrix.transpose_smul, Matrix.transpose_mul, hs, Matrix.smul_mul, Matrix.mul_smul, Matrix.mul_assoc, hW, Matrix.mul_one,
    ← Matrix.mul_assoc, hW', Matrix.one_mul, ← add_smul, hh, one_smul]

/-- The matching differential of the inverse root: `dW = −W dRᵀ W` keeps `(R + ε dR)ᵀ (W + ε dW) = 1` to first order. -/
theorem invRootDiff_isInverse {n : Nat} (R W dR : Matrix (Fin n) (Fin n) α) (hW : Rᵀ * W = 1) :
    dRᵀ * W + Rᵀ * (-(W * dRᵀ * W)) = 0 := by
  rw [Matrix.mul_neg, ← Matrix.mul_assoc, ← Matrix.mul_assoc, hW, Matrix.one_mul, add_neg_cancel]

/-- The scalar pulled back by `RootDecomposition.backward`: with upstream gradients `G_R` (root) and `G_W` (inverse root),
`⟨G_R, dR⟩ + ⟨G_W, dW⟩ = Σ_c l_cᵀ dA r_c` with left factor `G_R − W G_Wᵀ W` and right factor `½ W` — exactly the two
factors handed to `_bilinear_derivative` (`left_factor.sub_(inverse @ inverse_grad.mT @ inverse)`, `inverse.div(2)`). -/
theorem rootDecomposition_pullback {n : Nat} (half : α) (W dA GR GW : Matrix (Fin n) (Fin n) α) (hs : dAᵀ = dA) :
    Matrix.trace (GRᵀ * (half • (dA * W))) + Matrix.trace (GWᵀ * (-(W * (half • (dA * W))ᵀ * W)))
      = bilS dA (GR - W * GWᵀ * W) (half • W) := by
  rw [bilS_def]
  have e1 : Matrix.trace (GWᵀ * (W * ((dA * W)ᵀ * W))) = Matrix.trace ((W * (GWᵀ * W))ᵀ * (dA * W)) := by
    calc Matrix.trace (GWᵀ * (W * ((dA * W)ᵀ * W)))
        = Matrix.trace ((GWᵀ * W) * (Wᵀ * dA * W)) := by
          simp only [Matrix.transpose_mul, hs, Matrix.mul_assoc]
      _ = Matrix.trace ((Wᵀ * dA * W) * (GWᵀ * W)) := Matrix.trace_mul_comm _ _
      _ = Matrix.trace (((Wᵀ * dA * W) * (GWᵀ * W))ᵀ) := (Matrix.trace_transpose _).symm
      _ = Matrix.trace ((W * (GWᵀ * W))ᵀ * (dA * W)) := by
          simp only [Matrix.transpose_mul, Matrix.transpose_transpose, hs, Matrix.mul_assoc]
  simp only [Matrix.transpose_smul, Matrix.mul_smul, Matrix.smul_mul, Matrix.mul_neg, Matrix.trace_neg, Matrix.trace_smul,
    Matrix.transpose_sub, Matrix.sub_mul, Matrix.trace_sub, Matrix.mul_assoc, smul_eq_mul]
  rw [e1]
  ring

/-! ### SqrtInvMatmul.backward -/

/-- One shifted solve `(v·A + s·1) X = B` of the contour quadrature (`minres(…, value = v, shifts)`, `v = −1` in the code):
`⟨G, dX⟩ = ⟨M⁻ᵀG, dB⟩ − v · Σ_c (M⁻ᵀG)_cᵀ dA x_c`. -/
theorem shiftedSolve_backward {n c : Nat} (v s : α) (A dA Minv : Matrix (Fin n) (Fin n) α) (X dX B dB G : Matrix (Fin n) (Fin c) α)
    (hinv : Minv * (v • A + s • 1) = 1) (h0 : (v • A + s • 1) * X = B) (h1 : (v • A + s • 1) * dX + (v • dA) * X = dB) :
    Matrix.trace (Gᵀ * dX) = Matrix.trace ((Minvᵀ * G)ᵀ * dB) - v * bilS dA (Minvᵀ * G) X := by
  have hX : dX = Minv * (dB - (v • dA) * X) := by
    rw [← h1, add_sub_cancel_right, ← Matrix.mul_assoc, hinv, Matrix.one_mul]
  have _ := h0
  rw [hX, bilS_def]
  simp only [Matrix.transpose_mul, Matrix.transpose_transpose, Matrix.mul_sub, Matrix.trace_sub, Matrix.mul_assoc,
    Matrix.smul_mul, Matrix.mul_smul, Matrix.trace_smul, smul_eq_mul]

/-- **`SqrtInvMatmul.backward`** (no left factor): the output is the quadrature `Y = Σ_q w_q X_q`, `(v·A + s_q) X_q = B`, with
weights and shifts held constant.  Its pullback: the rhs receives `Σ_q w_q M_q⁻ᵀ G` (`grad_solves.mul(weights).sum(0)`) and the
matrix parameters the bilinear forms with factors `w_q M_q⁻ᵀ G` (`terms1`) and `X_q` (`terms2`), summed over the quadrature
index (a leading batch dimension of the factors), with the sign `−v` (`v = −1`: the `+½` symmetrised concatenation of the code). -/
theorem sqrtInvMatmul_pullback {Q n c : Nat} (v : α) (w s : Fin Q → α) (A dA : Matrix (Fin n) (Fin n) α)
    (Minv : Fin Q → Matrix (Fin n) (Fin n) α) (X dX : Fin Q → Matrix (Fin n) (Fin c) α) (B dB G : Matrix (Fin n) (Fin c) α)
    (hinv : ∀ q, Minv q * (v • A + s q • 1) = 1) (h0 : ∀ q, (v • A + s q • 1) * X q = B)
    (h1 : ∀ q, (v • A + s q • 1) * dX q + (v • dA) * X q = dB) :
    Matrix.trace (Gᵀ * ∑ q, w q • dX q)
      = Matrix.trace ((∑ q, w q • ((Minv q)ᵀ * G))ᵀ * dB) - v * ∑ q, bilS dA (w q • ((Minv q)ᵀ * G)) (X q) := by
  have hq : ∀ q, Matrix.trace (Gᵀ * (w q • dX q))
      = Matrix.trace ((w q • ((Minv q)ᵀ * G))ᵀ * dB) - v * bilS dA (w q • ((Minv q)ᵀ * G)) (X q) := by
    intro q
    have := shiftedSolve_backward v (s q) A dA (Minv q) (X q) (dX q) B dB G (hinv q) (h0 q) (h1 q)
    simp only [bilS_def, Matrix.mul_smul, Matrix.smul_mul, Matrix.transpose_smul, Matrix.trace_smul, smul_eq_mul] at this ⊢
    rw [this]
    ring
  rw [Matrix.mul_sum, Matrix.trace_sum, Matrix.transpose_sum, Matrix.sum_mul, Matrix.trace_sum, Finset.mul_sum, ← Finset.sum_sub_distrib]
  exact Finset.sum_congr rfl fun q _ => hq q

/-! ### InvQuadLogdet.backward: probe vectors drawn with a preconditioner -/

/-- Probe vectors with second moment `P` (drawn from `N(0, P)`: `coef · Z Zᵀ = P`, `coef = 1/num_probes`): the estimator
`Σ_c coef · (A⁻¹ z_c)ᵀ dA (P⁻¹ z_c)` — left factors `probe_vector_solves`, right factors `preconditioner(probe_vectors)` —
equals `tr(A⁻¹ dA)`, the derivative of the log-determinant (`logdet_backward`). -/
theorem logdet_probe_estimator_precond {n t : Nat} (coef : α) (Ainv dA P Pinv : Matrix (Fin n) (Fin n) α) (Z : Matrix (Fin n) (Fin t) α)
    (hA : Ainvᵀ = Ainv) (hP : Pinv * P = 1) (hZ : coef • (Z * Zᵀ) = P) :
    bilS dA (coef • (Ainv * Z)) (Pinv * Z) = Matrix.trace (Ainv * dA) := by
  have key : Matrix.trace (Zᵀ * (Ainv * dA * Pinv * Z)) = Matrix.trace (Ainv * dA * Pinv * (Z * Zᵀ)) := by
    rw [Matrix.trace_mul_comm, Matrix.mul_assoc]
  have e : (coef • (Ainv * Z))ᵀ * dA * (Pinv * Z) = coef • (Zᵀ * (Ainv * dA * Pinv * Z)) := by
    simp only [Matrix.transpose_smul, Matrix.transpose_mul, hA, Matrix.smul_mul, Matrix.mul_assoc]
  rw [bilS_def, e, Matrix.trace_smul, key, ← Matrix.trace_smul, ← Matrix.mul_smul, hZ, Matrix.mul_assoc (Ainv * dA), hP,
    Matrix.mul_one]

/-- The preconditioner's own tensors receive `_bilinear_derivative(−coef · P⁻¹Z, P⁻¹Z)`, i.e. `−tr(P⁻¹ dP)`: it cancels the
derivative `tr(P⁻¹ dP)` of the `logdet(P)` term that the preconditioned estimate adds. -/
theorem logdet_precond_gradient {n t : Nat} (coef : α) (dP P Pinv : Matrix (Fin n) (Fin n) α) (Z : Matrix (Fin n) (Fin t) α)
    (hPs : Pinvᵀ = Pinv) (hP : Pinv * P = 1) (hZ : coef • (Z * Zᵀ) = P) :
    bilS dP (-(coef • (Pinv * Z))) (Pinv * Z) = - Matrix.trace (Pinv * dP) := by
  rw [bilS_def, Matrix.transpose_neg, Matrix.neg_mul, Matrix.neg_mul, Matrix.trace_neg, ← bilS_def,
    logdet_probe_estimator_precond coef Pinv dP P Pinv Z hPs hP hZ]

/-- **Concatenated factors of `InvQuadLogdet.backward`**: ONE call `_bilinear_derivative(cat[L₁, L₂], cat[R₁, R₂])` with the
probe block (`L₁ = coef·g_ld·A⁻¹Z`, `R₁ = P⁻¹Z`) and the inv_quad block (`L₂ = −g_iq·X`, `R₂ = X`) pairs, for EVERY operator
tree and perturbation, to the sum of the two bilinear forms (different numbers of columns allowed). -/
theorem concatenatedDeriv_pair {n m : Nat} (o : Op n m) (θ δ : Param α o) {d₁ d₂ : Nat}
    (L₁ : Mat α n d₁) (L₂ : Mat α n d₂) (R₁ : Mat α m d₁) (R₂ : Mat α m d₂) :
    pair o (bilinDeriv o θ (hcat L₁ L₂) (hcat R₁ R₂)) δ = bilS (dDenote o θ δ) L₁ R₁ + bilS (dDenote o θ δ) L₂ R₂ := by
  rw [(all_correct o (Or.inr correct_toeplitz)).2 θ δ (d₁ + d₂), bilS_hcat]

/-! ### Solve.backward with a left factor -/

/-- `Y = L A⁻¹ R` (`linear_operator.solve(A, R, L)`): `⟨G, dY⟩ = ⟨G Xᵀ, dL⟩ + ⟨A⁻ᵀ Lᵀ G, dR⟩ − Σ_c (A⁻ᵀLᵀG)_cᵀ dA x_c`, `X = A⁻¹ R`. -/
theorem solveLeft_pullback {n c l : Nat} (A Ainv dA : Matrix (Fin n) (Fin n) α) (X dX R dR : Matrix (Fin n) (Fin c) α)
    (L dL : Matrix (Fin l) (Fin n) α) (G : Matrix (Fin l) (Fin c) α)
    (hinv : Ainv * A = 1) (h1 : A * dX + dA * X = dR) :
    Matrix.trace (Gᵀ * (dL * X + L * dX))
      = Matrix.trace ((G * Xᵀ)ᵀ * dL) + (Matrix.trace ((Ainvᵀ * (Lᵀ * G))ᵀ * dR) - bilS dA (Ainvᵀ * (Lᵀ * G)) X) := by
  have hX : dX = Ainv * (dR - dA * X) := by
    rw [← h1, add_sub_cancel_right, ← Matrix.mul_assoc, hinv, Matrix.one_mul]
  have e1 : Matrix.trace (Gᵀ * (dL * X)) = Matrix.trace ((G * Xᵀ)ᵀ * dL) := by
    rw [Matrix.transpose_mul, Matrix.transpose_transpose, Matrix.mul_assoc, ← Matrix.mul_assoc, Matrix.trace_mul_comm]
  rw [Matrix.mul_add, Matrix.trace_add, e1, hX, bilS_def]
  simp only [Matrix.transpose_mul, Matrix.transpose_transpose, Matrix.mul_sub, Matrix.trace_sub, Matrix.mul_assoc]

/-! ### PivotedCholesky.backward -/

/-- `PivotedCholesky.backward` re-computes the factor from the selected rows with differentiable operations:
`F = [L; K₂₁ L⁻ᵀ]` with `L Lᵀ = K₁₁` (pivoted order).  In any commutative ring (so also for `K + ε dK`, i.e. to first order, with
the permutation held fixed) `F Fᵀ` reproduces the pivot rows and columns of `K` exactly and has the Schur complement form in
the remaining block. -/
theorem pivotedCholesky_recompute {m r : Nat} (L Linv K11 : Matrix (Fin m) (Fin m) α) (K21 : Matrix (Fin r) (Fin m) α)
    (hL : L * Lᵀ = K11) (hinv : Linv * L = 1) :
    L * Lᵀ = K11 ∧ (K21 * Linvᵀ) * Lᵀ = K21 ∧ (K21 * Linvᵀ) * (K21 * Linvᵀ)ᵀ = K21 * (Linvᵀ * Linv) * K21ᵀ
      ∧ (Linvᵀ * Linv) * K11 = 1 := by
  have hT : Linvᵀ * Lᵀ = 1 := by
    have h' : L * Linv = 1 := mul_eq_one_comm.1 hinv
    have := congrArg Matrix.transpose h'
    rwa [Matrix.transpose_mul, Matrix.transpose_one] at this
  have hT' : Lᵀ * Linvᵀ = 1 := mul_eq_one_comm.1 hT
  refine ⟨hL, ?_, ?_, ?_⟩
  · rw [Matrix.mul_assoc, hT, Matrix.mul_one]
  · simp only [Matrix.transpose_mul, Matrix.transpose_transpose, Matrix.mul_assoc]
  · rw [← hL, Matrix.mul_assoc, ← Matrix.mul_assoc Linv, hinv, Matrix.one_mul, hT]

end LinOp.C07
