import LinOp.Core.Basic
/-
C07 — model of the hand-written derivative code (`_bilinear_derivative`) of the structured operator
classes, and of the dual-number semantics that *defines* the derivative (core Lean only).

* `Dual α` : the ring α[ε]/ε² as pairs; `denote o (θ + εδ)` has ε-part `D⟦o⟧_θ[δ]`.
* `Op n m` : deep embedding of the operator classes with hand-written derivative code; the index
  tensors / masks / block counts are constructor arguments, the floating tensors are `Param α o`
  (a product shaped like `representation()`).
* `denote`  : the dense matrix an operator denotes, polymorphic in the scalars (so it runs on `Dual α`).
* `bilinDeriv o θ U V` : mirrors `op._bilinear_derivative(U, V)`; the result is shaped like `θ`.
* `pair o g δ` : Σ_k g_k · δ_k over all floating parameters.

  Python class                         constructor
  DenseLinearOperator                  dense
  DiagLinearOperator                   diag
  ConstantDiagLinearOperator           constDiag
  ToeplitzLinearOperator               toeplitz       (sym_toeplitz_derivative_quadratic_form)
  ConstantMulLinearOperator            constMul
  MatmulLinearOperator                 matmul
  SumLinearOperator / AddedDiag…       sum
  MulLinearOperator                    mul            (non-root branch: to_dense of the other factor, eye)
  MaskedLinearOperator                 masked
  InterpolatedLinearOperator           interp
  BlockDiagLinearOperator              blockDiag      (base has an extra batch dimension = Fin k → Param)
  BlockInterleavedLinearOperator       blockInterleaved
  SumBatchLinearOperator               sumBatch
  BatchRepeatLinearOperator            `batchRepeatDeriv` (repeat batches moved to columns)

Classes WITHOUT hand-written derivative code inherit `LinearOperator._bilinear_derivative` = reverse-mode differentiation of
their own `_matmul`.  They are modelled by the reverse sweep through that `_matmul`: every use of a sub-operator contributes
the sub-operator's derivative with (upstream gradient, input) as vector pair, contributions to the same tensors are ADDED (`addP`):
  RootLinearOperator / LowRankRoot / Chol      root           (`root._matmul(root._t_matmul(rhs))`: two uses of the root)
  MulLinearOperator (root branch, the live one) mulRoot        (hand-written: Hadamard-scaled `rank·d` columns fed to the Root factors)
  KroneckerProductLinearOperator               kron           (binary; P factors = right-nested: the loop of `_matmul` is this recursion)
  CatLinearOperator (dim −2 / −1)              catRows / catCols
  `op.mT` (class-wise `_transpose_nonbatch`)   transpose      (gradient pulled back to the untransposed tensors)
  TriangularLinearOperator                     dense          (its tensor is the representation; the tril/triu mask is outside)
  LowRankRootAddedDiag, KroneckerProductAddedDiag, SumKronecker, PsdSum : `sum` (they inherit Sum's hand-written derivative)
-/
namespace LinOp.C07
open LinOp

/-! ### Dual numbers -/

structure Dual (α : Type) where
  re : α
  eps : α
deriving Repr, DecidableEq

namespace Dual
variable {α : Type}
instance [Zero α] : Zero (Dual α) := ⟨⟨0, 0⟩⟩
instance [Add α] : Add (Dual α) := ⟨fun a b => ⟨a.re + b.re, a.eps + b.eps⟩⟩
instance [Sub α] : Sub (Dual α) := ⟨fun a b => ⟨a.re - b.re, a.eps - b.eps⟩⟩
instance [Add α] [Mul α] : Mul (Dual α) := ⟨fun a b => ⟨a.re * b.re, a.re * b.eps + a.eps * b.re⟩⟩
/-- `θ + ε δ`. -/
def mk' (a d : α) : Dual α := ⟨a, d⟩
/-- A constant (no ε part). -/
def const [Zero α] (a : α) : Dual α := ⟨a, 0⟩
end Dual

/-! ### Memoisation that survives the compiler
`LinOp.tab` returns a FUNCTION; the compiler eta-expands function-valued definitions, so the table is rebuilt on every
access.  Here the table is a DATA value (`memoV`, bound by `let` inside a function whose result is data) and `getV` reads it. -/

@[noinline] def memoV {α : Type} {n m : Nat} (f : Fin n → Fin m → α) : Vector (Vector α m) n :=
  Vector.ofFn fun i => Vector.ofFn (f i)

def getV {α : Type} {n m : Nat} (v : Vector (Vector α m) n) : Mat α n m := fun i j => (v[i.1]'i.2)[j.1]'j.2

@[simp] theorem getV_memoV {α : Type} {n m : Nat} (f : Fin n → Fin m → α) : getV (memoV f) = f := by
  funext i j; simp [getV, memoV]

/-- Matrix product as a plain index function (no table). -/
def mmul {α : Type} [Add α] [Mul α] [Zero α] {n k m : Nat} (A : Mat α n k) (B : Mat α k m) : Mat α n m :=
  fun i j => sumFin k fun l => A i l * B l j

/-! ### Index helpers -/

/-- `|i − j|` as an index (Toeplitz lookup). -/
def absDiff {n : Nat} (i j : Fin n) : Fin n :=
  ⟨if i.1 ≤ j.1 then j.1 - i.1 else i.1 - j.1, by have := i.2; have := j.2; split <;> omega⟩

theorem pos_of_fin_mul_right {k n : Nat} (i : Fin (k * n)) : 0 < n :=
  Nat.pos_of_ne_zero (by intro h; have := i.2; simp [h] at this)

theorem pos_of_fin_mul_left {k n : Nat} (i : Fin (k * n)) : 0 < k :=
  Nat.pos_of_ne_zero (by intro h; have := i.2; simp [h] at this)

/-- outer index of a row-major pair index `i = a * n + b`. -/
def outerIdx {k n : Nat} (i : Fin (k * n)) : Fin k :=
  ⟨i.1 / n, (Nat.div_lt_iff_lt_mul (pos_of_fin_mul_right i)).2 i.2⟩

/-- inner index of a row-major pair index `i = a * n + b`. -/
def innerIdx {k n : Nat} (i : Fin (k * n)) : Fin n :=
  ⟨i.1 % n, Nat.mod_lt _ (pos_of_fin_mul_right i)⟩

/-- the pair index `a * n + b`. -/
def pairIdx {k n : Nat} (a : Fin k) (b : Fin n) : Fin (k * n) :=
  ⟨a.1 * n + b.1, by
    have h1 := a.2; have h2 := b.2
    calc a.1 * n + b.1 < a.1 * n + n := by omega
      _ = (a.1 + 1) * n := by rw [Nat.add_mul, Nat.one_mul]
      _ ≤ k * n := Nat.mul_le_mul_right n h1⟩

/-! ### Operators -/

inductive Op : Nat → Nat → Type where
  | dense (n m : Nat) : Op n m
  | diag (n : Nat) : Op n n
  | constDiag (n : Nat) : Op n n
  | toeplitz (n : Nat) : Op n n
  | constMul {n m : Nat} (o : Op n m) : Op n m
  | matmul {n k m : Nat} (a : Op n k) (b : Op k m) : Op n m
  | sum {n m : Nat} (a b : Op n m) : Op n m
  | mul {n : Nat} (a b : Op n n) : Op n n
  | masked {n m r s : Nat} (rows : Fin r → Fin n) (cols : Fin s → Fin m) (o : Op n m) : Op r s
  | interp {n m r s : Nat} (ql qr : Nat) (li : Fin r → Fin ql → Fin n) (ri : Fin s → Fin qr → Fin m)
      (o : Op n m) : Op r s
  | blockDiag {n m : Nat} (k : Nat) (o : Op n m) : Op (k * n) (k * m)
  | blockInterleaved {n m : Nat} (k : Nat) (o : Op n m) : Op (n * k) (m * k)
  | sumBatch {n m : Nat} (k : Nat) (o : Op n m) : Op n m
  | transpose {n m : Nat} (o : Op n m) : Op m n
  | root {n k : Nat} (o : Op n k) : Op n n
  | mulRoot {n k₁ k₂ : Nat} (a : Op n k₁) (b : Op n k₂) : Op n n
  | kron {n₁ m₁ n₂ m₂ : Nat} (a : Op n₁ m₁) (b : Op n₂ m₂) : Op (n₁ * n₂) (m₁ * m₂)
  | catRows {n₁ n₂ m : Nat} (a : Op n₁ m) (b : Op n₂ m) : Op (n₁ + n₂) m
  | catCols {n m₁ m₂ : Nat} (a : Op n m₁) (b : Op n m₂) : Op n (m₁ + m₂)

/-- The floating tensors defining an operator, shaped like `representation()`. -/
@[reducible] def Param (α : Type) : {n m : Nat} → Op n m → Type
  | _, _, .dense n m => Mat α n m
  | _, _, .diag n => Fin n → α
  | _, _, .constDiag _ => α
  | _, _, .toeplitz n => Fin n → α
  | _, _, .constMul o => Param α o × α
  | _, _, .matmul a b => Param α a × Param α b
  | _, _, .sum a b => Param α a × Param α b
  | _, _, .mul a b => Param α a × Param α b
  | _, _, .masked _ _ o => Param α o
  | _, _, @Op.interp _ _ r s ql qr _ _ o => Param α o × (Mat α r ql × Mat α s qr)
  | _, _, .blockDiag k o => Fin k → Param α o
  | _, _, .blockInterleaved k o => Fin k → Param α o
  | _, _, .sumBatch k o => Fin k → Param α o
  | _, _, .transpose o => Param α o
  | _, _, .root o => Param α o
  | _, _, .mulRoot a b => Param α a × Param α b
  | _, _, .kron a b => Param α a × Param α b
  | _, _, .catRows a b => Param α a × Param α b
  | _, _, .catCols a b => Param α a × Param α b

section Denote
variable {α : Type} [Add α] [Mul α] [Zero α]

/-- The dense matrix denoted by the operator with parameters `θ`. -/
def denote : {n m : Nat} → (o : Op n m) → Param α o → Mat α n m
  | _, _, .dense _ _, θ => θ
  | _, _, .diag _, θ => fun i j => if i = j then θ i else 0
  | _, _, .constDiag _, θ => fun i j => if i = j then θ else 0
  | _, _, .toeplitz _, θ => fun i j => θ (absDiff i j)
  | _, _, .constMul o, θ => fun i j => denote o θ.1 i j * θ.2
  | _, _, .matmul a b, θ => mmul (denote a θ.1) (denote b θ.2)
  | _, _, .sum a b, θ => fun i j => denote a θ.1 i j + denote b θ.2 i j
  | _, _, .mul a b, θ => fun i j => denote a θ.1 i j * denote b θ.2 i j
  | _, _, .masked rows cols o, θ => fun i j => denote o θ (rows i) (cols j)
  | _, _, .interp ql qr li ri o, θ => fun i j =>
      sumFin ql fun a => sumFin qr fun b => θ.2.1 i a * denote o θ.1 (li i a) (ri j b) * θ.2.2 j b
  | _, _, .blockDiag _ o, θ => fun i j =>
      if (outerIdx i).1 = (outerIdx j).1 then denote o (θ (outerIdx i)) (innerIdx i) (innerIdx j) else 0
  | _, _, @Op.blockInterleaved n m k o, θ => fun i j =>
      -- row index i = r * k + b : block = inner index, within-block row = outer index
      if (innerIdx i).1 = (innerIdx j).1 then denote o (θ (innerIdx i)) (outerIdx i) (outerIdx j) else 0
  | _, _, .sumBatch k o, θ => fun i j => sumFin k fun b => denote o (θ b) i j
  | _, _, .transpose o, θ => fun i j => denote o θ j i
  | _, _, @Op.root _ k o, θ => fun i j => sumFin k fun l => denote o θ i l * denote o θ j l
  | _, _, @Op.mulRoot _ k₁ k₂ a b, θ => fun i j =>
      (sumFin k₁ fun l => denote a θ.1 i l * denote a θ.1 j l) * (sumFin k₂ fun l => denote b θ.2 i l * denote b θ.2 j l)
  | _, _, .kron a b, θ => fun i j => denote a θ.1 (outerIdx i) (outerIdx j) * denote b θ.2 (innerIdx i) (innerIdx j)
  | _, _, .catRows a b, θ => fun i j => Fin.addCases (fun i₁ => denote a θ.1 i₁ j) (fun i₂ => denote b θ.2 i₂ j) i
  | _, _, .catCols a b, θ => fun i j => Fin.addCases (fun j₁ => denote a θ.1 i j₁) (fun j₂ => denote b θ.2 i j₂) j

/-- Σ_k g_k δ_k over all floating parameters. -/
def pair : {n m : Nat} → (o : Op n m) → Param α o → Param α o → α
  | _, _, .dense n m, g, δ => sumFin n fun i => sumFin m fun j => g i j * δ i j
  | _, _, .diag n, g, δ => sumFin n fun i => g i * δ i
  | _, _, .constDiag _, g, δ => (show α from g) * (show α from δ)
  | _, _, .toeplitz n, g, δ => sumFin n fun i => g i * δ i
  | _, _, .constMul o, g, δ => pair o g.1 δ.1 + g.2 * δ.2
  | _, _, .matmul a b, g, δ => pair a g.1 δ.1 + pair b g.2 δ.2
  | _, _, .sum a b, g, δ => pair a g.1 δ.1 + pair b g.2 δ.2
  | _, _, .mul a b, g, δ => pair a g.1 δ.1 + pair b g.2 δ.2
  | _, _, .masked _ _ o, g, δ => pair o g δ
  | _, _, @Op.interp _ _ r s ql qr _ _ o, g, δ =>
      pair o g.1 δ.1 + ((sumFin r fun i => sumFin ql fun a => g.2.1 i a * δ.2.1 i a)
        + (sumFin s fun j => sumFin qr fun b => g.2.2 j b * δ.2.2 j b))
  | _, _, .blockDiag k o, g, δ => sumFin k fun b => pair o (g b) (δ b)
  | _, _, .blockInterleaved k o, g, δ => sumFin k fun b => pair o (g b) (δ b)
  | _, _, .sumBatch k o, g, δ => sumFin k fun b => pair o (g b) (δ b)
  | _, _, .transpose o, g, δ => pair o g δ
  | _, _, .root o, g, δ => pair o g δ
  | _, _, .mulRoot a b, g, δ => pair a g.1 δ.1 + pair b g.2 δ.2
  | _, _, .kron a b, g, δ => pair a g.1 δ.1 + pair b g.2 δ.2
  | _, _, .catRows a b, g, δ => pair a g.1 δ.1 + pair b g.2 δ.2
  | _, _, .catCols a b, g, δ => pair a g.1 δ.1 + pair b g.2 δ.2

end Denote

/-- Entrywise sum of two gradient tuples: reverse-mode accumulation when the same tensors are used twice. -/
def addP {α : Type} [Add α] : {n m : Nat} → (o : Op n m) → Param α o → Param α o → Param α o
  | _, _, .dense _ _, g, h => fun i j => g i j + h i j
  | _, _, .diag _, g, h => fun i => g i + h i
  | _, _, .constDiag _, g, h => ((show α from g) + (show α from h) : α)
  | _, _, .toeplitz _, g, h => fun i => g i + h i
  | _, _, .constMul o, g, h => (addP o g.1 h.1, g.2 + h.2)
  | _, _, .matmul a b, g, h => (addP a g.1 h.1, addP b g.2 h.2)
  | _, _, .sum a b, g, h => (addP a g.1 h.1, addP b g.2 h.2)
  | _, _, .mul a b, g, h => (addP a g.1 h.1, addP b g.2 h.2)
  | _, _, .masked _ _ o, g, h => addP o g h
  | _, _, .interp _ _ _ _ o, g, h =>
      (addP o g.1 h.1, (fun i a => g.2.1 i a + h.2.1 i a, fun j b => g.2.2 j b + h.2.2 j b))
  | _, _, .blockDiag _ o, g, h => fun b => addP o (g b) (h b)
  | _, _, .blockInterleaved _ o, g, h => fun b => addP o (g b) (h b)
  | _, _, .sumBatch _ o, g, h => fun b => addP o (g b) (h b)
  | _, _, .transpose o, g, h => addP o g h
  | _, _, .root o, g, h => addP o g h
  | _, _, .mulRoot a b, g, h => (addP a g.1 h.1, addP b g.2 h.2)
  | _, _, .kron a b, g, h => (addP a g.1 h.1, addP b g.2 h.2)
  | _, _, .catRows a b, g, h => (addP a g.1 h.1, addP b g.2 h.2)
  | _, _, .catCols a b, g, h => (addP a g.1 h.1, addP b g.2 h.2)

/-- `θ + ε δ`, parameter-wise. -/
def mkDual {α : Type} : {n m : Nat} → (o : Op n m) → Param α o → Param α o → Param (Dual α) o
  | _, _, .dense _ _, θ, δ => fun i j => ⟨θ i j, δ i j⟩
  | _, _, .diag _, θ, δ => fun i => ⟨θ i, δ i⟩
  | _, _, .constDiag _, θ, δ => ⟨θ, δ⟩
  | _, _, .toeplitz _, θ, δ => fun i => ⟨θ i, δ i⟩
  | _, _, .constMul o, θ, δ => (mkDual o θ.1 δ.1, ⟨θ.2, δ.2⟩)
  | _, _, .matmul a b, θ, δ => (mkDual a θ.1 δ.1, mkDual b θ.2 δ.2)
  | _, _, .sum a b, θ, δ => (mkDual a θ.1 δ.1, mkDual b θ.2 δ.2)
  | _, _, .mul a b, θ, δ => (mkDual a θ.1 δ.1, mkDual b θ.2 δ.2)
  | _, _, .masked _ _ o, θ, δ => mkDual o θ δ
  | _, _, .interp _ _ _ _ o, θ, δ =>
      (mkDual o θ.1 δ.1, (fun i a => ⟨θ.2.1 i a, δ.2.1 i a⟩, fun j b => ⟨θ.2.2 j b, δ.2.2 j b⟩))
  | _, _, .blockDiag _ o, θ, δ => fun b => mkDual o (θ b) (δ b)
  | _, _, .blockInterleaved _ o, θ, δ => fun b => mkDual o (θ b) (δ b)
  | _, _, .sumBatch _ o, θ, δ => fun b => mkDual o (θ b) (δ b)
  | _, _, .transpose o, θ, δ => mkDual o θ δ
  | _, _, .root o, θ, δ => mkDual o θ δ
  | _, _, .mulRoot a b, θ, δ => (mkDual a θ.1 δ.1, mkDual b θ.2 δ.2)
  | _, _, .kron a b, θ, δ => (mkDual a θ.1 δ.1, mkDual b θ.2 δ.2)
  | _, _, .catRows a b, θ, δ => (mkDual a θ.1 δ.1, mkDual b θ.2 δ.2)
  | _, _, .catCols a b, θ, δ => (mkDual a θ.1 δ.1, mkDual b θ.2 δ.2)

/-- The directional derivative of the dense matrix, *defined* by dual numbers:
`⟦o⟧(θ + εδ) = ⟦o⟧θ + ε · dDenote o θ δ`. -/
def dDenote {α : Type} [Add α] [Mul α] [Zero α] {n m : Nat} (o : Op n m) (θ δ : Param α o) : Mat α n m :=
  fun i j => (denote o (mkDual o θ δ) i j).eps

section Deriv
variable {α : Type} [Add α] [Mul α] [Zero α] [Sub α] [One α]

/-- `sym_toeplitz_derivative_quadratic_form(U, V)`: per column the upper-triangular Toeplitz product
`Σ_{j ≥ k} u[j-k] v[j]`, the flipped one `Σ_{j+k<n} u[j+k] v[j]`, and `res[0] -= Σ u_j v_j`. -/
def toeplitzQF {n d : Nat} (U V : Mat α n d) : Fin n → α :=
  fun k =>
    (sumFin d fun c =>
      (sumFin n fun j => if h : k.1 ≤ j.1 then U ⟨j.1 - k.1, by have := j.2; omega⟩ c * V j c else 0)
      + (sumFin n fun j => if h : j.1 + k.1 < n then U ⟨j.1 + k.1, h⟩ c * V j c else 0))
    - (if k.1 = 0 then sumFin d fun c => sumFin n fun j => U j c * V j c else 0)

/-- `MaskedLinearOperator._expand`: zeros, then the rows named by the mask receive the tensor. -/
def expandRows {n r d : Nat} (rows : Fin r → Fin n) (U : Mat α r d) : Mat α n d :=
  fun i c => sumFin r fun q => if rows q = i then U q c else 0

/-- `bdsmm(W_t, U)` for the interpolation matrix `W[i, idx i a] += val i a`: `(Wᵀ U)[p, c]`. -/
def interpT {n r q d : Nat} (idx : Fin r → Fin q → Fin n) (val : Mat α r q) (U : Mat α r d) : Mat α n d :=
  fun p c => sumFin r fun i => sumFin q fun a => if idx i a = p then val i a * U i c else 0

/-- Reverse sweep through `RootLinearOperator._matmul` = `root._matmul(root._t_matmul(rhs))` for the loss `Σ U ⊙ (R Rᵀ V)`:
the outer use of the root sees (upstream `U`, input `Rᵀ V`), the inner (transposed) use sees (`V`, `Rᵀ U`); `bd` is the
root operator's own derivative; the two contributions to the same tensors are added. -/
def rootDerivWith {n k d : Nat} (o : Op n k) (R : Mat α n k) (bd : Mat α n d → Mat α k d → Param α o)
    (U V : Mat α n d) : Param α o :=
  let Rt := memoV (Mat.transpose R)
  let RtV := memoV (mmul (getV Rt) V)
  let RtU := memoV (mmul (getV Rt) U)
  addP o (bd U (getV RtV)) (bd V (getV RtU))

/-- Mirrors `op._bilinear_derivative(U, V)`; `d` = number of vector pairs. -/
def bilinDeriv : {n m : Nat} → (o : Op n m) → Param α o → {d : Nat} → Mat α n d → Mat α m d → Param α o
  | _, _, .dense _ _, _, d, U, V => fun i j => sumFin d fun c => U i c * V j c
  | _, _, .diag _, _, d, U, V => fun i => sumFin d fun c => U i c * V i c
  | _, _, .constDiag n, _, d, U, V => (sumFin n fun i => sumFin d fun c => U i c * V i c : α)
  | _, _, .toeplitz _, _, _, U, V => toeplitzQF U V
  | _, _, @Op.constMul n _ o, θ, d, U, V =>
      let BV := memoV (mmul (denote o θ.1) V)
      (bilinDeriv o θ.1 (fun i c => U i c * θ.2) V,
       sumFin n fun i => sumFin d fun c => U i c * getV BV i c)
  | _, _, .matmul a b, θ, _, U, V =>
      let BV := memoV (mmul (denote b θ.2) V)
      let AtU := memoV (mmul (Mat.transpose (denote a θ.1)) U)
      (bilinDeriv a θ.1 U (getV BV), bilinDeriv b θ.2 (getV AtU) V)
  | _, _, .sum a b, θ, _, U, V => (bilinDeriv a θ.1 U V, bilinDeriv b θ.2 U V)
  | _, _, @Op.mul n a b, θ, d, U, V =>
      let A := memoV (denote a θ.1)
      let B := memoV (denote b θ.2)
      -- factors viewed as n × (rank * d), rank = n, column index = r * d + c
      let eye : Mat α n n := fun i j => if i = j then 1 else 0
      (bilinDeriv a θ.1 (d := n * d) (fun i c => U i (innerIdx c) * getV B i (outerIdx c))
                                      (fun j c => V j (innerIdx c) * eye j (outerIdx c)),
       bilinDeriv b θ.2 (d := n * d) (fun i c => U i (innerIdx c) * getV A i (outerIdx c))
                                      (fun j c => V j (innerIdx c) * eye j (outerIdx c)))
  | _, _, .masked rows cols o, θ, _, U, V =>
      let EU := memoV (expandRows rows U)
      let EV := memoV (expandRows cols V)
      bilinDeriv o θ (getV EU) (getV EV)
  | _, _, @Op.interp _ _ r s ql qr li ri o, θ, d, U, V =>
      let leftRes := memoV (interpT li θ.2.1 U)
      let rightRes := memoV (interpT ri θ.2.2 V)
      let KR := memoV (mmul (denote o θ.1) (getV rightRes))
      let KtL := memoV (mmul (Mat.transpose (denote o θ.1)) (getV leftRes))
      (bilinDeriv o θ.1 (getV leftRes) (getV rightRes),
       (fun i a => sumFin d fun c => getV KR (li i a) c * U i c,
        fun j b => sumFin d fun c => getV KtL (ri j b) c * V j c))
  | _, _, .blockDiag _ o, θ, _, U, V => fun b =>
      bilinDeriv o (θ b) (fun i c => U (pairIdx b i) c) (fun j c => V (pairIdx b j) c)
  | _, _, .blockInterleaved _ o, θ, _, U, V => fun b =>
      bilinDeriv o (θ b) (fun i c => U (pairIdx i b) c) (fun j c => V (pairIdx j b) c)
  | _, _, .sumBatch _ o, θ, _, U, V => fun b => bilinDeriv o (θ b) U V
  -- `op.mT`: uᵀ Aᵀ v = vᵀ A u
  | _, _, .transpose o, θ, _, U, V => bilinDeriv o θ V U
  -- Root / LowRankRoot / Chol: default derivative = reverse sweep through `root._matmul(root._t_matmul(rhs))`
  | _, _, .root o, θ, _, U, V => rootDerivWith o (denote o θ) (fun X Y => bilinDeriv o θ X Y) U V
  -- Mul, root branch (hand-written): factors `U[:,c]·R_other[:,r]`, `V[:,c]·R_other[:,r]` (column r·d + c) go to the Root factors
  | _, _, @Op.mulRoot _ k₁ k₂ a b, θ, d, U, V =>
      let A := memoV (denote a θ.1)
      let B := memoV (denote b θ.2)
      (rootDerivWith (d := k₂ * d) a (denote a θ.1) (fun X Y => bilinDeriv a θ.1 X Y)
          (fun i c => U i (innerIdx c) * getV B i (outerIdx c)) (fun j c => V j (innerIdx c) * getV B j (outerIdx c)),
       rootDerivWith (d := k₁ * d) b (denote b θ.2) (fun X Y => bilinDeriv b θ.2 X Y)
          (fun i c => U i (innerIdx c) * getV A i (outerIdx c)) (fun j c => V j (innerIdx c) * getV A j (outerIdx c)))
  -- Kronecker: reverse sweep through the loop of `_matmul(linear_ops, kp_shape, rhs)` (view, factor._matmul, transpose(-3,-2), reshape)
  | _, _, @Op.kron n₁ m₁ n₂ m₂ a b, θ, d, U, V =>
      let A := memoV (denote a θ.1)
      let B := memoV (denote b θ.2)
      -- rhs viewed as m₁ × (m₂·d)
      let Vr : Mat α m₁ (m₂ * d) := fun j₁ c => V (pairIdx j₁ (outerIdx c)) (innerIdx c)
      -- first factor applied: n₁ × (m₂·d)
      let T1 := memoV (mmul (getV A) Vr)
      -- transposed and viewed as m₂ × (n₁·d): the input of the second factor
      let W2 : Mat α m₂ (n₁ * d) := fun j₂ c => getV T1 (outerIdx c) (pairIdx j₂ (innerIdx c))
      -- upstream gradient of the second factor's output: n₂ × (n₁·d)
      let U2 : Mat α n₂ (n₁ * d) := fun i₂ c => U (pairIdx (outerIdx c) i₂) (innerIdx c)
      -- upstream gradient of the first factor's output: Bᵀ U2, transposed back to n₁ × (m₂·d)
      let BtU2 := memoV (mmul (Mat.transpose (getV B)) U2)
      let G1 : Mat α n₁ (m₂ * d) := fun i₁ c => getV BtU2 (outerIdx c) (pairIdx i₁ (innerIdx c))
      (bilinDeriv a θ.1 (d := m₂ * d) G1 Vr, bilinDeriv b θ.2 (d := n₁ * d) U2 W2)
  -- Cat along rows: `torch.cat([t._matmul(rhs) …], -2)`; along columns: `Σ t._matmul(rhs[rows of t])`
  | _, _, @Op.catRows n₁ n₂ _ a b, θ, _, U, V =>
      (bilinDeriv a θ.1 (fun i c => U (Fin.castAdd n₂ i) c) V, bilinDeriv b θ.2 (fun i c => U (Fin.natAdd n₁ i) c) V)
  | _, _, @Op.catCols _ m₁ m₂ a b, θ, _, U, V =>
      (bilinDeriv a θ.1 U (fun j c => V (Fin.castAdd m₂ j) c), bilinDeriv b θ.2 U (fun j c => V (Fin.natAdd m₁ j) c))

/-- `BatchRepeatLinearOperator._bilinear_derivative` (square case): the `r` repeat batches of the
vectors are moved into the columns (column index = rep * d + c) and the base operator's derivative
is taken once. -/
def batchRepeatDeriv {n m : Nat} (o : Op n m) (θ : Param α o) {r d : Nat}
    (U : Fin r → Mat α n d) (V : Fin r → Mat α m d) : Param α o :=
  bilinDeriv o θ (d := r * d) (fun i c => U (outerIdx c) i (innerIdx c)) (fun j c => V (outerIdx c) j (innerIdx c))

/-- Gradient delivered to a BROADCAST parameter (any pattern): batch member `b` reads entry `π b` of the parameter
(`π` = the numpy broadcast restriction of the member index: size-1 and missing dimensions are dropped), and entry `k`
receives the sum over the members that read it.  This is what ConstantMul's reduction loops, Toeplitz's / Matmul's
`reshape(-1, …).sum(0)` and autograd's `sum_to_size` compute. -/
def bcastSum {B K : Nat} (π : Fin B → Fin K) (g : Fin B → α) : Fin K → α :=
  fun k => sumFin B fun b => if π b = k then g b else 0

/-- The bilinear form `Σ_c Σ_i Σ_j U[i,c] · A[i,j] · V[j,c]`. -/
def bil {n m d : Nat} (A : Mat α n m) (U : Mat α n d) (V : Mat α m d) : α :=
  sumFin d fun c => sumFin n fun i => sumFin m fun j => U i c * A i j * V j c

end Deriv

/-! ### Alignment of the gradient tuple with `representation()` -/

/-- Kind of a tensor in `representation()`. -/
inductive Slot | float | index | mask
deriving DecidableEq, Repr

/-- What the hand-written derivative returns in a position: a gradient, zeros (index tensors of
`InterpolatedLinearOperator`) or `None` (masks of `MaskedLinearOperator`). -/
inductive GSlot | grad | zeros | none
deriving DecidableEq, Repr

/-- `representation()` as a list of tensor kinds (depth-first, constructor-argument order). -/
def slots : {n m : Nat} → Op n m → List Slot
  | _, _, .dense _ _ => [.float]
  | _, _, .diag _ => [.float]
  | _, _, .constDiag _ => [.float]
  | _, _, .toeplitz _ => [.float]
  | _, _, .constMul o => slots o ++ [.float]
  | _, _, .matmul a b => slots a ++ slots b
  | _, _, .sum a b => slots a ++ slots b
  | _, _, .mul a b => slots a ++ slots b
  | _, _, .masked _ _ o => slots o ++ [.mask, .mask]
  | _, _, .interp _ _ _ _ o => slots o ++ [.index, .float, .index, .float]
  | _, _, .blockDiag _ o => slots o
  | _, _, .blockInterleaved _ o => slots o
  | _, _, .sumBatch _ o => slots o
  | _, _, .transpose o => slots o
  | _, _, .root o => slots o
  | _, _, .mulRoot a b => slots a ++ slots b
  | _, _, .kron a b => slots a ++ slots b
  | _, _, .catRows a b => slots a ++ slots b
  | _, _, .catCols a b => slots a ++ slots b

/-- The tuple returned by `_bilinear_derivative`, as kinds. -/
def gradSlots : {n m : Nat} → Op n m → List GSlot
  | _, _, .dense _ _ => [.grad]
  | _, _, .diag _ => [.grad]
  | _, _, .constDiag _ => [.grad]
  | _, _, .toeplitz _ => [.grad]
  | _, _, .constMul o => gradSlots o ++ [.grad]
  | _, _, .matmul a b => gradSlots a ++ gradSlots b
  | _, _, .sum a b => gradSlots a ++ gradSlots b
  | _, _, .mul a b => gradSlots a ++ gradSlots b
  | _, _, .masked _ _ o => gradSlots o ++ [.none, .none]
  | _, _, .interp _ _ _ _ o => gradSlots o ++ [.zeros, .grad, .zeros, .grad]
  | _, _, .blockDiag _ o => gradSlots o
  | _, _, .blockInterleaved _ o => gradSlots o
  | _, _, .sumBatch _ o => gradSlots o
  | _, _, .transpose o => gradSlots o
  | _, _, .root o => gradSlots o
  | _, _, .mulRoot a b => gradSlots a ++ gradSlots b
  | _, _, .kron a b => gradSlots a ++ gradSlots b
  | _, _, .catRows a b => gradSlots a ++ gradSlots b
  | _, _, .catCols a b => gradSlots a ++ gradSlots b

def slotMatches : Slot → GSlot → Bool
  | .float, .grad => true
  | .index, .zeros => true
  | .mask, .none => true
  | _, _ => false

end LinOp.C07
