import LinOp.C07.Model
/-
C07 — model of the parts of the autograd Functions' backward passes that sit around `_bilinear_derivative` (core Lean only):
* `hcat`   : `torch.cat([A, B], -1)` (column concatenation) — `Solve.backward` / `InvQuadLogdet.backward` feed the
             concatenated left / right factors ONCE to `_bilinear_derivative`;
* `flat` / `rebuild` : `representation()` as a flat list of scalars and `representation_tree()(*args)`: the operator is
             rebuilt from the saved tensors when `settings.memory_efficient` is on, kept as `ctx._linear_op` when it is off;
* `matmulBackward`, `solveBackwardArgs` : the backward values as functions of the context.
-/
namespace LinOp.C07
open LinOp

variable {α : Type}

/-- `torch.cat([A, B], -1)`. -/
def hcat {n d₁ d₂ : Nat} (A : Mat α n d₁) (B : Mat α n d₂) : Mat α n (d₁ + d₂) :=
  fun i c => if h : c.1 < d₁ then A i ⟨c.1, h⟩ else B i ⟨c.1 - d₁, by have := c.2; omega⟩

/-- `Solve.backward` / `InvQuadLogdet.backward` (symmetric case): `_bilinear_derivative(cat[L, R], cat[R, L] · (−½))`;
`half` is the scalar `½` (`half + half = 1`). -/
def symmetrisedDeriv [Add α] [Mul α] [Zero α] [Sub α] [One α] [Neg α] {n : Nat} (o : Op n n) (θ : Param α o) (half : α)
    {d : Nat} (L R : Mat α n d) : Param α o :=
  bilinDeriv o θ (hcat L R) (fun j c => hcat R L j c * (-half))

/-! ### representation() as a flat list and the rebuild -/

/-- read `k` items with the reader `rd` (missing items: `dflt`). -/
def takeN {β : Type} (rd : List α → β × List α) : (k : Nat) → List α → (Fin k → β) × List α
  | 0, l => (fun i => i.elim0, l)
  | k + 1, l =>
    let (x, l₁) := rd l
    let (f, l₂) := takeN rd k l₁
    (fun i => Fin.cases x f i, l₂)

/-- flatten `k` items with `fl`. -/
def flatN {β : Type} (fl : β → List α) : (k : Nat) → (Fin k → β) → List α
  | 0, _ => []
  | k + 1, f => fl (f 0) ++ flatN fl k (fun i => f i.succ)

def rdScalar [Zero α] : List α → α × List α
  | [] => (0, [])
  | x :: l => (x, l)

/-- The floating tensors of `representation()`, flattened row-major, depth-first in constructor-argument order. -/
def flat : {n m : Nat} → (o : Op n m) → Param α o → List α
  | _, _, .dense n m, θ => flatN (flatN (fun x => [x]) m) n θ
  | _, _, .diag n, θ => flatN (fun x => [x]) n θ
  | _, _, .constDiag _, θ => [(θ : α)]
  | _, _, .toeplitz n, θ => flatN (fun x => [x]) n θ
  | _, _, .constMul o, θ => flat o θ.1 ++ [(θ.2 : α)]
  | _, _, .matmul a b, θ => flat a θ.1 ++ flat b θ.2
  | _, _, .sum a b, θ => flat a θ.1 ++ flat b θ.2
  | _, _, .mul a b, θ => flat a θ.1 ++ flat b θ.2
  | _, _, .masked _ _ o, θ => flat o θ
  | _, _, @Op.interp _ _ r s ql qr _ _ o, θ =>
      flat o θ.1 ++ (flatN (flatN (fun x => [x]) ql) r θ.2.1 ++ flatN (flatN (fun x => [x]) qr) s θ.2.2)
  | _, _, .blockDiag k o, θ => flatN (flat o) k θ
  | _, _, .blockInterleaved k o, θ => flatN (flat o) k θ
  | _, _, .sumBatch k o, θ => flatN (flat o) k θ
  | _, _, .transpose o, θ => flat o θ
  | _, _, .root o, θ => flat o θ
  | _, _, .mulRoot a b, θ => flat a θ.1 ++ flat b θ.2
  | _, _, .kron a b, θ => flat a θ.1 ++ flat b θ.2
  | _, _, .catRows a b, θ => flat a θ.1 ++ flat b θ.2
  | _, _, .catCols a b, θ => flat a θ.1 ++ flat b θ.2

/-- `representation_tree()(*args)`: rebuild the parameters of the operator from the flat list (returns the unread rest). -/
def rebuild [Zero α] : {n m : Nat} → (o : Op n m) → List α → Param α o × List α
  | _, _, .dense n m, l => takeN (takeN rdScalar m) n l
  | _, _, .diag n, l => takeN rdScalar n l
  | _, _, .constDiag _, l => rdScalar l
  | _, _, .toeplitz n, l => takeN rdScalar n l
  | _, _, .constMul o, l => let (p, l₁) := rebuild o l; let (c, l₂) := rdScalar l₁; ((p, c), l₂)
  | _, _, .matmul a b, l => let (p, l₁) := rebuild a l; let (q, l₂) := rebuild b l₁; ((p, q), l₂)
  | _, _, .sum a b, l => let (p, l₁) := rebuild a l; let (q, l₂) := rebuild b l₁; ((p, q), l₂)
  | _, _, .mul a b, l => let (p, l₁) := rebuild a l; let (q, l₂) := rebuild b l₁; ((p, q), l₂)
  | _, _, .masked _ _ o, l => rebuild o l
  | _, _, @Op.interp _ _ r s ql qr _ _ o, l =>
      let (p, l₁) := rebuild o l
      let (lv, l₂) := takeN (takeN rdScalar ql) r l₁
      let (rv, l₃) := takeN (takeN rdScalar qr) s l₂
      ((p, (lv, rv)), l₃)
  | _, _, .blockDiag k o, l => takeN (rebuild o) k l
  | _, _, .blockInterleaved k o, l => takeN (rebuild o) k l
  | _, _, .sumBatch k o, l => takeN (rebuild o) k l
  | _, _, .transpose o, l => rebuild o l
  | _, _, .root o, l => rebuild o l
  | _, _, .mulRoot a b, l => let (p, l₁) := rebuild a l; let (q, l₂) := rebuild b l₁; ((p, q), l₂)
  | _, _, .kron a b, l => let (p, l₁) := rebuild a l; let (q, l₂) := rebuild b l₁; ((p, q), l₂)
  | _, _, .catRows a b, l => let (p, l₁) := rebuild a l; let (q, l₂) := rebuild b l₁; ((p, q), l₂)
  | _, _, .catCols a b, l => let (p, l₁) := rebuild a l; let (q, l₂) := rebuild b l₁; ((p, q), l₂)

/-! ### `Matmul.backward` with and without `settings.memory_efficient` -/

/-- What `Matmul.forward` leaves in the context: the saved tensors (`representation()`), and — only when
`memory_efficient` is OFF — the operator object itself (`ctx._linear_op`). -/
structure MatmulCtx (α : Type) {n m : Nat} (o : Op n m) (c : Nat) where
  savedArgs : List α
  rhs : Mat α m c
  keptOp : Option (Param α o)

def matmulForwardCtx {n m c : Nat} (memoryEfficient : Bool) (o : Op n m) (θ : Param α o) (rhs : Mat α m c) : MatmulCtx α o c :=
  ⟨flat o θ, rhs, if memoryEfficient then none else some θ⟩

/-- `Matmul.backward`: the parameter gradients always come from the REBUILT operator; the rhs gradient
`linear_op._t_matmul(grad_output)` comes from `ctx._linear_op` if present, else from the rebuilt operator. -/
def matmulBackward [Add α] [Mul α] [Zero α] [Sub α] [One α] {n m c : Nat} (o : Op n m) (ctx : MatmulCtx α o c) (G : Mat α n c) :
    Param α o × Mat α m c :=
  let rebuilt := (rebuild o ctx.savedArgs).1
  let op := match ctx.keptOp with | some p => p | none => rebuilt
  (bilinDeriv o rebuilt G ctx.rhs, mmul (Mat.transpose (denote o op)) G)

/-! ### `Solve.backward` / `InvQuad.backward` with and without `settings.memory_efficient` -/

/-- Context of `Solve.forward`: saved tensors, the saved solves `A⁻¹ B`, and `ctx._linear_op` when memory_efficient is off. -/
structure SolveCtx (α : Type) {n : Nat} (o : Op n n) (c : Nat) where
  savedArgs : List α
  solves : Mat α n c
  keptOp : Option (Param α o)

def solveForwardCtx {n c : Nat} (memoryEfficient : Bool) (o : Op n n) (θ : Param α o) (solves : Mat α n c) : SolveCtx α o c :=
  ⟨flat o θ, solves, if memoryEfficient then none else some θ⟩

/-- Parameter gradients of `Solve.backward`: `linear_op._bilinear_derivative(cat[Ls, X], −½ cat[X, Ls])` where `linear_op`
is `ctx._linear_op` if present, else rebuilt; `Ls = A⁻¹ grad_output` is recomputed by a second `Solve`, `X` are the SAVED solves. -/
def solveBackwardArgs [Add α] [Mul α] [Zero α] [Sub α] [One α] [Neg α] {n c : Nat} (o : Op n n) (ctx : SolveCtx α o c) (half : α)
    (leftSolves : Mat α n c) : Param α o :=
  let op := match ctx.keptOp with | some p => p | none => (rebuild o ctx.savedArgs).1
  symmetrisedDeriv o op half leftSolves ctx.solves

end LinOp.C07
