import LinOp.C07.ProofsRoot
/-!
C07 — the structural induction over every constructor except the Toeplitz leaf (whose step lemma is a hypothesis).
-/
namespace LinOp.C07
open LinOp

variable {α : Type} [CommRing α]

/-- The Toeplitz leaf statement (the only step not closed): for every size. -/
def ToeplitzOK (α : Type) [CommRing α] : Prop := ∀ n : Nat, ReOK α (.toeplitz n) ∧ Correct α (.toeplitz n)

theorem reOK_toeplitz (n : Nat) : ReOK α (.toeplitz n) := fun _ _ _ _ => rfl

/-- Operator trees without a Toeplitz leaf. -/
def toeplitzFree : {n m : Nat} → Op n m → Prop
  | _, _, .toeplitz _ => False
  | _, _, .dense _ _ => True
  | _, _, .diag _ => True
  | _, _, .constDiag _ => True
  | _, _, .constMul o => toeplitzFree o
  | _, _, .matmul a b => toeplitzFree a ∧ toeplitzFree b
  | _, _, .sum a b => toeplitzFree a ∧ toeplitzFree b
  | _, _, .mul a b => toeplitzFree a ∧ toeplitzFree b
  | _, _, .masked _ _ o => toeplitzFree o
  | _, _, .interp _ _ _ _ o => toeplitzFree o
  | _, _, .blockDiag _ o => toeplitzFree o
  | _, _, .blockInterleaved _ o => toeplitzFree o
  | _, _, .sumBatch _ o => toeplitzFree o
  | _, _, .transpose o => toeplitzFree o
  | _, _, .root o => toeplitzFree o
  | _, _, .mulRoot a b => toeplitzFree a ∧ toeplitzFree b
  | _, _, .kron a b => toeplitzFree a ∧ toeplitzFree b
  | _, _, .catRows a b => toeplitzFree a ∧ toeplitzFree b
  | _, _, .catCols a b => toeplitzFree a ∧ toeplitzFree b

/-- Structural induction over ALL constructors; the Toeplitz leaf is discharged either by `toeplitzFree` or by `ToeplitzOK`. -/
theorem all_correct {n m : Nat} (o : Op n m) (ht : toeplitzFree o ∨ (∀ k : Nat, Correct α (.toeplitz k))) :
    ReOK α o ∧ Correct α o := by
  induction o with
  | dense n m => exact ⟨reOK_dense n m, correct_dense n m⟩
  | diag n => exact ⟨reOK_diag n, correct_diag n⟩
  | constDiag n => exact ⟨reOK_constDiag n, correct_constDiag n⟩
  | toeplitz n =>
    rcases ht with h | h
    · exact absurd h (by simp [toeplitzFree])
    · exact ⟨reOK_toeplitz n, h n⟩
  | constMul o ih =>
    have := ih (ht.imp (by simp [toeplitzFree]) id)
    exact ⟨reOK_constMul o this.1, correct_constMul o this.1 this.2⟩
  | matmul a b iha ihb =>
    have ha := iha (ht.imp (fun h => by simp [toeplitzFree] at h; exact h.1) id)
    have hb := ihb (ht.imp (fun h => by simp [toeplitzFree] at h; exact h.2) id)
    exact ⟨reOK_matmul a b ha.1 hb.1, correct_matmul a b ha.1 hb.1 ha.2 hb.2⟩
  | sum a b iha ihb =>
    have ha := iha (ht.imp (fun h => by simp [toeplitzFree] at h; exact h.1) id)
    have hb := ihb (ht.imp (fun h => by simp [toeplitzFree] at h; exact h.2) id)
    exact ⟨reOK_sum a b ha.1 hb.1, correct_sum a b ha.2 hb.2⟩
  | mul a b iha ihb =>
    have ha := iha (ht.imp (fun h => by simp [toeplitzFree] at h; exact h.1) id)
    have hb := ihb (ht.imp (fun h => by simp [toeplitzFree] at h; exact h.2) id)
    exact ⟨reOK_mul a b ha.1 hb.1, correct_mul a b ha.1 hb.1 ha.2 hb.2⟩
  | masked rows cols o ih =>
    have := ih (ht.imp (by simp [toeplitzFree]) id)
    exact ⟨reOK_masked rows cols o this.1, correct_masked rows cols o this.2⟩
  | interp ql qr li ri o ih =>
    have := ih (ht.imp (by simp [toeplitzFree]) id)
    exact ⟨reOK_interp ql qr li ri o this.1, correct_interp ql qr li ri o this.1 this.2⟩
  | blockDiag k o ih =>
    have := ih (ht.imp (by simp [toeplitzFree]) id)
    exact ⟨reOK_blockDiag k o this.1, correct_blockDiag k o this.2⟩
  | blockInterleaved k o ih =>
    have := ih (ht.imp (by simp [toeplitzFree]) id)
    exact ⟨reOK_blockInterleaved k o this.1, correct_blockInterleaved k o this.2⟩
  | sumBatch k o ih =>
    have := ih (ht.imp (by simp [toeplitzFree]) id)
    exact ⟨reOK_sumBatch k o this.1, correct_sumBatch k o this.2⟩
  | transpose o ih =>
    have := ih (ht.imp (by simp [toeplitzFree]) id)
    exact ⟨reOK_transpose o this.1, correct_transpose o this.2⟩
  | root o ih =>
    have := ih (ht.imp (by simp [toeplitzFree]) id)
    exact ⟨reOK_root o this.1, correct_root o this.1 this.2⟩
  | mulRoot a b iha ihb =>
    have ha := iha (ht.imp (fun h => by simp [toeplitzFree] at h; exact h.1) id)
    have hb := ihb (ht.imp (fun h => by simp [toeplitzFree] at h; exact h.2) id)
    exact ⟨reOK_mulRoot a b ha.1 hb.1, correct_mulRoot a b ha.1 hb.1 ha.2 hb.2⟩
  | kron a b iha ihb =>
    have ha := iha (ht.imp (fun h => by simp [toeplitzFree] at h; exact h.1) id)
    have hb := ihb (ht.imp (fun h => by simp [toeplitzFree] at h; exact h.2) id)
    exact ⟨reOK_kron a b ha.1 hb.1, correct_kron a b ha.1 hb.1 ha.2 hb.2⟩
  | catRows a b iha ihb =>
    have ha := iha (ht.imp (fun h => by simp [toeplitzFree] at h; exact h.1) id)
    have hb := ihb (ht.imp (fun h => by simp [toeplitzFree] at h; exact h.2) id)
    exact ⟨reOK_catRows a b ha.1 hb.1, correct_catRows a b ha.2 hb.2⟩
  | catCols a b iha ihb =>
    have ha := iha (ht.imp (fun h => by simp [toeplitzFree] at h; exact h.1) id)
    have hb := ihb (ht.imp (fun h => by simp [toeplitzFree] at h; exact h.2) id)
    exact ⟨reOK_catCols a b ha.1 hb.1, correct_catCols a b ha.2 hb.2⟩

end LinOp.C07
