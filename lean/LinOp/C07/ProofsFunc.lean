import LinOp.C07.Proofs
import Mathlib.LinearAlgebra.Matrix.Charpoly.Coeff
/-!
C07 — backward formulas of the autograd Functions as first-order (dual-number) matrix identities.
-/
namespace LinOp.C07
open LinOp Matrix

variable {α : Type} [CommRing α]

/-- inv_quad: `q = tr(Xᵀ B)` with `A X = B`, `A` symmetric; first-order change under `(dA, dB)`. -/
theorem invQuad_first_order {n c : Nat} (A dA : Matrix (Fin n) (Fin n) α) (X dX B dB : Matrix (Fin n) (Fin c) α)
    (hs : Aᵀ = A) (h0 : A * X = B) (h1 : A * dX + dA * X = dB) :
    Matrix.trace (dXᵀ * B) + Matrix.trace (Xᵀ * dB)
      = Matrix.trace (Xᵀ * dB) + Matrix.trace (Xᵀ * dB) - bilS dA X X := by
  have hb : bilS dA X X = Matrix.trace (Xᵀ * dA * X) := rfl
  have hAdX : A * dX = dB - dA * X := by rw [← h1, add_sub_cancel_right]
  have e : Matrix.trace (dXᵀ * B) = Matrix.trace (Xᵀ * dB) - Matrix.trace (Xᵀ * dA * X) := by
    calc Matrix.trace (dXᵀ * B) = Matrix.trace (dXᵀ * (A * X)) := by rw [h0]
      _ = Matrix.trace ((A * dX)ᵀ * X) := by rw [Matrix.transpose_mul, hs, Matrix.mul_assoc]
      _ = Matrix.trace ((dB - dA * X)ᵀ * X) := by rw [hAdX]
      _ = Matrix.trace (dBᵀ * X) - Matrix.trace ((dA * X)ᵀ * X) := by
          rw [Matrix.transpose_sub, Matrix.sub_mul, Matrix.trace_sub]
      _ = Matrix.trace (Xᵀ * dB) - Matrix.trace (Xᵀ * dA * X) := by
          congr 1
          · rw [← Matrix.trace_transpose, Matrix.transpose_mul, Matrix.transpose_transpose]
          · rw [← Matrix.trace_transpose, Matrix.transpose_mul, Matrix.transpose_transpose, Matrix.mul_assoc]
  rw [e, hb]
  ring

/-- determinant in a ring with a square-zero element `e` (the dual numbers `K[ε]`, `e = ε`):
`det(A + e·dA) = det A · (1 + e · tr(A⁻¹ dA))`. -/
theorem det_add_eps_smul {n : Nat} {S : Type} [CommRing S] (e : S) (he : e * e = 0)
    (A Ainv dA : Matrix (Fin n) (Fin n) S) (hinv : A * Ainv = 1) :
    Matrix.det (A + e • dA) = Matrix.det A * (1 + e * Matrix.trace (Ainv * dA)) := by
  have hfac : A + e • dA = A * (1 + e • (Ainv * dA)) := by
    rw [Matrix.mul_add, Matrix.mul_one, Matrix.mul_smul, ← Matrix.mul_assoc, hinv, Matrix.one_mul]
  rw [hfac, Matrix.det_mul, Matrix.det_one_add_smul e (Ainv * dA)]
  have h2 : e ^ 2 = 0 := by rw [pow_two, he]
  rw [h2, mul_zero, add_zero, mul_comm (Matrix.trace (Ainv * dA)) e]

/-- Orthonormal probe set: `Σ_c z_cᵀ A⁻¹ dA z_c = tr(A⁻¹ dA)` when `Z Zᵀ = I` — the probe estimator of the
log-determinant gradient is exact for a complete orthonormal probe set. -/
theorem probe_estimator_exact {n : Nat} (Ainv dA Z : Matrix (Fin n) (Fin n) α) (hZ : Z * Zᵀ = 1) :
    Matrix.trace (Zᵀ * (Ainv * dA) * Z) = Matrix.trace (Ainv * dA) := by
  rw [Matrix.trace_mul_comm, ← Matrix.mul_assoc, hZ, Matrix.one_mul]

end LinOp.C07
