import LinOp.Core.Parse
import LinOp.C07.Model
import LinOp.C07.ModelFn
/-! Line-protocol driver for the C07 derivative model (exact rationals).

  bd   <d> <op…> <params> <U> <V>        → bilinDeriv o θ U V               (flat, parameter order)
  bdsym <d> <op…> <params> <L> <R>       → symmetrisedDeriv o θ ½ L R = bilinDeriv o θ [L|R] (−½[R|L])   (Solve.backward)
  brep <r> <d> <op…> <params> <U> <V>    → batchRepeatDeriv o θ U V         (U = r blocks of n×d, flat)
  den  <op…> <params>                    → denote o θ                        (flat, row-major)
  dden <op…> <params> <delta>            → dDenote o θ δ  (ε-part of ⟦o⟧(θ+εδ)), flat
  dbil <d> <op…> <params> <delta> <U> <V>→ `pair o (bilinDeriv o θ U V) δ` and `bil (dDenote o θ δ) U V`
  bsum <K> <pi> <g>                      → bcastSum π g  (gradient of a broadcast parameter: sum over the members reading an entry)
  slots <op…>                            → kinds of representation() / of the gradient tuple

Operator trees (prefix): dense n m | diag n | cdiag n | toep n | cmul O | mm A B | sum A B | mul A B |
  mask r s ROWS COLS O | interp r s ql qr LI RI O | bdiag k O | binter k O | sbatch k O |
  tr O | root O | mulroot RA RB (= Mul(Root RA, Root RB)) | kron A B | catr A B | catc A B
(ROWS/COLS comma lists of naturals, LI/RI matrices of naturals `a,b;c,d`).  Scalars travel as p/q. -/
open LinOp LinOp.C07 LinOp.Parse

abbrev AnyOp := (n : Nat) × (m : Nat) × Op n m

def natMat? (s : String) : Option (Array (Array Nat)) := do
  let rows ← (s.splitOn ";").mapM parseNats?
  pure (rows.map List.toArray).toArray

def castOp {n m n' m' : Nat} (h1 : n' = n) (h2 : m' = m) (o : Op n' m') : Op n m := by
  subst h1; subst h2; exact o

def parseOp : Nat → List String → Option (AnyOp × List String)
  | 0, _ => none
  | fuel + 1, toks =>
    match toks with
    | "dense" :: n :: m :: rest => do
        let n ← n.toNat?; let m ← m.toNat?
        pure (⟨n, m, .dense n m⟩, rest)
    | "diag" :: n :: rest => do let n ← n.toNat?; pure (⟨n, n, .diag n⟩, rest)
    | "cdiag" :: n :: rest => do let n ← n.toNat?; pure (⟨n, n, .constDiag n⟩, rest)
    | "toep" :: n :: rest => do let n ← n.toNat?; pure (⟨n, n, .toeplitz n⟩, rest)
    | "cmul" :: rest => do
        let (⟨n, m, o⟩, rest) ← parseOp fuel rest
        pure (⟨n, m, .constMul o⟩, rest)
    | "mm" :: rest => do
        let (⟨n, k, a⟩, rest) ← parseOp fuel rest
        let (⟨k', m, b⟩, rest) ← parseOp fuel rest
        if h : k' = k then pure (⟨n, m, .matmul a (castOp h rfl b)⟩, rest) else none
    | "sum" :: rest => do
        let (⟨n, m, a⟩, rest) ← parseOp fuel rest
        let (⟨n', m', b⟩, rest) ← parseOp fuel rest
        if h : n' = n ∧ m' = m then pure (⟨n, m, .sum a (castOp h.1 h.2 b)⟩, rest) else none
    | "mul" :: rest => do
        let (⟨n, m, a⟩, rest) ← parseOp fuel rest
        let (⟨n', m', b⟩, rest) ← parseOp fuel rest
        if h : m = n ∧ n' = n ∧ m' = n then
          pure (⟨n, n, .mul (castOp rfl h.1 a) (castOp h.2.1 h.2.2 b)⟩, rest) else none
    | "mask" :: r :: s :: rows :: cols :: rest => do
        let r ← r.toNat?; let s ← s.toNat?
        let rows ← parseNats? rows; let cols ← parseNats? cols
        let (⟨n, m, o⟩, rest) ← parseOp fuel rest
        if h : 0 < n ∧ 0 < m then
          let ra := rows.toArray; let ca := cols.toArray
          pure (⟨r, s, .masked (fun i : Fin r => ⟨ra[i.1]! % n, Nat.mod_lt _ h.1⟩)
                                (fun j : Fin s => ⟨ca[j.1]! % m, Nat.mod_lt _ h.2⟩) o⟩, rest)
        else none
    | "interp" :: r :: s :: ql :: qr :: li :: ri :: rest => do
        let r ← r.toNat?; let s ← s.toNat?; let ql ← ql.toNat?; let qr ← qr.toNat?
        let li ← natMat? li; let ri ← natMat? ri
        let (⟨n, m, o⟩, rest) ← parseOp fuel rest
        if h : 0 < n ∧ 0 < m then
          pure (⟨r, s, .interp ql qr (fun i a => ⟨(li[i.1]!)[a.1]! % n, Nat.mod_lt _ h.1⟩)
                                     (fun j b => ⟨(ri[j.1]!)[b.1]! % m, Nat.mod_lt _ h.2⟩) o⟩, rest)
        else none
    | "bdiag" :: k :: rest => do
        let k ← k.toNat?
        let (⟨n, m, o⟩, rest) ← parseOp fuel rest
        pure (⟨k * n, k * m, .blockDiag k o⟩, rest)
    | "binter" :: k :: rest => do
        let k ← k.toNat?
        let (⟨n, m, o⟩, rest) ← parseOp fuel rest
        pure (⟨n * k, m * k, .blockInterleaved k o⟩, rest)
    | "sbatch" :: k :: rest => do
        let k ← k.toNat?
        let (⟨n, m, o⟩, rest) ← parseOp fuel rest
        pure (⟨n, m, .sumBatch k o⟩, rest)
    | "tr" :: rest => do
        let (⟨n, m, o⟩, rest) ← parseOp fuel rest
        pure (⟨m, n, .transpose o⟩, rest)
    | "root" :: rest => do
        let (⟨n, _, o⟩, rest) ← parseOp fuel rest
        pure (⟨n, n, .root o⟩, rest)
    | "mulroot" :: rest => do
        let (⟨n, _, a⟩, rest) ← parseOp fuel rest
        let (⟨n', _, b⟩, rest) ← parseOp fuel rest
        if h : n' = n then pure (⟨n, n, .mulRoot a (castOp h rfl b)⟩, rest) else none
    | "kron" :: rest => do
        let (⟨n₁, m₁, a⟩, rest) ← parseOp fuel rest
        let (⟨n₂, m₂, b⟩, rest) ← parseOp fuel rest
        pure (⟨n₁ * n₂, m₁ * m₂, .kron a b⟩, rest)
    | "catr" :: rest => do
        let (⟨n₁, m, a⟩, rest) ← parseOp fuel rest
        let (⟨n₂, m', b⟩, rest) ← parseOp fuel rest
        if h : m' = m then pure (⟨n₁ + n₂, m, .catRows a (castOp rfl h b)⟩, rest) else none
    | "catc" :: rest => do
        let (⟨n, m₁, a⟩, rest) ← parseOp fuel rest
        let (⟨n', m₂, b⟩, rest) ← parseOp fuel rest
        if h : n' = n then pure (⟨n, m₁ + m₂, .catCols a (castOp h rfl b)⟩, rest) else none
    | _ => none

def zeroParam : {n m : Nat} → (o : Op n m) → Param Rat o
  | _, _, .dense _ _ => fun _ _ => 0
  | _, _, .diag _ => fun _ => 0
  | _, _, .constDiag _ => (0 : Rat)
  | _, _, .toeplitz _ => fun _ => 0
  | _, _, .constMul o => (zeroParam o, (0 : Rat))
  | _, _, .matmul a b => (zeroParam a, zeroParam b)
  | _, _, .sum a b => (zeroParam a, zeroParam b)
  | _, _, .mul a b => (zeroParam a, zeroParam b)
  | _, _, .masked _ _ o => zeroParam o
  | _, _, .interp _ _ _ _ o => (zeroParam o, (fun _ _ => 0, fun _ _ => 0))
  | _, _, .blockDiag _ o => fun _ => zeroParam o
  | _, _, .blockInterleaved _ o => fun _ => zeroParam o
  | _, _, .sumBatch _ o => fun _ => zeroParam o
  | _, _, .transpose o => zeroParam o
  | _, _, .root o => zeroParam o
  | _, _, .mulRoot a b => (zeroParam a, zeroParam b)
  | _, _, .kron a b => (zeroParam a, zeroParam b)
  | _, _, .catRows a b => (zeroParam a, zeroParam b)
  | _, _, .catCols a b => (zeroParam a, zeroParam b)

def takeVec (n : Nat) (l : List Rat) : (Fin n → Rat) × List Rat :=
  let a := (l.take n).toArray
  (fun i => a[i.1]!, l.drop n)

def takeMat (n m : Nat) (l : List Rat) : Mat Rat n m × List Rat :=
  let a := (l.take (n * m)).toArray
  (fun i j => a[i.1 * m + j.1]!, l.drop (n * m))

def readMany {β : Type} (rd : List Rat → β × List Rat) : Nat → List Rat → List β × List Rat
  | 0, l => ([], l)
  | k + 1, l => let (x, l) := rd l; let (xs, l) := readMany rd k l; (x :: xs, l)

/-- Read the floating parameters in `representation()` order: the model's `rebuild` (= `representation_tree()(*args)`). -/
def readP {n m : Nat} (o : Op n m) (l : List Rat) : Param Rat o × List Rat := rebuild o l

/-- The model's `flat` (= `representation()` flattened). -/
def flatP {n m : Nat} (o : Op n m) (p : Param Rat o) : List Rat := flat o p

def flatVec {n : Nat} (v : Fin n → Rat) : List Rat := (List.finRange n).map v
def flatMat {n m : Nat} (A : Mat Rat n m) : List Rat := (A.toLists).flatten

def showRats (l : List Rat) : String := showList showRat l

def showSlot : Slot → String | .float => "f" | .index => "i" | .mask => "m"
def showG : GSlot → String | .grad => "g" | .zeros => "z" | .none => "n"

def run (line : String) : String :=
  match words line with
  | "bd" :: d :: rest =>
    match d.toNat?, parseOp (rest.length + 1) rest with
    | some d, some (⟨n, m, o⟩, [ps, us, vs]) =>
      match parseRats? ps, parseRats? us, parseRats? vs with
      | some ps, some us, some vs =>
        if us.length ≠ n * d ∨ vs.length ≠ m * d then "bad-shape" else
        let (θ, left) := readP o ps
        if ¬ left.isEmpty then "bad-params" else
        let U := (takeMat n d us).1; let V := (takeMat m d vs).1
        showRats (flatP o (bilinDeriv o θ U V))
      | _, _, _ => "bad-op"
    | _, _ => "bad-op"
  | "bdsym" :: d :: rest =>
    match d.toNat?, parseOp (rest.length + 1) rest with
    | some d, some (⟨n, m, o⟩, [ps, us, vs]) =>
      match parseRats? ps, parseRats? us, parseRats? vs with
      | some ps, some us, some vs =>
        if h : m = n then
          if us.length ≠ n * d ∨ vs.length ≠ n * d then "bad-shape" else
          let o' : Op n n := castOp rfl h o
          let (θ, left) := readP o' ps
          if ¬ left.isEmpty then "bad-params" else
          let L := (takeMat n d us).1; let R := (takeMat n d vs).1
          showRats (flatP o' (symmetrisedDeriv o' θ (1 / 2 : Rat) L R))
        else "bad-shape"
      | _, _, _ => "bad-op"
    | _, _ => "bad-op"
  | "brep" :: r :: d :: rest =>
    match r.toNat?, d.toNat?, parseOp (rest.length + 1) rest with
    | some r, some d, some (⟨n, m, o⟩, [ps, us, vs]) =>
      match parseRats? ps, parseRats? us, parseRats? vs with
      | some ps, some us, some vs =>
        if us.length ≠ r * (n * d) ∨ vs.length ≠ r * (m * d) then "bad-shape" else
        let (θ, left) := readP o ps
        if ¬ left.isEmpty then "bad-params" else
        let ua := us.toArray; let va := vs.toArray
        let U : Fin r → Mat Rat n d := fun q i c => ua[q.1 * (n * d) + i.1 * d + c.1]!
        let V : Fin r → Mat Rat m d := fun q j c => va[q.1 * (m * d) + j.1 * d + c.1]!
        showRats (flatP o (batchRepeatDeriv o θ U V))
      | _, _, _ => "bad-op"
    | _, _, _ => "bad-op"
  | "den" :: rest =>
    match parseOp (rest.length + 1) rest with
    | some (⟨_, _, o⟩, [ps]) =>
      match parseRats? ps with
      | some ps => let (θ, left) := readP o ps
                   if ¬ left.isEmpty then "bad-params" else showRats (flatMat (denote o θ))
      | _ => "bad-op"
    | _ => "bad-op"
  | "dden" :: rest =>
    match parseOp (rest.length + 1) rest with
    | some (⟨_, _, o⟩, [ps, ds]) =>
      match parseRats? ps, parseRats? ds with
      | some ps, some ds =>
        let (θ, left) := readP o ps; let (δ, left2) := readP o ds
        if ¬ left.isEmpty ∨ ¬ left2.isEmpty then "bad-params" else showRats (flatMat (dDenote o θ δ))
      | _, _ => "bad-op"
    | _ => "bad-op"
  | "dbil" :: d :: rest =>
    match d.toNat?, parseOp (rest.length + 1) rest with
    | some d, some (⟨n, m, o⟩, [ps, ds, us, vs]) =>
      match parseRats? ps, parseRats? ds, parseRats? us, parseRats? vs with
      | some ps, some ds, some us, some vs =>
        if us.length ≠ n * d ∨ vs.length ≠ m * d then "bad-shape" else
        let (θ, left) := readP o ps; let (δ, left2) := readP o ds
        if ¬ left.isEmpty ∨ ¬ left2.isEmpty then "bad-params" else
        let U := (takeMat n d us).1; let V := (takeMat m d vs).1
        showRat (pair o (bilinDeriv o θ U V) δ) ++ " " ++ showRat (bil (dDenote o θ δ) U V)
      | _, _, _, _ => "bad-op"
    | _, _ => "bad-op"
  | ["bsum", k, pi, g] =>
    match k.toNat?, parseNats? pi, parseRats? g with
    | some k, some pi, some g =>
      if h : 0 < k then
        if pi.length ≠ g.length then "bad-shape" else
        let pa := pi.toArray; let ga := g.toArray
        showRats (flatVec (bcastSum (B := g.length) (K := k) (fun b => ⟨pa[b.1]! % k, Nat.mod_lt _ h⟩) (fun b => ga[b.1]!)))
      else "bad-op"
    | _, _, _ => "bad-op"
  | "slots" :: rest =>
    match parseOp (rest.length + 1) rest with
    | some (⟨_, _, o⟩, []) =>
      "".intercalate ((slots o).map showSlot) ++ " " ++ "".intercalate ((gradSlots o).map showG)
    | _ => "bad-op"
  | _ => "bad-op"

def main : IO Unit := do
  loop (← IO.getStdin) () (fun _ l => ((), run l))
