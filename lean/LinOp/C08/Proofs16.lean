/-
C08 — closed form of the tridiagonal matrix accumulated by consecutive `triStep`s (any history, any size).
-/
import LinOp.C08.Proofs10

set_option linter.unusedSectionVars false
namespace LinOp.C08

variable {α : Type} [Field α] [LinearOrder α] [IsStrictOrderedRing α]

/-- `m` consecutive tridiagonal updates (iterations `0 … m−1`, column state `cs k` after the kernel of iteration `k`)
starting from the zero matrix — what `linear_cg` holds in `t_mat` for one column while `update_tridiag` is on. -/
def triFold (N : NumOps α) {n : Nat} (cs : Nat → Col α n) (m : Nat) : Tri α :=
  (List.range m).foldl (fun t k => triStep N k (cs k) t) (emptyTri : Tri α)

theorem triFold_succ (N : NumOps α) {n : Nat} (cs : Nat → Col α n) (m : Nat) :
    triFold N cs (m + 1) = triStep N m (cs m) (triFold N cs m) := by
  unfold triFold
  rw [List.range_succ, List.foldl_append]; rfl

/-- the matrix the code is meant to build: `1/α_k + β_{k−1}/α_{k−1}` on the diagonal (`1/α_0` first),
`√β_k/α_k` next to it (in terms of the masked reciprocal `alphaRecip`) -/
def lanczosT (N : NumOps α) {n : Nat} (cs : Nat → Col α n) (i j : Nat) : α :=
  if i = j then
    (if i = 0 then alphaRecip N (cs 0).alpha
     else alphaRecip N (cs i).alpha + (cs (i - 1)).beta * alphaRecip N (cs (i - 1)).alpha)
  else if i = j + 1 then N.sqrt (cs j).beta * alphaRecip N (cs j).alpha
  else if j = i + 1 then N.sqrt (cs i).beta * alphaRecip N (cs i).alpha
  else 0

theorem triFold_closed (N : NumOps α) {n : Nat} (cs : Nat → Col α n) (m : Nat) :
    (∀ i j, (triFold N cs m).t i j = if i < m ∧ j < m then lanczosT N cs i j else 0) ∧
    (0 < m → (triFold N cs m).prevAlphaRecip = alphaRecip N (cs (m - 1)).alpha ∧
             (triFold N cs m).prevBeta = (cs (m - 1)).beta) := by
  induction m with
  | zero =>
    refine ⟨fun i j => ?_, fun h => absurd h (Nat.lt_irrefl 0)⟩
    simp [triFold, emptyTri]
  | succ m ih =>
    obtain ⟨iht, ihp⟩ := ih
    rw [triFold_succ]
    by_cases hm : m = 0
    · subst hm
      refine ⟨fun i j => ?_, fun _ => ?_⟩
      · simp only [triStep, if_true, upd, iht]
        by_cases h : i = 0 ∧ j = 0
        · obtain ⟨rfl, rfl⟩ := h; simp [lanczosT]
        · have h' : ¬ (i < 0 + 1 ∧ j < 0 + 1) := by omega
          simp [h, h']
      · simp [triStep]
    · obtain ⟨hpa, hpb⟩ := ihp (Nat.pos_of_ne_zero hm)
      have hm1 : m - 1 + 1 = m := by omega
      have hne1 : ¬ (m - 1 = m) := by omega
      have hne2 : ¬ (m = m - 1) := by omega
      have hne3 : ¬ (m - 1 = m + 1) := by omega
      refine ⟨fun i j => ?_, fun _ => ?_⟩
      · by_cases h1 : i = m - 1 ∧ j = m
        · rw [h1.1, h1.2]
          simp [triStep, hm, upd, hpa, hpb, lanczosT, hne1, hne2, hne3, hm1]
        · by_cases h2 : i = m ∧ j = m - 1
          · rw [h2.1, h2.2]
            simp [triStep, hm, upd, hpa, hpb, lanczosT, hne1, hne2, hne3, hm1]
          · by_cases h3 : i = m ∧ j = m
            · rw [h3.1, h3.2]
              simp [triStep, hm, upd, hpa, hpb, lanczosT, hne1, hne2, hne3, hm1]
            · have h1' : ¬ (i = m - 1 ∧ j = m) := h1
              simp only [triStep, hm, if_false, upd, h1, h2, h3, iht]
              by_cases h4 : i < m ∧ j < m
              · have e1 : i < m + 1 ∧ j < m + 1 := by omega
                simp only [h4, e1, and_self, if_true]
              · simp only [h4, if_false]
                by_cases h5 : i < m + 1 ∧ j < m + 1
                · -- one index is `m`, the other is not adjacent: a zero of the band
                  have e2 : ¬ i = j := by omega
                  have e3 : ¬ i = j + 1 := by omega
                  have e4 : ¬ j = i + 1 := by omega
                  simp only [h5, and_self, if_true, lanczosT, e2, e3, e4, if_false]
                · simp only [h5, if_false]
      · simp [triStep, hm]

end LinOp.C08
