/-
C08 — lifting: the columns of a whole `linear_cg` call are `iterCol` trajectories.
-/
import LinOp.C08.Proofs3

set_option linter.unusedSectionVars false
namespace LinOp.C08

variable {α : Type} [Field α] [LinearOrder α] [IsStrictOrderedRing α]

/-- one loop body on all columns -/
def stepAll (N : NumOps α) (P : Params α) {n : Nat} (sys : List (SysZ α n)) (cols : List (Col α n)) :
    List (Col α n) :=
  List.zipWith (fun (s : SysZ α n) c => colStep N P s.1 s.2 c) sys cols

def iterAll (N : NumOps α) (P : Params α) {n : Nat} (sys : List (SysZ α n)) : Nat → List (Col α n) → List (Col α n)
  | 0, cols => cols
  | m + 1, cols => stepAll N P sys (iterAll N P sys m cols)

theorem iterAll_succ' (N : NumOps α) (P : Params α) {n : Nat} (sys : List (SysZ α n)) (m : Nat)
    (cols : List (Col α n)) : iterAll N P sys (m + 1) cols = iterAll N P sys m (stepAll N P sys cols) := by
  induction m with
  | zero => rfl
  | succ m ih => rw [iterAll, ih]; rfl

theorem stepCols_fst (N : NumOps α) (P : Params α) {n : Nat} (sys : List (SysZ α n))
    (cs : List (Col α n × Tri α)) :
    (stepCols N P sys cs).map Prod.fst = stepAll N P sys (cs.map Prod.fst) := by
  simp [stepCols, stepAll, List.map_zipWith, List.zipWith_map_right]

theorem triCols_fst (N : NumOps α) {n : Nat} (k : Nat) (cs : List (Col α n × Tri α)) :
    (triCols N k cs).map Prod.fst = cs.map Prod.fst := by
  simp only [triCols, List.map_map]
  apply List.map_congr_left
  intro ct _
  simp only [Function.comp]
  split <;> rfl

theorem iterate_cols (N : NumOps α) (P : Params α) {n : Nat} (sys : List (SysZ α n)) (nT : Nat) :
    ∀ (fuel k : Nat) (st : St α n), ∃ m, m ≤ fuel ∧
      (iterate N P sys nT fuel k st).iters = st.iters + m ∧
      (iterate N P sys nT fuel k st).cs.map Prod.fst = iterAll N P sys m (st.cs.map Prod.fst) := by
  intro fuel
  induction fuel with
  | zero => intro k st; exact ⟨0, le_refl _, rfl, rfl⟩
  | succ f ih =>
    intro k st
    simp only [iterate]
    -- the state after the kernel and the (optional) tridiagonal block
    generalize hst2 : (if (decide (0 < P.nTridiag) && decide (k < nT) && st.updTri) = true then
        ({ st with cs := triCols N k (stepCols N P sys st.cs), iters := st.iters + 1,
                   trace := (st.cs.map fun ct => ct.1.p) :: st.trace, lastTri := k,
                   updTri := !(decide (k ≠ 0) && N.lt (lmax N (offDiags k (triCols N k (stepCols N P sys st.cs)))) P.triOff) } : St α n)
      else { st with cs := stepCols N P sys st.cs, iters := st.iters + 1,
                     trace := (st.cs.map fun ct => ct.1.p) :: st.trace }) = st2
    have h2i : st2.iters = st.iters + 1 := by subst hst2; split <;> rfl
    have h2c : st2.cs.map Prod.fst = stepAll N P sys (st.cs.map Prod.fst) := by
      subst hst2; split
      · simp only [triCols_fst, stepCols_fst]
      · simp only [stepCols_fst]
    split
    · exact ⟨1, by omega, h2i, by simpa [iterAll] using h2c⟩
    · obtain ⟨m, hm, h1, h2⟩ := ih (k + 1) st2
      refine ⟨m + 1, by omega, ?_, ?_⟩
      · rw [h1, h2i]; omega
      · rw [h2, iterAll_succ', h2c]

theorem stepAll_map (N : NumOps α) (P : Params α) {n : Nat} {ι : Type} (l : List ι) (f : ι → SysZ α n)
    (g : ι → Col α n) :
    stepAll N P (l.map f) (l.map g) = l.map fun a => colStep N P (f a).1 (f a).2 (g a) := by
  induction l with
  | nil => rfl
  | cons a l ih => simp only [List.map_cons, stepAll, List.zipWith_cons_cons] at ih ⊢; rw [ih]

theorem iterAll_map (N : NumOps α) (P : Params α) {n : Nat} {ι : Type} (l : List ι) (f : ι → SysZ α n)
    (g : ι → Col α n) (m : Nat) :
    iterAll N P (l.map f) m (l.map g) = l.map fun a => iterCol N P (f a).1 (f a).2 m (g a) := by
  induction m with
  | zero => rfl
  | succ m ih => rw [iterAll, ih, stepAll_map]; rfl

theorem zipWith_self_map {ι β γ δ : Type} (l : List ι) (f : ι → β) (g : ι → γ) (h : β → γ → δ) :
    List.zipWith h (l.map f) (l.map g) = l.map fun a => h (f a) (g a) := by
  induction l with
  | nil => rfl
  | cons a l ih => simp only [List.map_cons, List.zipWith_cons_cons, ih]

/-- Every column of the returned solution is the `iters`-th iterate of that column's own CG recurrence,
un-normalised. -/
theorem linearCgCore_x (N : NumOps α) (P : Params α) {n : Nat} (sys : List (Sys α n)) :
    (linearCgCore N P sys).x = sys.map fun s => fun i =>
      (iterCol N P s (prep N P s).isZero (linearCgCore N P sys).iters (initCol N P s (prep N P s))).x i
        * (prep N P s).nrm := by
  have hcols : List.zipWith (fun s q => initCol N P s q) sys (sys.map fun s => prep N P s)
      = sys.map fun s => initCol N P s (prep N P s) := by
    have := zipWith_self_map sys (fun s => s) (fun s => prep N P s) (fun s q => initCol N P s q)
    simpa using this
  have hsysz : List.zipWith (fun s (q : Prep α n) => ((s, q.isZero) : SysZ α n)) sys (sys.map fun s => prep N P s)
      = sys.map fun s => ((s, (prep N P s).isZero) : SysZ α n) := by
    have := zipWith_self_map sys (fun s => s) (fun s => prep N P s) (fun s (q : Prep α n) => ((s, q.isZero) : SysZ α n))
    simpa using this
  have hst0 : (List.zipWith (fun (s : Sys α n) c => (c, { (emptyTri : Tri α) with on := s.tri })) sys
      (sys.map fun s => initCol N P s (prep N P s))).map Prod.fst = sys.map fun s => initCol N P s (prep N P s) := by
    have := zipWith_self_map sys (fun s => s) (fun s => initCol N P s (prep N P s))
      (fun (s : Sys α n) c => (c, { (emptyTri : Tri α) with on := s.tri }))
    simp only [List.map_id'] at this
    rw [this, List.map_map]; rfl
  simp only [linearCgCore, hcols, hsysz]
  obtain ⟨m, _, h1, h2⟩ := iterate_cols N P (sys.map fun s => ((s, (prep N P s).isZero) : SysZ α n))
    (min P.maxTridiagIter n)
    (if ((sys.map fun s => initCol N P s (prep N P s)).all (fun c => c.conv) && decide (P.nTridiag = 0)) = true then 0
      else nIterOf P n) 0
    { cs := List.zipWith (fun (s : Sys α n) c => (c, { (emptyTri : Tri α) with on := s.tri })) sys
        (sys.map fun s => initCol N P s (prep N P s)),
      updTri := true, lastTri := 0, tolReached := false, iters := 0, trace := [] }
  simp only [hst0, Nat.zero_add] at h1 h2
  rw [iterAll_map] at h2
  rw [h1]
  have hz : ∀ (cs : List (Col α n × Tri α)) (qs : List (Prep α n)),
      List.zipWith (fun (ct : Col α n × Tri α) (q : Prep α n) => (fun i => ct.1.x i * q.nrm : Vec α n)) cs qs
        = List.zipWith (fun (c : Col α n) (q : Prep α n) => (fun i => c.x i * q.nrm : Vec α n)) (cs.map Prod.fst) qs := by
    intro cs qs; rw [List.zipWith_map_left]
  rw [hz, h2]
  exact zipWith_self_map sys _ _ _

end LinOp.C08
