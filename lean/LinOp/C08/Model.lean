/-
C08 — model of `linear_operator/utils/linear_cg.py` (`linear_cg`, `_jit_linear_cg_updates`,
`_jit_linear_cg_updates_no_precond`), statement by statement.  Core Lean only.

The tensors of the code have shape `(*batch, n, c)`.  Every arithmetic statement of `linear_cg` acts
column by column (reductions are over dim −2 only), so the model keeps a `List` of *system columns*
(one per (batch member, column) pair, each with its own `amul`/`pre` closure — columns of one batch
member share theirs).  The three places where the code couples the columns are modelled as such:
`has_converged.all()`, `residual_norm.mean()` and `t_mat[k-1, k].max()`.

    rhs_norm = rhs.norm(2, dim=-2, keepdim=True)                     -- `prep`
    rhs_is_zero = rhs_norm.lt(eps); rhs_norm.masked_fill_(rhs_is_zero, 1)
    rhs = rhs.div(rhs_norm); initial_guess = initial_guess.div(rhs_norm)
    residual = rhs - matmul_closure(initial_guess)
    if not torch.equal(residual, residual): raise RuntimeError          -- `Err.nan`
    residual_norm = residual.norm(...); has_converged = lt(residual_norm, stop_updating_after)   -- `initCol`
    if has_converged.all() and not n_tridiag: n_iter = 0
    else: precond_residual = preconditioner(residual); curr_conjugate_vec = precond_residual; ...
    for k in range(n_iter):                                             -- `iterate`
        mvms = matmul_closure(curr_conjugate_vec)
        (precond / no-precond update kernels)                           -- `colStepPre` / `colStepNoPre`
        residual_norm (masked by rhs_is_zero); has_converged
        if n_tridiag and k < n_tridiag_iter and update_tridiag: ...     -- `triStep`
        if k >= min(10, max_iter - 1) and mean < tolerance and not (n_tridiag and k < min(n_tridiag_iter, max_iter - 1)): break
    result = result.mul(rhs_norm); warn if not tolerance_reached and n_iter > 0
    t_mat[: last_tridiag_iter + 1, : last_tridiag_iter + 1]

Scalars are abstract: the ring operations come from notation classes (so the same definitions run on
`Float` in the driver and are reasoned about over ordered fields in the proofs); `sqrt`, `<`, `== 0`
and the NaN test are a record `NumOps`.  The closures are parameters.
-/
import LinOp.Core.Basic
namespace LinOp.C08

/-- Non-ring primitives of the scalar type. -/
structure NumOps (α : Type) where
  sqrt : α → α
  /-- `torch.lt` -/
  lt : α → α → Bool
  /-- `torch.eq(·, 0)` -/
  eqz : α → Bool
  isNan : α → Bool

abbrev Vec (α : Type) (n : Nat) := Fin n → α

/-- Strict tabulation of an index function, expanded in place: the `Vector` is built when the enclosing
(data-returning) function runs, so every entry is computed once.  (`Core.tab1` is a function-valued
definition; the compiler eta-expands it and a nested use re-tabulates on every access.) -/
macro "memo% " f:term:max : term => `(Vector.get (Vector.ofFn $f))

@[simp] theorem memo_eq {α : Type} {n : Nat} (f : Fin n → α) : Vector.get (Vector.ofFn f) = f := by
  funext i; simp [Vector.get]; rfl

/-- One system column: the closures of its batch member, its right-hand side and initial guess, and
whether it is among the first `n_tridiag` columns. -/
structure Sys (α : Type) (n : Nat) where
  amul : Vec α n → Vec α n
  /-- the preconditioner closure (ignored by the no-preconditioner kernel) -/
  pre : Vec α n → Vec α n
  rhs : Vec α n
  x0 : Vec α n
  tri : Bool

/-- Arguments, settings and source constants of one call. -/
structure Params (α : Type) where
  eps : α
  stopAfter : α
  tol : α
  maxIter : Nat
  maxTridiagIter : Nat
  nTridiag : Nat
  /-- `settings.terminate_cg_by_size.on()` -/
  terminateBySize : Bool
  /-- `preconditioner is not None` -/
  precond : Bool
  /-- the literal `10` of `k >= min(10, max_iter - 1)` (generated) -/
  iterFloor : Nat
  /-- the literal `1e-6` of `t_mat[k - 1, k].max() < 1e-6` (generated) -/
  triOff : α

/-- Per-column loop state. -/
structure Col (α : Type) (n : Nat) where
  x : Vec α n      -- result
  r : Vec α n      -- residual
  z : Vec α n      -- precond_residual
  p : Vec α n      -- curr_conjugate_vec
  rz : α           -- residual_inner_prod
  alpha : α
  beta : α
  rn : α           -- residual_norm
  conv : Bool      -- has_converged

/-- Per-column tridiagonalisation state. -/
structure Tri (α : Type) where
  /-- the column is among the first `n_tridiag` columns -/
  on : Bool := false
  prevAlphaRecip : α
  prevBeta : α
  t : Nat → Nat → α

inductive Err
  | tridiagLimit   -- max_tridiag_iter > max_iter
  | nan            -- NaNs in the first matmul
  deriving DecidableEq, Repr

section
variable {α : Type} [Add α] [Sub α] [Mul α] [Div α] [Neg α] [Zero α] [One α]

def dot {n : Nat} (u v : Vec α n) : α := sumFin n fun i => u i * v i

def norm2 (N : NumOps α) {n : Nat} (u : Vec α n) : α := N.sqrt (dot u u)

/-- `numel` as a scalar. -/
def natTo : Nat → α
  | 0 => 0
  | k + 1 => natTo k + 1

def lsum (l : List α) : α := l.foldl (· + ·) 0

/-- `tensor.mean()` over all columns. -/
def mean (l : List α) : α := lsum l / natTo l.length

/-- `tensor.max()` (first element wins ties). -/
def lmax (N : NumOps α) : List α → α
  | [] => 0
  | a :: l => l.foldl (fun m v => if N.lt m v then v else m) a

def upd (t : Nat → Nat → α) (i j : Nat) (v : α) : Nat → Nat → α :=
  fun a b => if a = i ∧ b = j then v else t a b

/-- Normalisation of one column. -/
structure Prep (α : Type) (n : Nat) where
  nrm : α          -- rhs_norm after masked_fill_(rhs_is_zero, 1)
  isZero : Bool    -- rhs_is_zero
  b : Vec α n      -- normalised rhs
  g : Vec α n      -- normalised initial guess (first argument of matmul_closure)
  r0 : Vec α n     -- initial residual

def prep (N : NumOps α) (P : Params α) {n : Nat} (s : Sys α n) : Prep α n :=
  let nr := norm2 N s.rhs
  let iz := N.lt nr P.eps
  let nrm := if iz then 1 else nr
  let b : Vec α n := memo% (fun i => s.rhs i / nrm)
  let g : Vec α n := memo% (fun i => s.x0 i / nrm)
  let ag : Vec α n := memo% (s.amul g)
  { nrm := nrm, isZero := iz, b := b, g := g, r0 := memo% (fun i => b i - ag i) }

def vecHasNan (N : NumOps α) {n : Nat} (v : Vec α n) : Bool :=
  (List.finRange n).any fun i => N.isNan (v i)

/-- State before the loop.  (`alpha`, `beta` are `torch.empty`: never read before written.) -/
def initCol (N : NumOps α) (P : Params α) {n : Nat} (s : Sys α n) (q : Prep α n) : Col α n :=
  let rn := norm2 N q.r0
  let z : Vec α n := if P.precond then memo% (s.pre q.r0) else q.r0
  { x := q.g, r := q.r0, z := z, p := z, rz := dot z q.r0, alpha := 0, beta := 0, rn := rn,
    conv := N.lt rn P.stopAfter }

/-- `alpha` of one iteration: `pᵀ(Ap)`, the safe division and the `has_converged` mask. -/
def alphaOf (N : NumOps α) (P : Params α) {n : Nat} (c : Col α n) (mv : Vec α n) : α :=
  let pAp := dot c.p mv
  -- torch.lt(alpha, eps, out=is_zero); masked_fill_(is_zero, 1); div(residual_inner_prod, alpha); masked_fill_(is_zero, 0)
  let a := if N.lt pAp P.eps then 0 else c.rz / pAp
  -- alpha.masked_fill_(has_converged, 0)
  if c.conv then 0 else a

/-- `_jit_linear_cg_updates`: result, beta (safe division by the previous inner product), direction. -/
def jitUpdates (N : NumOps α) (P : Params α) {n : Nat} (c : Col α n) (alpha : α) (r' z' : Vec α n) :
    Col α n :=
  let x' : Vec α n := memo% (fun i => c.x i + alpha * c.p i)         -- addcmul(result, alpha, curr_conjugate_vec)
  let rz' := dot r' z'                                    -- sum(residual * precond_residual)
  let beta := if N.lt c.rz P.eps then 0 else rz' / c.rz   -- safe division by the OLD inner product
  let p' : Vec α n := memo% (fun i => c.p i * beta + z' i)         -- curr_conjugate_vec.mul_(beta).add_(precond_residual)
  { c with x := x', r := r', z := z', p := p', rz := rz', alpha := alpha, beta := beta }

/-- Loop body, `precond` branch (`torch.addcmul(residual, alpha, mvms, value=-1)`). -/
def colStepPre (N : NumOps α) (P : Params α) {n : Nat} (s : Sys α n) (c : Col α n) : Col α n :=
  let mv : Vec α n := memo% (s.amul c.p)
  let alpha := alphaOf N P c mv
  let r' : Vec α n := memo% (fun i => c.r i + (-(1 : α)) * (alpha * mv i))
  jitUpdates N P c alpha r' (memo% (s.pre r'))

/-- Loop body, `_jit_linear_cg_updates_no_precond` (`torch.addcmul(residual, -alpha, mvms)`,
`precond_residual = residual.clone()`). -/
def colStepNoPre (N : NumOps α) (P : Params α) {n : Nat} (s : Sys α n) (c : Col α n) : Col α n :=
  let mv : Vec α n := memo% (s.amul c.p)
  let alpha := alphaOf N P c mv
  let r' : Vec α n := memo% (fun i => c.r i + (-alpha) * mv i)
  jitUpdates N P c alpha r' r'

/-- Residual norm (masked by `rhs_is_zero`) and `has_converged` after the kernel. -/
def finishStep (N : NumOps α) (P : Params α) {n : Nat} (isZero : Bool) (c : Col α n) : Col α n :=
  let rn := if isZero then 0 else norm2 N c.r
  { c with rn := rn, conv := N.lt rn P.stopAfter }

/-- One iteration of one column. -/
def colStep (N : NumOps α) (P : Params α) {n : Nat} (s : Sys α n) (isZero : Bool) (c : Col α n) :
    Col α n :=
  finishStep N P isZero (if P.precond then colStepPre N P s c else colStepNoPre N P s c)

/-- `alpha_reciprocal` of the tridiagonal block: `eq(alpha, 0)` → 1, reciprocal. -/
def alphaRecip (N : NumOps α) (a : α) : α := if N.eqz a then 1 else 1 / a

/-- Tridiagonal update of one column at iteration `k` (column state after the kernel). -/
def triStep (N : NumOps α) {n : Nat} (k : Nat) (c : Col α n) (t : Tri α) : Tri α :=
  let ar := alphaRecip N c.alpha
  if k = 0 then
    { t with prevAlphaRecip := ar, prevBeta := c.beta, t := upd t.t 0 0 ar }
  else
    let d := ar + t.prevBeta * t.prevAlphaRecip            -- addcmul(alpha_reciprocal, prev_beta, prev_alpha_reciprocal)
    let o := N.sqrt t.prevBeta * t.prevAlphaRecip          -- mul(prev_beta.sqrt_(), prev_alpha_reciprocal)
    { t with prevAlphaRecip := ar, prevBeta := c.beta,
             t := upd (upd (upd t.t k k d) k (k - 1) o) (k - 1) k o }

/-- Whole-call loop state. -/
structure St (α : Type) (n : Nat) where
  cs : List (Col α n × Tri α)
  updTri : Bool
  lastTri : Nat
  tolReached : Bool
  /-- loop bodies executed (`k + 1` of the warning message) -/
  iters : Nat
  /-- arguments handed to `matmul_closure` inside the loop, newest first -/
  trace : List (List (Vec α n))

/-- A column together with its `rhs_is_zero` flag. -/
abbrev SysZ (α : Type) (n : Nat) := Sys α n × Bool

/-- The stopping rule evaluated after iteration `k`. -/
def stopNow (N : NumOps α) (P : Params α) (nTriIter k : Nat) (rns : List α) : Bool :=
  decide (min P.iterFloor (P.maxIter - 1) ≤ k) && N.lt (mean rns) P.tol &&
    !(decide (0 < P.nTridiag) && decide (k < min nTriIter (P.maxIter - 1)))

def stepCols (N : NumOps α) (P : Params α) {n : Nat} (sys : List (SysZ α n))
    (cs : List (Col α n × Tri α)) : List (Col α n × Tri α) :=
  List.zipWith (fun (s : SysZ α n) ct => (colStep N P s.1 s.2 ct.1, ct.2)) sys cs

def triCols (N : NumOps α) {n : Nat} (k : Nat)
    (cs : List (Col α n × Tri α)) : List (Col α n × Tri α) :=
  cs.map fun ct => if ct.2.on then (ct.1, triStep N k ct.1 ct.2) else ct

/-- `t_mat[k - 1, k]` of the tridiagonal columns. -/
def offDiags {n : Nat} (k : Nat) (cs : List (Col α n × Tri α)) : List α :=
  (cs.map fun ct => if ct.2.on then [ct.2.t (k - 1) k] else []).flatten

/-- `for k in range(n_iter)`: `fuel` iterations remain, the next one has index `k`.
Order of the loop body (after the `fix:` commit be05109): kernel, residual norms, **tridiagonal block, then
the tolerance exit** — so the tridiagonal entries of the last executed iteration are always written. -/
def iterate (N : NumOps α) (P : Params α) {n : Nat} (sys : List (SysZ α n)) (nTriIter : Nat) :
    Nat → Nat → St α n → St α n
  | 0, _, st => st
  | fuel + 1, k, st =>
    let ps := st.cs.map fun ct => ct.1.p
    let cs1 := stepCols N P sys st.cs
    let st1 : St α n := { st with cs := cs1, iters := st.iters + 1, trace := ps :: st.trace }
    let st2 : St α n :=
      if decide (0 < P.nTridiag) && decide (k < nTriIter) && st.updTri then
        let cs2 := triCols N k cs1
        let off := decide (k ≠ 0) && N.lt (lmax N (offDiags k cs2)) P.triOff
        { st1 with cs := cs2, lastTri := k, updTri := !off }
      else st1
    if stopNow N P nTriIter k (cs1.map fun ct => ct.1.rn) then
      { st2 with tolReached := true }
    else
      iterate N P sys nTriIter fuel (k + 1) st2

/-- What a call returns / observably does. -/
structure Out (α : Type) (n : Nat) where
  x : List (Vec α n)
  /-- tridiagonal matrices of the tridiagonal columns, each `size × size` -/
  t : List (Nat → Nat → α)
  tSize : Nat
  warn : Bool
  iters : Nat
  /-- final masked residual norms (the quantity whose mean the warning reports) -/
  rns : List α
  /-- arguments of `matmul_closure` in call order: initial guess first -/
  amulTrace : List (List (Vec α n))
  /-- whether the preconditioner was called before the loop -/
  preCalled : Bool

def nIterOf (P : Params α) (n : Nat) : Nat :=
  if P.terminateBySize then min P.maxIter n else P.maxIter

def emptyTri : Tri α := { prevAlphaRecip := 0, prevBeta := 0, t := fun _ _ => 0 }

/-- `linear_cg` after its two error exits. -/
def linearCgCore (N : NumOps α) (P : Params α) {n : Nat} (sys : List (Sys α n)) : Out α n :=
  let nTriIter := min P.maxTridiagIter n
  let preps := sys.map fun s => prep N P s
  let cols := List.zipWith (fun s q => initCol N P s q) sys preps
  let skip := cols.all (fun c => c.conv) && decide (P.nTridiag = 0)
  let nIter := if skip then 0 else nIterOf P n
  let sysz : List (SysZ α n) := List.zipWith (fun s (q : Prep α n) => (s, q.isZero)) sys preps
  let st0 : St α n := { cs := List.zipWith (fun (s : Sys α n) c => (c, { (emptyTri : Tri α) with on := s.tri })) sys cols,
                        updTri := true, lastTri := 0,
                        tolReached := false, iters := 0, trace := [] }
  let st := iterate N P sysz nTriIter nIter 0 st0
  let xs := List.zipWith (fun (ct : Col α n × Tri α) (q : Prep α n) => (fun i => ct.1.x i * q.nrm : Vec α n)) st.cs preps
  let ts := (st.cs.map fun (ct : Col α n × Tri α) => if ct.2.on then [ct.2.t] else []).flatten
  { x := xs, t := ts, tSize := if P.nTridiag = 0 then 0 else min (st.lastTri + 1) nTriIter,
    warn := !st.tolReached && decide (0 < nIter), iters := st.iters,
    rns := st.cs.map fun ct => ct.1.rn,
    amulTrace := (preps.map fun q => q.g) :: st.trace.reverse,
    preCalled := !skip && P.precond }

/-- `linear_cg`. -/
def linearCg (N : NumOps α) (P : Params α) {n : Nat} (sys : List (Sys α n)) : Except Err (Out α n) :=
  if P.maxTridiagIter > P.maxIter then .error .tridiagLimit else
  if (sys.map fun s => prep N P s).any (fun q => vecHasNan N q.r0) then .error .nan else
  .ok (linearCgCore N P sys)

end
end LinOp.C08
