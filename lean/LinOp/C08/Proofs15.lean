/-
C08 — the preconditioned kernel over ℝ: for `A` symmetric and `W = M⁻¹` symmetric positive definite the operator `W A`
has an `A`-orthogonal eigenbasis whose eigenvalues are those of `W¹ᐟ² A W¹ᐟ²` (= `M⁻¹ᐟ² A M⁻¹ᐟ²`).
Built from two applications of the spectral theorem (`eigVec`): `W = Σ μ_k u_k u_kᵀ`, `S = W¹ᐟ² = Σ √μ_k u_k u_kᵀ`,
`B = S A S = Σ λ_i y_i y_iᵀ`, `v_i = S y_i`.
-/
import LinOp.C08.Proofs14

set_option linter.unusedSectionVars false
namespace LinOp.C08

variable {n : Nat}

section spec
variable {W : Vec ℝ n → Vec ℝ n} (hW : LinSym W)

/-- spectral function of `W`: `φ(W) v = Σ_k φ_k (u_kᵀ v) u_k` -/
noncomputable def spec (φ : Fin n → ℝ) (v : Vec ℝ n) : Vec ℝ n :=
  ∑ k, (φ k * dot (eigVec hW k) v) • eigVec hW k

theorem dot_eig_spec (φ : Fin n → ℝ) (v : Vec ℝ n) (k : Fin n) :
    dot (eigVec hW k) (spec hW φ v) = φ k * dot (eigVec hW k) v := by
  unfold spec
  rw [dot_sum_right, Finset.sum_eq_single k]
  · rw [dot_smul_right, eigVec_orthonormal, if_pos rfl, mul_one]
  · intro j _ hjk
    rw [dot_smul_right, eigVec_orthonormal, if_neg (fun h : k = j => hjk h.symm), mul_zero]
  · intro h; exact absurd (Finset.mem_univ k) h

theorem spec_spec (φ ψ : Fin n → ℝ) (v : Vec ℝ n) :
    spec hW φ (spec hW ψ v) = spec hW (fun k => φ k * ψ k) v := by
  show ∑ k, (φ k * dot (eigVec hW k) (spec hW ψ v)) • eigVec hW k = ∑ k, (φ k * ψ k * dot (eigVec hW k) v) • eigVec hW k
  apply Finset.sum_congr rfl
  intro k _
  rw [dot_eig_spec, mul_assoc]

theorem spec_one (v : Vec ℝ n) : spec hW (fun _ => 1) v = v := by
  unfold spec
  simp only [one_mul]
  exact (eigVec_complete hW v).symm

theorem spec_eigVal (v : Vec ℝ n) : spec hW (eigVal hW) v = W v := by
  rw [eigVec_complete hW (W v)]
  unfold spec
  apply Finset.sum_congr rfl
  intro k _
  rw [hW.sym, eigVec_apply hW, dot_smul_left]

theorem spec_linSym (φ : Fin n → ℝ) : LinSym (spec hW φ) :=
  { add := fun u v => by
      unfold spec
      rw [← Finset.sum_add_distrib]
      apply Finset.sum_congr rfl
      intro k _
      rw [dot_add_right, mul_add, add_smul]
    smul := fun c u => by
      unfold spec
      rw [Finset.smul_sum]
      apply Finset.sum_congr rfl
      intro k _
      rw [dot_smul_right, smul_smul]; congr 1; ring
    sym := fun u v => by
      unfold spec
      rw [dot_sum_right, dot_sum_left]
      apply Finset.sum_congr rfl
      intro k _
      rw [dot_smul_right, dot_smul_left, dot_comm u (eigVec hW k)]; ring }

theorem eigVal_pos (hWpd : ∀ v, v ≠ 0 → 0 < dot v (W v)) (k : Fin n) : 0 < eigVal hW k := by
  have hne : eigVec hW k ≠ 0 := by
    intro h
    have := eigVec_orthonormal hW k k
    rw [h, dot_zero_left, if_pos rfl] at this
    exact zero_ne_one this
  have := hWpd _ hne
  rwa [eigVec_apply hW, dot_smul_right, eigVec_orthonormal, if_pos rfl, mul_one] at this

/-- `W¹ᐟ²` -/
noncomputable def sqrtW : Vec ℝ n → Vec ℝ n := spec hW fun k => Real.sqrt (eigVal hW k)

/-- `W⁻¹ᐟ²` -/
noncomputable def invSqrtW : Vec ℝ n → Vec ℝ n := spec hW fun k => 1 / Real.sqrt (eigVal hW k)

theorem sqrtW_linSym : LinSym (sqrtW hW) := spec_linSym hW _
theorem invSqrtW_linSym : LinSym (invSqrtW hW) := spec_linSym hW _

theorem sqrtW_sq (hWpd : ∀ v, v ≠ 0 → 0 < dot v (W v)) (v : Vec ℝ n) : sqrtW hW (sqrtW hW v) = W v := by
  unfold sqrtW
  rw [spec_spec, ← spec_eigVal hW v]
  congr 1; funext k
  exact Real.mul_self_sqrt (eigVal_pos hW hWpd k).le

theorem sqrtW_invSqrtW (hWpd : ∀ v, v ≠ 0 → 0 < dot v (W v)) (v : Vec ℝ n) : sqrtW hW (invSqrtW hW v) = v := by
  unfold sqrtW invSqrtW
  rw [spec_spec]
  have : (fun k => Real.sqrt (eigVal hW k) * (1 / Real.sqrt (eigVal hW k))) = fun _ => (1 : ℝ) := by
    funext k
    have := Real.sqrt_pos.mpr (eigVal_pos hW hWpd k)
    field_simp
  rw [this, spec_one]

theorem invSqrtW_sqrtW (hWpd : ∀ v, v ≠ 0 → 0 < dot v (W v)) (v : Vec ℝ n) : invSqrtW hW (sqrtW hW v) = v := by
  unfold sqrtW invSqrtW
  rw [spec_spec]
  have : (fun k => 1 / Real.sqrt (eigVal hW k) * Real.sqrt (eigVal hW k)) = fun _ => (1 : ℝ) := by
    funext k
    have := Real.sqrt_pos.mpr (eigVal_pos hW hWpd k)
    field_simp
  rw [this, spec_one]

end spec

section gen
variable {A W : Vec ℝ n → Vec ℝ n} (hA : LinSym A) (hW : LinSym W)

/-- `B = W¹ᐟ² A W¹ᐟ²` -/
noncomputable def symB (A : Vec ℝ n → Vec ℝ n) : Vec ℝ n → Vec ℝ n := fun v => sqrtW hW (A (sqrtW hW v))

include hA hW

theorem symB_linSym : LinSym (symB hW A) :=
  { add := fun u v => by unfold symB; rw [(sqrtW_linSym hW).add, hA.add, (sqrtW_linSym hW).add]
    smul := fun c u => by unfold symB; rw [(sqrtW_linSym hW).smul, hA.smul, (sqrtW_linSym hW).smul]
    sym := fun u v => by
      unfold symB
      rw [(sqrtW_linSym hW).sym, hA.sym, (sqrtW_linSym hW).sym] }

/-- generalised eigenvectors `v_i = W¹ᐟ² y_i` -/
noncomputable def genVec (i : Fin n) : Vec ℝ n := sqrtW hW (eigVec (symB_linSym hA hW) i)

noncomputable def genVal (i : Fin n) : ℝ := eigVal (symB_linSym hA hW) i

variable (hWpd : ∀ v, v ≠ 0 → 0 < dot v (W v))
include hWpd

theorem genVec_eig (i : Fin n) : W (A (genVec hA hW i)) = genVal hA hW i • genVec hA hW i := by
  unfold genVec genVal
  rw [← sqrtW_sq hW hWpd]
  have : sqrtW hW (A (sqrtW hW (eigVec (symB_linSym hA hW) i)))
      = eigVal (symB_linSym hA hW) i • eigVec (symB_linSym hA hW) i := eigVec_apply (symB_linSym hA hW) i
  rw [this, (sqrtW_linSym hW).smul]

theorem genVec_gram (i j : Fin n) :
    dot (genVec hA hW i) (A (genVec hA hW j)) = if i = j then genVal hA hW i else 0 := by
  unfold genVec genVal
  rw [← (sqrtW_linSym hW).sym]
  have : sqrtW hW (A (sqrtW hW (eigVec (symB_linSym hA hW) j)))
      = eigVal (symB_linSym hA hW) j • eigVec (symB_linSym hA hW) j := eigVec_apply (symB_linSym hA hW) j
  rw [this, dot_smul_right, eigVec_orthonormal]
  by_cases h : i = j
  · subst h; simp
  · simp [h]

theorem genVec_complete (w : Vec ℝ n) : ∃ c : Fin n → ℝ, w = ∑ i, c i • genVec hA hW i := by
  refine ⟨fun i => dot (eigVec (symB_linSym hA hW) i) (invSqrtW hW w), ?_⟩
  have h1 := eigVec_complete (symB_linSym hA hW) (invSqrtW hW w)
  have h2 := congrArg (sqrtW hW) h1
  rw [sqrtW_invSqrtW hW hWpd, (sqrtW_linSym hW).toLin.map_sum] at h2
  refine h2.trans ?_
  apply Finset.sum_congr rfl
  intro i _
  rw [(sqrtW_linSym hW).smul]; rfl

/-- the eigenvalues of `W A` lie between any two Rayleigh-quotient bounds of `W¹ᐟ² A W¹ᐟ²`, stated with closures only:
`lo · yᵀWy ≤ (Wy)ᵀ A (Wy) ≤ hi · yᵀWy` -/
theorem genVal_bounds (lo hi : ℝ) (hlo : ∀ y, lo * dot y (W y) ≤ dot (W y) (A (W y)))
    (hhi : ∀ y, dot (W y) (A (W y)) ≤ hi * dot y (W y)) (i : Fin n) :
    lo ≤ genVal hA hW i ∧ genVal hA hW i ≤ hi := by
  set yi := eigVec (symB_linSym hA hW) i with hyi
  set y := invSqrtW hW yi with hy
  have hWy : W y = sqrtW hW yi := by
    rw [← sqrtW_sq hW hWpd, hy, sqrtW_invSqrtW hW hWpd]
  have hden : dot y (W y) = 1 := by
    rw [hWy, hy, ← (invSqrtW_linSym hW).sym, invSqrtW_sqrtW hW hWpd]
    exact (eigVec_orthonormal (symB_linSym hA hW) i i).trans (if_pos rfl)
  have hnum : dot (W y) (A (W y)) = genVal hA hW i := by
    rw [hWy]
    have := genVec_gram hA hW hWpd i i
    rw [if_pos rfl] at this
    exact this
  have h1 := hlo y
  have h2 := hhi y
  rw [hden, hnum] at h1 h2
  constructor <;> linarith

end gen

/-- the `AEig` of the preconditioned kernel (`precond = true`, `preF = s.pre = M⁻¹`) -/
noncomputable def aeigOfPre (P : Params ℝ) (hp : P.precond = true) (s : Sys ℝ n) (hA : LinSym s.amul)
    (hW : LinSym s.pre) (hWpd : ∀ v, v ≠ 0 → 0 < dot v (s.pre v)) : AEig (Fin n) P s :=
  { v := genVec hA hW
    lam := genVal hA hW
    g := genVal hA hW
    eig := fun i => by
      show preF P s (s.amul (genVec hA hW i)) = _
      have : ∀ v, preF P s v = s.pre v := fun v => by simp [preF, hp]
      rw [this]; exact genVec_eig hA hW hWpd i
    gram := genVec_gram hA hW hWpd
    complete := genVec_complete hA hW hWpd }

theorem preF_eq_pre (P : Params ℝ) (hp : P.precond = true) (s : Sys ℝ n) : preF P s = s.pre := by
  funext v; simp [preF, hp]

/-- **Chebyshev rate, preconditioned kernel**: `κ` is the condition number of `M⁻¹ᐟ² A M⁻¹ᐟ²` (`W = M⁻¹`). -/
theorem chebyshev_rate_pre {N : NumOps ℝ} (hN : Lawful N) (P : Params ℝ) (he : 0 < P.eps) (hp : P.precond = true)
    {s : Sys ℝ n} (hA : LinSym s.amul) (hpsd : ∀ v, 0 ≤ dot v (s.amul v))
    (hW : LinSym s.pre) (hWpd : ∀ v, v ≠ 0 → 0 < dot v (s.pre v))
    (lmin lmax : ℝ) (hpos : 0 < lmin) (hle : lmin ≤ lmax)
    (hlo : ∀ y, lmin * dot y (s.pre y) ≤ dot (s.pre y) (s.amul (s.pre y)))
    (hhi : ∀ y, dot (s.pre y) (s.amul (s.pre y)) ≤ lmax * dot y (s.pre y))
    (xs : Vec ℝ n) (hxs : s.amul xs = (prep N P s).b) (j : Nat)
    (hreg : ∀ i < j, Regular P s (traj N P s i)) :
    Real.sqrt (errA s xs (traj N P s j).x)
        ≤ 2 * rho lmin lmax ^ j * Real.sqrt (errA s xs (traj N P s 0).x) ∧
    errA s xs (traj N P s j).x ≤ (2 * rho lmin lmax ^ j) ^ 2 * errA s xs (traj N P s 0).x := by
  have hM : ∀ u v, dot u (preF P s v) = dot (preF P s u) v := by
    rw [preF_eq_pre P hp s]; exact hW.sym
  have hMl : Lin (preF P s) := by rw [preF_eq_pre P hp s]; exact hW.toLin
  have hE : ∀ i, lmin ≤ (aeigOfPre P hp s hA hW hWpd).lam i ∧ (aeigOfPre P hp s hA hW hWpd).lam i ≤ lmax :=
    fun i => genVal_bounds hA hW hWpd lmin lmax hlo hhi i
  exact ⟨chebyshev_rate_E_norm hN P he hA hpsd hM hMl (aeigOfPre P hp s hA hW hWpd) lmin lmax hpos hle hE xs hxs j hreg,
    chebyshev_rate_E hN P he hA hpsd hM hMl (aeigOfPre P hp s hA hW hWpd) lmin lmax hpos hle hE xs hxs j hreg⟩

/-- default thresholds, preconditioned kernel selected (the closure of `realSys` is the identity) -/
noncomputable def realParamsPre : Params ℝ := { realParams with precond := true }

theorem realSys_regular_pre : Regular realParamsPre realSys (traj realOps realParamsPre realSys 0) := by
  refine ⟨?_, ?_, ?_⟩ <;>
    simp [traj, iterCol, initCol, prep, realSys, realParamsPre, realParams, realOps, norm2, dot_eq, Regular] <;> norm_num

end LinOp.C08
