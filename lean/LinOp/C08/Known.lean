/-
C08 — the former finding "max_iter = 1 with tridiagonals returns T = [[0]]" (fixed in /repo by be05109):
the current model returns the right matrix; `iterateBreakFirst` is the loop of the PREVIOUS code (tolerance exit before the
tridiagonal block), kept only to state what that code did.
-/
import LinOp.C08.Model
namespace LinOp.C08.Known
open LinOp.C08

/-- `Rat` with a "square root" that is exact on the only values it meets here (0 and 1). -/
def ratOps : NumOps Rat :=
  { sqrt := fun x => x, lt := fun a b => decide (a < b), eqz := fun a => decide (a = 0), isNan := fun _ => false }

/-- the 1×1 system `2·x = 1`, first column tridiagonalised -/
def sys1 : Sys Rat 1 :=
  { amul := fun v => fun i => 2 * v i, pre := fun v => v, rhs := fun _ => 1, x0 := fun _ => 0, tri := true }

def params1 : Params Rat :=
  { eps := 1 / 10000000000, stopAfter := 1 / 10000000000, tol := 1 / 1000, maxIter := 1, maxTridiagIter := 1,
    nTridiag := 1, terminateBySize := false, precond := false, iterFloor := 10, triOff := 1 / 1000000 }

def out1 : Out Rat 1 := linearCgCore ratOps params1 [sys1]

def summary : Nat × Nat × Bool × List Rat × List Rat :=
  (out1.iters, out1.tSize, out1.warn, out1.t.map (fun t => t 0 0), out1.x.map (fun v => v 0))

/-- The loop body of the code BEFORE be05109: the tolerance `break` came first, the tridiagonal block after it. -/
def iterateBreakFirst {α : Type} [Add α] [Sub α] [Mul α] [Div α] [Neg α] [Zero α] [One α]
    (N : NumOps α) (P : Params α) {n : Nat} (sys : List (SysZ α n)) (nTriIter : Nat) :
    Nat → Nat → St α n → St α n
  | 0, _, st => st
  | fuel + 1, k, st =>
    let ps := st.cs.map fun ct => ct.1.p
    let cs1 := stepCols N P sys st.cs
    let st1 : St α n := { st with cs := cs1, iters := st.iters + 1, trace := ps :: st.trace }
    if stopNow N P nTriIter k (cs1.map fun ct => ct.1.rn) then
      { st1 with tolReached := true }
    else if decide (0 < P.nTridiag) && decide (k < nTriIter) && st.updTri then
      let cs2 := triCols N k cs1
      let off := decide (k ≠ 0) && N.lt (lmax N (offDiags k cs2)) P.triOff
      iterateBreakFirst N P sys nTriIter fuel (k + 1) { st1 with cs := cs2, lastTri := k, updTri := !off }
    else
      iterateBreakFirst N P sys nTriIter fuel (k + 1) st1

/-- the loop state `linear_cg` starts from on `sys1` -/
def st0 : St Rat 1 :=
  { cs := [(initCol ratOps params1 sys1 (prep ratOps params1 sys1), { (emptyTri : Tri Rat) with on := true })],
    updTri := true, lastTri := 0, tolReached := false, iters := 0, trace := [] }

def sysz1 : List (SysZ Rat 1) := [(sys1, (prep ratOps params1 sys1).isZero)]

/-- (iterations, tolerance reached, last_tridiag_iter, T[0,0]) of a loop function on the 1×1 system -/
def loopSummary (it : Nat → Nat → St Rat 1 → St Rat 1) : Nat × Bool × Nat × List Rat :=
  let st := it 1 0 st0
  (st.iters, st.tolReached, st.lastTri, st.cs.map fun ct => ct.2.t 0 0)

end LinOp.C08.Known
