/-
C08 — machine-checked counterexample for the known finding "max_iter = 1 with tridiagonals returns T = [[0]]".
-/
import LinOp.C08.Model
namespace LinOp.C08.Known
open LinOp.C08

/-- `Rat` with a "square root" that is exact on the only values it meets here (0 and 1). -/
def ratOps : NumOps Rat :=
  { sqrt := fun x => x, lt := fun a b => decide (a < b), eqz := fun a => decide (a = 0), isNan := fun _ => false }

/-- the 1×1 system `2·x = 1`, first column tridiagonalised -/
def sys1 : Sys Rat 1 :=
  { amul := fun v => fun i => 2 * v i, pre := fun v => v, rhs := fun _ => 1, x0 := fun _ => 0, tri := true }

def params1 : Params Rat :=
  { eps := 1 / 10000000000, stopAfter := 1 / 10000000000, tol := 1 / 1000, maxIter := 1, maxTridiagIter := 1,
    nTridiag := 1, terminateBySize := false, precond := false, iterFloor := 10, triOff := 1 / 1000000 }

def out1 : Out Rat 1 := linearCgCore ratOps params1 [sys1]

def summary : Nat × Nat × Bool × List Rat × List Rat :=
  (out1.iters, out1.tSize, out1.warn, out1.t.map (fun t => t 0 0), out1.x.map (fun v => v 0))

end LinOp.C08.Known
