/-
C08 — the Krylov space of the preconditioned operator lies in the span of the search directions, hence Krylov optimality.
-/
import LinOp.C08.Proofs9
import Mathlib.LinearAlgebra.Span.Basic

set_option linter.unusedSectionVars false
namespace LinOp.C08

variable {α : Type} [Field α] [LinearOrder α] [IsStrictOrderedRing α]

/-- span of the first `k` search directions -/
def dirSpan (N : NumOps α) (P : Params α) {n : Nat} (s : Sys α n) (k : Nat) : Submodule α (Vec α n) :=
  Submodule.span α (Set.range fun i : Fin k => (traj N P s i).p)

theorem dirSpan_mem (N : NumOps α) (P : Params α) {n : Nat} (s : Sys α n) {i k : Nat} (h : i < k) :
    (traj N P s i).p ∈ dirSpan N P s k :=
  Submodule.subset_span ⟨⟨i, h⟩, rfl⟩

theorem dirSpan_mono (N : NumOps α) (P : Params α) {n : Nat} (s : Sys α n) {j k : Nat} (h : j ≤ k) :
    dirSpan N P s j ≤ dirSpan N P s k := by
  apply Submodule.span_le.mpr
  rintro _ ⟨i, rfl⟩
  exact dirSpan_mem N P s (Nat.lt_of_lt_of_le i.2 h)

theorem z_mem_dirSpan (N : NumOps α) (P : Params α) {n : Nat} (s : Sys α n) (i : Nat) :
    (traj N P s i).z ∈ dirSpan N P s (i + 1) := by
  cases i with
  | zero => rw [traj_z_zero]; exact dirSpan_mem N P s (Nat.lt_succ_self 0)
  | succ i =>
    rw [traj_z_expand]
    exact Submodule.sub_mem _ (dirSpan_mem N P s (Nat.lt_succ_self _))
      (Submodule.smul_mem _ _ (dirSpan_mem N P s (by omega)))

/-- the preconditioned operator `v ↦ M⁻¹(A v)` -/
def preA (P : Params α) {n : Nat} (s : Sys α n) : Vec α n → Vec α n := fun v => preF P s (s.amul v)

theorem preA_dir {N : NumOps α} (hN : Lawful N) (P : Params α) (he : 0 < P.eps) {n : Nat} {s : Sys α n}
    (hMl : Lin (preF P s)) (i : Nat) (hreg : Regular P s (traj N P s i)) :
    preA P s (traj N P s i).p ∈ dirSpan N P s (i + 2) := by
  obtain ⟨hc, hp, hz⟩ := hreg
  have hai := alphaF_regular hN P s _ hc hp
  have hposp : 0 < dot (traj N P s i).p (s.amul (traj N P s i).p) := lt_of_lt_of_le he (not_lt.mp hp)
  have hposz : 0 < (traj N P s i).rz := lt_of_lt_of_le he (not_lt.mp hz)
  have hane : alphaF N P s (traj N P s i) ≠ 0 := by rw [hai]; exact ne_of_gt (div_pos hposz hposp)
  have hri : (traj N P s (i + 1)).r = (traj N P s i).r - alphaF N P s (traj N P s i) • s.amul (traj N P s i).p := by
    rw [traj_succ, colStep_r]
  have hAp : s.amul (traj N P s i).p
      = (1 / alphaF N P s (traj N P s i)) • ((traj N P s i).r - (traj N P s (i + 1)).r) := by
    rw [hri]; funext x; simp only [Pi.smul_apply, Pi.sub_apply, smul_eq_mul]; field_simp; ring
  have : preA P s (traj N P s i).p
      = (1 / alphaF N P s (traj N P s i)) • ((traj N P s i).z - (traj N P s (i + 1)).z) := by
    unfold preA
    rw [hAp, hMl.smul, hMl.map_sub, ← traj_zdef, ← traj_zdef]
  rw [this]
  exact Submodule.smul_mem _ _ (Submodule.sub_mem _
    (dirSpan_mono N P s (Nat.le_succ _) (z_mem_dirSpan N P s i)) (z_mem_dirSpan N P s (i + 1)))

theorem preA_maps {N : NumOps α} (hN : Lawful N) (P : Params α) (he : 0 < P.eps) {n : Nat} {s : Sys α n}
    (hAl : Lin s.amul) (hMl : Lin (preF P s)) (k : Nat) (hreg : ∀ j < k, Regular P s (traj N P s j))
    (v : Vec α n) (hv : v ∈ dirSpan N P s k) : preA P s v ∈ dirSpan N P s (k + 1) := by
  have hlin : Lin (preA P s) :=
    { add := fun u w => by unfold preA; rw [hAl.add, hMl.add]
      smul := fun c u => by unfold preA; rw [hAl.smul, hMl.smul] }
  unfold dirSpan at hv
  induction hv using Submodule.span_induction with
  | mem x hx =>
    obtain ⟨i, rfl⟩ := hx
    exact dirSpan_mono N P s (by omega) (preA_dir hN P he hMl i (hreg i i.2))
  | zero => rw [hlin.map_zero]; exact Submodule.zero_mem _
  | add x y _ _ hx hy => rw [hlin.add]; exact Submodule.add_mem _ hx hy
  | smul c x _ hx => rw [hlin.smul]; exact Submodule.smul_mem _ _ hx

/-- `(M⁻¹A)^j z₀ ∈ span{p_0 … p_j}` while the steps are regular -/
theorem krylov_mem {N : NumOps α} (hN : Lawful N) (P : Params α) (he : 0 < P.eps) {n : Nat} {s : Sys α n}
    (hAl : Lin s.amul) (hMl : Lin (preF P s)) (m : Nat) (hreg : ∀ j < m, Regular P s (traj N P s j)) :
    ∀ j ≤ m, (preA P s)^[j] (traj N P s 0).z ∈ dirSpan N P s (j + 1) := by
  intro j
  induction j with
  | zero => intro _; exact z_mem_dirSpan N P s 0
  | succ j ih =>
    intro hj
    rw [Function.iterate_succ_apply']
    exact preA_maps hN P he hAl hMl (j + 1) (fun i hi => hreg i (by omega)) _ (ih (by omega))

/-- **Krylov optimality.** -/
theorem krylov_optimal {N : NumOps α} (hN : Lawful N) (P : Params α) (he : 0 < P.eps) {n : Nat}
    {s : Sys α n} (hA : LinSym s.amul) (hpsd : ∀ v, 0 ≤ dot v (s.amul v))
    (hM : ∀ u v, dot u (preF P s v) = dot (preF P s u) v) (hMl : Lin (preF P s))
    (xs : Vec α n) (hxs : s.amul xs = (prep N P s).b) (m : Nat)
    (hreg : ∀ j < m, Regular P s (traj N P s j)) (k : Nat) (hk : k ≤ m) (v : Vec α n)
    (hv : v ∈ Submodule.span α (Set.range fun j : Fin k => (preA P s)^[j] (traj N P s 0).z)) :
    errA s xs (traj N P s k).x ≤ errA s xs ((traj N P s k).x + v) := by
  have hsub : v ∈ dirSpan N P s k := by
    refine (Submodule.span_le.mpr ?_) hv
    rintro _ ⟨j, rfl⟩
    exact dirSpan_mono N P s j.2 (krylov_mem hN P he hA.toLin hMl m hreg j (by omega))
  obtain ⟨c, hc⟩ := (Submodule.mem_span_range_iff_exists_fun α).mp hsub
  have hsum : v = ∑ i ∈ Finset.range k, (fun i => if h : i < k then c ⟨i, h⟩ else 0) i • (traj N P s i).p := by
    rw [← hc, Finset.sum_range]
    apply Finset.sum_congr rfl
    intro i _
    simp [i.2]
  rw [hsum]
  exact optimal_over_directions hN P he hA hpsd hM xs hxs m hreg k hk _

/-- optimality over the span of the directions, membership form -/
theorem optimal_over_dirSpan {N : NumOps α} (hN : Lawful N) (P : Params α) (he : 0 < P.eps) {n : Nat}
    {s : Sys α n} (hA : LinSym s.amul) (hpsd : ∀ v, 0 ≤ dot v (s.amul v))
    (hM : ∀ u v, dot u (preF P s v) = dot (preF P s u) v)
    (xs : Vec α n) (hxs : s.amul xs = (prep N P s).b) (m : Nat)
    (hreg : ∀ j < m, Regular P s (traj N P s j)) (k : Nat) (hk : k ≤ m) (v : Vec α n)
    (hsub : v ∈ dirSpan N P s k) :
    errA s xs (traj N P s k).x ≤ errA s xs ((traj N P s k).x + v) := by
  obtain ⟨c, hc⟩ := (Submodule.mem_span_range_iff_exists_fun α).mp hsub
  have hsum : v = ∑ i ∈ Finset.range k, (fun i => if h : i < k then c ⟨i, h⟩ else 0) i • (traj N P s i).p := by
    rw [← hc, Finset.sum_range]
    apply Finset.sum_congr rfl
    intro i _
    simp [i.2]
  rw [hsum]
  exact optimal_over_directions hN P he hA hpsd hM xs hxs m hreg k hk _

theorem x_diff_mem (N : NumOps α) (P : Params α) {n : Nat} (s : Sys α n) (k : Nat) :
    (traj N P s k).x - (traj N P s 0).x ∈ dirSpan N P s k := by
  induction k with
  | zero => rw [sub_self]; exact Submodule.zero_mem _
  | succ k ih =>
    have hx : (traj N P s (k + 1)).x = (traj N P s k).x + alphaF N P s (traj N P s k) • (traj N P s k).p := by
      rw [traj_succ, colStep_x]
    have : (traj N P s (k + 1)).x - (traj N P s 0).x
        = ((traj N P s k).x - (traj N P s 0).x) + alphaF N P s (traj N P s k) • (traj N P s k).p := by
      rw [hx]; funext i; simp; ring
    rw [this]
    exact Submodule.add_mem _ (dirSpan_mono N P s (Nat.le_succ k) ih)
      (Submodule.smul_mem _ _ (dirSpan_mem N P s (Nat.lt_succ_self k)))

/-- **Krylov optimality, classical form**: `x_k` minimises the A-norm error over `x_0 + K_k(M⁻¹A, M⁻¹r_0)`. -/
theorem krylov_optimal_from_x0 {N : NumOps α} (hN : Lawful N) (P : Params α) (he : 0 < P.eps) {n : Nat}
    {s : Sys α n} (hA : LinSym s.amul) (hpsd : ∀ v, 0 ≤ dot v (s.amul v))
    (hM : ∀ u v, dot u (preF P s v) = dot (preF P s u) v) (hMl : Lin (preF P s))
    (xs : Vec α n) (hxs : s.amul xs = (prep N P s).b) (m : Nat)
    (hreg : ∀ j < m, Regular P s (traj N P s j)) (k : Nat) (hk : k ≤ m) (u : Vec α n)
    (hu : u ∈ Submodule.span α (Set.range fun j : Fin k => (preA P s)^[j] (traj N P s 0).z)) :
    errA s xs (traj N P s k).x ≤ errA s xs ((traj N P s 0).x + u) := by
  have hsub : u ∈ dirSpan N P s k := by
    refine (Submodule.span_le.mpr ?_) hu
    rintro _ ⟨j, rfl⟩
    exact dirSpan_mono N P s j.2 (krylov_mem hN P he hA.toLin hMl m hreg j (by omega))
  have hv : u - ((traj N P s k).x - (traj N P s 0).x) ∈ dirSpan N P s k :=
    Submodule.sub_mem _ hsub (x_diff_mem N P s k)
  have := optimal_over_dirSpan hN P he hA hpsd hM xs hxs m hreg k hk _ hv
  have heq : (traj N P s k).x + (u - ((traj N P s k).x - (traj N P s 0).x)) = (traj N P s 0).x + u := by
    funext i; simp; ring
  rwa [heq] at this

end LinOp.C08
