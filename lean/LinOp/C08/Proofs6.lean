/-
C08 — all-pairs orthogonality / conjugacy along a trajectory of regular steps (induction over the iteration count,
the invariant quantifies over all earlier iterations).
-/
import LinOp.C08.Proofs5

set_option linter.unusedSectionVars false
namespace LinOp.C08

variable {α : Type} [Field α] [LinearOrder α] [IsStrictOrderedRing α]

/-- the `k`-th loop state of column `s` in a call of `linear_cg` -/
def traj (N : NumOps α) (P : Params α) {n : Nat} (s : Sys α n) (k : Nat) : Col α n :=
  iterCol N P s (prep N P s).isZero k (initCol N P s (prep N P s))

theorem traj_succ (N : NumOps α) (P : Params α) {n : Nat} (s : Sys α n) (k : Nat) :
    traj N P s (k + 1) = colStep N P s (prep N P s).isZero (traj N P s k) := rfl

/-- a textbook step will be taken from `c`: not frozen, `pᵀAp ≥ eps`, `rᵀz ≥ eps` -/
def Regular (P : Params α) {n : Nat} (s : Sys α n) (c : Col α n) : Prop :=
  c.conv = false ∧ ¬ dot c.p (s.amul c.p) < P.eps ∧ ¬ c.rz < P.eps

theorem traj_zdef (N : NumOps α) (P : Params α) {n : Nat} (s : Sys α n) (k : Nat) :
    (traj N P s k).z = preF P s (traj N P s k).r := by
  cases k with
  | zero => exact (initCol_inv2 N P s).zdef
  | succ k => rw [traj_succ]; exact colStep_zdef N P s _ _

theorem traj_z_expand (N : NumOps α) (P : Params α) {n : Nat} (s : Sys α n) (k : Nat) :
    (traj N P s (k + 1)).z = (traj N P s (k + 1)).p - (traj N P s (k + 1)).beta • (traj N P s k).p := by
  have := colStep_p N P s (prep N P s).isZero (traj N P s k)
  rw [← traj_succ] at this
  rw [this]; funext i; simp

theorem traj_z_zero (N : NumOps α) (P : Params α) {n : Nat} (s : Sys α n) :
    (traj N P s 0).z = (traj N P s 0).p := by
  cases hp : P.precond <;> simp [traj, iterCol, initCol, hp]

theorem full_orthogonality {N : NumOps α} (hN : Lawful N) (P : Params α) (he : 0 < P.eps) {n : Nat}
    {s : Sys α n} (hA : LinSym s.amul) (hM : ∀ u v, dot u (preF P s v) = dot (preF P s u) v)
    (xs : Vec α n) (hxs : s.amul xs = (prep N P s).b) (m : Nat)
    (hreg : ∀ j < m, Regular P s (traj N P s j)) :
    ∀ k ≤ m, Inv2 P s (prep N P s).b (traj N P s k) ∧
      ∀ i < k, dot (traj N P s k).r (traj N P s i).z = 0 ∧
               dot (traj N P s k).p (s.amul (traj N P s i).p) = 0 := by
  intro k
  induction k with
  | zero => intro _; exact ⟨initCol_inv2 N P s, fun i hi => absurd hi (Nat.not_lt_zero i)⟩
  | succ k ih =>
    intro hk
    have hkm : k < m := hk
    obtain ⟨hI, hall⟩ := ih (Nat.le_of_lt hkm)
    obtain ⟨hc, hp, hz⟩ := hreg k hkm
    obtain ⟨hI', h1, hconj⟩ := colStep_conjugate hN P he hA hM xs _ hxs (prep N P s).isZero _ hc hp hz hI
    rw [← traj_succ] at hI' h1 hconj
    refine ⟨hI', ?_⟩
    -- symmetric form of conjugacy
    have hsym : ∀ u v : Vec α n, dot u (s.amul v) = dot v (s.amul u) := by
      intro u v; rw [hA.sym, dot_comm]
    -- z_i ⟂_A p_k for i < k
    have hZ : ∀ i < k, dot (traj N P s i).z (s.amul (traj N P s k).p) = 0 := by
      intro i hi
      cases i with
      | zero => rw [traj_z_zero, hsym]; exact (hall 0 hi).2
      | succ i' =>
        rw [traj_z_expand, dot_sub_left, dot_smul_left, hsym _ (traj N P s k).p, hsym _ (traj N P s k).p,
          (hall (i' + 1) hi).2, (hall i' (Nat.lt_of_succ_lt hi)).2]
        ring
    have hr' : (traj N P s (k + 1)).r = (traj N P s k).r
        - alphaF N P s (traj N P s k) • s.amul (traj N P s k).p := by
      rw [traj_succ, colStep_r]
    -- (b') new residual against all earlier z
    have hB : ∀ j ≤ k, dot (traj N P s (k + 1)).r (traj N P s j).z = 0 := by
      intro j hj
      rcases Nat.lt_or_eq_of_le hj with hlt | heq
      · rw [hr', dot_sub_left, dot_smul_left, (hall j hlt).1, dot_comm (s.amul _) _, hZ j hlt]; ring
      · rw [heq]; exact h1
    -- z' against all earlier residuals (symmetry of the preconditioner)
    have hB' : ∀ j ≤ k, dot (traj N P s (k + 1)).z (traj N P s j).r = 0 := by
      intro j hj
      rw [traj_zdef N P s (k + 1), ← hM, ← traj_zdef N P s j]; exact hB j hj
    intro i hi
    rcases Nat.lt_or_eq_of_le (Nat.le_of_lt_succ hi) with hlt | heq
    · refine ⟨hB i (Nat.le_of_lt hlt), ?_⟩
      -- A p_i = (r_i − r_{i+1}) / a_i
      obtain ⟨hci, hpi, hzi⟩ := hreg i (Nat.lt_trans hlt hkm)
      have hai := alphaF_regular hN P s _ hci hpi
      have hposp : 0 < dot (traj N P s i).p (s.amul (traj N P s i).p) := lt_of_lt_of_le he (not_lt.mp hpi)
      have hposz : 0 < (traj N P s i).rz := lt_of_lt_of_le he (not_lt.mp hzi)
      have hane : alphaF N P s (traj N P s i) ≠ 0 := by
        rw [hai]; exact ne_of_gt (div_pos hposz hposp)
      have hri : (traj N P s (i + 1)).r = (traj N P s i).r
          - alphaF N P s (traj N P s i) • s.amul (traj N P s i).p := by
        rw [traj_succ, colStep_r]
      have hApi : s.amul (traj N P s i).p
          = (1 / alphaF N P s (traj N P s i)) • ((traj N P s i).r - (traj N P s (i + 1)).r) := by
        rw [hri]; funext x; simp only [Pi.smul_apply, Pi.sub_apply, smul_eq_mul]; field_simp; ring
      have hp' : (traj N P s (k + 1)).p
          = (traj N P s (k + 1)).z + (traj N P s (k + 1)).beta • (traj N P s k).p := by
        rw [traj_succ, colStep_p]
      have hz0 : dot (traj N P s (k + 1)).z (s.amul (traj N P s i).p) = 0 := by
        rw [hApi, dot_smul_right, dot_sub_right, hB' i (Nat.le_of_lt hlt), hB' (i + 1) hlt]; ring
      rw [hp', dot_add_left, dot_smul_left, hz0, (hall i hlt).2]; ring
    · rw [heq]; exact ⟨h1, hconj⟩

end LinOp.C08
