/-
C08 — the shifted and scaled Chebyshev polynomial: `p(0) = 1`, degree `≤ j`, and
`|p| ≤ 2 ((√κ − 1)/(√κ + 1))^j` on `[a, b]`, `κ = b / a`.
-/
import Mathlib.Analysis.SpecialFunctions.Trigonometric.Chebyshev.RootsExtrema
import Mathlib.Analysis.Real.Sqrt
import Mathlib.Tactic.Ring
import Mathlib.Tactic.Linarith
import Mathlib.Tactic.FieldSimp
import Mathlib.Tactic.Positivity

namespace LinOp.C08.Cheb

open Polynomial Polynomial.Chebyshev

/-- `T_n((y + y⁻¹)/2) = (yⁿ + y⁻ⁿ)/2` -/
theorem T_eval_joukowsky (y : ℝ) (hy : y ≠ 0) (n : ℕ) :
    (T ℝ n).eval ((y + y⁻¹) / 2) = (y ^ n + y⁻¹ ^ n) / 2 ∧
    (T ℝ (n + 1 : ℕ)).eval ((y + y⁻¹) / 2) = (y ^ (n + 1) + y⁻¹ ^ (n + 1)) / 2 := by
  induction n with
  | zero => simp
  | succ n ih =>
    refine ⟨ih.2, ?_⟩
    have hrec : T ℝ ((n + 1 + 1 : ℕ) : ℤ) = 2 * X * T ℝ ((n + 1 : ℕ) : ℤ) - T ℝ (n : ℤ) := by
      have := T_add_two ℝ (n : ℤ)
      push_cast
      rw [show (n : ℤ) + 1 + 1 = (n : ℤ) + 2 by ring]
      exact this
    rw [hrec, eval_sub, eval_mul, eval_mul, eval_ofNat, eval_X, ih.1, ih.2]
    have hyy : y * y⁻¹ = 1 := mul_inv_cancel₀ hy
    have e1 : y ^ (n + 1 + 1) = y * y ^ (n + 1) := by ring
    have e2 : y⁻¹ ^ (n + 1 + 1) = y⁻¹ * y⁻¹ ^ (n + 1) := by ring
    have e3 : y ^ (n + 1) = y * y ^ n := by ring
    have e4 : y⁻¹ ^ (n + 1) = y⁻¹ * y⁻¹ ^ n := by ring
    have e5 : y⁻¹ * (y * y ^ n) = y ^ n := by rw [← mul_assoc, mul_comm y⁻¹ y, hyy, one_mul]
    have e6 : y * (y⁻¹ * y⁻¹ ^ n) = y⁻¹ ^ n := by rw [← mul_assoc, hyy, one_mul]
    rw [e1, e2]
    have : 2 * ((y + y⁻¹) / 2) * ((y ^ (n + 1) + y⁻¹ ^ (n + 1)) / 2) - (y ^ n + y⁻¹ ^ n) / 2
        = (y * y ^ (n + 1) + y⁻¹ * y⁻¹ ^ (n + 1)) / 2
          + (y⁻¹ * y ^ (n + 1) + y * y⁻¹ ^ (n + 1) - y ^ n - y⁻¹ ^ n) / 2 := by ring
    rw [this, e3, e4, e5, e6]; ring

/-- the affine map sending `[a, b]` onto `[−1, 1]` (decreasing), `0 ↦ (b + a)/(b − a)` -/
noncomputable def aff (a b : ℝ) : ℝ[X] := C ((b + a) / (b - a)) - C (2 / (b - a)) * X

theorem aff_eval (a b t : ℝ) : (aff a b).eval t = (b + a) / (b - a) - 2 / (b - a) * t := by
  simp [aff]

theorem aff_natDegree (a b : ℝ) : (aff a b).natDegree ≤ 1 := by
  unfold aff
  refine le_trans (natDegree_sub_le _ _) ?_
  rw [natDegree_C]
  exact max_le (Nat.zero_le _) (le_trans (natDegree_C_mul_le _ _) natDegree_X_le)

/-- the residual polynomial of the Chebyshev iteration for the interval `[a, b]` -/
noncomputable def chebP (a b : ℝ) (j : ℕ) : ℝ[X] :=
  C (1 / (T ℝ j).eval ((b + a) / (b - a))) * (T ℝ j).comp (aff a b)

theorem chebP_natDegree (a b : ℝ) (j : ℕ) : (chebP a b j).natDegree ≤ j := by
  unfold chebP
  refine le_trans (natDegree_C_mul_le _ _) (le_trans natDegree_comp_le ?_)
  rw [natDegree_T]
  calc (j : ℤ).natAbs * (aff a b).natDegree ≤ j * 1 := by
        simpa using Nat.mul_le_mul_left j (aff_natDegree a b)
    _ = j := Nat.mul_one j

section
variable {a b : ℝ} (ha : 0 < a) (hab : a < b)
include ha hab

/-- `y = (√κ + 1)/(√κ − 1)` -/
noncomputable def yOf (a b : ℝ) : ℝ := (Real.sqrt (b / a) + 1) / (Real.sqrt (b / a) - 1)

theorem sqrt_kappa_gt_one : 1 < Real.sqrt (b / a) := by
  rw [show (1 : ℝ) = Real.sqrt 1 by simp]
  apply Real.sqrt_lt_sqrt (by norm_num)
  rw [lt_div_iff₀ ha]; linarith

theorem yOf_pos : 0 < yOf a b := by
  have h := sqrt_kappa_gt_one ha hab
  unfold yOf
  apply div_pos <;> linarith

omit ha hab in
theorem joukowsky_alg (k a : ℝ) (hk : 1 < k) (ha : 0 < a) :
    ((k + 1) / (k - 1) + ((k + 1) / (k - 1))⁻¹) / 2 = (k * k * a + a) / (k * k * a - a) := by
  have h1 : k - 1 ≠ 0 := by linarith
  have h2 : k + 1 ≠ 0 := by linarith
  have hane : a ≠ 0 := ne_of_gt ha
  have hkk : k * k * a - a ≠ 0 := by
    have : k * k * a - a = (k - 1) * (k + 1) * a := by ring
    rw [this]; exact mul_ne_zero (mul_ne_zero h1 h2) hane
  have hk2 : k ^ 2 - 1 ≠ 0 := by
    have : k ^ 2 - 1 = (k - 1) * (k + 1) := by ring
    rw [this]; exact mul_ne_zero h1 h2
  have hk3 : -1 + k ^ 2 ≠ 0 := by rw [neg_add_eq_sub]; exact hk2
  rw [inv_div, div_add_div _ _ h1 h2, div_div, div_eq_div_iff (mul_ne_zero (mul_ne_zero h1 h2) two_ne_zero) hkk]
  ring

theorem yOf_joukowsky : (yOf a b + (yOf a b)⁻¹) / 2 = (b + a) / (b - a) := by
  have h := sqrt_kappa_gt_one ha hab
  have hk : Real.sqrt (b / a) * Real.sqrt (b / a) = b / a :=
    Real.mul_self_sqrt (div_nonneg (by linarith) ha.le)
  have hb : b = Real.sqrt (b / a) * Real.sqrt (b / a) * a := by
    rw [hk]; field_simp
  have := joukowsky_alg (Real.sqrt (b / a)) a h ha
  rw [← hb] at this
  exact this

theorem T_at_x0 (j : ℕ) :
    (T ℝ j).eval ((b + a) / (b - a)) = ((yOf a b) ^ j + (yOf a b)⁻¹ ^ j) / 2 := by
  rw [← yOf_joukowsky ha hab]
  exact (T_eval_joukowsky _ (ne_of_gt (yOf_pos ha hab)) j).1

theorem T_at_x0_lower (j : ℕ) : (yOf a b) ^ j / 2 ≤ (T ℝ j).eval ((b + a) / (b - a)) := by
  rw [T_at_x0 ha hab]
  have : 0 ≤ (yOf a b)⁻¹ ^ j := pow_nonneg (inv_nonneg.mpr (yOf_pos ha hab).le) j
  linarith

theorem T_at_x0_pos (j : ℕ) : 0 < (T ℝ j).eval ((b + a) / (b - a)) :=
  lt_of_lt_of_le (by have := pow_pos (yOf_pos ha hab) j; linarith) (T_at_x0_lower ha hab j)

theorem chebP_eval_zero (j : ℕ) : (chebP a b j).eval 0 = 1 := by
  unfold chebP
  rw [eval_mul, eval_C, eval_comp, aff_eval, mul_zero, sub_zero]
  exact one_div_mul_cancel (ne_of_gt (T_at_x0_pos ha hab j))

omit ha in
theorem aff_mem (t : ℝ) (h1 : a ≤ t) (h2 : t ≤ b) : |(aff a b).eval t| ≤ 1 := by
  have hba : 0 < b - a := by linarith
  rw [aff_eval, abs_le]
  have e : (b + a) / (b - a) - 2 / (b - a) * t = (b + a - 2 * t) / (b - a) := by field_simp
  rw [e]
  constructor
  · rw [le_div_iff₀ hba]; linarith
  · rw [div_le_one hba]; linarith

/-- `|p(t)| ≤ 2 ρ^j` on `[a, b]`, in squared form, `ρ = (√κ − 1)/(√κ + 1)` -/
theorem chebP_bound (j : ℕ) (t : ℝ) (h1 : a ≤ t) (h2 : t ≤ b) :
    ((chebP a b j).eval t) ^ 2
      ≤ (2 * ((Real.sqrt (b / a) - 1) / (Real.sqrt (b / a) + 1)) ^ j) ^ 2 := by
  have hk := sqrt_kappa_gt_one ha hab
  have hy := yOf_pos ha hab
  have hτ := T_at_x0_pos ha hab j
  have hlow := T_at_x0_lower ha hab j
  have hT : |(T ℝ j).eval ((aff a b).eval t)| ≤ 1 := abs_eval_T_real_le_one j (aff_mem hab t h1 h2)
  have hrho : (Real.sqrt (b / a) - 1) / (Real.sqrt (b / a) + 1) = (yOf a b)⁻¹ := by
    unfold yOf; rw [inv_div]
  rw [hrho]
  unfold chebP
  rw [eval_mul, eval_C, eval_comp]
  set τ := (T ℝ j).eval ((b + a) / (b - a)) with hτdef
  set w := (T ℝ j).eval ((aff a b).eval t) with hwdef
  have hypow : 0 < (yOf a b) ^ j := pow_pos hy j
  -- 1/τ ≤ 2 y⁻ʲ
  have h1τ : 1 / τ ≤ 2 * (yOf a b)⁻¹ ^ j := by
    rw [inv_pow, div_le_iff₀ hτ]
    have : 2 * ((yOf a b) ^ j)⁻¹ * ((yOf a b) ^ j / 2) = 1 := by field_simp
    calc (1 : ℝ) = 2 * ((yOf a b) ^ j)⁻¹ * ((yOf a b) ^ j / 2) := this.symm
      _ ≤ 2 * ((yOf a b) ^ j)⁻¹ * τ := by
          apply mul_le_mul_of_nonneg_left hlow
          positivity
  have habs : |1 / τ * w| ≤ 2 * (yOf a b)⁻¹ ^ j := by
    rw [abs_mul, abs_of_pos (by positivity : 0 < 1 / τ)]
    calc 1 / τ * |w| ≤ 1 / τ * 1 := by
          apply mul_le_mul_of_nonneg_left hT; positivity
      _ = 1 / τ := mul_one _
      _ ≤ _ := h1τ
  have hnn : 0 ≤ 2 * (yOf a b)⁻¹ ^ j := by positivity
  rw [← sq_abs (1 / τ * w)]
  exact pow_le_pow_left₀ (abs_nonneg _) habs 2

end
end LinOp.C08.Cheb
