/-
C08 — the classical Chebyshev rate of CG over ℝ (unpreconditioned kernel): minimax form + spectral theorem +
Chebyshev polynomial.
-/
import LinOp.C08.Proofs12
import LinOp.C08.Proofs13

set_option linter.unusedSectionVars false
namespace LinOp.C08

open Polynomial

/-- the convergence factor `(√κ − 1)/(√κ + 1)`, `κ = lmax / lmin` -/
noncomputable def rho (lmin lmax : ℝ) : ℝ := (Real.sqrt (lmax / lmin) - 1) / (Real.sqrt (lmax / lmin) + 1)

theorem rho_nonneg {lmin lmax : ℝ} (hpos : 0 < lmin) (hle : lmin ≤ lmax) : 0 ≤ rho lmin lmax := by
  have h1 : 1 ≤ Real.sqrt (lmax / lmin) := by
    rw [show (1 : ℝ) = Real.sqrt 1 by simp]
    apply Real.sqrt_le_sqrt
    rw [le_div_iff₀ hpos]; linarith
  unfold rho
  apply div_nonneg <;> linarith

theorem rho_lt_one {lmin lmax : ℝ} : rho lmin lmax < 1 := by
  have h0 : 0 ≤ Real.sqrt (lmax / lmin) := Real.sqrt_nonneg _
  unfold rho
  rw [div_lt_one (by linarith)]; linarith

section generic
variable {ι : Type} [Fintype ι] [DecidableEq ι]

/-- **Chebyshev rate from an eigenbasis** (either kernel): if the spectrum `E.lam` of the preconditioned operator lies in
`[lmin, lmax]`, `0 < lmin ≤ lmax`, then `‖x* − x_j‖²_A ≤ (2 ρ^j)² ‖x* − x_0‖²_A`. -/
theorem chebyshev_rate_E {N : NumOps ℝ} (hN : Lawful N) (P : Params ℝ) (he : 0 < P.eps)
    {n : Nat} {s : Sys ℝ n} (hA : LinSym s.amul) (hpsd : ∀ v, 0 ≤ dot v (s.amul v))
    (hM : ∀ u v, dot u (preF P s v) = dot (preF P s u) v) (hMl : Lin (preF P s))
    (E : AEig ι P s) (lmin lmax : ℝ) (hpos : 0 < lmin) (hle : lmin ≤ lmax)
    (hE : ∀ i, lmin ≤ E.lam i ∧ E.lam i ≤ lmax)
    (xs : Vec ℝ n) (hxs : s.amul xs = (prep N P s).b) (j : Nat)
    (hreg : ∀ i < j, Regular P s (traj N P s i)) :
    errA s xs (traj N P s j).x ≤ (2 * rho lmin lmax ^ j) ^ 2 * errA s xs (traj N P s 0).x := by
  rcases lt_or_eq_of_le hle with hlt | heq
  · -- κ > 1: the Chebyshev polynomial of the interval
    exact minimax_p hN P he hA hpsd hM hMl xs hxs j hreg E
      (Cheb.chebP lmin lmax j) (Cheb.chebP_eval_zero hpos hlt j) (Cheb.chebP_natDegree lmin lmax j) _
      (fun i => Cheb.chebP_bound hpos hlt j _ (hE i).1 (hE i).2)
  · -- κ = 1: one step is exact
    subst heq
    have hr : rho lmin lmin = 0 := by
      unfold rho; rw [div_self (ne_of_gt hpos)]; simp
    rcases Nat.eq_zero_or_pos j with h0 | hj
    · subst h0
      rw [hr]; norm_num
      have := hpsd (xs - (traj N P s 0).x)
      unfold errA; linarith
    · have hz : (2 * rho lmin lmin ^ j) ^ 2 = 0 := by
        rw [hr, zero_pow (by omega : j ≠ 0)]; norm_num
      rw [hz]
      refine minimax_p hN P he hA hpsd hM hMl xs hxs j hreg E
        (C 1 - C (1 / lmin) * X) (by simp) ?_ 0 ?_
      · refine le_trans (natDegree_sub_le _ _) ?_
        rw [natDegree_C]
        exact max_le (Nat.zero_le _) (le_trans (natDegree_C_mul_le _ _) (le_trans natDegree_X_le hj))
      · intro i
        have : E.lam i = lmin := le_antisymm (hE i).2 (hE i).1
        rw [this]
        simp [ne_of_gt hpos]

/-- A-norm (square-root) form. -/
theorem chebyshev_rate_E_norm {N : NumOps ℝ} (hN : Lawful N) (P : Params ℝ) (he : 0 < P.eps)
    {n : Nat} {s : Sys ℝ n} (hA : LinSym s.amul) (hpsd : ∀ v, 0 ≤ dot v (s.amul v))
    (hM : ∀ u v, dot u (preF P s v) = dot (preF P s u) v) (hMl : Lin (preF P s))
    (E : AEig ι P s) (lmin lmax : ℝ) (hpos : 0 < lmin) (hle : lmin ≤ lmax)
    (hE : ∀ i, lmin ≤ E.lam i ∧ E.lam i ≤ lmax)
    (xs : Vec ℝ n) (hxs : s.amul xs = (prep N P s).b) (j : Nat)
    (hreg : ∀ i < j, Regular P s (traj N P s i)) :
    Real.sqrt (errA s xs (traj N P s j).x)
      ≤ 2 * rho lmin lmax ^ j * Real.sqrt (errA s xs (traj N P s 0).x) := by
  have h := chebyshev_rate_E hN P he hA hpsd hM hMl E lmin lmax hpos hle hE xs hxs j hreg
  have hnn : 0 ≤ 2 * rho lmin lmax ^ j := by
    have := pow_nonneg (rho_nonneg hpos hle) j
    linarith
  calc Real.sqrt (errA s xs (traj N P s j).x)
      ≤ Real.sqrt ((2 * rho lmin lmax ^ j) ^ 2 * errA s xs (traj N P s 0).x) := Real.sqrt_le_sqrt h
    _ = 2 * rho lmin lmax ^ j * Real.sqrt (errA s xs (traj N P s 0).x) := by
        rw [Real.sqrt_mul (sq_nonneg _), Real.sqrt_sq hnn]

end generic

theorem preF_lin_of_noprecond (P : Params ℝ) {n : Nat} (s : Sys ℝ n) (hnp : P.precond = false) : Lin (preF P s) :=
  { add := fun u v => by simp [preF, hnp]
    smul := fun c u => by simp [preF, hnp] }

theorem psd_of_lower {n : Nat} {s : Sys ℝ n} (lmin : ℝ) (hpos : 0 < lmin)
    (hlo : ∀ v, lmin * dot v v ≤ dot v (s.amul v)) : ∀ v, 0 ≤ dot v (s.amul v) := fun v =>
  le_trans (mul_nonneg hpos.le (dot_self_nonneg v)) (hlo v)

/-- Generic consequence of the minimax theorem over ℝ for the unpreconditioned kernel: any polynomial with
`p(0) = 1`, degree `≤ j`, bounded by `B` (squared) on `[lmin, lmax]`. -/
theorem rate_of_poly {N : NumOps ℝ} (hN : Lawful N) (P : Params ℝ) (he : 0 < P.eps) (hnp : P.precond = false)
    {n : Nat} {s : Sys ℝ n} (hA : LinSym s.amul) (lmin lmax : ℝ) (hpos : 0 < lmin)
    (hlo : ∀ v, lmin * dot v v ≤ dot v (s.amul v)) (hhi : ∀ v, dot v (s.amul v) ≤ lmax * dot v v)
    (xs : Vec ℝ n) (hxs : s.amul xs = (prep N P s).b) (j : Nat)
    (hreg : ∀ i < j, Regular P s (traj N P s i))
    (p : ℝ[X]) (hp0 : p.eval 0 = 1) (hpd : p.natDegree ≤ j) (B : ℝ)
    (hB : ∀ t, lmin ≤ t → t ≤ lmax → (p.eval t) ^ 2 ≤ B) :
    errA s xs (traj N P s j).x ≤ B * errA s xs (traj N P s 0).x := by
  refine minimax_p hN P he hA (psd_of_lower lmin hpos hlo) (preF_sym_of_noprecond P s hnp)
    (preF_lin_of_noprecond P s hnp) xs hxs j hreg (aeigOfSym P hnp s hA) p hp0 hpd B ?_
  intro i
  obtain ⟨h1, h2⟩ := eigVal_bounds hA lmin lmax hlo hhi i
  exact hB _ h1 h2

/-- **Chebyshev rate**, squared A-norm form (unpreconditioned kernel). -/
theorem chebyshev_rate_sq {N : NumOps ℝ} (hN : Lawful N) (P : Params ℝ) (he : 0 < P.eps) (hnp : P.precond = false)
    {n : Nat} {s : Sys ℝ n} (hA : LinSym s.amul) (lmin lmax : ℝ) (hpos : 0 < lmin) (hle : lmin ≤ lmax)
    (hlo : ∀ v, lmin * dot v v ≤ dot v (s.amul v)) (hhi : ∀ v, dot v (s.amul v) ≤ lmax * dot v v)
    (xs : Vec ℝ n) (hxs : s.amul xs = (prep N P s).b) (j : Nat)
    (hreg : ∀ i < j, Regular P s (traj N P s i)) :
    errA s xs (traj N P s j).x ≤ (2 * rho lmin lmax ^ j) ^ 2 * errA s xs (traj N P s 0).x :=
  chebyshev_rate_E hN P he hA (psd_of_lower lmin hpos hlo) (preF_sym_of_noprecond P s hnp)
    (preF_lin_of_noprecond P s hnp) (aeigOfSym P hnp s hA) lmin lmax hpos hle
    (fun i => eigVal_bounds hA lmin lmax hlo hhi i) xs hxs j hreg

/-- **Chebyshev rate**, A-norm form: `‖x* − x_j‖_A ≤ 2 ρ^j ‖x* − x_0‖_A` (unpreconditioned kernel). -/
theorem chebyshev_rate_norm {N : NumOps ℝ} (hN : Lawful N) (P : Params ℝ) (he : 0 < P.eps) (hnp : P.precond = false)
    {n : Nat} {s : Sys ℝ n} (hA : LinSym s.amul) (lmin lmax : ℝ) (hpos : 0 < lmin) (hle : lmin ≤ lmax)
    (hlo : ∀ v, lmin * dot v v ≤ dot v (s.amul v)) (hhi : ∀ v, dot v (s.amul v) ≤ lmax * dot v v)
    (xs : Vec ℝ n) (hxs : s.amul xs = (prep N P s).b) (j : Nat)
    (hreg : ∀ i < j, Regular P s (traj N P s i)) :
    Real.sqrt (errA s xs (traj N P s j).x)
      ≤ 2 * rho lmin lmax ^ j * Real.sqrt (errA s xs (traj N P s 0).x) :=
  chebyshev_rate_E_norm hN P he hA (psd_of_lower lmin hpos hlo) (preF_sym_of_noprecond P s hnp)
    (preF_lin_of_noprecond P s hnp) (aeigOfSym P hnp s hA) lmin lmax hpos hle
    (fun i => eigVal_bounds hA lmin lmax hlo hhi i) xs hxs j hreg

end LinOp.C08
