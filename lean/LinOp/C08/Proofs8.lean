/-
C08 — symmetric (i ≠ j) forms of orthogonality / conjugacy, termination within n steps, and a lawful scalar
instance over ℝ with a concrete regular trajectory (satisfiability of the hypotheses).
-/
import LinOp.C08.Proofs7
import Mathlib.Analysis.Real.Sqrt

set_option linter.unusedSectionVars false
namespace LinOp.C08

variable {α : Type} [Field α] [LinearOrder α] [IsStrictOrderedRing α]

theorem preF_sym_of_noprecond (P : Params α) {n : Nat} (s : Sys α n) (h : P.precond = false) :
    ∀ u v : Vec α n, dot u (preF P s v) = dot (preF P s u) v := by
  intro u v; simp [preF, h]

theorem preF_id_of_noprecond (P : Params α) {n : Nat} (s : Sys α n) (h : P.precond = false) (v : Vec α n) :
    preF P s v = v := by simp [preF, h]

/-- residuals against preconditioned residuals, both orders -/
theorem residuals_M_orthogonal {N : NumOps α} (hN : Lawful N) (P : Params α) (he : 0 < P.eps) {n : Nat}
    {s : Sys α n} (hA : LinSym s.amul) (hM : ∀ u v, dot u (preF P s v) = dot (preF P s u) v)
    (xs : Vec α n) (hxs : s.amul xs = (prep N P s).b) (m : Nat)
    (hreg : ∀ j < m, Regular P s (traj N P s j)) (i j : Nat) (hi : i ≤ m) (hj : j ≤ m) (hij : i ≠ j) :
    dot (traj N P s i).r (traj N P s j).z = 0 := by
  have full := full_orthogonality hN P he hA hM xs hxs m hreg
  rcases Nat.lt_or_gt_of_ne hij with h | h
  · rw [traj_zdef N P s j, hM, ← traj_zdef N P s i, dot_comm]
    exact ((full j hj).2 i h).1
  · exact ((full i hi).2 j h).1

theorem directions_conjugate {N : NumOps α} (hN : Lawful N) (P : Params α) (he : 0 < P.eps) {n : Nat}
    {s : Sys α n} (hA : LinSym s.amul) (hM : ∀ u v, dot u (preF P s v) = dot (preF P s u) v)
    (xs : Vec α n) (hxs : s.amul xs = (prep N P s).b) (m : Nat)
    (hreg : ∀ j < m, Regular P s (traj N P s j)) (i j : Nat) (hi : i ≤ m) (hj : j ≤ m) (hij : i ≠ j) :
    dot (traj N P s i).p (s.amul (traj N P s j).p) = 0 := by
  have full := full_orthogonality hN P he hA hM xs hxs m hreg
  rcases Nat.lt_or_gt_of_ne hij with h | h
  · rw [hA.sym, dot_comm]
    exact ((full j hj).2 i h).2
  · exact ((full i hi).2 j h).2

/-- no `n + 1` regular steps on an `n × n` system: the `n`-th state cannot be regular once the first `n` were -/
theorem not_regular_at_n {N : NumOps α} (hN : Lawful N) (P : Params α) (he : 0 < P.eps) {n : Nat}
    {s : Sys α n} (hA : LinSym s.amul) (hM : ∀ u v, dot u (preF P s v) = dot (preF P s u) v)
    (xs : Vec α n) (hxs : s.amul xs = (prep N P s).b)
    (hreg : ∀ j < n, Regular P s (traj N P s j)) : ¬ Regular P s (traj N P s n) := by
  intro h
  have h0 := exact_at_n hN P he hA hM xs hxs hreg
  have hI := (full_orthogonality hN P he hA hM xs hxs n hreg n (le_refl n)).1
  have : (traj N P s n).rz = 0 := by rw [hI.rzdef, h0, dot_zero_left]
  exact h.2.2 (by rw [this]; exact he)

/-! ### a lawful instance: ℝ with `Real.sqrt` -/

noncomputable def realOps : NumOps ℝ :=
  { sqrt := Real.sqrt, lt := fun a b => decide (a < b), eqz := fun a => decide (a = 0), isNan := fun _ => false }

theorem realOps_lawful : Lawful realOps :=
  { lt_iff := fun a b => by simp [realOps]
    eqz_iff := fun a => by simp [realOps]
    no_nan := fun _ => rfl
    sqrt_nonneg := fun a => Real.sqrt_nonneg a
    sqrt_sq := fun a h => Real.mul_self_sqrt h }

/-- the 1×1 system `2·x = 1` over ℝ, default thresholds -/
noncomputable def realSys : Sys ℝ 1 :=
  { amul := fun v => fun i => 2 * v i, pre := fun v => v, rhs := fun _ => 1, x0 := fun _ => 0, tri := false }

noncomputable def realParams : Params ℝ :=
  { eps := 1 / 10000000000, stopAfter := 1 / 10000000000, tol := 1, maxIter := 1000, maxTridiagIter := 20,
    nTridiag := 0, terminateBySize := false, precond := false, iterFloor := 10, triOff := 1 / 1000000 }

theorem realSys_linSym : LinSym realSys.amul :=
  { add := fun u v => by funext i; simp [realSys, mul_add]
    smul := fun c u => by funext i; simp [realSys, mul_left_comm]
    sym := fun u v => by simp [realSys, dot_eq, mul_left_comm, mul_comm] }

theorem realSys_regular : Regular realParams realSys (traj realOps realParams realSys 0) := by
  have hb : (fun _ : Fin 1 => (1 : ℝ)) = fun _ => 1 := rfl
  refine ⟨?_, ?_, ?_⟩ <;>
    simp [traj, iterCol, initCol, prep, realSys, realParams, realOps, norm2, dot_eq, Regular] <;> norm_num

end LinOp.C08
