import LinOp.Core.Parse
import LinOp.C08.Model
import LinOp.Generated.C08Consts
/-!
Line-protocol driver for the C08 model, run on IEEE binary64 (`Float`, the format of `torch.float64`).
Floats travel as their 64 bit patterns in decimal (exact in both directions).

input (space separated):
  `n eps stop tol maxIter maxTri nTri term precond K A_1 … A_K M_1 … M_K C col_1 … col_C`
    eps/stop/tol : bit pattern or `d` (generated default of the source)
    maxIter/maxTri : natural or `d` (generated settings default);  term/precond : 0|1
    A_k, M_k : matrices `r1c1,r1c2;r2c1,…` of bit patterns (`-` for "no preconditioner")
    col_j : `k:tri:rhs:x0` (matrix index, 0|1, vectors as comma lists)
output:
  `err=<ok|limit|nan> iters=.. warn=.. pre=.. tsize=.. x=<v;v;…> t=<m|m|…> rns=<..> trace=<call|call|…>`
-/
open LinOp LinOp.C08 LinOp.Parse

instance : Zero Float := ⟨Float.ofNat 0⟩
instance : One Float := ⟨Float.ofNat 1⟩

def floatOps : NumOps Float :=
  { sqrt := Float.sqrt, lt := fun a b => decide (a < b), eqz := fun a => a == 0, isNan := Float.isNaN }

def ratToFloat (r : Rat) : Float := Float.ofInt r.num / Float.ofNat r.den

def fbits? (s : String) : Option Float := s.toNat?.map fun k => Float.ofBits (UInt64.ofNat k)
def showF (x : Float) : String := toString x.toBits.toNat

def fvec? (s : String) : Option (Array Float) := (parseList? fbits? s).map List.toArray
def fmat? (s : String) : Option (Array (Array Float)) :=
  if s = "-" then some #[] else ((s.splitOn ";").mapM fvec?).map List.toArray

def vecOf (n : Nat) (a : Array Float) : Vec Float n := fun i => a[i.1]!

def matVec (n : Nat) (A : Array (Array Float)) (v : Vec Float n) : Vec Float n :=
  fun i => sumFin n fun j => (A[i.1]!)[j.1]! * v j

def showVec {n : Nat} (v : Vec Float n) : String := showList showF ((List.finRange n).map v)

def optF (dflt : Rat) (s : String) : Option Float := if s = "d" then some (ratToFloat dflt) else fbits? s
def optN (dflt : Nat) (s : String) : Option Nat := if s = "d" then some dflt else s.toNat?

def parseCol (n : Nat) (As Ms : Array (Array (Array Float))) (s : String) : Option (Sys Float n) :=
  match s.splitOn ":" with
  | [k, tri, rhs, x0] => do
    let k ← k.toNat?
    let rhs ← fvec? rhs
    let x0 ← fvec? x0
    let A := As[k]!
    let M := Ms[k]!
    pure { amul := matVec n A, pre := if M.isEmpty then id else matVec n M, rhs := vecOf n rhs, x0 := vecOf n x0,
           tri := tri = "1" }
  | _ => none

def runLine (line : String) : String :=
  match words line with
  | n :: eps :: stop :: tol :: mi :: mt :: nt :: term :: pc :: k :: rest =>
    match n.toNat?, optF Generated.C08.eps eps, optF Generated.C08.stopUpdatingAfter stop,
          optF Generated.C08.cgTolerance tol, optN Generated.C08.maxCgIterations mi,
          optN Generated.C08.maxLanczosQuadratureIterations mt, nt.toNat?, k.toNat? with
    | some n, some eps, some stop, some tol, some mi, some mt, some nt, some k =>
      match (rest.take k).mapM fmat?, ((rest.drop k).take k).mapM fmat? with
      | some As, some Ms =>
        match ((rest.drop (2 * k)).drop 1).mapM (parseCol n As.toArray Ms.toArray) with
        | some sys =>
          let P : Params Float :=
            { eps := eps, stopAfter := stop, tol := tol, maxIter := mi, maxTridiagIter := mt, nTridiag := nt,
              terminateBySize := term = "1", precond := pc = "1",
              iterFloor := Generated.C08.iterFloor, triOff := ratToFloat Generated.C08.triOff }
          match linearCg floatOps P sys with
          | .error .tridiagLimit => "err=limit"
          | .error .nan => "err=nan"
          | .ok o =>
            let xs := ";".intercalate (o.x.map showVec)
            let ts := "|".intercalate (o.t.map fun t =>
              ";".intercalate ((List.range o.tSize).map fun i => showList showF ((List.range o.tSize).map fun j => t i j)))
            let tr := "|".intercalate (o.amulTrace.map fun call => ";".intercalate (call.map showVec))
            s!"err=ok iters={o.iters} warn={if o.warn then 1 else 0} pre={if o.preCalled then 1 else 0} tsize={o.tSize} x={xs} t={ts} rns={showList showF o.rns} trace={tr}"
        | none => "bad-cols"
      | _, _ => "bad-mats"
    | _, _, _, _, _, _, _, _ => "bad-args"
  | _ => "bad-line"

def main : IO Unit := do
  let h ← IO.getStdin
  loop h () fun s line => (s, runLine line)
