/-
C08 — per-column invariants: true residual, frozen columns, zero columns, scaling, A-norm decrease.
-/
import LinOp.C08.Proofs

set_option linter.unusedSectionVars false
namespace LinOp.C08

variable {α : Type} [Field α] [LinearOrder α] [IsStrictOrderedRing α]

/-! ### recurrence residual = true residual -/

theorem colStep_residual (N : NumOps α) (P : Params α) {n : Nat} {s : Sys α n} (hA : Lin s.amul)
    (b : Vec α n) (iz : Bool) (c : Col α n) (h : c.r = b - s.amul c.x) :
    (colStep N P s iz c).r = b - s.amul (colStep N P s iz c).x := by
  rw [colStep_r, colStep_x, hA.add, hA.smul, h]
  funext i; simp; ring

theorem initCol_residual (N : NumOps α) (P : Params α) {n : Nat} (s : Sys α n) :
    (initCol N P s (prep N P s)).r = (prep N P s).b - s.amul (prep N P s).g := by
  funext i; simp [initCol, prep]

theorem iterCol_residual (N : NumOps α) (P : Params α) {n : Nat} {s : Sys α n} (hA : Lin s.amul)
    (b : Vec α n) (iz : Bool) (c : Col α n) (h : c.r = b - s.amul c.x) (k : Nat) :
    (iterCol N P s iz k c).r = b - s.amul (iterCol N P s iz k c).x := by
  induction k with
  | zero => exact h
  | succ k ih => exact colStep_residual N P hA b iz _ ih

/-! ### frozen columns -/

/-- `has_converged` is set and will be set again by the next norm test. -/
def Frozen (N : NumOps α) (P : Params α) {n : Nat} (iz : Bool) (c : Col α n) : Prop :=
  c.conv = true ∧ (iz = true ∨ N.lt (norm2 N c.r) P.stopAfter = true)

theorem colStep_frozen {N : NumOps α} (hN : Lawful N) (P : Params α) (hs : 0 < P.stopAfter) {n : Nat}
    (s : Sys α n) (iz : Bool) (c : Col α n) (h : Frozen N P iz c) :
    (colStep N P s iz c).x = c.x ∧ (colStep N P s iz c).r = c.r ∧ Frozen N P iz (colStep N P s iz c) := by
  have ha : alphaF N P s c = 0 := alphaF_of_conv N P s c h.1
  have hx : (colStep N P s iz c).x = c.x := by rw [colStep_x, ha]; funext i; simp
  have hr : (colStep N P s iz c).r = c.r := by rw [colStep_r, ha]; funext i; simp
  refine ⟨hx, hr, ?_⟩
  have hc : (colStep N P s iz c).conv = true := by
    rw [colStep_conv, hr]
    rcases h.2 with h2 | h2
    · simp [h2, (hN.lt_iff 0 P.stopAfter).mpr hs]
    · cases iz
      · simpa using h2
      · simp [(hN.lt_iff 0 P.stopAfter).mpr hs]
  refine ⟨hc, ?_⟩
  rcases h.2 with h2 | h2
  · exact Or.inl h2
  · exact Or.inr (by rw [hr]; exact h2)

theorem frozen_of_step (N : NumOps α) (P : Params α) {n : Nat} (s : Sys α n) (iz : Bool) (c : Col α n)
    (h : (colStep N P s iz c).conv = true) : Frozen N P iz (colStep N P s iz c) := by
  refine ⟨h, ?_⟩
  rw [colStep_conv] at h
  cases iz
  · exact Or.inr (by simpa using h)
  · exact Or.inl rfl

theorem frozen_of_init (N : NumOps α) (P : Params α) {n : Nat} (s : Sys α n) (q : Prep α n) (iz : Bool)
    (h : (initCol N P s q).conv = true) : Frozen N P iz (initCol N P s q) := by
  refine ⟨h, Or.inr ?_⟩
  simpa [initCol] using h

theorem iterCol_frozen {N : NumOps α} (hN : Lawful N) (P : Params α) (hs : 0 < P.stopAfter) {n : Nat}
    (s : Sys α n) (iz : Bool) (c : Col α n) (h : Frozen N P iz c) (k : Nat) :
    (iterCol N P s iz k c).x = c.x ∧ (iterCol N P s iz k c).r = c.r ∧ Frozen N P iz (iterCol N P s iz k c) := by
  induction k with
  | zero => exact ⟨rfl, rfl, h⟩
  | succ k ih =>
    obtain ⟨h1, h2, h3⟩ := colStep_frozen hN P hs s iz _ ih.2.2
    exact ⟨h1.trans ih.1, h2.trans ih.2.1, h3⟩

/-! ### zero columns -/

def ZeroCol {n : Nat} (c : Col α n) : Prop := c.x = 0 ∧ c.r = 0 ∧ c.z = 0 ∧ c.p = 0 ∧ c.rz = 0

theorem colStep_zero {N : NumOps α} (hN : Lawful N) (P : Params α) (he : 0 < P.eps) {n : Nat}
    {s : Sys α n} (hA : Lin s.amul) (hM : s.pre 0 = 0) (iz : Bool) (c : Col α n) (h : ZeroCol c) :
    ZeroCol (colStep N P s iz c) := by
  obtain ⟨hx, hr, _, hp, hrz⟩ := h
  have hlt : N.lt (0 : α) P.eps = true := (hN.lt_iff 0 P.eps).mpr he
  have ha : alphaF N P s c = 0 := by
    simp [alphaF, alphaOf, hp, hA.map_zero, dot_zero_left, hlt]
  have hx' : (colStep N P s iz c).x = 0 := by rw [colStep_x, ha, hx, hp]; funext i; simp
  have hr' : (colStep N P s iz c).r = 0 := by rw [colStep_r, ha, hr]; funext i; simp
  have hz' : (colStep N P s iz c).z = 0 := by
    rw [colStep_z, hr']; cases P.precond <;> simp [hM]
  have hrz' : (colStep N P s iz c).rz = 0 := by rw [colStep_rz, hr', dot_zero_left]
  have hb' : (colStep N P s iz c).beta = 0 := by rw [colStep_beta, hrz, hlt]; simp
  have hp' : (colStep N P s iz c).p = 0 := by rw [colStep_p, hz', hb', hp]; funext i; simp
  exact ⟨hx', hr', hz', hp', hrz'⟩

theorem prep_zero {N : NumOps α} (hN : Lawful N) (P : Params α) (he : 0 < P.eps) {n : Nat}
    {s : Sys α n} (hA : Lin s.amul) (hr : s.rhs = 0) (hx : s.x0 = 0) :
    (prep N P s).g = 0 ∧ (prep N P s).r0 = 0 ∧ (prep N P s).isZero = true := by
  have hn : norm2 N s.rhs = 0 := by rw [hr, norm2, dot_zero_left, hN.sqrt_zero]
  have hlt : N.lt (0 : α) P.eps = true := (hN.lt_iff 0 P.eps).mpr he
  have hg : (prep N P s).g = 0 := by funext i; simp [prep, hx]
  have hb : (prep N P s).b = 0 := by funext i; simp [prep, hr]
  have hr0 : (prep N P s).r0 = (prep N P s).b - s.amul (prep N P s).g := by funext i; simp [prep]
  refine ⟨hg, ?_, ?_⟩
  · rw [hr0, hb, hg, hA.map_zero]; simp
  · simp [prep, hn, hlt]

theorem initCol_zero {N : NumOps α} (P : Params α) {n : Nat} {s : Sys α n} (hM : s.pre 0 = 0)
    (q : Prep α n) (hg : q.g = 0) (hr : q.r0 = 0) : ZeroCol (initCol N P s q) := by
  have hz : (initCol N P s q).z = 0 := by
    cases hp : P.precond <;> simp [initCol, hp, hr, hM]
  refine ⟨by simp [initCol, hg], by simp [initCol, hr], hz, ?_, ?_⟩
  · cases hp : P.precond <;> simp [initCol, hp, hr, hM]
  · cases hp : P.precond <;> simp [initCol, hp, hr, hM, dot_zero_left]

theorem iterCol_zero {N : NumOps α} (hN : Lawful N) (P : Params α) (he : 0 < P.eps) {n : Nat}
    {s : Sys α n} (hA : Lin s.amul) (hM : s.pre 0 = 0) (iz : Bool) (c : Col α n) (h : ZeroCol c) (k : Nat) :
    ZeroCol (iterCol N P s iz k c) := by
  induction k with
  | zero => exact h
  | succ k ih => exact colStep_zero hN P he hA hM iz _ ih

/-! ### A-norm error -/

/-- squared A-norm of the error `xs − x`. -/
def errA {n : Nat} (s : Sys α n) (xs x : Vec α n) : α := dot (xs - x) (s.amul (xs - x))

/-- The one-step invariant that keeps CG a descent method: the recurrence residual is the true
residual and `pᵀr = rᵀz`. -/
structure Inv {n : Nat} (s : Sys α n) (b : Vec α n) (c : Col α n) : Prop where
  res : c.r = b - s.amul c.x
  pr : dot c.p c.r = c.rz

theorem initCol_inv (N : NumOps α) (P : Params α) {n : Nat} (s : Sys α n) :
    Inv s (prep N P s).b (initCol N P s (prep N P s)) := by
  refine ⟨initCol_residual N P s, ?_⟩
  cases hp : P.precond <;> simp [initCol, hp]

/-- A regular step (column not frozen, `pᵀAp ≥ eps`): invariant preserved, new residual orthogonal
to the old direction, and the squared A-norm error drops by `(rᵀz)² / pᵀAp`. -/
theorem colStep_regular {N : NumOps α} (hN : Lawful N) (P : Params α) (he : 0 < P.eps) {n : Nat}
    {s : Sys α n} (hA : LinSym s.amul) (xs b : Vec α n) (hxs : s.amul xs = b) (iz : Bool) (c : Col α n)
    (hc : c.conv = false) (hp : ¬ dot c.p (s.amul c.p) < P.eps) (hI : Inv s b c) :
    Inv s b (colStep N P s iz c) ∧ dot c.p (colStep N P s iz c).r = 0 ∧
      errA s xs (colStep N P s iz c).x = errA s xs c.x - c.rz ^ 2 / dot c.p (s.amul c.p) := by
  have hpos : 0 < dot c.p (s.amul c.p) := lt_of_lt_of_le he (not_lt.mp hp)
  have hne : dot c.p (s.amul c.p) ≠ 0 := ne_of_gt hpos
  have ha := alphaF_regular hN P s c hc hp
  have hr' : (colStep N P s iz c).r = c.r - (c.rz / dot c.p (s.amul c.p)) • s.amul c.p := by
    rw [colStep_r, ha]
  have horth : dot c.p (colStep N P s iz c).r = 0 := by
    rw [hr', dot_sub_right, dot_smul_right, hI.pr]; field_simp; ring
  refine ⟨⟨colStep_residual N P hA.toLin b iz c hI.res, ?_⟩, horth, ?_⟩
  · rw [colStep_p, dot_add_left, dot_smul_left, horth, colStep_rz, dot_comm]; ring
  · have hx' : (colStep N P s iz c).x = c.x + (c.rz / dot c.p (s.amul c.p)) • c.p := by
      rw [colStep_x, ha]
    have hexp : xs - (c.x + (c.rz / dot c.p (s.amul c.p)) • c.p)
        = (xs - c.x) - (c.rz / dot c.p (s.amul c.p)) • c.p := by
      funext i; simp; ring
    have hAe : s.amul (xs - c.x) = c.r := by rw [hA.toLin.map_sub, hxs, hI.res]
    have h1 : dot (xs - c.x) (s.amul c.p) = c.rz := by rw [hA.sym, hAe, dot_comm, hI.pr]
    unfold errA
    rw [hx', hexp, hA.toLin.map_sub, hA.toLin.smul, dot_sub_left, dot_sub_right, dot_sub_right,
      dot_smul_left, dot_smul_left, dot_smul_right, dot_smul_right, hAe, h1, hI.pr]
    field_simp; ring

end LinOp.C08
