/-
C08 — local orthogonality / conjugacy of consecutive regular steps.
-/
import LinOp.C08.Proofs4

set_option linter.unusedSectionVars false
namespace LinOp.C08

variable {α : Type} [Field α] [LinearOrder α] [IsStrictOrderedRing α]

/-- the preconditioner actually applied by the selected kernel -/
def preF (P : Params α) {n : Nat} (s : Sys α n) : Vec α n → Vec α n :=
  fun v => if P.precond then s.pre v else v

/-- Invariant carried by regular steps: true residual, `pᵀr = rᵀz`, `z = M⁻¹r`, `rz = rᵀz`, and
`zᵀAp = pᵀAp` (which encodes `p_{k−1}ᵀ A p_k = 0`). -/
structure Inv2 (P : Params α) {n : Nat} (s : Sys α n) (b : Vec α n) (c : Col α n) : Prop extends Inv s b c where
  zdef : c.z = preF P s c.r
  rzdef : c.rz = dot c.r c.z
  zAp : dot c.z (s.amul c.p) = dot c.p (s.amul c.p)

theorem initCol_inv2 (N : NumOps α) (P : Params α) {n : Nat} (s : Sys α n) :
    Inv2 P s (prep N P s).b (initCol N P s (prep N P s)) := by
  refine { toInv := initCol_inv N P s, zdef := ?_, rzdef := ?_, zAp := ?_ }
  · cases hp : P.precond <;> simp [initCol, preF, hp]
  · cases hp : P.precond <;> simp [initCol, hp, dot_comm]
  · cases hp : P.precond <;> simp [initCol, hp]

theorem colStep_zdef (N : NumOps α) (P : Params α) {n : Nat} (s : Sys α n) (iz : Bool) (c : Col α n) :
    (colStep N P s iz c).z = preF P s (colStep N P s iz c).r := by
  rw [colStep_z]; rfl

/-- Two-sided local orthogonality of a regular step with unmasked `β` (`rᵀz ≥ eps`), for a symmetric
`A` and a symmetric preconditioner: `r_{k+1}ᵀ z_k = 0`, `p_{k+1}ᵀ A p_k = 0`, and the invariant is kept. -/
theorem colStep_conjugate {N : NumOps α} (hN : Lawful N) (P : Params α) (he : 0 < P.eps) {n : Nat}
    {s : Sys α n} (hA : LinSym s.amul) (hM : ∀ u v, dot u (preF P s v) = dot (preF P s u) v)
    (xs b : Vec α n) (hxs : s.amul xs = b) (iz : Bool) (c : Col α n)
    (hc : c.conv = false) (hp : ¬ dot c.p (s.amul c.p) < P.eps) (hz : ¬ c.rz < P.eps) (hI : Inv2 P s b c) :
    Inv2 P s b (colStep N P s iz c) ∧ dot (colStep N P s iz c).r c.z = 0 ∧
      dot (colStep N P s iz c).p (s.amul c.p) = 0 := by
  obtain ⟨hinv, horth, _⟩ := colStep_regular hN P he hA xs b hxs iz c hc hp hI.toInv
  have hpos : 0 < dot c.p (s.amul c.p) := lt_of_lt_of_le he (not_lt.mp hp)
  have hne : dot c.p (s.amul c.p) ≠ 0 := ne_of_gt hpos
  have hrzpos : 0 < c.rz := lt_of_lt_of_le he (not_lt.mp hz)
  have hrzne : c.rz ≠ 0 := ne_of_gt hrzpos
  have ha := alphaF_regular hN P s c hc hp
  set c' := colStep N P s iz c with hc'
  have hr' : c'.r = c.r - (c.rz / dot c.p (s.amul c.p)) • s.amul c.p := by rw [hc', colStep_r, ha]
  have hbeta : c'.beta = c'.rz / c.rz := by
    have : N.lt c.rz P.eps = false := (hN.lt_false _ _).mpr hz
    rw [hc', colStep_beta, this]; simp
  have hp' : c'.p = c'.z + (c'.rz / c.rz) • c.p := by rw [hc', colStep_p, ← hc', hbeta]
  -- r' ⟂ z
  have h1 : dot c'.r c.z = 0 := by
    rw [hr', dot_sub_left, dot_smul_left, ← hI.rzdef, dot_comm (s.amul c.p) c.z, hI.zAp]
    field_simp; ring
  -- z' ⟂ r  (symmetry of the preconditioner)
  have h2 : dot c'.z c.r = 0 := by
    rw [colStep_zdef N P s iz c, ← hc', ← hM, ← hI.zdef]; exact h1
  -- A p = (r − r')/a
  have hAp : s.amul c.p = (dot c.p (s.amul c.p) / c.rz) • (c.r - c'.r) := by
    rw [hr']; funext i; simp only [Pi.smul_apply, Pi.sub_apply, smul_eq_mul]; field_simp; ring
  have hrz' : c'.rz = dot c'.r c'.z := by rw [hc', colStep_rz]
  have h3 : dot c'.z (s.amul c.p) = -(c'.rz * dot c.p (s.amul c.p) / c.rz) := by
    rw [hAp, dot_smul_right, dot_sub_right, h2, hrz', dot_comm c'.r c'.z]
    have : dot c.p ((dot c.p (s.amul c.p) / c.rz) • (c.r - c'.r)) = dot c.p (s.amul c.p) := by rw [← hAp]
    rw [this]; ring
  have hconj : dot c'.p (s.amul c.p) = 0 := by
    rw [hp', dot_add_left, dot_smul_left, h3]; field_simp; ring
  refine ⟨{ toInv := hinv, zdef := colStep_zdef N P s iz c, rzdef := hrz', zAp := ?_ }, h1, hconj⟩
  have : c'.z = c'.p - (c'.rz / c.rz) • c.p := by rw [hp']; funext i; simp
  rw [this, dot_sub_left, dot_smul_left, hA.sym c.p c'.p, dot_comm (s.amul c.p) c'.p, hconj]; ring

end LinOp.C08
