/-
C08 — polynomial (minimax) form of Krylov optimality: with an A-orthogonal eigenbasis of the preconditioned operator
`M⁻¹A`, the A-norm error after `j` regular steps is at most `max_i p(λ_i)² ` times the initial one, for EVERY polynomial
`p` with `p(0) = 1` and degree `≤ j`.
-/
import LinOp.C08.Proofs10
import Mathlib.Algebra.Polynomial.Eval.Degree
import Mathlib.Algebra.Polynomial.Inductions

set_option linter.unusedSectionVars false
namespace LinOp.C08

open Polynomial

variable {α : Type} [Field α] [LinearOrder α] [IsStrictOrderedRing α]

/-- An eigenbasis of the preconditioned operator `M⁻¹A` (`preA`), orthogonal for the `A`-inner product:
`v_iᵀ A v_j = g_i δ_ij` (for `M = I`: an orthonormal eigenbasis of `A`, `g_i = λ_i`; in general `A v_i = λ_i M v_i`,
i.e. the `λ_i` are the eigenvalues of `M⁻¹ᐟ² A M⁻¹ᐟ²`). -/
structure AEig (ι : Type) [Fintype ι] [DecidableEq ι] (P : Params α) {n : Nat} (s : Sys α n) where
  v : ι → Vec α n
  lam : ι → α
  g : ι → α
  eig : ∀ i, preA P s (v i) = lam i • v i
  gram : ∀ i j, dot (v i) (s.amul (v j)) = if i = j then g i else 0
  complete : ∀ w : Vec α n, ∃ c : ι → α, w = ∑ i, c i • v i

section
variable {ι : Type} [Fintype ι] [DecidableEq ι] {P : Params α} {n : Nat} {s : Sys α n}

/-- linear combination of the eigenvectors -/
def AEig.comb (E : AEig ι P s) (c : ι → α) : Vec α n := ∑ i, c i • E.v i

theorem AEig.comb_add (E : AEig ι P s) (c d : ι → α) : E.comb (c + d) = E.comb c + E.comb d := by
  simp [AEig.comb, add_smul, Finset.sum_add_distrib]

theorem AEig.comb_sub (E : AEig ι P s) (c d : ι → α) : E.comb (c - d) = E.comb c - E.comb d := by
  simp [AEig.comb, sub_smul, Finset.sum_sub_distrib]

theorem AEig.comb_smul (E : AEig ι P s) (a : α) (c : ι → α) : E.comb (a • c) = a • E.comb c := by
  simp [AEig.comb, Finset.smul_sum, mul_smul]

theorem AEig.comb_sum (E : AEig ι P s) {κ : Type} [DecidableEq κ] (t : Finset κ) (f : κ → ι → α) :
    E.comb (∑ m ∈ t, f m) = ∑ m ∈ t, E.comb (f m) := by
  induction t using Finset.induction_on with
  | empty => simp [AEig.comb]
  | insert a t ha ih => rw [Finset.sum_insert ha, Finset.sum_insert ha, E.comb_add, ih]

theorem preA_lin (hAl : Lin s.amul) (hMl : Lin (preF P s)) : Lin (preA P s) :=
  { add := fun u w => by unfold preA; rw [hAl.add, hMl.add]
    smul := fun c u => by unfold preA; rw [hAl.smul, hMl.smul] }

theorem AEig.preA_comb (E : AEig ι P s) (hAl : Lin s.amul) (hMl : Lin (preF P s)) (c : ι → α) :
    preA P s (E.comb c) = E.comb fun i => c i * E.lam i := by
  have hl := preA_lin hAl hMl
  unfold AEig.comb
  rw [hl.map_sum]
  apply Finset.sum_congr rfl
  intro i _
  rw [hl.smul, E.eig, smul_smul]

theorem AEig.iter_comb (E : AEig ι P s) (hAl : Lin s.amul) (hMl : Lin (preF P s)) (c : ι → α) (m : Nat) :
    (preA P s)^[m] (E.comb c) = E.comb fun i => c i * E.lam i ^ m := by
  induction m with
  | zero => simp
  | succ m ih =>
    rw [Function.iterate_succ_apply', ih, E.preA_comb hAl hMl]
    congr 1; funext i; ring

theorem AEig.dotA_comb (E : AEig ι P s) (hAl : Lin s.amul) (c d : ι → α) :
    dot (E.comb c) (s.amul (E.comb d)) = ∑ i, c i * d i * E.g i := by
  unfold AEig.comb
  rw [hAl.map_sum, dot_sum_left]
  apply Finset.sum_congr rfl
  intro i _
  rw [dot_sum_right, Finset.sum_eq_single i]
  · rw [hAl.smul, dot_smul_left, dot_smul_right, E.gram, if_pos rfl]; ring
  · intro j _ hji
    rw [hAl.smul, dot_smul_left, dot_smul_right, E.gram, if_neg (fun h : i = j => hji h.symm)]; ring
  · intro h; exact absurd (Finset.mem_univ i) h

theorem AEig.g_nonneg (E : AEig ι P s) (hpsd : ∀ v, 0 ≤ dot v (s.amul v)) (i : ι) : 0 ≤ E.g i := by
  have := hpsd (E.v i)
  rwa [E.gram, if_pos rfl] at this

/-- **Polynomial form of Krylov optimality** (`q`-form): for every polynomial `q` of degree `< j`,
`‖x* − x_j‖²_A ≤ B · ‖x* − x_0‖²_A` as soon as `(1 − λ q(λ))² ≤ B` on the spectrum. -/
theorem minimax_q {N : NumOps α} (hN : Lawful N) (P : Params α) (he : 0 < P.eps) {n : Nat}
    {s : Sys α n} (hA : LinSym s.amul) (hpsd : ∀ v, 0 ≤ dot v (s.amul v))
    (hM : ∀ u v, dot u (preF P s v) = dot (preF P s u) v) (hMl : Lin (preF P s))
    (xs : Vec α n) (hxs : s.amul xs = (prep N P s).b) (j : Nat)
    (hreg : ∀ i < j, Regular P s (traj N P s i)) (E : AEig ι P s)
    (q : α[X]) (hq : q = 0 ∨ q.natDegree < j) (B : α)
    (hB : ∀ i, (1 - E.lam i * q.eval (E.lam i)) ^ 2 ≤ B) :
    errA s xs (traj N P s j).x ≤ B * errA s xs (traj N P s 0).x := by
  have hAl := hA.toLin
  obtain ⟨c, hc⟩ := E.complete (xs - (traj N P s 0).x)
  have he0 : xs - (traj N P s 0).x = E.comb c := hc
  -- z_0 = M⁻¹ A e_0
  have hr0 : (traj N P s 0).r = s.amul (xs - (traj N P s 0).x) := by
    rw [hAl.map_sub, hxs]; exact iterCol_residual N P hAl _ _ _ (initCol_residual N P s) 0
  have hz0 : (traj N P s 0).z = E.comb fun i => c i * E.lam i := by
    rw [traj_zdef, hr0, he0]; exact E.preA_comb hAl hMl c
  -- the Krylov vector `q(M⁻¹A) z_0`
  set u : Vec α n := ∑ m ∈ Finset.range j, q.coeff m • (preA P s)^[m] (traj N P s 0).z with hu
  have humem : u ∈ Submodule.span α (Set.range fun m : Fin j => (preA P s)^[m] (traj N P s 0).z) := by
    rw [hu]
    apply Submodule.sum_mem
    intro m hm
    exact Submodule.smul_mem _ _ (Submodule.subset_span ⟨⟨m, Finset.mem_range.mp hm⟩, rfl⟩)
  have hqe : ∀ x : α, ∑ m ∈ Finset.range j, q.coeff m * x ^ m = q.eval x := by
    intro x
    rcases hq with h | h
    · subst h; simp
    · exact (eval_eq_sum_range' h x).symm
  have hucomb : u = E.comb fun i => c i * (E.lam i * q.eval (E.lam i)) := by
    rw [hu]
    have : ∀ m ∈ Finset.range j, q.coeff m • (preA P s)^[m] (traj N P s 0).z
        = E.comb (q.coeff m • fun i => c i * E.lam i * E.lam i ^ m) := by
      intro m _
      rw [hz0, E.iter_comb hAl hMl, E.comb_smul]
    rw [Finset.sum_congr rfl this, ← E.comb_sum]
    congr 1; funext i
    simp only [Finset.sum_apply, Pi.smul_apply, smul_eq_mul]
    rw [← hqe (E.lam i), Finset.mul_sum, Finset.mul_sum]
    apply Finset.sum_congr rfl
    intro m _; ring
  have hopt := krylov_optimal_from_x0 hN P he hA hpsd hM hMl xs hxs j hreg j (le_refl j) u humem
  refine le_trans hopt ?_
  have hw : xs - ((traj N P s 0).x + u) = E.comb fun i => c i * (1 - E.lam i * q.eval (E.lam i)) := by
    have : xs - ((traj N P s 0).x + u) = (xs - (traj N P s 0).x) - u := by funext i; simp; ring
    rw [this, he0, hucomb, ← E.comb_sub]
    congr 1; funext i; simp only [Pi.sub_apply]; ring
  unfold errA
  rw [hw, he0, E.dotA_comb hAl, E.dotA_comb hAl, Finset.mul_sum]
  apply Finset.sum_le_sum
  intro i _
  have hl := E.g_nonneg hpsd i
  have h1 : 0 ≤ c i * c i * E.g i := mul_nonneg (mul_self_nonneg _) hl
  have := mul_le_mul_of_nonneg_right (hB i) h1
  calc c i * (1 - E.lam i * q.eval (E.lam i)) * (c i * (1 - E.lam i * q.eval (E.lam i))) * E.g i
      = (1 - E.lam i * q.eval (E.lam i)) ^ 2 * (c i * c i * E.g i) := by ring
    _ ≤ B * (c i * c i * E.g i) := this

/-- `p`-form: every polynomial `p` with `p(0) = 1` and degree `≤ j`. -/
theorem minimax_p {N : NumOps α} (hN : Lawful N) (P : Params α) (he : 0 < P.eps) {n : Nat}
    {s : Sys α n} (hA : LinSym s.amul) (hpsd : ∀ v, 0 ≤ dot v (s.amul v))
    (hM : ∀ u v, dot u (preF P s v) = dot (preF P s u) v) (hMl : Lin (preF P s))
    (xs : Vec α n) (hxs : s.amul xs = (prep N P s).b) (j : Nat)
    (hreg : ∀ i < j, Regular P s (traj N P s i)) (E : AEig ι P s)
    (p : α[X]) (hp0 : p.eval 0 = 1) (hpd : p.natDegree ≤ j) (B : α)
    (hB : ∀ i, (p.eval (E.lam i)) ^ 2 ≤ B) :
    errA s xs (traj N P s j).x ≤ B * errA s xs (traj N P s 0).x := by
  set q : α[X] := divX (1 - p) with hqdef
  have hc0 : (1 - p).coeff 0 = 0 := by
    rw [coeff_zero_eq_eval_zero, eval_sub, eval_one, hp0, sub_self]
  have hdecomp : q * X = 1 - p := by
    have := divX_mul_X_add (1 - p)
    rw [hc0, map_zero, add_zero] at this
    exact this
  have hpq : ∀ x : α, p.eval x = 1 - x * q.eval x := by
    intro x
    have := congrArg (Polynomial.eval x) hdecomp
    simp only [eval_mul, eval_X, eval_sub, eval_one] at this
    linarith [mul_comm x (q.eval x)]
  have hq : q = 0 ∨ q.natDegree < j := by
    rcases Nat.eq_zero_or_pos j with h0 | hpos
    · left
      have hp1 : p = C (p.coeff 0) := eq_C_of_natDegree_le_zero (h0 ▸ hpd)
      have : p = 1 := by
        rw [hp1, coeff_zero_eq_eval_zero, hp0, map_one]
      rw [hqdef, this, sub_self, divX_zero]
    · right
      rw [hqdef, natDegree_divX_eq_natDegree_tsub_one]
      have : (1 - p).natDegree ≤ j := le_trans (natDegree_sub_le _ _) (by simp [hpd])
      omega
  refine minimax_q hN P he hA hpsd hM hMl xs hxs j hreg E q hq B ?_
  intro i
  rw [← hpq]; exact hB i

end
end LinOp.C08
