/-
C08 — helper lemmas: the model over an ordered field with lawful `NumOps`.
-/
import LinOp.C08.Model
import LinOp.Core.Bridge
import Mathlib.Algebra.Order.Field.Basic
import Mathlib.Algebra.BigOperators.Ring.Finset
import Mathlib.Algebra.Order.BigOperators.Ring.Finset
import Mathlib.Tactic.Ring
import Mathlib.Tactic.Linarith
import Mathlib.Tactic.FieldSimp

set_option linter.unusedSectionVars false
namespace LinOp.C08

variable {α : Type} [Field α] [LinearOrder α] [IsStrictOrderedRing α]

/-- The scalar primitives behave as on an ordered field with square roots of non-negative numbers
(e.g. `ℝ`); there are no NaNs. -/
structure Lawful (N : NumOps α) : Prop where
  lt_iff : ∀ a b, N.lt a b = true ↔ a < b
  eqz_iff : ∀ a, N.eqz a = true ↔ a = 0
  no_nan : ∀ a, N.isNan a = false
  sqrt_nonneg : ∀ a, 0 ≤ N.sqrt a
  sqrt_sq : ∀ a, 0 ≤ a → N.sqrt a * N.sqrt a = a

/-- A closure is a linear map. -/
structure Lin {n : Nat} (f : Vec α n → Vec α n) : Prop where
  add : ∀ u v, f (u + v) = f u + f v
  smul : ∀ (c : α) u, f (c • u) = c • f u

/-- … and self-adjoint for the Euclidean inner product (a symmetric matrix). -/
structure LinSym {n : Nat} (f : Vec α n → Vec α n) : Prop extends Lin f where
  sym : ∀ u v, dot u (f v) = dot (f u) v

theorem dot_eq {n : Nat} (u v : Vec α n) : dot u v = ∑ i, u i * v i := by
  simp [dot, sumFin_eq_sum]

theorem dot_comm {n : Nat} (u v : Vec α n) : dot u v = dot v u := by
  simp [dot_eq, mul_comm]

theorem dot_add_left {n : Nat} (u v w : Vec α n) : dot (u + v) w = dot u w + dot v w := by
  simp [dot_eq, add_mul, Finset.sum_add_distrib]

theorem dot_add_right {n : Nat} (u v w : Vec α n) : dot w (u + v) = dot w u + dot w v := by
  simp [dot_eq, mul_add, Finset.sum_add_distrib]

theorem dot_sub_left {n : Nat} (u v w : Vec α n) : dot (u - v) w = dot u w - dot v w := by
  simp [dot_eq, sub_mul, Finset.sum_sub_distrib]

theorem dot_sub_right {n : Nat} (u v w : Vec α n) : dot w (u - v) = dot w u - dot w v := by
  simp [dot_eq, mul_sub, Finset.sum_sub_distrib]

theorem dot_smul_left {n : Nat} (c : α) (u w : Vec α n) : dot (c • u) w = c * dot u w := by
  simp [dot_eq, Finset.mul_sum, mul_assoc]

theorem dot_smul_right {n : Nat} (c : α) (u w : Vec α n) : dot w (c • u) = c * dot w u := by
  simp [dot_eq, Finset.mul_sum, mul_left_comm]

theorem dot_zero_left {n : Nat} (w : Vec α n) : dot (0 : Vec α n) w = 0 := by
  simp [dot_eq]

theorem dot_zero_right {n : Nat} (w : Vec α n) : dot w (0 : Vec α n) = 0 := by
  simp [dot_eq]

theorem dot_self_nonneg {n : Nat} (u : Vec α n) : 0 ≤ dot u u := by
  rw [dot_eq]; exact Finset.sum_nonneg fun i _ => mul_self_nonneg (u i)

theorem Lin.map_zero {n : Nat} {f : Vec α n → Vec α n} (h : Lin f) : f 0 = 0 := by
  have := h.smul 0 0
  simpa using this

theorem Lin.map_sub {n : Nat} {f : Vec α n → Vec α n} (h : Lin f) (u v : Vec α n) : f (u - v) = f u - f v := by
  have h1 : u - v = u + (-1 : α) • v := by funext i; simp [sub_eq_add_neg]
  rw [h1, h.add, h.smul]; funext i; simp [sub_eq_add_neg]

theorem Lawful.sqrt_zero {N : NumOps α} (hN : Lawful N) : N.sqrt 0 = 0 := by
  have := hN.sqrt_sq 0 le_rfl
  exact mul_self_eq_zero.mp this

theorem Lawful.lt_false {N : NumOps α} (hN : Lawful N) (a b : α) : N.lt a b = false ↔ ¬ a < b := by
  rw [← hN.lt_iff]; simp

/-! ### The loop body in closed form -/

/-- `alpha` used by one iteration. -/
def alphaF (N : NumOps α) (P : Params α) {n : Nat} (s : Sys α n) (c : Col α n) : α :=
  alphaOf N P c (s.amul c.p)

theorem colStep_x (N : NumOps α) (P : Params α) {n : Nat} (s : Sys α n) (iz : Bool) (c : Col α n) :
    (colStep N P s iz c).x = c.x + alphaF N P s c • c.p := by
  cases hp : P.precond <;> (funext i; simp [colStep, finishStep, colStepPre, colStepNoPre, jitUpdates, alphaF, hp])

theorem colStep_r (N : NumOps α) (P : Params α) {n : Nat} (s : Sys α n) (iz : Bool) (c : Col α n) :
    (colStep N P s iz c).r = c.r - alphaF N P s c • s.amul c.p := by
  cases hp : P.precond <;>
    (funext i; simp [colStep, finishStep, colStepPre, colStepNoPre, jitUpdates, alphaF, hp]; ring)

theorem colStep_z (N : NumOps α) (P : Params α) {n : Nat} (s : Sys α n) (iz : Bool) (c : Col α n) :
    (colStep N P s iz c).z = if P.precond then s.pre (colStep N P s iz c).r else (colStep N P s iz c).r := by
  cases hp : P.precond <;> simp [colStep, finishStep, colStepPre, colStepNoPre, jitUpdates, hp]

theorem colStep_rz (N : NumOps α) (P : Params α) {n : Nat} (s : Sys α n) (iz : Bool) (c : Col α n) :
    (colStep N P s iz c).rz = dot (colStep N P s iz c).r (colStep N P s iz c).z := by
  cases hp : P.precond <;> simp [colStep, finishStep, colStepPre, colStepNoPre, jitUpdates, hp]

theorem colStep_alpha (N : NumOps α) (P : Params α) {n : Nat} (s : Sys α n) (iz : Bool) (c : Col α n) :
    (colStep N P s iz c).alpha = alphaF N P s c := by
  cases hp : P.precond <;> simp [colStep, finishStep, colStepPre, colStepNoPre, jitUpdates, alphaF, hp]

theorem colStep_beta (N : NumOps α) (P : Params α) {n : Nat} (s : Sys α n) (iz : Bool) (c : Col α n) :
    (colStep N P s iz c).beta = if N.lt c.rz P.eps then 0 else (colStep N P s iz c).rz / c.rz := by
  cases hp : P.precond <;> simp [colStep, finishStep, colStepPre, colStepNoPre, jitUpdates, hp]

theorem colStep_p (N : NumOps α) (P : Params α) {n : Nat} (s : Sys α n) (iz : Bool) (c : Col α n) :
    (colStep N P s iz c).p = (colStep N P s iz c).z + (colStep N P s iz c).beta • c.p := by
  cases hp : P.precond <;>
    (funext i
     simp only [colStep, finishStep, colStepPre, colStepNoPre, jitUpdates, hp, memo_eq, Pi.add_apply,
       Pi.smul_apply, smul_eq_mul, Bool.false_eq_true, if_false, if_true]
     ring)

theorem colStep_conv (N : NumOps α) (P : Params α) {n : Nat} (s : Sys α n) (iz : Bool) (c : Col α n) :
    (colStep N P s iz c).conv
      = N.lt (if iz then 0 else norm2 N (colStep N P s iz c).r) P.stopAfter := by
  cases hp : P.precond <;> simp [colStep, finishStep, colStepPre, colStepNoPre, jitUpdates, hp]

theorem colStep_rn (N : NumOps α) (P : Params α) {n : Nat} (s : Sys α n) (iz : Bool) (c : Col α n) :
    (colStep N P s iz c).rn = if iz then 0 else norm2 N (colStep N P s iz c).r := by
  cases hp : P.precond <;> simp [colStep, finishStep, colStepPre, colStepNoPre, jitUpdates, hp]

/-- `k` iterations of one column. -/
def iterCol (N : NumOps α) (P : Params α) {n : Nat} (s : Sys α n) (iz : Bool) : Nat → Col α n → Col α n
  | 0, c => c
  | k + 1, c => colStep N P s iz (iterCol N P s iz k c)

theorem alphaF_of_conv (N : NumOps α) (P : Params α) {n : Nat} (s : Sys α n) (c : Col α n)
    (h : c.conv = true) : alphaF N P s c = 0 := by
  simp [alphaF, alphaOf, h]

theorem alphaF_regular {N : NumOps α} (hN : Lawful N) (P : Params α) {n : Nat} (s : Sys α n) (c : Col α n)
    (hc : c.conv = false) (hp : ¬ dot c.p (s.amul c.p) < P.eps) :
    alphaF N P s c = c.rz / dot c.p (s.amul c.p) := by
  have : N.lt (dot c.p (s.amul c.p)) P.eps = false := (hN.lt_false _ _).mpr hp
  simp [alphaF, alphaOf, hc, this]

end LinOp.C08
