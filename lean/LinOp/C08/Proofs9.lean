/-
C08 — optimality: after k regular steps x_k minimises the A-norm error over x_k + span{p_0 … p_{k-1}}.
-/
import LinOp.C08.Proofs8

set_option linter.unusedSectionVars false
namespace LinOp.C08

variable {α : Type} [Field α] [LinearOrder α] [IsStrictOrderedRing α]

theorem dot_sum_right {n : Nat} {ι : Type} (t : Finset ι) (f : ι → Vec α n) (w : Vec α n) :
    dot w (∑ i ∈ t, f i) = ∑ i ∈ t, dot w (f i) := by
  rw [dot_comm, dot_sum_left]; simp only [dot_comm]

theorem Lin.map_sum {n : Nat} {f : Vec α n → Vec α n} (h : Lin f) {ι : Type} [DecidableEq ι] (t : Finset ι)
    (g : ι → Vec α n) : f (∑ i ∈ t, g i) = ∑ i ∈ t, f (g i) := by
  induction t using Finset.induction_on with
  | empty => simp [h.map_zero]
  | insert a t ha ih => rw [Finset.sum_insert ha, Finset.sum_insert ha, h.add, ih]

/-- the residual after `k` regular steps is orthogonal to every earlier search direction -/
theorem residual_perp_directions {N : NumOps α} (hN : Lawful N) (P : Params α) (he : 0 < P.eps) {n : Nat}
    {s : Sys α n} (hA : LinSym s.amul) (hM : ∀ u v, dot u (preF P s v) = dot (preF P s u) v)
    (xs : Vec α n) (hxs : s.amul xs = (prep N P s).b) (m : Nat)
    (hreg : ∀ j < m, Regular P s (traj N P s j)) (k : Nat) (hk : k ≤ m) :
    ∀ i < k, dot (traj N P s k).r (traj N P s i).p = 0 := by
  have full := full_orthogonality hN P he hA hM xs hxs m hreg
  intro i
  induction i with
  | zero =>
    intro hi
    rw [← traj_z_zero]; exact ((full k hk).2 0 hi).1
  | succ i ih =>
    intro hi
    have hp : (traj N P s (i + 1)).p = (traj N P s (i + 1)).z + (traj N P s (i + 1)).beta • (traj N P s i).p := by
      rw [traj_succ, colStep_p]
    rw [hp, dot_add_right, dot_smul_right, ((full k hk).2 (i + 1) hi).1, ih (Nat.lt_of_succ_lt hi)]; ring

/-- **Optimality over the span of the search directions.** -/
theorem optimal_over_directions {N : NumOps α} (hN : Lawful N) (P : Params α) (he : 0 < P.eps) {n : Nat}
    {s : Sys α n} (hA : LinSym s.amul) (hpsd : ∀ v, 0 ≤ dot v (s.amul v))
    (hM : ∀ u v, dot u (preF P s v) = dot (preF P s u) v)
    (xs : Vec α n) (hxs : s.amul xs = (prep N P s).b) (m : Nat)
    (hreg : ∀ j < m, Regular P s (traj N P s j)) (k : Nat) (hk : k ≤ m) (c : Nat → α) :
    errA s xs (traj N P s k).x
      ≤ errA s xs ((traj N P s k).x + ∑ i ∈ Finset.range k, c i • (traj N P s i).p) := by
  have hI := (full_orthogonality hN P he hA hM xs hxs m hreg k hk).1
  have hperp := residual_perp_directions hN P he hA hM xs hxs m hreg k hk
  set w : Vec α n := ∑ i ∈ Finset.range k, c i • (traj N P s i).p with hw
  have hAe : s.amul (xs - (traj N P s k).x) = (traj N P s k).r := by
    rw [hA.toLin.map_sub, hxs, hI.res]
  have hwr : dot w (traj N P s k).r = 0 := by
    rw [hw, dot_sum_left]
    apply Finset.sum_eq_zero
    intro i hi
    rw [dot_smul_left, dot_comm, hperp i (Finset.mem_range.mp hi), mul_zero]
  have hexp : xs - ((traj N P s k).x + w) = (xs - (traj N P s k).x) - w := by
    funext i; simp; ring
  have : errA s xs ((traj N P s k).x + w) = errA s xs (traj N P s k).x + dot w (s.amul w) := by
    unfold errA
    rw [hexp, hA.toLin.map_sub, dot_sub_left, dot_sub_right, dot_sub_right, hAe, hwr,
      hA.sym (xs - (traj N P s k).x) w, hAe, dot_comm (traj N P s k).r w, hwr]
    ring
  rw [this]
  have := hpsd w
  linarith

end LinOp.C08
