/-
C08 — whole-call facts (stopping rule, warning, exceptions), tridiagonal block, three-term relation, scaling.
-/
import LinOp.C08.Proofs2

set_option linter.unusedSectionVars false
namespace LinOp.C08

/-! ### the loop: `tolerance_reached` is only set by the tolerance test (any scalar type) -/

section generic
variable {α : Type} [Add α] [Sub α] [Mul α] [Div α] [Neg α] [Zero α] [One α]

theorem stopNow_tol (N : NumOps α) (P : Params α) (nT k : Nat) (rns : List α)
    (h : stopNow N P nT k rns = true) : N.lt (mean rns) P.tol = true := by
  simp only [stopNow, Bool.and_eq_true] at h
  exact h.1.2

theorem stopNow_floor (N : NumOps α) (P : Params α) (nT k : Nat) (rns : List α)
    (h : stopNow N P nT k rns = true) : min P.iterFloor (P.maxIter - 1) ≤ k := by
  simp only [stopNow, Bool.and_eq_true, decide_eq_true_eq] at h
  exact h.1.1

theorem triCols_rn (N : NumOps α) {n : Nat} (k : Nat) (cs : List (Col α n × Tri α)) :
    (triCols N k cs).map (fun ct => ct.1.rn) = cs.map fun ct => ct.1.rn := by
  simp only [triCols, List.map_map]
  apply List.map_congr_left
  intro ct _
  simp only [Function.comp]
  split <;> rfl

theorem iterate_tol (N : NumOps α) (P : Params α) {n : Nat} (sys : List (SysZ α n)) (nT : Nat) :
    ∀ (fuel k : Nat) (st : St α n), (iterate N P sys nT fuel k st).tolReached = true →
      st.tolReached = true ∨
        N.lt (mean ((iterate N P sys nT fuel k st).cs.map fun ct => ct.1.rn)) P.tol = true := by
  intro fuel
  induction fuel with
  | zero => intro k st h; left; simpa [iterate] using h
  | succ f ih =>
    intro k st h
    simp only [iterate] at h ⊢
    split at h
    · rename_i hs
      right
      simp only [hs, if_true]
      have ht := stopNow_tol N P nT k _ hs
      split
      · simpa only [triCols_rn] using ht
      · exact ht
    · rename_i hs
      simp only [hs]
      rcases ih _ _ h with h' | h'
      · left
        split at h' <;> exact h'
      · right; exact h'

/-- The loop never stops before iteration index `min(F, max_iter − 1)`. -/
theorem iterate_iters_zero (N : NumOps α) (P : Params α) {n : Nat} (sys : List (SysZ α n)) (nT k : Nat)
    (st : St α n) : iterate N P sys nT 0 k st = st := rfl

theorem linearCg_limit (N : NumOps α) (P : Params α) {n : Nat} (sys : List (Sys α n))
    (h : P.maxTridiagIter > P.maxIter) : linearCg N P sys = .error .tridiagLimit := by
  simp [linearCg, h]

theorem linearCg_nan (N : NumOps α) (P : Params α) {n : Nat} (sys : List (Sys α n))
    (h : ¬ P.maxTridiagIter > P.maxIter) (s : Sys α n) (hs : s ∈ sys)
    (hn : vecHasNan N (prep N P s).r0 = true) : linearCg N P sys = .error .nan := by
  have : (sys.map fun s => prep N P s).any (fun q => vecHasNan N q.r0) = true := by
    simp only [List.any_map, List.any_eq_true]
    exact ⟨s, hs, hn⟩
  simp [linearCg, h, this]

theorem linearCgCore_no_warning (N : NumOps α) (P : Params α) {n : Nat} (sys : List (Sys α n))
    (hw : (linearCgCore N P sys).warn = false) :
    (linearCgCore N P sys).iters = 0 ∨ N.lt (mean (linearCgCore N P sys).rns) P.tol = true := by
  simp only [linearCgCore, Bool.and_eq_false_iff, Bool.not_eq_false', decide_eq_false_iff_not, Nat.not_lt,
    Nat.le_zero_eq] at hw ⊢
  rcases hw with hw | hw
  · rcases iterate_tol N P _ _ _ _ _ hw with h' | h'
    · simp at h'
    · right; exact h'
  · left
    rw [hw]; rfl

theorem linearCg_ok (N : NumOps α) (P : Params α) {n : Nat} (sys : List (Sys α n)) (o : Out α n)
    (h : linearCg N P sys = .ok o) : o = linearCgCore N P sys := by
  unfold linearCg at h
  split at h
  · cases h
  · split at h
    · cases h
    · simp only [Except.ok.injEq] at h; exact h.symm

/-! ### the tridiagonal block -/

theorem triStep_entries (N : NumOps α) {n : Nat} (k : Nat) (c1 c2 : Col α n) (t0 : Tri α) :
    (triStep N (k + 1) c2 (triStep N k c1 t0)).t (k + 1) (k + 1)
        = alphaRecip N c2.alpha + c1.beta * alphaRecip N c1.alpha ∧
    (triStep N (k + 1) c2 (triStep N k c1 t0)).t (k + 1) k = N.sqrt c1.beta * alphaRecip N c1.alpha ∧
    (triStep N (k + 1) c2 (triStep N k c1 t0)).t k (k + 1) = N.sqrt c1.beta * alphaRecip N c1.alpha := by
  by_cases hk : k = 0
  · subst hk; simp [triStep, upd]
  · simp [triStep, upd, hk]

theorem triStep_first (N : NumOps α) {n : Nat} (c : Col α n) (t0 : Tri α) :
    (triStep N 0 c t0).t 0 0 = alphaRecip N c.alpha := by
  simp [triStep, upd]

/-- symmetric, and supported on the three central diagonals of the leading `k × k` block -/
def TriOK (t : Nat → Nat → α) (k : Nat) : Prop :=
  (∀ i j, t i j = t j i) ∧ (∀ i j, (j + 1 < i ∨ i + 1 < j ∨ k ≤ i ∨ k ≤ j) → t i j = 0)

theorem triStep_ok (N : NumOps α) {n : Nat} (k : Nat) (c : Col α n) (t : Tri α) (h : TriOK t.t k) :
    TriOK (triStep N k c t).t (k + 1) := by
  obtain ⟨hs, hb⟩ := h
  by_cases hk : k = 0
  · subst hk
    refine ⟨?_, ?_⟩
    · intro i j
      simp only [triStep, if_true, upd]
      by_cases h1 : i = 0 ∧ j = 0
      · have h2 : j = 0 ∧ i = 0 := ⟨h1.2, h1.1⟩
        simp [h1, h2]
      · have h2 : ¬ (j = 0 ∧ i = 0) := fun h => h1 ⟨h.2, h.1⟩
        simp only [h1, h2, if_false]; exact hs i j
    · intro i j hij
      simp only [triStep, if_true, upd]
      have h1 : ¬ (i = 0 ∧ j = 0) := by omega
      simp only [h1, if_false]
      exact hb i j (by omega)
  · refine ⟨?_, ?_⟩
    · intro i j
      simp only [triStep, hk, if_false, upd]
      by_cases h1 : i = k - 1 ∧ j = k
      · have h2 : j = k ∧ i = k - 1 := ⟨h1.2, h1.1⟩
        have h3 : ¬ (j = k - 1 ∧ i = k) := by omega
        simp [h1, h2, h3]
      · by_cases h2 : i = k ∧ j = k - 1
        · have h3 : j = k - 1 ∧ i = k := ⟨h2.2, h2.1⟩
          have h4 : ¬ (j = k ∧ i = k - 1) := by omega
          simp [h1, h2, h3, h4]
        · by_cases h3 : i = k ∧ j = k
          · have h4 : j = k ∧ i = k := ⟨h3.2, h3.1⟩
            have h5 : ¬ (j = k - 1 ∧ i = k) := by omega
            have h6 : ¬ (j = k ∧ i = k - 1) := by omega
            simp [h1, h2, h3, h4, h5, h6]
          · have h4 : ¬ (j = k - 1 ∧ i = k) := fun h => h2 ⟨h.2, h.1⟩
            have h5 : ¬ (j = k ∧ i = k - 1) := fun h => h1 ⟨h.2, h.1⟩
            have h6 : ¬ (j = k ∧ i = k) := fun h => h3 ⟨h.2, h.1⟩
            simp only [h1, h2, h3, h4, h5, h6, if_false]
            exact hs i j
    · intro i j hij
      simp only [triStep, hk, if_false, upd]
      have h1 : ¬ (i = k - 1 ∧ j = k) := by omega
      have h2 : ¬ (i = k ∧ j = k - 1) := by omega
      have h3 : ¬ (i = k ∧ j = k) := by omega
      simp only [h1, h2, h3, if_false]
      exact hb i j (by omega)

end generic

variable {α : Type} [Field α] [LinearOrder α] [IsStrictOrderedRing α]

theorem alphaRecip_eq {N : NumOps α} (hN : Lawful N) (a : α) (h : a ≠ 0) : alphaRecip N a = 1 / a := by
  have : N.eqz a = false := by
    cases he : N.eqz a
    · rfl
    · exact absurd ((hN.eqz_iff a).mp he) h
  simp [alphaRecip, this]

/-- Three-term relation behind the tridiagonal matrix: for two consecutive iterations with non-zero
step lengths `a₀, a₁` and `β₀` between them,
`A z₁ = −(1/a₁) r₂ + (1/a₁ + β₀/a₀) r₁ − (β₀/a₀) r₀`. -/
theorem three_term (N : NumOps α) (P : Params α) {n : Nat} {s : Sys α n} (hA : Lin s.amul) (iz : Bool)
    (c0 : Col α n)
    (h0 : (colStep N P s iz c0).alpha ≠ 0)
    (h1 : (colStep N P s iz (colStep N P s iz c0)).alpha ≠ 0) :
    s.amul (colStep N P s iz c0).z
      = (-(1 / (colStep N P s iz (colStep N P s iz c0)).alpha)) • (colStep N P s iz (colStep N P s iz c0)).r
        + (1 / (colStep N P s iz (colStep N P s iz c0)).alpha
            + (colStep N P s iz c0).beta / (colStep N P s iz c0).alpha) • (colStep N P s iz c0).r
        - ((colStep N P s iz c0).beta / (colStep N P s iz c0).alpha) • c0.r := by
  set c1 := colStep N P s iz c0 with hc1
  set c2 := colStep N P s iz c1 with hc2
  have e1 : c1.r = c0.r - c1.alpha • s.amul c0.p := by rw [hc1, colStep_alpha, colStep_r]
  have e2 : c2.r = c1.r - c2.alpha • (s.amul c1.z + c1.beta • s.amul c0.p) := by
    rw [hc2, colStep_alpha, colStep_r]
    have : c1.p = c1.z + c1.beta • c0.p := by rw [hc1, colStep_p]
    rw [this, hA.add, hA.smul]
  funext i
  have e1i := congrFun e1 i
  have e2i := congrFun e2 i
  simp only [Pi.add_apply, Pi.sub_apply, Pi.smul_apply, smul_eq_mul] at e1i e2i ⊢
  rw [e2i, e1i]
  field_simp
  ring

/-! ### scaling of the right-hand side -/

/-- `rhs ↦ c·rhs`, `initial_guess ↦ c·initial_guess`. -/
def scaleSys {n : Nat} (c : α) (s : Sys α n) : Sys α n := { s with rhs := c • s.rhs, x0 := c • s.x0 }

theorem norm2_smul {N : NumOps α} (hN : Lawful N) {n : Nat} (c : α) (hc : 0 ≤ c) (v : Vec α n) :
    norm2 N (c • v) = c * norm2 N v := by
  have hd : dot (c • v) (c • v) = c * c * dot v v := by rw [dot_smul_left, dot_smul_right]; ring
  have h0 : 0 ≤ dot v v := dot_self_nonneg v
  have h1 : 0 ≤ c * c * dot v v := mul_nonneg (mul_self_nonneg c) h0
  unfold norm2
  rw [hd]
  have ha := hN.sqrt_sq _ h1
  have hb := hN.sqrt_sq _ h0
  have hna := hN.sqrt_nonneg (c * c * dot v v)
  have hnb : 0 ≤ c * N.sqrt (dot v v) := mul_nonneg hc (hN.sqrt_nonneg _)
  have : N.sqrt (c * c * dot v v) * N.sqrt (c * c * dot v v)
      = (c * N.sqrt (dot v v)) * (c * N.sqrt (dot v v)) := by
    rw [ha]; calc c * c * dot v v = c * c * (N.sqrt (dot v v) * N.sqrt (dot v v)) := by rw [hb]
      _ = _ := by ring
  exact (mul_self_inj hna hnb).mp this

/-- Scaling a column whose norm stays at or above `eps` changes nothing but `rhs_norm`:
the normalised right-hand side, the normalised guess, the initial residual and `rhs_is_zero` are the same. -/
theorem prep_scale {N : NumOps α} (hN : Lawful N) (P : Params α) (he : 0 < P.eps) {n : Nat} (s : Sys α n)
    (c : α) (hc : 0 < c) (h1 : ¬ norm2 N s.rhs < P.eps) (h2 : ¬ c * norm2 N s.rhs < P.eps) :
    prep N P (scaleSys c s) = { prep N P s with nrm := c * (prep N P s).nrm } := by
  have hn : norm2 N (c • s.rhs) = c * norm2 N s.rhs := norm2_smul hN c hc.le s.rhs
  have f1 : N.lt (norm2 N s.rhs) P.eps = false := (hN.lt_false _ _).mpr h1
  have f2 : N.lt (c * norm2 N s.rhs) P.eps = false := (hN.lt_false _ _).mpr h2
  have hpos : 0 < norm2 N s.rhs := lt_of_lt_of_le he (not_lt.mp h1)
  have hne : norm2 N s.rhs ≠ 0 := ne_of_gt hpos
  have hcne : c ≠ 0 := ne_of_gt hc
  have hb : (fun i => (c • s.rhs) i / (c * norm2 N s.rhs)) = fun i => s.rhs i / norm2 N s.rhs := by
    funext i; simp only [Pi.smul_apply, smul_eq_mul]; field_simp
  have hg : (fun i => (c • s.x0) i / (c * norm2 N s.rhs)) = fun i => s.x0 i / norm2 N s.rhs := by
    funext i; simp only [Pi.smul_apply, smul_eq_mul]; field_simp
  simp only [prep, scaleSys, hn, f1, f2, memo_eq, hb, hg, Bool.false_eq_true, if_false]

end LinOp.C08
