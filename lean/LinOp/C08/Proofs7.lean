/-
C08 — exact termination: after `n` regular steps the residual vanishes (dimension argument).
-/
import LinOp.C08.Proofs6
import Mathlib.LinearAlgebra.FiniteDimensional.Lemmas
import Mathlib.LinearAlgebra.Dimension.Constructions
import Mathlib.LinearAlgebra.Finsupp.LinearCombination

set_option linter.unusedSectionVars false
namespace LinOp.C08

variable {α : Type} [Field α] [LinearOrder α] [IsStrictOrderedRing α]

theorem dot_sum_left {n : Nat} {ι : Type} (t : Finset ι) (f : ι → Vec α n) (w : Vec α n) :
    dot (∑ i ∈ t, f i) w = ∑ i ∈ t, dot (f i) w := by
  simp only [dot_eq, Finset.sum_apply, Finset.sum_mul]
  rw [Finset.sum_comm]

theorem exact_at_n {N : NumOps α} (hN : Lawful N) (P : Params α) (he : 0 < P.eps) {n : Nat}
    {s : Sys α n} (hA : LinSym s.amul) (hM : ∀ u v, dot u (preF P s v) = dot (preF P s u) v)
    (xs : Vec α n) (hxs : s.amul xs = (prep N P s).b)
    (hreg : ∀ j < n, Regular P s (traj N P s j)) :
    (traj N P s n).r = 0 := by
  have full := full_orthogonality hN P he hA hM xs hxs n hreg
  -- Gram matrix of residuals against preconditioned residuals is diagonal with positive diagonal
  have hoff : ∀ i j : Fin n, i ≠ j → dot (traj N P s i).r (traj N P s j).z = 0 := by
    intro i j hij
    rcases Nat.lt_or_gt_of_ne (fun h => hij (Fin.ext h)) with h | h
    · rw [traj_zdef N P s j, hM, ← traj_zdef N P s i, dot_comm]
      exact ((full j (Nat.le_of_lt j.2)).2 i h).1
    · exact ((full i (Nat.le_of_lt i.2)).2 j h).1
  have hdiag : ∀ i : Fin n, dot (traj N P s i).r (traj N P s i).z ≠ 0 := by
    intro i
    rw [← (full i (Nat.le_of_lt i.2)).1.rzdef]
    exact ne_of_gt (lt_of_lt_of_le he (not_lt.mp (hreg i i.2).2.2))
  have hcoef : ∀ (g : Fin n → α) (j : Fin n),
      dot (∑ i, g i • (traj N P s i).r) (traj N P s j).z = g j * dot (traj N P s j).r (traj N P s j).z := by
    intro g j
    rw [dot_sum_left]
    rw [Finset.sum_eq_single j]
    · rw [dot_smul_left]
    · intro i _ hij; rw [dot_smul_left, hoff i j hij, mul_zero]
    · intro h; exact absurd (Finset.mem_univ j) h
  have hli : LinearIndependent α (fun i : Fin n => (traj N P s i).r) := by
    rw [Fintype.linearIndependent_iff]
    intro g hg j
    have := hcoef g j
    rw [hg, dot_zero_left] at this
    rcases mul_eq_zero.mp this.symm with h | h
    · exact h
    · exact absurd h (hdiag j)
  have hspan := hli.span_eq_top_of_card_eq_finrank' (by simp)
  have hmem : (traj N P s n).r ∈ Submodule.span α (Set.range fun i : Fin n => (traj N P s i).r) := by
    rw [hspan]; exact Submodule.mem_top
  obtain ⟨c, hc⟩ := (Submodule.mem_span_range_iff_exists_fun α).mp hmem
  have hc0 : ∀ j, c j = 0 := by
    intro j
    have h1 := hcoef c j
    rw [hc, ((full n (le_refl n)).2 j j.2).1] at h1
    rcases mul_eq_zero.mp h1.symm with h | h
    · exact h
    · exact absurd h (hdiag j)
  rw [← hc]
  simp [hc0]

end LinOp.C08
