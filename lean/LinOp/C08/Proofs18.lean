/-
C08 — lifting of the tridiagonal bookkeeping through the coupled loop: the `t_mat` a call of `linear_cg` returns for a
tridiagonal column is `triFold` over that column's own trajectory, for the number `K` of iterations during which the
tridiagonal block was active.
-/
import LinOp.C08.Proofs16

set_option linter.unusedSectionVars false
namespace LinOp.C08

variable {α : Type} [Field α] [LinearOrder α] [IsStrictOrderedRing α]

theorem triStep_on (N : NumOps α) {n : Nat} (k : Nat) (c : Col α n) (t : Tri α) (b : Bool) :
    triStep N k c { t with on := b } = { triStep N k c t with on := b } := by
  unfold triStep
  split <;> rfl

section
variable (N : NumOps α) (P : Params α) {n : Nat} (sysz : List (SysZ α n)) (c0 : SysZ α n → Col α n)
  (onf : SysZ α n → Bool)

/-- column state of `sz` after `k` loop bodies -/
def colAt (sz : SysZ α n) (k : Nat) : Col α n := iterCol N P sz.1 sz.2 k (c0 sz)

/-- tridiagonal state of `sz` after `K` active tridiagonal blocks -/
def triAt (sz : SysZ α n) (K : Nat) : Tri α :=
  if onf sz then { triFold N (fun q => colAt N P c0 sz (q + 1)) K with on := true }
  else { (emptyTri : Tri α) with on := false }

def stF (k K : Nat) : List (Col α n × Tri α) :=
  sysz.map fun sz => (colAt N P c0 sz k, triAt N P c0 onf sz K)

theorem stepCols_F (k K : Nat) :
    stepCols N P sysz (stF N P sysz c0 onf k K) = stF N P sysz c0 onf (k + 1) K := by
  have := zipWith_self_map sysz (fun s => s) (fun sz => (colAt N P c0 sz k, triAt N P c0 onf sz K))
    (fun (s : SysZ α n) (ct : Col α n × Tri α) => (colStep N P s.1 s.2 ct.1, ct.2))
  simp only [List.map_id'] at this
  unfold stepCols stF
  rw [this]
  rfl

theorem triCols_F (k : Nat) :
    triCols N k (stF N P sysz c0 onf (k + 1) k) = stF N P sysz c0 onf (k + 1) (k + 1) := by
  unfold triCols stF
  rw [List.map_map]
  apply List.map_congr_left
  intro sz _
  simp only [Function.comp, triAt]
  cases h : onf sz
  · simp
  · simp only [if_true]
    rw [triStep_on, triFold_succ]

theorem iterate_F (nT : Nat) : ∀ (fuel k K : Nat) (st : St α n),
    st.cs = stF N P sysz c0 onf k K →
    (st.updTri = true → 0 < P.nTridiag → k < nT → K = k) →
    (0 < K → st.lastTri + 1 = K) → K ≤ nT → K ≤ k →
    ∃ k' K', k ≤ k' ∧ (iterate N P sysz nT fuel k st).cs = stF N P sysz c0 onf k' K' ∧
      (iterate N P sysz nT fuel k st).iters = st.iters + (k' - k) ∧
      (0 < K' → (iterate N P sysz nT fuel k st).lastTri + 1 = K') ∧ K' ≤ nT ∧ K' ≤ k' := by
  intro fuel
  induction fuel with
  | zero =>
    intro k K st hcs _ hl hn hk
    exact ⟨k, K, le_refl _, hcs, by simp [iterate], hl, hn, hk⟩
  | succ f ih =>
    intro k K st hcs hupd hl hn hk
    simp only [iterate]
    have hcs1 : stepCols N P sysz st.cs = stF N P sysz c0 onf (k + 1) K := by rw [hcs, stepCols_F]
    by_cases hact : (decide (0 < P.nTridiag) && decide (k < nT) && st.updTri) = true
    · -- the tridiagonal block runs at iteration `k`
      have hact' := hact
      simp only [Bool.and_eq_true, decide_eq_true_eq] at hact'
      obtain ⟨⟨hnt, hknT⟩, hu⟩ := hact'
      have hK : K = k := hupd hu hnt hknT
      subst hK
      have hcs2 : triCols N K (stepCols N P sysz st.cs) = stF N P sysz c0 onf (K + 1) (K + 1) := by
        rw [hcs1, triCols_F]
      simp only [hact, if_true]
      split
      · exact ⟨K + 1, K + 1, Nat.le_succ _, hcs2, by simp, fun _ => rfl, hknT, le_refl _⟩
      · obtain ⟨k', K', h1, h2, h3, h4, h5, h6⟩ := ih (K + 1) (K + 1)
          { st with cs := triCols N K (stepCols N P sysz st.cs), iters := st.iters + 1,
                    trace := (st.cs.map fun ct => ct.1.p) :: st.trace, lastTri := K,
                    updTri := !(decide (K ≠ 0) &&
                      N.lt (lmax N (offDiags K (triCols N K (stepCols N P sysz st.cs)))) P.triOff) }
          hcs2 (fun _ _ _ => rfl) (fun _ => rfl) hknT (le_refl _)
        refine ⟨k', K', by omega, h2, ?_, h4, h5, h6⟩
        rw [h3]; simp only; omega
    · -- the block does not run (and never will again)
      simp only [hact, if_false, Bool.false_eq_true]
      have hnext : ∀ st' : St α n, st'.updTri = st.updTri → (st'.updTri = true → 0 < P.nTridiag → k + 1 < nT → K = k + 1) := by
        intro st' he hu hnt hk1
        exfalso; apply hact
        simp only [Bool.and_eq_true, decide_eq_true_eq]
        exact ⟨⟨hnt, by omega⟩, he ▸ hu⟩
      split
      · exact ⟨k + 1, K, Nat.le_succ _, hcs1, by simp, hl, hn, by omega⟩
      · obtain ⟨k', K', h1, h2, h3, h4, h5, h6⟩ := ih (k + 1) K
          { st with cs := stepCols N P sysz st.cs, iters := st.iters + 1,
                    trace := (st.cs.map fun ct => ct.1.p) :: st.trace }
          hcs1 (hnext _ rfl) hl hn (by omega)
        refine ⟨k', K', by omega, h2, ?_, h4, h5, h6⟩
        rw [h3]; simp only; omega

end

theorem flatten_if_map {β γ : Type} (l : List β) (p : β → Bool) (f : β → γ) :
    (l.map fun a => if p a then [f a] else []).flatten = (l.filter p).map f := by
  induction l with
  | nil => rfl
  | cons a l ih =>
    simp only [List.map_cons, List.flatten_cons, ih, List.filter_cons]
    cases p a <;> simp

/-- **The returned tridiagonal matrices are `triFold`s of the columns' own trajectories.** -/
theorem linearCgCore_t (N : NumOps α) (P : Params α) {n : Nat} (sys : List (Sys α n)) :
    ∃ K, K ≤ (linearCgCore N P sys).iters ∧ K ≤ min P.maxTridiagIter n ∧
      (linearCgCore N P sys).t = ((sys.filter fun s => s.tri).map fun s =>
        (triFold N (fun q => iterCol N P s (prep N P s).isZero (q + 1) (initCol N P s (prep N P s))) K).t) ∧
      (0 < K → P.nTridiag ≠ 0 → (linearCgCore N P sys).tSize = K) := by
  have hcols : List.zipWith (fun s q => initCol N P s q) sys (sys.map fun s => prep N P s)
      = sys.map fun s => initCol N P s (prep N P s) := by
    have := zipWith_self_map sys (fun s => s) (fun s => prep N P s) (fun s q => initCol N P s q)
    simpa using this
  have hsysz : List.zipWith (fun s (q : Prep α n) => ((s, q.isZero) : SysZ α n)) sys (sys.map fun s => prep N P s)
      = sys.map fun s => ((s, (prep N P s).isZero) : SysZ α n) := by
    have := zipWith_self_map sys (fun s => s) (fun s => prep N P s) (fun s (q : Prep α n) => ((s, q.isZero) : SysZ α n))
    simpa using this
  set sysz : List (SysZ α n) := sys.map fun s => ((s, (prep N P s).isZero) : SysZ α n) with hsz
  set c0 : SysZ α n → Col α n := fun sz => initCol N P sz.1 (prep N P sz.1) with hc0
  set onf : SysZ α n → Bool := fun sz => sz.1.tri with honf
  have hst0 : List.zipWith (fun (s : Sys α n) c => (c, { (emptyTri : Tri α) with on := s.tri })) sys
      (sys.map fun s => initCol N P s (prep N P s)) = stF N P sysz c0 onf 0 0 := by
    have := zipWith_self_map sys (fun s => s) (fun s => initCol N P s (prep N P s))
      (fun (s : Sys α n) c => (c, { (emptyTri : Tri α) with on := s.tri }))
    simp only [List.map_id'] at this
    rw [this]
    unfold stF
    rw [hsz, List.map_map]
    apply List.map_congr_left
    intro s _
    simp only [Function.comp, colAt, triAt, iterCol, hc0, honf, triFold, List.range_zero, List.foldl_nil]
    cases s.tri <;> rfl
  simp only [linearCgCore, hcols, hsysz]
  obtain ⟨k', K', _, h2, h3, h4, h5, h6⟩ := iterate_F N P sysz c0 onf (min P.maxTridiagIter n)
    (if ((sys.map fun s => initCol N P s (prep N P s)).all (fun c => c.conv) && decide (P.nTridiag = 0)) = true then 0
      else nIterOf P n) 0 0
    { cs := List.zipWith (fun (s : Sys α n) c => (c, { (emptyTri : Tri α) with on := s.tri })) sys
        (sys.map fun s => initCol N P s (prep N P s)),
      updTri := true, lastTri := 0, tolReached := false, iters := 0, trace := [] }
    hst0 (fun _ _ _ => rfl) (fun h => absurd h (Nat.lt_irrefl 0)) (Nat.zero_le _) (le_refl _)
  refine ⟨K', ?_, h5, ?_, ?_⟩
  · rw [h3]; simp only [Nat.zero_add, Nat.sub_zero]; exact h6
  · rw [h2]
    unfold stF
    rw [List.map_map]
    have : ((fun (ct : Col α n × Tri α) => if ct.2.on = true then [ct.2.t] else []) ∘
        fun sz => (colAt N P c0 sz k', triAt N P c0 onf sz K'))
        = fun sz => if onf sz then [(triFold N (fun q => colAt N P c0 sz (q + 1)) K').t] else [] := by
      funext sz
      simp only [Function.comp, triAt]
      cases onf sz <;> simp
    rw [this, flatten_if_map, hsz, List.filter_map, List.map_map]
    rfl
  · intro hK hnt
    rw [if_neg hnt, ← h4 hK]
    exact Nat.min_eq_left (by rw [h4 hK]; exact h5)

end LinOp.C08
