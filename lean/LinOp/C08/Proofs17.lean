/-
C08 — the tridiagonal matrix of CG is the Lanczos matrix: with the normalised preconditioned residuals
`ẑ_k = (−1)^k z_k / √(r_kᵀ z_k)` and `q̂_k = (−1)^k r_k / √(r_kᵀ z_k)`,  `q̂_iᵀ ẑ_j = δ_ij` and `ẑ_iᵀ A ẑ_j = T[i, j]`.
-/
import LinOp.C08.Proofs16

set_option linter.unusedSectionVars false
namespace LinOp.C08

variable {α : Type} [Field α] [LinearOrder α] [IsStrictOrderedRing α]

theorem Lawful.sqrt_mul {N : NumOps α} (hN : Lawful N) {a b : α} (ha : 0 ≤ a) (hb : 0 ≤ b) :
    N.sqrt (a * b) = N.sqrt a * N.sqrt b := by
  have h1 := hN.sqrt_sq (a * b) (mul_nonneg ha hb)
  have h2 : (N.sqrt a * N.sqrt b) * (N.sqrt a * N.sqrt b) = a * b := by
    calc (N.sqrt a * N.sqrt b) * (N.sqrt a * N.sqrt b)
        = (N.sqrt a * N.sqrt a) * (N.sqrt b * N.sqrt b) := by ring
      _ = a * b := by rw [hN.sqrt_sq a ha, hN.sqrt_sq b hb]
  exact (mul_self_inj (hN.sqrt_nonneg _) (mul_nonneg (hN.sqrt_nonneg _) (hN.sqrt_nonneg _))).mp
    (h1.trans h2.symm)

theorem Lawful.sqrt_pos {N : NumOps α} (hN : Lawful N) {a : α} (ha : 0 < a) : 0 < N.sqrt a := by
  rcases lt_or_eq_of_le (hN.sqrt_nonneg a) with h | h
  · exact h
  · have := hN.sqrt_sq a ha.le
    rw [← h, mul_zero] at this
    exact absurd this.symm (ne_of_gt ha)

/-- normalisation `(−1)^k / √(r_kᵀ z_k)` -/
def sigma (N : NumOps α) (P : Params α) {n : Nat} (s : Sys α n) (k : Nat) : α :=
  (-1) ^ k / N.sqrt (traj N P s k).rz

/-- `ẑ_k`: normalised preconditioned residual (the Lanczos vector in the `M`-inner product) -/
def zhat (N : NumOps α) (P : Params α) {n : Nat} (s : Sys α n) (k : Nat) : Vec α n :=
  sigma N P s k • (traj N P s k).z

/-- `q̂_k`: normalised residual, `ẑ_k = M⁻¹ q̂_k` -/
def qhat (N : NumOps α) (P : Params α) {n : Nat} (s : Sys α n) (k : Nat) : Vec α n :=
  sigma N P s k • (traj N P s k).r

section
variable {N : NumOps α} (hN : Lawful N) (P : Params α) (he : 0 < P.eps) {n : Nat}
  {s : Sys α n} (hA : LinSym s.amul) (hM : ∀ u v, dot u (preF P s v) = dot (preF P s u) v)
  (xs : Vec α n) (hxs : s.amul xs = (prep N P s).b) (m : Nat)
  (hreg : ∀ j < m, Regular P s (traj N P s j))
include hN he hA hM hxs hreg

theorem rz_pos (k : Nat) (hk : k < m) : 0 < (traj N P s k).rz :=
  lt_of_lt_of_le he (not_lt.mp (hreg k hk).2.2)

theorem pAp_pos (k : Nat) (hk : k < m) : 0 < dot (traj N P s k).p (s.amul (traj N P s k).p) :=
  lt_of_lt_of_le he (not_lt.mp (hreg k hk).2.1)

theorem traj_alpha (k : Nat) (hk : k < m) :
    (traj N P s (k + 1)).alpha = (traj N P s k).rz / dot (traj N P s k).p (s.amul (traj N P s k).p) := by
  rw [traj_succ, colStep_alpha]
  exact alphaF_regular hN P s _ (hreg k hk).1 (hreg k hk).2.1

theorem traj_beta (k : Nat) (hk : k < m) :
    (traj N P s (k + 1)).beta = (traj N P s (k + 1)).rz / (traj N P s k).rz := by
  have : N.lt (traj N P s k).rz P.eps = false := (hN.lt_false _ _).mpr (hreg k hk).2.2
  rw [traj_succ, colStep_beta, this]; simp

theorem sigma_sq (k : Nat) (hk : k < m) : sigma N P s k * sigma N P s k = 1 / (traj N P s k).rz := by
  have hp := rz_pos hN P he hA hM xs hxs m hreg k hk
  have hs := hN.sqrt_sq _ hp.le
  have hsp := hN.sqrt_pos hp
  have h1 : ((-1 : α) ^ k) * ((-1) ^ k) = 1 := by rw [← mul_pow]; simp
  unfold sigma
  rw [div_mul_div_comm, h1, hs]

theorem alphaRecip_traj (k : Nat) (hk : k < m) :
    alphaRecip N (traj N P s (k + 1)).alpha
      = dot (traj N P s k).p (s.amul (traj N P s k).p) / (traj N P s k).rz := by
  have hp := rz_pos hN P he hA hM xs hxs m hreg k hk
  have hd := pAp_pos hN P he hA hM xs hxs m hreg k hk
  have ha := traj_alpha hN P he hA hM xs hxs m hreg k hk
  have hne : (traj N P s (k + 1)).alpha ≠ 0 := by rw [ha]; exact ne_of_gt (div_pos hp hd)
  rw [alphaRecip_eq hN _ hne, ha, one_div, inv_div]

/-- `p_aᵀ A p_b = δ_ab · p_aᵀ A p_a` -/
theorem pAp_gram (a b : Nat) (ha : a ≤ m) (hb : b ≤ m) :
    dot (traj N P s a).p (s.amul (traj N P s b).p)
      = if a = b then dot (traj N P s a).p (s.amul (traj N P s a).p) else 0 := by
  by_cases h : a = b
  · subst h; simp
  · rw [if_neg h]; exact directions_conjugate hN P he hA hM xs hxs m hreg a b ha hb h

/-- **`Q̂ᵀ Ẑ = I`**: the normalised residuals and preconditioned residuals are bi-orthonormal
(`ẑ = M⁻¹ q̂`: the `q̂_k` are orthonormal in the `M⁻¹`-inner product, the `ẑ_k` in the `M`-inner product). -/
theorem qhat_zhat (i j : Nat) (hi : i < m) (hj : j < m) :
    dot (qhat N P s i) (zhat N P s j) = if i = j then 1 else 0 := by
  unfold qhat zhat
  rw [dot_smul_left, dot_smul_right]
  by_cases h : i = j
  · subst h
    have hI := (full_orthogonality hN P he hA hM xs hxs m hreg i (Nat.le_of_lt hi)).1
    have hp := rz_pos hN P he hA hM xs hxs m hreg i hi
    rw [if_pos rfl, ← hI.rzdef, ← mul_assoc, sigma_sq hN P he hA hM xs hxs m hreg i hi]
    field_simp
  · rw [if_neg h, residuals_M_orthogonal hN P he hA hM xs hxs m hreg i j (Nat.le_of_lt hi) (Nat.le_of_lt hj) h]
    ring

/-- un-normalised Gram matrix `z_iᵀ A z_j`, diagonal -/
theorem zAz_diag (k : Nat) (hk : k < m) :
    dot (traj N P s k).z (s.amul (traj N P s k).z)
      = if k = 0 then dot (traj N P s 0).p (s.amul (traj N P s 0).p)
        else dot (traj N P s k).p (s.amul (traj N P s k).p)
          + (traj N P s k).beta ^ 2 * dot (traj N P s (k - 1)).p (s.amul (traj N P s (k - 1)).p) := by
  have hAl := hA.toLin
  cases k with
  | zero => rw [if_pos rfl, traj_z_zero]
  | succ k =>
    rw [if_neg (Nat.succ_ne_zero k), traj_z_expand, hAl.map_sub, hAl.smul, dot_sub_left, dot_sub_right, dot_sub_right,
      dot_smul_left, dot_smul_left, dot_smul_right, dot_smul_right,
      pAp_gram hN P he hA hM xs hxs m hreg (k + 1) k (by omega) (by omega),
      pAp_gram hN P he hA hM xs hxs m hreg k (k + 1) (by omega) (by omega),
      if_neg (by omega), if_neg (by omega)]
    simp only [Nat.add_sub_cancel]
    ring

/-- un-normalised Gram matrix, first sub-diagonal -/
theorem zAz_sub (j : Nat) (hj : j + 1 < m) :
    dot (traj N P s (j + 1)).z (s.amul (traj N P s j).z)
      = -((traj N P s (j + 1)).beta * dot (traj N P s j).p (s.amul (traj N P s j).p)) := by
  have hAl := hA.toLin
  have G := fun a b (ha : a ≤ m) (hb : b ≤ m) => pAp_gram hN P he hA hM xs hxs m hreg a b ha hb
  rw [traj_z_expand, dot_sub_left, dot_smul_left]
  cases j with
  | zero =>
    rw [traj_z_zero, G 1 0 (by omega) (by omega), if_neg (by omega)]
    ring
  | succ j =>
    rw [traj_z_expand, hAl.map_sub, hAl.smul, dot_sub_right, dot_sub_right, dot_smul_right, dot_smul_right,
      G (j + 1 + 1) (j + 1) (by omega) (by omega), G (j + 1 + 1) j (by omega) (by omega),
      G (j + 1) j (by omega) (by omega), if_neg (by omega), if_neg (by omega), if_neg (by omega)]
    ring

/-- un-normalised Gram matrix, outside the band -/
theorem zAz_far (i j : Nat) (hi : i < m) (hj : j + 1 < i) :
    dot (traj N P s i).z (s.amul (traj N P s j).z) = 0 := by
  have hAl := hA.toLin
  have G := fun a b (ha : a ≤ m) (hb : b ≤ m) => pAp_gram hN P he hA hM xs hxs m hreg a b ha hb
  obtain ⟨i', rfl⟩ : ∃ i', i = i' + 1 := ⟨i - 1, by omega⟩
  rw [traj_z_expand, dot_sub_left, dot_smul_left]
  cases j with
  | zero =>
    rw [traj_z_zero, G (i' + 1) 0 (by omega) (by omega), G i' 0 (by omega) (by omega),
      if_neg (by omega), if_neg (by omega)]
    ring
  | succ j =>
    rw [traj_z_expand, hAl.map_sub, hAl.smul, dot_sub_right, dot_sub_right, dot_smul_right, dot_smul_right,
      G (i' + 1) (j + 1) (by omega) (by omega), G (i' + 1) j (by omega) (by omega),
      G i' (j + 1) (by omega) (by omega), G i' j (by omega) (by omega),
      if_neg (by omega), if_neg (by omega), if_neg (by omega), if_neg (by omega)]
    ring

/-- lower triangle (`j ≤ i`) of `Ẑᵀ A Ẑ = T` -/
theorem zhat_gram_lower (i j : Nat) (hi : i < m) (hji : j ≤ i) :
    dot (zhat N P s i) (s.amul (zhat N P s j)) = lanczosT N (fun k => traj N P s (k + 1)) i j := by
  have hAl := hA.toLin
  have RZ := fun k hk => rz_pos hN P he hA hM xs hxs m hreg k hk
  have AR := fun k hk => alphaRecip_traj hN P he hA hM xs hxs m hreg k hk
  unfold zhat
  rw [hAl.smul, dot_smul_left, dot_smul_right]
  rcases Nat.lt_or_ge j i with hlt | hge
  · rcases Nat.lt_or_ge (j + 1) i with hfar | hadj
    · -- outside the band
      rw [zAz_far hN P he hA hM xs hxs m hreg i j hi hfar]
      have e1 : ¬ i = j := by omega
      have e2 : ¬ i = j + 1 := by omega
      have e3 : ¬ j = i + 1 := by omega
      simp [lanczosT, e1, e2, e3]
    · -- sub-diagonal: i = j + 1
      have hij : i = j + 1 := by omega
      subst hij
      have e1 : ¬ j + 1 = j := by omega
      rw [zAz_sub hN P he hA hM xs hxs m hreg j hi]
      simp only [lanczosT, e1, if_false, if_true]
      rw [AR j (by omega)]
      have hb := traj_beta hN P he hA hM xs hxs m hreg j (by omega)
      have h0 := RZ j (by omega)
      have h1 := RZ (j + 1) hi
      have hbpos : 0 < (traj N P s (j + 1)).beta := by rw [hb]; exact div_pos h1 h0
      have hrz1 : (traj N P s (j + 1)).rz = (traj N P s (j + 1)).beta * (traj N P s j).rz := by
        rw [hb]; field_simp
      have hsq : N.sqrt (traj N P s (j + 1)).rz
          = N.sqrt (traj N P s (j + 1)).beta * N.sqrt (traj N P s j).rz := by
        rw [hrz1, hN.sqrt_mul hbpos.le h0.le]
      have hs0 := hN.sqrt_pos h0
      have hsb := hN.sqrt_pos hbpos
      have hs0sq := hN.sqrt_sq _ h0.le
      have hsbsq := hN.sqrt_sq _ hbpos.le
      have hsign : ((-1 : α) ^ (j + 1)) * ((-1) ^ j) = -1 := by
        have hh : ((-1 : α) ^ j) * ((-1) ^ j) = 1 := by rw [← mul_pow]; simp
        rw [pow_succ]
        calc (-1 : α) ^ j * -1 * (-1) ^ j = -((-1 : α) ^ j * (-1) ^ j) := by ring
          _ = -1 := by rw [hh]
      unfold sigma
      rw [hsq]
      set sb := N.sqrt (traj N P s (j + 1)).beta with hsbdef
      set s0 := N.sqrt (traj N P s j).rz with hs0def
      set d := dot (traj N P s j).p (s.amul (traj N P s j).p)
      have hne0 : s0 ≠ 0 := ne_of_gt hs0
      have hneb : sb ≠ 0 := ne_of_gt hsb
      calc (-1) ^ (j + 1) / (sb * s0) * ((-1) ^ j / s0 * -((traj N P s (j + 1)).beta * d))
          = -(((-1 : α) ^ (j + 1)) * ((-1) ^ j)) * ((traj N P s (j + 1)).beta * d) / (sb * (s0 * s0)) := by
            field_simp
        _ = (sb * sb) * d / (sb * (s0 * s0)) := by rw [hsign, hsbsq]; ring
        _ = sb * (d / (traj N P s j).rz) := by rw [hs0sq]; field_simp
  · -- diagonal
    have hij : i = j := by omega
    subst hij
    rw [← mul_assoc, sigma_sq hN P he hA hM xs hxs m hreg i hi, zAz_diag hN P he hA hM xs hxs m hreg i hi]
    simp only [lanczosT, if_true]
    cases i with
    | zero =>
      simp only [if_true]
      rw [AR 0 hi]; ring
    | succ k =>
      simp only [Nat.succ_ne_zero, if_false, Nat.add_sub_cancel]
      rw [AR (k + 1) hi, AR k (by omega)]
      have hb := traj_beta hN P he hA hM xs hxs m hreg k (by omega)
      have h0 := RZ k (by omega)
      have h1 := RZ (k + 1) hi
      rw [hb]
      field_simp

/-- **`Ẑᵀ A Ẑ = T`** (all entries with `i, j < m`): the matrix the tridiagonal updates build is the matrix of `A` in the
normalised preconditioned residuals, i.e. the Lanczos matrix of the preconditioned operator. -/
theorem zhat_gram (i j : Nat) (hi : i < m) (hj : j < m) :
    dot (zhat N P s i) (s.amul (zhat N P s j)) = lanczosT N (fun k => traj N P s (k + 1)) i j := by
  rcases Nat.le_total j i with h | h
  · exact zhat_gram_lower hN P he hA hM xs hxs m hreg i j hi h
  · rw [hA.sym, dot_comm, zhat_gram_lower hN P he hA hM xs hxs m hreg j i hj h]
    -- `lanczosT` is symmetric
    unfold lanczosT
    by_cases e : i = j
    · subst e; rfl
    · have e' : ¬ j = i := fun h => e h.symm
      simp only [e, e', if_false]
      split_ifs <;> first | rfl | (exfalso; omega)

end
end LinOp.C08
