/-
C08 — over ℝ a symmetric linear closure has an orthonormal eigenbasis (Mathlib's spectral theorem for Hermitian
matrices); it is an `AEig` for the unpreconditioned kernel, and its eigenvalues obey every Rayleigh-quotient bound.
-/
import LinOp.C08.Proofs11
import Mathlib.Analysis.Matrix.Spectrum

set_option linter.unusedSectionVars false
namespace LinOp.C08

open Matrix

variable {n : Nat}

/-- the matrix of a closure in the standard basis -/
def matOf (f : Vec ℝ n → Vec ℝ n) : Matrix (Fin n) (Fin n) ℝ :=
  Matrix.of fun i j => f (Pi.single j 1) i

theorem vec_eq_sum_single (v : Vec ℝ n) : v = ∑ j, v j • (Pi.single j (1 : ℝ) : Vec ℝ n) := by
  funext i
  simp [Finset.sum_apply, Pi.single_apply]

theorem matOf_mulVec {f : Vec ℝ n → Vec ℝ n} (hf : Lin f) (v : Vec ℝ n) : (matOf f) *ᵥ v = f v := by
  conv_rhs => rw [vec_eq_sum_single v, hf.map_sum]
  funext i
  simp only [Matrix.mulVec, dotProduct, matOf, Matrix.of_apply, Finset.sum_apply, hf.smul, Pi.smul_apply,
    smul_eq_mul]
  apply Finset.sum_congr rfl
  intro j _; ring

theorem dot_single_left (j : Fin n) (w : Vec ℝ n) : dot (Pi.single j (1 : ℝ) : Vec ℝ n) w = w j := by
  simp [dot_eq, Pi.single_apply]

theorem dot_single_right (j : Fin n) (w : Vec ℝ n) : dot w (Pi.single j (1 : ℝ) : Vec ℝ n) = w j := by
  rw [dot_comm, dot_single_left]

theorem matOf_hermitian {f : Vec ℝ n → Vec ℝ n} (hf : LinSym f) : (matOf f).IsHermitian := by
  apply Matrix.IsHermitian.ext
  intro i j
  simp only [matOf, Matrix.of_apply, star_trivial]
  -- f(e_i) j = f(e_j) i
  rw [← dot_single_left j (f (Pi.single i 1)), hf.sym, dot_single_right]

section
variable {f : Vec ℝ n → Vec ℝ n} (hf : LinSym f)

/-- the orthonormal eigenvectors (columns of Mathlib's `eigenvectorUnitary`) -/
noncomputable def eigVec (j : Fin n) : Vec ℝ n := fun i => ((matOf_hermitian hf).eigenvectorUnitary : Matrix _ _ ℝ) i j

noncomputable def eigVal (j : Fin n) : ℝ := (matOf_hermitian hf).eigenvalues j

theorem eigVec_apply (j : Fin n) : f (eigVec hf j) = eigVal hf j • eigVec hf j := by
  have h := (matOf_hermitian hf).mulVec_eigenvectorBasis j
  rw [← matOf_mulVec hf.toLin]
  exact h

theorem eigVec_orthonormal (i j : Fin n) : dot (eigVec hf i) (eigVec hf j) = if i = j then 1 else 0 := by
  have h := (matOf_hermitian hf).eigenvectorUnitary.2
  rw [Matrix.mem_unitaryGroup_iff'] at h
  have := congrFun (congrFun h i) j
  simp only [Matrix.mul_apply, Matrix.star_apply, star_trivial, Matrix.one_apply] at this
  rw [dot_eq]; exact this

theorem eigVec_complete (w : Vec ℝ n) : w = ∑ j, dot (eigVec hf j) w • eigVec hf j := by
  have h := (matOf_hermitian hf).eigenvectorUnitary.2
  rw [Matrix.mem_unitaryGroup_iff] at h
  funext i
  have hi : ∀ i', (∑ j, eigVec hf j i * eigVec hf j i') = if i = i' then 1 else 0 := by
    intro i'
    have := congrFun (congrFun h i) i'
    simp only [Matrix.mul_apply, Matrix.star_apply, star_trivial, Matrix.one_apply] at this
    exact this
  calc w i = ∑ i', (if i = i' then 1 else 0) * w i' := by simp
    _ = ∑ i', (∑ j, eigVec hf j i * eigVec hf j i') * w i' := by simp only [hi]
    _ = ∑ j, (∑ i', eigVec hf j i' * w i') * eigVec hf j i := by
        simp only [Finset.sum_mul]
        rw [Finset.sum_comm]
        apply Finset.sum_congr rfl; intro j _
        apply Finset.sum_congr rfl; intro i' _; ring
    _ = (∑ j, dot (eigVec hf j) w • eigVec hf j) i := by
        simp [Finset.sum_apply, dot_eq]

/-- every eigenvalue lies between any two Rayleigh-quotient bounds -/
theorem eigVal_bounds (lo hi : ℝ) (hlo : ∀ v, lo * dot v v ≤ dot v (f v)) (hhi : ∀ v, dot v (f v) ≤ hi * dot v v)
    (j : Fin n) : lo ≤ eigVal hf j ∧ eigVal hf j ≤ hi := by
  have h1 := hlo (eigVec hf j)
  have h2 := hhi (eigVec hf j)
  rw [eigVec_apply hf, dot_smul_right, eigVec_orthonormal, if_pos rfl] at h1 h2
  constructor <;> linarith

end

/-- the spectral decomposition of `A` as an `AEig` of the unpreconditioned kernel -/
noncomputable def aeigOfSym (P : Params ℝ) (hnp : P.precond = false) (s : Sys ℝ n) (hA : LinSym s.amul) :
    AEig (Fin n) P s :=
  { v := eigVec hA
    lam := eigVal hA
    g := eigVal hA
    eig := fun i => by
      show preF P s (s.amul (eigVec hA i)) = _
      rw [preF_id_of_noprecond P s hnp, eigVec_apply hA]
    gram := fun i j => by
      rw [eigVec_apply hA, dot_smul_right, eigVec_orthonormal]
      by_cases h : i = j
      · subst h; simp
      · simp [h]
    complete := fun w => ⟨fun j => dot (eigVec hA j) w, eigVec_complete hA w⟩ }

theorem aeigOfSym_lam (P : Params ℝ) (hnp : P.precond = false) (s : Sys ℝ n) (hA : LinSym s.amul) (i : Fin n) :
    (aeigOfSym P hnp s hA).lam i = eigVal hA i := rfl

end LinOp.C08
