/-
C08 — Ritz values inside the spectrum: the quadratic form of the tridiagonal matrix is a Rayleigh quotient of the
preconditioned operator (consequence of `ẐᵀAẐ = T`, `Q̂ᵀẐ = I`).
-/
import LinOp.C08.Proofs17

set_option linter.unusedSectionVars false
namespace LinOp.C08

variable {α : Type} [Field α] [LinearOrder α] [IsStrictOrderedRing α]

section
variable {N : NumOps α} (hN : Lawful N) (P : Params α) (he : 0 < P.eps) {n : Nat}
  {s : Sys α n} (hA : LinSym s.amul) (hM : ∀ u v, dot u (preF P s v) = dot (preF P s u) v) (hMl : Lin (preF P s))
  (xs : Vec α n) (hxs : s.amul xs = (prep N P s).b) (m : Nat)
  (hreg : ∀ j < m, Regular P s (traj N P s j))
include hN he hA hM hMl hxs hreg

theorem zhat_eq_pre (j : Nat) : zhat N P s j = preF P s (qhat N P s j) := by
  unfold zhat qhat
  rw [hMl.smul, ← traj_zdef]

/-- `cᵀc = yᵀ M⁻¹ y` and `cᵀ T c = (M⁻¹y)ᵀ A (M⁻¹y)` for `y = Σ c_i q̂_i` -/
theorem ritz_forms (c : Nat → α) :
    let y : Vec α n := ∑ i ∈ Finset.range m, c i • qhat N P s i
    dot y (preF P s y) = ∑ i ∈ Finset.range m, c i * c i ∧
    dot (preF P s y) (s.amul (preF P s y))
      = ∑ i ∈ Finset.range m, ∑ j ∈ Finset.range m,
          c i * (triFold N (fun k => traj N P s (k + 1)) m).t i j * c j := by
  intro y
  have hAl := hA.toLin
  have hZ : preF P s y = ∑ i ∈ Finset.range m, c i • zhat N P s i := by
    show preF P s (∑ i ∈ Finset.range m, c i • qhat N P s i) = _
    rw [hMl.map_sum]
    apply Finset.sum_congr rfl
    intro i _
    rw [hMl.smul, zhat_eq_pre hN P he hA hM hMl xs hxs m hreg i]
  constructor
  · rw [hZ]
    show dot (∑ i ∈ Finset.range m, c i • qhat N P s i) _ = _
    rw [dot_sum_left]
    apply Finset.sum_congr rfl
    intro i hi
    rw [dot_sum_right, Finset.sum_eq_single i]
    · rw [dot_smul_left, dot_smul_right,
        qhat_zhat hN P he hA hM xs hxs m hreg i i (Finset.mem_range.mp hi) (Finset.mem_range.mp hi), if_pos rfl]
      ring
    · intro j hj hji
      rw [dot_smul_left, dot_smul_right,
        qhat_zhat hN P he hA hM xs hxs m hreg i j (Finset.mem_range.mp hi) (Finset.mem_range.mp hj),
        if_neg (fun h : i = j => hji h.symm)]
      ring
    · intro h; exact absurd hi h
  · rw [hZ, hAl.map_sum, dot_sum_left]
    apply Finset.sum_congr rfl
    intro i hi
    rw [dot_sum_right]
    apply Finset.sum_congr rfl
    intro j hj
    rw [hAl.smul, dot_smul_left, dot_smul_right, (triFold_closed N _ m).1 i j,
      if_pos ⟨Finset.mem_range.mp hi, Finset.mem_range.mp hj⟩,
      zhat_gram hN P he hA hM xs hxs m hreg i j (Finset.mem_range.mp hi) (Finset.mem_range.mp hj)]
    ring

/-- **Ritz values inside the spectrum**, numerical-range form. -/
theorem ritz_in_spectrum (lmin lmax : α)
    (hlo : ∀ y, lmin * dot y (preF P s y) ≤ dot (preF P s y) (s.amul (preF P s y)))
    (hhi : ∀ y, dot (preF P s y) (s.amul (preF P s y)) ≤ lmax * dot y (preF P s y)) (c : Nat → α) :
    lmin * ∑ i ∈ Finset.range m, c i * c i
      ≤ ∑ i ∈ Finset.range m, ∑ j ∈ Finset.range m, c i * (triFold N (fun k => traj N P s (k + 1)) m).t i j * c j ∧
    ∑ i ∈ Finset.range m, ∑ j ∈ Finset.range m, c i * (triFold N (fun k => traj N P s (k + 1)) m).t i j * c j
      ≤ lmax * ∑ i ∈ Finset.range m, c i * c i := by
  obtain ⟨h1, h2⟩ := ritz_forms hN P he hA hM hMl xs hxs m hreg c
  rw [← h1, ← h2]
  exact ⟨hlo _, hhi _⟩

end
end LinOp.C08
