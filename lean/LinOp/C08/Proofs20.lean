/-
C08 — Ritz values (eigenvalues of the tridiagonal matrix, Mathlib's `Matrix.IsHermitian.eigenvalues`) lie inside the spectrum
bounds, over ℝ.
-/
import LinOp.C08.Proofs19
import LinOp.C08.Proofs12

set_option linter.unusedSectionVars false
namespace LinOp.C08

theorem lanczosT_symm {α : Type} [Field α] [LinearOrder α] [IsStrictOrderedRing α] (N : NumOps α) {n : Nat}
    (cs : Nat → Col α n) (i j : Nat) : lanczosT N cs i j = lanczosT N cs j i := by
  unfold lanczosT
  by_cases e : i = j
  · subst e; rfl
  · have e' : ¬ j = i := fun h => e h.symm
    simp only [e, e', if_false]
    split_ifs <;> first | rfl | (exfalso; omega)

theorem triFold_symm {α : Type} [Field α] [LinearOrder α] [IsStrictOrderedRing α] (N : NumOps α) {n : Nat}
    (cs : Nat → Col α n) (m i j : Nat) : (triFold N cs m).t i j = (triFold N cs m).t j i := by
  rw [(triFold_closed N cs m).1 i j, (triFold_closed N cs m).1 j i, lanczosT_symm N cs i j]
  by_cases h : i < m ∧ j < m
  · rw [if_pos h, if_pos ⟨h.2, h.1⟩]
  · rw [if_neg h, if_neg (fun h' => h ⟨h'.2, h'.1⟩)]

/-- the leading `m × m` block of a `Nat`-indexed matrix as a closure on `Vec ℝ m` -/
def blockMul (m : Nat) (t : Nat → Nat → ℝ) : Vec ℝ m → Vec ℝ m := fun v i => ∑ j : Fin m, t i.1 j.1 * v j

theorem blockMul_linSym (m : Nat) (t : Nat → Nat → ℝ) (hs : ∀ i j, t i j = t j i) : LinSym (blockMul m t) :=
  { add := fun u v => by
      funext i; simp only [blockMul, Pi.add_apply, mul_add, Finset.sum_add_distrib]
    smul := fun c u => by
      funext i; simp only [blockMul, Pi.smul_apply, smul_eq_mul, Finset.mul_sum]
      apply Finset.sum_congr rfl; intro j _; ring
    sym := fun u v => by
      simp only [dot_eq, blockMul, Finset.mul_sum, Finset.sum_mul]
      rw [Finset.sum_comm]
      apply Finset.sum_congr rfl; intro j _
      apply Finset.sum_congr rfl; intro i _
      rw [hs i.1 j.1]; ring }

/-- the matrix whose eigenvalues `eigVal (blockMul_linSym …)` are is literally the leading block of `t` -/
theorem matOf_blockMul (m : Nat) (t : Nat → Nat → ℝ) :
    matOf (blockMul m t) = Matrix.of fun (i j : Fin m) => t i.1 j.1 := by
  funext i j
  simp [matOf, blockMul, Pi.single_apply]

theorem dot_blockMul (m : Nat) (t : Nat → Nat → ℝ) (v : Vec ℝ m) :
    dot v (blockMul m t v)
      = ∑ i ∈ Finset.range m, ∑ j ∈ Finset.range m,
          (fun k => if h : k < m then v ⟨k, h⟩ else 0) i * t i j * (fun k => if h : k < m then v ⟨k, h⟩ else 0) j := by
  rw [dot_eq, Finset.sum_range]
  apply Finset.sum_congr rfl; intro i _
  rw [Finset.sum_range]
  simp only [blockMul, Finset.mul_sum, i.2, dite_true]
  apply Finset.sum_congr rfl; intro j _
  simp only [j.2, dite_true]; ring

theorem dot_self_range (m : Nat) (v : Vec ℝ m) :
    dot v v = ∑ i ∈ Finset.range m,
      (fun k => if h : k < m then v ⟨k, h⟩ else 0) i * (fun k => if h : k < m then v ⟨k, h⟩ else 0) i := by
  rw [dot_eq, Finset.sum_range]
  apply Finset.sum_congr rfl; intro i _
  simp only [i.2, dite_true]

/-- **Ritz values inside the spectrum**, eigenvalue form over ℝ. -/
theorem ritz_eigenvalues {N : NumOps ℝ} (hN : Lawful N) (P : Params ℝ) (he : 0 < P.eps) {n : Nat}
    {s : Sys ℝ n} (hA : LinSym s.amul) (hM : ∀ u v, dot u (preF P s v) = dot (preF P s u) v) (hMl : Lin (preF P s))
    (xs : Vec ℝ n) (hxs : s.amul xs = (prep N P s).b) (m : Nat)
    (hreg : ∀ j < m, Regular P s (traj N P s j)) (lmin lmax : ℝ)
    (hlo : ∀ y, lmin * dot y (preF P s y) ≤ dot (preF P s y) (s.amul (preF P s y)))
    (hhi : ∀ y, dot (preF P s y) (s.amul (preF P s y)) ≤ lmax * dot y (preF P s y)) (i : Fin m) :
    lmin ≤ eigVal (blockMul_linSym m _ (triFold_symm N (fun k => traj N P s (k + 1)) m)) i ∧
    eigVal (blockMul_linSym m _ (triFold_symm N (fun k => traj N P s (k + 1)) m)) i ≤ lmax := by
  apply eigVal_bounds
  · intro v
    rw [dot_blockMul, dot_self_range]
    exact (ritz_in_spectrum hN P he hA hM hMl xs hxs m hreg lmin lmax hlo hhi _).1
  · intro v
    rw [dot_blockMul, dot_self_range]
    exact (ritz_in_spectrum hN P he hA hM hMl xs hxs m hreg lmin lmax hlo hhi _).2

end LinOp.C08
