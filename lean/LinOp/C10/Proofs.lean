import LinOp.C10.Model
import LinOp.Core.Bridge
import Mathlib.Algebra.Order.Field.Basic
import Mathlib.Algebra.BigOperators.Fin
import Mathlib.Algebra.Order.BigOperators.Group.Finset
import Mathlib.Logic.Equiv.Basic
import Mathlib.Tactic.Ring
import Mathlib.Tactic.Linarith
import Mathlib.Tactic.FieldSimp
/-!
C10 — helper lemmas about the pivoted-Cholesky model (`LinOp.C10.step`, `iter`, `loop`).
-/
namespace LinOp.C10
set_option linter.unusedSectionVars false

theorem get_ofFn {β : Type} {n : Nat} (f : Fin n → β) (i : Fin n) : (Vector.ofFn f).get i = f i := by
  simp [Vector.get]; rfl

section lists
variable {β : Type} {n : Nat}

theorem scatter_map (idx : List (Fin n)) (base : Fin n → β) (f : Fin n → β) (i : Fin n) :
    scatter base idx (idx.map f) i = if i ∈ idx then f i else base i := by
  induction idx generalizing base with
  | nil => simp [scatter]
  | cons a as ih =>
    simp only [List.map_cons, scatter, ih, upd, List.mem_cons]
    by_cases h1 : i ∈ as
    · simp [h1]
    · by_cases h2 : i = a
      · simp [h2]
      · simp [h1, h2]

theorem zipWith_map_self {γ δ : Type} (l : List β) (g : β → γ) (f : β → γ → δ) :
    List.zipWith f l (l.map g) = l.map fun i => f i (g i) := by
  induction l with
  | nil => rfl
  | cons a as ih => simp [ih]

theorem mem_tailPos (m : Nat) (j : Fin n) : j ∈ tailPos n m ↔ m ≤ j.val := by
  simp [tailPos, List.mem_filter]

end lists

section order
variable {α : Type} [LinearOrder α] {n : Nat}

theorem foldl_argmax (v : Fin n → α) (l : List (Fin n)) (b : Fin n) :
    let r := l.foldl (fun best j => if v best < v j then j else best) b
    (r = b ∨ r ∈ l) ∧ v b ≤ v r ∧ ∀ j ∈ l, v j ≤ v r := by
  induction l generalizing b with
  | nil => simp
  | cons a as ih =>
    simp only [List.foldl_cons]
    by_cases h : v b < v a
    · simp only [h, if_true]
      obtain ⟨h1, h2, h3⟩ := ih a
      refine ⟨?_, le_trans h.le h2, ?_⟩
      · rcases h1 with h1 | h1
        · right; rw [h1]; exact List.mem_cons_self
        · right; exact List.mem_cons_of_mem _ h1
      · intro j hj
        rcases List.mem_cons.1 hj with rfl | hj
        · exact h2
        · exact h3 j hj
    · simp only [h, if_false]
      obtain ⟨h1, h2, h3⟩ := ih b
      refine ⟨?_, h2, ?_⟩
      · rcases h1 with h1 | h1
        · left; exact h1
        · right; exact List.mem_cons_of_mem _ h1
      · intro j hj
        rcases List.mem_cons.1 hj with rfl | hj
        · exact le_trans (not_lt.1 h) h2
        · exact h3 j hj

/-- The arg-max position lies in the tail and carries a maximal value of the tail. -/
theorem argmaxFrom_spec (v : Fin n → α) (m : Fin n) :
    m.val ≤ (argmaxFrom v m).val ∧ ∀ j : Fin n, m.val ≤ j.val → v j ≤ v (argmaxFrom v m) := by
  obtain ⟨h1, h2, h3⟩ := foldl_argmax v (tailPos n (m.val + 1)) m
  refine ⟨?_, ?_⟩
  · rcases h1 with h1 | h1
    · unfold argmaxFrom; rw [h1]
    · have := (mem_tailPos _ _).1 h1
      unfold argmaxFrom; omega
  · intro j hj
    by_cases hjm : j = m
    · subst hjm; exact h2
    · have : m.val + 1 ≤ j.val := by
        have : m.val ≠ j.val := fun h => hjm (Fin.ext h.symm)
        omega
      exact h3 j ((mem_tailPos _ _).2 this)

end order

section field
variable {α : Type} [Field α] [LinearOrder α] [IsStrictOrderedRing α] {n : Nat}

/-- The law assumed of `sqrt` (true of the real square root): on non-negative arguments it is a
non-negative root. -/
def SqrtLaw (P : Prim α) : Prop := ∀ x, 0 ≤ x → P.sqrt x * P.sqrt x = x ∧ 0 ≤ P.sqrt x

def Symm (A : Mat α n n) : Prop := ∀ i j, A i j = A j i

/-- Positive semi-definite: `xᵀ A x ≥ 0` for every `x`. -/
def PSD (A : Mat α n n) : Prop := ∀ x : Fin n → α, 0 ≤ ∑ i, ∑ k, x i * A i k * x k

theorem lltEntry_append (rows : List (Vector α n)) (l : Vector α n) (i k : Fin n) :
    lltEntry (rows ++ [l]) i k = lltEntry rows i k + l.get i * l.get k := by
  simp [lltEntry, List.map_append, List.sum_append]

theorem resid_append (A : Mat α n n) (rows : List (Vector α n)) (l : Vector α n) (i k : Fin n) :
    resid A (rows ++ [l]) i k = resid A rows i k - l.get i * l.get k := by
  simp only [resid, lltEntry_append]; ring

theorem lltEntry_symm (rows : List (Vector α n)) (i k : Fin n) : lltEntry rows i k = lltEntry rows k i := by
  simp only [lltEntry]; congr 1; apply List.map_congr_left; intro r _; ring

theorem resid_symm {A : Mat α n n} (hA : Symm A) (rows : List (Vector α n)) : Symm (resid A rows) := by
  intro i k; simp only [resid, hA i k, lltEntry_symm rows i k]

theorem resid_nil (A : Mat α n n) : resid A [] = A := by
  funext i k; simp [resid, lltEntry]

/-! ### What one step does, branch-free -/

/-- index `k` sits at a position after `m` in the swapped permutation (`k ∈ pi_i`) -/
def InTail (s : St α n) (m : Fin n) (k : Fin n) : Prop := ∃ j : Fin n, m.val < j.val ∧ swapPerm s m j = k

instance (s : St α n) (m k : Fin n) : Decidable (InTail s m k) := by unfold InTail; infer_instance

/-- the row `L[m, :]` the step writes -/
def newRow (P : Prim α) (A : Mat α n n) (s : St α n) (m : Fin n) (k : Fin n) : α :=
  let p := swapPerm s m m
  if InTail s m k then (A p k - lltEntry s.rows p k) / P.sqrt (pivotVal s m)
  else if k = p then P.sqrt (pivotVal s m) else 0

theorem mem_piI (s : St α n) (m k : Fin n) :
    k ∈ (tailPos n (m.val + 1)).map (Vector.ofFn (swapPerm s m)).get ↔ InTail s m k := by
  simp only [List.mem_map, mem_tailPos, get_ofFn, InTail]
  constructor
  · rintro ⟨j, h1, h2⟩; exact ⟨j, by omega, h2⟩
  · rintro ⟨j, h1, h2⟩; exact ⟨j, by omega, h2⟩

theorem step_perm (P : Prim α) (A : Mat α n n) (s : St α n) (m : Fin n) :
    (step P A s m).perm.get = swapPerm s m := by
  funext j
  unfold step
  split <;> simp [get_ofFn]

theorem step_rows (P : Prim α) (A : Mat α n n) (s : St α n) (m : Fin n) :
    ∃ l : Vector α n, (step P A s m).rows = s.rows ++ [l] ∧ ∀ k, l.get k = newRow P A s m k := by
  unfold step
  by_cases h : m.val + 1 < n
  · simp only [h, if_true]
    refine ⟨_, rfl, ?_⟩
    intro k
    rw [get_ofFn, scatter_map]
    simp only [mem_piI, newRow, get_ofFn, upd, lltEntry]
    by_cases hk : InTail s m k
    · simp [hk]
    · simp [hk]
  · simp only [h, if_false]
    refine ⟨_, rfl, ?_⟩
    intro k
    have hk : ¬ InTail s m k := by
      rintro ⟨j, hj, _⟩; have := j.isLt; omega
    simp [get_ofFn, newRow, hk, upd]

theorem step_diag (P : Prim α) (A : Mat α n n) (s : St α n) (m : Fin n) (k : Fin n) :
    (step P A s m).diag.get k =
      if InTail s m k then s.diag.get k - newRow P A s m k * newRow P A s m k else s.diag.get k := by
  unfold step
  by_cases h : m.val + 1 < n
  · simp only [h, if_true]
    rw [get_ofFn, zipWith_map_self, scatter_map]
    simp only [mem_piI, newRow, get_ofFn, upd, lltEntry]
    by_cases hk : InTail s m k
    · simp [hk]
    · simp [hk]
  · simp only [h, if_false]
    have hk : ¬ InTail s m k := by
      rintro ⟨j, hj, _⟩; have := j.isLt; omega
    simp [hk]

/-! ### The permutation -/

theorem swapPerm_eq (s : St α n) (m : Fin n) :
    swapPerm s m = s.perm.get ∘ (Equiv.swap m (pivotPos s m)) := by
  funext j
  simp only [swapPerm, upd, Function.comp, Equiv.swap_apply_def]
  by_cases h1 : j = pivotPos s m <;> by_cases h2 : j = m
  · subst h2; rw [← h1]; simp
  · have h3 : ¬ pivotPos s m = m := fun h => h2 (h1.trans h)
    simp [h1, h3]
  · subst h2; simp [h1]
  · simp [h1, h2]

theorem swapPerm_bij (s : St α n) (m : Fin n) (h : Function.Bijective s.perm.get) :
    Function.Bijective (swapPerm s m) := by
  rw [swapPerm_eq]; exact h.comp (Equiv.bijective _)

theorem pivotPos_ge (s : St α n) (m : Fin n) : m.val ≤ (pivotPos s m).val :=
  (argmaxFrom_spec _ m).1

theorem swapPerm_lt (s : St α n) (m j : Fin n) (hj : j.val < m.val) : swapPerm s m j = s.perm.get j := by
  have := pivotPos_ge s m
  rw [swapPerm_eq, Function.comp, Equiv.swap_apply_of_ne_of_ne]
  · intro h; rw [h] at hj; omega
  · intro h; rw [h] at hj; omega

theorem swapPerm_m (s : St α n) (m : Fin n) : swapPerm s m m = s.perm.get (pivotPos s m) := by
  rw [swapPerm_eq, Function.comp, Equiv.swap_apply_left]

/-- positions at or after `m` stay at or after `m` under the swap -/
theorem swapPerm_ge (s : St α n) (m j : Fin n) (hj : m.val ≤ j.val) :
    ∃ j' : Fin n, m.val ≤ j'.val ∧ swapPerm s m j = s.perm.get j' := by
  refine ⟨Equiv.swap m (pivotPos s m) j, ?_, by rw [swapPerm_eq]; rfl⟩
  rw [Equiv.swap_apply_def]
  split
  · exact pivotPos_ge s m
  · split
    · exact le_refl _
    · exact hj

end field
end LinOp.C10
