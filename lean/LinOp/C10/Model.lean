/-
C10 — model of `linear_operator/functions/_pivoted_cholesky.py` (`PivotedCholesky.forward`),
`linear_operator/utils/permutation.py` and the pivoted-Cholesky preconditioner of
`linear_operator/operators/added_diag_linear_operator.py`, statement by statement.  Core Lean only.

    matrix_diag = matrix._approx_diagonal().clone()                          -- `init`.diag
    max_iter = min(max_iter, n)                                              -- `run`
    L = zeros(*batch, max_iter, n)                                           -- `St.rows` (rows filled so far)
    orig_error = max(matrix_diag, -1)[0]                                     -- `origError`
    errors = norm(matrix_diag, 1, -1) / orig_error                           -- `init`.err
    permutation = arange(n).repeat(*batch, 1)                                -- `init`.perm
    m = 0
    while (m == 0) or (m < max_iter and max(errors) > error_tol):            -- `loop` (max over the BATCH)
        permuted_diags = gather(matrix_diag, -1, permutation[..., m:])
        max_diag_values, max_diag_indices = max(permuted_diags, -1)          -- `argmaxFrom` (first maximal position)
        max_diag_indices = max_diag_indices + m
        old_pi_m = permutation[..., m].clone()
        permutation[..., m].copy_(permutation.gather(-1, max_diag_indices))  -- `upd … m (perm im)`
        permutation.scatter_(-1, max_diag_indices, old_pi_m)                 -- `upd … im oldPiM`
        pi_m = permutation[..., m]
        L_m = L[..., m, :];  L_m.scatter_(-1, pi_m, max_diag_values.sqrt())  -- `Lm0`
        if m + 1 < n:
            row = apply_permutation(matrix, pi_m.unsqueeze(-1), None).squeeze(-2)      -- `A piM` (via __getitem__)
            pi_i = permutation[..., m+1:]
            L_m_new = row.gather(-1, pi_i)
            if m > 0: L_m_new -= sum(L[..., :m, :].gather(pi_m) * L[..., :m, :].gather(pi_i), -2)
            L_m_new /= L_m.gather(-1, pi_m)
            L_m.scatter_(-1, pi_i, L_m_new)
            matrix_diag.scatter_(-1, pi_i, matrix_diag.gather(-1, pi_i) - L_m_new**2)
            errors = norm(matrix_diag.gather(-1, pi_i), 1, -1) / orig_error
        m = m + 1
    return L[..., :m, :].mT, permutation                                     -- `factor`, `St.perm`

The matrix is a function `A : Fin n → Fin n → α` (row extraction = `A piM`); `sqrt` and `log` are
PARAMETERS (`Prim`), `torch.linalg.qr` is a parameter of the preconditioner part.  Everything is
polymorphic in the scalar type: executed on `Rat` (exact) and `Float` (binary64) by the driver,
reasoned about over ordered fields in `LinOp/C10/Proofs*.lean`.
-/
import LinOp.Core.Basic
namespace LinOp.C10

/-- Scalar primitives outside the field signature. -/
structure Prim (α : Type) where
  sqrt : α → α
  log : α → α

section
variable {α β : Type} {n : Nat}

/-- In-place write of one entry. -/
def upd (f : Fin n → β) (i : Fin n) (v : β) : Fin n → β := fun j => if j = i then v else f j

/-- `t.scatter_(-1, idx, vals)` on one row (later writes win). -/
def scatter (base : Fin n → β) : List (Fin n) → List β → Fin n → β
  | i :: is, v :: vs => scatter (upd base i v) is vs
  | _, _ => base

/-- Positions `m, m+1, …, n-1` (`[..., m:]`). -/
def tailPos (n m : Nat) : List (Fin n) := (List.finRange n).filter fun j => m ≤ j.val

/-- `|x|` (the 1-norm of `torch.norm(x, 1)` sums these). -/
def absv [Zero α] [Neg α] [LT α] [DecidableLT α] (x : α) : α := if x < 0 then -x else x

/-- `torch.max(v, -1)[0]` of a non-empty row (0 for the empty row, which the code never meets). -/
def maxList [Zero α] [LT α] [DecidableLT α] : List α → α
  | [] => 0
  | x :: xs => xs.foldl (fun b y => if b < y then y else b) x

/-- `torch.max(gather(v, perm[m:]), -1)[1] + m`: the FIRST position `j ≥ m` at which `v` is maximal. -/
def argmaxFrom [LT α] [DecidableLT α] (v : Fin n → α) (m : Fin n) : Fin n :=
  (tailPos n (m.val + 1)).foldl (fun best j => if v best < v j then j else best) m

/-- State of one batch member between two iterations of the while loop (tensors are `Vector`s, i.e.
strict data: nothing is recomputed when the state is read). -/
structure St (α : Type) (n : Nat) where
  /-- `matrix_diag` -/
  diag : Vector α n
  /-- `permutation` : position ↦ index -/
  perm : Vector (Fin n) n
  /-- rows `L[0], …, L[m-1]` of the `max_iter × n` buffer -/
  rows : List (Vector α n)
  /-- `errors` -/
  err : α

variable [Zero α] [Add α] [Sub α] [Mul α] [Div α] [Neg α] [LT α] [DecidableLT α]

/-- `orig_error = torch.max(matrix_diag, dim=-1)[0]` -/
def origError (A : Mat α n n) : α := maxList ((List.finRange n).map fun i => A i i)

def init (A : Mat α n n) : St α n :=
  { diag := Vector.ofFn fun i => A i i
    perm := Vector.ofFn fun i => i
    rows := []
    err := ((List.finRange n).map fun i => absv (A i i)).sum / origError A }

/-- The pivot position chosen in iteration `m` and the value found there. -/
def pivotPos (s : St α n) (m : Fin n) : Fin n := argmaxFrom (fun j => s.diag.get (s.perm.get j)) m
def pivotVal (s : St α n) (m : Fin n) : α := s.diag.get (s.perm.get (pivotPos s m))

/-- The permutation after the swap of iteration `m`. -/
def swapPerm (s : St α n) (m : Fin n) : Fin n → Fin n :=
  let im := pivotPos s m
  upd (upd s.perm.get m (s.perm.get im)) im (s.perm.get m)

/-- One iteration of the while-loop body on one batch member (`m` = loop counter). -/
def step (P : Prim α) (A : Mat α n n) (s : St α n) (m : Fin n) : St α n :=
  let maxv := pivotVal s m
  let perm2 := Vector.ofFn (swapPerm s m)
  let piM := perm2.get m
  let Lm0 : Fin n → α := upd (fun _ => 0) piM (P.sqrt maxv)
  if m.val + 1 < n then
    let row := A piM
    let piI := (tailPos n (m.val + 1)).map perm2.get
    let new := piI.map fun i => (row i - (s.rows.map fun r => r.get piM * r.get i).sum) / Lm0 piM
    let Lm := Vector.ofFn (scatter Lm0 piI new)
    let diag' := Vector.ofFn (scatter s.diag.get piI (List.zipWith (fun i v => s.diag.get i - v * v) piI new))
    let err' := (piI.map fun i => absv (diag'.get i)).sum / origError A
    { diag := diag', perm := perm2, rows := s.rows ++ [Lm], err := err' }
  else
    { s with perm := perm2, rows := s.rows ++ [Vector.ofFn Lm0] }

/-- One batch member after `m` iterations, whatever the rest of the batch does. -/
def iter (P : Prim α) (A : Mat α n n) : Nat → St α n
  | 0 => init A
  | m + 1 => if h : m < n then step P A (iter P A m) ⟨m, h⟩ else iter P A m

/-- `torch.max(errors)` over the batch. -/
def batchErr (ss : List (St α n)) : α := maxList (ss.map (·.err))

/-- The while loop on a batch (`As` = members).  `fuel` only makes the recursion structural
(`fuel = max_iter` always suffices).  Returns the final `m` and the member states. -/
def loop (P : Prim α) (As : List (Mat α n n)) (maxIter : Nat) (tol : α) :
    (fuel m : Nat) → List (St α n) → Nat × List (St α n)
  | 0, m, ss => (m, ss)
  | fuel + 1, m, ss =>
    if m == 0 || (decide (m < maxIter) && decide (tol < batchErr ss)) then
      if h : m < n then
        loop P As maxIter tol fuel (m + 1) (List.zipWith (fun A s => step P A s ⟨m, h⟩) As ss)
      else (m, ss)
    else (m, ss)

/-- `PivotedCholesky.forward(max_iter = rank, error_tol)` on a batch. -/
def run (P : Prim α) (As : List (Mat α n n)) (rank : Nat) (tol : α) : Nat × List (St α n) :=
  let maxIter := min rank n
  loop P As maxIter tol (maxIter + 1) 0 (As.map init)

/-! ### The loop as it is after fix d829792 (masking of batch members whose residual has vanished)

    L_m.scatter_(-1, pi_m, max_diag_values.clamp_min(0.0).sqrt())                  -- `clampMin0`
    pivot = L_m.gather(-1, pi_m)
    L_m_new = torch.where(pivot > 0, L_m_new / pivot, torch.zeros_like(L_m_new))   -- `if 0 < pivot then … else 0`

`stepM` is the literal mirror of the current loop body (this is what the driver runs); `step` above is the same body without the
two guards.  They coincide whenever the pivot is positive (`stepM_eq_step`), and on a non-positive pivot `stepM` writes a zero row
and leaves the diagonal alone (`stepM_nonpos`). -/

/-- `x.clamp_min(0.0)` -/
def clampMin0 (x : α) : α := if x < 0 then 0 else x

/-- One iteration of the CURRENT while-loop body on one batch member. -/
def stepM (P : Prim α) (A : Mat α n n) (s : St α n) (m : Fin n) : St α n :=
  let maxv := pivotVal s m
  let perm2 := Vector.ofFn (swapPerm s m)
  let piM := perm2.get m
  let Lm0 : Fin n → α := upd (fun _ => 0) piM (P.sqrt (clampMin0 maxv))
  if m.val + 1 < n then
    let row := A piM
    let piI := (tailPos n (m.val + 1)).map perm2.get
    let pivot := Lm0 piM
    let new := piI.map fun i =>
      if 0 < pivot then (row i - (s.rows.map fun r => r.get piM * r.get i).sum) / pivot else 0
    let Lm := Vector.ofFn (scatter Lm0 piI new)
    let diag' := Vector.ofFn (scatter s.diag.get piI (List.zipWith (fun i v => s.diag.get i - v * v) piI new))
    let err' := (piI.map fun i => absv (diag'.get i)).sum / origError A
    { diag := diag', perm := perm2, rows := s.rows ++ [Lm], err := err' }
  else
    { s with perm := perm2, rows := s.rows ++ [Vector.ofFn Lm0] }

/-- One batch member after `m` iterations of the current code, whatever the rest of the batch does. -/
def iterM (P : Prim α) (A : Mat α n n) : Nat → St α n
  | 0 => init A
  | m + 1 => if h : m < n then stepM P A (iterM P A m) ⟨m, h⟩ else iterM P A m

/-- The COUPLED while loop of the current code on a batch: one shared counter `m`, one stop test
`torch.max(errors) > error_tol` over all members, every member does every iteration (`stepM`). -/
def loopM (P : Prim α) (As : List (Mat α n n)) (maxIter : Nat) (tol : α) :
    (fuel m : Nat) → List (St α n) → Nat × List (St α n)
  | 0, m, ss => (m, ss)
  | fuel + 1, m, ss =>
    if m == 0 || (decide (m < maxIter) && decide (tol < batchErr ss)) then
      if h : m < n then
        loopM P As maxIter tol fuel (m + 1) (List.zipWith (fun A s => stepM P A s ⟨m, h⟩) As ss)
      else (m, ss)
    else (m, ss)

/-- `PivotedCholesky.forward(max_iter = rank, error_tol)` on a batch, current code. -/
def runM (P : Prim α) (As : List (Mat α n n)) (rank : Nat) (tol : α) : Nat × List (St α n) :=
  let maxIter := min rank n
  loopM P As maxIter tol (maxIter + 1) 0 (As.map init)

/-- `L[..., :m, :].mT` — the `n × m` factor, column `t` = row `t` of the buffer. -/
def factor (s : St α n) : List (Fin n → α) := s.rows.map (·.get)

/-- `(L Lᵀ)[i, k]` for the rows computed so far. -/
def lltEntry (rows : List (Vector α n)) (i k : Fin n) : α := (rows.map fun r => r.get i * r.get k).sum

/-- The residual `A − L Lᵀ`. -/
def resid (A : Mat α n n) (rows : List (Vector α n)) : Mat α n n := fun i k => A i k - lltEntry rows i k

/-! ### `utils/permutation.py` -/

/-- `inverse_permutation(p) = zeros_like(p).scatter_(-1, p, arange)` -/
def inversePermutation (h : 0 < n) (p : Fin n → Fin n) : Fin n → Fin n :=
  scatter (fun _ => ⟨0, h⟩) ((List.finRange n).map p) (List.finRange n)

/-- `apply_permutation(K, left, right)[i, j] = K[left[i], right[j]]` (partial permutations allowed). -/
def applyPermutation {a b : Nat} (K : Mat α n n) (left : Fin a → Fin n) (right : Fin b → Fin n) : Mat α a b :=
  fun i j => K (left i) (right j)

/-! ### The preconditioner of `AddedDiagLinearOperator` (one batch member; `n × k` factor `L`, noise `d`) -/

/-- `_preconditioner`: `if max_preconditioner_size == 0 or size(-1) < min_preconditioning_size: return None×3` -/
def precondEnabled (maxSize minSize n : Nat) : Bool := !(maxSize == 0 || decide (n < minSize))

/-- `_init_cache`: `torch.equal(noise, noise[..., :1, :] * ones_like(noise))` for one member
(the flag is the conjunction over the batch). -/
def constantDiag [DecidableEq α] (d : List α) : Bool :=
  match d with
  | [] => true
  | x :: _ => d.all fun y => y == x

variable {k c : Nat}

/-- `torch.cat((T, B), dim=-2)` -/
def stackRows (T : Mat α n k) (B : Mat α k k) : Mat α (n + k) k :=
  fun i j => if h : i.val < n then T ⟨i.val, h⟩ j else B ⟨i.val - n, by omega⟩ j

/-- `Q[..., :n, :]` -/
def topRows (Q : Mat α (n + k) k) : Mat α n k := fun i j => Q ⟨i.val, by omega⟩ j

/-- `c * eye` -/
def scaledEye (cst one : α) : Mat α k k := fun i j => if i = j then cst * one else cst * 0

/-- constant diagonal: the matrix handed to `torch.linalg.qr`: `cat((L, noise.sqrt() * eye), -2)` -/
def qrInputConst [One α] (P : Prim α) (L : Mat α n k) (s : α) : Mat α (n + k) k :=
  stackRows L (scaledEye (P.sqrt s) 1)

/-- non-constant diagonal: `cat((L / noise.sqrt(), eye), -2)` -/
def qrInputNonconst [One α] (P : Prim α) (L : Mat α n k) (d : Fin n → α) : Mat α (n + k) k :=
  stackRows (fun i j => L i j / P.sqrt (d i)) (fun i j => if i = j then 1 else 0)

/-- `_q_cache` for a constant diagonal: `Q[..., :n, :]` -/
def qCacheConst (Q : Mat α (n + k) k) : Mat α n k := topRows Q

/-- `_q_cache` for a non-constant diagonal: `Q[..., :n, :] / noise.sqrt()` -/
def qCacheNonconst (P : Prim α) (Q : Mat α (n + k) k) (d : Fin n → α) : Mat α n k :=
  fun i j => topRows Q i j / P.sqrt (d i)

/-- `qqt = q_cache.matmul(q_cache.mT.matmul(tensor))` -/
def qqt (q : Mat α n k) (x : Mat α n c) : Mat α n c := Mat.mul q (Mat.mul (Mat.transpose q) x)

/-- `precondition_closure`, constant diagonal: `(1 / noise) * (tensor - qqt)` -/
def closureConst [One α] (q : Mat α n k) (s : α) (x : Mat α n c) : Mat α n c :=
  fun i j => (1 / s) * (x i j - qqt q x i j)

/-- `precondition_closure`, non-constant diagonal: `tensor / noise - qqt` -/
def closureNonconst (q : Mat α n k) (d : Fin n → α) (x : Mat α n c) : Mat α n c :=
  fun i j => x i j / d i - qqt q x i j

/-- `r.diagonal().abs().log().sum(-1).mul(2)` -/
def logAbsDiag2 [OfNat α 2] (P : Prim α) (R : Mat α k k) : α :=
  ((List.finRange k).map fun i => P.log (absv (R i i))).sum * 2

/-- `_precond_logdet_cache`, constant diagonal: `… + (n - k) * noise.log()`.
`nk` is the Python int `n - k` converted to the scalar type. -/
def logdetConst [OfNat α 2] (P : Prim α) (R : Mat α k k) (s : α) (nk : α) : α :=
  logAbsDiag2 P R + nk * P.log s

/-- `_precond_logdet_cache`, non-constant diagonal: `… - (1 / noise).log().sum()` -/
def logdetNonconst [One α] [OfNat α 2] (P : Prim α) (R : Mat α k k) (d : Fin n → α) : α :=
  logAbsDiag2 P R - ((List.finRange n).map fun i => P.log (1 / d i)).sum

/-- `_precond_lt = PsdSumLinearOperator(RootLinearOperator(L), DiagLinearOperator(d))`, densified. -/
def precondLt (L : Mat α n k) (d : Fin n → α) : Mat α n n :=
  Mat.add (Mat.mul L (Mat.transpose L)) (Mat.diag d)

end
end LinOp.C10
