import LinOp.C10.Proofs
/-!
C10 — the loop invariant of pivoted Cholesky and its preservation by one step.
-/
namespace LinOp.C10
set_option linter.unusedSectionVars false

variable {α : Type} [Field α] [LinearOrder α] [IsStrictOrderedRing α] {n : Nat}

/-- Invariant after `m` iterations on one batch member. -/
structure Inv (A : Mat α n n) (s : St α n) (m : Nat) : Prop where
  len : s.rows.length = m
  bij : Function.Bijective s.perm.get
  /-- the tracked diagonal is the residual diagonal on unpivoted indices -/
  diag : ∀ j : Fin n, m ≤ j.val → s.diag.get (s.perm.get j) = resid A s.rows (s.perm.get j) (s.perm.get j)
  /-- the residual vanishes on the rows of the pivots chosen so far -/
  zero : ∀ j : Fin n, j.val < m → ∀ k, resid A s.rows (s.perm.get j) k = 0

theorem init_inv (A : Mat α n n) : Inv A (init A) 0 where
  len := rfl
  bij := by
    have : (init A).perm.get = id := by funext i; simp [init, get_ofFn]
    rw [this]; exact Function.bijective_id
  diag := by intro j _; simp [init, get_ofFn, resid_nil]
  zero := by intro j hj; omega

/-- the pivot value is the residual diagonal entry at the pivot index -/
theorem pivotVal_eq {A : Mat α n n} {s : St α n} {m : Fin n} (h : Inv A s m.val) :
    pivotVal s m = resid A s.rows (swapPerm s m m) (swapPerm s m m) := by
  rw [swapPerm_m]; exact h.diag _ (pivotPos_ge s m)

/-- **The new row is the pivot column of the residual, scaled**: `L[m, k] = R[p, k] / sqrt(R[p, p])` for every `k`. -/
theorem newRow_eq {P : Prim α} {A : Mat α n n} {s : St α n} {m : Fin n} (hP : SqrtLaw P) (hA : Symm A)
    (h : Inv A s m.val) (hpos : 0 < pivotVal s m) (k : Fin n) :
    newRow P A s m k = resid A s.rows (swapPerm s m m) k / P.sqrt (pivotVal s m) := by
  have hb := swapPerm_bij s m h.bij
  obtain ⟨hsq, hsq0⟩ := hP _ hpos.le
  have hne : P.sqrt (pivotVal s m) ≠ 0 := by
    intro h0; rw [h0] at hsq; simp at hsq; exact absurd hsq.symm hpos.ne'
  obtain ⟨j, rfl⟩ := hb.2 k
  unfold newRow
  rcases lt_trichotomy j.val m.val with hj | hj | hj
  · -- an earlier pivot: the row entry is 0 and so is the residual there
    have h1 : ¬ InTail s m (swapPerm s m j) := by
      rintro ⟨j', hj', he⟩; have := hb.1 he; subst this; omega
    have h2 : swapPerm s m j ≠ swapPerm s m m := by
      intro he; have := hb.1 he; rw [this] at hj; omega
    have h3 : resid A s.rows (swapPerm s m m) (swapPerm s m j) = 0 := by
      rw [resid_symm hA s.rows, swapPerm_lt s m j hj]; exact h.zero j hj _
    simp [h1, h2, h3]
  · have hjm : j = m := Fin.ext hj
    subst hjm
    have h1 : ¬ InTail s j (swapPerm s j j) := by
      rintro ⟨j', hj', he⟩; have := hb.1 he; subst this; omega
    simp only [h1, if_false, if_true]
    rw [← pivotVal_eq h, eq_div_iff hne]; exact hsq
  · have h1 : InTail s m (swapPerm s m j) := ⟨j, hj, rfl⟩
    simp only [h1, if_true, resid]

theorem step_inv {P : Prim α} {A : Mat α n n} {s : St α n} {m : Fin n} (hP : SqrtLaw P) (hA : Symm A)
    (h : Inv A s m.val) (hpos : 0 < pivotVal s m) : Inv A (step P A s m) (m.val + 1) := by
  obtain ⟨l, hrows, hl⟩ := step_rows P A s m
  have hb := swapPerm_bij s m h.bij
  obtain ⟨hsq, hsq0⟩ := hP _ hpos.le
  have hne : P.sqrt (pivotVal s m) ≠ 0 := by
    intro h0; rw [h0] at hsq; simp at hsq; exact absurd hsq.symm hpos.ne'
  have hrow := fun k => (hl k).trans (newRow_eq hP hA h hpos k)
  refine ⟨?_, ?_, ?_, ?_⟩
  · rw [hrows]; simp [h.len]
  · rw [step_perm]; exact hb
  · intro j hj
    rw [step_perm, hrows, resid_append, step_diag]
    have h1 : InTail s m (swapPerm s m j) := ⟨j, by omega, rfl⟩
    obtain ⟨j', hj', he⟩ := swapPerm_ge s m j (by omega)
    simp only [h1, if_true, hl]
    rw [he, h.diag j' hj']
  · intro j hj k
    rw [step_perm, hrows, resid_append, hrow, hrow]
    rcases Nat.lt_or_ge j.val m.val with hjm | hjm
    · have h3 : resid A s.rows (swapPerm s m m) (swapPerm s m j) = 0 := by
        rw [resid_symm hA s.rows, swapPerm_lt s m j hjm]; exact h.zero j hjm _
      rw [h3, swapPerm_lt s m j hjm, h.zero j hjm k]; simp
    · have hjm' : j = m := Fin.ext (by omega)
      subst hjm'
      rw [← pivotVal_eq h]
      have e1 : pivotVal s j / P.sqrt (pivotVal s j) = P.sqrt (pivotVal s j) := by
        rw [div_eq_iff hne]; exact hsq.symm
      have e2 : ∀ r : α, P.sqrt (pivotVal s j) * (r / P.sqrt (pivotVal s j)) = r := by
        intro r; field_simp
      rw [e1, e2, sub_self]

/-- positivity of all pivots up to step `m` -/
def PivotsPos (P : Prim α) (A : Mat α n n) (m : Nat) : Prop :=
  ∀ t, (h : t < n) → t < m → 0 < pivotVal (iter P A t) ⟨t, h⟩

theorem iter_inv {P : Prim α} {A : Mat α n n} (hP : SqrtLaw P) (hA : Symm A) :
    ∀ m, m ≤ n → PivotsPos P A m → Inv A (iter P A m) m
  | 0, _, _ => init_inv A
  | m + 1, hm, hpos => by
    have hlt : m < n := by omega
    have ih := iter_inv hP hA m (by omega) (fun t h ht => hpos t h (by omega))
    simp only [iter, hlt, dite_true]
    exact step_inv (m := ⟨m, hlt⟩) hP hA ih (hpos m hlt (by omega))

end LinOp.C10
