import LinOp.C10.ProofsLoop
/-!
C10 — the while loopM of pivoted Cholesky on a batch: how many iterations runM and why it stops.
-/
namespace LinOp.C10
set_option linter.unusedSectionVars false

variable {α : Type} [Field α] [LinearOrder α] [IsStrictOrderedRing α] {n : Nat}

/-- `torch.max(errors)` after `t` iterations of every member. -/
def errAtM (P : Prim α) (As : List (Mat α n n)) (t : Nat) : α := batchErr (As.map fun A => iterM P A t)

/-- What the loopM guarantees about its exit counter `r` when entered with counter `m`. -/
structure StopsM (P : Prim α) (As : List (Mat α n n)) (maxIter : Nat) (tol : α) (m : Nat)
    (res : Nat × List (St α n)) : Prop where
  le_max : res.1 ≤ maxIter
  ge : m ≤ res.1
  pos : m = 0 → 1 ≤ res.1
  states : res.2 = As.map fun A => iterM P A res.1
  /-- every iteration after the first ran only because the error exceeded the tolerance -/
  continued : ∀ t, m ≤ t → 1 ≤ t → t < res.1 → tol < errAtM P As t
  /-- stopping before `max_iter` means the error is within the tolerance -/
  stopped : res.1 < maxIter → 1 ≤ res.1 → ¬ tol < errAtM P As res.1

theorem zipWith_stepM (P : Prim α) (As : List (Mat α n n)) (m : Nat) (h : m < n) :
    List.zipWith (fun A s => stepM P A s ⟨m, h⟩) As (As.map fun A => iterM P A m) =
      As.map fun A => iterM P A (m + 1) := by
  rw [zipWith_map_self]
  apply List.map_congr_left
  intro A _
  simp [iterM, h]

theorem loopM_spec (P : Prim α) (As : List (Mat α n n)) (maxIter : Nat) (tol : α) (hmax : maxIter ≤ n)
    (hpos : 0 < maxIter) :
    ∀ fuel m, m ≤ maxIter → maxIter < m + fuel →
      StopsM P As maxIter tol m (loopM P As maxIter tol fuel m (As.map fun A => iterM P A m))
  | 0, m, h1, h2 => by omega
  | fuel + 1, m, h1, h2 => by
    unfold loopM
    by_cases hc : (m == 0 || (decide (m < maxIter) && decide (tol < batchErr (As.map fun A => iterM P A m)))) = true
    · have hlt : m < maxIter := by
        simp only [Bool.or_eq_true, beq_iff_eq, Bool.and_eq_true, decide_eq_true_eq] at hc
        rcases hc with hc | hc
        · omega
        · exact hc.1
      have hn : m < n := by omega
      simp only [hc, if_true, hn, dite_true]
      rw [zipWith_stepM]
      have ih := loopM_spec P As maxIter tol hmax hpos fuel (m + 1) (by omega) (by omega)
      refine ⟨ih.le_max, by have := ih.ge; omega, fun _ => by have := ih.ge; omega, ih.states, ?_, ih.stopped⟩
      intro t ht1 ht2 ht3
      by_cases htm : t = m
      · subst htm
        simp only [Bool.or_eq_true, beq_iff_eq, Bool.and_eq_true, decide_eq_true_eq] at hc
        rcases hc with hc | hc
        · omega
        · exact hc.2
      · exact ih.continued t (by omega) ht2 ht3
    · simp only [hc, if_false]
      simp only [Bool.or_eq_true, beq_iff_eq, Bool.and_eq_true, decide_eq_true_eq, not_or, not_and] at hc
      refine ⟨h1, le_refl _, fun h => absurd h hc.1, rfl, fun t a _ c => by simp at c; omega, ?_⟩
      intro hlt _
      exact hc.2 hlt

/-- The whole call: `runM` executes exactly `r` iterations on every member, `1 ≤ r ≤ min rank n`, later iterations
only while the batch error exceeds the tolerance, and an exit before `min rank n` only when it does not. -/
theorem runM_spec (P : Prim α) (As : List (Mat α n n)) (rank : Nat) (tol : α) (hrank : 0 < rank) (hn : 0 < n) :
    StopsM P As (min rank n) tol 0 (runM P As rank tol) := by
  unfold runM
  have h0 : As.map init = As.map fun A => iterM P A 0 := by
    apply List.map_congr_left; intro A _; rfl
  rw [h0]
  exact loopM_spec P As (min rank n) tol (Nat.min_le_right _ _) (by omega) _ 0 (by omega) (by omega)

end LinOp.C10
