import LinOp.C10.ProofsInv
import LinOp.C10.ProofsErr
import LinOp.C10.ProofsTie
import LinOp.C10.ProofsLoopM
/-!
C10 — the masked loop body of the current code (`stepM`, fix d829792): it is the unmasked body on positive pivots, writes a zero
row on a non-positive pivot, pads converged members with zero columns, and inside a batch every member is its own single-member
run continued (coupled loop, shared counter).
-/
namespace LinOp.C10
set_option linter.unusedSectionVars false

variable {α : Type} [Field α] [LinearOrder α] [IsStrictOrderedRing α] {n : Nat}

theorem sqrt_zero_of_law {P : Prim α} (hP : SqrtLaw P) : P.sqrt 0 = 0 :=
  mul_self_eq_zero.1 (hP 0 le_rfl).1

theorem sqrt_pos_of_law {P : Prim α} (hP : SqrtLaw P) {x : α} (hx : 0 < x) : 0 < P.sqrt x := by
  obtain ⟨h1, h2⟩ := hP x hx.le
  rcases h2.lt_or_eq with h | h
  · exact h
  · rw [← h] at h1; simp at h1; exact absurd h1.symm (ne_of_gt hx)

/-- On a positive pivot the current (masked) loop body is the unmasked one. -/
theorem stepM_eq_step {P : Prim α} (hP : SqrtLaw P) (A : Mat α n n) (s : St α n) (m : Fin n)
    (hpos : 0 < pivotVal s m) : stepM P A s m = step P A s m := by
  have hc : clampMin0 (pivotVal s m) = pivotVal s m := by simp [clampMin0, not_lt.2 hpos.le]
  have hs := sqrt_pos_of_law hP hpos
  unfold stepM step
  simp only [hc]
  have hu : ∀ (p : Fin n) (v : α), upd (fun _ => (0 : α)) p v p = v := by intro p v; simp [upd]
  simp only [hu, hs, if_true]

theorem stepM_perm (P : Prim α) (A : Mat α n n) (s : St α n) (m : Fin n) :
    (stepM P A s m).perm.get = swapPerm s m := by
  funext j
  unfold stepM
  split <;> simp [get_ofFn]

theorem stepM_rows (P : Prim α) (A : Mat α n n) (s : St α n) (m : Fin n) :
    ∃ l : Vector α n, (stepM P A s m).rows = s.rows ++ [l] := by
  unfold stepM
  split <;> exact ⟨_, rfl⟩

theorem clampMin0_nonpos {x : α} (h : x ≤ 0) : clampMin0 x = 0 := by
  unfold clampMin0
  split
  · rfl
  · exact le_antisymm h (not_lt.1 ‹_›)

/-- On a non-positive pivot the current loop body writes a ZERO row and leaves the tracked diagonal alone. -/
theorem stepM_nonpos {P : Prim α} (h0 : P.sqrt 0 = 0) (A : Mat α n n) (s : St α n) (m : Fin n)
    (h : pivotVal s m ≤ 0) :
    (∃ l : Vector α n, (stepM P A s m).rows = s.rows ++ [l] ∧ ∀ k, l.get k = 0) ∧
    ∀ k, (stepM P A s m).diag.get k = s.diag.get k := by
  have hc : P.sqrt (clampMin0 (pivotVal s m)) = 0 := by rw [clampMin0_nonpos h]; exact h0
  have hu : ∀ (p : Fin n), upd (fun _ => (0 : α)) p 0 = fun _ => 0 := by
    intro p; funext j; simp [upd]
  unfold stepM
  simp only [hc, hu, lt_irrefl, if_false]
  by_cases hb : m.val + 1 < n
  · simp only [hb, if_true]
    refine ⟨⟨_, rfl, ?_⟩, ?_⟩
    · intro k
      rw [get_ofFn, scatter_map]
      simp
    · intro k
      rw [get_ofFn, zipWith_map_self, scatter_map]
      simp
  · simp only [hb, if_false]
    refine ⟨⟨_, rfl, fun k => by rw [get_ofFn]⟩, ?_⟩
    first | (intro k; rfl) | simp

/-- On positive pivots the current code and the unmasked model run the same iterations. -/
theorem iterM_eq_iter {P : Prim α} (hP : SqrtLaw P) (A : Mat α n n) :
    ∀ m, PivotsPos P A m → iterM P A m = iter P A m
  | 0, _ => rfl
  | m + 1, hpos => by
    have ih := iterM_eq_iter hP A m (fun t h ht => hpos t h (by omega))
    simp only [iterM, iter]
    by_cases hlt : m < n
    · simp only [hlt, dite_true, ih]
      exact stepM_eq_step hP A _ _ (hpos m hlt (by omega))
    · simp only [hlt, dite_false, ih]

/-! ### A converged member is padded with zero columns -/

/-- the tracked diagonal vanishes on every position `≥ m` -/
def TailZero (s : St α n) (m : Nat) : Prop := ∀ j : Fin n, m ≤ j.val → s.diag.get (s.perm.get j) = 0

theorem pivotPos_of_tailZero (s : St α n) (m : Fin n) (hz : TailZero s m.val) : pivotPos s m = m := by
  have hge := pivotPos_ge s m
  by_contra hne
  have hlt : m.val < (pivotPos s m).val := by
    have : m.val ≠ (pivotPos s m).val := fun h => hne (Fin.ext h.symm)
    omega
  have := argmaxFrom_first (fun j => s.diag.get (s.perm.get j)) m m (le_refl _) hlt
  beta_reduce at this
  rw [hz m (le_refl _)] at this
  have h2 := hz (pivotPos s m) hge
  unfold pivotPos at h2
  rw [h2] at this
  exact lt_irrefl _ this

theorem swapPerm_of_tailZero (s : St α n) (m : Fin n) (hz : TailZero s m.val) : swapPerm s m = s.perm.get := by
  funext j
  simp only [swapPerm, pivotPos_of_tailZero s m hz, upd]
  by_cases h : j = m
  · simp [h]
  · simp [h]

/-- One masked step on a member whose tracked residual diagonal has vanished: a zero row, nothing else changes. -/
theorem stepM_tailZero {P : Prim α} (h0 : P.sqrt 0 = 0) (A : Mat α n n) (s : St α n) (m : Fin n) (hz : TailZero s m.val) :
    (∃ l : Vector α n, (stepM P A s m).rows = s.rows ++ [l] ∧ ∀ k, l.get k = 0) ∧
    (stepM P A s m).perm.get = s.perm.get ∧ (∀ k, (stepM P A s m).diag.get k = s.diag.get k) ∧
    TailZero (stepM P A s m) (m.val + 1) := by
  have hpv : pivotVal s m = 0 := by
    unfold pivotVal; rw [pivotPos_of_tailZero s m hz]; exact hz m (le_refl _)
  obtain ⟨h1, h2⟩ := stepM_nonpos h0 A s m (le_of_eq hpv)
  have h3 : (stepM P A s m).perm.get = s.perm.get := by rw [stepM_perm, swapPerm_of_tailZero s m hz]
  refine ⟨h1, h3, h2, ?_⟩
  intro j hj
  rw [h3, h2]
  exact hz j (by omega)

/-- **Zero padding**: once the tracked diagonal of a member has vanished on the unpivoted positions (after `m0` iterations), every
further iteration of the current code appends a zero row and changes neither the permutation nor the diagonal. -/
theorem iterM_pad {P : Prim α} (h0 : P.sqrt 0 = 0) (A : Mat α n n) (m0 : Nat) (hz : TailZero (iterM P A m0) m0) :
    ∀ d, m0 + d ≤ n →
      (∃ extra : List (Vector α n), (iterM P A (m0 + d)).rows = (iterM P A m0).rows ++ extra ∧ extra.length = d ∧
        ∀ l ∈ extra, ∀ k, l.get k = 0) ∧
      (iterM P A (m0 + d)).perm.get = (iterM P A m0).perm.get ∧
      (∀ k, (iterM P A (m0 + d)).diag.get k = (iterM P A m0).diag.get k) ∧
      TailZero (iterM P A (m0 + d)) (m0 + d)
  | 0, _ => ⟨⟨[], by simp, rfl, by simp⟩, rfl, fun _ => rfl, hz⟩
  | d + 1, hd => by
    obtain ⟨⟨extra, hrows, hlen, hzero⟩, hperm, hdiag, htz⟩ := iterM_pad h0 A m0 hz d (by omega)
    have hlt : m0 + d < n := by omega
    have heq : iterM P A (m0 + (d + 1)) = stepM P A (iterM P A (m0 + d)) ⟨m0 + d, hlt⟩ := by
      show iterM P A (m0 + d + 1) = _
      simp only [iterM, hlt, dite_true]
    obtain ⟨⟨l, hl1, hl2⟩, hp, hdg, htz'⟩ := stepM_tailZero h0 A (iterM P A (m0 + d)) ⟨m0 + d, hlt⟩ htz
    rw [heq]
    refine ⟨⟨extra ++ [l], by rw [hl1, hrows, List.append_assoc], by simp [hlen], ?_⟩, by rw [hp, hperm],
      fun k => by rw [hdg, hdiag], htz'⟩
    intro l' hl' k
    rcases List.mem_append.1 hl' with h | h
    · exact hzero l' h k
    · rw [List.mem_singleton.1 h]; exact hl2 k

/-- zero rows do not change `L Lᵀ` -/
theorem lltEntry_append_zero (rows extra : List (Vector α n)) (h : ∀ l ∈ extra, ∀ k, l.get k = 0) (i k : Fin n) :
    lltEntry (rows ++ extra) i k = lltEntry rows i k := by
  induction extra using List.reverseRecOn with
  | nil => simp
  | append_singleton ex l ih =>
    rw [← List.append_assoc, lltEntry_append, ih (fun l' hl' => h l' (List.mem_append_left _ hl'))]
    rw [h l (by simp) i]; ring

/-! ### Inside a batch every member is its own run, continued -/

theorem iterM_rows_append (P : Prim α) (A : Mat α n n) (m : Nat) :
    ∀ d, ∃ extra : List (Vector α n), (iterM P A (m + d)).rows = (iterM P A m).rows ++ extra
  | 0 => ⟨[], by simp⟩
  | d + 1 => by
    obtain ⟨extra, h⟩ := iterM_rows_append P A m d
    show ∃ extra, (iterM P A (m + d + 1)).rows = _
    simp only [iterM]
    by_cases hlt : m + d < n
    · simp only [hlt, dite_true]
      obtain ⟨l, hl⟩ := stepM_rows P A (iterM P A (m + d)) ⟨m + d, hlt⟩
      exact ⟨extra ++ [l], by rw [hl, h, List.append_assoc]⟩
    · simp only [hlt, dite_false]; exact ⟨extra, h⟩

theorem iterM_rows_length (P : Prim α) (A : Mat α n n) : ∀ m, m ≤ n → (iterM P A m).rows.length = m
  | 0, _ => rfl
  | m + 1, hm => by
    have hlt : m < n := by omega
    simp only [iterM, hlt, dite_true]
    obtain ⟨l, hl⟩ := stepM_rows P A (iterM P A m) ⟨m, hlt⟩
    rw [hl]; simp [iterM_rows_length P A m (by omega)]

theorem iterM_perm_prefix (P : Prim α) (A : Mat α n n) (m : Nat) (j : Fin n) (hj : j.val < m) :
    ∀ d, (iterM P A (m + d)).perm.get j = (iterM P A m).perm.get j
  | 0 => rfl
  | d + 1 => by
    show (iterM P A (m + d + 1)).perm.get j = _
    simp only [iterM]
    by_cases hlt : m + d < n
    · simp only [hlt, dite_true]
      rw [stepM_perm, swapPerm_lt _ _ _ (by simp; omega)]
      exact iterM_perm_prefix P A m j hj d
    · simp only [hlt, dite_false]; exact iterM_perm_prefix P A m j hj d

theorem le_maxList {l : List α} {x : α} (h : x ∈ l) : x ≤ maxList l := by
  cases l with
  | nil => simp at h
  | cons a as =>
    simp only [maxList]
    obtain ⟨h1, h2, _⟩ := foldl_max_spec as a
    rcases List.mem_cons.1 h with rfl | h
    · exact h1
    · exact h2 x h

theorem errAtM_single (P : Prim α) (A : Mat α n n) (t : Nat) : errAtM P [A] t = (iterM P A t).err := by
  simp [errAtM, batchErr, maxList]

theorem err_le_errAtM (P : Prim α) (As : List (Mat α n n)) (A : Mat α n n) (hA : A ∈ As) (t : Nat) :
    (iterM P A t).err ≤ errAtM P As t := by
  unfold errAtM batchErr
  apply le_maxList
  exact List.mem_map.2 ⟨iterM P A t, List.mem_map.2 ⟨A, hA, rfl⟩, rfl⟩

/-- A member alone never runs longer than inside a batch (same rank, same tolerance). -/
theorem single_le_batch (P : Prim α) (As : List (Mat α n n)) (rank : Nat) (tol : α) (hrank : 0 < rank) (hn : 0 < n)
    (A : Mat α n n) (hA : A ∈ As) : (runM P [A] rank tol).1 ≤ (runM P As rank tol).1 := by
  have hB := runM_spec P As rank tol hrank hn
  have hS := runM_spec P [A] rank tol hrank hn
  by_contra hlt
  have hlt : (runM P As rank tol).1 < (runM P [A] rank tol).1 := by omega
  have h1 : 1 ≤ (runM P As rank tol).1 := hB.pos rfl
  have hstop := hB.stopped (lt_of_lt_of_le hlt hS.le_max) h1
  have hcont := hS.continued _ (Nat.zero_le _) h1 hlt
  rw [errAtM_single] at hcont
  exact hstop (lt_of_lt_of_le hcont (err_le_errAtM P As A hA _))

end LinOp.C10
