import LinOp.C10.ProofsSPD
/-!
C10 — the NON-constant-diagonal preconditioner closure is positive definite (it solves with `L Lᵀ + D`, `D > 0`).
-/
namespace LinOp.C10
set_option linter.unusedSectionVars false
open Matrix

variable {α : Type} [Field α] [LinearOrder α] [IsStrictOrderedRing α] {n k : Nat}

/-- If `(L Lᵀ + D) y = x` with `D > 0` and `x ≠ 0` then `xᵀ y > 0`. -/
theorem posdef_of_solve (L : Matrix (Fin n) (Fin k) α) (d : Fin n → α) (hd : ∀ i, 0 < d i) (x y : Fin n → α)
    (hPy : (L * Lᵀ + Matrix.diagonal d) *ᵥ y = x) (hx : x ≠ 0) : 0 < x ⬝ᵥ y := by
  have hy0 : y ≠ 0 := by
    intro h0; rw [h0, Matrix.mulVec_zero] at hPy; exact hx hPy.symm
  have e1 : (L * Lᵀ) *ᵥ y ⬝ᵥ y = (Lᵀ *ᵥ y) ⬝ᵥ (Lᵀ *ᵥ y) := by
    rw [dotProduct_comm, ← Matrix.mulVec_mulVec, Matrix.dotProduct_mulVec, ← Matrix.mulVec_transpose]
  have e2 : (Matrix.diagonal d *ᵥ y) ⬝ᵥ y = ∑ i, d i * (y i * y i) := by
    simp only [dotProduct, Matrix.mulVec_diagonal]
    apply Finset.sum_congr rfl; intro i _; ring
  have hpos : 0 < ∑ i, d i * (y i * y i) := by
    obtain ⟨i, hi⟩ : ∃ i, y i ≠ 0 := by
      by_contra hc; push_neg at hc; exact hy0 (funext hc)
    apply Finset.sum_pos'
    · intro j _; exact mul_nonneg (hd j).le (mul_self_nonneg _)
    · exact ⟨i, Finset.mem_univ _, mul_pos (hd i) (mul_self_pos.2 hi)⟩
  calc 0 < ∑ i, d i * (y i * y i) := hpos
    _ ≤ (Lᵀ *ᵥ y) ⬝ᵥ (Lᵀ *ᵥ y) + ∑ i, d i * (y i * y i) := le_add_of_nonneg_left (dot_self_nonneg _)
    _ = x ⬝ᵥ y := by
        conv_rhs => rw [← hPy]
        rw [Matrix.add_mulVec, add_dotProduct, e1, e2]

/-- **Non-constant diagonal: the closure is positive definite**: `xᵀ closure(x) > 0` for `x ≠ 0` (QR contract, `dᵢ > 0`). -/
theorem nonconst_posdef (P : Prim α) (L : Mat α n k) (d : Fin n → α) (Q : Mat α (n + k) k) (R : Mat α k k)
    (hs : ∀ i, P.sqrt (d i) * P.sqrt (d i) = d i) (hd : ∀ i, 0 < d i)
    (hqr : Mat.mul Q R = qrInputNonconst P L d)
    (horth : Mat.mul (Mat.transpose Q) Q = fun i j => if i = j then 1 else 0) (x : Fin n → α) (hx : x ≠ 0) :
    0 < ∑ i, x i * closureNonconst (qCacheNonconst P Q d) d (fun a (_ : Fin 1) => x a) i 0 := by
  have hM := nonconst_inverse P L d Q R (fun a (_ : Fin 1) => x a) hs (fun i => (hd i).ne') hqr horth
  rw [Mat.mul_eq_matrix_mul, precondLt_eq] at hM
  set y : Fin n → α := fun i => closureNonconst (qCacheNonconst P Q d) d (fun a (_ : Fin 1) => x a) i 0 with hy
  have hPy : (Matrix.of L * (Matrix.of L)ᵀ + Matrix.diagonal d) *ᵥ y = x := by
    funext i
    have := congrFun (congrFun hM i) (0 : Fin 1)
    simp only [Matrix.mul_apply] at this
    simp only [Matrix.mulVec, dotProduct]
    exact this
  exact posdef_of_solve (Matrix.of L) d hd x y hPy hx

end LinOp.C10
