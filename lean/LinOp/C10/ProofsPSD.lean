import LinOp.C10.ProofsInv
import Mathlib.Algebra.BigOperators.Field
/-!
C10 — the residual of pivoted Cholesky stays positive semi-definite (rank-one downdate by the scaled
pivot column = Schur complement), and positive definite on the unpivoted coordinates.
-/
namespace LinOp.C10
set_option linter.unusedSectionVars false

variable {α : Type} [Field α] [LinearOrder α] [IsStrictOrderedRing α] {n : Nat}

/-- the bilinear form `uᵀ R v` -/
def bil (R : Mat α n n) (u v : Fin n → α) : α := ∑ i, ∑ k, u i * R i k * v k

/-- unit vector -/
def e1 (p : Fin n) : Fin n → α := fun i => if i = p then 1 else 0

theorem bil_sub_left (R : Mat α n n) (u w v : Fin n → α) : bil R (fun i => u i - w i) v = bil R u v - bil R w v := by
  simp only [bil, sub_mul, Finset.sum_sub_distrib]

theorem bil_sub_right (R : Mat α n n) (u v w : Fin n → α) : bil R u (fun i => v i - w i) = bil R u v - bil R u w := by
  simp only [bil, mul_sub, Finset.sum_sub_distrib]

theorem bil_smul_left (R : Mat α n n) (c : α) (u v : Fin n → α) : bil R (fun i => c * u i) v = c * bil R u v := by
  simp only [bil, Finset.mul_sum, mul_assoc]

theorem bil_smul_right (R : Mat α n n) (c : α) (u v : Fin n → α) : bil R u (fun i => c * v i) = c * bil R u v := by
  simp only [bil, Finset.mul_sum]
  apply Finset.sum_congr rfl; intro i _
  apply Finset.sum_congr rfl; intro k _
  ring

theorem bil_e1_left (R : Mat α n n) (p : Fin n) (v : Fin n → α) : bil R (e1 p) v = ∑ k, R p k * v k := by
  simp only [bil, e1]
  have : ∀ i : Fin n, (∑ k, (if i = p then (1 : α) else 0) * R i k * v k) = if i = p then ∑ k, R i k * v k else 0 := by
    intro i; split_ifs <;> simp
  simp only [this, Finset.sum_ite_eq', Finset.mem_univ, if_true]

theorem bil_e1_right (R : Mat α n n) (p : Fin n) (u : Fin n → α) : bil R u (e1 p) = ∑ i, u i * R i p := by
  simp only [bil, e1, mul_ite, mul_one, mul_zero, Finset.sum_ite_eq', Finset.mem_univ, if_true]

/-- **Rank-one downdate by the scaled pivot column keeps `xᵀ R x` a value of the old form**:
`xᵀ (R − r rᵀ / d) x = yᵀ R y` with `y = x − (xᵀ r / d) e_p`, `r = R e_p`, `d = R[p,p] = sq²`. -/
theorem downdate_form {R : Mat α n n} (hS : Symm R) (p : Fin n) (sq : α) (hsq : sq * sq = R p p) (hne : sq ≠ 0)
    (x : Fin n → α) :
    bil (fun i k => R i k - R p i / sq * (R p k / sq)) x x =
      bil R (fun i => x i - (∑ j, x j * R p j) / R p p * e1 p i) (fun i => x i - (∑ j, x j * R p j) / R p p * e1 p i) := by
  have hd : R p p ≠ 0 := by rw [← hsq]; exact mul_ne_zero hne hne
  set a := ∑ j, x j * R p j with ha
  have h1 : ∑ k, R p k * x k = a := by
    rw [ha]; apply Finset.sum_congr rfl; intro k _; ring
  have h2 : ∑ i, x i * R i p = a := by
    rw [ha]; apply Finset.sum_congr rfl; intro k _; rw [hS k p]
  have h3 : bil R (e1 p) (e1 p) = R p p := by
    rw [bil_e1_left]; simp [e1]
  have hl : bil (fun i k => R i k - R p i / sq * (R p k / sq)) x x = bil R x x - a / sq * (a / sq) := by
    have : a / sq * (a / sq) = ∑ i, ∑ k, x i * (R p i / sq * (R p k / sq)) * x k := by
      rw [ha, Finset.sum_div, Finset.sum_mul_sum]
      apply Finset.sum_congr rfl; intro i _
      apply Finset.sum_congr rfl; intro k _
      ring
    rw [this]
    simp only [bil, mul_sub, sub_mul, Finset.sum_sub_distrib]
  rw [hl, bil_sub_left, bil_sub_right, bil_sub_right, bil_smul_left, bil_smul_right, bil_smul_left, bil_smul_right,
    bil_e1_left, bil_e1_right, h1, h2, h3]
  have : R p p = sq * sq := hsq.symm
  rw [this]
  field_simp
  ring

theorem psd_iff_bil (R : Mat α n n) : PSD R ↔ ∀ x, 0 ≤ bil R x x := Iff.rfl

/-- **Schur complement of a PSD matrix is PSD.** -/
theorem psd_downdate {R : Mat α n n} (hS : Symm R) (hR : PSD R) (p : Fin n) (sq : α) (hsq : sq * sq = R p p)
    (hne : sq ≠ 0) : PSD (fun i k => R i k - R p i / sq * (R p k / sq)) := by
  intro x
  have := downdate_form hS p sq hsq hne x
  unfold bil at this
  rw [this]
  exact hR _

/-- one step keeps the residual PSD -/
theorem step_psd {P : Prim α} {A : Mat α n n} {s : St α n} {m : Fin n} (hP : SqrtLaw P) (hA : Symm A)
    (h : Inv A s m.val) (hpos : 0 < pivotVal s m) (hpsd : PSD (resid A s.rows)) :
    PSD (resid A (step P A s m).rows) := by
  obtain ⟨l, hrows, hl⟩ := step_rows P A s m
  obtain ⟨hsq, _⟩ := hP _ hpos.le
  have hne : P.sqrt (pivotVal s m) ≠ 0 := by
    intro h0; rw [h0] at hsq; simp at hsq; exact absurd hsq.symm hpos.ne'
  have hrow := fun k => (hl k).trans (newRow_eq hP hA h hpos k)
  have : resid A (step P A s m).rows =
      fun i k => resid A s.rows i k - resid A s.rows (swapPerm s m m) i / P.sqrt (pivotVal s m) *
        (resid A s.rows (swapPerm s m m) k / P.sqrt (pivotVal s m)) := by
    funext i k; rw [hrows, resid_append, hrow, hrow]
  rw [this]
  exact psd_downdate (resid_symm hA _) hpsd _ _ (by rw [hsq]; exact pivotVal_eq h) hne

theorem iter_psd {P : Prim α} {A : Mat α n n} (hP : SqrtLaw P) (hA : Symm A) (hpsd : PSD A) :
    ∀ m, m ≤ n → PivotsPos P A m → PSD (resid A (iter P A m).rows)
  | 0, _, _ => by simpa [iter, init, resid_nil] using hpsd
  | m + 1, hm, hpos => by
    have hlt : m < n := by omega
    have hpos' : PivotsPos P A m := fun t h ht => hpos t h (by omega)
    have ih := iter_psd hP hA hpsd m (by omega) hpos'
    simp only [iter, hlt, dite_true]
    exact step_psd (m := ⟨m, hlt⟩) hP hA (iter_inv hP hA m (by omega) hpos') (hpos m hlt (by omega)) ih

/-! ### Positive definite inputs: every pivot is positive -/

/-- Positive definite: `xᵀ A x > 0` for every `x ≠ 0`. -/
def PD (A : Mat α n n) : Prop := ∀ x : Fin n → α, x ≠ 0 → 0 < bil A x x

/-- the residual is positive definite on vectors supported on the unpivoted indices -/
def PDU (A : Mat α n n) (s : St α n) (m : Nat) : Prop :=
  ∀ x : Fin n → α, (∀ j : Fin n, j.val < m → x (s.perm.get j) = 0) → x ≠ 0 → 0 < bil (resid A s.rows) x x

theorem e1_ne_zero (p : Fin n) : (e1 p : Fin n → α) ≠ 0 := by
  intro h; have := congrFun h p; simp [e1] at this

theorem bil_e1_e1 (R : Mat α n n) (p : Fin n) : bil R (e1 p) (e1 p) = R p p := by
  rw [bil_e1_left]; simp [e1]

theorem pivot_pos_of_pdu {A : Mat α n n} {s : St α n} {m : Fin n} (h : Inv A s m.val) (hpd : PDU A s m.val) :
    0 < pivotVal s m := by
  rw [pivotVal_eq h, ← bil_e1_e1 (resid A s.rows) (swapPerm s m m)]
  apply hpd _ _ (e1_ne_zero _)
  intro j hj
  have hne : s.perm.get j ≠ swapPerm s m m := by
    rw [swapPerm_m]; intro he
    have := h.bij.1 he
    have := pivotPos_ge s m
    omega
  simp [e1, hne]

theorem step_pdu {P : Prim α} {A : Mat α n n} {s : St α n} {m : Fin n} (hP : SqrtLaw P) (hA : Symm A)
    (h : Inv A s m.val) (hpd : PDU A s m.val) : PDU A (step P A s m) (m.val + 1) := by
  have hpos := pivot_pos_of_pdu h hpd
  obtain ⟨l, hrows, hl⟩ := step_rows P A s m
  obtain ⟨hsq, _⟩ := hP _ hpos.le
  have hne : P.sqrt (pivotVal s m) ≠ 0 := by
    intro h0; rw [h0] at hsq; simp at hsq; exact absurd hsq.symm hpos.ne'
  have hrow := fun k => (hl k).trans (newRow_eq hP hA h hpos k)
  have hres : resid A (step P A s m).rows =
      fun i k => resid A s.rows i k - resid A s.rows (swapPerm s m m) i / P.sqrt (pivotVal s m) *
        (resid A s.rows (swapPerm s m m) k / P.sqrt (pivotVal s m)) := by
    funext i k; rw [hrows, resid_append, hrow, hrow]
  intro x hx hx0
  rw [hres, downdate_form (resid_symm hA _) _ _ (by rw [hsq]; exact pivotVal_eq h) hne]
  rw [step_perm] at hx
  have hxp : x (swapPerm s m m) = 0 := hx m (by omega)
  apply hpd
  · intro j hj
    have hne' : s.perm.get j ≠ swapPerm s m m := by
      rw [swapPerm_m]; intro he
      have := h.bij.1 he
      have := pivotPos_ge s m
      omega
    have := hx j (by omega)
    rw [swapPerm_lt s m j hj] at this
    simp [e1, hne', this]
  · intro hy
    apply hx0
    funext i
    by_cases hi : i = swapPerm s m m
    · rw [hi, hxp]; rfl
    · have := congrFun hy i
      simpa [e1, hi] using this

theorem iter_pdu {P : Prim α} {A : Mat α n n} (hP : SqrtLaw P) (hA : Symm A) (hpd : PD A) :
    ∀ m, m ≤ n → PivotsPos P A m ∧ PDU A (iter P A m) m
  | 0, _ => ⟨fun t _ ht => by omega, fun x _ hx0 => by simpa [iter, init, resid_nil] using hpd x hx0⟩
  | m + 1, hm => by
    have hlt : m < n := by omega
    obtain ⟨ihpos, ihpd⟩ := iter_pdu hP hA hpd m (by omega)
    have hinv := iter_inv hP hA m (by omega) ihpos
    have hp : 0 < pivotVal (iter P A m) ⟨m, hlt⟩ := pivot_pos_of_pdu (m := ⟨m, hlt⟩) hinv ihpd
    refine ⟨?_, ?_⟩
    · intro t h ht
      by_cases htm : t = m
      · subst htm; exact hp
      · exact ihpos t h (by omega)
    · simp only [iter, hlt, dite_true]
      exact step_pdu (m := ⟨m, hlt⟩) hP hA hinv ihpd

end LinOp.C10
