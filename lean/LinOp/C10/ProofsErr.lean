import LinOp.C10.ProofsPSD
/-!
C10 — the tracked `errors` value is the 1-norm of the residual diagonal on the unpivoted indices divided by the
largest diagonal entry of `A`.
-/
namespace LinOp.C10
set_option linter.unusedSectionVars false

variable {α : Type} [Field α] [LinearOrder α] [IsStrictOrderedRing α] {n : Nat}

theorem step_err (P : Prim α) (A : Mat α n n) (s : St α n) (m : Fin n) (h : m.val + 1 < n) :
    (step P A s m).err =
      ((tailPos n (m.val + 1)).map fun j =>
        absv ((step P A s m).diag.get ((step P A s m).perm.get j))).sum / origError A := by
  unfold step
  simp only [h, if_true, List.map_map, Function.comp_def]

theorem absv_eq_abs (x : α) : absv x = |x| := by
  unfold absv
  split_ifs with h
  · exact (abs_of_neg h).symm
  · exact (abs_of_nonneg (not_lt.1 h)).symm

/-- After iteration `m` (with `m + 1 < n`) `errors` = Σ over unpivoted indices of `|diag(A − L Lᵀ)|`, over `orig_error`. -/
theorem iter_err {P : Prim α} {A : Mat α n n} (hP : SqrtLaw P) (hA : Symm A) (m : Nat) (hm : m + 1 < n)
    (hpos : PivotsPos P A (m + 1)) :
    let s := iter P A (m + 1)
    s.err = ((tailPos n (m + 1)).map fun j =>
      |resid A s.rows (s.perm.get j) (s.perm.get j)|).sum / origError A := by
  intro s
  have hinv : Inv A s (m + 1) := iter_inv hP hA (m + 1) (by omega) hpos
  have hs : s = step P A (iter P A m) ⟨m, by omega⟩ := by
    simp only [s, iter]; rw [dif_pos (show m < n by omega)]
  have he := step_err P A (iter P A m) ⟨m, by omega⟩ hm
  rw [← hs] at he
  rw [he]
  congr 1
  congr 1
  apply List.map_congr_left
  intro j hj
  rw [absv_eq_abs, hinv.diag j ((mem_tailPos _ _).1 hj)]

theorem foldl_max_spec (l : List α) (b : α) :
    let r := l.foldl (fun b y => if b < y then y else b) b
    b ≤ r ∧ (∀ y ∈ l, y ≤ r) ∧ (r = b ∨ r ∈ l) := by
  induction l generalizing b with
  | nil => simp
  | cons a as ih =>
    simp only [List.foldl_cons]
    by_cases h : b < a
    · simp only [h, if_true]
      obtain ⟨h1, h2, h3⟩ := ih a
      refine ⟨le_trans h.le h1, ?_, ?_⟩
      · intro y hy
        rcases List.mem_cons.1 hy with rfl | hy
        · exact h1
        · exact h2 y hy
      · rcases h3 with h3 | h3
        · right; rw [h3]; exact List.mem_cons_self
        · right; exact List.mem_cons_of_mem _ h3
    · simp only [h, if_false]
      obtain ⟨h1, h2, h3⟩ := ih b
      refine ⟨h1, ?_, ?_⟩
      · intro y hy
        rcases List.mem_cons.1 hy with rfl | hy
        · exact le_trans (not_lt.1 h) h1
        · exact h2 y hy
      · rcases h3 with h3 | h3
        · left; exact h3
        · right; exact List.mem_cons_of_mem _ h3

/-- `orig_error` is the largest diagonal entry of `A`. -/
theorem origError_spec (A : Mat α n n) (hn : 0 < n) :
    (∀ i, A i i ≤ origError A) ∧ ∃ i, origError A = A i i := by
  unfold origError
  have hl : (List.finRange n).map (fun i => A i i) = A ⟨0, hn⟩ ⟨0, hn⟩ :: ((List.finRange n).tail.map fun i => A i i) := by
    cases n with
    | zero => omega
    | succ k => simp [List.finRange_succ]
  have hmem : ∀ i : Fin n, A i i ∈ (List.finRange n).map (fun i => A i i) :=
    fun i => List.mem_map.2 ⟨i, List.mem_finRange i, rfl⟩
  rw [hl] at hmem ⊢
  simp only [maxList]
  obtain ⟨h1, h2, h3⟩ := foldl_max_spec ((List.finRange n).tail.map fun i => A i i) (A ⟨0, hn⟩ ⟨0, hn⟩)
  refine ⟨?_, ?_⟩
  · intro i
    rcases List.mem_cons.1 (hmem i) with h | h
    · rw [h]; exact h1
    · exact h2 _ h
  · rcases h3 with h3 | h3
    · exact ⟨⟨0, hn⟩, h3⟩
    · obtain ⟨i, _, hi⟩ := List.mem_map.1 h3
      exact ⟨i, hi.symm⟩

end LinOp.C10
