import LinOp.C10.Proofs
/-!
C10 — ties in the arg-max are broken towards the FIRST position (as `torch.max` does).
-/
namespace LinOp.C10
set_option linter.unusedSectionVars false

variable {α : Type} [LinearOrder α] {n : Nat}

theorem foldl_argmax_first (v : Fin n → α) (l : List (Fin n)) (b : Fin n) (hs : l.Pairwise (· < ·))
    (hb : ∀ j ∈ l, b < j) :
    let r := l.foldl (fun best j => if v best < v j then j else best) b
    (r = b ∨ v b < v r) ∧ ∀ j, (j = b ∨ j ∈ l) → j < r → v j < v r := by
  induction l generalizing b with
  | nil => simp
  | cons a as ih =>
    simp only [List.foldl_cons]
    have hs' := (List.pairwise_cons.1 hs)
    by_cases h : v b < v a
    · simp only [h, if_true]
      obtain ⟨h1, h2⟩ := ih a hs'.2 hs'.1
      have hba : v a ≤ v (as.foldl (fun best j => if v best < v j then j else best) a) :=
        (foldl_argmax v as a).2.1
      refine ⟨Or.inr (lt_of_lt_of_le h hba), ?_⟩
      intro j hj hlt
      rcases hj with rfl | hj
      · exact lt_of_lt_of_le h hba
      · exact h2 j (List.mem_cons.1 hj) hlt
    · simp only [h, if_false]
      obtain ⟨h1, h2⟩ := ih b hs'.2 (fun j hj => hb j (List.mem_cons_of_mem _ hj))
      refine ⟨h1, ?_⟩
      intro j hj hlt
      rcases hj with rfl | hj
      · exact h2 j (Or.inl rfl) hlt
      · rcases List.mem_cons.1 hj with rfl | hj
        · rcases h1 with h1 | h1
          · rw [h1] at hlt
            exact absurd (hb j List.mem_cons_self) (not_lt.2 hlt.le)
          · exact lt_of_le_of_lt (not_lt.1 h) h1
        · exact h2 j (Or.inr hj) hlt

/-- every position of the tail before the chosen one carries a strictly smaller value -/
theorem argmaxFrom_first (v : Fin n → α) (m : Fin n) (j : Fin n) (h1 : m.val ≤ j.val)
    (h2 : j.val < (argmaxFrom v m).val) : v j < v (argmaxFrom v m) := by
  have hs : (tailPos n (m.val + 1)).Pairwise (· < ·) := (List.pairwise_lt_finRange n).filter _
  have hb : ∀ j ∈ tailPos n (m.val + 1), m < j := by
    intro j hj; have := (mem_tailPos _ _).1 hj; exact Fin.lt_def.2 (by omega)
  obtain ⟨_, h⟩ := foldl_argmax_first v (tailPos n (m.val + 1)) m hs hb
  apply h j ?_ (Fin.lt_def.2 h2)
  by_cases hjm : j = m
  · exact Or.inl hjm
  · right
    have : m.val ≠ j.val := fun e => hjm (Fin.ext e.symm)
    exact (mem_tailPos _ _).2 (by omega)

end LinOp.C10
