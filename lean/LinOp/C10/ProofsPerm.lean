import LinOp.C10.Proofs
/-!
C10 — `inverse_permutation` really inverts a permutation.
-/
namespace LinOp.C10
set_option linter.unusedSectionVars false

variable {β : Type} {n : Nat}

theorem scatter_not_mem (idx : List (Fin n)) (vals : List β) (base : Fin n → β) (k : Fin n) (h : k ∉ idx) :
    scatter base idx vals k = base k := by
  induction idx generalizing base vals with
  | nil => cases vals <;> simp [scatter]
  | cons a as ih =>
    cases vals with
    | nil => simp [scatter]
    | cons v vs =>
      have h1 : k ≠ a := fun e => h (e ▸ List.mem_cons_self)
      have h2 : k ∉ as := fun e => h (List.mem_cons_of_mem _ e)
      simp only [scatter]
      rw [ih vs _ h2]
      simp [upd, h1]

theorem scatter_map_idx (p : Fin n → Fin n) (hp : Function.Injective p) (l : List (Fin n)) (base : Fin n → Fin n)
    (i : Fin n) (hi : i ∈ l) : scatter base (l.map p) l (p i) = i := by
  induction l generalizing base with
  | nil => cases hi
  | cons a as ih =>
    simp only [List.map_cons, scatter]
    by_cases h : i ∈ as
    · exact ih _ h
    · have hia : i = a := by
        rcases List.mem_cons.1 hi with e | e
        · exact e
        · exact absurd e h
      subst hia
      have : p i ∉ as.map p := by
        intro hm
        obtain ⟨j, hj, e⟩ := List.mem_map.1 hm
        exact h (hp e ▸ hj)
      rw [scatter_not_mem _ _ _ _ this]
      simp [upd]

/-- **`inverse_permutation` inverts**: for a bijective `p`, `inv (p i) = i` and `p (inv k) = k`. -/
theorem inversePermutation_spec (h : 0 < n) (p : Fin n → Fin n) (hp : Function.Bijective p) :
    (∀ i, inversePermutation h p (p i) = i) ∧ (∀ k, p (inversePermutation h p k) = k) := by
  have h1 : ∀ i, inversePermutation h p (p i) = i := fun i =>
    scatter_map_idx p hp.1 _ _ i (List.mem_finRange i)
  refine ⟨h1, fun k => ?_⟩
  obtain ⟨i, rfl⟩ := hp.2 k
  rw [h1]

end LinOp.C10
