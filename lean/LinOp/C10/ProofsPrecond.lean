import LinOp.C10.Model
import LinOp.Core.Bridge
import Mathlib.Algebra.Order.Field.Basic
import Mathlib.LinearAlgebra.Matrix.NonsingularInverse
import Mathlib.Tactic.Ring
import Mathlib.Tactic.FieldSimp
/-!
C10 — the pivoted-Cholesky preconditioner: the Woodbury closure built from a QR factorization of
`[L; √s·I]` applies exactly `(L Lᵀ + s I)⁻¹`.
-/
namespace LinOp.C10
set_option linter.unusedSectionVars false
open Matrix

variable {α : Type} [Field α] {n k c : Nat}

/-- Core algebra, in block form: `Q₁ R = L`, `Q₂ R = c·I`, `Q₁ᵀQ₁ + Q₂ᵀQ₂ = I`, `c² = s ≠ 0`
give `(L Lᵀ + s I)(I − Q₁ Q₁ᵀ) = s I`. -/
theorem woodbury_qr (L Q1 : Matrix (Fin n) (Fin k) α) (Q2 R : Matrix (Fin k) (Fin k) α) (s cc : α)
    (hc : cc * cc = s) (hc0 : cc ≠ 0)
    (h1 : Q1 * R = L) (h2 : Q2 * R = cc • (1 : Matrix (Fin k) (Fin k) α))
    (h3 : Q1ᵀ * Q1 + Q2ᵀ * Q2 = 1) :
    (L * Lᵀ + s • (1 : Matrix (Fin n) (Fin n) α)) * (1 - Q1 * Q1ᵀ) = s • 1 := by
  -- R Q₂ = c I
  have ha : R * Q2 = cc • (1 : Matrix (Fin k) (Fin k) α) := by
    have : (cc⁻¹ • Q2) * R = 1 := by
      rw [Matrix.smul_mul, h2, smul_smul, inv_mul_cancel₀ hc0, one_smul]
    have := mul_eq_one_comm.1 this
    rw [Matrix.mul_smul] at this
    calc R * Q2 = cc • (cc⁻¹ • (R * Q2)) := by rw [smul_smul, mul_inv_cancel₀ hc0, one_smul]
      _ = cc • 1 := by rw [this]
  have hb : Q1ᵀ * Q1 = 1 - Q2ᵀ * Q2 := eq_sub_of_add_eq h3
  have hcc : R * Rᵀ * (Q1ᵀ * Q1) = R * Rᵀ - s • (1 : Matrix (Fin k) (Fin k) α) := by
    rw [hb, Matrix.mul_sub, Matrix.mul_one]
    congr 1
    calc R * Rᵀ * (Q2ᵀ * Q2) = R * ((Q2 * R)ᵀ * Q2) := by
          rw [Matrix.transpose_mul]; simp only [Matrix.mul_assoc]
      _ = R * ((cc • (1 : Matrix (Fin k) (Fin k) α))ᵀ * Q2) := by rw [h2]
      _ = cc • (R * Q2) := by
          rw [Matrix.transpose_smul, Matrix.transpose_one, Matrix.smul_mul, Matrix.one_mul, Matrix.mul_smul]
      _ = s • 1 := by rw [ha, smul_smul, hc]
  have hd : L * Lᵀ * (Q1 * Q1ᵀ) = L * Lᵀ - s • (Q1 * Q1ᵀ) := by
    calc L * Lᵀ * (Q1 * Q1ᵀ) = Q1 * (R * Rᵀ * (Q1ᵀ * Q1)) * Q1ᵀ := by
          rw [← h1, Matrix.transpose_mul]; simp only [Matrix.mul_assoc]
      _ = Q1 * (R * Rᵀ - s • (1 : Matrix (Fin k) (Fin k) α)) * Q1ᵀ := by rw [hcc]
      _ = L * Lᵀ - s • (Q1 * Q1ᵀ) := by
          rw [Matrix.mul_sub, Matrix.sub_mul, Matrix.mul_smul, Matrix.mul_one, Matrix.smul_mul, ← h1,
            Matrix.transpose_mul]
          simp only [Matrix.mul_assoc]
  rw [Matrix.mul_sub, Matrix.mul_one, Matrix.add_mul, hd, Matrix.smul_mul, Matrix.one_mul]
  abel

/-! ### From the stacked QR contract to the block equations -/

/-- `Q[..., n:, :]` -/
def botRows {α : Type} (Q : Mat α (n + k) k) : Mat α k k := fun i j => Q ⟨n + i.val, by omega⟩ j

theorem stack_top {T : Mat α n k} {B : Mat α k k} {Q : Mat α (n + k) k} {R : Mat α k k}
    (h : Mat.mul Q R = stackRows T B) : (Matrix.of (topRows Q) * Matrix.of R : Matrix _ _ α) = Matrix.of T := by
  ext i j
  have := congrFun (congrFun h ⟨i.val, by omega⟩) j
  rw [Mat.mul_eq_matrix_mul] at this
  simp only [stackRows, i.isLt, dite_true, Fin.eta] at this
  change _ = T i j
  rw [← this]
  simp [Matrix.mul_apply, topRows]

theorem stack_bot {T : Mat α n k} {B : Mat α k k} {Q : Mat α (n + k) k} {R : Mat α k k}
    (h : Mat.mul Q R = stackRows T B) : (Matrix.of (botRows Q) * Matrix.of R : Matrix _ _ α) = Matrix.of B := by
  ext i j
  have := congrFun (congrFun h ⟨n + i.val, by omega⟩) j
  rw [Mat.mul_eq_matrix_mul] at this
  have hlt : ¬ n + i.val < n := by omega
  simp only [stackRows, hlt, dite_false, Nat.add_sub_cancel_left, Fin.eta] at this
  change _ = B i j
  rw [← this]
  simp [Matrix.mul_apply, botRows]

theorem orth_blocks {Q : Mat α (n + k) k}
    (h : Mat.mul (Mat.transpose Q) Q = fun i j => if i = j then 1 else 0) :
    ((Matrix.of (topRows Q))ᵀ * Matrix.of (topRows Q) + (Matrix.of (botRows Q))ᵀ * Matrix.of (botRows Q) :
      Matrix (Fin k) (Fin k) α) = 1 := by
  ext i j
  have := congrFun (congrFun h i) j
  rw [Mat.mul_eq_matrix_mul] at this
  simp only [Matrix.mul_apply, Matrix.of_apply, Mat.transpose] at this
  rw [Fin.sum_univ_add] at this
  simp only [Matrix.add_apply, Matrix.mul_apply, Matrix.transpose_apply, Matrix.of_apply, topRows, botRows,
    Matrix.one_apply]
  rw [← this]
  rfl

/-! ### Bridges from the model functions to `Matrix` -/

theorem precondLt_eq (L : Mat α n k) (d : Fin n → α) :
    precondLt L d = (Matrix.of L * (Matrix.of L)ᵀ + Matrix.diagonal d : Matrix (Fin n) (Fin n) α) := by
  unfold precondLt
  rw [Mat.mul_eq_matrix_mul]
  funext i j
  simp only [Mat.add, Mat.diag, Matrix.add_apply, Matrix.diagonal_apply]
  rfl

theorem closureConst_eq (q : Mat α n k) (s : α) (x : Mat α n c) :
    closureConst q s x =
      ((1 / s) • (Matrix.of x - Matrix.of q * ((Matrix.of q)ᵀ * Matrix.of x)) : Matrix (Fin n) (Fin c) α) := by
  unfold closureConst qqt
  rw [Mat.mul_eq_matrix_mul q (Mat.mul (Mat.transpose q) x), Mat.mul_eq_matrix_mul (Mat.transpose q) x]
  funext i j
  simp only [Matrix.smul_apply, Matrix.sub_apply, smul_eq_mul]
  rfl

theorem scaledEye_eq (cc : α) : (Matrix.of (scaledEye cc (1 : α) : Mat α k k)) = cc • (1 : Matrix (Fin k) (Fin k) α) := by
  ext i j
  simp only [scaledEye, Matrix.of_apply, Matrix.smul_apply, Matrix.one_apply, smul_eq_mul]
  split_ifs <;> rfl

/-- **Constant diagonal: the closure is the exact inverse.**  If `torch.linalg.qr` meets its contract on the matrix the
code hands it (`Q R = [L; √s·I]`, `QᵀQ = I`) and `√s·√s = s ≠ 0`, then `(L Lᵀ + s I) · closure(X) = X` for every right-hand
side `X` — `closure` being `(1/s)(X − Q₁(Q₁ᵀX))` with `Q₁ = Q[:n]`, and `L Lᵀ + s I` being the operator `_precond_lt` denotes. -/
theorem const_inverse (P : Prim α) (L : Mat α n k) (s : α) (Q : Mat α (n + k) k) (R : Mat α k k) (x : Mat α n c)
    (hs : P.sqrt s * P.sqrt s = s) (hs0 : s ≠ 0)
    (hqr : Mat.mul Q R = qrInputConst P L s)
    (horth : Mat.mul (Mat.transpose Q) Q = fun i j => if i = j then 1 else 0) :
    Mat.mul (precondLt L fun _ => s) (closureConst (qCacheConst Q) s x) = x := by
  have hc0 : P.sqrt s ≠ 0 := by
    intro h; rw [h, mul_zero] at hs; exact hs0 hs.symm
  have h1 := stack_top hqr
  have h2 := stack_bot hqr
  rw [scaledEye_eq] at h2
  have h3 := orth_blocks horth
  have hw := woodbury_qr (Matrix.of L) (Matrix.of (topRows Q)) (Matrix.of (botRows Q)) (Matrix.of R) s (P.sqrt s)
    hs hc0 h1 h2 h3
  rw [Mat.mul_eq_matrix_mul, precondLt_eq, closureConst_eq, ← Matrix.smul_one_eq_diagonal]
  have hx : (Matrix.of x - Matrix.of (qCacheConst Q) * ((Matrix.of (qCacheConst Q))ᵀ * Matrix.of x) : Matrix _ _ α) =
      (1 - Matrix.of (topRows Q) * (Matrix.of (topRows Q))ᵀ) * Matrix.of x := by
    rw [Matrix.sub_mul, Matrix.one_mul, Matrix.mul_assoc]; rfl
  change (Matrix.of L * (Matrix.of L)ᵀ + s • 1) * ((1 / s) • (Matrix.of x - Matrix.of (qCacheConst Q) * ((Matrix.of (qCacheConst Q))ᵀ * Matrix.of x))) = Matrix.of x
  rw [hx, Matrix.mul_smul, ← Matrix.mul_assoc, hw, Matrix.smul_mul, Matrix.one_mul, smul_smul, one_div,
    inv_mul_cancel₀ hs0, one_smul]

/-! ### Non-constant diagonal -/

theorem closureNonconst_eq (q : Mat α n k) (d : Fin n → α) (x : Mat α n c) :
    closureNonconst q d x =
      (Matrix.diagonal (fun i => 1 / d i) * Matrix.of x - Matrix.of q * ((Matrix.of q)ᵀ * Matrix.of x) :
        Matrix (Fin n) (Fin c) α) := by
  unfold closureNonconst qqt
  rw [Mat.mul_eq_matrix_mul q (Mat.mul (Mat.transpose q) x), Mat.mul_eq_matrix_mul (Mat.transpose q) x]
  funext i j
  simp only [Matrix.sub_apply, Matrix.diagonal_mul, Matrix.of_apply]
  rw [div_eq_inv_mul, one_div]
  rfl

theorem conj_inverse {E Ei M W : Matrix (Fin n) (Fin n) α} (h1 : E * Ei = 1) (h3 : M * W = 1) :
    (E * M * E) * (Ei * W * Ei) = 1 := by
  calc (E * M * E) * (Ei * W * Ei) = E * (M * ((E * Ei) * W)) * Ei := by simp only [Matrix.mul_assoc]
    _ = 1 := by rw [h1, Matrix.one_mul, h3, Matrix.mul_one, h1]

/-- **Non-constant diagonal: the closure is the exact inverse.**  Under the QR contract on the matrix the code hands to
`torch.linalg.qr` (`Q R = cat(L / √d, I)`, `QᵀQ = I`) and `√dᵢ·√dᵢ = dᵢ ≠ 0`: `(L Lᵀ + D) · closure(X) = X`, with
`closure(X) = X / d − q(qᵀX)`, `q = Q[:n] / √d` (`_q_cache`). -/
theorem nonconst_inverse (P : Prim α) (L : Mat α n k) (d : Fin n → α) (Q : Mat α (n + k) k) (R : Mat α k k)
    (x : Mat α n c) (hs : ∀ i, P.sqrt (d i) * P.sqrt (d i) = d i) (hs0 : ∀ i, d i ≠ 0)
    (hqr : Mat.mul Q R = qrInputNonconst P L d)
    (horth : Mat.mul (Mat.transpose Q) Q = fun i j => if i = j then 1 else 0) :
    Mat.mul (precondLt L d) (closureNonconst (qCacheNonconst P Q d) d x) = x := by
  have he0 : ∀ i, P.sqrt (d i) ≠ 0 := by
    intro i h; have := hs i; rw [h, mul_zero] at this; exact hs0 i this.symm
  set E : Matrix (Fin n) (Fin n) α := Matrix.diagonal fun i => P.sqrt (d i) with hE
  set Ei : Matrix (Fin n) (Fin n) α := Matrix.diagonal fun i => (P.sqrt (d i))⁻¹ with hEi
  have hEEi : E * Ei = 1 := by
    rw [hE, hEi, Matrix.diagonal_mul_diagonal, ← Matrix.diagonal_one]
    congr 1; funext i; exact mul_inv_cancel₀ (he0 i)
  have hEiE : Ei * E = 1 := by
    rw [hE, hEi, Matrix.diagonal_mul_diagonal, ← Matrix.diagonal_one]
    congr 1; funext i; exact inv_mul_cancel₀ (he0 i)
  have hEE : E * E = Matrix.diagonal d := by
    rw [hE, Matrix.diagonal_mul_diagonal]; congr 1; funext i; exact hs i
  have hEiEi : Ei * Ei = Matrix.diagonal fun i => 1 / d i := by
    rw [hEi, Matrix.diagonal_mul_diagonal]; congr 1; funext i
    calc (P.sqrt (d i))⁻¹ * (P.sqrt (d i))⁻¹ = (P.sqrt (d i) * P.sqrt (d i))⁻¹ := (mul_inv _ _).symm
      _ = (d i)⁻¹ := by rw [hs i]
      _ = 1 / d i := (one_div _).symm
  have hEt : Eiᵀ = Ei := by rw [hEi, Matrix.diagonal_transpose]
  -- blocks of the QR contract
  have h1 := stack_top hqr
  have h2 := stack_bot hqr
  have h3 := orth_blocks horth
  have hT : (Matrix.of (fun i j => L i j / P.sqrt (d i)) : Matrix (Fin n) (Fin k) α) = Ei * Matrix.of L := by
    ext i j; simp only [hEi, Matrix.diagonal_mul, Matrix.of_apply, div_eq_inv_mul]
  have hI : (Matrix.of (fun i j : Fin k => if i = j then (1 : α) else 0)) = (1 : α) • (1 : Matrix (Fin k) (Fin k) α) := by
    ext i j; simp [Matrix.one_apply]
  rw [hT] at h1
  rw [hI] at h2
  have hw := woodbury_qr (Ei * Matrix.of L) (Matrix.of (topRows Q)) (Matrix.of (botRows Q)) (Matrix.of R) 1 1
    (by ring) one_ne_zero h1 h2 h3
  simp only [one_smul] at hw
  -- the cached q and the two sides as conjugations
  have hq : (Matrix.of (qCacheNonconst P Q d) : Matrix (Fin n) (Fin k) α) = Ei * Matrix.of (topRows Q) := by
    ext i j; simp only [hEi, qCacheNonconst, Matrix.diagonal_mul, Matrix.of_apply, div_eq_inv_mul]
  have hP : (Matrix.of L * (Matrix.of L)ᵀ + Matrix.diagonal d : Matrix (Fin n) (Fin n) α) =
      E * (Ei * Matrix.of L * (Ei * Matrix.of L)ᵀ + 1) * E := by
    rw [Matrix.mul_add, Matrix.add_mul, Matrix.mul_one, hEE, Matrix.transpose_mul, hEt]
    congr 1
    simp only [Matrix.mul_assoc]
    rw [hEiE, Matrix.mul_one, ← Matrix.mul_assoc E Ei, hEEi, Matrix.one_mul]
  have hC : (Matrix.diagonal (fun i => 1 / d i) * Matrix.of x -
      Matrix.of (qCacheNonconst P Q d) * ((Matrix.of (qCacheNonconst P Q d))ᵀ * Matrix.of x) : Matrix (Fin n) (Fin c) α) =
      (Ei * (1 - Matrix.of (topRows Q) * (Matrix.of (topRows Q))ᵀ) * Ei) * Matrix.of x := by
    rw [hq, ← hEiEi, Matrix.transpose_mul, hEt, Matrix.mul_sub, Matrix.sub_mul, Matrix.sub_mul, Matrix.mul_one]
    simp only [Matrix.mul_assoc]
  rw [Mat.mul_eq_matrix_mul, precondLt_eq, closureNonconst_eq]
  change (Matrix.of L * (Matrix.of L)ᵀ + Matrix.diagonal d) * (Matrix.diagonal (fun i => 1 / d i) * Matrix.of x -
      Matrix.of (qCacheNonconst P Q d) * ((Matrix.of (qCacheNonconst P Q d))ᵀ * Matrix.of x)) = Matrix.of x
  rw [hP, hC, ← Matrix.mul_assoc, conj_inverse hEEi hw, Matrix.one_mul]

end LinOp.C10
