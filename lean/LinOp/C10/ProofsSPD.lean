import LinOp.C10.ProofsPrecond
import Mathlib.LinearAlgebra.Matrix.DotProduct
import Mathlib.Algebra.Order.BigOperators.Group.Finset
import Mathlib.Tactic.Linarith
/-!
C10 — the preconditioner closure is positive definite (it is the inverse of `L Lᵀ + s I`, `s > 0`).
-/
namespace LinOp.C10
set_option linter.unusedSectionVars false
open Matrix

variable {α : Type} [Field α] [LinearOrder α] [IsStrictOrderedRing α] {n k : Nat}

theorem dot_self_nonneg (v : Fin k → α) : 0 ≤ v ⬝ᵥ v :=
  Finset.sum_nonneg fun i _ => mul_self_nonneg (v i)

theorem dot_self_pos {v : Fin n → α} (hv : v ≠ 0) : 0 < v ⬝ᵥ v := by
  rcases (dot_self_nonneg v).lt_or_eq with h | h
  · exact h
  · exact absurd (dotProduct_self_eq_zero.1 h.symm) hv

/-- If `P C = I` with `P = L Lᵀ + s I`, `s > 0`, then `xᵀ C x > 0` for every `x ≠ 0`. -/
theorem inv_posdef (L : Matrix (Fin n) (Fin k) α) (s : α) (hs : 0 < s) (C : Matrix (Fin n) (Fin n) α)
    (hPC : (L * Lᵀ + s • (1 : Matrix (Fin n) (Fin n) α)) * C = 1) (x : Fin n → α) (hx : x ≠ 0) :
    0 < x ⬝ᵥ (C *ᵥ x) := by
  set y := C *ᵥ x with hy
  have hPy : (L * Lᵀ + s • (1 : Matrix (Fin n) (Fin n) α)) *ᵥ y = x := by
    rw [hy, Matrix.mulVec_mulVec, hPC, Matrix.one_mulVec]
  have hy0 : y ≠ 0 := by
    intro h0; rw [h0, Matrix.mulVec_zero] at hPy; exact hx hPy.symm
  have e1 : (L * Lᵀ) *ᵥ y ⬝ᵥ y = (Lᵀ *ᵥ y) ⬝ᵥ (Lᵀ *ᵥ y) := by
    rw [dotProduct_comm, ← Matrix.mulVec_mulVec, Matrix.dotProduct_mulVec, ← Matrix.mulVec_transpose]
  calc 0 < s * (y ⬝ᵥ y) := mul_pos hs (dot_self_pos hy0)
    _ ≤ (Lᵀ *ᵥ y) ⬝ᵥ (Lᵀ *ᵥ y) + s * (y ⬝ᵥ y) := le_add_of_nonneg_left (dot_self_nonneg _)
    _ = x ⬝ᵥ y := by
        conv_rhs => rw [← hPy]
        rw [Matrix.add_mulVec, add_dotProduct, e1, Matrix.smul_mulVec, Matrix.one_mulVec, smul_dotProduct, smul_eq_mul]

theorem closureConst_eq_mul {c : Nat} (q : Mat α n k) (s : α) (x : Mat α n c) :
    closureConst q s x =
      (((1 / s) • (1 - Matrix.of q * (Matrix.of q)ᵀ)) * Matrix.of x : Matrix (Fin n) (Fin c) α) := by
  rw [closureConst_eq, Matrix.smul_mul, Matrix.sub_mul, Matrix.one_mul, Matrix.mul_assoc]

/-- **Constant diagonal: the closure is positive definite**: `xᵀ closure(x) > 0` for `x ≠ 0` (QR contract, `s > 0`). -/
theorem const_posdef (P : Prim α) (L : Mat α n k) (s : α) (Q : Mat α (n + k) k) (R : Mat α k k)
    (hs : P.sqrt s * P.sqrt s = s) (hs0 : 0 < s)
    (hqr : Mat.mul Q R = qrInputConst P L s)
    (horth : Mat.mul (Mat.transpose Q) Q = fun i j => if i = j then 1 else 0) (x : Fin n → α) (hx : x ≠ 0) :
    0 < ∑ i, x i * closureConst (qCacheConst Q) s (fun a (_ : Fin 1) => x a) i 0 := by
  have hc0 : P.sqrt s ≠ 0 := by
    intro h; rw [h, mul_zero] at hs; exact hs0.ne' hs.symm
  have h1 := stack_top hqr
  have h2 := stack_bot hqr
  rw [scaledEye_eq] at h2
  have h3 := orth_blocks horth
  have hw := woodbury_qr (Matrix.of L) (Matrix.of (topRows Q)) (Matrix.of (botRows Q)) (Matrix.of R) s (P.sqrt s)
    hs hc0 h1 h2 h3
  have hPC : (Matrix.of L * (Matrix.of L)ᵀ + s • (1 : Matrix (Fin n) (Fin n) α)) *
      ((1 / s) • (1 - Matrix.of (topRows Q) * (Matrix.of (topRows Q))ᵀ)) = 1 := by
    rw [Matrix.mul_smul, hw, smul_smul, one_div, inv_mul_cancel₀ hs0.ne', one_smul]
  have := inv_posdef (Matrix.of L) s hs0 _ hPC x hx
  rw [closureConst_eq_mul]
  convert this using 2
  rename_i i _
  simp only [Matrix.mul_apply, Matrix.mulVec, dotProduct, Matrix.of_apply]
  rfl

end LinOp.C10
