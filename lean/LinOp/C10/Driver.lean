import LinOp.Core.Parse
import LinOp.C10.Model
import LinOp.C10.History
import LinOp.Generated.C10Consts
/-!
Line-protocol driver for the C10 model (no Mathlib).

  pc  <rat|flt> <rank> <tol> <A_1|A_2|…>            pivoted Cholesky on a batch (`tol` as p/q)
      → `m=<m> inexact=<0|1> # <member> # <member> …`,  member = `perm=… piv=… err=… rows=r1;r2;…`
  hist <gen|0|1> <A_1|A_2|…> <rank:errorTol:settingsTol;…>     a HISTORY of calls on one operator object (`errorTol` = `-` for None);
      memoisation `gen` = as the decorator list extracted from the working tree says → `m:perm|perm;m:perm|perm;…`
  inv <p_0,…,p_{n-1}>                               inverse_permutation
  cd  <d_1|d_2|…>                                   `_constant_diag` flag of a batch of noise vectors
  en  <maxSize> <minSize> <n>                       preconditioner enabled?
  pre <const|nonconst> <noise (1 or n values)> <L n×k> <Q (n+k)×k> <R k×k> <X n×c>     (Float)
      → `qrin=… q=… closure=… logdet=… lt=…`  (matrices of float64 bit patterns)

Scalars travel as exact rationals `p/q`; in `flt` mode they are converted to binary64 (exact for
binary64 values) and results are printed as IEEE bit patterns (decimal `UInt64`).
In `rat` mode `sqrt` is exact on squares of rationals; `inexact=1` reports that some pivot was not one.
-/
open LinOp LinOp.C10 LinOp.Parse

/-! ### scalars -/

def natSqrt (x : Nat) : Nat := Id.run do
  -- integer square root by bisection
  let mut lo := 0
  let mut hi := x + 1
  for _ in [0:200] do
    if lo + 1 < hi then
      let mid := (lo + hi) / 2
      if mid * mid ≤ x then lo := mid else hi := mid
  return lo

def ratSqrt? (r : Rat) : Option Rat :=
  if r < 0 then none else
  let a := natSqrt r.num.toNat
  let b := natSqrt r.den
  if a * a = r.num.toNat && b * b = r.den then some (mkRat a b) else none

def ratPrim : Prim Rat := { sqrt := fun r => (ratSqrt? r).getD 0, log := fun _ => 0 }

instance : Zero Float := ⟨0.0⟩
instance : One Float := ⟨1.0⟩
def fltPrim : Prim Float := { sqrt := Float.sqrt, log := Float.log }

def ratToFloat (r : Rat) : Float := Float.ofInt r.num / Float.ofNat r.den

def showF (x : Float) : String := toString x.toBits.toNat

/-! ### parsing matrices as index functions -/

def matOf (a : Array (Array Rat)) (n m : Nat) : Mat Rat n m := Mat.ofArrays n m a
def fmatOf (a : Array (Array Rat)) (n m : Nat) : Mat Float n m :=
  let b : Array (Array Float) := a.map fun r => r.map ratToFloat
  Mat.ofArrays n m b

def showRows {α : Type} {n : Nat} (sh : α → String) (rows : List (Vector α n)) : String :=
  if rows.isEmpty then "-" else
  ";".intercalate (rows.map fun r => ",".intercalate (r.toList.map sh))

def showMatF {n m : Nat} (A : Mat Float n m) : String :=
  showRows showF ((List.finRange n).map fun i => Vector.ofFn (A i))

def showMember {α : Type} {n : Nat} (sh : α → String) (s : St α n) (m : Nat) : String :=
  let perm := (List.finRange n).map fun j => (s.perm.get j).val
  let piv := ((List.finRange n).filter fun j => j.val < m).map fun j => sh (s.diag.get (s.perm.get j))
  s!"perm={showList toString perm} piv={showList id piv} err={sh s.err} rows={showRows sh s.rows}"

def runPcRat (n rank : Nat) (tol : Rat) (ms : List (Array (Array Rat))) : String :=
  let As : List (Mat Rat n n) := ms.map fun a => matOf a n n
  let (m, ss) := runM ratPrim As rank tol
  let inexact := ss.any fun s =>
    ((List.finRange n).filter fun j => j.val < m).any fun j => (ratSqrt? (s.diag.get (s.perm.get j))).isNone
  s!"m={m} inexact={if inexact then 1 else 0} # " ++ " # ".intercalate (ss.map fun s => showMember showRat s m)

def runPcFlt (n rank : Nat) (tol : Rat) (ms : List (Array (Array Rat))) : String :=
  let As : List (Mat Float n n) := ms.map fun a => fmatOf a n n
  let (m, ss) := runM fltPrim As rank (ratToFloat tol)
  s!"m={m} inexact=0 # " ++ " # ".intercalate (ss.map fun s => showMember showF s m)

def parseCall? (s : String) : Option (Call Rat) :=
  match s.splitOn ":" with
  | [rk, et, st] =>
    match rk.toNat?, (if et = "-" then some none else (parseRat? et).map some), parseRat? st with
    | some rk, some et, some st => some ⟨rk, et, st⟩
    | _, _, _ => none
  | _ => none

def runHist (memo : Bool) (n : Nat) (ms : List (Array (Array Rat))) (cs : List (Call Rat)) : String :=
  let As : List (Mat Rat n n) := ms.map fun a => matOf a n n
  let res := history memo ratPrim As [] cs
  ";".intercalate (res.map fun (m, ss) =>
    s!"{m}:" ++ "|".intercalate (ss.map fun s => showList toString ((List.finRange n).map fun j => (s.perm.get j).val)))

/-- Strict copy of a matrix into arrays (so that later reads are O(1)). -/
def toArrs {n m : Nat} (A : Mat Float n m) : Array (Array Float) :=
  Array.ofFn fun i : Fin n => Array.ofFn fun j : Fin m => A i j

def runPre (kind : String) (noise : List Rat) (l q r x : Array (Array Rat)) : String :=
  let n := l.size
  let k := r.size
  let c := if h : 0 < x.size then (x[0]'h).size else 0
  if q.size ≠ n + k || x.size ≠ n || n = 0 then "bad-shape" else
  let L : Mat Float n k := fmatOf l n k
  let Q : Mat Float (n + k) k := fmatOf q (n + k) k
  let R : Mat Float k k := fmatOf r k k
  let X : Mat Float n c := fmatOf x n c
  let nz := noise.toArray.map ratToFloat
  if kind = "const" then
    let s := nz[0]!
    let qa := toArrs (qCacheConst Q)
    let qc : Mat Float n k := Mat.ofArrays n k qa
    let d : Fin n → Float := fun _ => s
    s!"qrin={showMatF (qrInputConst fltPrim L s)} q={showMatF qc} closure={showMatF (closureConst qc s X)} " ++
    s!"logdet={showF (logdetConst fltPrim R s (Float.ofNat n - Float.ofNat k))} lt={showMatF (precondLt L d)}"
  else
    let d : Fin n → Float := fun i => nz[i.1]!
    let qa := toArrs (qCacheNonconst fltPrim Q d)
    let qc : Mat Float n k := Mat.ofArrays n k qa
    s!"qrin={showMatF (qrInputNonconst fltPrim L d)} q={showMatF qc} closure={showMatF (closureNonconst qc d X)} " ++
    s!"logdet={showF (logdetNonconst fltPrim R d)} lt={showMatF (precondLt L d)}"

def runLine (line : String) : String :=
  match words line with
  | ["pc", mode, rank, tol, ms] =>
    match rank.toNat?, parseRat? tol, (ms.splitOn "|").mapM parseMat? with
    | some rank, some tol, some (a :: rest) =>
      let n := a.size
      if (a :: rest).any (fun b => b.size ≠ n || b.any (·.size ≠ n)) then "bad-shape"
      else if mode = "rat" then runPcRat n rank tol (a :: rest) else runPcFlt n rank tol (a :: rest)
    | _, _, _ => "bad-args"
  | ["hist", memo, ms, cs] =>
    match (ms.splitOn "|").mapM parseMat?, (cs.splitOn ";").mapM parseCall? with
    | some (a :: rest), some cs =>
      let n := a.size
      if (a :: rest).any (fun b => b.size ≠ n || b.any (·.size ≠ n)) then "bad-shape"
      else
        let memo := if memo = "gen" then memoised LinOp.Generated.C10.pcDecorators else memo = "1"
        runHist memo n (a :: rest) cs
    | _, _ => "bad-args"
  | ["inv", p] =>
    match parseNats? p with
    | some ps =>
      let n := ps.length
      if h : 0 < n then
        if ps.any (· ≥ n) then "bad-args" else
        let pa := ps.toArray
        let pf : Fin n → Fin n := fun i => ⟨pa[i.1]! % n, Nat.mod_lt _ h⟩
        showList toString ((List.finRange n).map fun i => (inversePermutation h pf i).val)
      else "-"
    | none => "bad-args"
  | ["cd", ds] =>
    match (ds.splitOn "|").mapM parseRats? with
    | some dl => if dl.all constantDiag then "1" else "0"
    | none => "bad-args"
  | ["en", a, b, c] =>
    match a.toNat?, b.toNat?, c.toNat? with
    | some a, some b, some c => if precondEnabled a b c then "1" else "0"
    | _, _, _ => "bad-args"
  | ["pre", kind, noise, l, q, r, x] =>
    match parseRats? noise, parseMat? l, parseMat? q, parseMat? r, parseMat? x with
    | some noise, some l, some q, some r, some x => runPre kind noise l q r x
    | _, _, _, _, _ => "bad-args"
  | _ => "bad-line"

def main : IO Unit := do
  let stdin ← IO.getStdin
  LinOp.Parse.loop stdin () fun _ line => ((), runLine line)
