import LinOp.C10.ProofsPrecond
import Mathlib.LinearAlgebra.Matrix.SchurComplement
import Mathlib.LinearAlgebra.Matrix.Block
import Mathlib.Analysis.SpecialFunctions.Log.Basic
import Mathlib.Analysis.Real.Sqrt
/-!
C10 — the log-determinant the preconditioner reports (constant diagonal): matrix determinant lemma + QR.
-/
namespace LinOp.C10
set_option linter.unusedSectionVars false
open Matrix

section field
variable {α : Type} [Field α] {n k : Nat}

/-- `RᵀR = LᵀL + s I` from the block equations. -/
theorem gram_R (L Q1 : Matrix (Fin n) (Fin k) α) (Q2 R : Matrix (Fin k) (Fin k) α) (s cc : α) (hc : cc * cc = s)
    (h1 : Q1 * R = L) (h2 : Q2 * R = cc • (1 : Matrix (Fin k) (Fin k) α)) (h3 : Q1ᵀ * Q1 + Q2ᵀ * Q2 = 1) :
    Rᵀ * R = Lᵀ * L + s • (1 : Matrix (Fin k) (Fin k) α) := by
  calc Rᵀ * R = Rᵀ * ((Q1ᵀ * Q1 + Q2ᵀ * Q2) * R) := by rw [h3, Matrix.one_mul]
    _ = (Q1 * R)ᵀ * (Q1 * R) + (Q2 * R)ᵀ * (Q2 * R) := by
        rw [Matrix.add_mul, Matrix.mul_add, Matrix.transpose_mul, Matrix.transpose_mul]
        simp only [Matrix.mul_assoc]
    _ = Lᵀ * L + s • 1 := by
        rw [h1, h2, Matrix.transpose_smul, Matrix.transpose_one, Matrix.smul_mul, Matrix.one_mul, smul_smul, hc]

/-- **Matrix determinant lemma with the QR factor**: `det(L Lᵀ + s I_n) · s^k = s^n · det(R)²`. -/
theorem det_const_blocks (L Q1 : Matrix (Fin n) (Fin k) α) (Q2 R : Matrix (Fin k) (Fin k) α) (s cc : α)
    (hc : cc * cc = s) (hs0 : s ≠ 0)
    (h1 : Q1 * R = L) (h2 : Q2 * R = cc • (1 : Matrix (Fin k) (Fin k) α)) (h3 : Q1ᵀ * Q1 + Q2ᵀ * Q2 = 1) :
    det (L * Lᵀ + s • (1 : Matrix (Fin n) (Fin n) α)) * s ^ k = s ^ n * det R ^ 2 := by
  have hg := gram_R L Q1 Q2 R s cc hc h1 h2 h3
  have hP : L * Lᵀ + s • (1 : Matrix (Fin n) (Fin n) α) = s • (1 + (s⁻¹ • L) * Lᵀ) := by
    rw [smul_add, Matrix.smul_mul, smul_smul, mul_inv_cancel₀ hs0, one_smul, add_comm]
  have hG : Lᵀ * L + s • (1 : Matrix (Fin k) (Fin k) α) = s • (1 + Lᵀ * (s⁻¹ • L)) := by
    rw [smul_add, Matrix.mul_smul, smul_smul, mul_inv_cancel₀ hs0, one_smul, add_comm]
  have hdR : det R ^ 2 = s ^ k * det (1 + Lᵀ * (s⁻¹ • L)) := by
    have : det (Rᵀ * R) = det R ^ 2 := by rw [Matrix.det_mul, Matrix.det_transpose]; ring
    rw [← this, hg, hG, Matrix.det_smul, Fintype.card_fin]
  rw [hP, Matrix.det_smul, Fintype.card_fin, Matrix.det_one_add_mul_comm, hdR]
  ring

end field

/-- **Constant diagonal: the reported log-determinant is `log det(L Lᵀ + s I)`** (over ℝ, `k ≤ n`).
Hypotheses: the QR contract on the matrix handed to `torch.linalg.qr`, `R` upper triangular, `s > 0`. -/
theorem logdet_const {n k : Nat} (L : Mat ℝ n k) (s : ℝ) (Q : Mat ℝ (n + k) k) (R : Mat ℝ k k)
    (hs : 0 < s) (hqr : Mat.mul Q R = qrInputConst ⟨Real.sqrt, Real.log⟩ L s)
    (horth : Mat.mul (Mat.transpose Q) Q = fun i j => if i = j then 1 else 0)
    (hR : ∀ i j : Fin k, j < i → R i j = 0) :
    logdetConst ⟨Real.sqrt, Real.log⟩ R s ((n : ℝ) - k) =
      Real.log (Matrix.det (precondLt L (fun _ => s) : Matrix (Fin n) (Fin n) ℝ)) := by
  have hsq : Real.sqrt s * Real.sqrt s = s := Real.mul_self_sqrt hs.le
  have hc0 : Real.sqrt s ≠ 0 := (Real.sqrt_pos.2 hs).ne'
  have h1 := stack_top hqr
  have h2 := stack_bot hqr
  rw [scaledEye_eq] at h2
  have h3 := orth_blocks horth
  have hdet := det_const_blocks (Matrix.of L) (Matrix.of (topRows Q)) (Matrix.of (botRows Q)) (Matrix.of R) s
    (Real.sqrt s) hsq hs.ne' h1 h2 h3
  -- det R = ∏ R i i ≠ 0
  have htri : (Matrix.of R).IsUpperTriangular := by
    intro i j hij; exact hR i j hij
  have hdetR : det (Matrix.of R) = ∏ i, R i i := Matrix.det_of_isUpperTriangular htri
  have hRne : det (Matrix.of R) ≠ 0 := by
    intro h0
    have := congrArg det h2
    rw [Matrix.det_mul, h0, mul_zero, Matrix.det_smul, Matrix.det_one, mul_one] at this
    exact (pow_ne_zero _ hc0) this.symm
  have hii : ∀ i ∈ (Finset.univ : Finset (Fin k)), |R i i| ≠ 0 := by
    intro i _ h0
    apply hRne; rw [hdetR]
    exact Finset.prod_eq_zero (Finset.mem_univ i) (abs_eq_zero.1 h0)
  -- take logs
  rw [precondLt_eq, ← Matrix.smul_one_eq_diagonal]
  have hPpos : 0 < det (Matrix.of L * (Matrix.of L)ᵀ + s • (1 : Matrix (Fin n) (Fin n) ℝ)) := by
    have : det (Matrix.of L * (Matrix.of L)ᵀ + s • (1 : Matrix (Fin n) (Fin n) ℝ)) * s ^ k > 0 := by
      rw [hdet]; exact mul_pos (pow_pos hs _) (by positivity)
    exact (mul_pos_iff_of_pos_right (pow_pos hs k)).1 this
  have hlog := congrArg Real.log hdet
  rw [Real.log_mul hPpos.ne' (pow_ne_zero _ hs.ne'), Real.log_mul (pow_ne_zero _ hs.ne') (pow_ne_zero _ hRne),
    Real.log_pow, Real.log_pow, Real.log_pow, hdetR, ← Real.log_abs (∏ i, R i i), Finset.abs_prod,
    Real.log_prod hii] at hlog
  unfold logdetConst logAbsDiag2
  simp only [absv]
  have habs : ∀ x : ℝ, (if x < 0 then -x else x) = |x| := by
    intro x; split_ifs with h
    · exact (abs_of_neg h).symm
    · exact (abs_of_nonneg (not_lt.1 h)).symm
  simp only [habs]
  rw [← Fin.sum_univ_def]
  push_cast at hlog ⊢
  linarith

/-- **Non-constant diagonal: the reported log-determinant is `log det(L Lᵀ + D)`** (over ℝ).
Hypotheses: the QR contract on `cat(L / √d, I)`, `R` upper triangular, all `dᵢ > 0`. -/
theorem logdet_nonconst {n k : Nat} (L : Mat ℝ n k) (d : Fin n → ℝ) (Q : Mat ℝ (n + k) k) (R : Mat ℝ k k)
    (hd : ∀ i, 0 < d i) (hqr : Mat.mul Q R = qrInputNonconst ⟨Real.sqrt, Real.log⟩ L d)
    (horth : Mat.mul (Mat.transpose Q) Q = fun i j => if i = j then 1 else 0)
    (hR : ∀ i j : Fin k, j < i → R i j = 0) :
    logdetNonconst ⟨Real.sqrt, Real.log⟩ R d =
      Real.log (Matrix.det (precondLt L d : Matrix (Fin n) (Fin n) ℝ)) := by
  have hs : ∀ i, Real.sqrt (d i) * Real.sqrt (d i) = d i := fun i => Real.mul_self_sqrt (hd i).le
  have he0 : ∀ i, Real.sqrt (d i) ≠ 0 := fun i => (Real.sqrt_pos.2 (hd i)).ne'
  set E : Matrix (Fin n) (Fin n) ℝ := Matrix.diagonal fun i => Real.sqrt (d i) with hE
  set Ei : Matrix (Fin n) (Fin n) ℝ := Matrix.diagonal fun i => (Real.sqrt (d i))⁻¹ with hEi
  have hEEi : E * Ei = 1 := by
    rw [hE, hEi, Matrix.diagonal_mul_diagonal, ← Matrix.diagonal_one]
    congr 1; funext i; exact mul_inv_cancel₀ (he0 i)
  have hEiE : Ei * E = 1 := by
    rw [hE, hEi, Matrix.diagonal_mul_diagonal, ← Matrix.diagonal_one]
    congr 1; funext i; exact inv_mul_cancel₀ (he0 i)
  have hEE : E * E = Matrix.diagonal d := by
    rw [hE, Matrix.diagonal_mul_diagonal]; congr 1; funext i; exact hs i
  have hEt : Eiᵀ = Ei := by rw [hEi, Matrix.diagonal_transpose]
  have h1 := stack_top hqr
  have h2 := stack_bot hqr
  have h3 := orth_blocks horth
  have hT : (Matrix.of (fun i j => L i j / Real.sqrt (d i)) : Matrix (Fin n) (Fin k) ℝ) = Ei * Matrix.of L := by
    ext i j; simp only [hEi, Matrix.diagonal_mul, Matrix.of_apply, div_eq_inv_mul]
  have hI : (Matrix.of (fun i j : Fin k => if i = j then (1 : ℝ) else 0)) = (1 : ℝ) • (1 : Matrix (Fin k) (Fin k) ℝ) := by
    ext i j; simp [Matrix.one_apply]
  rw [hT] at h1
  rw [hI] at h2
  have hdet := det_const_blocks (Ei * Matrix.of L) (Matrix.of (topRows Q)) (Matrix.of (botRows Q)) (Matrix.of R) 1 1
    (by ring) one_ne_zero h1 h2 h3
  simp only [one_smul, one_pow, mul_one, one_mul] at hdet
  have hP : (Matrix.of L * (Matrix.of L)ᵀ + Matrix.diagonal d : Matrix (Fin n) (Fin n) ℝ) =
      E * (Ei * Matrix.of L * (Ei * Matrix.of L)ᵀ + 1) * E := by
    rw [Matrix.mul_add, Matrix.add_mul, Matrix.mul_one, hEE, Matrix.transpose_mul, hEt]
    congr 1
    simp only [Matrix.mul_assoc]
    rw [hEiE, Matrix.mul_one, ← Matrix.mul_assoc E Ei, hEEi, Matrix.one_mul]
  have hdetE : det E * det E = ∏ i, d i := by
    rw [← Matrix.det_mul, hEE, Matrix.det_diagonal]
  have htri : (Matrix.of R).IsUpperTriangular := by
    intro i j hij; exact hR i j hij
  have hdetR : det (Matrix.of R) = ∏ i, R i i := Matrix.det_of_isUpperTriangular htri
  have hRne : det (Matrix.of R) ≠ 0 := by
    intro h0
    have := congrArg det h2
    rw [Matrix.det_mul, h0, mul_zero, one_smul, Matrix.det_one] at this
    exact zero_ne_one this
  have hii : ∀ i ∈ (Finset.univ : Finset (Fin k)), |R i i| ≠ 0 := by
    intro i _ h0
    apply hRne; rw [hdetR]
    exact Finset.prod_eq_zero (Finset.mem_univ i) (abs_eq_zero.1 h0)
  have hdpos : ∀ i ∈ (Finset.univ : Finset (Fin n)), d i ≠ 0 := fun i _ => (hd i).ne'
  rw [precondLt_eq, hP, Matrix.det_mul, Matrix.det_mul, hdet]
  have : det E * det (Matrix.of R) ^ 2 * det E = (∏ i, d i) * det (Matrix.of R) ^ 2 := by
    rw [← hdetE]; ring
  rw [this, Real.log_mul (Finset.prod_ne_zero_iff.2 hdpos) (pow_ne_zero _ hRne), Real.log_pow, hdetR,
    ← Real.log_abs (∏ i, R i i), Finset.abs_prod, Real.log_prod hii, Real.log_prod hdpos]
  unfold logdetNonconst logAbsDiag2
  simp only [absv]
  have habs : ∀ x : ℝ, (if x < 0 then -x else x) = |x| := by
    intro x; split_ifs with h
    · exact (abs_of_neg h).symm
    · exact (abs_of_nonneg (not_lt.1 h)).symm
  simp only [habs, one_div, Real.log_inv]
  rw [← Fin.sum_univ_def, ← Fin.sum_univ_def, Finset.sum_neg_distrib]
  push_cast
  ring

end LinOp.C10
