/-
C10 — multi-step HISTORIES of `op.pivoted_cholesky(rank, error_tol)` on ONE operator object.  Core Lean only.

    def pivoted_cholesky(self, rank, error_tol=None, return_pivots=False):        -- `LinearOperator`, decorators: <extracted>
        func = PivotedCholesky.apply
        res, pivots = func(self.representation_tree(), rank, error_tol, *self.representation())
        ...
    # forward:  if error_tol is None: error_tol = settings.preconditioner_tolerance.value()     -- `Call.tol`

The method wrapper is modelled WITH the memoisation that `utils.memoize.cached` would add if the method carried that
decorator (key = (name, args, kwargs) = `(rank, error_tol)`: the settings in force are NOT part of the key); whether it
is switched on is read off the decorator list extracted from the working tree (`memoised`).
-/
import LinOp.C10.Model
namespace LinOp.C10

/-- One call, made while `settings.preconditioner_tolerance.value() = settingsTol`. -/
structure Call (α : Type) where
  rank : Nat
  errorTol : Option α
  settingsTol : α

/-- The tolerance in force at the call: `if error_tol is None: error_tol = settings.preconditioner_tolerance.value()`. -/
def Call.tol {α : Type} (c : Call α) : α :=
  match c.errorTol with
  | some t => t
  | none => c.settingsTol

/-- Does the decorator list memoise the method on the object (`@cached`, `@cached(name=…)`, `@functools.lru_cache`, …)? -/
def memoised (decorators : List String) : Bool :=
  decorators.any fun d => d.startsWith "cached" || d.startsWith "functools" || d.startsWith "lru_cache" || d.startsWith "cache"

section
variable {α : Type} {n : Nat} [Zero α] [Add α] [Sub α] [Mul α] [Div α] [Neg α] [LT α] [DecidableLT α] [DecidableEq α]

/-- `obj._memoize_cache` restricted to this method: `(rank, error_tol) ↦ result`. -/
abbrev Memo (α : Type) (n : Nat) := List ((Nat × Option α) × (Nat × List (St α n)))

def Memo.find? (c : Memo α n) (key : Nat × Option α) : Option (Nat × List (St α n)) :=
  match c with
  | [] => none
  | (k, v) :: rest => if k = key then some v else Memo.find? rest key

/-- One call of the (possibly memoised) method on the object whose matrix is `As`. -/
def callOnce (memo : Bool) (P : Prim α) (As : List (Mat α n n)) (cache : Memo α n) (c : Call α) :
    (Nat × List (St α n)) × Memo α n :=
  if memo then
    match cache.find? (c.rank, c.errorTol) with
    | some r => (r, cache)
    | none => let r := runM P As c.rank c.tol; (r, ((c.rank, c.errorTol), r) :: cache)
  else (runM P As c.rank c.tol, cache)

/-- The results of a sequence of calls on ONE operator object (the cache lives on the object). -/
def history (memo : Bool) (P : Prim α) (As : List (Mat α n n)) : Memo α n → List (Call α) → List (Nat × List (St α n))
  | _, [] => []
  | cache, c :: cs =>
    let rc := callOnce memo P As cache c
    rc.1 :: history memo P As rc.2 cs

/-- Without memoisation every call is the pure function of `(A, rank, tolerance in force)`. -/
theorem history_unmemoised (P : Prim α) (As : List (Mat α n n)) (cache : Memo α n) (cs : List (Call α)) :
    history false P As cache cs = cs.map fun c => runM P As c.rank c.tol := by
  induction cs generalizing cache with
  | nil => rfl
  | cons c cs ih => simp [history, callOnce, ih]

end
end LinOp.C10
