import LinOp.C08.Model
import LinOp.Generated.C08Consts
/-!
C08 — conjugate gradients.  Property theorems only (stub while the harness is brought up).
-/
namespace LinOp.C08

/-- The thresholds of the source are the documented ones. -/
theorem generated_thresholds :
    Generated.C08.eps = 1 / 10000000000 ∧ Generated.C08.stopUpdatingAfter = 1 / 10000000000 ∧
    Generated.C08.iterFloor = 10 ∧ Generated.C08.triOff = 1 / 1000000 := by
  decide +kernel

end LinOp.C08
