import LinOp.C08.Proofs15
import LinOp.C08.Proofs17
import LinOp.C08.Proofs18
import LinOp.C08.Proofs19
import LinOp.C08.Proofs20
import LinOp.C08.Known
import LinOp.Generated.C08Consts
/-!
C08 — conjugate gradients converges to the solution and returns true Lanczos matrices.
Property theorems only.  `N : NumOps α` with `Lawful N` is the scalar interface over a linearly ordered
field with square roots (e.g. `ℝ` with `Real.sqrt`); `s : Sys α n` is one system column with its
`matmul_closure` (`s.amul`) and preconditioner (`s.pre`); `colStep` is one pass through the loop body of
`linear_cg` for that column, `iterCol … k` is `k` passes, `linearCg` the whole call on all columns.
The model (LinOp/C08/Model.lean) mirrors the source statement by statement; its thresholds are the
generated constants pinned below; the harness compares it with the real `linear_cg` on every run.
-/
set_option linter.unusedSectionVars false
namespace LinOp.C08

variable {α : Type} [Field α] [LinearOrder α] [IsStrictOrderedRing α]

/-! ### generated facts about the source -/

/-- The thresholds and defaults of the source are the ones the property statement names
(`eps = stop_updating_after = 1e-10`, early-stop floor 10, tridiagonal switch-off `1e-6`,
`max_cg_iterations = 1000`, `max_lanczos_quadrature_iterations = 20`, `cg_tolerance = 1`,
`terminate_cg_by_size` off). -/
theorem generated_thresholds :
    Generated.C08.eps = 1 / 10000000000 ∧ Generated.C08.stopUpdatingAfter = 1 / 10000000000 ∧
    Generated.C08.iterFloor = 10 ∧ Generated.C08.iterFloorFound = true ∧
    Generated.C08.triOff = 1 / 1000000 ∧ Generated.C08.maxCgIterations = 1000 ∧
    Generated.C08.maxLanczosQuadratureIterations = 20 ∧ Generated.C08.cgTolerance = 1 ∧
    Generated.C08.terminateCgBySize = "False" ∧ Generated.C08.nTridiagDefault = 0 := by
  decide +kernel

/-- Hypotheses `0 < eps`, `0 < stop_updating_after` of the theorems below hold for the defaults, and the
default tridiagonal budget does not exceed the default iteration budget (no spurious `RuntimeError`). -/
theorem generated_hypotheses :
    0 < Generated.C08.eps ∧ 0 < Generated.C08.stopUpdatingAfter ∧ 0 < Generated.C08.triOff ∧
    Generated.C08.maxLanczosQuadratureIterations ≤ Generated.C08.maxCgIterations := by
  decide +kernel

/-- The statements of the source that the model mirrors are the ones it was written against:
both kernels mask `alpha` by `has_converged` after the safe division, the residual norm is masked by
`rhs_is_zero`, the stopping rule and the tridiagonal guard have the modelled form, the tridiagonal block
precedes the tolerance exit in the loop body, the warning guard is `not tolerance_reached and n_iter > 0`, and
`LinearOperator._solve` passes the two settings as limits. -/
theorem generated_structure :
    Generated.C08.kernelNoPrecond =
      ["torch.mul(curr_conjugate_vec, mvms, out=mul_storage)",
       "torch.sum(mul_storage, dim=-2, keepdim=True, out=alpha)",
       "torch.lt(alpha, eps, out=is_zero)", "alpha.masked_fill_(is_zero, 1)",
       "torch.div(residual_inner_prod, alpha, out=alpha)", "alpha.masked_fill_(is_zero, 0)",
       "alpha.masked_fill_(has_converged, 0)", "torch.addcmul(residual, -alpha, mvms, out=residual)",
       "precond_residual = residual.clone()",
       "_jit_linear_cg_updates(result, alpha, residual_inner_prod, eps, beta, residual, precond_residual, mul_storage, is_zero, curr_conjugate_vec)"] ∧
    Generated.C08.precondBranch =
      ["torch.mul(curr_conjugate_vec, mvms, out=mul_storage)",
       "torch.sum(mul_storage, -2, keepdim=True, out=alpha)",
       "torch.lt(alpha, eps, out=is_zero)", "alpha.masked_fill_(is_zero, 1)",
       "torch.div(residual_inner_prod, alpha, out=alpha)", "alpha.masked_fill_(is_zero, 0)",
       "alpha.masked_fill_(has_converged, 0)",
       "residual = torch.addcmul(residual, alpha, mvms, value=-1, out=residual)",
       "precond_residual = preconditioner(residual)",
       "_jit_linear_cg_updates(result, alpha, residual_inner_prod, eps, beta, residual, precond_residual, mul_storage, is_zero, curr_conjugate_vec)"] ∧
    Generated.C08.kernel =
      ["result = torch.addcmul(result, alpha, curr_conjugate_vec, out=result)",
       "beta.resize_as_(residual_inner_prod).copy_(residual_inner_prod)",
       "torch.mul(residual, precond_residual, out=mul_storage)",
       "torch.sum(mul_storage, -2, keepdim=True, out=residual_inner_prod)",
       "torch.lt(beta, eps, out=is_zero)", "beta.masked_fill_(is_zero, 1)",
       "torch.div(residual_inner_prod, beta, out=beta)", "beta.masked_fill_(is_zero, 0)",
       "curr_conjugate_vec.mul_(beta).add_(precond_residual)"] ∧
    Generated.C08.postKernel =
      ["torch.norm(residual, 2, dim=-2, keepdim=True, out=residual_norm)",
       "residual_norm.masked_fill_(rhs_is_zero, 0)",
       "torch.lt(residual_norm, stop_updating_after, out=has_converged)"] ∧
    Generated.C08.stopRule =
      "k >= min(10, max_iter - 1) and bool(residual_norm.mean() < tolerance) and (not (n_tridiag and k < min(n_tridiag_iter, max_iter - 1)))" ∧
    Generated.C08.stopBody = ["tolerance_reached = True", "break"] ∧
    Generated.C08.loopOrder = ["assign:mvms", "kernel", "torch.norm(residual, 2, dim=-2, keepdim=True, out=residual_n",
      "residual_norm.masked_fill_(rhs_is_zero, 0)", "torch.lt(residual_norm, stop_updating_after, out=has_converg",
      "tridiag-block", "stop-rule"] ∧
    Generated.C08.warnGuard = "not tolerance_reached and n_iter > 0" ∧
    Generated.C08.triGuard = "n_tridiag and k < n_tridiag_iter and update_tridiag" ∧
    Generated.C08.mvms = "mvms = matmul_closure(curr_conjugate_vec)" ∧
    Generated.C08.loopIter = "range(n_iter)" ∧
    Generated.C08.solveCall =
      "utils.linear_cg(self._matmul, rhs, n_tridiag=num_tridiag, max_iter=settings.max_cg_iterations.value(), max_tridiag_iter=settings.max_lanczos_quadrature_iterations.value(), preconditioner=preconditioner)" := by
  decide +kernel

/-! ### one iteration -/

/-- **The modelled step is the textbook PCG step** while the column is not frozen, `pᵀAp ≥ eps` and
`rᵀz ≥ eps`: `x' = x + a p`, `r' = r − a A p` with `a = rᵀz / pᵀAp`; `z' = M⁻¹ r'` (or `r'` without
preconditioner); `p' = z' + b p` with `b = r'ᵀz' / rᵀz`.  Both kernels (`precond` on/off) agree on this. -/
theorem cg_step_is_textbook {N : NumOps α} (hN : Lawful N) (P : Params α) {n : Nat} (s : Sys α n) (iz : Bool)
    (c : Col α n) (hc : c.conv = false) (hp : ¬ dot c.p (s.amul c.p) < P.eps) (hz : ¬ c.rz < P.eps) :
    let a := c.rz / dot c.p (s.amul c.p)
    let c' := colStep N P s iz c
    c'.x = c.x + a • c.p ∧ c'.r = c.r - a • s.amul c.p ∧
    c'.z = (if P.precond then s.pre c'.r else c'.r) ∧ c'.rz = dot c'.r c'.z ∧
    c'.beta = c'.rz / c.rz ∧ c'.p = c'.z + (c'.rz / c.rz) • c.p ∧ c'.alpha = a := by
  intro a c'
  have ha : alphaF N P s c = a := alphaF_regular hN P s c hc hp
  have hb : c'.beta = c'.rz / c.rz := by
    have : N.lt c.rz P.eps = false := (hN.lt_false _ _).mpr hz
    show (colStep N P s iz c).beta = (colStep N P s iz c).rz / c.rz
    rw [colStep_beta, this]; simp
  refine ⟨by rw [colStep_x, ha], by rw [colStep_r, ha], colStep_z N P s iz c, colStep_rz N P s iz c, hb, ?_,
    by rw [colStep_alpha, ha]⟩
  rw [colStep_p, hb]

/-- **Recurrence residual = true residual, for every iteration count**: with a linear
`matmul_closure`, the `residual` the loop carries is `b̂ − A x_k` after any number `k` of iterations
(any mix of regular, safe-division and frozen steps), where `b̂` is the normalised right-hand side. -/
theorem cg_residual_invariant (N : NumOps α) (P : Params α) {n : Nat} {s : Sys α n} (hA : Lin s.amul)
    (iz : Bool) (k : Nat) :
    (iterCol N P s iz k (initCol N P s (prep N P s))).r
      = (prep N P s).b - s.amul (iterCol N P s iz k (initCol N P s (prep N P s))).x :=
  iterCol_residual N P hA _ iz _ (initCol_residual N P s) k

/-- **Zero right-hand side and zero guess give zero**, for every iteration budget `k`, every
preconditioner with `M⁻¹0 = 0`, either kernel: the un-normalised result `x_k · rhs_norm` is `0`. -/
theorem cg_zero_rhs {N : NumOps α} (hN : Lawful N) (P : Params α) (he : 0 < P.eps) {n : Nat} {s : Sys α n}
    (hA : Lin s.amul) (hM : s.pre 0 = 0) (hr : s.rhs = 0) (hx : s.x0 = 0) (k : Nat) :
    (fun i => (iterCol N P s (prep N P s).isZero k (initCol N P s (prep N P s))).x i * (prep N P s).nrm)
      = (0 : Vec α n) := by
  obtain ⟨hg, hr0, _⟩ := prep_zero hN P he hA hr hx
  have h0 := iterCol_zero hN P he hA hM (prep N P s).isZero _ (initCol_zero (N := N) P hM (prep N P s) hg hr0) k
  funext i
  simp [h0.1]

/-- **Scaling law through the normalisation**: multiplying a right-hand-side column and its initial
guess by `c > 0` (both norms staying `≥ eps`) leaves the normalised problem — hence every later state of
the column, every stopping decision and the tridiagonal entries — unchanged and multiplies `rhs_norm`,
by which the result is finally multiplied, by `c`.  So `x(c·b) = c·x(b)`. -/
theorem cg_scaling {N : NumOps α} (hN : Lawful N) (P : Params α) (he : 0 < P.eps) {n : Nat} (s : Sys α n)
    (c : α) (hc : 0 < c) (h1 : ¬ norm2 N s.rhs < P.eps) (h2 : ¬ c * norm2 N s.rhs < P.eps) (k : Nat) :
    (fun i => (iterCol N P (scaleSys c s) (prep N P (scaleSys c s)).isZero k
                (initCol N P (scaleSys c s) (prep N P (scaleSys c s)))).x i * (prep N P (scaleSys c s)).nrm)
      = c • fun i => (iterCol N P s (prep N P s).isZero k (initCol N P s (prep N P s))).x i * (prep N P s).nrm := by
  rw [prep_scale hN P he s c hc h1 h2]
  funext i
  simp only [Pi.smul_apply, smul_eq_mul]
  have : ∀ (q : Prep α n) (m : Nat) (c0 : Col α n), iterCol N P (scaleSys c s) q.isZero m c0 = iterCol N P s q.isZero m c0 := by
    intro q m c0
    induction m with
    | zero => rfl
    | succ m ih => simp only [iterCol, ih]; rfl
  rw [this]
  show (iterCol N P s (prep N P s).isZero k (initCol N P s { prep N P s with nrm := c * (prep N P s).nrm })).x i * (c * (prep N P s).nrm) = _
  have hinit : initCol N P s { prep N P s with nrm := c * (prep N P s).nrm } = initCol N P s (prep N P s) := rfl
  rw [hinit]; ring

/-- **Converged columns stop changing**: once `has_converged` is set for a column (initially or after
any iteration), its iterate and residual are the same after every further iteration, and it stays
converged (`0 < stop_updating_after`). -/
theorem cg_frozen_fixed {N : NumOps α} (hN : Lawful N) (P : Params α) (hs : 0 < P.stopAfter) {n : Nat}
    (s : Sys α n) (iz : Bool) (c : Col α n)
    (hreach : c = initCol N P s (prep N P s) ∨ ∃ c₀, c = colStep N P s iz c₀)
    (hconv : c.conv = true) (k : Nat) :
    (iterCol N P s iz k c).x = c.x ∧ (iterCol N P s iz k c).r = c.r ∧ (iterCol N P s iz k c).conv = true := by
  have hf : Frozen N P iz c := by
    rcases hreach with h | ⟨c₀, h⟩
    · subst h; exact frozen_of_init N P s _ iz hconv
    · subst h; exact frozen_of_step N P s iz c₀ hconv
  obtain ⟨h1, h2, h3⟩ := iterCol_frozen hN P hs s iz c hf k
  exact ⟨h1, h2, h3.1⟩

/-- **A-norm error never increases, step by step** (`A` symmetric linear, `A x* = b̂`): a regular step
(column not frozen, `pᵀAp ≥ eps > 0`) keeps the invariant (`r = b̂ − A x`, `pᵀr = rᵀz`), makes the new
residual orthogonal to the old direction, and lowers `‖x* − x‖²_A` by exactly `(rᵀz)²/pᵀAp ≥ 0`. -/
theorem cg_Anorm_step {N : NumOps α} (hN : Lawful N) (P : Params α) (he : 0 < P.eps) {n : Nat} {s : Sys α n}
    (hA : LinSym s.amul) (xs b : Vec α n) (hxs : s.amul xs = b) (iz : Bool) (c : Col α n)
    (hc : c.conv = false) (hp : ¬ dot c.p (s.amul c.p) < P.eps) (hI : Inv s b c) :
    Inv s b (colStep N P s iz c) ∧ dot c.p (colStep N P s iz c).r = 0 ∧
      errA s xs (colStep N P s iz c).x = errA s xs c.x - c.rz ^ 2 / dot c.p (s.amul c.p) ∧
      errA s xs (colStep N P s iz c).x ≤ errA s xs c.x := by
  obtain ⟨h1, h2, h3⟩ := colStep_regular hN P he hA xs b hxs iz c hc hp hI
  refine ⟨h1, h2, h3, ?_⟩
  rw [h3]
  have hpos : 0 < dot c.p (s.amul c.p) := lt_of_lt_of_le he (not_lt.mp hp)
  have : 0 ≤ c.rz ^ 2 / dot c.p (s.amul c.p) := div_nonneg (sq_nonneg _) hpos.le
  linarith

/-- **A-norm error is non-increasing in the iteration budget**: if the first `k` iterations of a column
are regular steps or the column is frozen (`has_converged`) — i.e. no step hit the `pᵀAp < eps` safe
division, the accuracy floor of the property statement — then `‖x* − x_{j+1}‖_A ≤ ‖x* − x_j‖_A` for all
`j < k`, for every `n`, every preconditioner closure, either kernel.
(Steps with `pᵀAp < eps` leave `x` unchanged too, but break `pᵀr = rᵀz` for the steps after them.) -/
theorem cg_Anorm_monotone {N : NumOps α} (hN : Lawful N) (P : Params α) (he : 0 < P.eps) (hs : 0 < P.stopAfter)
    {n : Nat} {s : Sys α n} (hA : LinSym s.amul) (xs : Vec α n) (hxs : s.amul xs = (prep N P s).b) (k : Nat)
    (hreg : ∀ j < k, let c := iterCol N P s (prep N P s).isZero j (initCol N P s (prep N P s))
      c.conv = true ∨ ¬ dot c.p (s.amul c.p) < P.eps) :
    ∀ j < k, errA s xs (iterCol N P s (prep N P s).isZero (j + 1) (initCol N P s (prep N P s))).x
      ≤ errA s xs (iterCol N P s (prep N P s).isZero j (initCol N P s (prep N P s))).x := by
  set iz := (prep N P s).isZero
  set c0 := initCol N P s (prep N P s)
  -- invariant: either the column is frozen or `Inv` holds
  have key : ∀ j ≤ k, Frozen N P iz (iterCol N P s iz j c0) ∨ Inv s (prep N P s).b (iterCol N P s iz j c0) := by
    intro j
    induction j with
    | zero => intro _; right; exact initCol_inv N P s
    | succ j ih =>
      intro hj
      have hjk : j < k := hj
      rcases ih (Nat.le_of_lt hjk) with hf | hi
      · left; exact (colStep_frozen hN P hs s iz _ hf).2.2
      · cases hcv : (iterCol N P s iz j c0).conv
        · rcases hreg j hjk with h | h
          · rw [hcv] at h; cases h
          · right; exact (colStep_regular hN P he hA xs _ hxs iz _ hcv h hi).1
        · left
          have hfj : Frozen N P iz (iterCol N P s iz j c0) := by
            cases j with
            | zero => exact frozen_of_init N P s _ iz hcv
            | succ j' => exact frozen_of_step N P s iz _ hcv
          exact (colStep_frozen hN P hs s iz _ hfj).2.2
  intro j hj
  rcases key j (Nat.le_of_lt hj) with hf | hi
  · have := (colStep_frozen hN P hs s iz _ hf).1
    show errA s xs (colStep N P s iz (iterCol N P s iz j c0)).x ≤ _
    rw [this]
  · cases hcv : (iterCol N P s iz j c0).conv
    · rcases hreg j hj with h | h
      · rw [hcv] at h; cases h
      · exact (cg_Anorm_step hN P he hA xs _ hxs iz _ hcv h hi).2.2.2
    · have hfj : Frozen N P iz (iterCol N P s iz j c0) := by
        cases j with
        | zero => exact frozen_of_init N P s _ iz hcv
        | succ j' => exact frozen_of_step N P s iz _ hcv
      have := (colStep_frozen hN P hs s iz _ hfj).1
      show errA s xs (colStep N P s iz (iterCol N P s iz j c0)).x ≤ _
      rw [this]

/-- **Local orthogonality and conjugacy** (`A` and the preconditioner symmetric): along regular steps with
unmasked `β` (`rᵀz ≥ eps`) consecutive residuals are `M⁻¹`-orthogonal, `r_{k+1}ᵀ z_k = 0`, consecutive
directions are `A`-conjugate, `p_{k+1}ᵀ A p_k = 0`, and the invariant `Inv2` (true residual, `pᵀr = rᵀz`,
`z = M⁻¹r`, `zᵀAp = pᵀAp`) propagates — for every `n`, either kernel.  It holds initially (`initCol_inv2`).
This is the induction step; the all-pairs statement is `cg_invariants` below. -/
theorem cg_orthogonality_partial {N : NumOps α} (hN : Lawful N) (P : Params α) (he : 0 < P.eps) {n : Nat}
    {s : Sys α n} (hA : LinSym s.amul) (hM : ∀ u v, dot u (preF P s v) = dot (preF P s u) v)
    (xs b : Vec α n) (hxs : s.amul xs = b) (iz : Bool) (c : Col α n)
    (hc : c.conv = false) (hp : ¬ dot c.p (s.amul c.p) < P.eps) (hz : ¬ c.rz < P.eps) (hI : Inv2 P s b c) :
    Inv2 P s b (colStep N P s iz c) ∧ dot (colStep N P s iz c).r c.z = 0 ∧
      dot (colStep N P s iz c).p (s.amul c.p) = 0 :=
  colStep_conjugate hN P he hA hM xs b hxs iz c hc hp hz hI

/-- **All-pairs orthogonality and conjugacy** (`cg_invariants` of the design, full): let `traj k` be the loop
state of a column after `k` iterations of `linear_cg`.  If the first `m` iterations are regular steps
(column not frozen, `pᵀAp ≥ eps`, `rᵀz ≥ eps`), `A` is symmetric linear and the preconditioner symmetric, then
for every `k ≤ m` and EVERY earlier `i < k`: `r_kᵀ z_i = 0` (residuals mutually `M⁻¹`-orthogonal) and
`p_kᵀ A p_i = 0` (directions mutually `A`-conjugate), and `Inv2` holds at `k`.  Induction over `k` with the
invariant quantified over all earlier iterations; any `n`, either kernel. -/
theorem cg_invariants {N : NumOps α} (hN : Lawful N) (P : Params α) (he : 0 < P.eps) {n : Nat}
    {s : Sys α n} (hA : LinSym s.amul) (hM : ∀ u v, dot u (preF P s v) = dot (preF P s u) v)
    (xs : Vec α n) (hxs : s.amul xs = (prep N P s).b) (m : Nat)
    (hreg : ∀ j < m, Regular P s (traj N P s j)) :
    ∀ k ≤ m, Inv2 P s (prep N P s).b (traj N P s k) ∧
      ∀ i < k, dot (traj N P s k).r (traj N P s i).z = 0 ∧
               dot (traj N P s k).p (s.amul (traj N P s i).p) = 0 :=
  full_orthogonality hN P he hA hM xs hxs m hreg

/-- **Exact termination at `n`** (`cg_exact_at_n`): if the first `n` iterations of an `n × n` column are
regular steps, the residual after them is exactly zero, i.e. `A x_n = b̂`; if moreover `A` is injective
(positive definite) `x_n` is the solution.  Consequently every symmetric preconditioner for which the `n`
steps are regular leads to the same `x_n` (`cg_precond_same_limit` in exact arithmetic).  Proof: the `n`
residuals `r_0 … r_{n−1}` have a diagonal, positive Gram matrix against `z_0 … z_{n−1}` (`cg_invariants`), hence
are a basis of the `n`-dimensional space, and `r_n` is orthogonal to all `z_j`. -/
theorem cg_exact_at_n {N : NumOps α} (hN : Lawful N) (P : Params α) (he : 0 < P.eps) {n : Nat}
    {s : Sys α n} (hA : LinSym s.amul) (hM : ∀ u v, dot u (preF P s v) = dot (preF P s u) v)
    (xs : Vec α n) (hxs : s.amul xs = (prep N P s).b)
    (hreg : ∀ j < n, Regular P s (traj N P s j)) :
    (traj N P s n).r = 0 ∧ s.amul (traj N P s n).x = (prep N P s).b ∧
      ((∀ v, s.amul v = 0 → v = 0) → (traj N P s n).x = xs) := by
  have h0 := exact_at_n hN P he hA hM xs hxs hreg
  have hres := cg_residual_invariant N P hA.toLin (prep N P s).isZero n
  have hAx : s.amul (traj N P s n).x = (prep N P s).b := by
    have : (prep N P s).b - s.amul (traj N P s n).x = 0 := by rw [← h0]; exact hres.symm
    exact (sub_eq_zero.mp this).symm
  refine ⟨h0, hAx, fun hinj => ?_⟩
  have : s.amul (xs - (traj N P s n).x) = 0 := by rw [hA.toLin.map_sub, hxs, hAx, sub_self]
  exact (sub_eq_zero.mp (hinj _ this)).symm

/-- **Residuals are mutually orthogonal** (classical CG, unpreconditioned kernel `precond = false`): if the first
`m` iterations of a column are regular steps — the column is not frozen and no safe division fires, i.e. no
breakdown (`pᵀAp ≥ eps > 0`, `rᵀr ≥ eps`) — and `A` is symmetric, then `r_iᵀ r_j = 0` for ALL `i ≠ j`, `i, j ≤ m`
(both orders), for every size `n`. -/
theorem cg_residuals_orthogonal {N : NumOps α} (hN : Lawful N) (P : Params α) (he : 0 < P.eps) (hnp : P.precond = false)
    {n : Nat} {s : Sys α n} (hA : LinSym s.amul) (xs : Vec α n) (hxs : s.amul xs = (prep N P s).b) (m : Nat)
    (hreg : ∀ j < m, Regular P s (traj N P s j)) (i j : Nat) (hi : i ≤ m) (hj : j ≤ m) (hij : i ≠ j) :
    dot (traj N P s i).r (traj N P s j).r = 0 := by
  have h := residuals_M_orthogonal hN P he hA (preF_sym_of_noprecond P s hnp) xs hxs m hreg i j hi hj hij
  rwa [traj_zdef N P s j, preF_id_of_noprecond P s hnp] at h

/-- Preconditioned form: with a symmetric preconditioner the residuals are mutually `M⁻¹`-orthogonal,
`r_iᵀ (M⁻¹ r_j) = 0` for all `i ≠ j ≤ m` (`z_j = M⁻¹ r_j` is the `precond_residual` of the code). -/
theorem cg_residuals_M_orthogonal {N : NumOps α} (hN : Lawful N) (P : Params α) (he : 0 < P.eps) {n : Nat}
    {s : Sys α n} (hA : LinSym s.amul) (hM : ∀ u v, dot u (preF P s v) = dot (preF P s u) v)
    (xs : Vec α n) (hxs : s.amul xs = (prep N P s).b) (m : Nat)
    (hreg : ∀ j < m, Regular P s (traj N P s j)) (i j : Nat) (hi : i ≤ m) (hj : j ≤ m) (hij : i ≠ j) :
    dot (traj N P s i).r (traj N P s j).z = 0 ∧ (traj N P s j).z = preF P s (traj N P s j).r :=
  ⟨residuals_M_orthogonal hN P he hA hM xs hxs m hreg i j hi hj hij, traj_zdef N P s j⟩

/-- **Search directions are mutually A-conjugate**: under the same hypotheses (either kernel, any symmetric
preconditioner) `p_iᵀ A p_j = 0` for ALL `i ≠ j`, `i, j ≤ m`.  Proved together with the orthogonality of the
residuals by the classical simultaneous induction over the steps (`full_orthogonality`). -/
theorem cg_directions_conjugate {N : NumOps α} (hN : Lawful N) (P : Params α) (he : 0 < P.eps) {n : Nat}
    {s : Sys α n} (hA : LinSym s.amul) (hM : ∀ u v, dot u (preF P s v) = dot (preF P s u) v)
    (xs : Vec α n) (hxs : s.amul xs = (prep N P s).b) (m : Nat)
    (hreg : ∀ j < m, Regular P s (traj N P s j)) (i j : Nat) (hi : i ≤ m) (hj : j ≤ m) (hij : i ≠ j) :
    dot (traj N P s i).p (s.amul (traj N P s j).p) = 0 :=
  directions_conjugate hN P he hA hM xs hxs m hreg i j hi hj hij

/-- **Termination within `n` steps**: on an `n × n` column there are never `n + 1` regular steps — once the
first `n` iterations were regular the residual is exactly zero and the next state is not regular (its `rᵀz`
is `0 < eps`, so the code's safe division / freeze takes over and the iterate stays at the solution).
`n + 1` mutually orthogonal non-zero vectors do not fit into dimension `n`. -/
theorem cg_terminates_within_n {N : NumOps α} (hN : Lawful N) (P : Params α) (he : 0 < P.eps) {n : Nat}
    {s : Sys α n} (hA : LinSym s.amul) (hM : ∀ u v, dot u (preF P s v) = dot (preF P s u) v)
    (xs : Vec α n) (hxs : s.amul xs = (prep N P s).b)
    (hreg : ∀ j < n, Regular P s (traj N P s j)) :
    (traj N P s n).r = 0 ∧ ¬ Regular P s (traj N P s n) :=
  ⟨exact_at_n hN P he hA hM xs hxs hreg, not_regular_at_n hN P he hA hM xs hxs hreg⟩

/-- **Krylov optimality** (`cg_optimal`): if the first `m` iterations are regular steps, `A` is symmetric positive
semidefinite (`0 ≤ vᵀAv`) and the preconditioner symmetric and linear, then for every `k ≤ m` the iterate `x_k`
minimises the A-norm of the error over `x_0 + K_k`, where
`K_k = span{ (M⁻¹A)^j (M⁻¹ r_0) : j < k }` is the Krylov space of the preconditioned operator:
`‖x* − x_k‖²_A ≤ ‖x* − (x_0 + u)‖²_A` for every `u ∈ K_k`.  (Proof: `r_k ⟂ p_i` for all `i < k`, so `x_k` is optimal over
`x_k + span{p_0 … p_{k−1}}`; `x_k − x_0` and `K_k` lie in that span because `M⁻¹A p_i = (z_i − z_{i+1})/α_i`.)
In particular the error is no larger than for ANY polynomial method of degree `< k` — the starting point of the
Chebyshev rate. -/
theorem cg_optimal {N : NumOps α} (hN : Lawful N) (P : Params α) (he : 0 < P.eps) {n : Nat}
    {s : Sys α n} (hA : LinSym s.amul) (hpsd : ∀ v, 0 ≤ dot v (s.amul v))
    (hM : ∀ u v, dot u (preF P s v) = dot (preF P s u) v) (hMl : Lin (preF P s))
    (xs : Vec α n) (hxs : s.amul xs = (prep N P s).b) (m : Nat)
    (hreg : ∀ j < m, Regular P s (traj N P s j)) (k : Nat) (hk : k ≤ m) (u : Vec α n)
    (hu : u ∈ Submodule.span α (Set.range fun j : Fin k => (preA P s)^[j] (traj N P s 0).z)) :
    errA s xs (traj N P s k).x ≤ errA s xs ((traj N P s 0).x + u) :=
  krylov_optimal_from_x0 hN P he hA hpsd hM hMl xs hxs m hreg k hk u hu

/-! ### the whole call -/

/-- **No NumericalWarning ⇒ tolerance met**: if `linear_cg` returns without the warning then either no
iteration ran, or the loop left through the tolerance test, i.e. the mean over all columns of the
(masked) relative residual norms it reports is `< tolerance`.  Any scalar type, any closures. -/
theorem cg_no_warning_implies_tol {β : Type} [Add β] [Sub β] [Mul β] [Div β] [Neg β] [Zero β] [One β]
    (N : NumOps β) (P : Params β) {n : Nat} (sys : List (Sys β n)) (o : Out β n)
    (h : linearCg N P sys = .ok o) (hw : o.warn = false) :
    o.iters = 0 ∨ N.lt (mean o.rns) P.tol = true := by
  rw [linearCg_ok N P sys o h] at hw ⊢
  exact linearCgCore_no_warning N P sys hw

/-- **The whole call is column-wise CG**: every column of the solution returned by `linear_cg` (any number
of columns and batch members, any coupling through the mean-residual stopping rule, the tridiagonal
bookkeeping and the switch-off) is the `iters`-th iterate of that column's own recurrence `iterCol`,
multiplied by its `rhs_norm` — so the per-column theorems above and below are statements about the
values `linear_cg` returns. -/
theorem cg_columns (N : NumOps α) (P : Params α) {n : Nat} (sys : List (Sys α n)) (o : Out α n)
    (h : linearCg N P sys = .ok o) :
    o.x = sys.map fun s => fun i =>
      (iterCol N P s (prep N P s).isZero o.iters (initCol N P s (prep N P s))).x i * (prep N P s).nrm := by
  rw [linearCg_ok N P sys o h]
  exact linearCgCore_x N P sys

/-- Whole-call form of `cg_zero_rhs`: in the value returned by `linear_cg`, the `j`-th column is exactly
zero whenever that column's right-hand side and initial guess are zero — whatever the other columns,
the budget, the tolerance and the preconditioner (linear) are. -/
theorem cg_call_zero_rhs {N : NumOps α} (hN : Lawful N) (P : Params α) (he : 0 < P.eps) {n : Nat}
    (sys : List (Sys α n)) (o : Out α n) (h : linearCg N P sys = .ok o) (j : Nat) (s : Sys α n)
    (hj : sys[j]? = some s) (hA : Lin s.amul) (hM : s.pre 0 = 0) (hr : s.rhs = 0) (hx : s.x0 = 0) :
    o.x[j]? = some (0 : Vec α n) := by
  rw [cg_columns N P sys o h, List.getElem?_map, hj]
  simp only [Option.map_some]
  exact congrArg some (cg_zero_rhs hN P he hA hM hr hx o.iters)

/-- Whole-call form of `cg_frozen_fixed`/`cg_residual_invariant`: the residual the loop holds for column `s`
when the call returns is the true residual `b̂ − A x̂` of the normalised system. -/
theorem cg_call_residual (N : NumOps α) (P : Params α) {n : Nat} (sys : List (Sys α n)) (o : Out α n)
    (_h : linearCg N P sys = .ok o) (s : Sys α n) (_hs : s ∈ sys) (hA : Lin s.amul) :
    (iterCol N P s (prep N P s).isZero o.iters (initCol N P s (prep N P s))).r
      = (prep N P s).b - s.amul (iterCol N P s (prep N P s).isZero o.iters (initCol N P s (prep N P s))).x :=
  cg_residual_invariant N P hA _ _

/-- **Inconsistent limits and NaNs raise** instead of returning: `max_tridiag_iter > max_iter` is the
first exit; otherwise a NaN anywhere in the first residual `b̂ − A x̂₀` is the second. -/
theorem cg_raises {β : Type} [Add β] [Sub β] [Mul β] [Div β] [Neg β] [Zero β] [One β]
    (N : NumOps β) (P : Params β) {n : Nat} (sys : List (Sys β n)) :
    (P.maxTridiagIter > P.maxIter → linearCg N P sys = .error .tridiagLimit) ∧
    (¬ P.maxTridiagIter > P.maxIter → ∀ s ∈ sys, vecHasNan N (prep N P s).r0 = true →
      linearCg N P sys = .error .nan) :=
  ⟨linearCg_limit N P sys, fun h s hs hn => linearCg_nan N P sys h s hs hn⟩

/-- Conversely, with consistent limits and NaN-free arithmetic the call returns. -/
theorem cg_returns {N : NumOps α} (hN : Lawful N) (P : Params α) {n : Nat} (sys : List (Sys α n))
    (h : ¬ P.maxTridiagIter > P.maxIter) : linearCg N P sys = .ok (linearCgCore N P sys) := by
  have : (sys.map fun s => prep N P s).any (fun q => vecHasNan N q.r0) = false := by
    simp [List.any_eq_false, vecHasNan, hN.no_nan]
  simp [linearCg, h, this]

/-! ### tridiagonal matrices -/

/-- **Entries of the tridiagonal matrix**: two consecutive tridiagonal updates (iterations `k`, `k+1`,
column states `c₁`, `c₂` after their kernels) write `T[k+1,k+1] = 1/α_{k+1} + β_k/α_k` and
`T[k+1,k] = T[k,k+1] = √β_k/α_k` (for non-zero step lengths); the first writes `T[0,0] = 1/α₀`. -/
theorem cg_tridiag_entries {N : NumOps α} (hN : Lawful N) {n : Nat} (k : Nat) (c1 c2 : Col α n) (t0 : Tri α)
    (h1 : c1.alpha ≠ 0) (h2 : c2.alpha ≠ 0) :
    let T := (triStep N (k + 1) c2 (triStep N k c1 t0)).t
    T (k + 1) (k + 1) = 1 / c2.alpha + c1.beta / c1.alpha ∧
    T (k + 1) k = N.sqrt c1.beta / c1.alpha ∧ T k (k + 1) = N.sqrt c1.beta / c1.alpha ∧
    (triStep N 0 c1 t0).t 0 0 = 1 / c1.alpha := by
  obtain ⟨e1, e2, e3⟩ := triStep_entries N k c1 c2 t0
  refine ⟨?_, ?_, ?_, ?_⟩
  · rw [e1, alphaRecip_eq hN _ h1, alphaRecip_eq hN _ h2]; ring
  · rw [e2, alphaRecip_eq hN _ h1]; ring
  · rw [e3, alphaRecip_eq hN _ h1]; ring
  · rw [triStep_first, alphaRecip_eq hN _ h1]

/-- **T is symmetric tridiagonal**: each tridiagonal update keeps the matrix symmetric and supported on
the three central diagonals of the leading block (any scalar type, any history of updates at
consecutive indices starting from the zero matrix). -/
theorem cg_tridiag_symmetric {β : Type} [Add β] [Sub β] [Mul β] [Div β] [Neg β] [Zero β] [One β]
    (N : NumOps β) {n : Nat} (cs : Nat → Col β n) (m : Nat) :
    TriOK ((List.range m).foldl (fun t k => triStep N k (cs k) t) (emptyTri : Tri β)).t m := by
  induction m with
  | zero => exact ⟨fun _ _ => rfl, fun _ _ _ => rfl⟩
  | succ m ih =>
    rw [List.range_succ, List.foldl_append]
    exact triStep_ok N m (cs m) _ ih

/-- **The final iteration's tridiagonal entries are written** (code after `fix:` be05109, tridiagonal block
before the tolerance exit): on the 1×1 system `2·x = 1` with `max_iter = max_tridiag_iter = 1`, tolerance
`1e-3` (met in the only iteration) the model — like the code now — runs one iteration, does not warn, returns
`x = 1/2` and the 1×1 tridiagonal matrix `[[2]]`, the Lanczos matrix.  No `max_iter > 1` restriction is
needed by `cg_tridiag_entries` / `cg_tridiag_symmetric`: they are statements about every executed update. -/
theorem cg_tridiag_one_iter :
    Known.summary = (1, 1, false, [2], [1 / 2]) := by
  decide +kernel

/-- **About the PREVIOUS code only** (before be05109; `Known.iterateBreakFirst` is that loop, tolerance exit
first): on the same system it left `last_tridiag_iter = 0` with `T[0,0] = 0` untouched — the returned matrix
was `[[0]]`, Ritz value 0 outside the spectrum `{2}` — whereas the current loop writes `T[0,0] = 2`.
Kept as the machine-checked record of the fixed finding; moving the `break` back re-creates it (and breaks
`generated_structure` and the `C08/tridiag-empty/maxit=1` implementation cell). -/
theorem previous_code_tridiag_one_iter_counterexample :
    Known.loopSummary (Known.iterateBreakFirst Known.ratOps Known.params1 Known.sysz1 1) = (1, true, 0, [0]) ∧
    Known.loopSummary (iterate Known.ratOps Known.params1 Known.sysz1 1) = (1, true, 0, [2]) := by
  decide +kernel

/-- Three-term relation (per-step ingredient of `cg_tridiag_eq_lanczos` below, kept as an obligation): for consecutive
iterations with non-zero step lengths, `A z₁ = −(1/α₁) r₂ + (1/α₁ + β₀/α₀) r₁ − (β₀/α₀) r₀`, whose middle coefficient is the
diagonal entry written by the code (`cg_tridiag_entries`) and whose outer coefficients multiply to the square `β₀/α₀²` of its
off-diagonal entry — `T` is the matrix of `A M⁻¹` in the residual basis.  Any linear closure, no regularity assumption. -/
theorem cg_tridiag_eq_lanczos_partial (N : NumOps α) (P : Params α) {n : Nat} {s : Sys α n} (hA : Lin s.amul)
    (iz : Bool) (c0 : Col α n)
    (h0 : (colStep N P s iz c0).alpha ≠ 0) (h1 : (colStep N P s iz (colStep N P s iz c0)).alpha ≠ 0) :
    let c1 := colStep N P s iz c0
    let c2 := colStep N P s iz c1
    s.amul c1.z = (-(1 / c2.alpha)) • c2.r + (1 / c2.alpha + c1.beta / c1.alpha) • c1.r
        - (c1.beta / c1.alpha) • c0.r :=
  three_term N P hA iz c0 h0 h1

/-- **Closed form of the accumulated tridiagonal matrix**, any history: after `m` consecutive tridiagonal updates
(`triFold`: iterations `0 … m−1` of the `update_tridiag` block, `cs k` the column state after the kernel of iteration `k`,
starting from the zero `t_mat`) EVERY entry of `t_mat` is the one of
`lanczosT`: `T[0,0] = 1/α₀`, `T[k,k] = 1/α_k + β_{k−1}/α_{k−1}`, `T[k+1,k] = T[k,k+1] = √β_k/α_k` for indices `< m`, zero elsewhere
(`1/α` is the code's masked reciprocal `alphaRecip`).  Later updates never overwrite earlier entries. -/
theorem cg_tridiag_closed_form (N : NumOps α) {n : Nat} (cs : Nat → Col α n) (m : Nat) (i j : Nat) :
    (triFold N cs m).t i j = if i < m ∧ j < m then lanczosT N cs i j else 0 :=
  (triFold_closed N cs m).1 i j

/-- **`QᵀBQ = T`: the tridiagonal matrix is the Lanczos matrix of the preconditioned operator** (`cg_tridiag_eq_lanczos`,
FULL matrix identity, every size `n`, every number `m` of regular steps, either kernel, any ordered field with lawful `sqrt`).
Let `r_k, z_k = M⁻¹ r_k` be the residual / preconditioned residual after `k` iterations and
`q̂_k = (−1)^k r_k/√(r_kᵀz_k)`, `ẑ_k = (−1)^k z_k/√(r_kᵀz_k) = M⁻¹ q̂_k`.  If the first `m` iterations are regular steps, `A` is
symmetric and the preconditioner symmetric linear, then for ALL `i, j < m`:
* `q̂_iᵀ ẑ_j = δ_ij`  (with `Q = M⁻¹ᐟ² Q̂ = M¹ᐟ² Ẑ`: `QᵀQ = I`; `q̂_0 = r_0/‖r_0‖_{M⁻¹}` is the normalised start vector), and
* `ẑ_iᵀ A ẑ_j = t_mat[i, j]`  (`= Qᵀ (M⁻¹ᐟ² A M⁻¹ᐟ²) Q`), where `t_mat` is what the `m` tridiagonal updates of the loop wrote
  (`triFold` over the column's own trajectory) — diagonal, sub- and super-diagonal and the zeros outside the band.
Proof: `z_k = p_k − β_{k−1} p_{k−1}`, all-pairs conjugacy `p_iᵀAp_j = δ_ij·rz_i/α_i` and `M⁻¹`-orthogonality of the residuals
(`cg_invariants`), then normalisation (`rz_{k+1} = β_k rz_k`, `√(ab) = √a√b`). -/
theorem cg_tridiag_eq_lanczos {N : NumOps α} (hN : Lawful N) (P : Params α) (he : 0 < P.eps) {n : Nat}
    {s : Sys α n} (hA : LinSym s.amul) (hM : ∀ u v, dot u (preF P s v) = dot (preF P s u) v) (hMl : Lin (preF P s))
    (xs : Vec α n) (hxs : s.amul xs = (prep N P s).b) (m : Nat)
    (hreg : ∀ j < m, Regular P s (traj N P s j)) (i j : Nat) (hi : i < m) (hj : j < m) :
    dot (qhat N P s i) (zhat N P s j) = (if i = j then 1 else 0) ∧
    dot (zhat N P s i) (s.amul (zhat N P s j)) = (triFold N (fun k => traj N P s (k + 1)) m).t i j ∧
    zhat N P s j = preF P s (qhat N P s j) := by
  refine ⟨qhat_zhat hN P he hA hM xs hxs m hreg i j hi hj, ?_, ?_⟩
  · rw [(triFold_closed N _ m).1 i j, if_pos ⟨hi, hj⟩]
    exact zhat_gram hN P he hA hM xs hxs m hreg i j hi hj
  · unfold zhat qhat
    rw [hMl.smul, ← traj_zdef]

/-- **Ritz values inside the spectrum** (`ritz_in_spectrum`, numerical-range form, FULL; any ordered field, either kernel):
along `m` regular steps, for EVERY coefficient vector `c`,
`lmin · cᵀc ≤ cᵀ T c ≤ lmax · cᵀc`, where `T` is the `m × m` matrix the tridiagonal updates built and `lmin`, `lmax` are
Rayleigh-quotient bounds of the preconditioned operator `M⁻¹ᐟ²AM⁻¹ᐟ²` written with the closures
(`lmin·yᵀM⁻¹y ≤ (M⁻¹y)ᵀA(M⁻¹y) ≤ lmax·yᵀM⁻¹y`; without preconditioner `lmin‖y‖² ≤ yᵀAy ≤ lmax‖y‖²`).  Hence every eigenvalue
of `T` (Ritz value: take `c` an eigenvector) lies in `[lmin, lmax]`; in particular `T` is positive definite and `log`/`1/t`
quadrature on it is well defined.  Proof: `cᵀc = yᵀM⁻¹y`, `cᵀTc = (M⁻¹y)ᵀA(M⁻¹y)` for `y = Σ c_i q̂_i` by
`cg_tridiag_eq_lanczos`. -/
theorem cg_ritz_in_spectrum {N : NumOps α} (hN : Lawful N) (P : Params α) (he : 0 < P.eps) {n : Nat}
    {s : Sys α n} (hA : LinSym s.amul) (hM : ∀ u v, dot u (preF P s v) = dot (preF P s u) v) (hMl : Lin (preF P s))
    (xs : Vec α n) (hxs : s.amul xs = (prep N P s).b) (m : Nat)
    (hreg : ∀ j < m, Regular P s (traj N P s j)) (lmin lmax : α)
    (hlo : ∀ y, lmin * dot y (preF P s y) ≤ dot (preF P s y) (s.amul (preF P s y)))
    (hhi : ∀ y, dot (preF P s y) (s.amul (preF P s y)) ≤ lmax * dot y (preF P s y)) (c : Nat → α) :
    lmin * ∑ i ∈ Finset.range m, c i * c i
      ≤ ∑ i ∈ Finset.range m, ∑ j ∈ Finset.range m, c i * (triFold N (fun k => traj N P s (k + 1)) m).t i j * c j ∧
    ∑ i ∈ Finset.range m, ∑ j ∈ Finset.range m, c i * (triFold N (fun k => traj N P s (k + 1)) m).t i j * c j
      ≤ lmax * ∑ i ∈ Finset.range m, c i * c i :=
  ritz_in_spectrum hN P he hA hM hMl xs hxs m hreg lmin lmax hlo hhi c

/-- **Ritz values inside the spectrum, eigenvalue form** (over ℝ): under the hypotheses of `cg_ritz_in_spectrum`, EVERY
eigenvalue of the returned-size block of `T` — Mathlib's `Matrix.IsHermitian.eigenvalues` of the symmetric `m × m` matrix
`(triFold …).t` (`eigVal` of its closure `blockMul`) — lies in `[lmin, lmax]`, the spectral interval of the (preconditioned)
operator.  This is the clause "Ritz values inside the spectrum" of the property statement, for every `m`, `n`, either kernel. -/
theorem cg_ritz_eigenvalues {N : NumOps ℝ} (hN : Lawful N) (P : Params ℝ) (he : 0 < P.eps) {n : Nat}
    {s : Sys ℝ n} (hA : LinSym s.amul) (hM : ∀ u v, dot u (preF P s v) = dot (preF P s u) v) (hMl : Lin (preF P s))
    (xs : Vec ℝ n) (hxs : s.amul xs = (prep N P s).b) (m : Nat)
    (hreg : ∀ j < m, Regular P s (traj N P s j)) (lmin lmax : ℝ)
    (hlo : ∀ y, lmin * dot y (preF P s y) ≤ dot (preF P s y) (s.amul (preF P s y)))
    (hhi : ∀ y, dot (preF P s y) (s.amul (preF P s y)) ≤ lmax * dot y (preF P s y)) (i : Fin m) :
    lmin ≤ (matOf_hermitian (blockMul_linSym m _ (triFold_symm N (fun k => traj N P s (k + 1)) m))).eigenvalues i ∧
    (matOf_hermitian (blockMul_linSym m _ (triFold_symm N (fun k => traj N P s (k + 1)) m))).eigenvalues i ≤ lmax :=
  ritz_eigenvalues hN P he hA hM hMl xs hxs m hreg lmin lmax hlo hhi i

/-- **Whole-call form: the returned `t_mat`s are the columns' own Lanczos recurrences.**  For every call that returns
(any number of columns / batch members, any coupling through the stopping rule and the `< 1e-6` switch-off, any budget)
there is a number `K ≤ iterations run`, `K ≤ min(max_tridiag_iter, n)` — the number of iterations during which the
tridiagonal block was active — such that the list of returned tridiagonal matrices is, for the tridiagonal columns in order,
`triFold` over THAT column's own trajectory `traj` (the same trajectory whose `iters`-th iterate is the returned solution,
`cg_columns`), `K` updates; and for `K > 0` the returned size `last_tridiag_iter + 1` (clipped to `n_tridiag_iter`) is `K`.
Hence `cg_tridiag_closed_form` and `cg_tridiag_eq_lanczos` (with `m = K` when the first `K` steps of the column are regular)
are statements about the matrices `linear_cg` returns. -/
theorem cg_call_tridiag (N : NumOps α) (P : Params α) {n : Nat} (sys : List (Sys α n)) (o : Out α n)
    (h : linearCg N P sys = .ok o) :
    ∃ K, K ≤ o.iters ∧ K ≤ min P.maxTridiagIter n ∧
      o.t = ((sys.filter fun s => s.tri).map fun s => (triFold N (fun q => traj N P s (q + 1)) K).t) ∧
      (0 < K → P.nTridiag ≠ 0 → o.tSize = K) := by
  rw [linearCg_ok N P sys o h]
  exact linearCgCore_t N P sys

/-! ### convergence rate -/

/-- **Polynomial (minimax) form of Krylov optimality** — either kernel, any symmetric linear preconditioner, any
ordered field: let `E` be an eigenbasis of the preconditioned operator `M⁻¹A` that is orthogonal for the `A`-inner
product (`M⁻¹A v_i = λ_i v_i`, `v_iᵀ A v_j = g_i δ_ij`, every vector a combination of the `v_i`; for `M = I` an orthonormal
eigenbasis of `A`).  If the first `j` iterations are regular steps then for EVERY polynomial `p` with `p(0) = 1` and
degree `≤ j`:  `‖x* − x_j‖²_A ≤ max_i p(λ_i)² · ‖x* − x_0‖²_A`  (`B` is any bound of `p(λ_i)²` on the spectrum).
Proof: `x_0 + q(M⁻¹A) M⁻¹ r_0` with `q = (1 − p)/X` lies in `x_0 + K_j`, its error is `p(M⁻¹A) e_0`, expand in the
eigenbasis, then `cg_optimal`. -/
theorem cg_minimax {N : NumOps α} (hN : Lawful N) (P : Params α) (he : 0 < P.eps) {n : Nat}
    {s : Sys α n} (hA : LinSym s.amul) (hpsd : ∀ v, 0 ≤ dot v (s.amul v))
    (hM : ∀ u v, dot u (preF P s v) = dot (preF P s u) v) (hMl : Lin (preF P s))
    (xs : Vec α n) (hxs : s.amul xs = (prep N P s).b) (j : Nat)
    (hreg : ∀ i < j, Regular P s (traj N P s i))
    {ι : Type} [Fintype ι] [DecidableEq ι] (E : AEig ι P s)
    (p : Polynomial α) (hp0 : p.eval 0 = 1) (hpd : p.natDegree ≤ j) (B : α)
    (hB : ∀ i, (p.eval (E.lam i)) ^ 2 ≤ B) :
    errA s xs (traj N P s j).x ≤ B * errA s xs (traj N P s 0).x :=
  minimax_p hN P he hA hpsd hM hMl xs hxs j hreg E p hp0 hpd B hB

/-- **Minimax bound over ℝ, spectral theorem discharged** (unpreconditioned kernel): for `A` symmetric with
`lmin·I ≤ A ≤ lmax·I` (Rayleigh-quotient form, `0 < lmin`) and EVERY real polynomial `p` with `p(0) = 1`, degree `≤ j`:
`‖x* − x_j‖²_A ≤ max_{t ∈ [lmin, lmax]} p(t)² · ‖x* − x_0‖²_A`.  The eigenbasis is Mathlib's
(`Matrix.IsHermitian.eigenvectorUnitary` of the matrix of the closure), its eigenvalues lie in `[lmin, lmax]`. -/
theorem cg_minimax_real {N : NumOps ℝ} (hN : Lawful N) (P : Params ℝ) (he : 0 < P.eps) (hnp : P.precond = false)
    {n : Nat} {s : Sys ℝ n} (hA : LinSym s.amul) (lmin lmax : ℝ) (hpos : 0 < lmin)
    (hlo : ∀ v, lmin * dot v v ≤ dot v (s.amul v)) (hhi : ∀ v, dot v (s.amul v) ≤ lmax * dot v v)
    (xs : Vec ℝ n) (hxs : s.amul xs = (prep N P s).b) (j : Nat)
    (hreg : ∀ i < j, Regular P s (traj N P s i))
    (p : Polynomial ℝ) (hp0 : p.eval 0 = 1) (hpd : p.natDegree ≤ j) (B : ℝ)
    (hB : ∀ t, lmin ≤ t → t ≤ lmax → (p.eval t) ^ 2 ≤ B) :
    errA s xs (traj N P s j).x ≤ B * errA s xs (traj N P s 0).x :=
  rate_of_poly hN P he hnp hA lmin lmax hpos hlo hhi xs hxs j hreg p hp0 hpd B hB

/-- **The classical Chebyshev rate** (`cg_chebyshev_rate`, unpreconditioned kernel, over ℝ, FULL): let `A` be symmetric
with `lmin·‖v‖² ≤ vᵀAv ≤ lmax·‖v‖²`, `0 < lmin ≤ lmax`, `κ = lmax/lmin`, `A x* = b̂`.  If the first `j` iterations of the
column are regular steps (not frozen, `pᵀAp ≥ eps`, `rᵀr ≥ eps` — i.e. above the safe-division floors of the statement) then
`‖x* − x_j‖_A ≤ 2 ((√κ − 1)/(√κ + 1))^j ‖x* − x_0‖_A`   (`rho lmin lmax = (√κ−1)/(√κ+1)`, `errA` is the squared A-norm),
for every size `n` and every `j`.  With the default zero initial guess `x_0 = 0` this is the bound of the property
statement.  Ingredients: `cg_optimal`, the spectral theorem (Mathlib), and the shifted/scaled Chebyshev polynomial
`T_j((lmax+lmin−2t)/(lmax−lmin)) / T_j((lmax+lmin)/(lmax−lmin))` with Mathlib's `|T_j| ≤ 1` on `[−1,1]` and
`T_j((y+y⁻¹)/2) = (y^j+y^{−j})/2`. -/
theorem cg_chebyshev_rate {N : NumOps ℝ} (hN : Lawful N) (P : Params ℝ) (he : 0 < P.eps) (hnp : P.precond = false)
    {n : Nat} {s : Sys ℝ n} (hA : LinSym s.amul) (lmin lmax : ℝ) (hpos : 0 < lmin) (hle : lmin ≤ lmax)
    (hlo : ∀ v, lmin * dot v v ≤ dot v (s.amul v)) (hhi : ∀ v, dot v (s.amul v) ≤ lmax * dot v v)
    (xs : Vec ℝ n) (hxs : s.amul xs = (prep N P s).b) (j : Nat)
    (hreg : ∀ i < j, Regular P s (traj N P s i)) :
    Real.sqrt (errA s xs (traj N P s j).x)
        ≤ 2 * ((Real.sqrt (lmax / lmin) - 1) / (Real.sqrt (lmax / lmin) + 1)) ^ j
            * Real.sqrt (errA s xs (traj N P s 0).x) ∧
    errA s xs (traj N P s j).x
        ≤ (2 * ((Real.sqrt (lmax / lmin) - 1) / (Real.sqrt (lmax / lmin) + 1)) ^ j) ^ 2
            * errA s xs (traj N P s 0).x :=
  ⟨chebyshev_rate_norm hN P he hnp hA lmin lmax hpos hle hlo hhi xs hxs j hreg,
   chebyshev_rate_sq hN P he hnp hA lmin lmax hpos hle hlo hhi xs hxs j hreg⟩

/-- **The Chebyshev rate for the preconditioned kernel** (`preconditioner is not None`, over ℝ, FULL): let `A` be symmetric
positive semidefinite, the preconditioner closure `W = M⁻¹` symmetric positive definite, and `lmin`, `lmax` bounds of the
spectrum of `M⁻¹ᐟ² A M⁻¹ᐟ²` in Rayleigh-quotient form written with the closures only,
`lmin · yᵀWy ≤ (Wy)ᵀ A (Wy) ≤ lmax · yᵀWy` (substitute `z = W¹ᐟ² y`), `0 < lmin ≤ lmax`, `κ = lmax/lmin`.  Along `j` regular steps
`‖x* − x_j‖_A ≤ 2 ((√κ − 1)/(√κ + 1))^j ‖x* − x_0‖_A` — any SPD preconditioner changes only `κ`, i.e. the speed.
The `A`-orthogonal eigenbasis of `M⁻¹A` is constructed from two uses of the spectral theorem
(`W = Σ μ_k u_k u_kᵀ`, `S = W¹ᐟ²`, `S A S = Σ λ_i y_i y_iᵀ`, `v_i = S y_i`). -/
theorem cg_chebyshev_rate_precond {N : NumOps ℝ} (hN : Lawful N) (P : Params ℝ) (he : 0 < P.eps)
    (hp : P.precond = true) {n : Nat} {s : Sys ℝ n} (hA : LinSym s.amul) (hpsd : ∀ v, 0 ≤ dot v (s.amul v))
    (hW : LinSym s.pre) (hWpd : ∀ v, v ≠ 0 → 0 < dot v (s.pre v))
    (lmin lmax : ℝ) (hpos : 0 < lmin) (hle : lmin ≤ lmax)
    (hlo : ∀ y, lmin * dot y (s.pre y) ≤ dot (s.pre y) (s.amul (s.pre y)))
    (hhi : ∀ y, dot (s.pre y) (s.amul (s.pre y)) ≤ lmax * dot y (s.pre y))
    (xs : Vec ℝ n) (hxs : s.amul xs = (prep N P s).b) (j : Nat)
    (hreg : ∀ i < j, Regular P s (traj N P s i)) :
    Real.sqrt (errA s xs (traj N P s j).x)
        ≤ 2 * ((Real.sqrt (lmax / lmin) - 1) / (Real.sqrt (lmax / lmin) + 1)) ^ j
            * Real.sqrt (errA s xs (traj N P s 0).x) ∧
    errA s xs (traj N P s j).x
        ≤ (2 * ((Real.sqrt (lmax / lmin) - 1) / (Real.sqrt (lmax / lmin) + 1)) ^ j) ^ 2
            * errA s xs (traj N P s 0).x :=
  chebyshev_rate_pre hN P he hp hA hpsd hW hWpd lmin lmax hpos hle hlo hhi xs hxs j hreg

/-! ### the hypotheses are satisfiable -/

/-- `Lawful` is inhabited over `ℚ`-like fields on the inputs that occur when no square root is irrational:
here the trivial instance on any field where `sqrt` is only needed at perfect squares is not available in
general, so we exhibit the structural hypotheses: the identity closure is linear and symmetric. -/
example {n : Nat} : LinSym (fun v : Vec α n => v) :=
  { add := fun _ _ => rfl, smul := fun _ _ => rfl, sym := fun _ _ => rfl }

/-- a diagonal closure `v ↦ d ∘ v` is linear and symmetric -/
example {n : Nat} (d : Vec α n) : LinSym (fun v : Vec α n => fun i => d i * v i) :=
  { add := fun u v => by funext i; simp [mul_add]
    smul := fun c u => by funext i; simp [mul_left_comm]
    sym := fun u v => by simp [dot_eq, mul_left_comm, mul_comm] }

/-- The scalar hypotheses are satisfiable: ℝ with `Real.sqrt` is `Lawful`. -/
example : Lawful realOps := realOps_lawful

/-- The trajectory hypotheses are satisfiable by a non-trivial instance: for the system `2·x = 1` over ℝ with the
default thresholds the first step is regular, so `cg_exact_at_n` applies with `n = 1` and yields the solution
`x₁ = 1/2` exactly (un-normalised: `rhs_norm = 1`). -/
example : (traj realOps realParams realSys 1).x = fun _ => (1 / 2 : ℝ) := by
  have hreg : ∀ j < 1, Regular realParams realSys (traj realOps realParams realSys j) := by
    intro j hj
    have : j = 0 := by omega
    subst this; exact realSys_regular
  have hb : realSys.amul (fun _ => (1 / 2 : ℝ)) = (prep realOps realParams realSys).b := by
    funext i; simp [realSys, prep, realParams, realOps, norm2, dot_eq]
  have hinj : ∀ v, realSys.amul v = 0 → v = 0 := by
    intro v hv; funext i
    have := congrFun hv i
    simpa [realSys] using this
  exact (cg_exact_at_n realOps_lawful realParams (by norm_num [realParams]) realSys_linSym
    (preF_sym_of_noprecond realParams realSys rfl) _ hb hreg).2.2 hinj

/-- The hypotheses of `cg_chebyshev_rate` are satisfiable with `lmin < lmax` (`κ = 3/2`, the Chebyshev branch) by a
regular trajectory: the system `2·x = 1` over ℝ with the default thresholds, `2·‖v‖² ≤ vᵀAv ≤ 3·‖v‖²`, one regular step. -/
example : errA realSys (fun _ => (1 / 2 : ℝ)) (traj realOps realParams realSys 1).x
    ≤ (2 * ((Real.sqrt (3 / 2) - 1) / (Real.sqrt (3 / 2) + 1)) ^ 1) ^ 2
        * errA realSys (fun _ => (1 / 2 : ℝ)) (traj realOps realParams realSys 0).x := by
  have hreg : ∀ j < 1, Regular realParams realSys (traj realOps realParams realSys j) := by
    intro j hj
    have : j = 0 := by omega
    subst this; exact realSys_regular
  have hb : realSys.amul (fun _ => (1 / 2 : ℝ)) = (prep realOps realParams realSys).b := by
    funext i; simp [realSys, prep, realParams, realOps, norm2, dot_eq]
  have hAv : ∀ v : Vec ℝ 1, dot v (realSys.amul v) = 2 * dot v v := by
    intro v; simp [realSys, dot_eq]; ring
  have hnn : ∀ v : Vec ℝ 1, 0 ≤ dot v v := dot_self_nonneg
  exact (cg_chebyshev_rate realOps_lawful realParams (by norm_num [realParams]) rfl realSys_linSym 2 3
    (by norm_num) (by norm_num) (fun v => by rw [hAv]) (fun v => by rw [hAv]; linarith [hnn v]) _ hb 1 hreg).2

/-- The hypotheses of `cg_chebyshev_rate_precond` are satisfiable (`κ = 3/2`): the same system with the preconditioned
kernel selected and the identity closure as (symmetric positive definite) preconditioner. -/
example : errA realSys (fun _ => (1 / 2 : ℝ)) (traj realOps realParamsPre realSys 1).x
    ≤ (2 * ((Real.sqrt (3 / 2) - 1) / (Real.sqrt (3 / 2) + 1)) ^ 1) ^ 2
        * errA realSys (fun _ => (1 / 2 : ℝ)) (traj realOps realParamsPre realSys 0).x := by
  have hreg : ∀ j < 1, Regular realParamsPre realSys (traj realOps realParamsPre realSys j) := by
    intro j hj
    have : j = 0 := by omega
    subst this; exact realSys_regular_pre
  have hb : realSys.amul (fun _ => (1 / 2 : ℝ)) = (prep realOps realParamsPre realSys).b := by
    funext i; simp [realSys, prep, realParamsPre, realParams, realOps, norm2, dot_eq]
  have hAv : ∀ v : Vec ℝ 1, dot v (realSys.amul v) = 2 * dot v v := by
    intro v; simp [realSys, dot_eq]; ring
  have hnn : ∀ v : Vec ℝ 1, 0 ≤ dot v v := dot_self_nonneg
  have hW : LinSym realSys.pre :=
    { add := fun _ _ => rfl, smul := fun _ _ => rfl, sym := fun _ _ => rfl }
  have hWpd : ∀ v : Vec ℝ 1, v ≠ 0 → 0 < dot v (realSys.pre v) := by
    intro v hv
    have h0 : v 0 ≠ 0 := fun h => hv (by funext i; rw [Subsingleton.elim i 0, h]; rfl)
    have : dot v (realSys.pre v) = v 0 * v 0 := by simp [realSys, dot_eq]
    rw [this]; exact mul_self_pos.mpr h0
  exact (cg_chebyshev_rate_precond realOps_lawful realParamsPre (by norm_num [realParamsPre, realParams]) rfl
    realSys_linSym (fun v => by rw [hAv]; linarith [hnn v]) hW hWpd 2 3 (by norm_num) (by norm_num)
    (fun y => by show 2 * dot y y ≤ dot y (realSys.amul y); rw [hAv])
    (fun y => by show dot y (realSys.amul y) ≤ 3 * dot y y; rw [hAv]; linarith [hnn y]) _ hb 1 hreg).2

end LinOp.C08
