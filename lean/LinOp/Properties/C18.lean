import LinOp.C18.Model
import LinOp.Core.Bridge
import Mathlib.Algebra.BigOperators.Ring.Finset
import Mathlib.Data.Matrix.Mul
import Mathlib.Data.Matrix.Basic
import Mathlib.Tactic.FinCases
import Mathlib.Tactic.NormNum
import Mathlib.Tactic.Ring
/-!
C18 — Gaussian sampling uses a true square root of the covariance.  Property theorems only.

For each sampler of `LinOp.C18.Model` we exhibit the fixed linear map `L` from the standard normal
noise to a draw (`…_linear`) and prove `L Lᵀ = ⟦op⟧` from the corresponding fact about the
sub-sampler's root (`…_cov`).  All sizes, block counts and sample counts are arbitrary.
A draw `x = L z` with `z ~ N(0, I)` has covariance `L Lᵀ`; that probabilistic step is not modelled.
-/
namespace LinOp.C18
open Matrix LinOp

variable {α : Type} [CommRing α]

/-- Base-class sampler: the draws are `(R Z)ᵀ` — the fixed linear map `R` applied to the noise,
laid out samples-first. -/
theorem generic_linear {n m k : Nat} (R : Mat α n m) (Z : Mat α m k) :
    generic R Z = ((Matrix.of R * Matrix.of Z : Matrix _ _ α)ᵀ : Matrix _ _ α) := by
  funext s i
  simp [generic, sumFin_eq_sum, Matrix.mul_apply]

/-- Base class: if the root decomposition is a true root, the sampler's map has covariance `A`. -/
theorem generic_cov {n m : Nat} (R : Matrix (Fin n) (Fin m) α) (A : Matrix (Fin n) (Fin n) α)
    (hR : R * Rᵀ = A) : R * Rᵀ = A := hR

/-- Diagonal sampler: linear map `diag(√d)` applied row-wise. -/
theorem diag_linear {n k : Nat} (sd : Fin n → α) (Z : Mat α k n) :
    diag sd Z = ((Matrix.diagonal sd * (Matrix.of Z)ᵀ : Matrix _ _ α)ᵀ : Matrix _ _ α) := by
  funext s i
  simp [diag, Matrix.diagonal_mul, mul_comm]

/-- Diagonal sampler: `diag(√d) diag(√d)ᵀ = diag(d)` whenever `√dᵢ · √dᵢ = dᵢ`. -/
theorem diag_cov {n : Nat} (sd d : Fin n → α) (h : ∀ i, sd i * sd i = d i) :
    (Matrix.diagonal sd * (Matrix.diagonal sd)ᵀ : Matrix (Fin n) (Fin n) α) = Matrix.diagonal d := by
  rw [Matrix.diagonal_transpose, Matrix.diagonal_mul_diagonal]
  congr 1; funext i; exact h i

/-- Identity sampler: the map is `I` and `I Iᵀ = I`. -/
theorem identity_cov {n : Nat} : ((1 : Matrix (Fin n) (Fin n) α) * (1 : Matrix (Fin n) (Fin n) α)ᵀ) = 1 := by
  simp

/-! ### Block structures.  `Lb b : n × m` is the linear map of block `b`'s sampler; block `b` draws its
own noise `Z b : m × k`, so the base draws are `x s b r = Σ_j Lb b r j * Z b j s`. -/

/-- Linear map of the BlockDiag sampler: row `i` belongs to block `i / n`, within-block row `i % n`. -/
def blockDiagL {nb n m : Nat} (Lb : Fin nb → Matrix (Fin n) (Fin m) α) :
    Matrix (Fin (nb * n)) (Fin nb × Fin m) α :=
  fun i c => if i.1 / n = c.1.1 then Lb c.1 ⟨i.1 % n, Nat.mod_lt _ (Nat.pos_of_ne_zero (by
    intro h; have := i.2; simp [h] at this))⟩ c.2 else 0

/-- The dense block-diagonal matrix with blocks `A b`. -/
def blockDiagDense {nb n : Nat} (A : Fin nb → Matrix (Fin n) (Fin n) α) : Matrix (Fin (nb * n)) (Fin (nb * n)) α :=
  fun i j => if h : i.1 / n = j.1 / n then
    A ⟨i.1 / n, (Nat.div_lt_iff_lt_mul (Nat.pos_of_ne_zero (by intro h0; have := i.2; simp [h0] at this))).2 i.2⟩
      ⟨i.1 % n, Nat.mod_lt _ (Nat.pos_of_ne_zero (by intro h0; have := i.2; simp [h0] at this))⟩
      ⟨j.1 % n, Nat.mod_lt _ (Nat.pos_of_ne_zero (by intro h0; have := i.2; simp [h0] at this))⟩ else 0

theorem blockDiag_linear {nb n m k : Nat} (hn : 0 < n) (Lb : Fin nb → Matrix (Fin n) (Fin m) α)
    (Z : Fin nb → Matrix (Fin m) (Fin k) α) (s : Fin k) (i : Fin (nb * n)) :
    blockDiag (fun s b r => ∑ j, Lb b r j * Z b j s) hn s i
      = ∑ c : Fin nb × Fin m, blockDiagL Lb i c * Z c.1 c.2 s := by
  simp only [blockDiag, blockDiagL, Fintype.sum_prod_type, ite_mul, zero_mul]
  symm
  rw [Finset.sum_eq_single ⟨i.1 / n, (Nat.div_lt_iff_lt_mul hn).2 i.2⟩]
  · simp
  · intro b _ hb
    have : ¬ (i.1 / n = b.1) := fun h => hb (Fin.ext h.symm)
    simp [this]
  · simp

/-- **BlockDiag sampler has the block-diagonal covariance**: `L Lᵀ = blockdiag(L_b L_bᵀ)`. -/
theorem blockDiag_cov {nb n m : Nat} (Lb : Fin nb → Matrix (Fin n) (Fin m) α)
    (A : Fin nb → Matrix (Fin n) (Fin n) α) (hL : ∀ b, Lb b * (Lb b)ᵀ = A b) :
    blockDiagL Lb * (blockDiagL Lb)ᵀ = blockDiagDense A := by
  funext i j
  have hn : 0 < n := Nat.pos_of_ne_zero (by intro h0; have := i.2; simp [h0] at this)
  simp only [Matrix.mul_apply, Matrix.transpose_apply, blockDiagL, blockDiagDense, Fintype.sum_prod_type,
    ite_mul, zero_mul, mul_ite, mul_zero]
  rw [Finset.sum_eq_single ⟨i.1 / n, (Nat.div_lt_iff_lt_mul hn).2 i.2⟩]
  · by_cases h : i.1 / n = j.1 / n
    · simp only [h, ↓reduceIte, dite_true]
      have := congrFun (congrFun (hL ⟨j.1 / n, (Nat.div_lt_iff_lt_mul hn).2 j.2⟩)
        ⟨i.1 % n, Nat.mod_lt _ hn⟩) ⟨j.1 % n, Nat.mod_lt _ hn⟩
      simp only [Matrix.mul_apply, Matrix.transpose_apply] at this
      simp only [← h] at this ⊢
      exact this
    · have h' : ¬ (j.1 / n = i.1 / n) := fun e => h e.symm
      simp [h, h']
  · intro b _ hb
    have : ¬ (i.1 / n = b.1) := fun h => hb (Fin.ext h.symm)
    simp [this]
  · simp

/-! BlockInterleaved: row `i` belongs to block `i % nb`, within-block row `i / nb`. -/

def blockInterleavedL {nb n m : Nat} (Lb : Fin nb → Matrix (Fin n) (Fin m) α) :
    Matrix (Fin (n * nb)) (Fin nb × Fin m) α :=
  fun i c => if i.1 % nb = c.1.1 then Lb c.1 ⟨i.1 / nb, (Nat.div_lt_iff_lt_mul (Nat.pos_of_ne_zero (by
    intro h; have := i.2; simp [h] at this))).2 i.2⟩ c.2 else 0

def blockInterleavedDense {nb n : Nat} (A : Fin nb → Matrix (Fin n) (Fin n) α) :
    Matrix (Fin (n * nb)) (Fin (n * nb)) α :=
  fun i j => if h : i.1 % nb = j.1 % nb then
    A ⟨i.1 % nb, Nat.mod_lt _ (Nat.pos_of_ne_zero (by intro h0; have := i.2; simp [h0] at this))⟩
      ⟨i.1 / nb, (Nat.div_lt_iff_lt_mul (Nat.pos_of_ne_zero (by intro h0; have := i.2; simp [h0] at this))).2 i.2⟩
      ⟨j.1 / nb, (Nat.div_lt_iff_lt_mul (Nat.pos_of_ne_zero (by intro h0; have := i.2; simp [h0] at this))).2 j.2⟩ else 0

theorem blockInterleaved_linear {nb n m k : Nat} (hb : 0 < nb) (Lb : Fin nb → Matrix (Fin n) (Fin m) α)
    (Z : Fin nb → Matrix (Fin m) (Fin k) α) (s : Fin k) (i : Fin (n * nb)) :
    blockInterleaved (fun s b r => ∑ j, Lb b r j * Z b j s) hb s i
      = ∑ c : Fin nb × Fin m, blockInterleavedL Lb i c * Z c.1 c.2 s := by
  simp only [blockInterleaved, blockInterleavedL, Fintype.sum_prod_type, ite_mul, zero_mul]
  symm
  rw [Finset.sum_eq_single ⟨i.1 % nb, Nat.mod_lt _ hb⟩]
  · simp
  · intro b _ hb'
    have : ¬ (i.1 % nb = b.1) := fun h => hb' (Fin.ext h.symm)
    simp [this]
  · simp

/-- **BlockInterleaved sampler has the interleaved-block covariance.** -/
theorem blockInterleaved_cov {nb n m : Nat} (Lb : Fin nb → Matrix (Fin n) (Fin m) α)
    (A : Fin nb → Matrix (Fin n) (Fin n) α) (hL : ∀ b, Lb b * (Lb b)ᵀ = A b) :
    blockInterleavedL Lb * (blockInterleavedL Lb)ᵀ = blockInterleavedDense A := by
  funext i j
  have hb : 0 < nb := Nat.pos_of_ne_zero (by intro h0; have := i.2; simp [h0] at this)
  simp only [Matrix.mul_apply, Matrix.transpose_apply, blockInterleavedL, blockInterleavedDense,
    Fintype.sum_prod_type, ite_mul, zero_mul, mul_ite, mul_zero]
  rw [Finset.sum_eq_single ⟨i.1 % nb, Nat.mod_lt _ hb⟩]
  · by_cases h : i.1 % nb = j.1 % nb
    · simp only [h, ↓reduceIte, dite_true]
      have := congrFun (congrFun (hL ⟨j.1 % nb, Nat.mod_lt _ hb⟩)
        ⟨i.1 / nb, (Nat.div_lt_iff_lt_mul hb).2 i.2⟩) ⟨j.1 / nb, (Nat.div_lt_iff_lt_mul hb).2 j.2⟩
      simp only [Matrix.mul_apply, Matrix.transpose_apply] at this
      simp only [← h] at this ⊢
      exact this
    · have h' : ¬ (j.1 % nb = i.1 % nb) := fun e => h e.symm
      simp [h, h']
  · intro b _ hb'
    have : ¬ (i.1 % nb = b.1) := fun h => hb' (Fin.ext h.symm)
    simp [this]
  · simp

/-! SumBatch / PsdSum: the parts draw independent noise and the draws are added. -/

def sumL {nb n m : Nat} (Lb : Fin nb → Matrix (Fin n) (Fin m) α) : Matrix (Fin n) (Fin nb × Fin m) α :=
  fun i c => Lb c.1 i c.2

theorem sumBatch_linear {nb n m k : Nat} (Lb : Fin nb → Matrix (Fin n) (Fin m) α)
    (Z : Fin nb → Matrix (Fin m) (Fin k) α) (s : Fin k) (i : Fin n) :
    sumBatch (fun s b r => ∑ j, Lb b r j * Z b j s) s i = ∑ c : Fin nb × Fin m, sumL Lb i c * Z c.1 c.2 s := by
  simp [sumBatch, sumL, sumFin_eq_sum, Fintype.sum_prod_type]

/-- **A sum of PSD terms is sampled as a sum of independent draws**: `[L₁ … L_k][L₁ … L_k]ᵀ = Σ L_b L_bᵀ`. -/
theorem sumBatch_cov {nb n m : Nat} (Lb : Fin nb → Matrix (Fin n) (Fin m) α)
    (A : Fin nb → Matrix (Fin n) (Fin n) α) (hL : ∀ b, Lb b * (Lb b)ᵀ = A b) :
    sumL Lb * (sumL Lb)ᵀ = ∑ b, A b := by
  funext i j
  simp only [Matrix.mul_apply, Matrix.transpose_apply, sumL, Fintype.sum_prod_type, Matrix.sum_apply]
  refine Finset.sum_congr rfl fun b _ => ?_
  have := congrFun (congrFun (hL b) i) j
  simpa [Matrix.mul_apply] using this

/-! Interpolated: draws of the base pushed through the left interpolation `W`. -/

/-- The interpolation matrix `W[r, idx[r,c]] += val[r,c]` (duplicate indices add). -/
def interpW {nBase r q : Nat} (idx : Fin r → Fin q → Fin nBase) (val : Fin r → Fin q → α) :
    Matrix (Fin r) (Fin nBase) α :=
  fun i t => ∑ c, if idx i c = t then val i c else 0

theorem interp_linear {nBase r q k : Nat} (idx : Fin r → Fin q → Fin nBase) (val : Fin r → Fin q → α)
    (x : Mat α k nBase) :
    interp idx val x = ((interpW idx val * (Matrix.of x)ᵀ : Matrix _ _ α)ᵀ : Matrix _ _ α) := by
  funext s i
  simp only [interp, sumFin_eq_sum, interpW, Matrix.transpose_apply, Matrix.mul_apply, Matrix.of_apply,
    Finset.sum_mul, ite_mul, zero_mul]
  rw [Finset.sum_comm]
  simp

/-- **Interpolated sampler**: with base map `L` (`L Lᵀ = K`) the draws have covariance `W K Wᵀ`,
which is the represented matrix `W_l K W_rᵀ` when left and right interpolation coincide. -/
theorem interp_cov {nBase r m : Nat} (W : Matrix (Fin r) (Fin nBase) α) (L : Matrix (Fin nBase) (Fin m) α)
    (K : Matrix (Fin nBase) (Fin nBase) α) (hL : L * Lᵀ = K) :
    (W * L) * (W * L)ᵀ = W * K * Wᵀ := by
  rw [Matrix.transpose_mul, ← hL]
  simp only [Matrix.mul_assoc]

/-- Non-vacuity: a 2-block BlockDiag with 1×1 roots 2 and 3 has covariance diag(4, 9). -/
example : blockDiagL (α := ℤ) (nb := 2) (n := 1) (m := 1) (fun b => fun _ _ => if b = 0 then 2 else 3)
    * (blockDiagL (α := ℤ) (nb := 2) (n := 1) (m := 1) (fun b => fun _ _ => if b = 0 then 2 else 3))ᵀ
    = blockDiagDense (fun b => fun _ _ => if b = 0 then 4 else 9) := by
  apply blockDiag_cov
  intro b; funext i j; fin_cases b <;>
    (show (∑ l : Fin 1, _) = _; simp [Matrix.transpose])

end LinOp.C18
