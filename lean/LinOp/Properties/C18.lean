import LinOp.C18.Model
import LinOp.C18.ProofsCIQ
import LinOp.C18.ModelRoots
import LinOp.C18.ProofsPrecond
import LinOp.Generated.C18Facts
import LinOp.C18.Expected
import LinOp.Core.Bridge
import Mathlib.Algebra.BigOperators.Ring.Finset
import Mathlib.Data.Matrix.Mul
import Mathlib.Data.Matrix.Basic
import Mathlib.Tactic.FinCases
import Mathlib.Tactic.NormNum
import Mathlib.Tactic.Ring
import Mathlib.Logic.Equiv.Fin.Basic
import Mathlib.Algebra.BigOperators.Fin
/-!
C18 — Gaussian sampling uses a true square root of the covariance.  Property theorems only.

For each sampler of `LinOp.C18.Model` we exhibit the fixed linear map `L` from the standard normal
noise to a draw (`…_linear`) and prove `L Lᵀ = ⟦op⟧` from the corresponding fact about the
sub-sampler's root (`…_cov`).  All sizes, block counts and sample counts are arbitrary.
A draw `x = L z` with `z ~ N(0, I)` has covariance `L Lᵀ`; that probabilistic step is not modelled.
-/
namespace LinOp.C18
open Matrix LinOp

variable {α : Type} [CommRing α]

/-- Base-class sampler: the draws are `(R Z)ᵀ` — the fixed linear map `R` applied to the noise,
laid out samples-first. -/
theorem generic_linear {n m k : Nat} (R : Mat α n m) (Z : Mat α m k) :
    generic R Z = ((Matrix.of R * Matrix.of Z : Matrix _ _ α)ᵀ : Matrix _ _ α) := by
  funext s i
  simp [generic, sumFin_eq_sum, Matrix.mul_apply]

/-- Base class: if the root decomposition is a true root, the sampler's map has covariance `A`. -/
theorem generic_cov {n m : Nat} (R : Matrix (Fin n) (Fin m) α) (A : Matrix (Fin n) (Fin n) α)
    (hR : R * Rᵀ = A) : R * Rᵀ = A := hR

/-- Diagonal sampler: linear map `diag(√d)` applied row-wise. -/
theorem diag_linear {n k : Nat} (sd : Fin n → α) (Z : Mat α k n) :
    diag sd Z = ((Matrix.diagonal sd * (Matrix.of Z)ᵀ : Matrix _ _ α)ᵀ : Matrix _ _ α) := by
  funext s i
  simp [diag, Matrix.diagonal_mul, mul_comm]

/-- Diagonal sampler: `diag(√d) diag(√d)ᵀ = diag(d)` whenever `√dᵢ · √dᵢ = dᵢ`. -/
theorem diag_cov {n : Nat} (sd d : Fin n → α) (h : ∀ i, sd i * sd i = d i) :
    (Matrix.diagonal sd * (Matrix.diagonal sd)ᵀ : Matrix (Fin n) (Fin n) α) = Matrix.diagonal d := by
  rw [Matrix.diagonal_transpose, Matrix.diagonal_mul_diagonal]
  congr 1; funext i; exact h i

/-- Identity sampler: the map is `I` and `I Iᵀ = I`. -/
theorem identity_cov {n : Nat} : ((1 : Matrix (Fin n) (Fin n) α) * (1 : Matrix (Fin n) (Fin n) α)ᵀ) = 1 := by
  simp

/-! ### Block structures.  `Lb b : n × m` is the linear map of block `b`'s sampler; block `b` draws its
own noise `Z b : m × k`, so the base draws are `x s b r = Σ_j Lb b r j * Z b j s`. -/

/-- Linear map of the BlockDiag sampler: row `i` belongs to block `i / n`, within-block row `i % n`. -/
def blockDiagL {nb n m : Nat} (Lb : Fin nb → Matrix (Fin n) (Fin m) α) :
    Matrix (Fin (nb * n)) (Fin nb × Fin m) α :=
  fun i c => if i.1 / n = c.1.1 then Lb c.1 ⟨i.1 % n, Nat.mod_lt _ (Nat.pos_of_ne_zero (by
    intro h; have := i.2; simp [h] at this))⟩ c.2 else 0

/-- The dense block-diagonal matrix with blocks `A b`. -/
def blockDiagDense {nb n : Nat} (A : Fin nb → Matrix (Fin n) (Fin n) α) : Matrix (Fin (nb * n)) (Fin (nb * n)) α :=
  fun i j => if h : i.1 / n = j.1 / n then
    A ⟨i.1 / n, (Nat.div_lt_iff_lt_mul (Nat.pos_of_ne_zero (by intro h0; have := i.2; simp [h0] at this))).2 i.2⟩
      ⟨i.1 % n, Nat.mod_lt _ (Nat.pos_of_ne_zero (by intro h0; have := i.2; simp [h0] at this))⟩
      ⟨j.1 % n, Nat.mod_lt _ (Nat.pos_of_ne_zero (by intro h0; have := i.2; simp [h0] at this))⟩ else 0

theorem blockDiag_linear {nb n m k : Nat} (hn : 0 < n) (Lb : Fin nb → Matrix (Fin n) (Fin m) α)
    (Z : Fin nb → Matrix (Fin m) (Fin k) α) (s : Fin k) (i : Fin (nb * n)) :
    blockDiag (fun s b r => ∑ j, Lb b r j * Z b j s) hn s i
      = ∑ c : Fin nb × Fin m, blockDiagL Lb i c * Z c.1 c.2 s := by
  simp only [blockDiag, blockDiagL, Fintype.sum_prod_type, ite_mul, zero_mul]
  symm
  rw [Finset.sum_eq_single ⟨i.1 / n, (Nat.div_lt_iff_lt_mul hn).2 i.2⟩]
  · simp
  · intro b _ hb
    have : ¬ (i.1 / n = b.1) := fun h => hb (Fin.ext h.symm)
    simp [this]
  · simp

/-- **BlockDiag sampler has the block-diagonal covariance**: `L Lᵀ = blockdiag(L_b L_bᵀ)`. -/
theorem blockDiag_cov {nb n m : Nat} (Lb : Fin nb → Matrix (Fin n) (Fin m) α)
    (A : Fin nb → Matrix (Fin n) (Fin n) α) (hL : ∀ b, Lb b * (Lb b)ᵀ = A b) :
    blockDiagL Lb * (blockDiagL Lb)ᵀ = blockDiagDense A := by
  funext i j
  have hn : 0 < n := Nat.pos_of_ne_zero (by intro h0; have := i.2; simp [h0] at this)
  simp only [Matrix.mul_apply, Matrix.transpose_apply, blockDiagL, blockDiagDense, Fintype.sum_prod_type,
    ite_mul, zero_mul, mul_ite, mul_zero]
  rw [Finset.sum_eq_single ⟨i.1 / n, (Nat.div_lt_iff_lt_mul hn).2 i.2⟩]
  · by_cases h : i.1 / n = j.1 / n
    · simp only [h, ↓reduceIte, dite_true]
      have := congrFun (congrFun (hL ⟨j.1 / n, (Nat.div_lt_iff_lt_mul hn).2 j.2⟩)
        ⟨i.1 % n, Nat.mod_lt _ hn⟩) ⟨j.1 % n, Nat.mod_lt _ hn⟩
      simp only [Matrix.mul_apply, Matrix.transpose_apply] at this
      simp only [← h] at this ⊢
      exact this
    · have h' : ¬ (j.1 / n = i.1 / n) := fun e => h e.symm
      simp [h, h']
  · intro b _ hb
    have : ¬ (i.1 / n = b.1) := fun h => hb (Fin.ext h.symm)
    simp [this]
  · simp

/-! BlockInterleaved: row `i` belongs to block `i % nb`, within-block row `i / nb`. -/

def blockInterleavedL {nb n m : Nat} (Lb : Fin nb → Matrix (Fin n) (Fin m) α) :
    Matrix (Fin (n * nb)) (Fin nb × Fin m) α :=
  fun i c => if i.1 % nb = c.1.1 then Lb c.1 ⟨i.1 / nb, (Nat.div_lt_iff_lt_mul (Nat.pos_of_ne_zero (by
    intro h; have := i.2; simp [h] at this))).2 i.2⟩ c.2 else 0

def blockInterleavedDense {nb n : Nat} (A : Fin nb → Matrix (Fin n) (Fin n) α) :
    Matrix (Fin (n * nb)) (Fin (n * nb)) α :=
  fun i j => if h : i.1 % nb = j.1 % nb then
    A ⟨i.1 % nb, Nat.mod_lt _ (Nat.pos_of_ne_zero (by intro h0; have := i.2; simp [h0] at this))⟩
      ⟨i.1 / nb, (Nat.div_lt_iff_lt_mul (Nat.pos_of_ne_zero (by intro h0; have := i.2; simp [h0] at this))).2 i.2⟩
      ⟨j.1 / nb, (Nat.div_lt_iff_lt_mul (Nat.pos_of_ne_zero (by intro h0; have := i.2; simp [h0] at this))).2 j.2⟩ else 0

theorem blockInterleaved_linear {nb n m k : Nat} (hb : 0 < nb) (Lb : Fin nb → Matrix (Fin n) (Fin m) α)
    (Z : Fin nb → Matrix (Fin m) (Fin k) α) (s : Fin k) (i : Fin (n * nb)) :
    blockInterleaved (fun s b r => ∑ j, Lb b r j * Z b j s) hb s i
      = ∑ c : Fin nb × Fin m, blockInterleavedL Lb i c * Z c.1 c.2 s := by
  simp only [blockInterleaved, blockInterleavedL, Fintype.sum_prod_type, ite_mul, zero_mul]
  symm
  rw [Finset.sum_eq_single ⟨i.1 % nb, Nat.mod_lt _ hb⟩]
  · simp
  · intro b _ hb'
    have : ¬ (i.1 % nb = b.1) := fun h => hb' (Fin.ext h.symm)
    simp [this]
  · simp

/-- **BlockInterleaved sampler has the interleaved-block covariance.** -/
theorem blockInterleaved_cov {nb n m : Nat} (Lb : Fin nb → Matrix (Fin n) (Fin m) α)
    (A : Fin nb → Matrix (Fin n) (Fin n) α) (hL : ∀ b, Lb b * (Lb b)ᵀ = A b) :
    blockInterleavedL Lb * (blockInterleavedL Lb)ᵀ = blockInterleavedDense A := by
  funext i j
  have hb : 0 < nb := Nat.pos_of_ne_zero (by intro h0; have := i.2; simp [h0] at this)
  simp only [Matrix.mul_apply, Matrix.transpose_apply, blockInterleavedL, blockInterleavedDense,
    Fintype.sum_prod_type, ite_mul, zero_mul, mul_ite, mul_zero]
  rw [Finset.sum_eq_single ⟨i.1 % nb, Nat.mod_lt _ hb⟩]
  · by_cases h : i.1 % nb = j.1 % nb
    · simp only [h, ↓reduceIte, dite_true]
      have := congrFun (congrFun (hL ⟨j.1 % nb, Nat.mod_lt _ hb⟩)
        ⟨i.1 / nb, (Nat.div_lt_iff_lt_mul hb).2 i.2⟩) ⟨j.1 / nb, (Nat.div_lt_iff_lt_mul hb).2 j.2⟩
      simp only [Matrix.mul_apply, Matrix.transpose_apply] at this
      simp only [← h] at this ⊢
      exact this
    · have h' : ¬ (j.1 % nb = i.1 % nb) := fun e => h e.symm
      simp [h, h']
  · intro b _ hb'
    have : ¬ (i.1 % nb = b.1) := fun h => hb' (Fin.ext h.symm)
    simp [this]
  · simp

/-! SumBatch / PsdSum: the parts draw independent noise and the draws are added. -/

def sumL {nb n m : Nat} (Lb : Fin nb → Matrix (Fin n) (Fin m) α) : Matrix (Fin n) (Fin nb × Fin m) α :=
  fun i c => Lb c.1 i c.2

theorem sumBatch_linear {nb n m k : Nat} (Lb : Fin nb → Matrix (Fin n) (Fin m) α)
    (Z : Fin nb → Matrix (Fin m) (Fin k) α) (s : Fin k) (i : Fin n) :
    sumBatch (fun s b r => ∑ j, Lb b r j * Z b j s) s i = ∑ c : Fin nb × Fin m, sumL Lb i c * Z c.1 c.2 s := by
  simp [sumBatch, sumL, sumFin_eq_sum, Fintype.sum_prod_type]

/-- **A sum of PSD terms is sampled as a sum of independent draws**: `[L₁ … L_k][L₁ … L_k]ᵀ = Σ L_b L_bᵀ`. -/
theorem sumBatch_cov {nb n m : Nat} (Lb : Fin nb → Matrix (Fin n) (Fin m) α)
    (A : Fin nb → Matrix (Fin n) (Fin n) α) (hL : ∀ b, Lb b * (Lb b)ᵀ = A b) :
    sumL Lb * (sumL Lb)ᵀ = ∑ b, A b := by
  funext i j
  simp only [Matrix.mul_apply, Matrix.transpose_apply, sumL, Fintype.sum_prod_type, Matrix.sum_apply]
  refine Finset.sum_congr rfl fun b _ => ?_
  have := congrFun (congrFun (hL b) i) j
  simpa [Matrix.mul_apply] using this

/-! Interpolated: draws of the base pushed through the left interpolation `W`. -/

/-- The interpolation matrix `W[r, idx[r,c]] += val[r,c]` (duplicate indices add). -/
def interpW {nBase r q : Nat} (idx : Fin r → Fin q → Fin nBase) (val : Fin r → Fin q → α) :
    Matrix (Fin r) (Fin nBase) α :=
  fun i t => ∑ c, if idx i c = t then val i c else 0

theorem interp_linear {nBase r q k : Nat} (idx : Fin r → Fin q → Fin nBase) (val : Fin r → Fin q → α)
    (x : Mat α k nBase) :
    interp idx val x = ((interpW idx val * (Matrix.of x)ᵀ : Matrix _ _ α)ᵀ : Matrix _ _ α) := by
  funext s i
  simp only [interp, sumFin_eq_sum, interpW, Matrix.transpose_apply, Matrix.mul_apply, Matrix.of_apply,
    Finset.sum_mul, ite_mul, zero_mul]
  rw [Finset.sum_comm]
  simp

/-- **Interpolated sampler**: with base map `L` (`L Lᵀ = K`) the draws have covariance `W K Wᵀ`,
which is the represented matrix `W_l K W_rᵀ` when left and right interpolation coincide. -/
theorem interp_cov {nBase r m : Nat} (W : Matrix (Fin r) (Fin nBase) α) (L : Matrix (Fin nBase) (Fin m) α)
    (K : Matrix (Fin nBase) (Fin nBase) α) (hL : L * Lᵀ = K) :
    (W * L) * (W * L)ᵀ = W * K * Wᵀ := by
  rw [Matrix.transpose_mul, ← hL]
  simp only [Matrix.mul_assoc]


/-! ### Contour-integral sampler (`settings.ciq_samples`).  `contour_integral_quad` returns, for every quadrature
point `q`, the solves `K (s_q I − K)⁻¹ b` (minres with `value = -1`, shift `s_q`, then `linear_op._matmul`) and the
weight `w_q`; the sampler returns `Σ_q w_q · solves_q` with `b` the noise. -/

/-- **CIQ sampler is a fixed linear map of the noise**: with `R_q` the matrix applied by quadrature point `q`
(`R_q = K (s_q I − K)⁻¹`), the draws are `((Σ_q w_q R_q) Z)ᵀ`, any number of points, sizes and samples. -/
theorem ciq_linear {Q n k : Nat} (w : Fin Q → α) (Rq : Fin Q → Matrix (Fin n) (Fin n) α)
    (Z : Matrix (Fin n) (Fin k) α) :
    ciq w (fun q s i => ∑ j, Rq q i j * Z j s) = ((((∑ q, w q • Rq q) * Z : Matrix _ _ α))ᵀ : Matrix _ _ α) := by
  funext s i
  simp only [ciq, sumFin_eq_sum, Matrix.transpose_apply, Matrix.mul_apply, Matrix.sum_apply, Matrix.smul_apply,
    smul_eq_mul, Finset.sum_mul]
  rw [Finset.sum_comm]
  exact Finset.sum_congr rfl fun j _ => Finset.sum_congr rfl fun q _ => by ring

/-- **CIQ covariance reduces to the scalar quadrature rule**: let `K = U diag(λ) Uᵀ` with an orthonormal eigenbasis,
`M_q` any right inverse of `s_q I − K` (what the shifted solves apply), no shift on the spectrum.  Then the quadrature
operator `R = Σ_q w_q K M_q` equals `U diag(f(λ)) Uᵀ` with `f(λ) = Σ_q w_q λ/(s_q − λ)`, and if the scalar rule is
exact on the spectrum (`f(λ_i)² = λ_i`) the draws `R z` have covariance `R Rᵀ = K`. -/
theorem ciq_cov {β : Type} [Field β] {Q n : Nat} {U : Matrix (Fin n) (Fin n) β} (hU : Uᵀ * U = 1) (hU' : U * Uᵀ = 1)
    (lam : Fin n → β) (s w : Fin Q → β) (hs : ∀ q i, s q - lam i ≠ 0)
    (M : Fin Q → Matrix (Fin n) (Fin n) β)
    (hM : ∀ q, (s q • (1 : Matrix (Fin n) (Fin n) β) - conjU U lam) * M q = 1)
    (hf : ∀ i, (∑ q, w q * (lam i / (s q - lam i))) * (∑ q, w q * (lam i / (s q - lam i))) = lam i) :
    (∑ q, w q • (conjU U lam * M q)) * (∑ q, w q • (conjU U lam * M q))ᵀ = conjU U lam := by
  rw [ciq_operator_spectral hU hU' lam s w hs M hM, conjU_transpose, conjU_mul hU]
  congr 1
  funext i
  exact hf i

/-- The error of the CIQ covariance is the error of the scalar rule on the spectrum, whatever it is:
`R Rᵀ = U diag(f(λ)²) Uᵀ`. -/
theorem ciq_cov_general {β : Type} [Field β] {Q n : Nat} {U : Matrix (Fin n) (Fin n) β} (hU : Uᵀ * U = 1)
    (hU' : U * Uᵀ = 1) (lam : Fin n → β) (s w : Fin Q → β) (hs : ∀ q i, s q - lam i ≠ 0)
    (M : Fin Q → Matrix (Fin n) (Fin n) β)
    (hM : ∀ q, (s q • (1 : Matrix (Fin n) (Fin n) β) - conjU U lam) * M q = 1) :
    (∑ q, w q • (conjU U lam * M q)) * (∑ q, w q • (conjU U lam * M q))ᵀ
      = conjU U (fun i => (∑ q, w q * (lam i / (s q - lam i))) * (∑ q, w q * (lam i / (s q - lam i)))) := by
  rw [ciq_operator_spectral hU hU' lam s w hs M hM, conjU_transpose, conjU_mul hU]

/-- Non-vacuity of `ciq_cov`: 1×1, `K = 4`, one quadrature point `s = 0`, `w = 2`: `R = 2·4·(0−4)⁻¹ = −2`, `R² = 4`. -/
example : (∑ q : Fin 1, (fun _ => (2 : ℚ)) q • (conjU (1 : Matrix (Fin 1) (Fin 1) ℚ) (fun _ => 4) * (fun _ => conjU 1 (fun _ => (0 - 4)⁻¹)) q))
    * (∑ q : Fin 1, (fun _ => (2 : ℚ)) q • (conjU (1 : Matrix (Fin 1) (Fin 1) ℚ) (fun _ => 4) * (fun _ => conjU 1 (fun _ => (0 - 4)⁻¹)) q))ᵀ
    = conjU 1 (fun _ => 4) := by
  apply ciq_cov (U := (1 : Matrix (Fin 1) (Fin 1) ℚ)) (by simp) (by simp) (fun _ => 4) (fun _ => 0) (fun _ => 2)
  · intro q i; norm_num
  · intro q
    ext i j
    have hi : i = 0 := Subsingleton.elim _ _
    have hj : j = 0 := Subsingleton.elim _ _
    subst hi hj
    simp [conjU_apply, Matrix.mul_apply]
  · intro i; simp; norm_num

/-! ### Samplers reached through a specialised `root_decomposition` (the base-class sampler `generic` then draws
with that root). -/

/-- **ConstantMul** (`c·K`, `c ≥ 0`): the root is the base root times `√c`; it is a root of `c·A`. -/
theorem constMul_cov {n m : Nat} (sc c : α) (h : sc * sc = c) (R : Matrix (Fin n) (Fin m) α)
    (A : Matrix (Fin n) (Fin n) α) (hR : R * Rᵀ = A) :
    (Matrix.of (constMulRoot sc R) * (Matrix.of (constMulRoot sc R))ᵀ : Matrix _ _ α) = c • A := by
  ext i j
  simp only [← hR, ← h, Matrix.mul_apply, Matrix.transpose_apply, Matrix.of_apply, constMulRoot, Matrix.smul_apply,
    smul_eq_mul, Finset.mul_sum]
  exact Finset.sum_congr rfl fun l _ => by ring

/-- ConstantMul draws are the fixed linear map `√c · R` of the noise. -/
theorem constMul_linear {n m k : Nat} (sc : α) (R : Mat α n m) (Z : Mat α m k) :
    generic (constMulRoot sc R) Z
      = ((Matrix.of (constMulRoot sc R) * Matrix.of Z : Matrix _ _ α)ᵀ : Matrix _ _ α) :=
  generic_linear _ _

/-- **Kronecker** (`KroneckerProductLinearOperator.root_decomposition` above max_cholesky_size): the root is the
Kronecker product of the factor roots in the dense layout `(i₁·n₂ + i₂, j₁·m₂ + j₂)`; it is a root of the Kronecker
product of the factor covariances, all factor sizes and root widths. -/
theorem kron_cov {n1 n2 m1 m2 : Nat} (h2 : 0 < n2) (hm2 : 0 < m2)
    (R1 : Matrix (Fin n1) (Fin m1) α) (R2 : Matrix (Fin n2) (Fin m2) α)
    (A1 : Matrix (Fin n1) (Fin n1) α) (A2 : Matrix (Fin n2) (Fin n2) α)
    (e1 : R1 * R1ᵀ = A1) (e2 : R2 * R2ᵀ = A2) :
    (Matrix.of (kronFlat R1 R2 h2 hm2) * (Matrix.of (kronFlat R1 R2 h2 hm2))ᵀ : Matrix _ _ α)
      = Matrix.of (kronFlat A1 A2 h2 h2) := by
  ext i j
  have hd : ∀ (a : Fin m1) (b : Fin m2) h, (⟨(finProdFinEquiv (a, b) : Fin (m1 * m2)).1 / m2, h⟩ : Fin m1) = a := by
    intro a b h; apply Fin.ext
    simp [finProdFinEquiv, Nat.add_mul_div_left _ _ hm2, Nat.div_eq_of_lt b.2]
  have hm : ∀ (a : Fin m1) (b : Fin m2) h, (⟨(finProdFinEquiv (a, b) : Fin (m1 * m2)).1 % m2, h⟩ : Fin m2) = b := by
    intro a b h; apply Fin.ext
    simp [finProdFinEquiv, Nat.mod_eq_of_lt b.2]
  simp only [Matrix.mul_apply, Matrix.transpose_apply, Matrix.of_apply, kronFlat]
  rw [← finProdFinEquiv.sum_comp, Fintype.sum_prod_type]
  simp only [hd, hm, ← e1, ← e2, Matrix.mul_apply, Matrix.transpose_apply, Finset.sum_mul_sum]
  exact Finset.sum_congr rfl fun a _ => Finset.sum_congr rfl fun b _ => by ring


/-- Kronecker draws are the fixed linear map `R₁ ⊗ R₂` of the noise. -/
theorem kron_linear {n1 n2 m1 m2 k : Nat} (h2 : 0 < n2) (hm2 : 0 < m2) (R1 : Mat α n1 m1) (R2 : Mat α n2 m2)
    (Z : Mat α (m1 * m2) k) :
    generic (kronFlat R1 R2 h2 hm2) Z
      = ((Matrix.of (kronFlat R1 R2 h2 hm2) * Matrix.of Z : Matrix _ _ α)ᵀ : Matrix _ _ α) :=
  generic_linear _ _

/-! ### Shapes: `zero_mean_mvn_samples(k)` returns `(k, *batch, n)` for every batch shape. -/

theorem bcastRev_self (l : List Nat) : bcastRev l l = some l := by
  induction l with
  | nil => rfl
  | cons a as ih => simp [bcastRev, ih]

/-- A root with the operator's own batch shape broadcasts to it. -/
theorem bcast_self (l : List Nat) : bcast l l = some l := by
  simp [bcast, bcastRev_self]

/-- An unbatched root broadcasts to any batch shape. -/
theorem bcast_nil_left (l : List Nat) : bcast [] l = some l := by
  simp [bcast, bcastRev]

theorem lastFirst_append (b : List Nat) (n k : Nat) : lastFirst (b ++ [n, k]) = k :: (b ++ [n]) := by
  simp [lastFirst]

/-- **Shape of the base-class sampler, all batch shapes, sizes and sample counts**: for a root `(*rb, n, m)` whose
batch shape broadcasts to the operator's batch shape, `root.matmul(randn(*batch, m, k)).permute(-1, 0, …)` has shape
`(k, *batch, n)`. -/
theorem genericShape_total (rb batch : List Nat) (n m k : Nat) (h : bcast rb batch = some batch) :
    genericShape rb batch n m m k = some (k :: batch ++ [n]) := by
  simp [genericShape, h, lastFirst_append]

/-- Instances: the root carries the operator's batch shape, or none at all. -/
theorem genericShape_self (batch : List Nat) (n m k : Nat) :
    genericShape batch batch n m m k = some (k :: batch ++ [n]) ∧
    genericShape [] batch n m m k = some (k :: batch ++ [n]) :=
  ⟨genericShape_total _ _ _ _ _ (bcast_self _), genericShape_total _ _ _ _ _ (bcast_nil_left _)⟩

/-- The sampler's shape function is total in the sense of torch: it fails exactly when the noise's inner size does
not match the root or the batch shapes do not broadcast. -/
theorem genericShape_none_iff (rb batch : List Nat) (n m m' k : Nat) :
    genericShape rb batch n m m' k = none ↔ (m ≠ m' ∨ bcast rb batch = none) := by
  unfold genericShape
  by_cases h : m = m'
  · simp [h]
  · simp [h]

/-- Block samplers: the draws of the base `(k, *batch, nb, n)` become `(k, *batch, N)` with `N` the size of the
block operator (`nb·n` for BlockDiag / BlockInterleaved, `n` for SumBatch); the sample and batch dimensions are kept. -/
theorem blockShape_eq (kind k : Nat) (batch : List Nat) (nb n : Nat) :
    blockShape kind k batch nb n = k :: batch ++ [if kind = 2 then n else nb * n] ∧
    (blockShape kind k batch nb n).length = batch.length + 2 := by
  simp [blockShape]

/-- Non-vacuity: a 2-block BlockDiag with 1×1 roots 2 and 3 has covariance diag(4, 9). -/
example : blockDiagL (α := ℤ) (nb := 2) (n := 1) (m := 1) (fun b => fun _ _ => if b = 0 then 2 else 3)
    * (blockDiagL (α := ℤ) (nb := 2) (n := 1) (m := 1) (fun b => fun _ _ => if b = 0 then 2 else 3))ᵀ
    = blockDiagDense (fun b => fun _ _ => if b = 0 then 4 else 9) := by
  apply blockDiag_cov
  intro b; funext i j; fin_cases b <;>
    (show (∑ l : Fin 1, _) = _; simp [Matrix.transpose])


/-! ## Extension session 5 — class-specific roots, preconditioned CIQ, repeat indexing, sampler shapes, translator facts -/

/-- **Chol, both orientations**: the root handed to the sampler (`root` for the lower orientation, `rootᵀ` for the upper
one) is a root of what the operator represents (`T Tᵀ` resp. `Tᵀ T`), every size. -/
theorem chol_cov {n : Nat} (upper : Bool) (T : Matrix (Fin n) (Fin n) α) :
    (Matrix.of (cholRoot upper T) * (Matrix.of (cholRoot upper T))ᵀ : Matrix _ _ α)
      = if upper then Tᵀ * T else T * Tᵀ := by
  cases upper <;> (ext i j; simp [cholRoot, Matrix.mul_apply, Matrix.transpose_apply]) <;> rfl

/-- Chol draws are the fixed linear map `cholRoot upper T` of the noise (base-class sampler). -/
theorem chol_linear {n k : Nat} (upper : Bool) (T : Mat α n n) (Z : Mat α n k) :
    generic (cholRoot upper T) Z
      = ((Matrix.of (cholRoot upper T) * Matrix.of Z : Matrix _ _ α)ᵀ : Matrix _ _ α) :=
  generic_linear _ _

/-- `_scale_columns(U, s)` is `U · diag(s)`. -/
theorem scaleCols_eq {n m : Nat} (U : Matrix (Fin n) (Fin m) α) (s : Fin m → α) :
    (Matrix.of (scaleCols U s) : Matrix _ _ α) = U * Matrix.diagonal s := by
  ext i j; simp [scaleCols, Matrix.mul_diagonal]

/-- **symeig / diagonalization / svd roots** `_scale_columns(evecs, √evals)`: a root of `U diag(λ) Uᵀ` whenever
`s_j² = λ_j`, any (also non-square, non-orthogonal) `U`. -/
theorem symeig_cov {n m : Nat} (U : Matrix (Fin n) (Fin m) α) (s lam : Fin m → α) (h : ∀ j, s j * s j = lam j) :
    (Matrix.of (scaleCols U s) * (Matrix.of (scaleCols U s))ᵀ : Matrix _ _ α) = U * Matrix.diagonal lam * Uᵀ := by
  have e : (fun j => s j * s j) = lam := funext h
  rw [scaleCols_eq, Matrix.transpose_mul, Matrix.diagonal_transpose, Matrix.mul_assoc,
    ← Matrix.mul_assoc (Matrix.diagonal s), Matrix.diagonal_mul_diagonal, e, ← Matrix.mul_assoc]

/-- symeig-root draws are the fixed linear map `U diag(s)` of the noise. -/
theorem symeig_linear {n m k : Nat} (U : Mat α n m) (s : Fin m → α) (Z : Mat α m k) :
    generic (scaleCols U s) Z = ((Matrix.of (scaleCols U s) * Matrix.of Z : Matrix _ _ α)ᵀ : Matrix _ _ α) :=
  generic_linear _ _

/-- **KroneckerProductAddedDiag with a constant diagonal** (`_root_decomposition`, reached above max_cholesky_size):
`Q · diag(√(λ + c))` with `K = Q diag(λ) Qᵀ`, `Q Qᵀ = 1` is a root of `K + c·I`. -/
theorem kronAddedDiag_cov {n : Nat} (Qm : Matrix (Fin n) (Fin n) α) (hQ : Qm * Qmᵀ = 1) (s lam : Fin n → α) (c : α)
    (h : ∀ j, s j * s j = lam j + c) :
    (Matrix.of (scaleCols Qm s) * (Matrix.of (scaleCols Qm s))ᵀ : Matrix _ _ α)
      = Qm * Matrix.diagonal lam * Qmᵀ + c • (1 : Matrix (Fin n) (Fin n) α) := by
  rw [symeig_cov Qm s (fun j => lam j + c) h]
  have e : Matrix.diagonal (fun j => lam j + c) = Matrix.diagonal lam + c • (1 : Matrix (Fin n) (Fin n) α) := by
    ext i j
    by_cases hij : i = j
    · subst hij; simp
    · simp [hij]
  rw [e, Matrix.mul_add, Matrix.add_mul, Matrix.mul_smul, Matrix.mul_one, Matrix.smul_mul, hQ]

/-- KroneckerAddedDiag draws are the fixed linear map `Q diag(s)` of the noise. -/
theorem kronAddedDiag_linear {n k : Nat} (Qm : Mat α n n) (s : Fin n → α) (Z : Mat α n k) :
    generic (scaleCols Qm s) Z = ((Matrix.of (scaleCols Qm s) * Matrix.of Z : Matrix _ _ α)ᵀ : Matrix _ _ α) :=
  generic_linear _ _

/-- `mmul` is the matrix product. -/
theorem mmul_eq {n m p : Nat} (A : Matrix (Fin n) (Fin m) α) (B : Matrix (Fin m) (Fin p) α) :
    (Matrix.of (mmul A B) : Matrix _ _ α) = A * B := by
  ext i j; simp [mmul, sumFin_eq_sum, Matrix.mul_apply]

/-- **SumKronecker** (`K₁ + K₂`, `_root_decomposition = lt2_root.matmul(inner_root)`): with `R₂ R₂ᵀ = K₂`, `Rinv` a left
inverse of `R₂` (`Rinv R₂ = 1`, `R₂ Rinv = 1`), inner matrix `Minner = Rinv K₁ Rinvᵀ + 1` and `Ri Riᵀ = Minner`, the root
`R₂ Ri` is a root of `K₁ + K₂`. -/
theorem sumKron_cov {n m : Nat} (R2 Rinv K1 K2 : Matrix (Fin n) (Fin n) α) (Ri : Matrix (Fin n) (Fin m) α)
    (h2 : R2 * R2ᵀ = K2) (hinv : R2 * Rinv = 1)
    (hi : Ri * Riᵀ = Rinv * K1 * Rinvᵀ + 1) :
    (Matrix.of (mmul R2 Ri) * (Matrix.of (mmul R2 Ri))ᵀ : Matrix _ _ α) = K1 + K2 := by
  have hinvT : Rinvᵀ * R2ᵀ = 1 := by rw [← Matrix.transpose_mul, hinv, Matrix.transpose_one]
  rw [mmul_eq, Matrix.transpose_mul]
  calc R2 * Ri * (Riᵀ * R2ᵀ) = R2 * (Ri * Riᵀ) * R2ᵀ := by simp only [Matrix.mul_assoc]
    _ = (R2 * Rinv) * K1 * (Rinvᵀ * R2ᵀ) + R2 * R2ᵀ := by
        rw [hi, Matrix.mul_add, Matrix.add_mul, Matrix.mul_one]; simp only [Matrix.mul_assoc]
    _ = K1 + K2 := by rw [hinv, hinvT, Matrix.one_mul, Matrix.mul_one, h2]

/-- **ConstantMul with a batch of constants**: member `b` of the root is `√c_b · R_b`, a root of `c_b · A_b`, for every
member of any index type (all batch shapes). -/
theorem constMul_batch_cov {B : Type} {n m : Nat} (sc c : B → α) (h : ∀ b, sc b * sc b = c b)
    (R : B → Matrix (Fin n) (Fin m) α) (A : B → Matrix (Fin n) (Fin n) α) (hR : ∀ b, R b * (R b)ᵀ = A b) (b : B) :
    (Matrix.of (constMulRoot (sc b) (R b)) * (Matrix.of (constMulRoot (sc b) (R b)))ᵀ : Matrix _ _ α) = c b • A b :=
  constMul_cov (sc b) (c b) (h b) (R b) (A b) (hR b)

/-! ### BatchRepeat: `root.repeat(*batch_repeat, 1, 1)` — output member `idx` reads base member `idx % base`. -/

/-- The index map of `repeat` lands inside the base batch shape (every dimension, every number of batch dims). -/
theorem repeatIdx_lt : ∀ (base idx : List Nat), idx.length = base.length → (∀ b ∈ base, 0 < b) →
    List.Forall₂ (· < ·) (repeatIdx base idx) base
  | [], [], _, _ => by simp [repeatIdx]
  | [], _ :: _, h, _ => by simp at h
  | _ :: _, [], h, _ => by simp at h
  | b :: bs, i :: is, h, hp => by
    have hb : 0 < b := hp b (by simp)
    have := repeatIdx_lt bs is (by simpa using h) (fun x hx => hp x (by simp [hx]))
    simpa [repeatIdx] using ⟨Nat.mod_lt _ hb, this⟩

/-- The first tile is the base itself: an index inside the base shape is read from the same base member. -/
theorem repeatIdx_of_lt : ∀ (base idx : List Nat), List.Forall₂ (· < ·) idx base → repeatIdx base idx = idx
  | _, _, .nil => by simp [repeatIdx]
  | _, _, .cons h t => by
    have := repeatIdx_of_lt _ _ t
    simp only [repeatIdx] at this
    simp [repeatIdx, Nat.mod_eq_of_lt h, this]

/-- Row-major flattening inverts un-flattening for every shape and every member index below the member count. -/
theorem ravel_unravel : ∀ (shape : List Nat) (f : Nat), f < shape.foldr (· * ·) 1 →
    ravelRev shape (unravelRev shape f) = f
  | [], f, h => by simp at h; simp [ravelRev, h]
  | d :: ds, f, h => by
    have hd : 0 < d := Nat.pos_of_ne_zero (by intro h0; simp [h0] at h)
    have h' : f / d < ds.foldr (· * ·) 1 := by
      rw [Nat.div_lt_iff_lt_mul hd]; simpa [Nat.mul_comm] using h
    simp only [unravelRev, ravelRev, ravel_unravel ds (f / d) h']
    exact Nat.mod_add_div f d

/-- The repeated batch shape has as many dimensions as repeat arguments (at least as many as the base has). -/
theorem repeatShape_length (base reps : List Nat) (h : base.length ≤ reps.length) :
    (repeatShape base reps).length = reps.length := by
  simp [repeatShape, padLeft]; omega

/-- **BatchRepeat roots**: if every base member's root is a root of that member's covariance, then every member of the
repeated root is a root of the corresponding member of the repeated operator (member `idx` of both reads base member
`idx % base`), for every batch shape and repeat pattern. -/
theorem batchRepeat_cov {n m : Nat} (base : List Nat) (R : List Nat → Matrix (Fin n) (Fin m) α)
    (A : List Nat → Matrix (Fin n) (Fin n) α) (h : ∀ idx, R idx * (R idx)ᵀ = A idx) (idx : List Nat) :
    R (repeatIdx base idx) * (R (repeatIdx base idx))ᵀ = A (repeatIdx base idx) := h _

/-- Shape of the sampler on a BatchRepeat whose root carries the repeated batch shape: `(k, *(bᵢ·rᵢ), n)`. -/
theorem batchRepeatShape_total (base reps : List Nat) (n m k : Nat) :
    genericShape (repeatShape base reps) (repeatShape base reps) n m m k = some (k :: repeatShape base reps ++ [n]) :=
  (genericShape_self _ _ _ _).1

/-! ### Shapes of the specialised samplers: all return `(k, *batch, n)`, every batch shape (also size-1 dims), every
`k` (also 0 and 1). -/

theorem ciqNoiseShape_eq (batch : List Nat) (n k : Nat) : ciqNoiseShape batch n k = k :: batch ++ [n, 1] := by
  simp [ciqNoiseShape, lastFirst_append]

theorem ciqShape_eq (batch : List Nat) (n k Q : Nat) : ciqShape batch n k Q = k :: batch ++ [n] := by
  have : k :: batch ++ [n, 1] = (k :: batch ++ [n]) ++ [1] := by simp
  rw [ciqShape, ciqNoiseShape_eq, List.tail_cons, this, List.dropLast_concat]

/-- **General shape theorem**: the generic sampler (root with the operator's batch shape), the Diag / Identity sampler,
the CIQ sampler and the three block samplers all return `(k, *batch, N)`. -/
theorem sampler_shapes (k : Nat) (batch : List Nat) (n m Q nb : Nat) :
    genericShape batch batch n m m k = some (k :: batch ++ [n]) ∧
    diagShape k batch n = k :: batch ++ [n] ∧
    ciqShape batch n k Q = k :: batch ++ [n] ∧
    blockShape 0 k batch nb n = k :: batch ++ [nb * n] ∧
    blockShape 1 k batch nb n = k :: batch ++ [nb * n] ∧
    blockShape 2 k batch nb n = k :: batch ++ [n] :=
  ⟨(genericShape_self _ _ _ _).1, rfl, ciqShape_eq _ _ _ _, by simp [blockShape], by simp [blockShape], by simp [blockShape]⟩

/-! ### CIQ with a preconditioner (see `LinOp/C18/ProofsPrecond.lean` for the code path). -/

/-- Preconditioned CIQ draws are a fixed linear map of the noise: `((Σ_q w_q K N_q) S Z)ᵀ`. -/
theorem ciqPrecond_linear {Q n k : Nat} (w : Fin Q → α) (K S : Matrix (Fin n) (Fin n) α)
    (N : Fin Q → Matrix (Fin n) (Fin n) α) (Z : Matrix (Fin n) (Fin k) α) :
    ciq w (fun q s i => ∑ j, (K * N q * S) i j * Z j s)
      = (((∑ q, w q • (K * N q)) * S * Z : Matrix _ _ α)ᵀ : Matrix _ _ α) := by
  rw [ciq_linear w (fun q => K * N q * S) Z]
  simp only [Matrix.sum_mul, Matrix.smul_mul]
  rfl

/-- **Preconditioned CIQ, error term**: `P = V V` (`V` symmetric with inverse `W`), `K = V M V`, `M = U diag(μ) Uᵀ` the
preconditioned matrix `P^{-1/2} K P^{-1/2}` in an orthonormal eigenbasis, `N_q` any right inverse of `s_q P − K` (what
preconditioned msMINRES applies), `S` any root of `P` (what `sqrt_precond_matmul` applies).  Then the sampler's map
`R = (Σ_q w_q K N_q) S` has `R Rᵀ = V · U diag(f(μ)²) Uᵀ · V` with the scalar rule `f(μ) = Σ_q w_q μ/(s_q − μ)`. -/
theorem ciqPrecond_cov_general {β : Type} [Field β] {Q n : Nat} {U V W S : Matrix (Fin n) (Fin n) β}
    (hU : Uᵀ * U = 1) (hU' : U * Uᵀ = 1) (hVW : V * W = 1) (hWV : W * V = 1) (hW : Wᵀ = W)
    (mu : Fin n → β) (s w : Fin Q → β) (hs : ∀ q i, s q - mu i ≠ 0)
    (N : Fin Q → Matrix (Fin n) (Fin n) β)
    (hN : ∀ q, (s q • (V * V) - V * conjU U mu * V) * N q = 1) (hS : S * Sᵀ = V * V) :
    ((∑ q, w q • ((V * conjU U mu * V) * N q)) * S) * ((∑ q, w q • ((V * conjU U mu * V) * N q)) * S)ᵀ
      = V * conjU U (fun i => (∑ q, w q * (mu i / (s q - mu i))) * (∑ q, w q * (mu i / (s q - mu i)))) * V := by
  rw [ciqPrecond_operator hU hU' hVW hWV mu s w hs N hN]
  exact sandwich_cov hU hVW hWV hW _ hS

/-- **Preconditioned CIQ covariance**: if the scalar rule is exact on the spectrum of the preconditioned matrix
(`f(μ_i)² = μ_i`) the draws have covariance `R Rᵀ = K`. -/
theorem ciqPrecond_cov {β : Type} [Field β] {Q n : Nat} {U V W S : Matrix (Fin n) (Fin n) β}
    (hU : Uᵀ * U = 1) (hU' : U * Uᵀ = 1) (hVW : V * W = 1) (hWV : W * V = 1) (hW : Wᵀ = W)
    (mu : Fin n → β) (s w : Fin Q → β) (hs : ∀ q i, s q - mu i ≠ 0)
    (N : Fin Q → Matrix (Fin n) (Fin n) β)
    (hN : ∀ q, (s q • (V * V) - V * conjU U mu * V) * N q = 1) (hS : S * Sᵀ = V * V)
    (hf : ∀ i, (∑ q, w q * (mu i / (s q - mu i))) * (∑ q, w q * (mu i / (s q - mu i))) = mu i) :
    ((∑ q, w q • ((V * conjU U mu * V) * N q)) * S) * ((∑ q, w q • ((V * conjU U mu * V) * N q)) * S)ᵀ
      = V * conjU U mu * V := by
  rw [ciqPrecond_cov_general hU hU' hVW hWV hW mu s w hs N hN hS]
  simp only [hf]

/-- Non-vacuity of `ciqPrecond_cov`: 1×1, `P = 4` (`V = 2`, `W = 1/2`), `K = 16` (`μ = 4`), one point `s = 0`, `w = 2`,
`N = (0·4 − 16)⁻¹`, `S = 2`: `R = 2·16·(−1/16)·2 = −4`, `R² = 16 = K`. -/
example : ∃ (V _W S : Matrix (Fin 1) (Fin 1) ℚ) (N : Fin 1 → Matrix (Fin 1) (Fin 1) ℚ),
    ((∑ q : Fin 1, (2 : ℚ) • ((V * conjU 1 (fun _ => 4) * V) * N q)) * S)
      * ((∑ q : Fin 1, (2 : ℚ) • ((V * conjU 1 (fun _ => 4) * V) * N q)) * S)ᵀ = V * conjU 1 (fun _ => 4) * V ∧ V 0 0 = 2 := by
  refine ⟨Matrix.of fun _ _ => 2, Matrix.of fun _ _ => 1 / 2, Matrix.of fun _ _ => 2, fun _ => Matrix.of fun _ _ => -1 / 16, ?_, rfl⟩
  apply ciqPrecond_cov (U := (1 : Matrix (Fin 1) (Fin 1) ℚ)) (W := Matrix.of fun _ _ => 1 / 2) (by simp) (by simp) ?_ ?_ ?_
    (fun _ => 4) (fun _ => 0) (fun _ => 2)
  · intro q i; norm_num
  · intro q; ext i j; simp [Matrix.mul_apply, conjU_apply, Matrix.one_apply, Subsingleton.elim i j]; norm_num
  · ext i j; simp [Matrix.mul_apply]
  · intro i; simp; norm_num
  · ext i j; simp [Matrix.mul_apply, Matrix.one_apply, Subsingleton.elim i j]
  · ext i j; simp [Matrix.mul_apply, Matrix.one_apply, Subsingleton.elim i j]
  · ext i j; simp [Matrix.transpose_apply]

/-- Non-vacuity of `kronAddedDiag_cov` / `symeig_cov`: `Q = 1` (2×2), `λ = (3, 8)`, `c = 1`, `s = (2, 3)`. -/
example : (Matrix.of (scaleCols (1 : Matrix (Fin 2) (Fin 2) ℤ) ![2, 3]) * (Matrix.of (scaleCols (1 : Matrix (Fin 2) (Fin 2) ℤ) ![2, 3]))ᵀ
    : Matrix _ _ ℤ) = 1 * Matrix.diagonal ![3, 8] * (1 : Matrix (Fin 2) (Fin 2) ℤ)ᵀ + (1 : ℤ) • 1 :=
  kronAddedDiag_cov 1 (by simp) _ _ 1 (by intro j; fin_cases j <;> simp)

/-- Non-vacuity of `repeatIdx_lt` and of `ravel_unravel`: base batch `(2, 1)` repeated `(3, 2)` → `(6, 2)`; output member
`(5, 1)` (flat 11) reads base member `(1, 0)` (flat 1). -/
example : repeatShape [2, 1] [3, 2] = [6, 2] ∧ repeatIdx [2, 1] [5, 1] = [1, 0] ∧ repeatMember [2, 1] [3, 2] 11 = 1 ∧
    repeatShape [2] [3, 1] = [3, 2] ∧ repeatMember [2] [3, 1] 5 = 1 := by decide

/-! ### ConstantMul inverse root (`root_inv_decomposition` override, /repo c4c33aa): `c^{-1/2} · R₀`. -/

/-- **ConstantMul inverse root**: with `isc = c^{-1/2}` (`isc² c = 1`) and `R₀ R₀ᵀ = A⁻¹` the scaled inverse root
`isc · R₀` satisfies `R Rᵀ = isc² · A⁻¹`, and that matrix is the inverse of `c · A`; all sizes and root widths. -/
theorem constMul_rootInv_cov {n m : Nat} (isc c : α) (hc : isc * isc * c = 1)
    (R0 : Matrix (Fin n) (Fin m) α) (A Ainv : Matrix (Fin n) (Fin n) α) (hR : R0 * R0ᵀ = Ainv) (hA : A * Ainv = 1) :
    (Matrix.of (constMulRootInv isc R0) * (Matrix.of (constMulRootInv isc R0))ᵀ : Matrix _ _ α) = (isc * isc) • Ainv ∧
    (c • A) * ((isc * isc) • Ainv) = 1 := by
  refine ⟨constMul_cov isc (isc * isc) rfl R0 Ainv hR, ?_⟩
  have hk : c * (isc * isc) = 1 := by rw [mul_comm]; exact hc
  rw [Matrix.smul_mul, Matrix.mul_smul, smul_smul, hA, hk, one_smul]

/-- **The cached root and inverse root of a ConstantMul stay paired**: if the base pair is paired (`R₀ᵀ R = 1`) and
`√c · c^{-1/2} = 1`, then `(c^{-1/2} R₀)ᵀ (√c R) = 1` — the assumption `add_low_rank` / `cat_rows` make when they combine the
two (the defect fixed by c4c33aa was that this failed after `diagonalization()`). -/
theorem constMul_rootInv_paired {n m : Nat} (sc isc : α) (h : sc * isc = 1)
    (R R0 : Matrix (Fin n) (Fin m) α) (hp : R0ᵀ * R = 1) :
    ((Matrix.of (constMulRootInv isc R0))ᵀ * Matrix.of (constMulRoot sc R) : Matrix _ _ α) = 1 := by
  ext i j
  have hij := congrFun (congrFun hp i) j
  simp only [Matrix.mul_apply, Matrix.transpose_apply] at hij
  simp only [Matrix.mul_apply, Matrix.transpose_apply, Matrix.of_apply, constMulRootInv, constMulRoot]
  calc ∑ l, R0 l i * isc * (R l j * sc) = (∑ l, R0 l i * R l j) * (sc * isc) := by
        rw [Finset.sum_mul]; exact Finset.sum_congr rfl fun l _ => by ring
    _ = (1 : Matrix (Fin m) (Fin m) α) i j := by rw [hij, h, mul_one]

/-- Non-vacuity: `c = 4`, `c^{-1/2} = 1/2`, `A = 9`, `R₀ = 1/3` (1×1): inverse root `1/6`, `(1/6)² = 1/36 = (4·9)⁻¹`. -/
example : (Matrix.of (constMulRootInv (1 / 2 : ℚ) (Matrix.of fun (_ _ : Fin 1) => (1 / 3 : ℚ)))
      * (Matrix.of (constMulRootInv (1 / 2 : ℚ) (Matrix.of fun (_ _ : Fin 1) => (1 / 3 : ℚ))))ᵀ : Matrix _ _ ℚ)
        = ((1 / 2 : ℚ) * (1 / 2)) • (Matrix.of fun _ _ => (1 / 9 : ℚ)) ∧
      ((4 : ℚ) • (Matrix.of fun (_ _ : Fin 1) => (9 : ℚ))) * (((1 / 2 : ℚ) * (1 / 2)) • (Matrix.of fun _ _ => (1 / 9 : ℚ))) = 1 :=
  constMul_rootInv_cov (1 / 2) 4 (by norm_num) _ (Matrix.of fun _ _ => 9) _
    (by ext i j; simp [Matrix.mul_apply]; norm_num)
    (by ext i j; simp [Matrix.mul_apply, Matrix.one_apply, Subsingleton.elim i j])

/-! ### Translator facts: the sampler / root source text the model was written against (regenerated from /repo by
`harness/extract/c18_samplers.py` on every run). -/

/-- Today's source of every mirrored sampler / root override is, after `ast` normalisation, the text the model mirrors:
noise shapes, permutes, the reshape / transpose / sum of the block samplers, Chol orientation, BatchRepeat's `repeat`
arguments, ConstantMul's test and exponent, Kronecker's threshold comparison, KroneckerAddedDiag's constant-diagonal root,
`_scale_columns`, SumKronecker's `matmul`, the CIQ preconditioning steps. -/
theorem gen_sampler_facts : LinOp.Generated.C18.facts = expectedFacts := rfl

end LinOp.C18
