import LinOp.C04.Proofs
import LinOp.C04.Expected
/-!
C04 — `solve` returns `A⁻¹B` (resp. `L A⁻¹ B`) whichever algorithm the library selects.  Property theorems only.

Scalars: any field `α` (the executions use `Rat`); floating point is not modelled.  Factorizations and the
iterative solver are parameters with explicit contracts (`L Lᵀ = A`, `Qᵀ Q = Q Qᵀ = I`, "CG returns a solution").
The model functions (`LinOp.C04.fwdSub`, `cholSolve`, `kronLoop2`, `solveForward`, `woodbury`, `selectSolve`,
`trace` …) are the ones the driver executes against the real library on every run.
-/
namespace LinOp.C04
open Matrix

variable {α : Type} [Field α]

/-! ### The translator tie: today's source is the source the model mirrors -/

/-- The regenerated branch structure of `functions/_solve.py::_solve`, `functions/_inv_quad.py::_solve`, the
CG stopping rule / iteration bound, the preconditioner switch and the table of classes overriding a
solve-related hook, and which linalg-dtype setting each operator method reads, are exactly the ones `selectSolve`, `selectInvQuad`, `trace` were written against. -/
theorem source_facts_mirrored :
    Generated.C04.solveTests = Expected.solveTests ∧ Generated.C04.solveReturns = Expected.solveReturns ∧
    Generated.C04.invQuadTests = Expected.invQuadTests ∧ Generated.C04.invQuadReturns = Expected.invQuadReturns ∧
    Generated.C04.cgStopTests = Expected.cgStopTests ∧ Generated.C04.cgNIter = Expected.cgNIter ∧
    Generated.C04.cgEps = Expected.cgEps ∧ Generated.C04.cgStopUpdatingAfter = Expected.cgStopUpdatingAfter ∧
    Generated.C04.precondSwitch = Expected.precondSwitch ∧ Generated.C04.hookTable = Expected.hookTable ∧
    Generated.C04.linalgDtypeReads = Expected.linalgDtypeReads := by
  decide +kernel

/-- Under today's default settings every operator that is not Chol/Triangular and has at most
`max_cholesky_size` (generated default) rows is solved through its Cholesky factor; larger ones iteratively. -/
theorem default_selection (n : Nat) :
    (n ≤ Generated.C04.maxCholeskySizeDefault → selectSolve false n defaultSettings = .cholesky) ∧
    (Generated.C04.maxCholeskySizeDefault < n → selectSolve false n defaultSettings = .iterative) := by
  have hf : defaultSettings.fastSolves = true := by decide
  have hm : defaultSettings.maxChol = Generated.C04.maxCholeskySizeDefault := rfl
  constructor <;> intro h <;> simp only [selectSolve, hf, hm]
  · simp [h]
  · have : ¬ n ≤ Generated.C04.maxCholeskySizeDefault := Nat.not_le.mpr h
    simp [this]

/-! ### Selection never changes the answer -/

/-- **solve_any_branch.**  Whatever `(class tag, n, settings)` select, the value returned is `A⁻¹ B`, provided the
primitive of the branch taken meets its contract: the class's own structured solve returns a solution of
`A X = B` (discharged per class by the theorems below), the Cholesky oracle returns `L` with `L Lᵀ = A`
(lower; `cholSolve_upper` is the mirror image), the iterative solver returns a solution (CG's contract — C08). -/
theorem solve_any_branch {ι κ : Type} [Fintype ι] [DecidableEq ι] [Fintype κ] [DecidableEq κ]
    (cholOrTri : Bool) (n : Nat) (s : Settings) (A L : Matrix ι ι α) (B Xs Xc : Matrix ι κ α)
    (hA : IsUnit A.det)
    (hstruct : selectSolve cholOrTri n s = .structured → A * Xs = B)
    (hchol : selectSolve cholOrTri n s = .cholesky → L * Lᵀ = A)
    (hcg : selectSolve cholOrTri n s = .iterative → A * Xc = B) :
    (match selectSolve cholOrTri n s with
      | .structured => Xs
      | .cholesky => (Lᵀ)⁻¹ * (L⁻¹ * B)
      | .iterative => Xc) = A⁻¹ * B := by
  cases h : selectSolve cholOrTri n s with
  | structured => exact solve_unique hA (hstruct h)
  | cholesky => exact cholSolve_lower B (hchol h)
  | iterative => exact solve_unique hA (hcg h)

/-- The selection functions are total and the `inv_quad` path differs from the `solve` path only by the
`log_prob` flag and the missing Chol/Triangular shortcut. -/
theorem selectInvQuad_eq (n : Nat) (s : Settings) (h : s.fastLogProb = true) :
    selectInvQuad n s = selectSolve false n s := by
  simp [selectInvQuad, selectSolve, h]

/-- `fast_computations(solves=False)`: no CG anywhere in the solve of any operator tree. -/
theorem fast_off_never_runs_cg (s : Settings) (h : s.fastSolves = false) (op : Op) :
    ∀ e ∈ trace s op, e.isCg = false := trace_no_cg_of_fast_off s h op

/-- CG anywhere in the solve of `op` ⇒ the operator is not Chol/Triangular, fast solves are on and
`size > max_cholesky_size`. -/
theorem cg_only_above_threshold (s : Settings) (op : Op) (e : Ev) (he : e ∈ trace s op) (hc : e.isCg = true) :
    op.isCholOrTri = false ∧ s.fastSolves = true ∧ s.maxChol < op.size :=
  trace_cg_imp_iterative s op e he hc

/-! ### Direct paths -/

/-- **cholSolve_refines** (lower): `L Lᵀ = A ⇒ L⁻ᵀ(L⁻¹B) = A⁻¹B`. -/
theorem cholSolve_refines {ι κ : Type} [Fintype ι] [DecidableEq ι] [Fintype κ] [DecidableEq κ] (L A : Matrix ι ι α) (B : Matrix ι κ α)
    (h : L * Lᵀ = A) : (Lᵀ)⁻¹ * (L⁻¹ * B) = A⁻¹ * B := cholSolve_lower B h

/-- **cholSolve_refines** (upper): `RᵀR = A ⇒ R⁻¹(R⁻ᵀB) = A⁻¹B`. -/
theorem cholSolve_refines_upper {ι κ : Type} [Fintype ι] [DecidableEq ι] [Fintype κ] [DecidableEq κ] (R A : Matrix ι ι α) (B : Matrix ι κ α)
    (h : Rᵀ * R = A) : R⁻¹ * ((Rᵀ)⁻¹ * B) = A⁻¹ * B := cholSolve_upper B h

/-- **triSolve_orientation.**  The substitution chosen by the stored `upper` flag inverts a triangular tensor of
the matching orientation, for every size: forward substitution for lower, back substitution for upper. -/
theorem triSolve_orientation {n m : Nat} (upper : Bool) (T : Mat α n n) (B : Mat α n m)
    (hT : if upper then IsUpper T else IsLower T) (hd : ∀ i, T i i ≠ 0) :
    (Matrix.of (triSolve upper T B) : Matrix (Fin n) (Fin m) α) = (Matrix.of T)⁻¹ * Matrix.of B := by
  cases upper
  · exact triSolve_lower T B (by simpa using hT) hd
  · exact triSolve_upper T B (by simpa using hT) hd

/-- The substitutions solve the triangular PART named by the flag, whatever the other triangle holds
(what `solve_triangular` does when flag and data disagree). -/
theorem substitution_reads_one_triangle (n : Nat) (T : Mat α n n) (b : Fin n → α) (hd : ∀ i, T i i ≠ 0) :
    (∀ i, ∑ j : Fin n, (if j ≤ i then T i j else 0) * fwdSub n T b j = b i) ∧
    (∀ i, ∑ j : Fin n, (if i ≤ j then T i j else 0) * bwdSub n T b j = b i) :=
  ⟨fwdSub_spec n T b hd, bwdSub_spec n T b hd⟩

/-- `TriangularLinearOperator._cholesky_solve` (both orientations) on the model: two substitutions in the order
fixed by `upper` give `(L Lᵀ)⁻¹B` resp. `(RᵀR)⁻¹B`. -/
theorem cholSolve_model_refines {n m : Nat} (upper : Bool) (T : Mat α n n) (B : Mat α n m)
    (hT : if upper then IsUpper T else IsLower T) (hd : ∀ i, T i i ≠ 0) :
    (Matrix.of (cholSolve upper T B) : Matrix (Fin n) (Fin m) α)
      = (if upper then (Matrix.of T)ᵀ * Matrix.of T else Matrix.of T * (Matrix.of T)ᵀ)⁻¹ * Matrix.of B := by
  cases upper
  · simpa using cholSolve_model_lower T B (by simpa using hT) hd
  · simpa using cholSolve_model_upper T B (by simpa using hT) hd

/-- **diagSolve** and the diagonal Cholesky solve (`rhs / diag²`). -/
theorem diagSolve_refines {n m : Nat} (d : Fin n → α) (hd : ∀ i, d i ≠ 0) (B : Mat α n m) :
    (Matrix.of (LinOp.C04.diagSolve d B) : Matrix (Fin n) (Fin m) α) = (diagonal d)⁻¹ * Matrix.of B ∧
    (Matrix.of (diagCholSolve d B) : Matrix (Fin n) (Fin m) α) = (diagonal d * (diagonal d)ᵀ)⁻¹ * Matrix.of B :=
  ⟨diagSolve_model d hd B, diagCholSolve_model d hd B⟩

open scoped Kronecker in
/-- **kronSolve**: `(A ⊗ B)⁻¹ = A⁻¹ ⊗ B⁻¹` (two and three factors). -/
theorem kronSolve_inv {ι κ μ : Type} [Fintype ι] [DecidableEq ι] [Fintype κ] [DecidableEq κ] [Fintype μ] [DecidableEq μ]
    (A : Matrix ι ι α) (B : Matrix κ κ α) (C : Matrix μ μ α) :
    (A ⊗ₖ B)⁻¹ = A⁻¹ ⊗ₖ B⁻¹ ∧ ((A ⊗ₖ B) ⊗ₖ C)⁻¹ = (A⁻¹ ⊗ₖ B⁻¹) ⊗ₖ C⁻¹ := ⟨kronSolve A B, kronSolve3 A B C⟩

/-- **kronSolve through the loop**: the reshape → factor-solve → reshape/permute loop of
`KroneckerProductLinearOperator._solve`, fed exact factor solves, returns `(A ⊗ B)⁻¹ · rhs` on row-major
flattened indices, for all factor sizes and any number of right-hand-side columns. -/
theorem kronLoop_refines {n1 n2 c : Nat} (A : Mat α n1 n1) (B : Mat α n2 n2) (rhs : Mat α (n1 * n2) c) :
    (Matrix.of (kronLoop2 ((Matrix.of A)⁻¹ : Matrix (Fin n1) (Fin n1) α) ((Matrix.of B)⁻¹ : Matrix (Fin n2) (Fin n2) α) rhs)
        : Matrix _ _ α)
      = (Matrix.of (kronDense A B))⁻¹ * Matrix.of rhs := kronLoop2_solves A B rhs

/-- **kpadlo_constDiag_solve**: `Q(Λ+cI)⁻¹Qᵀ` solves `(QΛQᵀ + cI)X = B` when `QᵀQ = QQᵀ = I`, also in the
half-step form `Q(Λ+c)^{-1/2} · (Λ+c)^{-1/2}Qᵀ` the code evaluates. -/
theorem kpadlo_constDiag {ι κ : Type} [Fintype ι] [DecidableEq ι] [Fintype κ] [DecidableEq κ] (Q : Matrix ι ι α) (ev r : ι → α) (c : α)
    (h1 : Qᵀ * Q = 1) (h2 : Q * Qᵀ = 1) (hr : ∀ i, r i * r i = ev i + c) (hr0 : ∀ i, r i ≠ 0) (B : Matrix ι κ α) :
    (Q * diagonal (fun i => (r i)⁻¹)) * (diagonal (fun i => (r i)⁻¹) * (Qᵀ * B))
      = (Q * diagonal ev * Qᵀ + c • (1 : Matrix ι ι α))⁻¹ * B := kpadlo_constDiag_sqrt ev r c h1 h2 hr hr0 B

/-- **kpadlo_kronConst_solve** (Kronecker-structured constant diagonal `D = d·I`): `D⁻¹Q(Λ/d + I)⁻¹Qᵀ`. -/
theorem kpadlo_kronConst {ι κ : Type} [Fintype ι] [DecidableEq ι] [Fintype κ] [DecidableEq κ] (Q : Matrix ι ι α) (ev : ι → α) (d : α) (hd : d ≠ 0)
    (h1 : Qᵀ * Q = 1) (h2 : Q * Qᵀ = 1) (hne : ∀ i, ev i / d + 1 ≠ 0) (B : Matrix ι κ α) :
    (Q * diagonal ev * Qᵀ + d • (1 : Matrix ι ι α))⁻¹ * B
      = d⁻¹ • (Q * (diagonal (fun i => (ev i / d + 1)⁻¹) * (Qᵀ * B))) := kpadlo_kronConst_solve ev d hd h1 h2 hne B

/-- **woodbury_solve** on the model: `LowRankRootAddedDiagLinearOperator._solve` with the exact capacitance
inverse returns `(D + UUᵀ)⁻¹B`. -/
theorem woodbury_refines {n k m : Nat} (d : Fin n → α) (hd : ∀ i, d i ≠ 0) (U : Mat α n k) (B : Mat α n m)
    (hC : IsUnit ((1 : Matrix (Fin k) (Fin k) α) + (Matrix.of U)ᵀ * (diagonal d)⁻¹ * Matrix.of U).det) :
    (Matrix.of (woodbury d U
        (((1 : Matrix (Fin k) (Fin k) α) + (Matrix.of U)ᵀ * (diagonal d)⁻¹ * Matrix.of U)⁻¹ : Matrix (Fin k) (Fin k) α) B)
        : Matrix _ _ α)
      = (diagonal d + Matrix.of U * (Matrix.of U)ᵀ)⁻¹ * Matrix.of B := woodbury_model d hd U B hC

/-- **block_solve**: block-diagonal inverse = block diagonal of the inverses. -/
theorem block_solve_refines {ι μ : Type} [Fintype ι] [DecidableEq ι] [Fintype μ] [DecidableEq μ]
    (M : μ → Matrix ι ι α) (h : ∀ k, IsUnit (M k).det) :
    (blockDiagonal M)⁻¹ = blockDiagonal fun k => (M k)⁻¹ := block_solve M h

/-- **perm_solve**: `P⁻¹ = Pᵀ`, and on vectors `x ↦ x ∘ σ` is undone by `x ↦ x ∘ σ⁻¹`. -/
theorem perm_solve_refines {ι β : Type} [Fintype ι] [DecidableEq ι] (σ : Equiv.Perm ι) (x : ι → β) :
    (σ.permMatrix α)⁻¹ = (σ.permMatrix α)ᵀ ∧ permApply σ⁻¹ (permApply σ x) = x :=
  ⟨perm_solve σ, (perm_solve_apply σ x).1⟩

/-- **solveForward_left**: `Solve.forward` applies the left factor exactly once — the model's concatenate /
solve / slice / multiply equals `L · A⁻¹ · R` for every linear column-wise solve `A⁻¹`. -/
theorem solveForward_left_once {n o p : Nat} (ainv : Mat α n n) (L : Mat α o n) (R : Mat α n p) :
    (Matrix.of (solveForward ainv L R) : Matrix _ _ α) = Matrix.of L * Matrix.of ainv * Matrix.of R :=
  solveForward_model ainv L R

/-! ### `CholLinearOperator.inverse()` -/

/-- **cholInverse** (full, current code): the root `B` that `CholLinearOperator.inverse()` hands to `RootLinearOperator`
— `(L⁻¹)ᵀ` for a lower root, `R⁻¹` for an upper root, with `L⁻¹`/`R⁻¹` computed by the substitution the stored flag
selects — satisfies `B Bᵀ = A⁻¹`, for both orientations and every size. -/
theorem cholInverse_root {n : Nat} (upper : Bool) (T : Mat α n n)
    (hT : if upper then IsUpper T else IsLower T) (hd : ∀ i, T i i ≠ 0) :
    (Matrix.of (cholInverseRoot upper T) : Matrix (Fin n) (Fin n) α) * (Matrix.of (cholInverseRoot upper T))ᵀ
      = (if upper then (Matrix.of T)ᵀ * Matrix.of T else Matrix.of T * (Matrix.of T)ᵀ)⁻¹ := by
  cases upper
  · simpa using cholInverseRoot_lower T (by simpa using hT) hd
  · simpa using cholInverseRoot_upper T (by simpa using hT) hd

/-- `(L Lᵀ)⁻¹ = (L⁻¹)ᵀ L⁻¹` and `(RᵀR)⁻¹ = R⁻¹ (R⁻¹)ᵀ`: the inverse is a root times its transpose with the opposite
triangle first, so it is not of Cholesky form. -/
theorem cholInverse_orientation {ι : Type} [Fintype ι] [DecidableEq ι] (L : Matrix ι ι α) :
    (L * Lᵀ)⁻¹ = (L⁻¹)ᵀ * L⁻¹ ∧ (Lᵀ * L)⁻¹ = L⁻¹ * (L⁻¹)ᵀ :=
  ⟨chol_inverse_orientation L, chol_inverse_orientation_upper L⟩

/-! #### About the PREVIOUS code (defect D09, fixed in /repo by 05006ba) — kept so that a re-introduction is recognisable -/

/-- The previous `CholLinearOperator(L).inverse().solve(B)` ran `cholesky_solve(B, L⁻¹, upper=True)` on a lower-triangular
`L⁻¹`: only its diagonal was read, so the result was `diag(L⁻¹)⁻² B`, for every size. -/
theorem previous_cholInverse_reads_diagonal {n m : Nat} (linv : Mat α n n) (B : Mat α n m) (h : IsLower linv)
    (hd : ∀ i, linv i i ≠ 0) :
    cholInverseSolvePrevious false linv B = fun i j => B i j / linv i i / linv i i := by
  have inner : triSolveT true linv B = fun i j => B i j / linv i i := by
    funext i j
    have hb := fwdSub_spec n (Mat.transpose linv) (fun i => B i j) (fun i => hd i) i
    simp only [triSolveT, triSolve, tab1_eq, Bool.not_true, Bool.false_eq_true, if_false]
    have : ∑ l : Fin n, (if l ≤ i then Mat.transpose linv i l else 0) * fwdSub n (Mat.transpose linv) (fun i => B i j) l
        = linv i i * fwdSub n (Mat.transpose linv) (fun i => B i j) i := by
      rw [Finset.sum_eq_single i]
      · simp [Mat.transpose]
      · intro l _ hli
        by_cases hl : l ≤ i
        · simp [hl, Mat.transpose, h l i (lt_of_le_of_ne hl hli)]
        · simp [hl]
      · simp
    rw [this] at hb
    rw [← hb, mul_div_cancel_left₀ _ (hd i)]
  simp only [cholInverseSolvePrevious, cholSolve, Bool.not_false, if_true]
  rw [inner, triSolve_wrong_flag linv _ h hd]

/-- Counterexample for the previous code (exact rationals): `L = [[1,0],[1,1]]`, `B = e₂`: it returned `(0,1)`, the
specification `A B = L Lᵀ B` is `(1,2)`. -/
theorem previous_cholInverse_counterexample :
    ∃ (root linv : Mat Rat 2 2) (B : Mat Rat 2 1),
      Mat.mul root linv = Mat.one ∧
      cholInverseSolvePrevious false linv B 0 0 ≠ cholInverseSolveSpec false root B 0 0 := by
  refine ⟨fun i j => if j ≤ i then 1 else 0, fun i j => if i = j then 1 else if j < i then -1 else 0,
    fun i _ => if i = 1 then 1 else 0, ?_, ?_⟩
  · funext i j; fin_cases i <;> fin_cases j <;> decide +kernel
  · decide +kernel

/-- The hypotheses of the theorems above are satisfiable by non-trivial instances. -/
example : IsLower (fun i j : Fin 2 => if j ≤ i then (1 : Rat) else 0) := by
  intro i j hij
  have : ¬ j ≤ i := not_le.mpr hij
  simp [this]

example : selectSolve false 3 ⟨0, true, true, 15, 2000⟩ = .iterative ∧
    selectSolve false 3 ⟨800, true, true, 15, 2000⟩ = .cholesky ∧
    selectSolve true 3 ⟨0, true, true, 15, 2000⟩ = .structured ∧
    trace ⟨0, true, true, 5, 0⟩ (.kron (.addedDiag 2) (.block 2 (.gen 3))) = [.pivchol 2, .cg 2, .cg 3] := by
  decide

end LinOp.C04
