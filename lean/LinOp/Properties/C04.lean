import LinOp.C04.Proofs
import LinOp.C04.ProofsSelect
import LinOp.C04.ProofsCG
import LinOp.C04.ProofsKronN2
import LinOp.C04.ProofsBcast
import LinOp.C04.Expected
/-!
C04 — `solve` returns `A⁻¹B` (resp. `L A⁻¹ B`) whichever algorithm the library selects.  Property theorems only.

Scalars: any field `α` (the executions use `Rat`); floating point is not modelled.  Factorizations and the
iterative solver are parameters with explicit contracts (`L Lᵀ = A`, `Qᵀ Q = Q Qᵀ = I`, "CG returns a solution").
The model functions (`LinOp.C04.fwdSub`, `cholSolve`, `kronLoop2`, `solveForward`, `woodbury`, `selectSolve`,
`trace` …) are the ones the driver executes against the real library on every run.
-/
namespace LinOp.C04
open Matrix

variable {α : Type} [Field α]

/-! ### The translator tie: today's source is the source the model mirrors -/

/-- The regenerated branch structure of `functions/_solve.py::_solve`, `functions/_inv_quad.py::_solve`, the
CG stopping rule / iteration bound, the preconditioner switch and the table of classes overriding a
solve-related hook, and which linalg-dtype setting each operator method reads, are exactly the ones `selectSolve`, `selectInvQuad`, `trace` were written against. -/
theorem source_facts_mirrored :
    Generated.C04.solveTests = Expected.solveTests ∧ Generated.C04.solveReturns = Expected.solveReturns ∧
    Generated.C04.invQuadTests = Expected.invQuadTests ∧ Generated.C04.invQuadReturns = Expected.invQuadReturns ∧
    Generated.C04.cgStopTests = Expected.cgStopTests ∧ Generated.C04.cgNIter = Expected.cgNIter ∧
    Generated.C04.cgEps = Expected.cgEps ∧ Generated.C04.cgStopUpdatingAfter = Expected.cgStopUpdatingAfter ∧
    Generated.C04.precondSwitch = Expected.precondSwitch ∧ Generated.C04.hookTable = Expected.hookTable ∧
    Generated.C04.linalgDtypeReads = Expected.linalgDtypeReads := by
  decide +kernel

/-- Under today's default settings every operator that is not Chol/Triangular and has at most
`max_cholesky_size` (generated default) rows is solved through its Cholesky factor; larger ones iteratively. -/
theorem default_selection (n : Nat) :
    (n ≤ Generated.C04.maxCholeskySizeDefault → selectSolve false n defaultSettings = .cholesky) ∧
    (Generated.C04.maxCholeskySizeDefault < n → selectSolve false n defaultSettings = .iterative) := by
  have hf : defaultSettings.fastSolves = true := by decide
  have hm : defaultSettings.maxChol = Generated.C04.maxCholeskySizeDefault := rfl
  constructor <;> intro h <;> simp only [selectSolve, hf, hm]
  · simp [h]
  · have : ¬ n ≤ Generated.C04.maxCholeskySizeDefault := Nat.not_le.mpr h
    simp [this]

/-! ### Selection never changes the answer -/

/-- **solve_selection_contract** (the three-way form; `solve_any_branch` below is the per-class, per-algorithm form).
Whatever `(class tag, n, settings)` select, the value returned is `A⁻¹ B`, provided the
primitive of the branch taken meets its contract: the class's own structured solve returns a solution of
`A X = B` (discharged per class by the theorems below), the Cholesky oracle returns `L` with `L Lᵀ = A`
(lower; `cholSolve_upper` is the mirror image), the iterative solver returns a solution (CG's contract — C08). -/
theorem solve_selection_contract {ι κ : Type} [Fintype ι] [DecidableEq ι] [Fintype κ] [DecidableEq κ]
    (cholOrTri : Bool) (n : Nat) (s : Settings) (A L : Matrix ι ι α) (B Xs Xc : Matrix ι κ α)
    (hA : IsUnit A.det)
    (hstruct : selectSolve cholOrTri n s = .structured → A * Xs = B)
    (hchol : selectSolve cholOrTri n s = .cholesky → L * Lᵀ = A)
    (hcg : selectSolve cholOrTri n s = .iterative → A * Xc = B) :
    (match selectSolve cholOrTri n s with
      | .structured => Xs
      | .cholesky => (Lᵀ)⁻¹ * (L⁻¹ * B)
      | .iterative => Xc) = A⁻¹ * B := by
  cases h : selectSolve cholOrTri n s with
  | structured => exact solve_unique hA (hstruct h)
  | cholesky => exact cholSolve_lower B (hchol h)
  | iterative => exact solve_unique hA (hcg h)

/-- The selection functions are total and the `inv_quad` path differs from the `solve` path only by the
`log_prob` flag and the missing Chol/Triangular shortcut. -/
theorem selectInvQuad_eq (n : Nat) (s : Settings) (h : s.fastLogProb = true) :
    selectInvQuad n s = selectSolve false n s := by
  simp [selectInvQuad, selectSolve, h]

/-- `fast_computations(solves=False)`: no CG anywhere in the solve of any operator tree. -/
theorem fast_off_never_runs_cg (s : Settings) (h : s.fastSolves = false) (op : Op) :
    ∀ e ∈ trace s op, e.isCg = false := trace_no_cg_of_fast_off s h op

/-- CG anywhere in the solve of `op` ⇒ the operator is not Chol/Triangular, fast solves are on and
`size > max_cholesky_size`. -/
theorem cg_only_above_threshold (s : Settings) (op : Op) (e : Ev) (he : e ∈ trace s op) (hc : e.isCg = true) :
    op.isCholOrTri = false ∧ s.fastSolves = true ∧ s.maxChol < op.size :=
  trace_cg_imp_iterative s op e he hc

/-! ### Direct paths -/

/-- **cholSolve_refines** (lower): `L Lᵀ = A ⇒ L⁻ᵀ(L⁻¹B) = A⁻¹B`. -/
theorem cholSolve_refines {ι κ : Type} [Fintype ι] [DecidableEq ι] [Fintype κ] [DecidableEq κ] (L A : Matrix ι ι α) (B : Matrix ι κ α)
    (h : L * Lᵀ = A) : (Lᵀ)⁻¹ * (L⁻¹ * B) = A⁻¹ * B := cholSolve_lower B h

/-- **cholSolve_refines** (upper): `RᵀR = A ⇒ R⁻¹(R⁻ᵀB) = A⁻¹B`. -/
theorem cholSolve_refines_upper {ι κ : Type} [Fintype ι] [DecidableEq ι] [Fintype κ] [DecidableEq κ] (R A : Matrix ι ι α) (B : Matrix ι κ α)
    (h : Rᵀ * R = A) : R⁻¹ * ((Rᵀ)⁻¹ * B) = A⁻¹ * B := cholSolve_upper B h

/-- **triSolve_orientation.**  The substitution chosen by the stored `upper` flag inverts a triangular tensor of
the matching orientation, for every size: forward substitution for lower, back substitution for upper. -/
theorem triSolve_orientation {n m : Nat} (upper : Bool) (T : Mat α n n) (B : Mat α n m)
    (hT : if upper then IsUpper T else IsLower T) (hd : ∀ i, T i i ≠ 0) :
    (Matrix.of (triSolve upper T B) : Matrix (Fin n) (Fin m) α) = (Matrix.of T)⁻¹ * Matrix.of B := by
  cases upper
  · exact triSolve_lower T B (by simpa using hT) hd
  · exact triSolve_upper T B (by simpa using hT) hd

/-- The substitutions solve the triangular PART named by the flag, whatever the other triangle holds
(what `solve_triangular` does when flag and data disagree). -/
theorem substitution_reads_one_triangle (n : Nat) (T : Mat α n n) (b : Fin n → α) (hd : ∀ i, T i i ≠ 0) :
    (∀ i, ∑ j : Fin n, (if j ≤ i then T i j else 0) * fwdSub n T b j = b i) ∧
    (∀ i, ∑ j : Fin n, (if i ≤ j then T i j else 0) * bwdSub n T b j = b i) :=
  ⟨fwdSub_spec n T b hd, bwdSub_spec n T b hd⟩

/-- `TriangularLinearOperator._cholesky_solve` (both orientations) on the model: two substitutions in the order
fixed by `upper` give `(L Lᵀ)⁻¹B` resp. `(RᵀR)⁻¹B`. -/
theorem cholSolve_model_refines {n m : Nat} (upper : Bool) (T : Mat α n n) (B : Mat α n m)
    (hT : if upper then IsUpper T else IsLower T) (hd : ∀ i, T i i ≠ 0) :
    (Matrix.of (cholSolve upper T B) : Matrix (Fin n) (Fin m) α)
      = (if upper then (Matrix.of T)ᵀ * Matrix.of T else Matrix.of T * (Matrix.of T)ᵀ)⁻¹ * Matrix.of B := by
  cases upper
  · simpa using cholSolve_model_lower T B (by simpa using hT) hd
  · simpa using cholSolve_model_upper T B (by simpa using hT) hd

/-- **diagSolve** and the diagonal Cholesky solve (`rhs / diag²`). -/
theorem diagSolve_refines {n m : Nat} (d : Fin n → α) (hd : ∀ i, d i ≠ 0) (B : Mat α n m) :
    (Matrix.of (LinOp.C04.diagSolve d B) : Matrix (Fin n) (Fin m) α) = (diagonal d)⁻¹ * Matrix.of B ∧
    (Matrix.of (diagCholSolve d B) : Matrix (Fin n) (Fin m) α) = (diagonal d * (diagonal d)ᵀ)⁻¹ * Matrix.of B :=
  ⟨diagSolve_model d hd B, diagCholSolve_model d hd B⟩

open scoped Kronecker in
/-- **kronSolve**: `(A ⊗ B)⁻¹ = A⁻¹ ⊗ B⁻¹` (two and three factors). -/
theorem kronSolve_inv {ι κ μ : Type} [Fintype ι] [DecidableEq ι] [Fintype κ] [DecidableEq κ] [Fintype μ] [DecidableEq μ]
    (A : Matrix ι ι α) (B : Matrix κ κ α) (C : Matrix μ μ α) :
    (A ⊗ₖ B)⁻¹ = A⁻¹ ⊗ₖ B⁻¹ ∧ ((A ⊗ₖ B) ⊗ₖ C)⁻¹ = (A⁻¹ ⊗ₖ B⁻¹) ⊗ₖ C⁻¹ := ⟨kronSolve A B, kronSolve3 A B C⟩

/-- **kronSolve through the loop**: the reshape → factor-solve → reshape/permute loop of
`KroneckerProductLinearOperator._solve`, fed exact factor solves, returns `(A ⊗ B)⁻¹ · rhs` on row-major
flattened indices, for all factor sizes and any number of right-hand-side columns. -/
theorem kronLoop_refines {n1 n2 c : Nat} (A : Mat α n1 n1) (B : Mat α n2 n2) (rhs : Mat α (n1 * n2) c) :
    (Matrix.of (kronLoop2 ((Matrix.of A)⁻¹ : Matrix (Fin n1) (Fin n1) α) ((Matrix.of B)⁻¹ : Matrix (Fin n2) (Fin n2) α) rhs)
        : Matrix _ _ α)
      = (Matrix.of (kronDense A B))⁻¹ * Matrix.of rhs := kronLoop2_solves A B rhs

/-- **kpadlo_constDiag_solve**: `Q(Λ+cI)⁻¹Qᵀ` solves `(QΛQᵀ + cI)X = B` when `QᵀQ = QQᵀ = I`, also in the
half-step form `Q(Λ+c)^{-1/2} · (Λ+c)^{-1/2}Qᵀ` the code evaluates. -/
theorem kpadlo_constDiag {ι κ : Type} [Fintype ι] [DecidableEq ι] [Fintype κ] [DecidableEq κ] (Q : Matrix ι ι α) (ev r : ι → α) (c : α)
    (h1 : Qᵀ * Q = 1) (h2 : Q * Qᵀ = 1) (hr : ∀ i, r i * r i = ev i + c) (hr0 : ∀ i, r i ≠ 0) (B : Matrix ι κ α) :
    (Q * diagonal (fun i => (r i)⁻¹)) * (diagonal (fun i => (r i)⁻¹) * (Qᵀ * B))
      = (Q * diagonal ev * Qᵀ + c • (1 : Matrix ι ι α))⁻¹ * B := kpadlo_constDiag_sqrt ev r c h1 h2 hr hr0 B

/-- **kpadlo_kronConst_solve** (Kronecker-structured constant diagonal `D = d·I`): `D⁻¹Q(Λ/d + I)⁻¹Qᵀ`. -/
theorem kpadlo_kronConst {ι κ : Type} [Fintype ι] [DecidableEq ι] [Fintype κ] [DecidableEq κ] (Q : Matrix ι ι α) (ev : ι → α) (d : α) (hd : d ≠ 0)
    (h1 : Qᵀ * Q = 1) (h2 : Q * Qᵀ = 1) (hne : ∀ i, ev i / d + 1 ≠ 0) (B : Matrix ι κ α) :
    (Q * diagonal ev * Qᵀ + d • (1 : Matrix ι ι α))⁻¹ * B
      = d⁻¹ • (Q * (diagonal (fun i => (ev i / d + 1)⁻¹) * (Qᵀ * B))) := kpadlo_kronConst_solve ev d hd h1 h2 hne B

/-- **woodbury_solve** on the model: `LowRankRootAddedDiagLinearOperator._solve` with the exact capacitance
inverse returns `(D + UUᵀ)⁻¹B`. -/
theorem woodbury_refines {n k m : Nat} (d : Fin n → α) (hd : ∀ i, d i ≠ 0) (U : Mat α n k) (B : Mat α n m)
    (hC : IsUnit ((1 : Matrix (Fin k) (Fin k) α) + (Matrix.of U)ᵀ * (diagonal d)⁻¹ * Matrix.of U).det) :
    (Matrix.of (woodbury d U
        (((1 : Matrix (Fin k) (Fin k) α) + (Matrix.of U)ᵀ * (diagonal d)⁻¹ * Matrix.of U)⁻¹ : Matrix (Fin k) (Fin k) α) B)
        : Matrix _ _ α)
      = (diagonal d + Matrix.of U * (Matrix.of U)ᵀ)⁻¹ * Matrix.of B := woodbury_model d hd U B hC

/-- **block_solve**: block-diagonal inverse = block diagonal of the inverses. -/
theorem block_solve_refines {ι μ : Type} [Fintype ι] [DecidableEq ι] [Fintype μ] [DecidableEq μ]
    (M : μ → Matrix ι ι α) (h : ∀ k, IsUnit (M k).det) :
    (blockDiagonal M)⁻¹ = blockDiagonal fun k => (M k)⁻¹ := block_solve M h

/-- **perm_solve**: `P⁻¹ = Pᵀ`, and on vectors `x ↦ x ∘ σ` is undone by `x ↦ x ∘ σ⁻¹`. -/
theorem perm_solve_refines {ι β : Type} [Fintype ι] [DecidableEq ι] (σ : Equiv.Perm ι) (x : ι → β) :
    (σ.permMatrix α)⁻¹ = (σ.permMatrix α)ᵀ ∧ permApply σ⁻¹ (permApply σ x) = x :=
  ⟨perm_solve σ, (perm_solve_apply σ x).1⟩

/-- **solveForward_left**: `Solve.forward` applies the left factor exactly once — the model's concatenate /
solve / slice / multiply equals `L · A⁻¹ · R` for every linear column-wise solve `A⁻¹`. -/
theorem solveForward_left_once {n o p : Nat} (ainv : Mat α n n) (L : Mat α o n) (R : Mat α n p) :
    (Matrix.of (solveForward ainv L R) : Matrix _ _ α) = Matrix.of L * Matrix.of ainv * Matrix.of R :=
  solveForward_model ainv L R

/-! ### `CholLinearOperator.inverse()` -/

/-- **cholInverse** (full, current code): the root `B` that `CholLinearOperator.inverse()` hands to `RootLinearOperator`
— `(L⁻¹)ᵀ` for a lower root, `R⁻¹` for an upper root, with `L⁻¹`/`R⁻¹` computed by the substitution the stored flag
selects — satisfies `B Bᵀ = A⁻¹`, for both orientations and every size. -/
theorem cholInverse_root {n : Nat} (upper : Bool) (T : Mat α n n)
    (hT : if upper then IsUpper T else IsLower T) (hd : ∀ i, T i i ≠ 0) :
    (Matrix.of (cholInverseRoot upper T) : Matrix (Fin n) (Fin n) α) * (Matrix.of (cholInverseRoot upper T))ᵀ
      = (if upper then (Matrix.of T)ᵀ * Matrix.of T else Matrix.of T * (Matrix.of T)ᵀ)⁻¹ := by
  cases upper
  · simpa using cholInverseRoot_lower T (by simpa using hT) hd
  · simpa using cholInverseRoot_upper T (by simpa using hT) hd

/-- `(L Lᵀ)⁻¹ = (L⁻¹)ᵀ L⁻¹` and `(RᵀR)⁻¹ = R⁻¹ (R⁻¹)ᵀ`: the inverse is a root times its transpose with the opposite
triangle first, so it is not of Cholesky form. -/
theorem cholInverse_orientation {ι : Type} [Fintype ι] [DecidableEq ι] (L : Matrix ι ι α) :
    (L * Lᵀ)⁻¹ = (L⁻¹)ᵀ * L⁻¹ ∧ (Lᵀ * L)⁻¹ = L⁻¹ * (L⁻¹)ᵀ :=
  ⟨chol_inverse_orientation L, chol_inverse_orientation_upper L⟩

/-! #### About the PREVIOUS code (defect D09, fixed in /repo by 05006ba) — kept so that a re-introduction is recognisable -/

/-- The previous `CholLinearOperator(L).inverse().solve(B)` ran `cholesky_solve(B, L⁻¹, upper=True)` on a lower-triangular
`L⁻¹`: only its diagonal was read, so the result was `diag(L⁻¹)⁻² B`, for every size. -/
theorem previous_cholInverse_reads_diagonal {n m : Nat} (linv : Mat α n n) (B : Mat α n m) (h : IsLower linv)
    (hd : ∀ i, linv i i ≠ 0) :
    cholInverseSolvePrevious false linv B = fun i j => B i j / linv i i / linv i i := by
  have inner : triSolveT true linv B = fun i j => B i j / linv i i := by
    funext i j
    have hb := fwdSub_spec n (Mat.transpose linv) (fun i => B i j) (fun i => hd i) i
    simp only [triSolveT, triSolve, tab1_eq, Bool.not_true, Bool.false_eq_true, if_false]
    have : ∑ l : Fin n, (if l ≤ i then Mat.transpose linv i l else 0) * fwdSub n (Mat.transpose linv) (fun i => B i j) l
        = linv i i * fwdSub n (Mat.transpose linv) (fun i => B i j) i := by
      rw [Finset.sum_eq_single i]
      · simp [Mat.transpose]
      · intro l _ hli
        by_cases hl : l ≤ i
        · simp [hl, Mat.transpose, h l i (lt_of_le_of_ne hl hli)]
        · simp [hl]
      · simp
    rw [this] at hb
    rw [← hb, mul_div_cancel_left₀ _ (hd i)]
  simp only [cholInverseSolvePrevious, cholSolve, Bool.not_false, if_true]
  rw [inner, triSolve_wrong_flag linv _ h hd]

/-- Counterexample for the previous code (exact rationals): `L = [[1,0],[1,1]]`, `B = e₂`: it returned `(0,1)`, the
specification `A B = L Lᵀ B` is `(1,2)`. -/
theorem previous_cholInverse_counterexample :
    ∃ (root linv : Mat Rat 2 2) (B : Mat Rat 2 1),
      Mat.mul root linv = Mat.one ∧
      cholInverseSolvePrevious false linv B 0 0 ≠ cholInverseSolveSpec false root B 0 0 := by
  refine ⟨fun i j => if j ≤ i then 1 else 0, fun i j => if i = j then 1 else if j < i then -1 else 0,
    fun i _ => if i = 1 then 1 else 0, ?_, ?_⟩
  · funext i j; fin_cases i <;> fin_cases j <;> decide +kernel
  · decide +kernel


/-! ### The decision function and every algorithm it can select (update 4) -/

/-- **solve_any_branch** (strengthened).  `methodOf` is the total decision function mirrored from the code
(`solveMethod = methodOf .solve`): entry point × operator class × size × settings × cache state ↦ algorithm.  For EVERY
combination, if the selected algorithm — the modelled computation (`triSolve`, `cholSolve`, `diagSolve`, `kronLoop2`,
`kpadloConstSolve2`, `kpadloKronConstSolve2`, `kpadloSymmSolve2`, `sumKronSolve2`, `woodbury`, Cholesky fresh / cached / from a cached
triangular root, CG) fed with primitive outputs that meet their contracts (`Runs`) — returns `X` for the operator with dense
matrix `A` and right-hand side `B`, then `X = A⁻¹ B`. -/
theorem solve_any_branch (e : Entry) (cls : OpClass) (n : Nat) (s : Settings) (cache : CacheState)
    {N c : Nat} (A : Matrix (Fin N) (Fin N) α) (B X : Matrix (Fin N) (Fin c) α) (hA : IsUnit A.det)
    (hrun : Runs (methodOf e cls n s cache) N c A B X) : X = A⁻¹ * B := hrun.correct hA

/-- … with a left factor: `Solve.forward` concatenates `[Lᵀ | R]`, runs the selected algorithm ONCE on it, slices the last `p`
columns and multiplies by `L`; the result is `L A⁻¹ R` for every combination. -/
theorem solve_any_branch_left (e : Entry) (cls : OpClass) (n : Nat) (s : Settings) (cache : CacheState)
    {N o p : Nat} (A : Matrix (Fin N) (Fin N) α) (L : Matrix (Fin o) (Fin N) α) (R : Matrix (Fin N) (Fin p) α)
    (X : Matrix (Fin N) (Fin (o + p)) α) (hA : IsUnit A.det)
    (hrun : Runs (methodOf e cls n s cache) N (o + p) A (catLR L R) X) : L * sliceR X = L * A⁻¹ * R := by
  rw [hrun.correct hA, slice_solve, Matrix.mul_assoc]

/-- The decision function is defined (never `unmodelled`) for every class, size, settings and cache state on the `solve` and
`inv_quad` entry points, and on `inv_quad_logdet` for the classes that inherit the base implementation. -/
theorem solveMethod_total (cls : OpClass) (n : Nat) (s : Settings) (c : CacheState) :
    solveMethod cls n s c ≠ .unmodelled ∧ methodOf .invQuad cls n s c ≠ .unmodelled ∧
    (cls.baseInvQuadLogdet = true → methodOf .invQuadLogdet cls n s c ≠ .unmodelled) := by
  refine ⟨methodOf_solve_modelled cls n s c, methodOf_invQuad_modelled cls n s c, fun hb => ?_⟩
  unfold methodOf
  simp only [hb, Bool.not_true, Bool.false_eq_true, if_false]
  split
  · split
    · simp
    · split <;> simp
  · cases hsel : selectInvQuad n s with
    | iterative => exact innerSolve_modelled cls n s _
    | cholesky => simp
    | structured => simp

/-- **Cached factors.**  `solve` / `inv_quad` rebuild the operator from its representation, so a Cholesky factor or root cached on
the caller's object never changes their algorithm (only LowRankRootAddedDiag's own `chol_cap_mat` does, and only for `solve`, which
that class overrides; `inv_quad` sees no cache at all); the base
`inv_quad_logdet` in its Cholesky branch uses a cached triangular root first, a cached Cholesky factor second, and factorizes
otherwise — all three are inside `solve_any_branch` (`Runs.cholFromRoot`, `.cholCached`, `.cholFresh`). -/
theorem cached_factor_branches (cls : OpClass) (n : Nat) (s : Settings) (c : CacheState) :
    (solveMethod cls n s c = solveMethod cls n s ⟨false, false, c.capChol⟩ ∧
      methodOf .invQuad cls n s c = methodOf .invQuad cls n s ⟨false, false, false⟩) ∧
    (cls.baseInvQuadLogdet = true → (s.fastLogProb = false ∨ n ≤ s.maxChol) →
      methodOf .invQuadLogdet cls n s c
        = if c.triRoot then .cholFromRoot else if c.chol then .cholCached else .cholFresh) := by
  refine ⟨⟨?_, ?_⟩, fun hb hsel => ?_⟩
  · unfold solveMethod methodOf; cases cls <;> simp [ownSolve, innerSolve] <;> split <;> rfl
  · unfold methodOf; rfl
  · unfold methodOf
    have : ((!s.fastLogProb) || decide (n ≤ s.maxChol)) = true := by
      rcases hsel with h | h <;> simp [h]
    simp [hb, this]

/-- The decision function agrees with the trace model (`trace`, compared with the library's `verbose_linalg` log on every run):
`pcg` ⇔ the log is one CG run (preceded by the pivoted-Cholesky event exactly for `pcg true`), `cholFresh` ⇔ the log is the
Cholesky event. -/
theorem solveMethod_matches_trace (s : Settings) (n : Nat) :
    (solveMethod .generic n s ⟨false, false, false⟩ = .pcg false ↔ trace s (.gen n) = [.cg n]) ∧
    (solveMethod .addedDiag n s ⟨false, false, false⟩ = .pcg true ↔ trace s (.addedDiag n) = [.pivchol n, .cg n]) ∧
    (solveMethod .addedDiag n s ⟨false, false, false⟩ = .pcg false ↔ trace s (.addedDiag n) = [.cg n]) ∧
    (solveMethod .generic n s ⟨false, false, false⟩ = .cholFresh ↔ trace s (.gen n) = cholEv n) :=
  methodOf_trace_consistent s n

/-! ### Eigen-structured solves: full refinement theorems -/

/-- **Eigen-systems are closed under Kronecker products** — on Mathlib's product index and on the row-major flattened index the
code uses (`KD` = `kronDense`).  The flattened form is again `Fin`-indexed, so iterating it gives the eigen-system of a Kronecker
product of ANY number of factors (`K₁ ⊗ (K₂ ⊗ (… ⊗ K_m))`): the contract of `KroneckerProductLinearOperator.diagonalization()`
follows from the contracts of the factors' `eigh`. -/
theorem eig_kron_closed {n1 n2 : Nat} {K1 Q1 : Matrix (Fin n1) (Fin n1) α} {e1 : Fin n1 → α}
    {K2 Q2 : Matrix (Fin n2) (Fin n2) α} {e2 : Fin n2 → α} (h1 : IsEig K1 Q1 e1) (h2 : IsEig K2 Q2 e2) :
    IsEig (KD K1 K2) (KD Q1 Q2) (kronVec e1 e2) ∧
    IsEig (Matrix.kroneckerMap (· * ·) K1 K2) (Matrix.kroneckerMap (· * ·) Q1 Q2) (fun p => e1 p.1 * e2 p.2) :=
  ⟨IsEig.kronDense h1 h2, IsEig.kron h1 h2⟩

/-- **kronLoopN_refines** (any number of Kronecker factors): the loop of `KroneckerProductLinearOperator._solve` / `_matmul` —
for each factor `reshape(n, -1)`, apply the factor (solve), `reshape(n, R/n, c).permute(1, 0, 2)` — run on the flat row-major
buffer (`kronLoopN`, the function the driver executes against `_solve` of 2-, 3- and 4-factor operators) returns
`(M_1 ⊗ … ⊗ M_N) · rhs` entry by entry, for every list of factors, all sizes and any number of columns.  Proof: induction over
the factor list with the layout invariant `(remaining multi-index, rotated earlier indices, column)`. -/
theorem kronLoopN_refines {β : Type} [CommRing β] (c : Nat) (L : List (Nat × (Nat → Nat → β))) (y : Array β) (p k : Nat)
    (hp : p < prodSizes L) (hk : k < c) :
    (kronLoopN (prodSizes L) c L y).getD (p * c + k) 0
      = ∑ q ∈ Finset.range (prodSizes L), kronEntryN L p q * y.getD (q * c + k) 0 :=
  kronLoopN_spec c L y p k hp hk

/-- mixed-product property on flat indices, any number of factors: `(⊗ A_i)(⊗ B_i) = ⊗ (A_i B_i)` — with `B_i` the factor
solves (`A_i B_i = I`) the loop output solves the Kronecker system. -/
theorem kronEntryN_mixed_product {β : Type} [CommRing β] (A B : List (Nat × (Nat → Nat → β))) (h : SameSizes A B)
    (p r : Nat) (hp : p < prodSizes A) :
    ∑ q ∈ Finset.range (prodSizes A), kronEntryN A p q * kronEntryN B q r = kronEntryN (listMul A B) p r :=
  kronEntryN_mul A B h p r hp

/-- **kronLoopN_solve_refines** (any number of Kronecker factors): fed with the factor solves `B_i` (`A_i B_i = I` on the factor's
index range — the contract of each factor's `solve`), the loop output `X` satisfies `(A_1 ⊗ … ⊗ A_N) X = rhs` entry by entry; together
with invertibility this is `X = (⊗A_i)⁻¹ rhs`. -/
theorem kronLoopN_solve_refines {β : Type} [CommRing β] (c : Nat) (A B : List (Nat × (Nat → Nat → β))) (hs : SameSizes A B)
    (hf : FactorInv A B) (y : Array β) (p k : Nat) (hp : p < prodSizes A) (hk : k < c) :
    ∑ q ∈ Finset.range (prodSizes A), kronEntryN A p q * (kronLoopN (prodSizes A) c B y).getD (q * c + k) 0
      = y.getD (p * c + k) 0 :=
  kronLoopN_solves' c A B hs hf y p k hp hk

example : SameSizes [((1 : Nat), fun _ _ => (2 : Rat))] [(1, fun _ _ => 1 / 2)] ∧
    FactorInv [((1 : Nat), fun _ _ => (2 : Rat))] [(1, fun _ _ => 1 / 2)] := by
  refine ⟨⟨rfl, trivial⟩, ⟨fun i k hi hk => ?_, trivial⟩⟩
  have h1 : i = 0 := by omega
  have h2 : k = 0 := by omega
  subst h1 h2
  norm_num

/-- **kpadlo_constDiag_solve_refines**: the modelled constant-diagonal branch of `KroneckerProductAddedDiagLinearOperator._solve`
(Kronecker matmul loops, `(Λ₁⊗Λ₂ + c)^{-1/2}` applied twice) equals `(K₁⊗K₂ + cI)⁻¹ rhs`, given the contracts of `eigh` per factor and of
`sqrt` at the shifted eigenvalues; all factor sizes, any number of columns. -/
theorem kpadlo_constDiag_solve_refines {n1 n2 c : Nat} (sq : α → α) {K1 : Matrix (Fin n1) (Fin n1) α} {Q1 : Mat α n1 n1}
    {e1 : Fin n1 → α} {K2 : Matrix (Fin n2) (Fin n2) α} {Q2 : Mat α n2 n2} {e2 : Fin n2 → α}
    (h1 : IsEig K1 (Matrix.of Q1) e1) (h2 : IsEig K2 (Matrix.of Q2) e2) (cst : α)
    (hsq : ∀ p, sq (kronVec e1 e2 p + cst) * sq (kronVec e1 e2 p + cst) = kronVec e1 e2 p + cst)
    (hpos : ∀ p, kronVec e1 e2 p + cst ≠ 0) (rhs : Mat α (n1 * n2) c) :
    (Matrix.of (kpadloConstSolve2 sq Q1 Q2 e1 e2 cst rhs) : Matrix _ _ α)
      = (KD K1 K2 + cst • (1 : Matrix _ _ α))⁻¹ * Matrix.of rhs :=
  kpadloConstSolve2_refines sq h1 h2 cst hsq hpos rhs

/-- **kpadlo_kronConst_solve_refines**: diagonal `(d₁I) ⊗ (d₂I)` (`_constant_kpadlt_constructor`). -/
theorem kpadlo_kronConst_solve_refines {n1 n2 c : Nat} {K1 : Matrix (Fin n1) (Fin n1) α} {Q1 : Mat α n1 n1} {e1 : Fin n1 → α}
    {K2 : Matrix (Fin n2) (Fin n2) α} {Q2 : Mat α n2 n2} {e2 : Fin n2 → α}
    (h1 : IsEig K1 (Matrix.of Q1) e1) (h2 : IsEig K2 (Matrix.of Q2) e2) (d1 d2 : α)
    (hd1 : d1 ≠ 0) (hd2 : d2 ≠ 0) (hne : ∀ p, kronVec e1 e2 p / (d1 * d2) + 1 ≠ 0) (rhs : Mat α (n1 * n2) c) :
    (Matrix.of (kpadloKronConstSolve2 Q1 Q2 e1 e2 d1 d2 rhs) : Matrix _ _ α)
      = (KD K1 K2 + KD (diagonal fun _ => d1) (diagonal fun _ => d2))⁻¹ * Matrix.of rhs :=
  kpadloKronConstSolve2_refines h1 h2 d1 d2 hd1 hd2 hne rhs

/-- **kpadlo_symmetrised_solve_refines**: diagonal `D₁ ⊗ D₂` with arbitrary non-zero diagonals (`_symmetrize_kpadlt_constructor`):
`S Q̃ (Λ̃+1)⁻¹ Q̃ᵀ S rhs = (K₁⊗K₂ + D₁⊗D₂)⁻¹ rhs` with `S = ⊗ D_i^{-1/2}` and `(Q̃_i, Λ̃_i)` the eigen-system of `S_i K_i S_i`. -/
theorem kpadlo_symmetrised_solve_refines {n1 n2 c : Nat} (sq : α → α) (K1 : Matrix (Fin n1) (Fin n1) α) (Q1 : Mat α n1 n1)
    (e1 d1 : Fin n1 → α) (K2 : Matrix (Fin n2) (Fin n2) α) (Q2 : Mat α n2 n2) (e2 d2 : Fin n2 → α)
    (hsq1 : ∀ i, sq (d1 i) * sq (d1 i) = d1 i) (hsq2 : ∀ j, sq (d2 j) * sq (d2 j) = d2 j)
    (hd1 : ∀ i, d1 i ≠ 0) (hd2 : ∀ j, d2 j ≠ 0)
    (h1 : IsEig (diagonal (fun i => 1 / sq (d1 i)) * K1 * diagonal (fun i => 1 / sq (d1 i))) (Matrix.of Q1) e1)
    (h2 : IsEig (diagonal (fun j => 1 / sq (d2 j)) * K2 * diagonal (fun j => 1 / sq (d2 j))) (Matrix.of Q2) e2)
    (hne : ∀ p, kronVec e1 e2 p + 1 ≠ 0) (rhs : Mat α (n1 * n2) c) :
    (Matrix.of (kpadloSymmSolve2 sq Q1 Q2 e1 e2 d1 d2 rhs) : Matrix _ _ α)
      = (KD K1 K2 + KD (diagonal d1) (diagonal d2))⁻¹ * Matrix.of rhs :=
  kpadloSymmSolve2_refines sq K1 Q1 e1 d1 K2 Q2 e2 d2 hsq1 hsq2 hd1 hd2 h1 h2 hne rhs

/-- **sumKron_solve_refines**: `SumKroneckerLinearOperator._solve` — `R (⊗(R_iᵀ A_i R_i) + I)⁻¹ Rᵀ rhs = (A₁⊗A₂ + C₁⊗C₂)⁻¹ rhs` given
`R_i R_iᵀ = C_i⁻¹` (contract of `root_inv_decomposition`) and an inner solve that returns the inner solution (discharged by
`kpadlo_constDiag_solve_refines` with `c = 1`, or by the Cholesky branch). -/
theorem sumKron_solve_refines {n1 n2 c : Nat} (A1 C1 : Matrix (Fin n1) (Fin n1) α) (R1 : Mat α n1 n1)
    (A2 C2 : Matrix (Fin n2) (Fin n2) α) (R2 : Mat α n2 n2) (hC1 : IsUnit C1.det) (hC2 : IsUnit C2.det)
    (hR1 : Matrix.of R1 * (Matrix.of R1)ᵀ = C1⁻¹) (hR2 : Matrix.of R2 * (Matrix.of R2)ᵀ = C2⁻¹)
    (innerSolve : Mat α (n1 * n2) c → Mat α (n1 * n2) c)
    (hinner : ∀ X, (Matrix.of (innerSolve X) : Matrix _ _ α)
      = (KD ((Matrix.of R1)ᵀ * A1 * Matrix.of R1) ((Matrix.of R2)ᵀ * A2 * Matrix.of R2) + 1)⁻¹ * Matrix.of X)
    (rhs : Mat α (n1 * n2) c) :
    (Matrix.of (sumKronSolve2 R1 R2 innerSolve rhs) : Matrix _ _ α) = (KD A1 A2 + KD C1 C2)⁻¹ * Matrix.of rhs :=
  sumKronSolve2_refines A1 C1 R1 A2 C2 R2 hC1 hC2 hR1 hR2 innerSolve hinner rhs

/-- **batchRepeat_solve_refines**: `BatchRepeatLinearOperator._cholesky_solve` (repeats moved into columns, base solve, moved back)
solves member `p = rep·b + bi` of the repeated batch with base member `bi`, for every repeat count, base batch size, size and
number of columns. -/
theorem batchRepeat_solve_refines {r b n c : Nat} (A : Fin b → Matrix (Fin n) (Fin n) α)
    (X : Fin (r * b) → Mat α n c) (p : Fin (r * b)) :
    (Matrix.of (batchRepeatSolve (fun bi => ((A bi)⁻¹ : Matrix _ _ α)) X p) : Matrix _ _ α)
      = (A (sndIdx p))⁻¹ * Matrix.of (X p) := batchRepeatSolve_refines A X p

/-- `CholLinearOperator.inv_quad` (one substitution, then squares): `(L⁻¹B)ᵀ(L⁻¹B) = Bᵀ (L Lᵀ)⁻¹ B`. -/
theorem cholHalf_inv_quad {ι κ : Type} [Fintype ι] [DecidableEq ι] [Fintype κ] [DecidableEq κ] (L : Matrix ι ι α)
    (B : Matrix ι κ α) : (L⁻¹ * B)ᵀ * (L⁻¹ * B) = Bᵀ * ((L * Lᵀ)⁻¹ * B) := by
  rw [Matrix.transpose_mul, Matrix.mul_inv_rev, Matrix.transpose_nonsing_inv]
  simp only [Matrix.mul_assoc]

/-! ### The iterative branch: composition with C08 (imported theorems) -/

/-- **cg_branch_exact** (C08 `exact_at_n` composed with the matrix closures of `LinearOperator._solve`): preconditioned CG on a
symmetric positive definite `A` with a symmetric preconditioner `W` returns `A⁻¹ b̂` after `n` regular steps — the hypothesis
`A X = B` of the `pcg` case of `solve_any_branch`, in exact arithmetic. -/
theorem cg_branch_exact_solution {n : Nat} {N : C08.NumOps ℝ} (hN : C08.Lawful N) (P : C08.Params ℝ) (he : 0 < P.eps)
    (hp : P.precond = true) (A W : Matrix (Fin n) (Fin n) ℝ) (hAs : Aᵀ = A)
    (hApd : ∀ v : C08.Vec ℝ n, v ≠ 0 → 0 < C08.dot v (A.mulVec v)) (hWs : Wᵀ = W) (b x0 : C08.Vec ℝ n)
    (hreg : ∀ j < n, C08.Regular P (matSys A W b x0) (C08.traj N P (matSys A W b x0) j)) :
    (C08.traj N P (matSys A W b x0) n).x = (A⁻¹).mulVec (C08.prep N P (matSys A W b x0)).b :=
  cg_branch_exact hN P he hp A W hAs hApd hWs b x0 hreg

/-- **cg_branch_within_bound** (C08 `chebyshev_rate_pre` composed): preconditioned CG on `A` with the pivoted-Cholesky
preconditioner `W = (L_k L_kᵀ + D)⁻¹` (symmetric positive definite by `pivchol_preconditioner_spd`) approaches `A⁻¹ b̂` within the C08
bound `2 ((√κ−1)/(√κ+1))^j` in the `A`-norm, `κ = lmax/lmin` the condition number of the preconditioned operator. -/
theorem cg_branch_within_bound {n : Nat} {N : C08.NumOps ℝ} (hN : C08.Lawful N) (P : C08.Params ℝ) (he : 0 < P.eps)
    (hp : P.precond = true) (A W : Matrix (Fin n) (Fin n) ℝ) (hAs : Aᵀ = A)
    (hApd : ∀ v : C08.Vec ℝ n, v ≠ 0 → 0 < C08.dot v (A.mulVec v))
    (hWs : Wᵀ = W) (hWpd : ∀ v : C08.Vec ℝ n, v ≠ 0 → 0 < C08.dot v (W.mulVec v)) (b x0 : C08.Vec ℝ n)
    (lmin lmax : ℝ) (hpos : 0 < lmin) (hle : lmin ≤ lmax)
    (hlo : ∀ y : C08.Vec ℝ n, lmin * C08.dot y (W.mulVec y) ≤ C08.dot (W.mulVec y) (A.mulVec (W.mulVec y)))
    (hhi : ∀ y : C08.Vec ℝ n, C08.dot (W.mulVec y) (A.mulVec (W.mulVec y)) ≤ lmax * C08.dot y (W.mulVec y))
    (j : Nat) (hreg : ∀ i < j, C08.Regular P (matSys A W b x0) (C08.traj N P (matSys A W b x0) i)) :
    Real.sqrt (C08.errA (matSys A W b x0) ((A⁻¹).mulVec (C08.prep N P (matSys A W b x0)).b)
        (C08.traj N P (matSys A W b x0) j).x)
      ≤ 2 * C08.rho lmin lmax ^ j
        * Real.sqrt (C08.errA (matSys A W b x0) ((A⁻¹).mulVec (C08.prep N P (matSys A W b x0)).b)
            (C08.traj N P (matSys A W b x0) 0).x) :=
  cg_branch_rate hN P he hp A W hAs hApd hWs hWpd b x0 lmin lmax hpos hle hlo hhi j hreg

/-- The pivoted-Cholesky preconditioner of `AddedDiagLinearOperator` meets the hypotheses of `cg_branch_within_bound`:
`(L Lᵀ + diag d)⁻¹` with `d > 0` is symmetric positive definite, for every `n × k` factor `L`. -/
theorem pivchol_preconditioner_spd {n k : Nat} (L : Matrix (Fin n) (Fin k) ℝ) (d : Fin n → ℝ) (hd : ∀ i, 0 < d i) :
    ((L * Lᵀ + diagonal d)⁻¹)ᵀ = (L * Lᵀ + diagonal d)⁻¹ ∧
    ∀ v : C08.Vec ℝ n, v ≠ 0 → 0 < C08.dot v (((L * Lᵀ + diagonal d)⁻¹).mulVec v) :=
  inv_spd _ (lowrank_plus_diag_spd L d hd).1 (lowrank_plus_diag_spd L d hd).2

/-! ### Batch-broadcast right-hand sides (extension session 5): flat row-major batch buffers -/

open LinOp.C01 (broadcastShape restrict) in
/-- **solve_broadcast_refines**: an operator batch of shape `sA` (flat buffer of `prodL sA` matrices) solved against a rhs batch of
shape `sB` — either may have size-1 dimensions or lack leading dimensions (`torch.cholesky_solve` / `solve_triangular` / `rhs / diag`
broadcasting, `rhs.expand(*batch_shape, …)` in `KroneckerProductLinearOperator._solve` and `BatchRepeat._cholesky_solve`): member `p` of
the result (shape `out = broadcast_shapes(sA, sB)`) is `A[mA]⁻¹ · B[mB]` where the members read are in range and are exactly the
members whose multi-index is C01's `restrict` of the output multi-index (size-1 dimension ↦ 0, missing leading dimension dropped).
All batch shapes, sizes and column counts. -/
theorem solve_broadcast_refines {n c : Nat} (sA sB out : List Nat) (A : Nat → Matrix (Fin n) (Fin n) α)
    (B : Nat → Mat α n c) (p : Nat) (h : broadcastShape sA sB = some out) (hp : p < prodL out) :
    (Matrix.of (solveBroadcastFlat sA sB out (fun m => ((A m)⁻¹ : Matrix _ _ α)) B p) : Matrix _ _ α)
        = (A (bcastMember sA out p))⁻¹ * Matrix.of (B (bcastMember sB out p)) ∧
      bcastMember sA out p < prodL sA ∧ bcastMember sB out p < prodL sB ∧
      unflat sA (bcastMember sA out p) = restrict sA (unflat out p) ∧
      unflat sB (bcastMember sB out p) = restrict sB (unflat out p) ∧
      flatOf out (unflat out p) = p :=
  ⟨solveBroadcastFlat_refines sA sB out A B p, (bcastMember_spec h hp).1, (bcastMember_spec h hp).2.1,
    (bcastMember_spec h hp).2.2.1, (bcastMember_spec h hp).2.2.2, flatOf_unflat out p hp⟩

open LinOp.C01 (broadcastShape restrict) in
/-- **kronSolve_broadcast_refines**: `KroneckerProductLinearOperator._solve` with batched factors (batch shape `sA`) and a broadcasting
rhs (batch shape `sB`): the rhs is expanded to `out`, the reshape / factor-solve / permute loop runs member by member; member `p` of the
result is `(A[mA] ⊗ B[mA])⁻¹ · X[mB]` with the same index maps. -/
theorem kronSolve_broadcast_refines {n1 n2 c : Nat} (sA sB out : List Nat) (A : Nat → Mat α n1 n1) (B : Nat → Mat α n2 n2)
    (X : Nat → Mat α (n1 * n2) c) (p : Nat) (h : broadcastShape sA sB = some out) (hp : p < prodL out) :
    (Matrix.of (kronSolveBroadcastFlat sA sB out (fun m => ((Matrix.of (A m))⁻¹ : Matrix (Fin n1) (Fin n1) α))
        (fun m => ((Matrix.of (B m))⁻¹ : Matrix (Fin n2) (Fin n2) α)) X p) : Matrix _ _ α)
      = (Matrix.of (kronDense (A (bcastMember sA out p)) (B (bcastMember sA out p))))⁻¹ * Matrix.of (X (bcastMember sB out p)) ∧
      bcastMember sA out p < prodL sA ∧ bcastMember sB out p < prodL sB :=
  ⟨kronSolveBroadcastFlat_refines sA sB out A B X p, (bcastMember_spec h hp).1, (bcastMember_spec h hp).2.1⟩

open LinOp.C01 (broadcastShape restrict) in
/-- **solve_broadcast_left_refines** (`Solve.forward`: `left @ solve`): a left factor with its own batch shape `sL` broadcast against
the solve result of batch shape `out`: member `p` of the final result (shape `out2 = broadcast_shapes(sL, out)`) is
`L[mL] · A[mA]⁻¹ · B[mB]`, the operator / rhs members being read through the composition of the two index maps; all members in range. -/
theorem solve_broadcast_left_refines {n c o : Nat} (sA sB sL out out2 : List Nat) (A : Nat → Matrix (Fin n) (Fin n) α)
    (B : Nat → Mat α n c) (L : Nat → Mat α o n) (p : Nat) (h : broadcastShape sA sB = some out)
    (h2 : broadcastShape sL out = some out2) (hp : p < prodL out2) :
    (Matrix.of (leftBroadcastFlat sL out out2 L (solveBroadcastFlat sA sB out (fun m => ((A m)⁻¹ : Matrix _ _ α)) B) p) : Matrix _ _ α)
        = Matrix.of (L (bcastMember sL out2 p)) *
          ((A (bcastMember sA out (bcastMember out out2 p)))⁻¹ * Matrix.of (B (bcastMember sB out (bcastMember out out2 p)))) ∧
      bcastMember sL out2 p < prodL sL ∧ bcastMember out out2 p < prodL out ∧
      bcastMember sA out (bcastMember out out2 p) < prodL sA ∧ bcastMember sB out (bcastMember out out2 p) < prodL sB := by
  have hq := (bcastMember_spec h2 hp).2.1
  refine ⟨?_, (bcastMember_spec h2 hp).1, hq, (bcastMember_spec h hq).1, (bcastMember_spec h hq).2.1⟩
  rw [← solveBroadcastFlat_refines]
  ext i k
  simp only [leftBroadcastFlat, Matrix.of_apply, Mat.mul, tab_eq, sumFin_eq_sum, Matrix.mul_apply]

/-- the hypotheses are satisfiable by a non-trivial instance: operator batch `(2,1)`, rhs batch `(3,)` → output `(2,3)`; output member 4
= multi-index `(1,1)` reads operator member 1 and rhs member 1; a left factor of batch `(2,1,1)` gives output `(2,2,3)`. -/
example : LinOp.C01.broadcastShape [2, 1] [3] = some [2, 3] ∧ 4 < prodL [2, 3] ∧ unflat [2, 3] 4 = [1, 1] ∧
    bcastMember [2, 1] [2, 3] 4 = 1 ∧ bcastMember [3] [2, 3] 4 = 1 ∧ bcastMember [3] [2, 3] 2 = 2 ∧
    LinOp.C01.broadcastShape [2, 1, 1] [2, 3] = some [2, 2, 3] ∧ bcastMember [2, 3] [2, 2, 3] 11 = 5 ∧
    bcastMember [2, 1, 1] [2, 2, 3] 11 = 1 := by decide

/-- hypotheses are satisfiable: every diagonal matrix has the eigen-system `(1, diag)`, so `Runs .eigConst …` etc. are inhabited
for all factor sizes; `Runs` itself is inhabited for a 2×2 diagonal solve. -/
example {n : Nat} (e : Fin n → α) : IsEig (diagonal e) (1 : Matrix (Fin n) (Fin n) α) e :=
  ⟨by simp, by simp, by simp⟩

example : Runs (methodOf .solve .diag 2 defaultSettings ⟨false, false, false⟩) 2 1
    (diagonal (fun _ : Fin 2 => (2 : Rat))) (Matrix.of fun _ _ => 1) (Matrix.of (LinOp.C04.diagSolve (fun _ => 2) fun _ _ => 1)) :=
  Runs.diagDiv _ (fun _ => by norm_num) _

example : solveMethod .kpadloConst 6 ⟨0, true, true, 15, 2000⟩ ⟨false, false, false⟩ = .eigConst ∧
    solveMethod .sumKron 6 ⟨800, true, true, 15, 2000⟩ ⟨true, false, false⟩ = .cholFresh ∧
    methodOf .invQuadLogdet .generic 6 ⟨800, true, true, 15, 2000⟩ ⟨true, false, false⟩ = .cholCached ∧
    solveMethod .lrrad 6 ⟨800, true, true, 15, 2000⟩ ⟨false, false, true⟩ = .woodbury true := by decide

/-- The hypotheses of the theorems above are satisfiable by non-trivial instances. -/
example : IsLower (fun i j : Fin 2 => if j ≤ i then (1 : Rat) else 0) := by
  intro i j hij
  have : ¬ j ≤ i := not_le.mpr hij
  simp [this]

example : selectSolve false 3 ⟨0, true, true, 15, 2000⟩ = .iterative ∧
    selectSolve false 3 ⟨800, true, true, 15, 2000⟩ = .cholesky ∧
    selectSolve true 3 ⟨0, true, true, 15, 2000⟩ = .structured ∧
    trace ⟨0, true, true, 5, 0⟩ (.kron (.addedDiag 2) (.block 2 (.gen 3))) = [.pivchol 2, .cg 2, .cg 3] := by
  decide

end LinOp.C04
