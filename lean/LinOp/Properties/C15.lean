import LinOp.C15.ProofsSem
import LinOp.C15.ProofsBind
import LinOp.C15.Gen
import LinOp.C15.BindNames
import LinOp.C15.BindVar
import LinOp.C15.ProofsRect
import LinOp.C15.Pinned
/-!
C15 — torch.* dispatch on operators matches the methods, in either argument order.
Property theorems only.

`T : Tables` (registered-function tables, class table, signatures) is arbitrary in the routing theorems,
so they hold for every table the extractor can generate; the `table_*` obligations and the `*_generated`
theorems are about `genTables`, regenerated from /repo's source on every run and re-checked by the kernel.
Operands of the two-operand functions denote square matrices over an arbitrary commutative ring.
-/
namespace LinOp.C15
open LinOp.Generated.C15

/-! ### Routing (any tables) -/

/-- **Operator first**: `torch.f(op, x₁, …, **kw)` with plain tensors/numbers as the other arguments calls
`getattr(type(op), _HANDLED_FUNCTIONS[f])(op, x₁, …, **kw)` — the definition found by method resolution on the
*subclass*, arguments in the original order, keyword arguments unchanged. -/
theorem first_arg_dispatch {κ : Type} (T : Tables) (c f m d : String) (rest : List Arg) (kw : κ)
    (hrest : ∀ a ∈ rest, a.plain = true)
    (hf : T.first.lookup f = some m) (hr : resolve T.classes c m = some d) :
    dispatch T f (.op c :: rest) kw = .call d m (.op c :: rest) false kw :=
  dispatch_op_first T c f m d rest kw hrest hf hr

/-- **Operator second**: `torch.f(x, op, y…, **kw)` calls the *second-argument* handler with the first two
arguments swapped: `getattr(type(op), _HANDLED_SECOND_ARG_FUNCTIONS[f])(op, x, y…, **kw)`. -/
theorem second_arg_dispatch {κ : Type} (T : Tables) (c f m d : String) (a0 : Arg) (rest : List Arg) (kw : κ)
    (h0 : a0.plain = true) (hrest : ∀ a ∈ rest, a.plain = true)
    (hf : T.second.lookup f = some m) (hr : resolve T.classes c m = some d) :
    dispatch T f (a0 :: .op c :: rest) kw = .call d m (.op c :: a0 :: rest) true kw :=
  dispatch_op_second T c f m d a0 rest kw h0 hrest hf hr

/-- **Two operators, left one decides** unless the right operand's class is a strict subclass. -/
theorem op_op_dispatch_left {κ : Type} (T : Tables) (a b f m d : String) (kw : κ)
    (h : a = b ∨ isSubclass T.classes b a = false)
    (hf : T.first.lookup f = some m) (hr : resolve T.classes a m = some d) :
    dispatch T f [.op a, .op b] kw = .call d m [.op a, .op b] false kw :=
  dispatch_op_op_left T a b f m d kw h hf hr

/-- **Two operators, right one of a strict subclass**: torch tries the subclass first, `args[0]` is not an
instance of it, so the reflected handler runs with swapped operands. -/
theorem op_op_dispatch_subclass {κ : Type} (T : Tables) (a b f m d : String) (kw : κ)
    (hne : a ≠ b) (hsub : isSubclass T.classes b a = true) (hnot : isSubclass T.classes a b = false)
    (hf : T.second.lookup f = some m) (hr : resolve T.classes b m = some d) :
    dispatch T f [.op a, .op b] kw = .call d m [.op b, .op a] true kw :=
  dispatch_op_op_sub T a b f m d kw hne hsub hnot hf hr

/-- **Unregistered functions raise `NotImplementedError`** whatever the arguments are (any number, any
position of the operator(s), Tensor subclasses or foreign objects present or not) — never a silent
densification and never another handler. -/
theorem unregistered_raises {κ : Type} (T : Tables) (f : String) (args : List Arg) (kw : κ) (c : String)
    (hc : Arg.op c ∈ args) (h1 : T.first.lookup f = none) (h2 : T.second.lookup f = none) :
    dispatch T f args kw = .notImplementedError :=
  dispatch_unregistered T f args kw c hc h1 h2

/-- …also when the operator sits **inside a list / tuple argument** (`torch.cat([op, T])`, `torch.stack((T, op), 0)`) or is
passed by keyword: torch finds it (`kwops`), `__torch_function__` sees top-level arguments `args` none of which need be an
operator, and still raises `NotImplementedError` for every function in neither table. -/
theorem unregistered_raises_nested {κ : Type} (T : Tables) (f : String) (args kwops : List Arg) (kw : κ) (c : String)
    (hc : Arg.op c ∈ args ++ kwops) (hne : args ≠ []) (h1 : T.first.lookup f = none) (h2 : T.second.lookup f = none) :
    dispatchK T f args kwops kw = .notImplementedError :=
  dispatchK_unregistered T f args kwops kw c hc hne h1 h2

/-- The `types` guard: an argument of a class that is neither a Tensor nor a LinearOperator (but takes part in
the torch-function protocol) makes every call raise `NotImplementedError`, registered or not. -/
theorem foreign_type_raises {κ : Type} (T : Tables) (f : String) (args : List Arg) (kw : κ) (c : String)
    (hc : Arg.op c ∈ args) (hf : Arg.foreign ∈ args) :
    dispatch T f args kw = .notImplementedError :=
  dispatch_foreign T f args kw c hc hf

/-- **Keyword arguments are preserved** by dispatch, on either path and for any arguments. -/
theorem kwargs_preserved {κ : Type} (T : Tables) (f : String) (args : List Arg) (kw : κ)
    (d m : String) (args' : List Arg) (sw : Bool) (kw' : κ)
    (h : dispatch T f args kw = .call d m args' sw kw') : kw' = kw := by
  simp only [dispatch] at h
  split at h
  · exact handlers_kw T f _ args kw _ d m args' sw kw' h
  · cases h

/-- `getattr` semantics of `resolve`: the defining class lies on the MRO of the subclass and defines the name. -/
theorem resolve_sound (t : ClassTable) (c m d : String) (h : resolve t c m = some d) :
    ∃ l, mro t c = some l ∧ d ∈ l ∧ (definesOf t d).contains m = true :=
  resolve_spec t c m d h

/-! ### Meaning of the base-class handlers (any commutative ring, any size) -/

section Meaning
variable {α : Type} [CommRing α] {n : Nat}

/-- Reflected handlers: called as `m(op, T)` they compute `f(T, op)` — `T + A`, `T − A` (sign!), `T ⊙ A`,
`T · A` (order!) — for every handler/function pair accepted by `reflectedOK`. -/
theorem reflected_handler_meaning (acc : Bool) (b : BinFn) (m : Meth) (h : reflectedOK b m = true) (X A : Mat α n n) :
    methSem acc m A X none = spec b X A none := methSem_reflected acc b m h X A

/-- Direct handlers: `m(op, X)` computes `f(op, X)`; `add`/`sub` also with `alpha`. -/
theorem direct_handler_meaning (acc : Bool) (b : BinFn) (m : Meth) (h : directOK b m = true) (A X : Mat α n n) :
    methSem acc m A X none = spec b A X none := methSem_direct acc b m h A X

theorem direct_handler_meaning_alpha (b : BinFn) (m : Meth) (h : directAlphaOK true b m = true) (A X : Mat α n n) (a : α) :
    methSem true m A X (some a) = spec b A X (some a) := methSem_direct_alpha true b m h A X a

/-- What `rmatmul` does, `(Aᵀ Xᵀ)ᵀ`, is `X A` (for every size). -/
theorem rmatmul_is_left_multiplication (A X : Mat α n n) :
    methSem false .rmatmul A X none = .ok (Mat.mul X A) := by
  simp only [methSem, rmatmul_eq]

/-- The wrong handlers are rejected by `reflectedOK` for a reason: `sub`/`matmul` called with swapped
operands compute `A − T` / `A · T`, which differ from `T − A` / `T · A`. -/
theorem wrong_reflected_handler_counterexample :
    (∃ (X A : Mat Int 1 1), methSem (α := Int) false .sub A X none ≠ spec .sub X A none) ∧
    (∃ (X A : Mat Int 2 2), methSem (α := Int) false .matmul A X none ≠ spec .matmul X A none) := by
  refine ⟨⟨fun _ _ => 1, fun _ _ => 0, ?_⟩, ⟨fun i j => if i = 0 ∧ j = 1 then 1 else 0, fun i j => if i = 1 ∧ j = 0 then 1 else 0, ?_⟩⟩
  · intro h
    simp only [methSem, spec, Except.ok.injEq] at h
    have := congrFun (congrFun h 0) 0
    simp [madd, smul] at this
  · intro h
    simp only [methSem, spec, Except.ok.injEq] at h
    have := congrFun (congrFun h 0) 0
    revert this
    decide

/-- **D20 (fixed in /repo by 1322025).** `add` registered as its own second-argument handler (what
`_implements_symmetric(torch.add)` did) receives `alpha` after the operand swap: `torch.add(T, op, alpha=a)` would
evaluate `op + a·T`, not `T + a·op` — the reason `reflectedAlphaExact` does not accept the pair (add, `add`). -/
theorem add_alpha_second_arg_counterexample :
    ∃ (X A : Mat Int 1 1) (a : Int), methSem (α := Int) true .add A X (some a) ≠ spec .add X A (some a) := by
  refine ⟨fun _ _ => 1, fun _ _ => 0, 2, ?_⟩
  intro h
  simp only [methSem, spec, Bool.not_true, Bool.false_eq_true, if_false, Except.ok.injEq] at h
  have := congrFun (congrFun h 0) 0
  simp [madd, smul] at this

/-- What the code computes in the D20 cell, for every size and ring: `A + a·T`. -/
theorem add_alpha_second_arg_actual (X A : Mat α n n) (a : α) :
    methSem true .add A X (some a) = .ok fun i j => A i j + a * X i j := by
  simp only [methSem, Bool.not_true, Bool.false_eq_true, if_false]
  rfl

/-- D20, the part that holds (`_partial`): with `alpha`, every reflected handler that passes
`reflectedAlphaOK` (today: `__radd__`, `__rsub__`, which reject the keyword) returns the right value or raises
`TypeError` — never a wrong value.  `add` does not pass (previous theorem). -/
theorem second_arg_alpha_partial (acc : Bool) (b : BinFn) (m : Meth) (h : reflectedAlphaOK acc b m = true)
    (X A : Mat α n n) (a : α) (hb : b = .add ∨ b = .sub) :
    methSem acc m A X (some a) = spec b X A (some a) ∨ methSem acc m A X (some a) = .error .typeError :=
  methSem_reflected_alpha acc b m h X A a hb

end Meaning

/-! ### Obligations on the tables generated from today's source (`decide +kernel`) -/

/-- The class hierarchy is C3-consistent: every class has a linearisation (compared with `__mro__` at run time). -/
theorem table_mro_total : ∀ c ∈ classes, (mro classes c.1).isSome = true := by
  decide +kernel

/-- **Every registered method name resolves on every operator class** (no `AttributeError` from
`getattr(cls, name)`), for both tables. -/
theorem table_handled_resolves :
    ∀ c ∈ operatorClasses, ∀ e ∈ handledFirst ++ handledSecond, (resolve classes c e.2).isSome = true := by
  decide +kernel

/-- Keys of the tables are distinct (the tables are functions). -/
theorem table_keys_nodup : (handledFirst.map Prod.fst).Nodup ∧ (handledSecond.map Prod.fst).Nodup := by
  decide +kernel

/-- **Every second-argument registration of a two-operand function is a correctly reflected handler**
on every operator class (`torch.isclose` is the one entry without order semantics in this model; its
asymmetry in `rtol` is checked on the implementation). -/
theorem table_second_sound :
    ∀ c ∈ operatorClasses, ∀ e ∈ handledSecond, e.1 = "torch.isclose" ∨ secondEntryOK genTables c e = true := by
  decide +kernel

/-- First-argument registrations of add/sub/mul/matmul are the direct handlers, `add`/`sub` taking `alpha`. -/
theorem table_first_sound :
    ∀ c ∈ operatorClasses, ∀ e ∈ handledFirst, (BinFn.ofName e.1).isSome = true → firstEntryOK genTables c e = true := by
  decide +kernel

/-- With `alpha`, **every** second-argument registration of add/sub (`torch.add`, `Tensor.add`, `torch.sub`,
`Tensor.sub`) is a reflected handler that accepts the keyword and applies it to the operator operand. -/
theorem table_second_alpha_sound :
    ∀ c ∈ operatorClasses, ∀ e ∈ handledSecond,
      (BinFn.ofName e.1 = some .add ∨ BinFn.ofName e.1 = some .sub) → secondEntryAlphaExact genTables c e = true := by
  decide +kernel

/-- …and no second-argument registration can return a wrong value with `alpha` (right value or `TypeError`). -/
theorem table_second_alpha_partial :
    ∀ c ∈ operatorClasses, ∀ e ∈ handledSecond, e.1 = "torch.isclose" ∨ secondEntryAlphaOK genTables c e = true := by
  decide +kernel

/-- No subclass overrides a reflected handler or `add`/`sub`: the bodies mirrored by `methSem` are the ones
that run for every class (overrides exist only for `matmul`, `mul`, `div` and the one-operand functions;
their agreement with dense torch is checked on the implementation). -/
theorem table_reflected_not_overridden :
    ∀ c ∈ classes, c.1 ≠ "LinearOperator" →
      ∀ m ∈ ["add", "sub", "rmatmul", "__rmatmul__", "__radd__", "__rsub__", "__mul__", "__rmul__", "__torch_function__"],
        c.2.2.contains m = false := by
  decide +kernel

/-- Subclassing among operator classes is antisymmetric (used to decide which operand's class handles a
two-operator call). -/
theorem table_subclass_antisymm :
    ∀ a ∈ operatorClasses, ∀ b ∈ operatorClasses, a ≠ b → isSubclass classes b a = true → isSubclass classes a b = false := by
  decide +kernel

/-! ### The property on the generated tables -/

section Generated
variable {α : Type} [CommRing α] {n : Nat}

/-- **Tensor ∘ Op, right order and sign**: for every operator class `c`, every second-argument entry
(`torch.add/sub/mul/matmul`, `Tensor.add/sub/mul/matmul`) and a tensor or number `x` in first position,
`torch.f(x, op)` evaluates to `f(⟦x⟧, ⟦op⟧)`: `T + A`, `T − A`, `T ⊙ A`, `T · A`. -/
theorem second_arg_meaning_generated (c : String) (hc : c ∈ operatorClasses) (e : String × String)
    (he : e ∈ handledSecond) (hne : e.1 ≠ "torch.isclose") (a0 : Arg) (h0 : a0.plain = true) (X A : Mat α n n) :
    ∃ b, BinFn.ofName e.1 = some b ∧ evalBinary genTables e.1 a0 (.op c) X A none = spec b X A none := by
  rcases table_second_sound c hc e he with h | h
  · exact absurd h hne
  · exact evalBinary_second genTables c e h a0 h0 X A

/-- **Op ∘ Tensor**: `torch.f(op, x)` evaluates to `f(⟦op⟧, ⟦x⟧)` for add/sub/mul/matmul, and
`torch.add/sub(op, x, alpha=a)` to `A ± a·X`, on every operator class. -/
theorem first_arg_meaning_generated (c : String) (hc : c ∈ operatorClasses) (e : String × String)
    (he : e ∈ handledFirst) (hb : (BinFn.ofName e.1).isSome = true) (a1 : Arg) (h1 : a1.plain = true) (A X : Mat α n n) :
    ∃ b, BinFn.ofName e.1 = some b ∧ evalBinary genTables e.1 (.op c) a1 A X none = spec b A X none ∧
      ((b = .add ∨ b = .sub) → ∀ a : α, evalBinary genTables e.1 (.op c) a1 A X (some a) = spec b A X (some a)) :=
  evalBinary_first genTables c e (table_first_sound c hc e he hb) a1 h1 A X

/-- **Op ∘ Op** with the right operand's class a strict subclass of the left one's (e.g. `Diag − ConstantDiag`):
the subclass handles the call through the reflected handler and the result is still `f(⟦a⟧, ⟦b⟧)`. -/
theorem op_op_subclass_meaning_generated (a b : String) (ha : a ∈ operatorClasses) (hb : b ∈ operatorClasses)
    (hne : a ≠ b) (hsub : isSubclass classes b a = true) (e : String × String) (he : e ∈ handledSecond)
    (hni : e.1 ≠ "torch.isclose") (X Y : Mat α n n) :
    ∃ f, BinFn.ofName e.1 = some f ∧ evalBinary genTables e.1 (.op a) (.op b) X Y none = spec f X Y none := by
  rcases table_second_sound b hb e he with h | h
  · exact absurd h hni
  · exact evalBinary_op_op_sub genTables a b e h hne hsub (table_subclass_antisymm a ha b hb hne hsub) X Y

/-- **Op ∘ Op** otherwise (same class, unrelated classes, or left operand of the subclass). -/
theorem op_op_left_meaning_generated (a b : String) (ha : a ∈ operatorClasses)
    (hab : a = b ∨ isSubclass classes b a = false) (e : String × String) (he : e ∈ handledFirst)
    (hf : (BinFn.ofName e.1).isSome = true) (X Y : Mat α n n) :
    ∃ f, BinFn.ofName e.1 = some f ∧ evalBinary genTables e.1 (.op a) (.op b) X Y none = spec f X Y none :=
  evalBinary_op_op_left genTables a b e (table_first_sound a ha e he hf) hab X Y

/-- **`alpha` with the operator second (full, D20 closed)**: `torch.add(x, op, alpha=a)`, `x.add(op, alpha=a)`,
`torch.sub(x, op, alpha=a)`, `x.sub(op, alpha=a)` evaluate to `X ± a·A` on every operator class. -/
theorem second_arg_alpha_generated (c : String) (hc : c ∈ operatorClasses) (e : String × String)
    (he : e ∈ handledSecond) (hb : BinFn.ofName e.1 = some .add ∨ BinFn.ofName e.1 = some .sub)
    (a0 : Arg) (h0 : a0.plain = true) (X A : Mat α n n) (a : α) :
    ∃ b, BinFn.ofName e.1 = some b ∧ evalBinary genTables e.1 a0 (.op c) X A (some a) = spec b X A (some a) :=
  evalBinary_second_alpha_exact genTables c e (table_second_alpha_sound c hc e he hb) a0 h0 X A a

/-- Weaker statement kept for every entry (also mul/matmul, which reject `alpha`): right value or `TypeError`. -/
theorem second_arg_alpha_generated_partial (c : String) (hc : c ∈ operatorClasses) (e : String × String)
    (he : e ∈ handledSecond) (hni : e.1 ≠ "torch.isclose") (a0 : Arg) (h0 : a0.plain = true)
    (X A : Mat α n n) (a : α) (b : BinFn) (hb : BinFn.ofName e.1 = some b) (hb' : b = .add ∨ b = .sub) :
    evalBinary genTables e.1 a0 (.op c) X A (some a) = spec b X A (some a) ∨
      evalBinary genTables e.1 a0 (.op c) X A (some a) = .error .typeError := by
  rcases table_second_alpha_partial c hc e he with h | h
  · exact absurd h hni
  · exact evalBinary_second_alpha genTables c e h a0 h0 X A a b hb hb'

/-- **Finding (open): operator passed by keyword.** `torch.f(x, other=op)` for a registered two-operand function
ends in `IndexError` (`args[1]` of a 1-tuple) on every operator class — it raises, but neither computes
`f(x, op)` nor says `NotImplementedError`. -/
theorem operator_by_keyword_index_error (c : String) (hc : c ∈ operatorClasses) (e : String × String)
    (he : e ∈ handledSecond) (a0 : Arg) (h0 : a0.plain = true) :
    dispatchK genTables e.1 [a0] [.op c] () = .indexError := by
  have hr := table_handled_resolves c hc e (List.mem_append_right _ he)
  obtain ⟨d, hd⟩ := Option.isSome_iff_exists.1 hr
  exact dispatchK_operator_by_keyword genTables c e.1 e.2 d a0 () h0 (table_second_lookup e he) hd
where
  table_second_lookup : ∀ e ∈ handledSecond, genTables.second.lookup e.1 = some e.2 := by decide +kernel

/-- The same call once `__torch_function__` completes the positional tuple from `input=` / `other=` (proposed fix
notes/C15_fix_3.diff, model `dispatchKN true`): the reflected handler runs with swapped operands, exactly as for
`torch.f(x, op)` — so `second_arg_meaning_generated` applies to it. -/
theorem operator_by_keyword_normalised {κ : Type} (T : Tables) (c f m d : String) (a0 : Arg) (kw : κ)
    (h0 : a0.plain = true) (hf : T.second.lookup f = some m) (hr : resolve T.classes c m = some d) :
    dispatchKN true T f [a0] [.op c] kw = .call d m [.op c, a0] true kw ∧
      dispatchKN true T f [a0] [.op c] kw = dispatch T f [a0, .op c] kw := by
  refine ⟨dispatchKN_operator_by_keyword T c f m d a0 kw h0 hf hr, ?_⟩
  rw [dispatchKN_operator_by_keyword T c f m d a0 kw h0 hf hr, dispatch_op_second T c f m d a0 [] kw h0 (by simp) hf hr]

/-- Whichever of the two behaviours today's source has (`kwNormalised`, extracted from `__torch_function__`), the model used by
the driver follows it: `IndexError` before the fix, the ordinary second-argument call after it. -/
theorem operator_by_keyword_generated (c : String) (hc : c ∈ operatorClasses) (e : String × String)
    (he : e ∈ handledSecond) (a0 : Arg) (h0 : a0.plain = true) :
    dispatchKN kwNormalised genTables e.1 [a0] [.op c] () =
      (if kwNormalised then dispatch genTables e.1 [a0, .op c] () else .indexError) := by
  have hr := table_handled_resolves c hc e (List.mem_append_right _ he)
  obtain ⟨d, hd⟩ := Option.isSome_iff_exists.1 hr
  have hl := operator_by_keyword_index_error.table_second_lookup e he
  cases hk : kwNormalised with
  | false =>
    simp only [dispatchKN_false, Bool.false_eq_true, if_false]
    exact dispatchK_operator_by_keyword genTables c e.1 e.2 d a0 () h0 hl hd
  | true =>
    simp only [if_true]
    exact (operator_by_keyword_normalised genTables c e.1 e.2 d a0 () h0 hl hd).2

/-- `torch.f(op, other=x)` (the other operand by keyword) is the ordinary first-argument call with `other` in kwargs. -/
theorem other_by_keyword_dispatch {κ : Type} (T : Tables) (c f m d : String) (kwops : List Arg) (kw : κ)
    (hk : ∀ a ∈ kwops, a.plain = true) (hf : T.first.lookup f = some m) (hr : resolve T.classes c m = some d) :
    dispatchK T f [.op c] kwops kw = .call d m [.op c] false kw :=
  dispatchK_other_by_keyword T c f m d kwops kw hk hf hr

/-- Every registered function dispatches to a method on every operator class: never `AttributeError`. -/
theorem registered_never_attribute_error (c : String) (hc : c ∈ operatorClasses) (e : String × String)
    (he : e ∈ handledFirst) (rest : List Arg) (hrest : ∀ a ∈ rest, a.plain = true) :
    ∃ d, dispatch genTables e.1 (.op c :: rest) () = .call d e.2 (.op c :: rest) false () := by
  have hr := table_handled_resolves c hc e (List.mem_append_left _ he)
  obtain ⟨d, hd⟩ := Option.isSome_iff_exists.1 hr
  have hl : genTables.first.lookup e.1 = some e.2 := by
    have := table_first_lookup e he
    exact this
  exact ⟨d, dispatch_op_first genTables c e.1 e.2 d rest () hrest hl hd⟩
where
  table_first_lookup : ∀ e ∈ handledFirst, genTables.first.lookup e.1 = some e.2 := by decide +kernel

end Generated


/-! ### Argument forwarding: every argument of `torch.f(op, *a, **k)` reaches the parameter it means -/

section Forwarding

/-- **Forwarding agrees with torch's binding** (any signatures).  `__torch_function__` passes `*args, **kwargs` on unchanged,
so the method's own signature `sigM` decides where they land; torch on the dense tensor binds the same call against `sigT`.
If `sigM`'s names are a prefix of `sigT`'s and the defaults of the parameters the call leaves out agree (`sigCompatGiven given`,
every name in `given` supplied positionally or by keyword), then whenever both accept the call, every parameter of the method
holds exactly the value torch gives the parameter of that name — positional or keyword, in any mixture. -/
theorem forward_binding_agrees (sigM sigT : Sig) (pos : List String) (kw envM envT : Env) (given : List String)
    (hc : sigCompatGiven given sigM sigT = true)
    (hg : ∀ g ∈ given, g ∈ Sig.names (sigM.take pos.length) ∨ (kw.lookup g).isSome = true)
    (hM : bind sigM pos kw = .ok envM) (hT : bind sigT pos kw = .ok envT) :
    ∀ q ∈ sigM.names, envM.lookup q = envT.lookup q :=
  fun q hq => bind_agree sigM sigT pos kw envM envT given hc hg hM hT q hq

/-- **Nothing is dropped silently**: a call the method accepts uses every positional value and every keyword (so an argument
the method does not know makes it raise `TypeError`), and the torch parameters the method lacks stay at torch's default. -/
theorem forward_drops_nothing (sigM sigT : Sig) (pos : List String) (kw envM envT : Env)
    (hpre : sigM.names.isPrefixOf sigT.names = true)
    (hM : bind sigM pos kw = .ok envM) (hT : bind sigT pos kw = .ok envT) :
    pos.length ≤ sigM.length ∧ (∀ e ∈ kw, e.1 ∈ sigM.names) ∧ envM.map Prod.fst = sigM.names ∧
      ∀ q, q ∉ sigM.names → envT.lookup q = (sigT.find? fun p => p.name == q).map fun p => p.dflt.getD "" := by
  obtain ⟨h1, h2, h3⟩ := bind_uses_everything hM
  exact ⟨h1, h2, h3, fun q hq => bind_rest_default sigM sigT pos kw envM envT hpre hM hT q hq⟩

/-- **The second-argument path** `func(args[1], args[0], *args[2:], **kwargs)`: binding the swapped call differs from binding
the original one in the first two parameters only — every further positional argument (`rtol`, `atol`, `equal_nan` of
`torch.isclose(x, op, rtol, atol, equal_nan)`) and every keyword reaches the same parameter with the same value. -/
theorem second_path_forwards_extra_arguments (sig : Sig) (a b : String) (rest : List String) (kw env : Env)
    (h : bind sig (a :: b :: rest) kw = .ok env) :
    ∃ n1 n2 tl, env = (n1, a) :: (n2, b) :: tl ∧ bind sig (b :: a :: rest) kw = .ok ((n1, b) :: (n2, a) :: tl) :=
  bind_swap sig a b rest kw env h

/-- Every override of a registered method has the parameter list of the base-class definition, on every operator class:
method resolution by *name* on the subclass never changes how the arguments are bound. -/
theorem table_handler_signature_uniform :
    ∀ c ∈ operatorClasses, ∀ e ∈ handledFirst ++ handledSecond,
      (handlerSig c e.2).isSome = true ∧ handlerSig c e.2 = methodSig "LinearOperator" e.2 := by
  decide +kernel

/-- The registered functions whose handler signature is **not** `sigCompat` with torch's, each with its own statement below:
`torch.diagonal` (default dims, finding), `add`/`sub` (`alpha=None` means 1), `transpose` / `linalg.solve` (parameter names
differ: positional forms only, keyword forms raise `TypeError`), `permute` (`*dims`). -/
def forwardingExceptions : List String :=
  ["torch.diagonal", "torch.add", "torch.sub", "torch.Tensor.add", "torch.Tensor.sub", "torch.transpose", "torch.linalg.solve",
   "torch.permute"]

/-- **Every other registered function, both tables**: the handler's parameters after the operands are torch's, in torch's order,
with torch's defaults (or required). -/
theorem table_forwarding_compatible :
    ∀ e ∈ handledFirst ++ handledSecond, e.1 ∈ forwardingExceptions ∨ entryForwardOK e = true := by
  decide +kernel

/-- **One-operand and two-operand calls on the generated tables**: for every operator class, every registered function outside
`forwardingExceptions` and every call form (`pos` = positional arguments after the operands, `kw` = keywords) that both the
handler found on the class and torch accept, the handler's parameters hold torch's values and the parameters the handler lacks
are at torch's defaults. -/
theorem forward_generated (c : String) (hc : c ∈ operatorClasses) (e : String × String)
    (he : e ∈ handledFirst ++ handledSecond) (hne : e.1 ∉ forwardingExceptions)
    (n : Nat) (sT sM : Sig) (hT : torchSig e.1 = some (n, sT)) (hM : handlerSig c e.2 = some sM)
    (pos : List String) (kw envM envT : Env)
    (hbM : bind (sM.drop n) pos kw = .ok envM) (hbT : bind sT pos kw = .ok envT) :
    (∀ q ∈ Sig.names (sM.drop n), envM.lookup q = envT.lookup q) ∧
      ∀ q, q ∉ Sig.names (sM.drop n) → envT.lookup q = (sT.find? fun p => p.name == q).map fun p => p.dflt.getD "" := by
  have hu := (table_handler_signature_uniform c hc e he).2
  rw [hM] at hu
  have hok : entryForwardOK e = true := by
    rcases table_forwarding_compatible e he with h | h
    · exact absurd h hne
    · exact h
  simp only [entryForwardOK, hT, ← hu, Bool.and_eq_true] at hok
  have hcompat := hok.2
  refine ⟨fun q hq => bind_agree (sM.drop n) sT pos kw envM envT [] (sigCompatGiven_of_sigCompat _ _ hcompat []) (by simp) hbM hbT q hq,
    fun q hq => bind_rest_default (sM.drop n) sT pos kw envM envT ?_ hbM hbT q hq⟩
  simp only [sigCompat, Bool.and_eq_true] at hcompat
  exact hcompat.1

/-- Parameters after the operand of `LinearOperator.diagonal` (today's handler of `torch.diagonal`) and of `torch.diagonal`. -/
def diagSigMethod : Sig := toSig [("offset", 0, some "0"), ("dim1", 0, some "-2"), ("dim2", 0, some "-1")]
def diagSigTorch : Sig := toSig [("offset", 0, some "0"), ("dim1", 0, some "0"), ("dim2", 0, some "1")]

/-- The generated tables: torch's signature is `diagSigTorch`, and the registered handler of `torch.diagonal` has either today's
`diagSigMethod` (finding open) or torch's own defaults (after notes/C15_fix_6.diff). -/
theorem table_diagonal_signatures :
    torchSig "torch.diagonal" = some (1, diagSigTorch) ∧
      ∀ e ∈ handledFirst, e.1 = "torch.diagonal" →
        (methodSig "LinearOperator" e.2).map (·.drop 1) = some diagSigMethod ∨
        (methodSig "LinearOperator" e.2).map (·.drop 1) = some diagSigTorch := by
  decide +kernel

/-- **Finding (open), precise counterexample: `torch.diagonal(op)` with default dims.**  The method's defaults are
`dim1=-2, dim2=-1`, torch's are `dim1=0, dim2=1`: for the call without dims — and for every call that supplies only one of them —
the two bindings give different values to `dim1` / `dim2` (the same dims for a matrix, different ones as soon as there is a
batch dimension).  `sigCompat` is refuted, so `forward_generated` does not apply to `torch.diagonal`. -/
theorem diagonal_default_dims_counterexample :
    sigCompat diagSigMethod diagSigTorch = false ∧
    (∃ envM envT, bind diagSigMethod [] [] = .ok envM ∧ bind diagSigTorch [] [] = .ok envT ∧
      envM.lookup "dim1" = some "-2" ∧ envT.lookup "dim1" = some "0" ∧
      envM.lookup "dim2" = some "-1" ∧ envT.lookup "dim2" = some "1" ∧ envM.lookup "offset" = envT.lookup "offset") ∧
    (∃ envM envT, bind diagSigMethod ["0"] [("dim2", "-1")] = .ok envM ∧ bind diagSigTorch ["0"] [("dim2", "-1")] = .ok envT ∧
      envM.lookup "dim1" = some "-2" ∧ envT.lookup "dim1" = some "0" ∧ envM.lookup "dim2" = envT.lookup "dim2") := by
  refine ⟨by decide +kernel, ⟨[("offset", "0"), ("dim1", "-2"), ("dim2", "-1")], [("offset", "0"), ("dim1", "0"), ("dim2", "1")], ?_⟩,
    ⟨[("offset", "0"), ("dim1", "-2"), ("dim2", "-1")], [("offset", "0"), ("dim1", "0"), ("dim2", "-1")], ?_⟩⟩
  · decide +kernel
  · decide +kernel

/-- …and the part that holds (`_partial`; the full statement is `forward_generated` for `torch.diagonal`, refuted above):
**whenever `dim1` and `dim2` are both supplied** — positionally, by keyword, or one each — every parameter of the handler holds
torch's value, on every operator class. -/
theorem diagonal_forwarding_partial (c : String) (hc : c ∈ operatorClasses) (e : String × String) (he : e ∈ handledFirst)
    (hd : e.1 = "torch.diagonal") (sM : Sig) (hM : handlerSig c e.2 = some sM)
    (pos : List String) (kw envM envT : Env)
    (hg : ∀ g ∈ ["dim1", "dim2"], g ∈ Sig.names ((sM.drop 1).take pos.length) ∨ (kw.lookup g).isSome = true)
    (hbM : bind (sM.drop 1) pos kw = .ok envM) (hbT : bind diagSigTorch pos kw = .ok envT) :
    ∀ q ∈ Sig.names (sM.drop 1), envM.lookup q = envT.lookup q := by
  have hu := (table_handler_signature_uniform c hc e (List.mem_append_left _ he)).2
  rw [hM] at hu
  have hcg : sigCompatGiven ["dim1", "dim2"] (sM.drop 1) diagSigTorch = true := by
    rcases table_diagonal_signatures.2 e he hd with h | h
    · rw [← hu] at h
      have : sM.drop 1 = diagSigMethod := by simpa using h
      rw [this]; decide +kernel
    · rw [← hu] at h
      have : sM.drop 1 = diagSigTorch := by simpa using h
      rw [this]; decide +kernel
  exact fun q hq => bind_agree (sM.drop 1) diagSigTorch pos kw envM envT ["dim1", "dim2"] hcg hg hbM hbT q hq

/-- `alpha=None` (the default of `add`, `sub`, `__radd__`, `__rsub__`) means torch's default `alpha=1`. -/
theorem alpha_default_none_means_one {α : Type} [CommRing α] {n : Nat} (b : BinFn) (hb : b = .add ∨ b = .sub) (X Y : Mat α n n) :
    spec b X Y none = spec b X Y (some 1) := by
  rcases hb with rfl | rfl <;> simp [spec]

end Forwarding


/-! ### Subclass priority: which handler runs, and that it does not matter -/

/-- torch tries the **most specific** class first: with operators of classes `a` (left) and `b` (right), `b` a strict subclass of
`a`, the overloaded-argument list is `[b, a]`; a Tensor-subclass operand keeps its place in front of the operator but its
handler (`Tensor.__torch_function__`, returns `NotImplemented` for a LinearOperator among `types`) is skipped. -/
theorem subclass_handler_first (t : ClassTable) (a b : String) (hne : a ≠ b) (hsub : isSubclass t b a = true)
    (hnot : isSubclass t a b = false) :
    overloaded t [.op a, .op b] = [.opc b, .opc a] ∧ overloaded t [.op b, .op a] = [.opc b, .opc a] := by
  refine ⟨by simp [overloaded_op_op, hne, hsub], ?_⟩
  rw [overloaded_op_op]
  have hne' : b ≠ a := fun h => hne h.symm
  simp [hne', hnot]

/-- **The result does not depend on whose `__torch_function__` runs.**  For operators of classes `a ⊋ b` (in this order) and a
function registered in both tables, the handler of `a` (first-argument path, `a.m₁(x, y)`) and the handler of `b` (the one torch
actually calls; second-argument path, `b.m₂(y, x)`) both evaluate to `f(⟦x⟧, ⟦y⟧)` — on the generated tables, every pair of
operator classes, any commutative ring, any size. -/
theorem handler_order_irrelevant_generated {α : Type} [CommRing α] {n : Nat}
    (a b : String) (ha : a ∈ operatorClasses) (hb : b ∈ operatorClasses) (hne : a ≠ b) (hsub : isSubclass classes b a = true)
    (e1 : String × String) (he1 : e1 ∈ handledFirst) (e2 : String × String) (he2 : e2 ∈ handledSecond) (he : e1.1 = e2.1)
    (hni : e1.1 ≠ "torch.isclose") (f : BinFn) (hf : BinFn.ofName e1.1 = some f) (types : List OType) (hty : typesOK types = true)
    (X Y : Mat α n n) :
    ∃ d1 d2 m1 m2,
      torchFunction genTables a e1.1 types [.op a, .op b] (none : Option α) = .call d1 e1.2 [.op a, .op b] false none ∧
      torchFunction genTables b e1.1 types [.op a, .op b] (none : Option α) = .call d2 e2.2 [.op b, .op a] true none ∧
      Meth.ofName e1.2 = some m1 ∧ Meth.ofName e2.2 = some m2 ∧
      methSem (acceptsAlpha genTables d1 e1.2) m1 X Y none = spec f X Y none ∧
      methSem (acceptsAlpha genTables d2 e2.2) m2 Y X none = spec f X Y none := by
  have h1 := table_first_sound a ha e1 he1 (by simp [hf])
  have h2 : secondEntryOK genTables b e2 = true := by
    rcases table_second_sound b hb e2 he2 with h | h
    · exact absurd (he.trans h) hni
    · exact h
  have hnot := table_subclass_antisymm a ha b hb hne hsub
  simp only [firstEntryOK, Bool.and_eq_true, beq_iff_eq] at h1
  simp only [secondEntryOK, Bool.and_eq_true, beq_iff_eq] at h2
  obtain ⟨hl1, hm1⟩ := h1
  obtain ⟨hl2, hm2⟩ := h2
  rw [← he] at hl2 hm2
  cases hr1 : resolve genTables.classes a e1.2 with
  | none => simp [hr1] at hm1
  | some d1 =>
    cases hr2 : resolve genTables.classes b e2.2 with
    | none => simp [hr2] at hm2
    | some d2 =>
      cases hmm1 : Meth.ofName e1.2 with
      | none => simp [hr1, hf, hmm1] at hm1
      | some m1 =>
        cases hmm2 : Meth.ofName e2.2 with
        | none => simp [hr2, hf, hmm2] at hm2
        | some m2 =>
          simp only [hr1, hf, hmm1, Bool.and_eq_true] at hm1
          simp only [hr2, hf, hmm2] at hm2
          refine ⟨d1, d2, m1, m2, ?_, ?_, rfl, rfl, methSem_direct _ f m1 hm1.1 X Y, methSem_reflected _ f m2 hm2 X Y⟩
          · exact torchFunction_first genTables a e1.1 e1.2 d1 types [.op b] none (.op a)
              (by simpa [isInstance] using isSubclass_self_of_resolve genTables.classes a e1.2 d1 hr1) hty hl1 hr1
          · exact torchFunction_second genTables b e1.1 e2.2 d2 types [] none (.op a) (.op b)
              (by simpa [isInstance, genTables] using hnot) hty hl2 hr2

/-- A Tensor-subclass instance as the other operand: its handler is skipped and the operator's reflected handler runs with
swapped operands, as for a plain tensor (`Parameter` *is* a plain tensor for torch's overload collection). -/
theorem tensor_subclass_operand_dispatch {κ : Type} (T : Tables) (c f m d : String) (kw : κ)
    (hf : T.second.lookup f = some m) (hr : resolve T.classes c m = some d) :
    dispatch T f [.tsub, .op c] kw = .call d m [.op c, .tsub] true kw := by
  have hov : overloaded T.classes [.tsub, .op c] = [.tsub, .opc c] := by
    simp [overloaded, collect, Arg.otype?, insertBeforeSuper, OType.isSub]
  simp only [dispatch, hov, hasOp, if_true, handlers]
  exact torchFunction_second T c f m d _ [] kw .tsub (.op c) (by simp [isInstance]) (by simp [typesOK]) hf hr

/-! ### Non-vacuity -/

example : resolve classes "IdentityLinearOperator" "matmul" = some "IdentityLinearOperator" := by decide +kernel
example : resolve classes "IdentityLinearOperator" "rmatmul" = some "LinearOperator" := by decide +kernel
example : mro classes "KroneckerProductDiagLinearOperator" =
    some ["KroneckerProductDiagLinearOperator", "DiagLinearOperator", "TriangularLinearOperator",
      "KroneckerProductTriangularLinearOperator", "KroneckerProductLinearOperator", "LinearOperator",
      "_TriangularLinearOperatorBase", "object"] := by decide +kernel
example : dispatch genTables "torch.sub" [.op "DiagLinearOperator", .op "ConstantDiagLinearOperator"] () =
    .call "LinearOperator" "__rsub__" [.op "ConstantDiagLinearOperator", .op "DiagLinearOperator"] true () := by
  decide +kernel
example : dispatch genTables "torch.trace" [.op "DenseLinearOperator"] () = .notImplementedError := by decide +kernel
-- forwarding: `torch.isclose(x, op, 0.01, equal_nan=True)` reaches `_risclose(op, x, 0.01, equal_nan=True)`; both bindings succeed
example : (handlerSig "DiagLinearOperator" "_risclose").map (fun s => bind (s.drop 2) ["0.01"] [("equal_nan", "True")]) =
    some (.ok [("rtol", "0.01"), ("atol", "1e-08"), ("equal_nan", "True")]) := by decide +kernel
example : (torchSig "torch.isclose").map (fun s => bind s.2 ["0.01"] [("equal_nan", "True")]) =
    some (.ok [("rtol", "0.01"), ("atol", "1e-08"), ("equal_nan", "True")]) := by decide +kernel
example : "torch.isclose" ∉ forwardingExceptions := by decide
-- handler_order_irrelevant_generated: Diag − ConstantDiag through `Diag.sub` or through `ConstantDiag.__rsub__`
example : "DiagLinearOperator" ∈ operatorClasses ∧ "ConstantDiagLinearOperator" ∈ operatorClasses ∧
    isSubclass classes "ConstantDiagLinearOperator" "DiagLinearOperator" = true ∧
    ("torch.sub", "sub") ∈ handledFirst ∧ ("torch.sub", "__rsub__") ∈ handledSecond ∧ BinFn.ofName "torch.sub" = some .sub ∧
    typesOK [.opc "ConstantDiagLinearOperator", .opc "DiagLinearOperator"] = true := by decide +kernel

/-! ### Session 5 — parameter names that differ between torch and the method (transpose, linalg.solve, permute) -/

section RenamedParameters

/-- **Keyword forms never bind on both sides** (any signatures with `onlyPositional`): if torch's binding and the method's
binding both accept `f(op, *pos, **kw)`, then there are no keywords at all, and on both sides the positional values land by
position and the remaining parameters take their defaults. -/
theorem renamed_keyword_forms_never_bind (sigM sigT : Sig) (h : onlyPositional sigM sigT = true)
    (pos : List String) (kw envM envT : Env) (hM : bind sigM pos kw = .ok envM) (hT : bind sigT pos kw = .ok envT) :
    kw = [] ∧ pos.length ≤ sigM.length ∧
      envM.map (·.2) = pos ++ (sigM.drop pos.length).map (fun p => p.dflt.getD "") ∧
      envT.map (·.2) = pos ++ (sigT.drop pos.length).map (fun p => p.dflt.getD "") := by
  have hk := onlyPositional_kw_nil h hM hT
  subst hk
  exact ⟨rfl, (bind_positional_values hM).1, (bind_positional_values hM).2, (bind_positional_values hT).2⟩

/-- A keyword that is not a parameter of the method (`dim0=` for `transpose(self, dim1, dim2)`, `left=` for `solve`, `dims=` for
`permute`) makes the handler raise `TypeError` — whatever else is passed. -/
theorem unknown_keyword_raises (sig : Sig) (pos : List String) (kw : Env) (e : String × String) (he : e ∈ kw)
    (hn : e.1 ∉ sig.names) : ∃ err, bind sig pos kw = .error err :=
  bind_unknown_keyword_fails sig pos kw e he hn

/-- A keyword naming a parameter that a positional value already filled (`torch.transpose(op, 0, dim1=1)`: the method's `dim1`
is its *first* dim parameter) makes the handler raise `TypeError` ("multiple values"). -/
theorem keyword_for_positionally_filled_raises (sig : Sig) (pos : List String) (kw : Env) (e : String × String) (he : e ∈ kw)
    (hn : e.1 ∈ Sig.names (sig.take pos.length)) : ∃ err, bind sig pos kw = .error err :=
  bind_duplicate_fails sig pos kw e he hn

/-- The registered functions whose parameter names differ from the method's: (torch function, method, number of operands). -/
def renamedEntries : List (String × String × Nat) :=
  [("torch.transpose", "transpose", 1), ("torch.linalg.solve", "solve", 2)]

def renamedOK (c : String) (r : String × String × Nat) : Bool :=
  handledFirst.contains (r.1, r.2.1) &&
    match handlerSig c r.2.1, torchSig r.1 with
    | some sM, some (n, sT) => n == r.2.2 && Sig.simple (sM.drop n) && Sig.simple sT && onlyPositional (sM.drop n) sT
    | _, _ => false

/-- Generated signatures, every operator class: for `torch.transpose` and `torch.linalg.solve` the handler's signature and torch's
have no common keyword form. -/
theorem table_renamed_only_positional : ∀ c ∈ operatorClasses, ∀ r ∈ renamedEntries, renamedOK c r = true := by
  decide +kernel

/-- **transpose / linalg.solve on the generated signatures**: every call form that both torch and the handler found on class `c`
accept is purely positional, the values reach the parameters by position and the rest stay at the defaults; every keyword form
makes one of the two raise `TypeError` (never a silently different binding). -/
theorem renamed_forward_generated (c : String) (hc : c ∈ operatorClasses) (r : String × String × Nat) (hr : r ∈ renamedEntries)
    (sM sT : Sig) (n : Nat) (hM : handlerSig c r.2.1 = some sM) (hT : torchSig r.1 = some (n, sT))
    (pos : List String) (kw envM envT : Env)
    (hbM : bind (sM.drop n) pos kw = .ok envM) (hbT : bind sT pos kw = .ok envT) :
    kw = [] ∧ envM.map (·.2) = pos ++ ((sM.drop n).drop pos.length).map (fun p => p.dflt.getD "") ∧
      envT.map (·.2) = pos ++ (sT.drop pos.length).map (fun p => p.dflt.getD "") := by
  have h := table_renamed_only_positional c hc r hr
  simp only [renamedOK, hM, hT, Bool.and_eq_true] at h
  obtain ⟨h1, _, h3, h4⟩ := renamed_keyword_forms_never_bind _ _ h.2.2 pos kw envM envT hbM hbT
  exact ⟨h1, h3, h4⟩

/-- Generated: `transpose`'s two dims and torch's `dim0, dim1` are all required, in this order. -/
theorem table_transpose_required :
    ∀ c ∈ operatorClasses, (handlerSig c "transpose").map (fun s => (s.drop 1).map (·.dflt)) = some [none, none] ∧
      (torchSig "torch.transpose").map (fun s => (s.1, s.2.map (·.dflt))) = some (1, [none, none]) := by
  decide +kernel

/-- **`torch.transpose(op, …)`**: a call accepted by both sides is `torch.transpose(op, a, b)` with two positional dims, and the
handler's `(dim1, dim2)` are torch's `(dim0, dim1)`: `(a, b)`. -/
theorem transpose_forwarding_generated (c : String) (hc : c ∈ operatorClasses) (sM sT : Sig) (n : Nat)
    (hM : handlerSig c "transpose" = some sM) (hT : torchSig "torch.transpose" = some (n, sT))
    (pos : List String) (kw envM envT : Env)
    (hbM : bind (sM.drop n) pos kw = .ok envM) (hbT : bind sT pos kw = .ok envT) :
    kw = [] ∧ pos.length = 2 ∧ envM.map (·.2) = pos ∧ envT.map (·.2) = pos := by
  obtain ⟨hk, h1, h2⟩ := renamed_forward_generated c hc ("torch.transpose", "transpose", 1) (by decide) sM sT n hM hT pos kw envM envT hbM hbT
  have ht := table_transpose_required c hc
  rw [hM, hT] at ht
  simp only [Option.map_some, Option.some.injEq, Prod.mk.injEq] at ht
  obtain ⟨htM, hn, htT⟩ := ht
  subst hn hk
  have hlenT : sT.length = 2 := by
    have := congrArg List.length htT
    rwa [List.length_map] at this
  have hlM : (sM.drop 1).length = 2 := by
    have := congrArg List.length htM
    rwa [List.length_map] at this
  have hall : ∀ p ∈ sT, p.dflt = none := by
    intro p hp
    have : p.dflt ∈ sT.map (fun x => x.dflt) := List.mem_map.2 ⟨p, hp, rfl⟩
    rw [htT] at this
    simpa using this
  have hle := (bind_positional_values hbT).1
  -- a dim left out would be a missing required parameter
  obtain ⟨_, _, _, _, hreq, _⟩ := bind_ok hbT
  have hlen : pos.length = 2 := by
    refine Classical.byContradiction fun hne => ?_
    cases hdr : sT.drop pos.length with
    | nil =>
      have := congrArg List.length hdr
      simp only [List.length_drop, List.length_nil] at this
      omega
    | cons p tl =>
      have hp : p ∈ sT.drop pos.length := by rw [hdr]; exact List.mem_cons_self
      exact hreq p hp (by simp) (hall p (List.mem_of_mem_drop hp))
  refine ⟨rfl, hlen, ?_, ?_⟩
  · rw [h1]
    have : ((sM.drop 1).drop pos.length) = [] := List.drop_eq_nil_of_le (by omega)
    rw [this]; simp
  · rw [h2]
    have : (sT.drop pos.length) = [] := List.drop_eq_nil_of_le (by omega)
    rw [this]; simp

/-- `permute(self, *dims)`: the signature on every operator class. -/
theorem table_permute_signature :
    ∀ c ∈ operatorClasses, handlerSig c "permute" = some [⟨"self", .pos, none⟩, ⟨"dims", .varPos, none⟩] ∧
      ("torch.permute", "permute") ∈ handledFirst := by
  decide +kernel

/-- **`torch.permute(op, …)` on every operator class**: the handler is `permute(self, *dims)`; any number of positional values after
the operator is accepted and packed into `dims` (torch passes its single `dims` tuple, which the method unpacks), and **every**
keyword form — `dims=…` in particular, which dense torch accepts — makes the handler raise `TypeError`. -/
theorem permute_binding_generated (c : String) (hc : c ∈ operatorClasses) (self : String) (vs : List String) (kw : Env) :
    ∃ sig, handlerSig c "permute" = some sig ∧
      bindPy sig (self :: vs) [] = .ok [("self", self), ("*", "(" ++ ",".intercalate vs ++ ")")] ∧
      (kw ≠ [] → ∃ err, bindPy sig (self :: vs) kw = .error err) :=
  ⟨permSig, (table_permute_signature c hc).1, permute_positional self vs, permute_keyword_fails self vs kw⟩

end RenamedParameters

/-! ### Session 5 — rectangular operands, `div`, `isclose` with order semantics, `sum(dim)` -/

/-- **The hand-mirrored bodies are today's bodies** (generated by `harness/extract/c15_bodies.py`): `isclose`, `_risclose`,
`_isclose`, `div` and `sum` of class `LinearOperator` read exactly as in `LinOp/C15/Pinned.lean` (`sum` with or without the
statement of notes/C15_fix_7.diff, consistently with the generated flag `sumBelowRaises`); and structurally: `_isclose` passes
`(self, other)` and `_risclose` passes `(other, self)` to `torch.isclose`. -/
theorem table_bodies_pinned :
    (∀ e ∈ pinnedBodies, e.1 ≠ "sum" → bodies.lookup e.1 = some e.2) ∧
    ((sumBelowRaises = false ∧ bodies.lookup "sum" = pinnedBodies.lookup "sum") ∨
      (sumBelowRaises = true ∧ bodies.lookup "sum" = some pinnedSumFixed)) ∧
    closeOrders.lookup "_isclose" = some ["self", "other"] ∧ closeOrders.lookup "_risclose" = some ["other", "self"] := by
  decide +kernel

section Rectangular
variable {α : Type} [CommRing α] {n k p : Nat}

/-- Generated tables, every operator class: the second-argument handlers of `torch.matmul` / `Tensor.matmul` are `rmatmul` /
`__rmatmul__`, the first-argument handler is `matmul`, and all resolve. -/
theorem table_matmul_rect_sound :
    ∀ c ∈ operatorClasses,
      (∀ e ∈ handledSecond, BinFn.ofName e.1 = some .matmul → secondMMOK genTables c e = true) ∧
      (∀ e ∈ handledFirst, BinFn.ofName e.1 = some .matmul → firstMMOK genTables c e = true) := by
  decide +kernel

/-- **Tensor · Op, rectangular**: `torch.matmul(x, op)`, `x.matmul(op)`, `x @ op` with `x : n × k`, `op : k × p` evaluate to the
`n × p` product `X · A` in this order, on every operator class, for all sizes. -/
theorem second_arg_matmul_rect_generated (c : String) (hc : c ∈ operatorClasses) (e : String × String) (he : e ∈ handledSecond)
    (hb : BinFn.ofName e.1 = some .matmul) (a0 : Arg) (h0 : a0.plain = true) (X : Mat α n k) (A : Mat α k p) :
    evalMM genTables e.1 a0 (.op c) X A = .ok (Mat.mul X A) :=
  evalMM_second genTables c e ((table_matmul_rect_sound c hc).1 e he hb) a0 h0 X A

/-- **Op · Tensor, rectangular.** -/
theorem first_arg_matmul_rect_generated (c : String) (hc : c ∈ operatorClasses) (e : String × String) (he : e ∈ handledFirst)
    (hb : BinFn.ofName e.1 = some .matmul) (a1 : Arg) (h1 : a1.plain = true) (A : Mat α n k) (X : Mat α k p) :
    evalMM genTables e.1 (.op c) a1 A X = .ok (Mat.mul A X) :=
  evalMM_first genTables c e ((table_matmul_rect_sound c hc).2 e he hb) a1 h1 A X

/-- `rmatmul` on rectangular operands is left multiplication: `(AᵀXᵀ)ᵀ = X A` for `A : k × p`, `X : n × k`. -/
theorem rmatmul_rect_is_left_multiplication (A : Mat α k p) (X : Mat α n k) : rmatmulR A X = Mat.mul X A :=
  rmatmulR_eq A X

/-- **Tensor ∘ Op, elementwise, rectangular** (`add`, `sub`, `mul`, `Tensor.add/sub/mul`): right order and sign on `n × k`
operands, every operator class. -/
theorem second_arg_elementwise_rect_generated (c : String) (hc : c ∈ operatorClasses) (e : String × String)
    (he : e ∈ handledSecond) (hne : e.1 ≠ "torch.isclose") (a0 : Arg) (h0 : a0.plain = true) (X A : Mat α n k) :
    ∃ b, BinFn.ofName e.1 = some b ∧ (b ≠ .matmul → evalEW genTables e.1 a0 (.op c) X A none = specEW b X A none) := by
  rcases table_second_sound c hc e he with h | h
  · exact absurd h hne
  · exact evalEW_second genTables c e h a0 h0 X A

/-- …with `alpha`: `torch.add/sub(x, op, alpha=a)`, `x.add/sub(op, alpha=a)` are `X ± a·A` on `n × k` operands. -/
theorem second_arg_alpha_rect_generated (c : String) (hc : c ∈ operatorClasses) (e : String × String)
    (he : e ∈ handledSecond) (hb : BinFn.ofName e.1 = some .add ∨ BinFn.ofName e.1 = some .sub)
    (a0 : Arg) (h0 : a0.plain = true) (X A : Mat α n k) (a : α) :
    ∃ b, BinFn.ofName e.1 = some b ∧ evalEW genTables e.1 a0 (.op c) X A (some a) = specEW b X A (some a) :=
  evalEW_second_alpha genTables c e (table_second_alpha_sound c hc e he hb) a0 h0 X A a

/-- **Op ∘ Tensor, elementwise, rectangular.** -/
theorem first_arg_elementwise_rect_generated (c : String) (hc : c ∈ operatorClasses) (e : String × String)
    (he : e ∈ handledFirst) (hb : (BinFn.ofName e.1).isSome = true) (a1 : Arg) (h1 : a1.plain = true) (A X : Mat α n k) :
    ∃ b, BinFn.ofName e.1 = some b ∧ (b ≠ .matmul → evalEW genTables e.1 (.op c) a1 A X none = specEW b A X none) :=
  evalEW_first genTables c e (table_first_sound c hc e he hb) a1 h1 A X

/-- **`sum` over a matrix dim** (bodies `(self @ ones).squeeze(-1)`, `(self.mT @ ones).squeeze(-1)`, `(self @ ones).sum()`): row
sums, column sums and the total, for every `n × k` matrix. -/
theorem sum_matrix_dims_meaning (A : Mat α n k) :
    (∀ i, sumCols A i = ∑ j, A i j) ∧ (∀ j, sumRows A j = ∑ i, A i j) ∧ sumAll A = ∑ i, ∑ j, A i j :=
  ⟨sumCols_eq A, sumRows_eq A, sumAll_eq A⟩

end Rectangular

/-- **`div`** (`self.mul(1.0 / other)`) is elementwise division, by a scalar and by a tensor, over any field, `n × k`. -/
theorem div_meaning {α : Type} [Field α] {n k : Nat} (A B : Mat α n k) (c : α) :
    divSem A c = (fun i j => A i j / c) ∧ divSemT A B = (fun i j => A i j / B i j) :=
  ⟨divSem_eq A c, divSemT_eq A B⟩

/-- **`sum(dim)` normalises `dim` as torch does**: for an operator with `nd ≥ 2` dimensions and every `dim ≥ -nd` the branch taken
(`cols` / `rows` / `_sum_batch(dim mod nd)` / `ValueError`) yields the shape `torch.sum(dense, dim)` has (`dim ≥ nd`: both raise). -/
theorem sum_dim_normalisation (sh : List Nat) (h2 : 2 ≤ sh.length) (d : Int) (hlo : -(sh.length : Int) ≤ d) :
    sumShape sh (some d) = torchSumShape sh (some d) :=
  sumShape_eq_torch sh h2 d hlo

/-- **Finding (open): `dim < -ndim`.**  `torch.sum(dense, dim)` raises `IndexError`; `LinearOperator.sum` adds `ndim` once, the
result is still negative, is neither matrix dim and is `< ndim`, so `_sum_batch` runs with a negative dim (for a 3-dimensional
operator and `dim = -4`: `_sum_batch(-1)`). -/
theorem sum_dim_below_range_counterexample :
    sumBranch 3 (some (-4)) = .below (-1) ∧ torchSumShape [2, 3, 3] (some (-4)) = none := by
  decide

/-- …for every `nd` and every `dim < -nd` (the full statement "sum(dim) has torch's shape or raises, for **all** dims" is refuted
by the counterexample above; `sum_dim_normalisation` is the part that holds). -/
theorem sum_dim_below_range (nd : Nat) (h2 : 2 ≤ nd) (d : Int) (h : d < -(nd : Int)) :
    sumBranch nd (some d) = .below ((nd : Int) + d) := by
  have hn : normDim nd d = (nd : Int) + d := by unfold normDim; rw [if_pos (by omega)]
  simp only [sumBranch, hn]
  split_ifs <;> first | rfl | omega

section IsClose
variable {α : Type} [Add α] [Sub α] [Mul α] [Neg α] [Zero α] [LT α] [DecidableLT α] [LE α] [DecidableLE α] {n k : Nat}

/-- Generated tables: `torch.isclose` is handled by `isclose` (operator first) and by `_risclose` (operator second). -/
theorem table_isclose_registration :
    genTables.first.lookup "torch.isclose" = some "isclose" ∧ genTables.second.lookup "torch.isclose" = some "_risclose" ∧
      ∀ c ∈ operatorClasses, (resolve classes c "isclose").isSome = true ∧ (resolve classes c "_risclose").isSome = true := by
  decide +kernel

/-- **`torch.isclose(x, op, rtol, atol)`, operator second**: entrywise `|X − A| ≤ atol + rtol·|A|` — the tolerance is relative to
the operator (torch's second operand), on every operator class, `n × k` operands, any `rtol`, `atol`. -/
theorem isclose_second_arg_generated (c : String) (hc : c ∈ operatorClasses) (a0 : Arg) (h0 : a0.plain = true)
    (X A : Mat α n k) (rtol atol : α) :
    evalClose genTables a0 (.op c) X A rtol atol = .ok fun i j => closeSpec rtol atol (X i j) (A i j) := by
  obtain ⟨_, hl, hres⟩ := table_isclose_registration
  obtain ⟨d, hd⟩ := Option.isSome_iff_exists.1 (hres c hc).2
  exact evalClose_second genTables c d hl hd a0 h0 X A rtol atol

/-- **`torch.isclose(op, x, rtol, atol)`, operator first**: `|A − X| ≤ atol + rtol·|X|`. -/
theorem isclose_first_arg_generated (c : String) (hc : c ∈ operatorClasses) (a1 : Arg) (h1 : a1.plain = true)
    (A X : Mat α n k) (rtol atol : α) :
    evalClose genTables (.op c) a1 A X rtol atol = .ok fun i j => closeSpec rtol atol (A i j) (X i j) := by
  obtain ⟨hl, _, hres⟩ := table_isclose_registration
  obtain ⟨d, hd⟩ := Option.isSome_iff_exists.1 (hres c hc).1
  exact evalClose_first genTables c d hl hd a1 h1 A X rtol atol

end IsClose

/-- Why `isclose` itself must not be the second-argument handler (the registration before notes/C15_fix_1.diff): it would compare
in the order `(op, x)`, and `isclose` is not symmetric — `isclose(1, 3, rtol=1, atol=0)` holds, `isclose(3, 1, rtol=1, atol=0)`
does not (integers). -/
theorem isclose_symmetric_registration_counterexample :
    closeSpec (1 : Int) 0 1 3 = true ∧ closeSpec (1 : Int) 0 3 1 = false := by
  decide

/-- Over any ordered field: `closeSpec` is torch's `|x − y| ≤ atol + rtol·|y|`; it **is** symmetric when `rtol = 0`; it is monotone
in both tolerances. -/
theorem isclose_order_semantics {α : Type} [Field α] [LinearOrder α] [IsStrictOrderedRing α] (rtol rtol' atol atol' x y : α) :
    (closeSpec rtol atol x y = true ↔ |x - y| ≤ atol + rtol * |y|) ∧
      closeSpec 0 atol x y = closeSpec 0 atol y x ∧
      (rtol ≤ rtol' → atol ≤ atol' → closeSpec rtol atol x y = true → closeSpec rtol' atol' x y = true) :=
  ⟨closeSpec_iff rtol atol x y, closeSpec_symm_rtol_zero atol x y, closeSpec_mono rtol rtol' atol atol' x y⟩

/-! ### Falsy `alpha`: 0, 0.0, tensor(0.) are values, not "no alpha" -/

/-- Generated from the source: `add`, `sub`, `__radd__`, `__rsub__` ignore `alpha` exactly when `alpha is None` (a truthiness test
`if not alpha` would also drop `alpha = 0`). -/
theorem table_alpha_test_is_none :
    alphaTests.map Prod.fst = ["add", "sub", "__radd__", "__rsub__"] ∧ ∀ e ∈ alphaTests, e.2 = "alpha is None" := by
  decide +kernel

section AlphaZero
variable {α : Type} [CommRing α] {n k : Nat}

/-- **`alpha = 0`, operator first** (`torch.add(op, x, alpha=0)`, `torch.sub(op, x, alpha=0)`, `op.add/sub(x, alpha=0)`): the result is
the first operand `A`, on every operator class, `n × k` operands (the handler theorems hold for **every** `alpha`; this is the
instance `alpha = 0`, which a truthiness test on `alpha` would get wrong). -/
theorem alpha_zero_first_arg_generated (c : String) (hc : c ∈ operatorClasses) (e : String × String) (he : e ∈ handledFirst)
    (b : BinFn) (hb : BinFn.ofName e.1 = some b) (hbb : b = .add ∨ b = .sub) (a1 : Arg) (h1 : a1.plain = true) (A X : Mat α n k) :
    evalEW genTables e.1 (.op c) a1 A X (some 0) = .ok A := by
  rw [evalEW_first_alpha genTables c e (table_first_sound c hc e he (by simp [hb])) a1 h1 A X 0 b hb hbb]
  exact specEW_alpha_zero b hbb A X

/-- **`alpha = 0`, operator second** (`torch.add(x, op, alpha=0)`, `x.sub(op, alpha=0)`, …): the result is the first operand `X`. -/
theorem alpha_zero_second_arg_generated (c : String) (hc : c ∈ operatorClasses) (e : String × String) (he : e ∈ handledSecond)
    (hb : BinFn.ofName e.1 = some .add ∨ BinFn.ofName e.1 = some .sub) (a0 : Arg) (h0 : a0.plain = true) (X A : Mat α n k) :
    evalEW genTables e.1 a0 (.op c) X A (some 0) = .ok X := by
  obtain ⟨b, hbn, h⟩ := second_arg_alpha_rect_generated c hc e he hb a0 h0 X A 0
  rw [h]
  exact specEW_alpha_zero b (by rcases hb with h' | h' <;> rw [hbn] at h' <;> simp at h' <;> simp [h']) X A

/-- **Op ∘ Op with `alpha`** (left operand's class handles the call: same class, unrelated classes): `A ± a·B` for every `a`, in
particular `A` for `a = 0` (square operands, the existing `evalBinary` layer). -/
theorem alpha_op_op_left_generated (a b : String) (ha : a ∈ operatorClasses) (hab : a = b ∨ isSubclass classes b a = false)
    (e : String × String) (he : e ∈ handledFirst) (f : BinFn) (hf : BinFn.ofName e.1 = some f) (hff : f = .add ∨ f = .sub)
    (X Y : Mat α n n) (al : α) :
    evalBinary genTables e.1 (.op a) (.op b) X Y (some al) = spec f X Y (some al) := by
  have h := table_first_sound a ha e he (by simp [hf])
  simp only [firstEntryOK, Bool.and_eq_true, beq_iff_eq] at h
  obtain ⟨hl, hm⟩ := h
  cases hr : resolve genTables.classes a e.2 with
  | none => simp [hr] at hm
  | some d =>
    cases hmm : Meth.ofName e.2 with
    | none => simp [hr, hf, hmm] at hm
    | some m =>
      simp only [hr, hf, hmm, Bool.and_eq_true, Bool.or_eq_true, beq_iff_eq] at hm
      obtain ⟨_, hal⟩ := hm
      simp only [evalBinary, dispatch_op_op_left genTables a b e.1 e.2 d (some al) hab hl hr, hmm, Bool.false_eq_true, if_false]
      have : directAlphaOK (acceptsAlpha genTables d e.2) f m = true := by
        rcases hal with (hal | hal) | hal
        · exact hal
        · rcases hff with h | h <;> simp [h] at hal
        · rcases hff with h | h <;> simp [h] at hal
      exact methSem_direct_alpha _ f m this X Y al

end AlphaZero

/-- Why the test must be `alpha is None`: a handler that treats a falsy `alpha` as "no alpha" computes `A − X` for
`torch.sub(op, x, alpha=0)` where torch gives `A` (1×1 integers). -/
theorem falsy_alpha_counterexample :
    ∃ (A X : Mat Int 1 1), methSem (α := Int) true .sub A X (if (0 : Int) = 0 then none else some 0) ≠ spec .sub A X (some 0) := by
  refine ⟨fun _ _ => 1, fun _ _ => 1, ?_⟩
  intro h
  simp only [if_true, methSem, spec, Except.ok.injEq] at h
  have := congrFun (congrFun h 0) 0
  simp [madd, smul] at this

/-! ### Session 5 — non-vacuity -/

-- transpose: the positional form binds on both sides; `dim0=` is unknown to the method; `torch.transpose(op, 0, dim1=1)` hits "multiple values"
example : (handlerSig "DenseLinearOperator" "transpose").map (fun s => bind (s.drop 1) ["0", "1"] []) =
    some (.ok [("dim1", "0"), ("dim2", "1")]) := by decide +kernel
example : (torchSig "torch.transpose").map (fun s => bind s.2 ["0", "1"] []) = some (.ok [("dim0", "0"), ("dim1", "1")]) := by
  decide +kernel
example : (handlerSig "DenseLinearOperator" "transpose").map (fun s => bind (s.drop 1) [] [("dim0", "0"), ("dim1", "1")]) =
    some (.error .unexpectedKeyword) := by decide +kernel
example : (handlerSig "DenseLinearOperator" "transpose").map (fun s => bind (s.drop 1) ["0"] [("dim1", "1")]) =
    some (.error .multipleValues) := by decide +kernel
example : (torchSig "torch.transpose").map (fun s => bind s.2 ["0"] [("dim1", "1")]) = some (.ok [("dim0", "0"), ("dim1", "1")]) := by
  decide +kernel
-- linalg.solve: only the call without extras binds on both sides
example : (handlerSig "DenseLinearOperator" "solve").map (fun s => bind (s.drop 2) [] []) = some (.ok [("left_tensor", "None")]) := by
  decide +kernel
example : (torchSig "torch.linalg.solve").map (fun s => bind s.2 [] [("left", "False")]) = some (.ok [("left", "False")]) := by
  decide +kernel
example : (handlerSig "DenseLinearOperator" "solve").map (fun s => bind (s.drop 2) [] [("left", "False")]) =
    some (.error .unexpectedKeyword) := by decide +kernel
-- permute: positional values are packed, `dims=` raises
example : (handlerSig "DenseLinearOperator" "permute").map (fun s => bindPy s ["op", "(1,0,2,3)"] []) =
    some (.ok [("self", "op"), ("*", "((1,0,2,3))")]) := by decide +kernel
example : (handlerSig "DenseLinearOperator" "permute").map (fun s => bindPy s ["op"] [("dims", "(1,0,2,3)")]) =
    some (.error .unexpectedKeyword) := by decide +kernel
-- rectangular: 2×3 times 3×1 through the reflected handler
example : secondMMOK genTables "DenseLinearOperator" ("torch.matmul", "rmatmul") = true := by decide +kernel
example : sumShape [2, 5, 3, 4] (some (-3)) = some [2, 3, 4] ∧ sumShape [2, 5, 3, 4] (some 3) = some [2, 5, 3] := by decide

end LinOp.C15
