import LinOp.C15.ProofsSem
import LinOp.C15.Gen
/-!
C15 — torch.* dispatch on operators matches the methods, in either argument order.
Property theorems only.

`T : Tables` (registered-function tables, class table, signatures) is arbitrary in the routing theorems,
so they hold for every table the extractor can generate; the `table_*` obligations and the `*_generated`
theorems are about `genTables`, regenerated from /repo's source on every run and re-checked by the kernel.
Operands of the two-operand functions denote square matrices over an arbitrary commutative ring.
-/
namespace LinOp.C15
open LinOp.Generated.C15

/-! ### Routing (any tables) -/

/-- **Operator first**: `torch.f(op, x₁, …, **kw)` with plain tensors/numbers as the other arguments calls
`getattr(type(op), _HANDLED_FUNCTIONS[f])(op, x₁, …, **kw)` — the definition found by method resolution on the
*subclass*, arguments in the original order, keyword arguments unchanged. -/
theorem first_arg_dispatch {κ : Type} (T : Tables) (c f m d : String) (rest : List Arg) (kw : κ)
    (hrest : ∀ a ∈ rest, a.plain = true)
    (hf : T.first.lookup f = some m) (hr : resolve T.classes c m = some d) :
    dispatch T f (.op c :: rest) kw = .call d m (.op c :: rest) false kw :=
  dispatch_op_first T c f m d rest kw hrest hf hr

/-- **Operator second**: `torch.f(x, op, y…, **kw)` calls the *second-argument* handler with the first two
arguments swapped: `getattr(type(op), _HANDLED_SECOND_ARG_FUNCTIONS[f])(op, x, y…, **kw)`. -/
theorem second_arg_dispatch {κ : Type} (T : Tables) (c f m d : String) (a0 : Arg) (rest : List Arg) (kw : κ)
    (h0 : a0.plain = true) (hrest : ∀ a ∈ rest, a.plain = true)
    (hf : T.second.lookup f = some m) (hr : resolve T.classes c m = some d) :
    dispatch T f (a0 :: .op c :: rest) kw = .call d m (.op c :: a0 :: rest) true kw :=
  dispatch_op_second T c f m d a0 rest kw h0 hrest hf hr

/-- **Two operators, left one decides** unless the right operand's class is a strict subclass. -/
theorem op_op_dispatch_left {κ : Type} (T : Tables) (a b f m d : String) (kw : κ)
    (h : a = b ∨ isSubclass T.classes b a = false)
    (hf : T.first.lookup f = some m) (hr : resolve T.classes a m = some d) :
    dispatch T f [.op a, .op b] kw = .call d m [.op a, .op b] false kw :=
  dispatch_op_op_left T a b f m d kw h hf hr

/-- **Two operators, right one of a strict subclass**: torch tries the subclass first, `args[0]` is not an
instance of it, so the reflected handler runs with swapped operands. -/
theorem op_op_dispatch_subclass {κ : Type} (T : Tables) (a b f m d : String) (kw : κ)
    (hne : a ≠ b) (hsub : isSubclass T.classes b a = true) (hnot : isSubclass T.classes a b = false)
    (hf : T.second.lookup f = some m) (hr : resolve T.classes b m = some d) :
    dispatch T f [.op a, .op b] kw = .call d m [.op b, .op a] true kw :=
  dispatch_op_op_sub T a b f m d kw hne hsub hnot hf hr

/-- **Unregistered functions raise `NotImplementedError`** whatever the arguments are (any number, any
position of the operator(s), Tensor subclasses or foreign objects present or not) — never a silent
densification and never another handler. -/
theorem unregistered_raises {κ : Type} (T : Tables) (f : String) (args : List Arg) (kw : κ) (c : String)
    (hc : Arg.op c ∈ args) (h1 : T.first.lookup f = none) (h2 : T.second.lookup f = none) :
    dispatch T f args kw = .notImplementedError :=
  dispatch_unregistered T f args kw c hc h1 h2

/-- The `types` guard: an argument of a class that is neither a Tensor nor a LinearOperator (but takes part in
the torch-function protocol) makes every call raise `NotImplementedError`, registered or not. -/
theorem foreign_type_raises {κ : Type} (T : Tables) (f : String) (args : List Arg) (kw : κ) (c : String)
    (hc : Arg.op c ∈ args) (hf : Arg.foreign ∈ args) :
    dispatch T f args kw = .notImplementedError :=
  dispatch_foreign T f args kw c hc hf

/-- **Keyword arguments are preserved** by dispatch, on either path and for any arguments. -/
theorem kwargs_preserved {κ : Type} (T : Tables) (f : String) (args : List Arg) (kw : κ)
    (d m : String) (args' : List Arg) (sw : Bool) (kw' : κ)
    (h : dispatch T f args kw = .call d m args' sw kw') : kw' = kw := by
  simp only [dispatch] at h
  split at h
  · exact handlers_kw T f _ args kw _ d m args' sw kw' h
  · cases h

/-- `getattr` semantics of `resolve`: the defining class lies on the MRO of the subclass and defines the name. -/
theorem resolve_sound (t : ClassTable) (c m d : String) (h : resolve t c m = some d) :
    ∃ l, mro t c = some l ∧ d ∈ l ∧ (definesOf t d).contains m = true :=
  resolve_spec t c m d h

/-! ### Meaning of the base-class handlers (any commutative ring, any size) -/

section Meaning
variable {α : Type} [CommRing α] {n : Nat}

/-- Reflected handlers: called as `m(op, T)` they compute `f(T, op)` — `T + A`, `T − A` (sign!), `T ⊙ A`,
`T · A` (order!) — for every handler/function pair accepted by `reflectedOK`. -/
theorem reflected_handler_meaning (acc : Bool) (b : BinFn) (m : Meth) (h : reflectedOK b m = true) (X A : Mat α n n) :
    methSem acc m A X none = spec b X A none := methSem_reflected acc b m h X A

/-- Direct handlers: `m(op, X)` computes `f(op, X)`; `add`/`sub` also with `alpha`. -/
theorem direct_handler_meaning (acc : Bool) (b : BinFn) (m : Meth) (h : directOK b m = true) (A X : Mat α n n) :
    methSem acc m A X none = spec b A X none := methSem_direct acc b m h A X

theorem direct_handler_meaning_alpha (b : BinFn) (m : Meth) (h : directAlphaOK true b m = true) (A X : Mat α n n) (a : α) :
    methSem true m A X (some a) = spec b A X (some a) := methSem_direct_alpha true b m h A X a

/-- What `rmatmul` does, `(Aᵀ Xᵀ)ᵀ`, is `X A` (for every size). -/
theorem rmatmul_is_left_multiplication (A X : Mat α n n) :
    methSem false .rmatmul A X none = .ok (Mat.mul X A) := by
  simp only [methSem, rmatmul_eq]

/-- The wrong handlers are rejected by `reflectedOK` for a reason: `sub`/`matmul` called with swapped
operands compute `A − T` / `A · T`, which differ from `T − A` / `T · A`. -/
theorem wrong_reflected_handler_counterexample :
    (∃ (X A : Mat Int 1 1), methSem (α := Int) false .sub A X none ≠ spec .sub X A none) ∧
    (∃ (X A : Mat Int 2 2), methSem (α := Int) false .matmul A X none ≠ spec .matmul X A none) := by
  refine ⟨⟨fun _ _ => 1, fun _ _ => 0, ?_⟩, ⟨fun i j => if i = 0 ∧ j = 1 then 1 else 0, fun i j => if i = 1 ∧ j = 0 then 1 else 0, ?_⟩⟩
  · intro h
    simp only [methSem, spec, Except.ok.injEq] at h
    have := congrFun (congrFun h 0) 0
    simp [madd, smul] at this
  · intro h
    simp only [methSem, spec, Except.ok.injEq] at h
    have := congrFun (congrFun h 0) 0
    revert this
    decide

/-- **D20 (fixed in /repo by 1322025).** `add` registered as its own second-argument handler (what
`_implements_symmetric(torch.add)` did) receives `alpha` after the operand swap: `torch.add(T, op, alpha=a)` would
evaluate `op + a·T`, not `T + a·op` — the reason `reflectedAlphaExact` does not accept the pair (add, `add`). -/
theorem add_alpha_second_arg_counterexample :
    ∃ (X A : Mat Int 1 1) (a : Int), methSem (α := Int) true .add A X (some a) ≠ spec .add X A (some a) := by
  refine ⟨fun _ _ => 1, fun _ _ => 0, 2, ?_⟩
  intro h
  simp only [methSem, spec, Bool.not_true, Bool.false_eq_true, if_false, Except.ok.injEq] at h
  have := congrFun (congrFun h 0) 0
  simp [madd, smul] at this

/-- What the code computes in the D20 cell, for every size and ring: `A + a·T`. -/
theorem add_alpha_second_arg_actual (X A : Mat α n n) (a : α) :
    methSem true .add A X (some a) = .ok fun i j => A i j + a * X i j := by
  simp only [methSem, Bool.not_true, Bool.false_eq_true, if_false]
  rfl

/-- D20, the part that holds (`_partial`): with `alpha`, every reflected handler that passes
`reflectedAlphaOK` (today: `__radd__`, `__rsub__`, which reject the keyword) returns the right value or raises
`TypeError` — never a wrong value.  `add` does not pass (previous theorem). -/
theorem second_arg_alpha_partial (acc : Bool) (b : BinFn) (m : Meth) (h : reflectedAlphaOK acc b m = true)
    (X A : Mat α n n) (a : α) (hb : b = .add ∨ b = .sub) :
    methSem acc m A X (some a) = spec b X A (some a) ∨ methSem acc m A X (some a) = .error .typeError :=
  methSem_reflected_alpha acc b m h X A a hb

end Meaning

/-! ### Obligations on the tables generated from today's source (`decide +kernel`) -/

/-- The class hierarchy is C3-consistent: every class has a linearisation (compared with `__mro__` at run time). -/
theorem table_mro_total : ∀ c ∈ classes, (mro classes c.1).isSome = true := by
  decide +kernel

/-- **Every registered method name resolves on every operator class** (no `AttributeError` from
`getattr(cls, name)`), for both tables. -/
theorem table_handled_resolves :
    ∀ c ∈ operatorClasses, ∀ e ∈ handledFirst ++ handledSecond, (resolve classes c e.2).isSome = true := by
  decide +kernel

/-- Keys of the tables are distinct (the tables are functions). -/
theorem table_keys_nodup : (handledFirst.map Prod.fst).Nodup ∧ (handledSecond.map Prod.fst).Nodup := by
  decide +kernel

/-- **Every second-argument registration of a two-operand function is a correctly reflected handler**
on every operator class (`torch.isclose` is the one entry without order semantics in this model; its
asymmetry in `rtol` is checked on the implementation). -/
theorem table_second_sound :
    ∀ c ∈ operatorClasses, ∀ e ∈ handledSecond, e.1 = "torch.isclose" ∨ secondEntryOK genTables c e = true := by
  decide +kernel

/-- First-argument registrations of add/sub/mul/matmul are the direct handlers, `add`/`sub` taking `alpha`. -/
theorem table_first_sound :
    ∀ c ∈ operatorClasses, ∀ e ∈ handledFirst, (BinFn.ofName e.1).isSome = true → firstEntryOK genTables c e = true := by
  decide +kernel

/-- With `alpha`, **every** second-argument registration of add/sub (`torch.add`, `Tensor.add`, `torch.sub`,
`Tensor.sub`) is a reflected handler that accepts the keyword and applies it to the operator operand. -/
theorem table_second_alpha_sound :
    ∀ c ∈ operatorClasses, ∀ e ∈ handledSecond,
      (BinFn.ofName e.1 = some .add ∨ BinFn.ofName e.1 = some .sub) → secondEntryAlphaExact genTables c e = true := by
  decide +kernel

/-- …and no second-argument registration can return a wrong value with `alpha` (right value or `TypeError`). -/
theorem table_second_alpha_partial :
    ∀ c ∈ operatorClasses, ∀ e ∈ handledSecond, e.1 = "torch.isclose" ∨ secondEntryAlphaOK genTables c e = true := by
  decide +kernel

/-- No subclass overrides a reflected handler or `add`/`sub`: the bodies mirrored by `methSem` are the ones
that run for every class (overrides exist only for `matmul`, `mul`, `div` and the one-operand functions;
their agreement with dense torch is checked on the implementation). -/
theorem table_reflected_not_overridden :
    ∀ c ∈ classes, c.1 ≠ "LinearOperator" →
      ∀ m ∈ ["add", "sub", "rmatmul", "__rmatmul__", "__radd__", "__rsub__", "__mul__", "__rmul__", "__torch_function__"],
        c.2.2.contains m = false := by
  decide +kernel

/-- Subclassing among operator classes is antisymmetric (used to decide which operand's class handles a
two-operator call). -/
theorem table_subclass_antisymm :
    ∀ a ∈ operatorClasses, ∀ b ∈ operatorClasses, a ≠ b → isSubclass classes b a = true → isSubclass classes a b = false := by
  decide +kernel

/-! ### The property on the generated tables -/

section Generated
variable {α : Type} [CommRing α] {n : Nat}

/-- **Tensor ∘ Op, right order and sign**: for every operator class `c`, every second-argument entry
(`torch.add/sub/mul/matmul`, `Tensor.add/sub/mul/matmul`) and a tensor or number `x` in first position,
`torch.f(x, op)` evaluates to `f(⟦x⟧, ⟦op⟧)`: `T + A`, `T − A`, `T ⊙ A`, `T · A`. -/
theorem second_arg_meaning_generated (c : String) (hc : c ∈ operatorClasses) (e : String × String)
    (he : e ∈ handledSecond) (hne : e.1 ≠ "torch.isclose") (a0 : Arg) (h0 : a0.plain = true) (X A : Mat α n n) :
    ∃ b, BinFn.ofName e.1 = some b ∧ evalBinary genTables e.1 a0 (.op c) X A none = spec b X A none := by
  rcases table_second_sound c hc e he with h | h
  · exact absurd h hne
  · exact evalBinary_second genTables c e h a0 h0 X A

/-- **Op ∘ Tensor**: `torch.f(op, x)` evaluates to `f(⟦op⟧, ⟦x⟧)` for add/sub/mul/matmul, and
`torch.add/sub(op, x, alpha=a)` to `A ± a·X`, on every operator class. -/
theorem first_arg_meaning_generated (c : String) (hc : c ∈ operatorClasses) (e : String × String)
    (he : e ∈ handledFirst) (hb : (BinFn.ofName e.1).isSome = true) (a1 : Arg) (h1 : a1.plain = true) (A X : Mat α n n) :
    ∃ b, BinFn.ofName e.1 = some b ∧ evalBinary genTables e.1 (.op c) a1 A X none = spec b A X none ∧
      ((b = .add ∨ b = .sub) → ∀ a : α, evalBinary genTables e.1 (.op c) a1 A X (some a) = spec b A X (some a)) :=
  evalBinary_first genTables c e (table_first_sound c hc e he hb) a1 h1 A X

/-- **Op ∘ Op** with the right operand's class a strict subclass of the left one's (e.g. `Diag − ConstantDiag`):
the subclass handles the call through the reflected handler and the result is still `f(⟦a⟧, ⟦b⟧)`. -/
theorem op_op_subclass_meaning_generated (a b : String) (ha : a ∈ operatorClasses) (hb : b ∈ operatorClasses)
    (hne : a ≠ b) (hsub : isSubclass classes b a = true) (e : String × String) (he : e ∈ handledSecond)
    (hni : e.1 ≠ "torch.isclose") (X Y : Mat α n n) :
    ∃ f, BinFn.ofName e.1 = some f ∧ evalBinary genTables e.1 (.op a) (.op b) X Y none = spec f X Y none := by
  rcases table_second_sound b hb e he with h | h
  · exact absurd h hni
  · exact evalBinary_op_op_sub genTables a b e h hne hsub (table_subclass_antisymm a ha b hb hne hsub) X Y

/-- **Op ∘ Op** otherwise (same class, unrelated classes, or left operand of the subclass). -/
theorem op_op_left_meaning_generated (a b : String) (ha : a ∈ operatorClasses)
    (hab : a = b ∨ isSubclass classes b a = false) (e : String × String) (he : e ∈ handledFirst)
    (hf : (BinFn.ofName e.1).isSome = true) (X Y : Mat α n n) :
    ∃ f, BinFn.ofName e.1 = some f ∧ evalBinary genTables e.1 (.op a) (.op b) X Y none = spec f X Y none :=
  evalBinary_op_op_left genTables a b e (table_first_sound a ha e he hf) hab X Y

/-- **`alpha` with the operator second (full, D20 closed)**: `torch.add(x, op, alpha=a)`, `x.add(op, alpha=a)`,
`torch.sub(x, op, alpha=a)`, `x.sub(op, alpha=a)` evaluate to `X ± a·A` on every operator class. -/
theorem second_arg_alpha_generated (c : String) (hc : c ∈ operatorClasses) (e : String × String)
    (he : e ∈ handledSecond) (hb : BinFn.ofName e.1 = some .add ∨ BinFn.ofName e.1 = some .sub)
    (a0 : Arg) (h0 : a0.plain = true) (X A : Mat α n n) (a : α) :
    ∃ b, BinFn.ofName e.1 = some b ∧ evalBinary genTables e.1 a0 (.op c) X A (some a) = spec b X A (some a) :=
  evalBinary_second_alpha_exact genTables c e (table_second_alpha_sound c hc e he hb) a0 h0 X A a

/-- Weaker statement kept for every entry (also mul/matmul, which reject `alpha`): right value or `TypeError`. -/
theorem second_arg_alpha_generated_partial (c : String) (hc : c ∈ operatorClasses) (e : String × String)
    (he : e ∈ handledSecond) (hni : e.1 ≠ "torch.isclose") (a0 : Arg) (h0 : a0.plain = true)
    (X A : Mat α n n) (a : α) (b : BinFn) (hb : BinFn.ofName e.1 = some b) (hb' : b = .add ∨ b = .sub) :
    evalBinary genTables e.1 a0 (.op c) X A (some a) = spec b X A (some a) ∨
      evalBinary genTables e.1 a0 (.op c) X A (some a) = .error .typeError := by
  rcases table_second_alpha_partial c hc e he with h | h
  · exact absurd h hni
  · exact evalBinary_second_alpha genTables c e h a0 h0 X A a b hb hb'

/-- **Finding (open): operator passed by keyword.** `torch.f(x, other=op)` for a registered two-operand function
ends in `IndexError` (`args[1]` of a 1-tuple) on every operator class — it raises, but neither computes
`f(x, op)` nor says `NotImplementedError`. -/
theorem operator_by_keyword_index_error (c : String) (hc : c ∈ operatorClasses) (e : String × String)
    (he : e ∈ handledSecond) (a0 : Arg) (h0 : a0.plain = true) :
    dispatchK genTables e.1 [a0] [.op c] () = .indexError := by
  have hr := table_handled_resolves c hc e (List.mem_append_right _ he)
  obtain ⟨d, hd⟩ := Option.isSome_iff_exists.1 hr
  exact dispatchK_operator_by_keyword genTables c e.1 e.2 d a0 () h0 (table_second_lookup e he) hd
where
  table_second_lookup : ∀ e ∈ handledSecond, genTables.second.lookup e.1 = some e.2 := by decide +kernel

/-- The same call once `__torch_function__` completes the positional tuple from `input=` / `other=` (proposed fix
notes/C15_fix_3.diff, model `dispatchKN true`): the reflected handler runs with swapped operands, exactly as for
`torch.f(x, op)` — so `second_arg_meaning_generated` applies to it. -/
theorem operator_by_keyword_normalised {κ : Type} (T : Tables) (c f m d : String) (a0 : Arg) (kw : κ)
    (h0 : a0.plain = true) (hf : T.second.lookup f = some m) (hr : resolve T.classes c m = some d) :
    dispatchKN true T f [a0] [.op c] kw = .call d m [.op c, a0] true kw ∧
      dispatchKN true T f [a0] [.op c] kw = dispatch T f [a0, .op c] kw := by
  refine ⟨dispatchKN_operator_by_keyword T c f m d a0 kw h0 hf hr, ?_⟩
  rw [dispatchKN_operator_by_keyword T c f m d a0 kw h0 hf hr, dispatch_op_second T c f m d a0 [] kw h0 (by simp) hf hr]

/-- Whichever of the two behaviours today's source has (`kwNormalised`, extracted from `__torch_function__`), the model used by
the driver follows it: `IndexError` before the fix, the ordinary second-argument call after it. -/
theorem operator_by_keyword_generated (c : String) (hc : c ∈ operatorClasses) (e : String × String)
    (he : e ∈ handledSecond) (a0 : Arg) (h0 : a0.plain = true) :
    dispatchKN kwNormalised genTables e.1 [a0] [.op c] () =
      (if kwNormalised then dispatch genTables e.1 [a0, .op c] () else .indexError) := by
  have hr := table_handled_resolves c hc e (List.mem_append_right _ he)
  obtain ⟨d, hd⟩ := Option.isSome_iff_exists.1 hr
  have hl := operator_by_keyword_index_error.table_second_lookup e he
  cases hk : kwNormalised with
  | false =>
    simp only [dispatchKN_false, Bool.false_eq_true, if_false]
    exact dispatchK_operator_by_keyword genTables c e.1 e.2 d a0 () h0 hl hd
  | true =>
    simp only [if_true]
    exact (operator_by_keyword_normalised genTables c e.1 e.2 d a0 () h0 hl hd).2

/-- `torch.f(op, other=x)` (the other operand by keyword) is the ordinary first-argument call with `other` in kwargs. -/
theorem other_by_keyword_dispatch {κ : Type} (T : Tables) (c f m d : String) (kwops : List Arg) (kw : κ)
    (hk : ∀ a ∈ kwops, a.plain = true) (hf : T.first.lookup f = some m) (hr : resolve T.classes c m = some d) :
    dispatchK T f [.op c] kwops kw = .call d m [.op c] false kw :=
  dispatchK_other_by_keyword T c f m d kwops kw hk hf hr

/-- Every registered function dispatches to a method on every operator class: never `AttributeError`. -/
theorem registered_never_attribute_error (c : String) (hc : c ∈ operatorClasses) (e : String × String)
    (he : e ∈ handledFirst) (rest : List Arg) (hrest : ∀ a ∈ rest, a.plain = true) :
    ∃ d, dispatch genTables e.1 (.op c :: rest) () = .call d e.2 (.op c :: rest) false () := by
  have hr := table_handled_resolves c hc e (List.mem_append_left _ he)
  obtain ⟨d, hd⟩ := Option.isSome_iff_exists.1 hr
  have hl : genTables.first.lookup e.1 = some e.2 := by
    have := table_first_lookup e he
    exact this
  exact ⟨d, dispatch_op_first genTables c e.1 e.2 d rest () hrest hl hd⟩
where
  table_first_lookup : ∀ e ∈ handledFirst, genTables.first.lookup e.1 = some e.2 := by decide +kernel

end Generated

/-! ### Non-vacuity -/

example : resolve classes "IdentityLinearOperator" "matmul" = some "IdentityLinearOperator" := by decide +kernel
example : resolve classes "IdentityLinearOperator" "rmatmul" = some "LinearOperator" := by decide +kernel
example : mro classes "KroneckerProductDiagLinearOperator" =
    some ["KroneckerProductDiagLinearOperator", "DiagLinearOperator", "TriangularLinearOperator",
      "KroneckerProductTriangularLinearOperator", "KroneckerProductLinearOperator", "LinearOperator",
      "_TriangularLinearOperatorBase", "object"] := by decide +kernel
example : dispatch genTables "torch.sub" [.op "DiagLinearOperator", .op "ConstantDiagLinearOperator"] () =
    .call "LinearOperator" "__rsub__" [.op "ConstantDiagLinearOperator", .op "DiagLinearOperator"] true () := by
  decide +kernel
example : dispatch genTables "torch.trace" [.op "DenseLinearOperator"] () = .notImplementedError := by decide +kernel

end LinOp.C15
