import LinOp.C10.Model
import LinOp.Generated.C10Consts
/-!
C10 — pivoted Cholesky under-approximates greedily; its preconditioner is exact.  Property theorems only.
-/
namespace LinOp.C10
open LinOp.Generated

/-- The control conditions and formulas extracted from the working tree are the ones the model mirrors. -/
theorem generated_source_matches_model :
    C10.whileTest = "m == 0 or (m < max_iter and torch.max(errors) > error_tol)" ∧
    C10.maxIterClamp = "min(max_iter, matrix_shape[-1])" ∧
    C10.bodyIfs = ["m + 1 < matrix_shape[-1]", "m > 0"] ∧
    C10.origError = "torch.max(matrix_diag, dim=-1)[0]" ∧
    C10.errors = ["torch.norm(matrix_diag, 1, dim=-1) / orig_error",
                  "torch.norm(matrix_diag.gather(-1, pi_i), 1, dim=-1) / orig_error"] ∧
    C10.tolDefault = "error_tol = settings.preconditioner_tolerance.value()" ∧
    C10.returns = ["(L[..., :m, :].mT.contiguous(), permutation)"] ∧
    C10.diagClone = true ∧
    C10.enableTest = "settings.max_preconditioner_size.value() == 0 or self.size(-1) < settings.min_preconditioning_size.value()" ∧
    C10.pivCholCall = "self._linear_op.pivoted_cholesky(rank=max_iter)" ∧
    C10.maxIterSource = "settings.max_preconditioner_size.value()" ∧
    C10.closureReturns = ["tensor / self._noise - qqt", "1 / self._noise * (tensor - qqt)"] := by
  decide +kernel

end LinOp.C10
