import LinOp.C10.ProofsPSD
import LinOp.C10.ProofsLoop
import LinOp.C10.ProofsPrecond
import LinOp.C10.ProofsLogdet
import LinOp.C10.ProofsSPD
import LinOp.C10.ProofsSPD2
import LinOp.C10.ProofsErr
import LinOp.C10.ProofsPerm
import LinOp.C10.ProofsTie
import LinOp.C10.History
import LinOp.C10.ProofsMask
import Mathlib.Analysis.Real.Sqrt
import LinOp.Generated.C10Consts
/-!
C10 — pivoted Cholesky under-approximates greedily; its preconditioner is exact.  Property theorems only.
-/
namespace LinOp.C10

/-- The control conditions and formulas extracted from the working tree are the ones the model mirrors. -/
theorem generated_source_matches_model :
    LinOp.Generated.C10.whileTest = "m == 0 or (m < max_iter and torch.max(errors) > error_tol)" ∧
    LinOp.Generated.C10.maxIterClamp = "min(max_iter, matrix_shape[-1])" ∧
    LinOp.Generated.C10.bodyIfs = ["m + 1 < matrix_shape[-1]", "m > 0"] ∧
    LinOp.Generated.C10.origError = "torch.max(matrix_diag, dim=-1)[0]" ∧
    LinOp.Generated.C10.errors = ["torch.norm(matrix_diag, 1, dim=-1) / orig_error",
                  "torch.norm(matrix_diag.gather(-1, pi_i), 1, dim=-1) / orig_error"] ∧
    LinOp.Generated.C10.tolDefault = "error_tol = settings.preconditioner_tolerance.value()" ∧
    LinOp.Generated.C10.returns = ["(L[..., :m, :].mT.contiguous(), permutation)"] ∧
    LinOp.Generated.C10.diagClone = true ∧
    LinOp.Generated.C10.enableTest = "settings.max_preconditioner_size.value() == 0 or self.size(-1) < settings.min_preconditioning_size.value()" ∧
    LinOp.Generated.C10.pivCholCall = "self._linear_op.pivoted_cholesky(rank=max_iter)" ∧
    LinOp.Generated.C10.maxIterSource = "settings.max_preconditioner_size.value()" ∧
    LinOp.Generated.C10.closureReturns = ["tensor / self._noise - qqt", "1 / self._noise * (tensor - qqt)"] := by
  decide +kernel

/-- **The constant-diagonal branch is selected by EXACT equality** (`torch.equal(noise, noise[..., :1, :] * ones_like(noise))`,
the predicate `constantDiag` models), and the bodies of `_init_cache`, `_init_cache_for_constant_diag` and
`_init_cache_for_non_constant_diag` (QR input, `_q_cache` slicing/scaling, both log-determinant formulas, `_precond_lt`) extracted from
the working tree are statement for statement the ones the model mirrors.  A changed predicate (e.g. `allclose`) or formula breaks this
obligation. -/
theorem generated_init_cache_matches_model :
    LinOp.Generated.C10.initCache = ["*batch_shape, n, k = self._piv_chol_self.shape", "self._noise = self._diag_tensor._diagonal().unsqueeze(-1)", "noise_first_element = self._noise[..., :1, :]", "self._constant_diag = torch.equal(self._noise, noise_first_element * torch.ones_like(self._noise))", "eye = torch.eye(k, dtype=self._piv_chol_self.dtype, device=self._piv_chol_self.device)", "eye = eye.expand(*batch_shape, k, k)", "if self._constant_diag:     self._init_cache_for_constant_diag(eye, batch_shape, n, k) else:     self._init_cache_for_non_constant_diag(eye, batch_shape, n)", "self._precond_lt = PsdSumLinearOperator(RootLinearOperator(self._piv_chol_self), self._diag_tensor)"] ∧
    LinOp.Generated.C10.initCacheConst = ["self._noise = self._noise.narrow(-2, 0, 1)", "self._q_cache, self._r_cache = torch.linalg.qr(torch.cat((self._piv_chol_self, self._noise.sqrt() * eye), dim=-2))", "self._q_cache = self._q_cache[..., :n, :]", "logdet = self._r_cache.diagonal(dim1=-1, dim2=-2).abs().log().sum(-1).mul(2)", "logdet = logdet + (n - k) * self._noise.squeeze(-2).squeeze(-1).log()", "self._precond_logdet_cache = logdet.view(*batch_shape) if len(batch_shape) else logdet.squeeze()"] ∧
    LinOp.Generated.C10.initCacheNonconst = ["self._q_cache, self._r_cache = torch.linalg.qr(torch.cat((self._piv_chol_self / self._noise.sqrt(), eye), dim=-2))", "self._q_cache = self._q_cache[..., :n, :] / self._noise.sqrt()", "logdet = self._r_cache.diagonal(dim1=-1, dim2=-2).abs().log().sum(-1).mul(2)", "logdet -= (1.0 / self._noise).log().sum([-1, -2])", "self._precond_logdet_cache = logdet.view(*batch_shape) if len(batch_shape) else logdet.squeeze()"] := by
  decide +kernel

/-! ### Pivoted Cholesky (`PivotedCholesky.forward`), per batch member, any size `n`, any step count -/

section pc
variable {α : Type} [Field α] [LinearOrder α] [IsStrictOrderedRing α] {n : Nat}

/-- **The pivots are always a permutation**: after any number of iterations, on any input (PSD or not,
whatever `sqrt` does), `permutation` is a bijection of `0..n-1`. -/
theorem pc_perm_valid (P : Prim α) (A : Mat α n n) (m : Nat) : Function.Bijective (iter P A m).perm.get := by
  induction m with
  | zero => exact (init_inv A).bij
  | succ m ih =>
    simp only [iter]
    split
    · rw [step_perm]; exact swapPerm_bij _ _ ih
    · exact ih

/-- **Each pivot is the largest remaining residual diagonal entry**: in iteration `m` the index moved to position `m`
carries a diagonal entry of `A − L_m L_mᵀ` that is `≥` the entry of every index not yet pivoted. -/
theorem pc_pivot_is_argmax {P : Prim α} {A : Mat α n n} (hP : SqrtLaw P) (hA : Symm A) (m : Nat) (hm : m < n)
    (hpos : PivotsPos P A m) :
    let s := iter P A m
    let p := (iter P A (m + 1)).perm.get ⟨m, hm⟩
    (∃ j : Fin n, m ≤ j.val ∧ p = s.perm.get j) ∧
    ∀ j : Fin n, m ≤ j.val → resid A s.rows (s.perm.get j) (s.perm.get j) ≤ resid A s.rows p p := by
  intro s p
  have hinv : Inv A s m := iter_inv hP hA m hm.le hpos
  have hp : p = s.perm.get (pivotPos s ⟨m, hm⟩) := by
    simp only [p, iter, hm, dite_true]; rw [step_perm, swapPerm_m]
  refine ⟨⟨pivotPos s ⟨m, hm⟩, pivotPos_ge s ⟨m, hm⟩, hp⟩, ?_⟩
  intro j hj
  rw [hp, ← hinv.diag j hj, ← hinv.diag _ (pivotPos_ge s ⟨m, hm⟩)]
  exact (argmaxFrom_spec (fun j => s.diag.get (s.perm.get j)) ⟨m, hm⟩).2 j hj

/-- **Ties go to the first position** (as `torch.max` does): every unpivoted position before the chosen one carries a
strictly smaller tracked diagonal value.  Unconditional. -/
theorem pc_pivot_first_on_ties (P : Prim α) (A : Mat α n n) (m : Nat) (hm : m < n) (j : Fin n) (h1 : m ≤ j.val)
    (h2 : j.val < (pivotPos (iter P A m) ⟨m, hm⟩).val) :
    let s := iter P A m
    s.diag.get (s.perm.get j) < s.diag.get (s.perm.get (pivotPos s ⟨m, hm⟩)) :=
  argmaxFrom_first (fun j => (iter P A m).diag.get ((iter P A m).perm.get j)) ⟨m, hm⟩ j h1 h2

/-- **The tracked diagonal is the residual diagonal** on every index not yet pivoted. -/
theorem pc_diag_tracks_residual {P : Prim α} {A : Mat α n n} (hP : SqrtLaw P) (hA : Symm A) (m : Nat) (hm : m ≤ n)
    (hpos : PivotsPos P A m) (j : Fin n) (hj : m ≤ j.val) :
    let s := iter P A m
    s.diag.get (s.perm.get j) = resid A s.rows (s.perm.get j) (s.perm.get j) :=
  (iter_inv hP hA m hm hpos).diag j hj

/-- **`A − L Lᵀ` vanishes on the rows and columns of the pivots chosen so far.** -/
theorem pc_pivot_rows_zero {P : Prim α} {A : Mat α n n} (hP : SqrtLaw P) (hA : Symm A) (m : Nat) (hm : m ≤ n)
    (hpos : PivotsPos P A m) (j : Fin n) (hj : j.val < m) (k : Fin n) :
    let s := iter P A m
    resid A s.rows (s.perm.get j) k = 0 ∧ resid A s.rows k (s.perm.get j) = 0 := by
  intro s
  have h := (iter_inv hP hA m hm hpos).zero j hj k
  exact ⟨h, by rw [resid_symm hA]; exact h⟩

/-- **`A − L Lᵀ` stays positive semi-definite** (each step takes a Schur complement). -/
theorem pc_residual_psd {P : Prim α} {A : Mat α n n} (hP : SqrtLaw P) (hA : Symm A) (hpsd : PSD A) (m : Nat)
    (hm : m ≤ n) (hpos : PivotsPos P A m) : PSD (resid A (iter P A m).rows) :=
  iter_psd hP hA hpsd m hm hpos

/-- **The residual diagonal (hence the residual trace) never increases**, entry by entry, on any input. -/
theorem pc_trace_monotone (P : Prim α) (A : Mat α n n) (m : Nat) (i : Fin n) :
    resid A (iter P A (m + 1)).rows i i ≤ resid A (iter P A m).rows i i := by
  simp only [iter]
  split
  · obtain ⟨l, hrows, _⟩ := step_rows P A (iter P A m) ⟨m, by assumption⟩
    rw [hrows, resid_append]
    have := mul_self_nonneg (l.get i)
    linarith
  · exact le_refl _

theorem pc_trace_monotone_sum (P : Prim α) (A : Mat α n n) (m : Nat) :
    ∑ i, resid A (iter P A (m + 1)).rows i i ≤ ∑ i, resid A (iter P A m).rows i i :=
  Finset.sum_le_sum fun i _ => pc_trace_monotone P A m i

/-- **Exact at `r = n`**: after `n` iterations `A = L Lᵀ` entry by entry. -/
theorem pc_exact_at_n {P : Prim α} {A : Mat α n n} (hP : SqrtLaw P) (hA : Symm A) (hpos : PivotsPos P A n)
    (i k : Fin n) : A i k = lltEntry (iter P A n).rows i k := by
  have hinv := iter_inv hP hA n (le_refl _) hpos
  obtain ⟨j, rfl⟩ := hinv.bij.2 i
  have := hinv.zero j j.isLt k
  simp only [resid] at this
  linarith

/-- **The identity `PivotedCholesky.backward` relies on** (partial statement about the backward pass).  `backward` does not differentiate
the loop; it recomputes the factor from `Krows = apply_permutation(K, full_permutation, short_permutation)` (`Krows[i, j] = K[π i, π j]`,
`j < m`) as `res_pivoted = [chol(Krows[:m]); Krows[m:] chol(Krows[:m])⁻ᵀ]`, `res = res_pivoted[π⁻¹]`, and back-propagates through that.
This is the forward factor because the forward factor `F` satisfies `Krows = F[π, :] · F[π[:m], :]ᵀ` entry by entry (proved here, any `n`,
`m`), i.e. `F[π[:m]]` is a square root of `Krows[:m]` and `F[π[m:]] = Krows[m:] F[π[:m]]⁻ᵀ`.
NOT proved: that `F[π[:m]]` is lower triangular with positive diagonal (hence equal to `chol`, by uniqueness), and the derivative itself —
the gradient is tied to dense autograd / finite differences by correspondence (`C10/backward/*` cells). -/
theorem pc_backward_krows_factorizes_partial {P : Prim α} {A : Mat α n n} (hP : SqrtLaw P) (hA : Symm A) (m : Nat) (hm : m ≤ n)
    (hpos : PivotsPos P A m) (i j : Fin n) (hj : j.val < m) :
    let s := iter P A m
    applyPermutation A s.perm.get s.perm.get i j = lltEntry s.rows (s.perm.get i) (s.perm.get j) := by
  intro s
  have h := (pc_pivot_rows_zero hP hA m hm hpos j hj (s.perm.get i)).2
  simp only [resid] at h
  simp only [applyPermutation]
  linarith

/-- **At most `min(k, n)` columns, at least one; every member ran the same `r` iterations.** -/
theorem pc_rank_le (P : Prim α) (As : List (Mat α n n)) (rank : Nat) (tol : α) (hrank : 0 < rank) (hn : 0 < n) :
    let res := run P As rank tol
    1 ≤ res.1 ∧ res.1 ≤ rank ∧ res.1 ≤ n ∧ res.2 = As.map (fun A => iter P A res.1) ∧
    ∀ s ∈ res.2, (factor s).length = res.1 := by
  intro res
  have h := run_spec P As rank tol hrank hn
  refine ⟨h.pos rfl, le_trans h.le_max (Nat.min_le_left _ _), le_trans h.le_max (Nat.min_le_right _ _), h.states, ?_⟩
  intro s hs
  rw [h.states] at hs
  obtain ⟨A, _, rfl⟩ := List.mem_map.1 hs
  have hr : res.1 ≤ n := le_trans h.le_max (Nat.min_le_right _ _)
  have : ∀ m, m ≤ n → (iter P A m).rows.length = m := by
    intro m
    induction m with
    | zero => intro _; rfl
    | succ m ih =>
      intro hm
      have hlt : m < n := by omega
      simp only [iter, hlt, dite_true]
      obtain ⟨l, hrows, _⟩ := step_rows P A (iter P A m) ⟨m, hlt⟩
      rw [hrows]; simp [ih (by omega)]
  simp only [factor, List.length_map]
  exact this _ hr

/-- **Early stop only once the error is within the tolerance**: every iteration after the first ran because the largest
error in the batch exceeded `error_tol`, and if the loop exits before `min(k, n)` iterations the largest error is `≤ error_tol`. -/
theorem pc_stop_rule (P : Prim α) (As : List (Mat α n n)) (rank : Nat) (tol : α) (hrank : 0 < rank) (hn : 0 < n) :
    let r := (run P As rank tol).1
    (∀ t, 1 ≤ t → t < r → tol < errAt P As t) ∧ (r < min rank n → errAt P As r ≤ tol) := by
  intro r
  have h := run_spec P As rank tol hrank hn
  exact ⟨fun t h1 h2 => h.continued t (Nat.zero_le _) h1 h2, fun hlt => not_lt.1 (h.stopped hlt (h.pos rfl))⟩

/-- **The error the stop rule tests is the residual trace relative to the largest diagonal entry**: after iteration `m`
(`m + 1 < n`) `errors` is the 1-norm of `diag(A − L Lᵀ)` over the unpivoted indices (the pivoted ones carry 0, see
`pc_pivot_rows_zero`) divided by `orig_error`, and `orig_error` is the largest diagonal entry of `A`. -/
theorem pc_err_is_residual_trace {P : Prim α} {A : Mat α n n} (hP : SqrtLaw P) (hA : Symm A) (m : Nat) (hm : m + 1 < n)
    (hpos : PivotsPos P A (m + 1)) :
    let s := iter P A (m + 1)
    s.err = ((tailPos n (m + 1)).map fun j => |resid A s.rows (s.perm.get j) (s.perm.get j)|).sum / origError A ∧
    (∀ i, A i i ≤ origError A) ∧ ∃ i, origError A = A i i :=
  ⟨iter_err hP hA m hm hpos, origError_spec A (by omega)⟩

/-- **On a positive-definite input every pivot is positive**, so the hypotheses `PivotsPos` of the theorems above hold
automatically: for symmetric positive-definite `A` (any `n`), after any `m ≤ n` iterations the pivots form a permutation, the
tracked diagonal is the residual diagonal, the residual is PSD and vanishes on the pivot rows and columns, and is zero at `m = n`. -/
theorem pc_pd_pivots_pos {P : Prim α} {A : Mat α n n} (hP : SqrtLaw P) (hA : Symm A) (hpd : PD A) (m : Nat) (hm : m ≤ n) :
    PivotsPos P A m ∧ PSD (resid A (iter P A m).rows) ∧
    (∀ j : Fin n, j.val < m → ∀ k, resid A (iter P A m).rows ((iter P A m).perm.get j) k = 0) ∧
    (m = n → ∀ i k, A i k = lltEntry (iter P A n).rows i k) := by
  have hpos := (iter_pdu hP hA hpd m hm).1
  have hpsd : PSD A := fun x => by
    by_cases hx : x = 0
    · subst hx; simp
    · exact (hpd x hx).le
  refine ⟨hpos, iter_psd hP hA hpsd m hm hpos, (iter_inv hP hA m hm hpos).zero, ?_⟩
  intro he i k
  subst he
  exact pc_exact_at_n hP hA hpos i k

end pc

/-- The hypotheses are satisfiable: the real square root meets `SqrtLaw`, and `[[4,2],[2,5]]` is symmetric positive definite. -/
noncomputable example : ∃ (P : Prim ℝ) (A : Mat ℝ 2 2), SqrtLaw P ∧ Symm A ∧ PD A := by
  refine ⟨⟨Real.sqrt, fun _ => 0⟩, fun i j => if i = j then (if i.val = 0 then 4 else 5) else 2, ?_, ?_, ?_⟩
  · intro x hx; exact ⟨Real.mul_self_sqrt hx, Real.sqrt_nonneg x⟩
  · intro i j; by_cases h : i = j
    · subst h; rfl
    · have h' : ¬ j = i := fun e => h e.symm
      simp [h, h']
  · intro x hx
    simp only [bil, Fin.sum_univ_two, Fin.isValue]
    have h01 : (0 : Fin 2) ≠ 1 := by decide
    have h10 : (1 : Fin 2) ≠ 0 := by decide
    simp only [h01, h10, if_true, if_false, Fin.val_zero, Fin.val_one]
    have : x 0 ≠ 0 ∨ x 1 ≠ 0 := by
      by_contra hc
      push_neg at hc
      apply hx; funext i; fin_cases i <;> simp [hc.1, hc.2]
    norm_num
    rcases this with h | h
    · nlinarith [sq_nonneg (x 0 + x 1), sq_nonneg (x 1), sq_pos_of_ne_zero h]
    · nlinarith [sq_nonneg (x 0 + x 1), sq_nonneg (x 0), sq_pos_of_ne_zero h]

/-! ### The preconditioner of `AddedDiagLinearOperator` (one batch member, any `n`, `k`, number of columns) -/

section precond
variable {α : Type} [Field α] {n k c : Nat}

/-- **`_precond_lt` denotes `L Lᵀ + D`.** -/
theorem precond_lt_denote (L : Mat α n k) (d : Fin n → α) :
    precondLt L d = (Matrix.of L * (Matrix.of L).transpose + Matrix.diagonal d : Matrix (Fin n) (Fin n) α) :=
  precondLt_eq L d

/-- **Constant diagonal: the closure applies exactly `(L Lᵀ + σ² I)⁻¹`.**  Under the contract of `torch.linalg.qr` on the
matrix the code hands it (`Q R = cat(L, √s·I)`, `QᵀQ = I`) and `√s·√s = s ≠ 0`: `(L Lᵀ + s I) · closure(X) = X` for every `X`,
where `closure(X) = (1/s)(X − Q₁(Q₁ᵀX))`, `Q₁ = Q[:n]` is `_q_cache`. -/
theorem precond_const_inverse (P : Prim α) (L : Mat α n k) (s : α) (Q : Mat α (n + k) k) (R : Mat α k k) (x : Mat α n c)
    (hs : P.sqrt s * P.sqrt s = s) (hs0 : s ≠ 0)
    (hqr : Mat.mul Q R = qrInputConst P L s)
    (horth : Mat.mul (Mat.transpose Q) Q = fun i j => if i = j then 1 else 0) :
    Mat.mul (precondLt L fun _ => s) (closureConst (qCacheConst Q) s x) = x :=
  const_inverse P L s Q R x hs hs0 hqr horth

/-- **Constant diagonal: the closure is a symmetric matrix** (applied to the identity). -/
theorem precond_const_symm (q : Mat α n k) (s : α) (i j : Fin n) :
    closureConst q s (fun a b => if a = b then 1 else 0) i j = closureConst q s (fun a b => if a = b then 1 else 0) j i := by
  simp only [closureConst, qqt, Mat.mul, tab_eq, sumFin_eq_sum, Mat.transpose, mul_ite, mul_one, mul_zero,
    Finset.sum_ite_eq, Finset.sum_ite_eq', Finset.mem_univ, if_true]
  congr 1; congr 1
  · by_cases h : i = j
    · simp [h]
    · have h' : ¬ j = i := fun e => h e.symm
      simp [h, h']
  · apply Finset.sum_congr rfl; intro l _; ring

/-- **Non-constant diagonal: the closure applies exactly `(L Lᵀ + D)⁻¹`** (QR contract on `cat(L / √d, I)`, `√dᵢ² = dᵢ ≠ 0`). -/
theorem precond_nonconst_inverse (P : Prim α) (L : Mat α n k) (d : Fin n → α) (Q : Mat α (n + k) k) (R : Mat α k k)
    (x : Mat α n c) (hs : ∀ i, P.sqrt (d i) * P.sqrt (d i) = d i) (hs0 : ∀ i, d i ≠ 0)
    (hqr : Mat.mul Q R = qrInputNonconst P L d)
    (horth : Mat.mul (Mat.transpose Q) Q = fun i j => if i = j then 1 else 0) :
    Mat.mul (precondLt L d) (closureNonconst (qCacheNonconst P Q d) d x) = x :=
  nonconst_inverse P L d Q R x hs hs0 hqr horth

/-- **Non-constant diagonal: the closure is a symmetric matrix** (applied to the identity): `δᵢⱼ/dᵢ − Σₗ qᵢₗ qⱼₗ`. -/
theorem precond_nonconst_symm (q : Mat α n k) (d : Fin n → α) (i j : Fin n) :
    closureNonconst q d (fun a b => if a = b then 1 else 0) i j = closureNonconst q d (fun a b => if a = b then 1 else 0) j i := by
  simp only [closureNonconst, qqt, Mat.mul, tab_eq, sumFin_eq_sum, Mat.transpose, mul_ite, mul_one, mul_zero,
    Finset.sum_ite_eq, Finset.sum_ite_eq', Finset.mem_univ, if_true]
  congr 1
  · by_cases h : i = j
    · simp [h]
    · have h' : ¬ j = i := fun e => h e.symm
      simp [h, h']
  · apply Finset.sum_congr rfl; intro l _; ring

/-- **Matrix determinant lemma behind the log-determinant** (any field): `det(L Lᵀ + s I_n) · s^k = s^n · det(R)²`
from the block form of the QR contract. -/
theorem precond_det_const (L Q1 : Matrix (Fin n) (Fin k) α) (Q2 R : Matrix (Fin k) (Fin k) α) (s cc : α)
    (hc : cc * cc = s) (hs0 : s ≠ 0) (h1 : Q1 * R = L) (h2 : Q2 * R = cc • (1 : Matrix (Fin k) (Fin k) α))
    (h3 : Q1.transpose * Q1 + Q2.transpose * Q2 = 1) :
    Matrix.det (L * L.transpose + s • (1 : Matrix (Fin n) (Fin n) α)) * s ^ k = s ^ n * Matrix.det R ^ 2 :=
  det_const_blocks L Q1 Q2 R s cc hc hs0 h1 h2 h3

end precond

section precond_order
variable {α : Type} [Field α] [LinearOrder α] [IsStrictOrderedRing α] {n k : Nat}

/-- **Constant diagonal: the closure is positive definite**: `xᵀ closure(x) > 0` for every `x ≠ 0` (with `precond_const_symm`:
symmetric positive definite). -/
theorem precond_spd (P : Prim α) (L : Mat α n k) (s : α) (Q : Mat α (n + k) k) (R : Mat α k k)
    (hs : P.sqrt s * P.sqrt s = s) (hs0 : 0 < s) (hqr : Mat.mul Q R = qrInputConst P L s)
    (horth : Mat.mul (Mat.transpose Q) Q = fun i j => if i = j then 1 else 0) (x : Fin n → α) (hx : x ≠ 0) :
    0 < ∑ i, x i * closureConst (qCacheConst Q) s (fun a (_ : Fin 1) => x a) i 0 :=
  const_posdef P L s Q R hs hs0 hqr horth x hx

/-- **Non-constant diagonal: the closure is positive definite**: `xᵀ closure(x) > 0` for every `x ≠ 0` (QR contract on
`cat(L / √d, I)`, `√dᵢ² = dᵢ > 0`); with `precond_nonconst_symm`: symmetric positive definite, as for the constant diagonal. -/
theorem precond_nonconst_spd (P : Prim α) (L : Mat α n k) (d : Fin n → α) (Q : Mat α (n + k) k) (R : Mat α k k)
    (hs : ∀ i, P.sqrt (d i) * P.sqrt (d i) = d i) (hd : ∀ i, 0 < d i) (hqr : Mat.mul Q R = qrInputNonconst P L d)
    (horth : Mat.mul (Mat.transpose Q) Q = fun i j => if i = j then 1 else 0) (x : Fin n → α) (hx : x ≠ 0) :
    0 < ∑ i, x i * closureNonconst (qCacheNonconst P Q d) d (fun a (_ : Fin 1) => x a) i 0 :=
  nonconst_posdef P L d Q R hs hd hqr horth x hx

end precond_order

/-- **Constant diagonal: `_precond_logdet_cache` is `log det(L Lᵀ + s I)`** — `2 Σ log|Rᵢᵢ| + (n − k) log s` (ℝ, QR contract,
`R` upper triangular, `s > 0`). -/
theorem precond_logdet_const {n k : Nat} (L : Mat ℝ n k) (s : ℝ) (Q : Mat ℝ (n + k) k) (R : Mat ℝ k k)
    (hs : 0 < s) (hqr : Mat.mul Q R = qrInputConst ⟨Real.sqrt, Real.log⟩ L s)
    (horth : Mat.mul (Mat.transpose Q) Q = fun i j => if i = j then 1 else 0)
    (hR : ∀ i j : Fin k, j < i → R i j = 0) :
    logdetConst ⟨Real.sqrt, Real.log⟩ R s ((n : ℝ) - k) =
      Real.log (Matrix.det (precondLt L (fun _ => s) : Matrix (Fin n) (Fin n) ℝ)) :=
  logdet_const L s Q R hs hqr horth hR

/-- **Non-constant diagonal: `_precond_logdet_cache` is `log det(L Lᵀ + D)`** — `2 Σ log|Rᵢᵢ| − Σ log(1/dᵢ)`. -/
theorem precond_logdet_nonconst {n k : Nat} (L : Mat ℝ n k) (d : Fin n → ℝ) (Q : Mat ℝ (n + k) k) (R : Mat ℝ k k)
    (hd : ∀ i, 0 < d i) (hqr : Mat.mul Q R = qrInputNonconst ⟨Real.sqrt, Real.log⟩ L d)
    (horth : Mat.mul (Mat.transpose Q) Q = fun i j => if i = j then 1 else 0)
    (hR : ∀ i j : Fin k, j < i → R i j = 0) :
    logdetNonconst ⟨Real.sqrt, Real.log⟩ R d =
      Real.log (Matrix.det (precondLt L d : Matrix (Fin n) (Fin n) ℝ)) :=
  logdet_nonconst L d Q R hd hqr horth hR

/-! ### `utils/permutation.py` -/

/-- **`inverse_permutation` inverts every permutation** (any `n`), and `apply_permutation` is plain row/column selection. -/
theorem inverse_permutation_spec {n : Nat} (h : 0 < n) (p : Fin n → Fin n) (hp : Function.Bijective p) :
    (∀ i, inversePermutation h p (p i) = i) ∧ (∀ k, p (inversePermutation h p k) = k) :=
  inversePermutation_spec h p hp

/-- The QR contract of `precond_const_inverse` is satisfiable: `L = [3]`, `s = 16`: `[3; 4] = [3/5; 4/5]·[5]`. -/
example : ∃ (P : Prim Rat) (Q : Mat Rat (1 + 1) 1) (R : Mat Rat 1 1),
    P.sqrt 16 * P.sqrt 16 = 16 ∧ Mat.mul Q R = qrInputConst P (fun _ _ => 3) 16 ∧
    Mat.mul (Mat.transpose Q) Q = fun i j => if i = j then 1 else 0 := by
  refine ⟨⟨fun _ => 4, fun _ => 0⟩, fun i _ => if i.val = 0 then 3 / 5 else 4 / 5, fun _ _ => 5, by norm_num, ?_, ?_⟩
  · funext i j
    fin_cases i <;> fin_cases j <;> simp [Mat.mul, sumFin, Fin.foldl_succ, qrInputConst, stackRows, scaledEye] <;> norm_num
  · funext i j
    fin_cases i; fin_cases j
    simp [Mat.mul, Mat.transpose, sumFin, Fin.foldl_succ]; norm_num

/-- The QR contract of `precond_nonconst_inverse` / `precond_nonconst_spd` is satisfiable: `L = [3]`, `d = [16]`:
`[3/4; 1] = [3/5; 4/5]·[5/4]`. -/
example : ∃ (P : Prim Rat) (Q : Mat Rat (1 + 1) 1) (R : Mat Rat 1 1),
    (∀ i : Fin 1, P.sqrt ((fun _ => (16 : Rat)) i) * P.sqrt ((fun _ => (16 : Rat)) i) = 16) ∧
    Mat.mul Q R = qrInputNonconst P (fun _ _ => 3) (fun _ => 16) ∧
    Mat.mul (Mat.transpose Q) Q = fun i j => if i = j then 1 else 0 := by
  refine ⟨⟨fun _ => 4, fun _ => 0⟩, fun i _ => if i.val = 0 then 3 / 5 else 4 / 5, fun _ _ => 5 / 4, by intro i; norm_num, ?_, ?_⟩
  · funext i j
    fin_cases i <;> fin_cases j <;> simp [Mat.mul, sumFin, Fin.foldl_succ, qrInputNonconst, stackRows] <;> norm_num
  · funext i j
    fin_cases i; fin_cases j
    simp [Mat.mul, Mat.transpose, sumFin, Fin.foldl_succ]; norm_num

/-! ### The finding: a converged member of a batch keeps pivoting on a zero residual -/

/-- `sqrt` irrelevant here (the only pivots are 1 and 0). -/
def idPrim : Prim Rat := ⟨fun x => x, fun _ => 0⟩
/-- rank-one PSD matrix `diag(1, 0)` -/
def rankOne : Mat Rat 2 2 := fun i j => if i.val = 0 ∧ j.val = 0 then 1 else 0

/-- **Counterexample to "every pivot is positive" for singular PSD input**: for `A = diag(1, 0)` the second iteration (which runs
whenever another member of the batch keeps `max(errors) > tol`) pivots on an exactly ZERO residual entry: the code then computes
`sqrt(0) = 0` and divides by it (NaN in floating point; the field model returns 0, which is what notes/C10_fix_1.diff makes the
code do).  `PivotsPos` fails at step 1, so the invariant theorems do not apply there. -/
theorem pc_zero_pivot_counterexample :
    pivotVal (iter idPrim rankOne 1) ⟨1, by decide⟩ = 0 ∧ ¬ PivotsPos idPrim rankOne 2 := by
  have h : pivotVal (iter idPrim rankOne 1) ⟨1, by decide⟩ = 0 := by decide +kernel
  refine ⟨h, fun hp => ?_⟩
  have := hp 1 (by decide) (by decide)
  rw [h] at this
  exact lt_irrefl _ this

/-! ### The CURRENT loop body (fix d829792: clamp + mask) and the coupled batch loop -/

/-- The masking statements of the current loop body (fix d829792), as extracted from the working tree, are the ones `stepM` mirrors:
the pivot is clamped at 0 before the square root, and the new column is `where(pivot > 0, L_m_new / pivot, 0)`. -/
theorem generated_mask_matches_model :
    LinOp.Generated.C10.maskStmts = ["L_m.scatter_(-1, pi_m.unsqueeze(-1), max_diag_values.clamp_min(0.0).sqrt().unsqueeze_(-1))",
      "L_m.scatter_(-1, pi_i, L_m_new)", "L_m.gather(-1, pi_m.unsqueeze(-1))", "row.gather(-1, pi_i)",
      "torch.where(pivot > 0, L_m_new / pivot, torch.zeros_like(L_m_new))"] := by
  decide +kernel

section pcM
variable {α : Type} [Field α] [LinearOrder α] [IsStrictOrderedRing α] {n : Nat}

/-- **On positive pivots the current (masked) code computes exactly what the unmasked model computes**, so every invariant theorem
above (`pc_pivot_is_argmax`, `pc_diag_tracks_residual`, `pc_pivot_rows_zero`, `pc_residual_psd`, `pc_exact_at_n`, …) is a theorem
about `iterM`, the literal mirror of the current loop body that the driver runs. -/
theorem pcM_agrees_on_positive_pivots {P : Prim α} (hP : SqrtLaw P) (A : Mat α n n) (m : Nat) (hpos : PivotsPos P A m) :
    iterM P A m = iter P A m :=
  iterM_eq_iter hP A m hpos

/-- In particular on every symmetric positive-definite input, for any number of iterations. -/
theorem pcM_pd_agrees {P : Prim α} {A : Mat α n n} (hP : SqrtLaw P) (hA : Symm A) (hpd : PD A) (m : Nat) (hm : m ≤ n) :
    iterM P A m = iter P A m :=
  iterM_eq_iter hP A m (pc_pd_pivots_pos hP hA hpd m hm).1

/-- **The pivots of the current code are always a permutation** (any input, masked or not). -/
theorem pcM_perm_valid (P : Prim α) (A : Mat α n n) (m : Nat) : Function.Bijective (iterM P A m).perm.get := by
  induction m with
  | zero => exact (init_inv A).bij
  | succ m ih =>
    simp only [iterM]
    split
    · rw [stepM_perm]; exact swapPerm_bij _ _ ih
    · exact ih

/-- **Stop rule of the coupled loop** (shared counter, `torch.max(errors) > error_tol` over ALL members): every iteration after the
first ran because the largest error in the batch exceeded the tolerance; an exit before `min(k, n)` only when it does not; all members
ran the same `r` iterations, `1 ≤ r ≤ min(k, n)`. -/
theorem pcM_stop_rule (P : Prim α) (As : List (Mat α n n)) (rank : Nat) (tol : α) (hrank : 0 < rank) (hn : 0 < n) :
    let r := (runM P As rank tol).1
    (∀ t, 1 ≤ t → t < r → tol < errAtM P As t) ∧ (r < min rank n → errAtM P As r ≤ tol) := by
  intro r
  have h := runM_spec P As rank tol hrank hn
  exact ⟨fun t h1 h2 => h.continued t (Nat.zero_le _) h1 h2, fun hlt => not_lt.1 (h.stopped hlt (h.pos rfl))⟩

theorem pcM_rank_le (P : Prim α) (As : List (Mat α n n)) (rank : Nat) (tol : α) (hrank : 0 < rank) (hn : 0 < n) :
    let res := runM P As rank tol
    1 ≤ res.1 ∧ res.1 ≤ rank ∧ res.1 ≤ n ∧ res.2 = As.map (fun A => iterM P A res.1) := by
  intro res
  have h := runM_spec P As rank tol hrank hn
  exact ⟨h.pos rfl, le_trans h.le_max (Nat.min_le_left _ _), le_trans h.le_max (Nat.min_le_right _ _), h.states⟩

/-- **Inside a batch every member is its own single-member run, continued.**  Let `r` be the number of iterations of the coupled loop
on the batch `As` and `r_A` the number the member `A` runs ALONE (same rank, same tolerance).  Then `r_A ≤ r`; the member's state in the
batch is `iterM A r` and alone it is `iterM A r_A` (its evolution never depends on the other members); the first `r_A` columns of its
batch factor are exactly its single-run factor, followed by `r − r_A` further columns; and its first `r_A` pivots are the same. -/
theorem pcM_batch_member_is_own_run_continued (P : Prim α) (As : List (Mat α n n)) (rank : Nat) (tol : α) (hrank : 0 < rank)
    (hn : 0 < n) (A : Mat α n n) (hA : A ∈ As) :
    let r := (runM P As rank tol).1
    let rA := (runM P [A] rank tol).1
    rA ≤ r ∧ (runM P As rank tol).2 = As.map (fun B => iterM P B r) ∧ (runM P [A] rank tol).2 = [iterM P A rA] ∧
    (∃ extra : List (Vector α n), (iterM P A r).rows = (iterM P A rA).rows ++ extra ∧ extra.length = r - rA) ∧
    ∀ j : Fin n, j.val < rA → (iterM P A r).perm.get j = (iterM P A rA).perm.get j := by
  intro r rA
  have hle : rA ≤ r := single_le_batch P As rank tol hrank hn A hA
  have hB := runM_spec P As rank tol hrank hn
  have hS := runM_spec P [A] rank tol hrank hn
  have hrn : r ≤ n := le_trans hB.le_max (Nat.min_le_right _ _)
  obtain ⟨d, hd⟩ : ∃ d, r = rA + d := ⟨r - rA, by omega⟩
  refine ⟨hle, hB.states, by simpa using hS.states, ?_, ?_⟩
  · obtain ⟨extra, hex⟩ := iterM_rows_append P A rA d
    refine ⟨extra, by rw [hd]; exact hex, ?_⟩
    have h1 := iterM_rows_length P A r hrn
    have h2 := iterM_rows_length P A rA (by omega)
    rw [hd, hex, List.length_append, h2] at h1
    omega
  · intro j hj
    rw [hd]; exact iterM_perm_prefix P A rA j hj d

/-- **What the extra columns of a converged member contain: zeros.**  If after `m0` iterations the tracked residual diagonal of a
member has vanished on all unpivoted positions (its error is 0: the member is factorized exactly, e.g. a rank-`m0` member of a batch whose
other members keep the loop running), then after `d` more iterations of the current code its factor is the old one followed by `d` ZERO
columns, its pivots are unchanged, and `A − L Lᵀ` is unchanged (needs only `sqrt 0 = 0`).  Before fix d829792 these columns were NaN. -/
theorem pcM_converged_member_zero_columns {P : Prim α} (h0 : P.sqrt 0 = 0) (A : Mat α n n) (m0 : Nat)
    (hz : TailZero (iterM P A m0) m0) (d : Nat) (hd : m0 + d ≤ n) :
    (∃ extra : List (Vector α n), (iterM P A (m0 + d)).rows = (iterM P A m0).rows ++ extra ∧ extra.length = d ∧
      ∀ l ∈ extra, ∀ k, l.get k = 0) ∧
    (iterM P A (m0 + d)).perm.get = (iterM P A m0).perm.get ∧
    ∀ i k, resid A (iterM P A (m0 + d)).rows i k = resid A (iterM P A m0).rows i k := by
  obtain ⟨⟨extra, hrows, hlen, hzero⟩, hperm, _, _⟩ := iterM_pad h0 A m0 hz d hd
  refine ⟨⟨extra, hrows, hlen, hzero⟩, hperm, ?_⟩
  intro i k
  simp only [resid, hrows, lltEntry_append_zero _ _ hzero]

end pcM

/-- The hypothesis of `pcM_converged_member_zero_columns` is satisfiable: `diag(1, 0)` has converged after one iteration. -/
example : idPrim.sqrt 0 = 0 ∧ TailZero (iterM idPrim rankOne 1) 1 := by
  refine ⟨rfl, ?_⟩
  unfold TailZero
  decide +kernel

/-! ### Histories: every call obeys the tolerance in force AT THAT CALL -/

/-- `LinearOperator.pivoted_cholesky` carries NO decorator (nothing is memoised on the operator object: a `@cached` key would be
`(rank, error_tol)` and would not contain the settings), no operator class overrides it, its body hands `rank, error_tol` straight to
`PivotedCholesky.apply`, `forward` is a plain `staticmethod`, and in `AddedDiagLinearOperator._preconditioner` the factor is computed
under the guard `self._q_cache is None` (state of that AddedDiag object only, never of the shared kernel operator) — as extracted from
the working tree on every run. -/
theorem generated_pc_method_matches_model :
    LinOp.Generated.C10.pcDecorators = [] ∧
    LinOp.Generated.C10.pcDefinedIn = ["LinearOperator"] ∧
    LinOp.Generated.C10.pcMethodBody = ["func = PivotedCholesky.apply",
      "res, pivots = func(self.representation_tree(), rank, error_tol, *self.representation())",
      "if return_pivots:     return (res, pivots) else:     return res"] ∧
    LinOp.Generated.C10.forwardDecorators = ["staticmethod"] ∧
    LinOp.Generated.C10.qCacheGuard = ["self._q_cache is None"] := by
  decide +kernel

section hist
variable {α : Type} [Field α] [LinearOrder α] [IsStrictOrderedRing α] {n : Nat}

/-- **Every call of a history obeys the stop rule of the tolerance in force at that call.**  For the method wrapper as extracted
from the working tree (decorator list `pcDecorators`), any sequence of calls `op.pivoted_cholesky(rank_i, error_tol_i)` on ONE operator
object made under changing `settings.preconditioner_tolerance` values, starting from ANY state of the object's cache: the `i`-th result is
`runM A rank_i tol_i` (the coupled loop of the current code) with `tol_i = error_tol_i` or, for `None`, the settings value at call `i`; hence it continued only while the error
exceeded `tol_i` and stopped before `min(rank_i, n)` only once the error was `≤ tol_i`. -/
theorem pc_history_tolerance_in_force (P : Prim α) (As : List (Mat α n n)) (cache : Memo α n) (cs : List (Call α)) (hn : 0 < n) :
    history (memoised LinOp.Generated.C10.pcDecorators) P As cache cs = cs.map (fun c => runM P As c.rank c.tol) ∧
    ∀ c ∈ cs, 0 < c.rank →
      let r := (runM P As c.rank c.tol).1
      (∀ t, 1 ≤ t → t < r → c.tol < errAtM P As t) ∧ (r < min c.rank n → errAtM P As r ≤ c.tol) := by
  have hm : memoised LinOp.Generated.C10.pcDecorators = false := by decide +kernel
  rw [hm]
  exact ⟨history_unmemoised P As cache cs, fun c _ hr => pcM_stop_rule P As c.rank c.tol hr hn⟩

end hist

/-- 2×2 identity -/
def eye2 : Mat Rat 2 2 := fun i j => if i = j then 1 else 0

/-- **Why the method must not be memoised on the operator** (`@cached` keys are `(rank, error_tol)`): on `I₂`, the history
"rank 2 under tolerance 1, then rank 2 under tolerance 1/2" (both with `error_tol=None`) would return rank 1 twice, although the
tolerance in force at the second call demands rank 2 (error after one step is 1 > 1/2). -/
theorem pc_history_memoised_counterexample :
    (history true idPrim [eye2] [] [⟨2, none, 1⟩, ⟨2, none, 1 / 2⟩]).map (·.1) = [1, 1] ∧
    (history false idPrim [eye2] [] [⟨2, none, 1⟩, ⟨2, none, 1 / 2⟩]).map (·.1) = [1, 2] ∧
    memoised ["cached(name='pivoted_cholesky')"] = true := by
  decide +kernel

/-! ### Settings -/

/-- With the defaults extracted from `settings.py` the preconditioner is used exactly for `n ≥ 2000`, with rank 15 and tolerance 1/1000. -/
theorem precond_enabled_default (n : Nat) :
    precondEnabled LinOp.Generated.C10.max_preconditioner_size LinOp.Generated.C10.min_preconditioning_size n = decide (2000 ≤ n) ∧
    LinOp.Generated.C10.max_preconditioner_size = 15 ∧
    (LinOp.Generated.C10.preconditioner_tolerance_num, LinOp.Generated.C10.preconditioner_tolerance_den) = (1, 1000) := by
  refine ⟨?_, by decide, by decide⟩
  simp only [precondEnabled, LinOp.Generated.C10.max_preconditioner_size, LinOp.Generated.C10.min_preconditioning_size]
  by_cases h : 2000 ≤ n
  · have h2 : ¬ n < 2000 := by omega
    simp [h, h2]
  · have h2 : n < 2000 := by omega
    simp [h, h2]

/-- `max_preconditioner_size = 0` or a matrix smaller than `min_preconditioning_size` switch the preconditioner off, and nothing else does. -/
theorem precond_enabled_iff (maxSize minSize n : Nat) :
    precondEnabled maxSize minSize n = true ↔ maxSize ≠ 0 ∧ minSize ≤ n := by
  simp [precondEnabled]

end LinOp.C10
