/-
C09 — Lanczos returns an orthonormal basis and the projected tridiagonal.

Theorems about the executable model `LinOp.C09.lanczosTridiag` (one column of
`linear_operator.utils.lanczos.lanczos_tridiag`, statement by statement) and about the model of the
post-processing (`lanczos_tridiag_to_diag`, `RootDecomposition.forward`), over any ordered field with a lawful
square root, for every size `n`, every budget `max_iter`, every start vector and every self-adjoint closure.
"No breakdown" is the hypothesis `BetaOK`: the off-diagonal entries of the RETURNED `T` are non-zero
(nothing is assumed about the entry that made the loop stop, which is trimmed away).

Multi-column calls: `LinOp.C09.lanczosMulti` (C09/Multi.lean) runs all columns of one call in ONE loop as the code does
(shared counter, the two `torch.sum` tests over all columns); `lanczos_multi_column_prefix` lifts the single-column
theorems to every column of the coupled run, on the prefix before that column's own breakdown; `lanczos_multi_one_column`
shows that one column of the coupled model is the single-column model.  End-to-end statements about `lanczosTridiag` on the
closure of a symmetric matrix (`amulOf A`), with no free `Q`, `T`: `lanczos_tridiag_matrix_identities`,
`lanczos_tridiag_root`, `lanczos_tridiag_root_inv`.
-/
import LinOp.C09.ProofsRun
import LinOp.C09.ProofsPost
import LinOp.C09.ProofsScale
import LinOp.C09.ProofsMulti
import LinOp.C09.ProofsMultiOne
import LinOp.C09.ProofsCompose
import LinOp.C09.ProofsStart
import LinOp.Generated.C09Consts

set_option linter.unusedSectionVars false
set_option linter.unusedVariables false

namespace LinOp.C09.Props
open Matrix LinOp.C09

variable {K : Type} [Field K] [LinearOrder K] [IsStrictOrderedRing K] {n : Nat}
variable {ops : NumOps K} {p : Params K} {amul : Vec K n → Vec K n}

/-- `t_mat` is symmetric and tridiagonal after any number of iterations, whatever the closure, the start
vector and the arithmetic (no hypothesis on `sqrt`): only the entries `[k,k]`, `[k,k+1]`, `[k+1,k]` are
written, the last two with the same value. -/
theorem lanczos_T_symmetric_tridiagonal (numIter : Nat) :
    ∀ (rem k : Nat) (s : St K n), TStruct s → TStruct (loop ops p amul numIter rem k s).2 := by
  intro rem
  induction rem with
  | zero => intro k s h; simpa [loop] using h
  | succ rem ih =>
    intro k s h
    simp only [loop]
    split
    · exact body_tstruct h
    · exact ih _ _ (body_tstruct h)

/-- The Gram–Schmidt correction of iteration `k` (`r ← r − Q(Qᵀr)`, then normalisation): if `q_0 … q_k` are
orthonormal, the new vector is orthogonal to all of them and (when its norm `β_k` is non-zero) has unit norm —
for ANY closure, symmetric or not.  The up-to-10 extra passes then leave it unchanged. -/
theorem gram_schmidt_orthogonal (hs : SqrtLaw ops) (k : Nat) (s : St K n) (ho : Orth (Qf s) k) :
    (∀ j, j ≤ k → Qf s j ⬝ᵥ fn (bodyW ops amul k s) = 0) ∧
    (bodyN ops amul k s ≠ 0 → fn (bodyW ops amul k s) ⬝ᵥ fn (bodyW ops amul k s) = 1) ∧
    (bodyN ops amul k s ≠ 0 → (bodyEx ops p amul k s).1 = bodyW ops amul k s) :=
  ⟨fun j hj => bodyW_orth_gs ho j hj, fun hb => bodyW_unit hs hb, fun hb => bodyEx_eq hs ho hb⟩

/-- Breakdown / failed re-orthogonalisation exit: when iteration `k` says "break", the function returns
`num_iter = k + 1`, i.e. the columns `q_0 … q_k` and the leading `(k+1)×(k+1)` block of `t_mat`; the vector
`q_{k+1}` and the entry `β_k` computed in that iteration are trimmed away. -/
theorem lanczos_breakdown_trim (numIter rem k : Nat) (s : St K n)
    (hbrk : (body ops p amul numIter k s).2 = true) :
    loop ops p amul numIter (rem + 1) k s = (k + 1, (body ops p amul numIter k s).1) := by
  simp [loop, hbrk]

/-- Main invariant, for every budget and size (`1 ≤ min max_iter n`), every non-zero start vector and every
self-adjoint closure (code as it is now, `guardsSingle = true`, budget ≥ 1): the call succeeds, returns `1 ≤ count ≤ min max_iter n` columns, and — if no returned
off-diagonal entry is zero — the returned `q_0 … q_{count-1}` are orthonormal. -/
theorem lanczos_orthonormal (hs : SqrtLaw ops) (hA : SelfAdj amul) (maxIter : Nat) (v : Vec K n)
    (hv : fn v ⬝ᵥ fn v ≠ 0) (hg : p.guardsSingle = true) (h1 : 1 ≤ min maxIter n) :
    ∃ o, lanczosTridiag ops p amul maxIter v = .ok o ∧ 1 ≤ o.count ∧ o.count ≤ min maxIter n ∧
      (BetaOK (o.count - 1) o.st →
        ∀ i j, i < o.count → j < o.count → Qf o.st i ⬝ᵥ Qf o.st j = if i = j then 1 else 0) := by
  obtain ⟨o, ho, h1, h3, _, hd⟩ := lanczos_ok hs hA hg maxIter v hv h1
  exact ⟨o, ho, h1, h3, fun hb i j hi hj => (hd hb).orth i j (by omega) (by omega)⟩

/-- Matrix form of orthonormality: `QᵀQ = I` for the returned `n × count` matrix. -/
theorem lanczos_QtQ (hs : SqrtLaw ops) (hA : SelfAdj amul) (maxIter : Nat) (v : Vec K n)
    (hv : fn v ⬝ᵥ fn v ≠ 0) (hg : p.guardsSingle = true) (h1 : 1 ≤ min maxIter n) :
    ∃ o, lanczosTridiag ops p amul maxIter v = .ok o ∧
      (BetaOK (o.count - 1) o.st → (Matrix.of o.Q)ᵀ * Matrix.of o.Q = 1) := by
  obtain ⟨o, ho, h1, h3, horth⟩ := lanczos_orthonormal hs hA maxIter v hv hg h1
  refine ⟨o, ho, fun hb => ?_⟩
  ext i j
  have := horth hb i.1 j.1 i.2 j.2
  simp only [Qf, Out.st] at this
  simp only [Matrix.mul_apply, Matrix.transpose_apply, Matrix.of_apply, Out.Q, Matrix.one_apply, Fin.ext_iff]
  simpa [dotProduct, fn] using this

/-- Three-term recurrence: for every returned column except the last,
`A q_j = β_{j-1} q_{j-1} + α_j q_j + β_j q_{j+1}` with the entries of the returned `T` — i.e.
`A Q − Q T` vanishes outside its last column. -/
theorem lanczos_recurrence (hs : SqrtLaw ops) (hA : SelfAdj amul) (maxIter : Nat) (v : Vec K n)
    (hv : fn v ⬝ᵥ fn v ≠ 0) (hg : p.guardsSingle = true) (h1 : 1 ≤ min maxIter n) :
    ∃ o, lanczosTridiag ops p amul maxIter v = .ok o ∧
      (BetaOK (o.count - 1) o.st → ∀ j, j + 1 < o.count →
        AQf amul o.st j = (if j = 0 then 0 else Tf o.st j (j - 1) • Qf o.st (j - 1)) + Tf o.st j j • Qf o.st j
          + Tf o.st j (j + 1) • Qf o.st (j + 1)) := by
  obtain ⟨o, ho, h1, h3, _, hd⟩ := lanczos_ok hs hA hg maxIter v hv h1
  exact ⟨o, ho, fun hb j hj => (hd hb).recur j (by omega)⟩

/-- Projection lemma on a finished state: `q_i · A q_j = T[i,j]` for all kept `i, j`. -/
theorem done_projection (hA : SelfAdj amul) {k : Nat} {s : St K n} (hT : TStruct s) (hd : Done amul k s)
    (i j : Nat) (hi : i ≤ k) (hj : j ≤ k) : Qf s i ⬝ᵥ AQf amul s j = Tf s i j := by
  have hlt : ∀ i j, i ≤ k → j < k → Qf s i ⬝ᵥ AQf amul s j = Tf s i j := by
    intro i j hi hj
    rw [hd.recur j hj]
    simp only [dotProduct_add, dotProduct_smul, smul_eq_mul]
    have e1 : Qf s i ⬝ᵥ (if j = 0 then (0 : Fin n → K) else Tf s j (j - 1) • Qf s (j - 1))
        = if j ≠ 0 ∧ i = j - 1 then Tf s j (j - 1) else 0 := by
      by_cases hj0 : j = 0
      · simp [hj0]
      · rw [if_neg hj0, dotProduct_smul, hd.orth i (j - 1) hi (by omega)]
        by_cases h : i = j - 1 <;> simp [h, hj0]
    rw [e1, hd.orth i j hi (by omega), hd.orth i (j + 1) hi (by omega)]
    by_cases h1 : i = j
    · subst h1
      have : ¬ (i ≠ 0 ∧ i = i - 1) := by omega
      simp [this]
    · by_cases h2 : i = j + 1
      · subst h2
        have : ¬ (j ≠ 0 ∧ j + 1 = j - 1) := by omega
        simp [this, hT.sym (j + 1) j]
      · by_cases h3 : j ≠ 0 ∧ i = j - 1
        · obtain ⟨h30, h31⟩ := h3
          subst h31
          have e : Tf s (j - 1) j = Tf s j (j - 1) := hT.sym _ _
          simp [h30, h1, h2, e]
        · have hz : Tf s i j = 0 := hT.tri i j (by omega)
          simp [h1, h2, h3, hz]
  rcases Nat.lt_or_eq_of_le hj with hjl | rfl
  · exact hlt i j hi hjl
  · rcases Nat.lt_or_eq_of_le hi with hil | rfl
    · have e : Qf s i ⬝ᵥ AQf amul s j = Qf s j ⬝ᵥ AQf amul s i := by
        simp only [Qf, AQf]
        rw [hA, dotProduct_comm]
      rw [e, hlt j i le_rfl hil, hT.sym]
    · exact hd.alpha.symm

/-- `QᵀAQ = T`: every entry of the returned tridiagonal matrix is the corresponding entry of the projection
of the operator onto the returned basis. -/
theorem lanczos_projection (hs : SqrtLaw ops) (hA : SelfAdj amul) (maxIter : Nat) (v : Vec K n)
    (hv : fn v ⬝ᵥ fn v ≠ 0) (hg : p.guardsSingle = true) (h1 : 1 ≤ min maxIter n) :
    ∃ o, lanczosTridiag ops p amul maxIter v = .ok o ∧
      (BetaOK (o.count - 1) o.st →
        ∀ i j, i < o.count → j < o.count → Qf o.st i ⬝ᵥ AQf amul o.st j = Tf o.st i j) := by
  obtain ⟨o, ho, h1, h3, hT, hd⟩ := lanczos_ok hs hA hg maxIter v hv h1
  exact ⟨o, ho, fun hb i j hi hj => done_projection hA hT (hd hb) i j (by omega) (by omega)⟩

/-- The returned `T` is symmetric tridiagonal (as a matrix), unconditionally on the data. -/
theorem lanczos_T_matrix (hs : SqrtLaw ops) (hA : SelfAdj amul) (maxIter : Nat) (v : Vec K n)
    (hv : fn v ⬝ᵥ fn v ≠ 0) (hg : p.guardsSingle = true) (h1 : 1 ≤ min maxIter n) :
    ∃ o, lanczosTridiag ops p amul maxIter v = .ok o ∧ (∀ i j, o.T i j = o.T j i) ∧
      (∀ i j : Fin o.count, i.1 + 1 < j.1 ∨ j.1 + 1 < i.1 → o.T i j = 0) := by
  obtain ⟨o, ho, _, _, hT, _⟩ := lanczos_ok hs hA hg maxIter v hv h1
  exact ⟨o, ho, fun i j => hT.sym i.1 j.1, fun i j h => hT.tri i.1 j.1 h⟩

/-! ### first step: budget of one iteration, 1×1 operators, start vectors that are eigenvectors -/

/-- Code as it is now: with a budget of one iteration (`max_iter = 1` or a 1×1 operator) the call returns the
single column `q_0 = v/‖v‖` (unit norm) and `T = [q_0·A q_0]`, for every closure and non-zero start vector. -/
theorem lanczos_single_iter_fixed (hs : SqrtLaw ops) (hg : p.guardsSingle = true) (maxIter : Nat) (v : Vec K n)
    (hv : fn v ⬝ᵥ fn v ≠ 0) (h1 : min maxIter n = 1) :
    ∃ o, lanczosTridiag ops p amul maxIter v = .ok o ∧ o.count = 1 ∧
      Qf o.st 0 ⬝ᵥ Qf o.st 0 = 1 ∧ Tf o.st 0 0 = Qf o.st 0 ⬝ᵥ AQf amul o.st 0 := by
  have hd := init0_done (amul := amul) (numIter := min maxIter n) hs v hv
  refine ⟨{ count := 1, q := (init0 ops amul (min maxIter n) v).1.q, t := (init0 ops amul (min maxIter n) v).1.t,
            passes := 0 }, ?_, rfl, ?_, hd.alpha⟩
  · unfold lanczosTridiag
    simp [h1, hg]
  · have h := hd.orth 0 0 le_rfl le_rfl
    rw [if_pos rfl] at h
    exact h

/-- Code as it is now: if `β_0 = ‖A q_0 − α_0 q_0‖` is not above the breakdown threshold (the start vector is an
eigenvector up to the threshold; includes `A = c·I` and the zero operator) the call returns the single column `q_0`
(unit norm) and `T = [q_0·A q_0]` instead of dividing by `β_0`. -/
theorem lanczos_eigenvector_start (hs : SqrtLaw ops) (hg : p.guardsSingle = true) (maxIter : Nat) (v : Vec K n)
    (hv : fn v ⬝ᵥ fn v ≠ 0) (h1 : 1 ≤ min maxIter n)
    (hb : ops.gt (ops.abs (init0 ops amul (min maxIter n) v).2.2) p.breakTol = false) :
    ∃ o, lanczosTridiag ops p amul maxIter v = .ok o ∧ o.count = 1 ∧
      Qf o.st 0 ⬝ᵥ Qf o.st 0 = 1 ∧ Tf o.st 0 0 = Qf o.st 0 ⬝ᵥ AQf amul o.st 0 := by
  have hd := init0_done (amul := amul) (numIter := min maxIter n) hs v hv
  refine ⟨{ count := 1, q := (init0 ops amul (min maxIter n) v).1.q, t := (init0 ops amul (min maxIter n) v).1.t,
            passes := 0 }, ?_, rfl, ?_, hd.alpha⟩
  · unfold lanczosTridiag
    simp [show ¬ min maxIter n = 0 by omega, hg, hb]
  · have h := hd.orth 0 0 le_rfl le_rfl
    rw [if_pos rfl] at h
    exact h

/-- PREVIOUS code (before commit c712633, `guardsSingle = false`; kept as the record of defect D14): a budget of one
iteration — `max_iter = 1` or `n = 1` — ended in IndexError (`t_mat[0, 1]` on a 1×1 buffer) for every closure and
every start vector. -/
theorem lanczos_index_error_before_fix_counterexample (hg : p.guardsSingle = false) (maxIter : Nat) (v : Vec K n)
    (h1 : min maxIter n = 1) : lanczosTridiag ops p amul maxIter v = .error .indexError := by
  simp [lanczosTridiag, h1, hg]

/-! ### post-processing (`lanczos_tridiag_to_diag`, roots, inverse roots, full dimension) -/

/-- Masking of negative Ritz values: kept eigenpairs are unchanged, a negative eigenvalue becomes 1 and its
eigenvector column is zeroed; the masked pair reconstructs the positive part `V diag(θ⁺) Vᵀ`. -/
theorem tridiag_to_diag_mask {m : Nat} (θ : Fin m → K) (V : Matrix (Fin m) (Fin m) K) :
    (∀ j, 0 ≤ θ j → mEvals θ j = θ j ∧ ∀ i, mEvecs θ V i j = V i j) ∧
    (∀ j, ¬ 0 ≤ θ j → mEvals θ j = 1 ∧ ∀ i, mEvecs θ V i j = 0) ∧
    (∀ j, 0 ≤ mEvals θ j) ∧
    mEvecs θ V * Matrix.diagonal (mEvals θ) * (mEvecs θ V)ᵀ = V * Matrix.diagonal (pos θ) * Vᵀ :=
  LinOp.C09.tridiag_to_diag_mask θ V

/-- `R = Q V' diag(√θ')` satisfies `R Rᵀ = Q (V diag(θ⁺) Vᵀ) Qᵀ`; with no negative Ritz value this is
`Q (T + jitter) Qᵀ`. -/
theorem lanczos_root {m : Nat} (hsq : ∀ x : K, 0 ≤ x → ops.sqrt x * ops.sqrt x = x)
    (Q : Matrix (Fin n) (Fin m) K) (V T' : Matrix (Fin m) (Fin m) K) (θ : Fin m → K) :
    lanczosRoot ops Q V θ * (lanczosRoot ops Q V θ)ᵀ = Q * (V * Matrix.diagonal (pos θ) * Vᵀ) * Qᵀ ∧
    ((∀ j, 0 ≤ θ j) → V * Matrix.diagonal θ * Vᵀ = T' →
      lanczosRoot ops Q V θ * (lanczosRoot ops Q V θ)ᵀ = Q * T' * Qᵀ) :=
  ⟨LinOp.C09.lanczos_root ops hsq Q V θ, fun h1 h2 => LinOp.C09.lanczos_root_nonneg ops hsq Q V T' θ h1 h2⟩

/-- Inverse root: `R⁻ = Q V diag(1/√θ)` satisfies `R⁻ R⁻ᵀ = Q (T + jitter)⁻¹ Qᵀ` when all Ritz values are positive. -/
theorem lanczos_root_inv {m : Nat} (hsq : ∀ x : K, 0 ≤ x → ops.sqrt x * ops.sqrt x = x)
    (Q : Matrix (Fin n) (Fin m) K) (V T' : Matrix (Fin m) (Fin m) K) (θ : Fin m → K)
    (hpos : ∀ j, 0 < θ j) (hV : Vᵀ * V = 1) (hT : V * Matrix.diagonal θ * Vᵀ = T') :
    lanczosRootInv ops Q V θ * (lanczosRootInv ops Q V θ)ᵀ = Q * T'⁻¹ * Qᵀ :=
  LinOp.C09.lanczos_root_inv ops hsq Q V T' θ hpos hV hT

/-- Full dimension: a square `Q` with `QᵀQ = I` and `QᵀAQ = T` gives `Q T Qᵀ = A`; in general `Q T Qᵀ` is the
orthogonal compression `(QQᵀ) A (QQᵀ)`. -/
theorem lanczos_full (Q A T : Matrix (Fin n) (Fin n) K) (hQ : Qᵀ * Q = 1) (hP : Qᵀ * A * Q = T) :
    Q * T * Qᵀ = A :=
  LinOp.C09.lanczos_full Q A T hQ hP

theorem lanczos_compression {m : Nat} (Q : Matrix (Fin n) (Fin m) K) (A : Matrix (Fin n) (Fin n) K)
    (T : Matrix (Fin m) (Fin m) K) (hP : Qᵀ * A * Q = T) : Q * T * Qᵀ = (Q * Qᵀ) * A * (Q * Qᵀ) :=
  LinOp.C09.lanczos_compression Q A T hP

/-- Full dimension, root: `R Rᵀ = A + jitter·I`. -/
theorem lanczos_full_root (hsq : ∀ x : K, 0 ≤ x → ops.sqrt x * ops.sqrt x = x)
    (Q A T V : Matrix (Fin n) (Fin n) K) (θ : Fin n → K) (c : K) (hQ : Qᵀ * Q = 1) (hP : Qᵀ * A * Q = T)
    (hV : V * Matrix.diagonal θ * Vᵀ = Matrix.of (addJitter T c)) (hθ : ∀ j, 0 ≤ θ j) :
    lanczosRoot ops Q V θ * (lanczosRoot ops Q V θ)ᵀ = A + c • 1 :=
  LinOp.C09.lanczos_full_root ops hsq Q A T V θ c hQ hP hV hθ

/-! ### the tridiagonal jitter is relative (no absolute floor): homogeneity -/

/-- `jitter = tridiagonal_jitter · min(diag T)` is homogeneous of degree 1: `c·T + jitter(c·T) = c·(T + jitter(T))`
for every `c > 0`, every size and every `T`. -/
theorem tridiagonal_jitter_homogeneous {m : Nat} (c : K) (hc : 0 < c) (jit : K) (T : Mat K m m) :
    jitterOf ltb jit (fun a b => c * T a b) = c * jitterOf ltb jit T ∧
    jitteredT ltb jit (fun a b => c * T a b) = fun a b => c * jitteredT ltb jit T a b :=
  ⟨jitter_homogeneous c hc jit T, jitteredT_homogeneous c hc jit T⟩

/-- `lanczos_root(c·A) = √c · lanczos_root(A)` in exact arithmetic (`c > 0`): Lanczos on `c·A` with the same start
vector gives the same `Q` and `c·T`; if `(θ, V)` is the eigendecomposition of the jittered `T` then `(c·θ, V)` is one
of the jittered `c·T`, and the assembled root (masked Ritz values included) is `√c` times the root of `A`. -/
theorem lanczos_root_homogeneous {m : Nat} (hs : SqrtLaw ops) (c : K) (hc : 0 < c) (jit : K)
    (Q : Matrix (Fin n) (Fin m) K) (T : Mat K m m) (V : Matrix (Fin m) (Fin m) K) (θ : Fin m → K)
    (hE : V * Matrix.diagonal θ * Vᵀ = Matrix.of (jitteredT ltb jit T)) :
    V * Matrix.diagonal (fun j => c * θ j) * Vᵀ = Matrix.of (jitteredT ltb jit (fun a b => c * T a b)) ∧
    lanczosRoot ops Q V (fun j => c * θ j) = ops.sqrt c • lanczosRoot ops Q V θ := by
  refine ⟨?_, lanczos_root_scaled hs c hc Q V θ⟩
  rw [eig_scaled c V _ θ hE]
  have h := jitteredT_homogeneous c hc jit T
  ext a b
  simp only [Matrix.smul_apply, Matrix.of_apply, smul_eq_mul, h]

/-- `Diagonalization.forward` as it is adds the jitter to every entry of `T` (`addJitterAll`), which is not the
documented diagonal jitter (`addJitter`): they differ as soon as `m ≥ 2` and the jitter is non-zero. -/
theorem diagonalization_jitter_all_entries_counterexample :
    ∃ (T : Mat Int 2 2) (j : Int), addJitterAll T j ≠ addJitter T j :=
  ⟨fun _ _ => 0, 1, fun h => by
    have h01 := congrFun (congrFun h 0) 1
    simp [addJitterAll, addJitter] at h01⟩

/-- …and they agree on the diagonal (partial statement that does hold of the code as it is). -/
theorem diagonalization_jitter_diagonal_partial {m : Nat} (T : Mat K m m) (j : K) (a : Fin m) :
    addJitterAll T j a a = addJitter T j a a := by
  simp [addJitterAll, addJitter]

/-! ### end-to-end: `lanczosTridiag` on the closure of a symmetric matrix, matrix identities (no free `Q`, `T`) -/

/-- From the column-wise invariants of a finished state to the matrix identities of the property, for the returned
`Q` (`n × count`) and `T` (`count × count`) and the closure `x ↦ A x` of a symmetric `A`:
`QᵀQ = 1`, `QᵀAQ = T`, `A Q − Q T = r e_kᵀ` (the residual `r = A q_k − β_{k−1} q_{k−1} − α_k q_k` in the LAST column,
zero elsewhere), `Q T Qᵀ = (QQᵀ) A (QQᵀ)` with `QQᵀ` an orthogonal projector, and `Q T Qᵀ = A` when `count = n`. -/
theorem matrix_identities_of_done {A : Matrix (Fin n) (Fin n) K} (hA : Aᵀ = A) (o : Out K n) (h1 : 1 ≤ o.count)
    (hT : TStruct o.st) (hd : Done (amulOf A) (o.count - 1) o.st) :
    (Matrix.of o.Q)ᵀ * Matrix.of o.Q = 1 ∧
    (Matrix.of o.Q)ᵀ * A * Matrix.of o.Q = Matrix.of o.T ∧
    A * Matrix.of o.Q - Matrix.of o.Q * Matrix.of o.T = residualMat A o ∧
    Matrix.of o.Q * Matrix.of o.T * (Matrix.of o.Q)ᵀ
      = (Matrix.of o.Q * (Matrix.of o.Q)ᵀ) * A * (Matrix.of o.Q * (Matrix.of o.Q)ᵀ) ∧
    (Matrix.of o.Q * (Matrix.of o.Q)ᵀ) * (Matrix.of o.Q * (Matrix.of o.Q)ᵀ) = Matrix.of o.Q * (Matrix.of o.Q)ᵀ ∧
    (o.count = n → Matrix.of o.Q * Matrix.of o.T * (Matrix.of o.Q)ᵀ = A) := by
  have hQ := QtQ_of_orth o (fun i j hi hj => hd.orth i j (by omega) (by omega))
  have hP := QtAQ_of_entries A o
    (fun i j hi hj => done_projection (selfAdj_amulOf hA) hT hd i j (by omega) (by omega))
  exact ⟨hQ, hP, AQ_sub_QT A o hT hd.recur, LinOp.C09.lanczos_compression _ A _ hP, (QQt_idem _ hQ).1,
    fun hn => full_of_card _ A _ hn hQ hP⟩

/-- END-TO-END statement about `lanczosTridiag` itself: for every symmetric `A`, every size, budget `≥ 1` and non-zero
start vector the call succeeds with `1 ≤ count ≤ min max_iter n`, and — unless a returned off-diagonal entry is zero —
the returned `Q`, `T` satisfy `QᵀQ = 1`, `QᵀAQ = T`, `A Q − Q T = r e_kᵀ`, `Q T Qᵀ =` the orthogonal compression of
`A` onto the span of `Q`, and `Q T Qᵀ = A` when the budget reaches the dimension (`count = n`). -/
theorem lanczos_tridiag_matrix_identities (hs : SqrtLaw ops) {A : Matrix (Fin n) (Fin n) K} (hA : Aᵀ = A)
    (maxIter : Nat) (v : Vec K n) (hv : fn v ⬝ᵥ fn v ≠ 0) (hg : p.guardsSingle = true) (h1 : 1 ≤ min maxIter n) :
    ∃ o, lanczosTridiag ops p (amulOf A) maxIter v = .ok o ∧ 1 ≤ o.count ∧ o.count ≤ min maxIter n ∧
      (BetaOK (o.count - 1) o.st →
        (Matrix.of o.Q)ᵀ * Matrix.of o.Q = 1 ∧
        (Matrix.of o.Q)ᵀ * A * Matrix.of o.Q = Matrix.of o.T ∧
        A * Matrix.of o.Q - Matrix.of o.Q * Matrix.of o.T = residualMat A o ∧
        Matrix.of o.Q * Matrix.of o.T * (Matrix.of o.Q)ᵀ
          = (Matrix.of o.Q * (Matrix.of o.Q)ᵀ) * A * (Matrix.of o.Q * (Matrix.of o.Q)ᵀ) ∧
        (Matrix.of o.Q * (Matrix.of o.Q)ᵀ) * (Matrix.of o.Q * (Matrix.of o.Q)ᵀ)
          = Matrix.of o.Q * (Matrix.of o.Q)ᵀ ∧
        (o.count = n → Matrix.of o.Q * Matrix.of o.T * (Matrix.of o.Q)ᵀ = A)) := by
  obtain ⟨o, ho, h1', h3, hT, hd⟩ := lanczos_ok (p := p) hs (selfAdj_amulOf hA) hg maxIter v hv h1
  exact ⟨o, ho, h1', h3, fun hb => matrix_identities_of_done hA o h1' hT (hd hb)⟩

/-- END-TO-END root: `lanczosTridiag`, the relative jitter `j = tridiagonal_jitter · min(diag T)` (`jitterOf`, i.e.
`minDiag`), any eigendecomposition `(θ, V)` of the jittered `T` with non-negative Ritz values (the `eigh` parameter) and
the assembly of `RootDecomposition.forward`: `R Rᵀ = (QQᵀ) A (QQᵀ) + j·QQᵀ`, and `R Rᵀ = A + j·1` when `count = n`. -/
theorem lanczos_tridiag_root (hs : SqrtLaw ops) {A : Matrix (Fin n) (Fin n) K} (hA : Aᵀ = A)
    (maxIter : Nat) (v : Vec K n) (hv : fn v ⬝ᵥ fn v ≠ 0) (hg : p.guardsSingle = true) (h1 : 1 ≤ min maxIter n)
    (jit : K) :
    ∃ o, lanczosTridiag ops p (amulOf A) maxIter v = .ok o ∧
      (BetaOK (o.count - 1) o.st →
        ∀ (V : Matrix (Fin o.count) (Fin o.count) K) (θ : Fin o.count → K),
          V * Matrix.diagonal θ * Vᵀ = Matrix.of (jitteredT ltb jit o.T) → (∀ j, 0 ≤ θ j) →
          lanczosRoot ops (Matrix.of o.Q) V θ * (lanczosRoot ops (Matrix.of o.Q) V θ)ᵀ
            = (Matrix.of o.Q * (Matrix.of o.Q)ᵀ) * A * (Matrix.of o.Q * (Matrix.of o.Q)ᵀ)
              + jitterOf ltb jit o.T • (Matrix.of o.Q * (Matrix.of o.Q)ᵀ) ∧
          (o.count = n →
            lanczosRoot ops (Matrix.of o.Q) V θ * (lanczosRoot ops (Matrix.of o.Q) V θ)ᵀ
              = A + jitterOf ltb jit o.T • (1 : Matrix (Fin n) (Fin n) K))) := by
  obtain ⟨o, ho, h1', h3, hT, hd⟩ := lanczos_ok (p := p) hs (selfAdj_amulOf hA) hg maxIter v hv h1
  refine ⟨o, ho, fun hb V θ hE hθ => ?_⟩
  obtain ⟨hQ, hP, _, _, _, _⟩ := matrix_identities_of_done hA o h1' hT (hd hb)
  have hroot := root_of_compression ops hs.mul_self (Matrix.of o.Q) A (Matrix.of o.T) V θ (jitterOf ltb jit o.T) hP hE hθ
  refine ⟨hroot, fun hn => ?_⟩
  rw [hroot, QQt_of_card _ hn hQ, Matrix.one_mul, Matrix.mul_one]

/-- END-TO-END inverse root: same composition for `inverse = q_mat / root_evals`, with an orthogonal eigendecomposition
of the jittered `T` and positive Ritz values: `R⁻ R⁻ᵀ = Q (T + j·1)⁻¹ Qᵀ`, and `= (A + j·1)⁻¹` when `count = n`. -/
theorem lanczos_tridiag_root_inv (hs : SqrtLaw ops) {A : Matrix (Fin n) (Fin n) K} (hA : Aᵀ = A)
    (maxIter : Nat) (v : Vec K n) (hv : fn v ⬝ᵥ fn v ≠ 0) (hg : p.guardsSingle = true) (h1 : 1 ≤ min maxIter n)
    (jit : K) :
    ∃ o, lanczosTridiag ops p (amulOf A) maxIter v = .ok o ∧
      (BetaOK (o.count - 1) o.st →
        ∀ (V : Matrix (Fin o.count) (Fin o.count) K) (θ : Fin o.count → K),
          V * Matrix.diagonal θ * Vᵀ = Matrix.of (jitteredT ltb jit o.T) → Vᵀ * V = 1 → (∀ j, 0 < θ j) →
          lanczosRootInv ops (Matrix.of o.Q) V θ * (lanczosRootInv ops (Matrix.of o.Q) V θ)ᵀ
            = Matrix.of o.Q * (Matrix.of (jitteredT ltb jit o.T))⁻¹ * (Matrix.of o.Q)ᵀ ∧
          (o.count = n →
            lanczosRootInv ops (Matrix.of o.Q) V θ * (lanczosRootInv ops (Matrix.of o.Q) V θ)ᵀ
              = (A + jitterOf ltb jit o.T • (1 : Matrix (Fin n) (Fin n) K))⁻¹)) := by
  obtain ⟨o, ho, h1', h3, hT, hd⟩ := lanczos_ok (p := p) hs (selfAdj_amulOf hA) hg maxIter v hv h1
  refine ⟨o, ho, fun hb V θ hE hV hθ => ?_⟩
  obtain ⟨hQ, hP, _, _, _, _⟩ := matrix_identities_of_done hA o h1' hT (hd hb)
  exact ⟨LinOp.C09.lanczos_root_inv ops hs.mul_self (Matrix.of o.Q) V _ θ hθ hV hE,
    fun hn => root_inv_full_of_card ops hs.mul_self (Matrix.of o.Q) A (Matrix.of o.T) V θ (jitterOf ltb jit o.T)
      hn hQ hP hV hE hθ⟩

/-! ### the start vector enters only through `v/‖v‖` (no eps, no clamp): invariance under positive rescaling -/

/-- `lanczos_tridiag(A, init_vecs = c·v) = lanczos_tridiag(A, init_vecs = v)` for every `c > 0`, every size, budget,
closure (no symmetry needed) and start vector (`√(c²x) = c√x` from the lawful square root): the SAME result — count, `Q`,
`T`, extra passes.  True because the code normalises by the plain 2-norm (`generated_start_normalisation`); an eps added to
or a clamp of the norm breaks it for small `‖v‖`. -/
theorem lanczos_start_scale_invariant (hs : SqrtLaw ops) (maxIter : Nat) (v : Vec K n) (c : K) (hc : 0 < c) :
    lanczosTridiag ops p amul maxIter (vscale v c) = lanczosTridiag ops p amul maxIter v :=
  lanczosTridiag_scale hs amul maxIter v hc

/-- The same for a multi-column call, every column with its own factor (one tiny column next to healthy ones): the coupled
run — shared count included — is unchanged, so a tiny start vector cannot end the loop early for the other columns. -/
theorem lanczos_multi_start_scale_invariant {C : Nat} {amuls : Fin C → Vec K n → Vec K n} (hs : SqrtLaw ops)
    (maxIter : Nat) (vs : Vector (Vec K n) C) (cs : Fin C → K) (hc : ∀ c, 0 < cs c) :
    lanczosMulti ops p amuls maxIter (Vector.ofFn fun c => vscale vs[c] (cs c)) = lanczosMulti ops p amuls maxIter vs :=
  lanczosMulti_scale hs amuls maxIter vs cs hc

/-- …and the returned first vector is the unit vector `v/‖v‖` itself. -/
theorem lanczos_first_vector (hs : SqrtLaw ops) (hA : SelfAdj amul) (maxIter : Nat) (v : Vec K n)
    (hv : fn v ⬝ᵥ fn v ≠ 0) (hg : p.guardsSingle = true) (h1 : 1 ≤ min maxIter n) :
    ∃ o, lanczosTridiag ops p amul maxIter v = .ok o ∧ Qf o.st 0 = (ops.sqrt (fn v ⬝ᵥ fn v))⁻¹ • fn v := by
  by_cases hc : (decide (1 < min maxIter n) &&
      ops.gt (ops.abs (init0 ops amul (min maxIter n) v).2.2) p.breakTol) = true
  · refine ⟨{ count := (loop ops p amul (min maxIter n) (min maxIter n - 1) 1 (init ops amul (min maxIter n) v)).1,
              q := (loop ops p amul (min maxIter n) (min maxIter n - 1) 1 (init ops amul (min maxIter n) v)).2.q,
              t := (loop ops p amul (min maxIter n) (min maxIter n - 1) 1 (init ops amul (min maxIter n) v)).2.t,
              passes := (loop ops p amul (min maxIter n) (min maxIter n - 1) 1 (init ops amul (min maxIter n) v)).2.passes },
      ?_, ?_⟩
    · unfold lanczosTridiag
      simp only [show ¬ min maxIter n = 0 by omega, if_false, hg, if_true, hc]
    · show Qf (loop ops p amul (min maxIter n) (min maxIter n - 1) 1 (init ops amul (min maxIter n) v)).2 0 = _
      rw [loop_Q0 amul _ _ 1 _ le_rfl]
      exact init_Q0 ops amul _ v
  · refine ⟨{ count := 1, q := (init0 ops amul (min maxIter n) v).1.q, t := (init0 ops amul (min maxIter n) v).1.t,
              passes := 0 }, ?_, init0_Q0 ops amul _ v⟩
    unfold lanczosTridiag
    simp only [show ¬ min maxIter n = 0 by omega, if_false, hg, if_true, hc]
    rfl

/-- PREVIOUS re-orthogonalisation test (before commit 7af42c2, `torch.sum(inner_products > tol)`, `anyGtSigned`): an inner
product of `−1` against `tol = 1e-5`-like `0` is NOT reported, so no further pass was run and `could_reorthogonalize` was set
although the new vector was far from orthogonal; the magnitude test of the code as it is now (`anyGt`) reports it. -/
theorem signedReorthTest_misses_negative_counterexample :
    ∃ (ops : NumOps Int) (ip : Vector Int 1) (tol : Int),
      anyGtSigned ops ip tol = false ∧ anyGt ops ip tol = true :=
  ⟨{ sqrt := id, gt := fun a b => decide (b < a), abs := fun x => if x < 0 then -x else x }, #v[-1], 0, by decide, by decide⟩

/-- The magnitude test subsumes the signed one wherever `abs` does not decrease a value and `>` is monotone in its first
argument: whatever the previous code sent to another pass, the present code sends too. -/
theorem signedReorthTest_implies_magnitude {m : Nat} (hmono : ∀ x t : K, ops.gt x t = true → ops.gt (ops.abs x) t = true)
    (ip : Vector K m) (tol : K) (h : anyGtSigned ops ip tol = true) : anyGt ops ip tol = true := by
  simp only [anyGtSigned, anyGt, List.any_eq_true] at h ⊢
  obtain ⟨j, hj, hgt⟩ := h
  exact ⟨j, hj, hmono _ _ hgt⟩

/-! ### the coupled multi-column loop (`lanczosMulti`: all columns of one call in ONE loop) -/

/-- LIFT of the single-column theorems through the coupled loop.  `C` columns (batch members × init vectors), each with
its own self-adjoint closure and non-zero start vector, run with ONE iteration counter; extra re-orthogonalisation
passes are run on all columns as soon as ANY column asks, and the loop is left only when ALL columns are at or below
the threshold — so a column can be carried on after its own breakdown.  The call succeeds, returns one
`1 ≤ count ≤ min max_iter n`, every column's `T` is symmetric tridiagonal, and for EVERY column `c` and EVERY prefix
length `m ≤ count` such that the column's own off-diagonal entries `T_c[j, j+1]`, `j < m − 1`, are non-zero (the prefix
before that column's own breakdown): `q_0 … q_{m−1}` are orthonormal, satisfy the three-term recurrence, and
`q_i · A_c q_j = T_c[i, j]` on the prefix — whatever the other columns did. -/
theorem lanczos_multi_column_prefix {C : Nat} {amuls : Fin C → Vec K n → Vec K n} (hs : SqrtLaw ops)
    (hA : ∀ c, SelfAdj (amuls c)) (maxIter : Nat) (vs : Vector (Vec K n) C)
    (hv : ∀ c : Fin C, fn vs[c] ⬝ᵥ fn vs[c] ≠ 0) (h1 : 1 ≤ min maxIter n) :
    ∃ o, lanczosMulti ops p amuls maxIter vs = .ok o ∧ 1 ≤ o.count ∧ o.count ≤ min maxIter n ∧
      ∀ c : Fin C, TStruct o.cols[c] ∧
        ∀ m, 1 ≤ m → m ≤ o.count → BetaOK (m - 1) o.cols[c] →
          (∀ i j, i < m → j < m → Qf o.cols[c] i ⬝ᵥ Qf o.cols[c] j = if i = j then 1 else 0) ∧
          (∀ j, j + 1 < m → AQf (amuls c) o.cols[c] j =
            (if j = 0 then 0 else Tf o.cols[c] j (j - 1) • Qf o.cols[c] (j - 1)) + Tf o.cols[c] j j • Qf o.cols[c] j
              + Tf o.cols[c] j (j + 1) • Qf o.cols[c] (j + 1)) ∧
          (∀ i j, i < m → j < m → Qf o.cols[c] i ⬝ᵥ AQf (amuls c) o.cols[c] j = Tf o.cols[c] i j) := by
  obtain ⟨o, ho, h1', h3, hcols⟩ := lanczosMulti_ok (p := p) hs hA maxIter vs hv h1
  refine ⟨o, ho, h1', h3, fun c => ⟨(hcols c).tstruct, fun m hm1 hm2 hb => ?_⟩⟩
  have hd := (hcols c).prefix_done m hm1 hm2 hb
  exact ⟨fun i j hi hj => hd.orth i j (by omega) (by omega), fun j hj => hd.recur j (by omega),
    fun i j hi hj => done_projection (hA c) (hcols c).tstruct hd i j (by omega) (by omega)⟩

/-- Coupled run on matrices: column `c` runs on the symmetric matrix `A c` (its batch member).  Every column that has
not broken down before the shared `count` satisfies the matrix identities of the property; in particular a column that
reaches `count = n` reconstructs its matrix, `Q_c T_c Q_cᵀ = A_c`. -/
theorem lanczos_multi_matrix_identities {C : Nat} (A : Fin C → Matrix (Fin n) (Fin n) K) (hs : SqrtLaw ops)
    (hA : ∀ c, (A c)ᵀ = A c) (maxIter : Nat) (vs : Vector (Vec K n) C)
    (hv : ∀ c : Fin C, fn vs[c] ⬝ᵥ fn vs[c] ≠ 0) (h1 : 1 ≤ min maxIter n) :
    ∃ o, lanczosMulti ops p (fun c => amulOf (A c)) maxIter vs = .ok o ∧
      ∀ c : Fin C, BetaOK (o.count - 1) o.cols[c] →
        (Matrix.of (o.col c).Q)ᵀ * Matrix.of (o.col c).Q = 1 ∧
        (Matrix.of (o.col c).Q)ᵀ * A c * Matrix.of (o.col c).Q = Matrix.of (o.col c).T ∧
        A c * Matrix.of (o.col c).Q - Matrix.of (o.col c).Q * Matrix.of (o.col c).T = residualMat (A c) (o.col c) ∧
        (o.count = n → Matrix.of (o.col c).Q * Matrix.of (o.col c).T * (Matrix.of (o.col c).Q)ᵀ = A c) := by
  obtain ⟨o, ho, h1', h3, hcols⟩ :=
    lanczosMulti_ok (p := p) (amuls := fun c => amulOf (A c)) hs (fun c => selfAdj_amulOf (hA c)) maxIter vs hv h1
  refine ⟨o, ho, fun c hb => ?_⟩
  have hd := (hcols c).prefix_done o.count h1' le_rfl hb
  obtain ⟨e1, e2, e3, _, _, e6⟩ :=
    matrix_identities_of_done (hA c) (o.col c) h1' (hcols c).tstruct hd
  exact ⟨e1, e2, e3, e6⟩

/-- What the code does with a column that BREAKS DOWN in iteration `k` (`β_k = 0` exactly) while the run goes on
(`k + 1 < num_iter`): its residual is the zero vector, the vector handed to the extra passes is `r / 0` — entry by entry
the quotient `0 / 0` (NaN in IEEE arithmetic, which the `Float` run of this model and the implementation both produce; `0` in a
field) — and the two off-diagonal entries written are `0`; its first `k + 1` vectors stay as they are (`lanczos_multi_column_prefix`). -/
theorem multi_column_breakdown {C : Nat} {amuls : Fin C → Vec K n → Vec K n} (hs : SqrtLaw ops)
    (numIter k : Nat) (ss : Vector (St K n) C) (c : Fin C) (h : k + 1 < numIter)
    (hb : bodyN ops (amuls c) k ss[c] = 0) :
    fn (bodyR2 (amuls c) k ss[c]) = 0 ∧
    (colPre ops (amuls c) k ss[c]).2.2 = vdiv (bodyR2 (amuls c) k ss[c]) 0 ∧
    Tf (bodyM ops p amuls numIter k ss).1[c] k (k + 1) = 0 ∧ Tf (bodyM ops p amuls numIter k ss).1[c] (k + 1) k = 0 :=
  (bodyM_step (p := p) (amuls := amuls) (numIter := numIter) (k := k) (ss := ss) hs c).breakdown hs h hb

/-- The coupled break test: after iteration `k` the loop goes on iff SOME column has `|β_k| > 1e-6` and the shared
extra-pass loop ended with `could_reorthogonalize = True`; a column at or below the threshold does not stop the others.
Without a re-orthogonalisation block (`k + 1 = num_iter`) there is no break. -/
theorem multi_break_iff {C : Nat} {amuls : Fin C → Vec K n → Vec K n} (numIter k : Nat) (ss : Vector (St K n) C) :
    (k + 1 < numIter →
      ((bodyM ops p amuls numIter k ss).2 = false ↔
        (∃ c : Fin C, ops.gt (ops.abs (bodyN ops (amuls c) k ss[c])) p.breakTol = true) ∧
        (extraPassesM ops p.tol (k + 1) (Vector.ofFn fun c => ss[c].q) p.extra
          (Vector.ofFn fun c => bodyW ops (amuls c) k ss[c])).2.1 = true)) ∧
    (¬ k + 1 < numIter → (bodyM ops p amuls numIter k ss).2 = false) :=
  ⟨fun h => bodyM_break h, fun h => bodyM_nobreak h⟩

/-- Extra passes triggered by ANOTHER column are harmless: whatever number of passes the shared test decides, a
column whose vector is already a unit vector orthogonal to its `q_0 … q_k` gets it back unchanged. -/
theorem multi_extra_passes_fixed {C : Nat} (hs : SqrtLaw ops) (tol : K) (k : Nat) (qs : Vector (Fam (Vec K n)) C)
    (c : Fin C) (fuel : Nat) (rs : Vector (Vec K n) C)
    (h0 : ∀ j, j ≤ k → fn (qs[c].get j) ⬝ᵥ fn rs[c] = 0) (h1 : fn rs[c] ⬝ᵥ fn rs[c] = 1) :
    (extraPassesM ops tol (k + 1) qs fuel rs).1[c] = rs[c] :=
  extraPassesM_fixed hs tol k qs c fuel rs h0 h1

/-- The coupled model restricted to ONE column is the single-column model: same `count`, same buffers, same number of
extra passes (a program equivalence, for every scalar type — also the `Float` of the driver); so the single-column
theorems above are the `C = 1` case of the coupled ones and both correspondences tie the same definitions. -/
theorem lanczos_multi_one_column (hg : p.guardsSingle = true) (maxIter : Nat) (v : Vec K n) :
    (lanczosMulti ops p (fun _ : Fin 1 => amul) maxIter #v[v]).map (fun o => o.col 0)
      = lanczosTridiag ops p amul maxIter v :=
  lanczosMulti_one ops p hg amul maxIter v

/-- `mins = min(diag t_mat)` of the jitter statements (`minDiag`): a lower bound of the diagonal, attained on it
(so the jitter is `tridiagonal_jitter ×` an actual diagonal entry, the smallest one); the default only for `0 × 0`. -/
theorem min_diag_spec {m : Nat} (T : Mat K m m) (d : K) :
    (∀ i : Fin m, minDiag ltb T d ≤ T i i) ∧ (0 < m → ∃ i : Fin m, minDiag ltb T d = T i i) ∧
      (m = 0 → minDiag ltb T d = d) :=
  minDiag_spec T d

/-! ### constants and tests of the source, regenerated on every run -/

/-- The jitter statements of `RootDecomposition.forward` and `Diagonalization.forward` are the documented relative
jitter `tridiagonal_jitter · min(diag t_mat)` — no clamp, no floor, no absolute term — added before
`lanczos_tridiag_to_diag`.  (The `Diagonalization` statement `torch.diag_embed(jitter_val * mins).expand_as(t_mat)` is the
code as it is: `addJitterAll`, open finding; the second alternative is the statement of notes/C09_fix_2.diff, `addJitter`.) -/
theorem generated_jitter :
    Generated.C09.rootJitter =
      ["mins = to_linear_operator(t_mat)._diagonal().min(dim=-1, keepdim=True)[0].unsqueeze(-1)",
       "jitter_mat = settings.tridiagonal_jitter.value() * mins * torch.eye(t_mat.size(-1), device=t_mat.device, dtype=t_mat.dtype).expand_as(t_mat)",
       "eigenvalues, eigenvectors = lanczos.lanczos_tridiag_to_diag(t_mat + jitter_mat)"] ∧
    (Generated.C09.diagJitter =
      ["mins = torch.diagonal(t_mat, dim1=-1, dim2=-2).min(dim=-1, keepdim=True)[0]",
       "jitter_val = settings.tridiagonal_jitter.value()",
       "jitter_mat = torch.diag_embed(jitter_val * mins).expand_as(t_mat)",
       "eigenvalues, eigenvectors = lanczos.lanczos_tridiag_to_diag(t_mat + jitter_mat)"] ∨
     Generated.C09.diagJitter =
      ["mins = torch.diagonal(t_mat, dim1=-1, dim2=-2).min(dim=-1, keepdim=True)[0]",
       "jitter_val = settings.tridiagonal_jitter.value()",
       "jitter_mat = torch.diag_embed((jitter_val * mins).expand(*mins.shape[:-1], t_mat.size(-1)))",
       "eigenvalues, eigenvectors = lanczos.lanczos_tridiag_to_diag(t_mat + jitter_mat)"]) := by
  decide +kernel


/-- The literals and comparison shapes the model hard-wires are the ones in the working tree:
`tol = 1e-5`, `range(10)`, `beta_curr.abs() > 1e-6`, `inner_products.abs() > tol` (magnitude test, since 7af42c2), the
`k + 1 < num_iter` guard, `num_iter = min(max_iter, n)`, `range(1, num_iter)`, trimming to `k + 1`,
`evals.ge(0)` / fill value 1, tridiagonal jitter `1e-6`, and the guard of the first step
(`num_iter > 1 and torch.sum(beta_0.abs() > 1e-6) > 0`, same literal as the break test). -/
theorem generated_constants :
    Generated.C09.tol = 1 / 100000 ∧ Generated.C09.extra = 10 ∧ Generated.C09.extraFound = true ∧
    Generated.C09.breakTol = 1 / 1000000 ∧ Generated.C09.breakLhs = "beta_curr.abs()" ∧
    Generated.C09.breakOp = "Gt" ∧
    Generated.C09.breakTest = "torch.sum(beta_curr.abs() > 1e-06) == 0 or not could_reorthogonalize" ∧
    Generated.C09.innerTest = "not torch.sum(inner_products.abs() > tol)" ∧
    Generated.C09.innerLhs = "inner_products.abs()" ∧ Generated.C09.innerOp = "Gt" ∧
    Generated.C09.numIter = "min(max_iter, matrix_shape[-1])" ∧ Generated.C09.loopIter = "range(1, num_iter)" ∧
    Generated.C09.reorthGuard = "k + 1 < num_iter" ∧ Generated.C09.trim = "num_iter = k + 1" ∧
    Generated.C09.mask = "evals.ge(0)" ∧ Generated.C09.maskFill = 1 ∧
    Generated.C09.tridiagonalJitter = 1 / 1000000 ∧ Generated.C09.guardsSingle = true ∧
    Generated.C09.firstGuard = "num_iter > 1 and torch.sum(beta_0.abs() > 1e-06) > 0" := by
  decide +kernel

/-- The statements before the loop are the ones the model mirrors; in particular the start vector is normalised by its
plain 2-norm — `init_vecs / torch.norm(init_vecs, 2, dim=-2)`, no eps, no clamp, no rescaling — which is what
`lanczos_start_scale_invariant` rests on; and nothing between `if init_vecs is None:` and that statement touches supplied
start vectors (`setup`).  (Second alternative = the code as it is since commit 894ea76 = notes/C09_fix_3.diff: two-step normalisation, first by
the largest entry — a positive factor — then by the 2-norm; the same `v/‖v‖` by `lanczos_start_scale_invariant`, without the
under/overflow of `‖v‖²`.  The first alternative is the previous single statement.) -/
theorem generated_start_normalisation :
    Generated.C09.setup =
      ["if init_vecs is None: init_vecs = torch.randn(matrix_shape[-1], num_init_vecs, dtype=dtype, device=device) init_vecs = init_vecs.expand(*batch_shape, matrix_shape[-1], num_init_vecs) else: if settings.debug.on(): if dtype != init_vecs.dtype: raise RuntimeError('Supplied dtype {} and init_vecs.dtype {} do not agree!'.format(dtype, init_vecs.dtype)) if device != init_vecs.device: raise RuntimeError('Supplied device {} and init_vecs.device {} do not agree!'.format(device, init_vecs.device)) if batch_shape != init_vecs.shape[:-2]: raise RuntimeError('batch_shape {} and init_vecs.shape {} do not agree!'.format(batch_shape, init_vecs.shape)) if matrix_shape[-1] != init_vecs.size(-2): raise RuntimeError('matrix_shape {} and init_vecs.shape {} do not agree!'.format(matrix_shape, init_vecs.shape)) num_init_vecs = init_vecs.size(-1)", "num_iter = min(max_iter, matrix_shape[-1])", "dim_dimension = -2", "if settings.verbose_linalg.on(): settings.verbose_linalg.logger.debug(f'Running Lanczos on a {matrix_shape} matrix with a {init_vecs.shape} RHS for {num_iter} iterations.')", "q_mat = torch.zeros(num_iter, *batch_shape, matrix_shape[-1], num_init_vecs, dtype=dtype, device=device)", "t_mat = torch.zeros(num_iter, num_iter, *batch_shape, num_init_vecs, dtype=dtype, device=device)"] ∧
    (Generated.C09.preLoop =
      ["q_0_vec = init_vecs / torch.norm(init_vecs, 2, dim=dim_dimension).unsqueeze(dim_dimension)",
       "q_mat[0].copy_(q_0_vec)", "r_vec = matmul_closure(q_0_vec)", "alpha_0 = q_0_vec.mul(r_vec).sum(dim_dimension)",
       "r_vec.sub_(alpha_0.unsqueeze(dim_dimension).mul(q_0_vec))", "beta_0 = torch.norm(r_vec, 2, dim=dim_dimension)",
       "t_mat[0, 0].copy_(alpha_0)",
       "if num_iter > 1 and torch.sum(beta_0.abs() > 1e-06) > 0: t_mat[0, 1].copy_(beta_0) t_mat[1, 0].copy_(beta_0) q_mat[1].copy_(r_vec.div_(beta_0.unsqueeze(dim_dimension))) else: num_iter = 1",
       "k = 0"] ∨
     Generated.C09.preLoop =
      ["q_0_vec = init_vecs / init_vecs.abs().amax(dim=dim_dimension, keepdim=True)",
       "q_0_vec = q_0_vec / torch.norm(q_0_vec, 2, dim=dim_dimension).unsqueeze(dim_dimension)",
       "q_mat[0].copy_(q_0_vec)", "r_vec = matmul_closure(q_0_vec)", "alpha_0 = q_0_vec.mul(r_vec).sum(dim_dimension)",
       "r_vec.sub_(alpha_0.unsqueeze(dim_dimension).mul(q_0_vec))", "beta_0 = torch.norm(r_vec, 2, dim=dim_dimension)",
       "t_mat[0, 0].copy_(alpha_0)",
       "if num_iter > 1 and torch.sum(beta_0.abs() > 1e-06) > 0: t_mat[0, 1].copy_(beta_0) t_mat[1, 0].copy_(beta_0) q_mat[1].copy_(r_vec.div_(beta_0.unsqueeze(dim_dimension))) else: num_iter = 1",
       "k = 0"]) := by
  decide +kernel

/-- The statements of the loop body, of the re-orthogonalisation block and of the extra-pass loop are the ones
the model mirrors (any edit of these statements must be re-modelled). -/
theorem generated_loop_skeleton :
    Generated.C09.loopBody =
      ["q_prev_vec = q_mat[k - 1]", "q_curr_vec = q_mat[k]", "beta_prev = t_mat[k, k - 1].unsqueeze(dim_dimension)",
       "r_vec = matmul_closure(q_curr_vec) - q_prev_vec.mul(beta_prev)",
       "alpha_curr = q_curr_vec.mul(r_vec).sum(dim_dimension, keepdim=True)",
       "t_mat[k, k].copy_(alpha_curr.squeeze(dim_dimension))"] ∧
    Generated.C09.reorthBody =
      ["r_vec.sub_(alpha_curr.mul(q_curr_vec))",
       "correction = r_vec.unsqueeze(0).mul(q_mat[:k + 1]).sum(dim_dimension, keepdim=True)",
       "correction = q_mat[:k + 1].mul(correction).sum(0)", "r_vec.sub_(correction)",
       "r_vec_norm = torch.norm(r_vec, 2, dim=dim_dimension, keepdim=True)", "r_vec.div_(r_vec_norm)",
       "beta_curr = r_vec_norm.squeeze_(dim_dimension)", "t_mat[k, k + 1].copy_(beta_curr)",
       "t_mat[k + 1, k].copy_(beta_curr)",
       "inner_products = q_mat[:k + 1].mul(r_vec.unsqueeze(0)).sum(dim_dimension)",
       "could_reorthogonalize = False", "q_mat[k + 1].copy_(r_vec)"] ∧
    Generated.C09.extraBody =
      ["if not torch.sum(inner_products.abs() > tol): could_reorthogonalize = True break",
       "correction = r_vec.unsqueeze(0).mul(q_mat[:k + 1]).sum(dim_dimension, keepdim=True)",
       "correction = q_mat[:k + 1].mul(correction).sum(0)", "r_vec.sub_(correction)",
       "r_vec_norm = torch.norm(r_vec, 2, dim=dim_dimension, keepdim=True)", "r_vec.div_(r_vec_norm)",
       "inner_products = q_mat[:k + 1].mul(r_vec.unsqueeze(0)).sum(dim_dimension)"] := by
  decide +kernel

/-! ### the hypotheses are satisfiable -/

/-- A real instance: over `ℝ` with `Real.sqrt`, `A = [[2,1],[1,3]]` (symmetric), start vector `e_0`, budget 2.  All
hypotheses of the theorems above hold together — lawful square root, self-adjoint closure, non-zero start vector, guarded
first step, budget — and the run of the model returns `count = 2` with `BetaOK` (no breakdown: `β_0 = 1`). -/
theorem hypotheses_satisfiable_real :
    SqrtLaw realOps ∧ SelfAdj (amulOf exA) ∧ fn exV ⬝ᵥ fn exV ≠ 0 ∧ exP.guardsSingle = true ∧ 1 ≤ min 2 2 ∧
    ∃ o, lanczosTridiag realOps exP (amulOf exA) 2 exV = .ok o ∧ o.count = 2 ∧ BetaOK (o.count - 1) o.st :=
  real_instance

/-- …hence the conclusion of the end-to-end theorem is not vacuous: on that instance `Q T Qᵀ = A`. -/
example : ∃ o, lanczosTridiag realOps exP (amulOf exA) 2 exV = .ok o ∧
    Matrix.of o.Q * Matrix.of o.T * (Matrix.of o.Q)ᵀ = exA := by
  obtain ⟨hs, _, hv, hg, h1, o, ho, hc, hb⟩ := real_instance
  obtain ⟨o', ho', _, _, hid⟩ := lanczos_tridiag_matrix_identities (p := exP) hs exA_symm 2 exV hv hg h1
  have : o' = o := by
    rw [ho] at ho'
    exact (Except.ok.inj ho').symm
  subst this
  exact ⟨o', ho, (hid hb).2.2.2.2.2 hc⟩

/-- the multi-column hypotheses are satisfiable as well (two columns on that matrix, over `ℝ`) -/
example : ∃ (vs : Vector (Vec ℝ 2) 2), (∀ c : Fin 2, SelfAdj ((fun _ : Fin 2 => amulOf exA) c)) ∧
    (∀ c : Fin 2, fn vs[c] ⬝ᵥ fn vs[c] ≠ 0) :=
  ⟨#v[exV, exV], fun _ => selfAdj_amulOf exA_symm, fun c => by
    fin_cases c <;> exact exV_ne⟩

end LinOp.C09.Props
