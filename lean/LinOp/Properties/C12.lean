import LinOp.C12.Model
namespace LinOp.C12
theorem stub : True := trivial
end LinOp.C12
