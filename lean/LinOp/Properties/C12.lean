import LinOp.C12.Proofs
import LinOp.C12.ProofsWrap
import LinOp.C12.Algebra
import LinOp.C12.AlgebraDerive
import LinOp.Generated.C12Table
import LinOp.Generated.C12Settings
/-!
C12 — cached results are transparent: answers do not depend on query history.  Property theorems only.

`P : Profile`, `σ : Settings`, the size `n` and the matrix id `m` are arbitrary everywhere; histories are
arbitrary finite lists of (settings, query) pairs, so settings may change between any two queries.
-/
namespace LinOp.C12

/-! ### the memoize layer -/

/-- **Keys are injective in what they memoise.**  A non-`ignore_args` key determines name, positional and
keyword arguments (so `root_decomposition(method=…)` variants, positional vs keyword calls, and different
cache names never share an entry); a lower and an upper `_cholesky` call share a key only for classes whose
`_cholesky` ignores its arguments. -/
theorem key_injective (P : Profile) :
    (∀ c₁ c₂, rootKey c₁ = rootKey c₂ → c₁ = c₂) ∧
    (∀ c₁ c₂, rootInvKey c₁ = rootInvKey c₂ → c₁ = c₂) ∧
    (∀ c₁ c₂, diagzKey c₁ = diagzKey c₂ → c₁ = c₂) ∧
    (∀ c₁ c₂, rootKey c₁ ≠ rootInvKey c₂ ∧ rootKey c₁ ≠ diagzKey c₂ ∧ rootInvKey c₁ ≠ diagzKey c₂) ∧
    (∀ c u, cholKey P u ≠ rootKey c ∧ cholKey P u ≠ rootInvKey c ∧ cholKey P u ≠ diagzKey c ∧ cholKey P u ≠ svdKey
        ∧ cholKey P u ≠ denseKey) ∧
    (P.cholBare = false → ∀ u₁ u₂, cholKey P u₁ = cholKey P u₂ → u₁ = u₂) := by
  refine ⟨?_, ?_, ?_, ?_, ?_, ?_⟩
  · intro c₁ c₂ h; cases c₁; cases c₂; simp [rootKey] at h; simp [h]
  · intro c₁ c₂ h; cases c₁; cases c₂; simp [rootInvKey] at h; simp [h]
  · intro c₁ c₂ h; cases c₁; cases c₂; simp [diagzKey] at h; simp [h]
  · intro c₁ c₂; simp [rootKey, rootInvKey, diagzKey]
  · intro c u; unfold cholKey; split <;> simp [rootKey, rootInvKey, diagzKey, svdKey, denseKey]
  · intro hb u₁ u₂ h; simpa [cholKey, hb] using h

/-- The finite-map laws the cache obeys (lookup after insert / pop). -/
theorem cache_map_laws (c : Cache) (k k' : Key) (v : Val) :
    (c.put k v).get k = some v ∧ (k' ≠ k → (c.put k v).get k' = c.get k') ∧
    (c.pop k).get k = none ∧ (k' ≠ k → (c.pop k).get k' = c.get k') :=
  ⟨Cache.get_put_same c k v, Cache.get_put_other c k k' v, Cache.get_pop_same c k, Cache.get_pop_other c k k'⟩

/-! ### cache invariant and transparency -/

/-- **cache_inv + answer validity, one step**: from any state whose cache satisfies the invariant, under any
settings and for any query, the invariant holds afterwards and the answer is an acceptable answer to the query
(right kind, right orientation, a factorization of THIS object's matrix, numbers computed from correct factors,
`eigh` in its full form). -/
theorem cache_inv (P : Profile) (σ : Settings) (n m : Nat) (q : Query) (s : St) (hs : Inv m s.cache) :
    Inv m (runQuery P σ n m q s).1.cache ∧ answerOk m q (runQuery P σ n m q s).2 := by
  cases q with
  | toDense =>
    have h := toDense_ok P m s hs
    refine ⟨h.1, ?_⟩
    show answerOk m .toDense (toDense P m s).2
    rw [valid_denseKey m h.2]; simp [answerOk]
  | cholesky u =>
    have h := cholesky_ok P m u s hs
    refine ⟨h.1, ?_⟩
    show answerOk m (.cholesky u) (cholesky P m u s).2
    rw [h.2]; simp [answerOk]
  | cholHook u =>
    have h := cholHook_ok P m u s hs
    refine ⟨h.1, ?_⟩
    show answerOk m (.cholHook u) (cholHook P m u s).2
    rw [h.2]; simp [answerOk]
  | root c =>
    have h := good_root P σ n m c s hs
    refine ⟨h.1, ?_⟩
    obtain ⟨p, tri, triOk, hv, ht⟩ := valid_rootKey m h.2
    show answerOk m (.root c) (rootDecomp P σ n m c s).2
    rw [hv]; exact ⟨rfl, ht⟩
  | rootInv c =>
    have h := good_rootInv P σ n m c s hs
    refine ⟨h.1, ?_⟩
    show answerOk m (.rootInv c) (rootInvDecomp P σ n m c s).2
    generalize (rootInvDecomp P σ n m c s).2 = v at h
    cases v <;> simp [validFor, rootInvKey, Key.name] at h
    simp [answerOk, h.2]
  | diagz c =>
    have h := good_diagz P σ n m c s hs
    refine ⟨h.1, ?_⟩
    show answerOk m (.diagz c) (diagonalization P σ n m c s).2
    generalize (diagonalization P σ n m c s).2 = v at h
    cases v <;> simp [validFor, diagzKey, Key.name] at h
    simp [answerOk, h.2]
  | svd =>
    have h := good_svd P m s hs
    refine ⟨h.1, ?_⟩
    show answerOk m .svd (svd P m s).2
    generalize (svd P m s).2 = v at h
    cases v <;> simp [validFor, svdKey, Key.name] at h
    simp [answerOk, h.2]
  | eigh =>
    show Inv m (eigh P m s).1.cache ∧ answerOk m .eigh (eigh P m s).2
    unfold eigh
    rw [symeig_absent m s.cache hs]
    exact ⟨symeigRun_ok P m s hs, by simp [answerOk]⟩
  | iql =>
    show Inv m (invQuadLogdet P σ n m s).1.cache ∧ answerOk m .iql (invQuadLogdet P σ n m s).2
    unfold invQuadLogdet
    split
    · exact ⟨hs, by simp [answerOk]⟩
    · split
      · split
        · have h := good_root P σ n m .noargs s hs
          obtain ⟨p, tri, triOk, hv, ht⟩ := valid_rootKey m h.2
          simp only [hv]
          cases tri with
          | true => simp [answerOk, ht rfl]; exact h.1
          | false => exact ⟨(cholesky_ok P m false _ h.1).1, by simp [answerOk]⟩
        · exact ⟨(cholesky_ok P m false s hs).1, by simp [answerOk]⟩
      · exact ⟨hs, by simp [answerOk]⟩
  | sample =>
    show Inv m (sample P σ n m s).1.cache ∧ answerOk m .sample (sample P σ n m s).2
    unfold sample
    split
    · have h := good_root P σ n m .noargs s hs
      obtain ⟨p, tri, triOk, hv, ht⟩ := valid_rootKey m h.2
      simp only [hv]
      exact ⟨h.1, by simp [answerOk]⟩
    · exact ⟨hs, by simp [answerOk]⟩
  | pure => exact ⟨hs, by simp [runQuery, answerOk]⟩

/-- State after a history of (settings, query) pairs on one object. -/
def runHist (P : Profile) (n m : Nat) (h : List (Settings × Query)) (s : St) : St :=
  h.foldl (fun s e => (runQuery P e.1 n m e.2 s).1) s

theorem runHist_inv (P : Profile) (n m : Nat) (h : List (Settings × Query)) (s : St) (hs : Inv m s.cache) :
    Inv m (runHist P n m h s).cache := by
  induction h generalizing s with
  | nil => exact hs
  | cons e t ih => exact ih _ (cache_inv P e.1 n m e.2 s hs).1

/-- **history_transparent** (refinement to the cache-free specification): after ANY finite history on a
freshly constructed object — any queries, any calling conventions, settings changing arbitrarily between
them — the answer to any query satisfies the same specification `answerOk` as the answer a fresh object gives. -/
theorem history_transparent (P : Profile) (n m : Nat) (h : List (Settings × Query)) (σ : Settings) (q : Query) :
    answerOk m q (runQuery P σ n m q (runHist P n m h ⟨[], 0, []⟩)).2 ∧
    answerOk m q (runQuery P σ n m q ⟨[], 0, []⟩).2 :=
  ⟨(cache_inv P σ n m q _ (runHist_inv P n m h _ (Inv.nil m))).2, (cache_inv P σ n m q _ (Inv.nil m)).2⟩

/-- Queries whose specification pins the answer uniquely. -/
def Query.unique : Query → Bool
  | .toDense | .cholesky _ | .cholHook _ | .svd | .eigh | .iql | .sample | .pure => true
  | _ => false

/-- **history_transparent, exact form**: for uniquely determined answers (dense matrix, Cholesky factor of the
requested orientation, svd, eigh, numbers) the answer after any history EQUALS the fresh object's answer — in
particular an upper factor is never returned for a lower request, and `eigh` never degrades to `(evals, None)`. -/
theorem history_transparent_exact (P : Profile) (n m : Nat) (h : List (Settings × Query)) (σ : Settings) (q : Query)
    (hq : q.unique = true) :
    (runQuery P σ n m q (runHist P n m h ⟨[], 0, []⟩)).2 = (runQuery P σ n m q ⟨[], 0, []⟩).2 := by
  have := history_transparent P n m h σ q
  revert this
  generalize (runQuery P σ n m q (runHist P n m h ⟨[], 0, []⟩)).2 = a
  generalize (runQuery P σ n m q ⟨[], 0, []⟩).2 = b
  intro ⟨ha, hb⟩
  cases q <;> simp [Query.unique] at hq <;> cases a <;> simp [answerOk] at ha <;> cases b <;> simp [answerOk] at hb <;>
    simp_all

/-- **pop_then_recompute**: removing an entry and asking again recomputes a valid answer and re-inserts it. -/
theorem pop_then_recompute (m : Nat) (k : Key) (f : St → St × Val) (hf : Good m k f) (s : St) (hs : Inv m s.cache) :
    let s' : St := { s with cache := s.cache.pop k }
    Inv m (cachedCall k f s').1.cache ∧ validFor m k (cachedCall k f s').2 ∧
      (cachedCall k f s').2 = (f s').2 ∧ (cachedCall k f s').1.cache.get k = some (f s').2 := by
  intro s'
  have hs' : Inv m s'.cache := Inv.pop hs k
  have h := good_cached hf s' hs'
  have hmiss : s'.cache.get k = none := Cache.get_pop_same s.cache k
  have e : (cachedCall k f s').2 = (f s').2 := by simp [cachedCall, hmiss]
  refine ⟨h.1, h.2, e, ?_⟩
  rw [← e]; exact cached_get s'

/-! ### per-class cache overrides: a wrapper object and the caches of the sub-operators it holds

`WKind.batchRepeat` (BatchRepeatLinearOperator), `WKind.block` (BlockDiag / BlockInterleaved), `WKind.constMul`
(ConstantMulLinearOperator, constant ≥ 0) over ANY number of sub-operators of ANY modelled single-object class
(`SubObj.P`).  Histories interleave queries on the wrapper with queries on the held sub-operators (`WQuery.sub`), under
settings that change arbitrarily. -/

/-- **cache_inv for the wrapper classes, one step**: every entry of the wrapper's cache AND of every sub-operator's cache stays
a valid answer for its key and object, and the answer is acceptable — for a wrapper query by the wrapper's cache-free
specification (the wrapper value is tagged valid only if every sub-answer it was assembled from was acceptable for the
sub-operator, with the orientation / method the hook asked for), for a query on a held sub-operator by that operator's. -/
theorem wrap_cache_inv (k : WKind) (σ : Settings) (n m : Nat) (q : WQuery) (w : WSt) (hw : WInv m w) :
    WInv m (wStep k σ n m q w).1 ∧ wAnswerOk m w q (wStep k σ n m q w).2 :=
  wRun_ok (hooksOk_kind k σ n m) σ n q w hw

/-- The same for ANY class whose hooks meet the `HooksOk` contract (each hook keeps all caches valid and returns a valid
factor of the wrapper's matrix): the base-class cache discipline is transparent over every such override set. -/
theorem wrap_cache_inv_generic (H : Hooks) (m : Nat) (hH : HooksOk H m) (σ : Settings) (n : Nat) (q : WQuery) (w : WSt)
    (hw : WInv m w) : WInv m (wRun H σ n m q w).1 ∧ wAnswerOk m w q (wRun H σ n m q w).2 :=
  wRun_ok hH σ n q w hw

/-- State after a history of (settings, wrapper-or-sub query) pairs. -/
def wRunHist (k : WKind) (n m : Nat) (h : List (Settings × WQuery)) (w : WSt) : WSt :=
  h.foldl (fun w e => (wStep k e.1 n m e.2 w).1) w

theorem wrap_runHist_inv (k : WKind) (n m : Nat) (h : List (Settings × WQuery)) (w : WSt) (hw : WInv m w) :
    WInv m (wRunHist k n m h w) := by
  induction h generalizing w with
  | nil => exact hw
  | cons e t ih => exact ih _ (wrap_cache_inv k e.1 n m e.2 w hw).1

/-- A freshly constructed wrapper over freshly constructed sub-operators. -/
def wFresh (subs : List SubObj) : WSt := ⟨⟨[], 0, []⟩, subs.map fun o => { o with st := ⟨[], 0, []⟩ }⟩

theorem wFresh_inv (m : Nat) (subs : List SubObj) : WInv m (wFresh subs) := by
  refine ⟨Inv.nil m, ?_⟩
  intro o ho
  simp only [wFresh, List.mem_map] at ho
  obtain ⟨o', _, rfl⟩ := ho
  exact Inv.nil _

/-- **history_transparent for the wrapper classes**: after ANY finite history of queries on the wrapper and on its
sub-operators (which share cache entries with it), the answer to any further query satisfies the same specification as on a
fresh wrapper over fresh sub-operators. -/
theorem wrap_history_transparent (k : WKind) (n m : Nat) (subs : List SubObj) (h : List (Settings × WQuery)) (σ : Settings)
    (q : WQuery) :
    wAnswerOk m (wRunHist k n m h (wFresh subs)) q (wStep k σ n m q (wRunHist k n m h (wFresh subs))).2 ∧
    wAnswerOk m (wFresh subs) q (wStep k σ n m q (wFresh subs)).2 :=
  ⟨(wrap_cache_inv k σ n m q _ (wrap_runHist_inv k n m h _ (wFresh_inv m subs))).2,
   (wrap_cache_inv k σ n m q _ (wFresh_inv m subs)).2⟩

/-- **exact form**: uniquely determined wrapper answers (dense matrix, Cholesky factor of the requested orientation — also
through the `_cholesky(upper)` hook —, svd, eigh, numbers) after any history EQUAL the fresh wrapper's. -/
theorem wrap_history_transparent_exact (k : WKind) (n m : Nat) (subs : List SubObj) (h : List (Settings × WQuery))
    (σ : Settings) (q : Query) (hq : q.unique = true) :
    (wStep k σ n m (.self q) (wRunHist k n m h (wFresh subs))).2 = (wStep k σ n m (.self q) (wFresh subs)).2 := by
  have := wrap_history_transparent k n m subs h σ (.self q)
  revert this
  generalize (wStep k σ n m (.self q) (wRunHist k n m h (wFresh subs))).2 = a
  generalize (wStep k σ n m (.self q) (wFresh subs)).2 = b
  intro ⟨ha, hb⟩
  simp only [wAnswerOk] at ha hb
  cases q <;> simp [Query.unique] at hq <;> cases a <;> simp [answerOk] at ha <;> cases b <;> simp [answerOk] at hb <;>
    simp_all

/-- Where the Lanczos side write lands (code as it is, /repo 055dd58): `BatchRepeat(Dense).root_inv_decomposition()` in the Lanczos regime
writes `root_decomposition||` into the BASE operator's cache, not into the wrapper's; since c4c33aa the same holds for ConstantMul (constant > 0):
its memoised override asks the base operator for `root_inv_decomposition(initial_vectors=None, test_vectors=None, method=None)` by keyword,
so the wrapper holds only its own `root_inv_decomposition||` entry and the base holds the side-written root and the keyword-keyed inverse root. -/
theorem wrap_side_write_location :
    let sub : SubObj := ⟨Profile.base, 4, 2, ⟨[], 0, []⟩⟩
    let σ : Settings := ⟨1, true, true, true⟩
    let r := (wStep .batchRepeat σ 4 1 (.self (.rootInv .noargs)) (wFresh [sub])).1
    let c := (wStep .constMul σ 4 1 (.self (.rootInv .noargs)) (wFresh [sub])).1
    r.self.cache.map (·.1) = [rootInvKey .noargs] ∧ r.subs.map (fun o => o.st.cache.map (·.1)) = [[rootKey .noargs]] ∧
    c.self.cache.map (·.1) = [rootInvKey .noargs] ∧
    c.subs.map (fun o => o.st.cache.map (·.1)) = [[rootKey .noargs, rootInvKey (kwRootInv .noargs)]] := by
  decide

/-- The OLD ConstantMul (before c4c33aa; `Hooks.constMulBefore_c4c33aa`, not what the driver runs): `root_inv_decomposition` was the base-class
method ON THE WRAPPER — the Lanczos side write landed in the wrapper's cache and the base operator was not asked at all, so the wrapper's root
(scaled root of the base, override) and inverse root (own decomposition of the scaled matrix) came from different factorizations. -/
theorem previous_constMul_side_write_location :
    let sub : SubObj := ⟨Profile.base, 4, 2, ⟨[], 0, []⟩⟩
    let σ : Settings := ⟨1, true, true, true⟩
    let c := (wRun (Hooks.constMulBefore_c4c33aa σ 1) σ 4 1 (.self (.rootInv .noargs)) (wFresh [sub])).1
    c.self.cache.map (·.1) = [rootKey .noargs, rootInvKey .noargs] ∧ c.subs.map (fun o => o.st.cache.map (·.1)) = [[]] := by
  decide

/-- After c4c33aa (code as it is, `decide`; tied by the key-set correspondence on `ConstantMul(Dense)`): root and inverse root of a ConstantMul operator
are BOTH assembled from the base operator's factors and carry their provenance — with a deterministic method they are an exact mutually inverse pair
(`paired`), which is the hypothesis `L P = 1` of `transplant_valid_lowrank` for `add_low_rank` / `cat_rows` on the scaled operator (what D34 and the C18
finding violated before the fix).  In the Lanczos regime the base operator still runs Lanczos twice (D30 stays open): not paired. -/
theorem constMul_roots_from_base :
    let sub : SubObj := ⟨Profile.base, 4, 2, ⟨[], 0, []⟩⟩
    let df : Settings := ⟨800, true, true, true⟩
    let sm : Settings := ⟨1, true, true, true⟩
    let sym : Call := ⟨[], [("method", .str "symeig")]⟩
    let a := wStep .constMul df 4 1 (.self (.root sym)) (wFresh [sub])
    let b := wStep .constMul df 4 1 (.self (.rootInv sym)) a.1
    let a' := wStep .constMul sm 4 1 (.self (.root .kwNone)) (wFresh [sub])
    let b' := wStep .constMul sm 4 1 (.self (.rootInv .kwNone)) a'.1
    paired a.2 b.2 = true ∧ valMat a.2 = 1 ∧ valMat b.2 = 1 ∧
    b.1.subs.map (fun o => o.st.cache.map (·.1)) = [[rootKey sym, rootInvKey (kwRootInv sym)]] ∧
    paired a'.2 b'.2 = false := by
  decide

/-! ### extension session 5: KroneckerProductLinearOperator (n-ary) in the wrapper state machine; settings at query time

`WKind.kron` is part of `WKind`, so `wrap_cache_inv`, `wrap_runHist_inv`, `wrap_history_transparent` and
`wrap_history_transparent_exact` above quantify over it as well (any number of factors of any modelled single-object class, any
sizes, any interleaving of wrapper / factor queries — including `WQuery.logdet`, which for Kronecker is NOT
`inv_quad_logdet(rhs, logdet=True)` —, settings changing arbitrarily between steps). -/

/-- **The Kronecker overrides meet the hook contract** (all sizes, any factor list, all settings): factor-wise `_cholesky(upper)` /
`_svd` / `_symeig`, base-class Lanczos hooks on the wrapper (side write into the wrapper's cache), the memoised
`root_decomposition` / `root_inv_decomposition` overrides — which either re-enter the memoised base method under a second key
(at or below `max_cholesky_size`) or assemble the answer from `lt.root_decomposition(method=method)` of every factor —,
`diagonalization` forced to `symeig`, `_logdet` through `diagonalization()`.  Each keeps the wrapper's and every factor's cache
valid and returns a valid factor of the wrapper's matrix (the structured root is tagged valid only if EVERY factor's answer was
acceptable for that factor). -/
theorem kron_hooks_ok (σ : Settings) (n m : Nat) : HooksOk (Hooks.kron σ n m) m := hooksOk_kron σ n m

/-- **One step on a Kronecker product** (corollary of the generic theorem, stated for the class): caches of the product and of all
factors stay valid, the answer is acceptable — also for `logdet()`. -/
theorem kron_cache_inv (σ : Settings) (n m : Nat) (q : WQuery) (w : WSt) (hw : WInv m w) :
    WInv m (wStep .kron σ n m q w).1 ∧ wAnswerOk m w q (wStep .kron σ n m q w).2 :=
  wrap_cache_inv .kron σ n m q w hw

/-- memoize `g` wrapper on the wrapper's cache: after the call the entry under `k` IS the returned value (hit or miss). -/
theorem wCached_get (k : Key) (f : WSt → WSt × Val) (w : WSt) :
    (wCached k f w).1.self.cache.get k = some (wCached k f w).2 := by
  unfold wCached
  cases hg : w.self.cache.get k with
  | some v => simp [hg]
  | none => simp only [WSt.putSelf]; exact (cache_map_laws _ k k _).1

/-- memoize: a second call under the same key is a hit that returns the stored entry and changes nothing — whatever the body `g` of the
second call would have computed. -/
theorem wCached_twice (k : Key) (f g : WSt → WSt × Val) (w : WSt) : wCached k g (wCached k f w).1 = wCached k f w := by
  have hit : ∀ (w' : WSt) (v : Val), w'.self.cache.get k = some v → wCached k g w' = (w', v) := by
    intro w' v h
    simp [wCached, h]
  rw [hit _ _ (wCached_get k f w)]

/-- **A memoised factorization is keyed by its arguments only — never by the settings in force** (C10_8-type question): for ANY two
hook sets / settings / sizes (the class overrides are functions of the settings: Kronecker branches on `max_cholesky_size`, the base
class chooses the method from it), a second `root_decomposition` / `root_inv_decomposition` / `diagonalization` call with the same
arguments on the same object returns exactly the entry the first call left, without touching any cache.  Together with
`wrap_cache_inv_generic` (that entry is a valid answer whatever the settings were when it was computed) this is why serving it under
different settings is sound. -/
theorem cached_served_across_settings (H₁ H₂ : Hooks) (σ₁ σ₂ : Settings) (n m : Nat) (c : Call) (w : WSt) :
    wRootDecomp H₂ σ₂ n m c (wRootDecomp H₁ σ₁ n m c w).1 = wRootDecomp H₁ σ₁ n m c w ∧
    wRootInvDecomp H₂ σ₂ n m c (wRootInvDecomp H₁ σ₁ n m c w).1 = wRootInvDecomp H₁ σ₁ n m c w ∧
    (H₁.diagzRebind c = H₂.diagzRebind c →
      wDiagonalization H₂ σ₂ n m c (wDiagonalization H₁ σ₁ n m c w).1 = wDiagonalization H₁ σ₁ n m c w) := by
  refine ⟨?_, ?_, ?_⟩
  · unfold wRootDecomp; exact wCached_twice _ _ _ _
  · unfold wRootInvDecomp; exact wCached_twice _ _ _ _
  · intro hc
    unfold wDiagonalization
    rw [← hc]
    exact wCached_twice _ _ _ _

/-- **Two keys per call, one entry** (`KroneckerProductLinearOperator.root_decomposition` at or below `max_cholesky_size`, any factor
list, any size, any calling convention `c`): the override is memoised under the key of the call as made AND re-enters the memoised
base method with `method=<bound method>` by keyword; after a miss BOTH keys hold the answer that was returned, so a later call in
either convention is served the same entry (no second, possibly different factorization of the same operator is computed). -/
theorem kron_two_keys_one_entry (σ : Settings) (n m : Nat) (c : Call) (w : WSt) (hn : n ≤ σ.mcs) :
    let r := wRootDecomp (Hooks.kron σ n m) σ n m c w
    r.1.self.cache.get (rootKey c) = some r.2 ∧
    (w.self.cache.get (rootKey c) = none → r.1.self.cache.get (rootKey (kwMethod c)) = some r.2) := by
  refine ⟨wCached_get _ _ _, ?_⟩
  intro hmiss
  have hin := wCached_get (rootKey (kwMethod c)) (wRootCompute (Hooks.kron σ n m) σ n m (kwMethod c)) w
  have e : wRootDecomp (Hooks.kron σ n m) σ n m c w =
      (((wCached (rootKey (kwMethod c)) (wRootCompute (Hooks.kron σ n m) σ n m (kwMethod c)) w).1.putSelf (rootKey c)
        (wCached (rootKey (kwMethod c)) (wRootCompute (Hooks.kron σ n m) σ n m (kwMethod c)) w).2),
       (wCached (rootKey (kwMethod c)) (wRootCompute (Hooks.kron σ n m) σ n m (kwMethod c)) w).2) := by
    simp [wRootDecomp, wCached, hmiss, Hooks.kron, hn]
  rw [e]
  simp only [WSt.putSelf]
  by_cases hk : rootKey (kwMethod c) = rootKey c
  · rw [hk]; exact (cache_map_laws _ _ (rootKey c) _).1
  · rw [(cache_map_laws _ (rootKey c) (rootKey (kwMethod c)) _).2.1 hk]; exact hin

/-- **The AddedDiagLinearOperator overrides meet the hook contract** (`_linear_op + _diag_tensor`; general and constant diagonal part,
all settings, any sub-operator profiles): memoised `to_dense` whose computation densifies BOTH parts (a Diag part memoises its own
`to_dense`), base-class `_cholesky` / Lanczos hooks on the sum, `_symeig` / `_svd` through `self.to_dense()` for a general diagonal and
delegated to the FIRST part (`self._linear_op._symeig`, `self._linear_op.svd()`) for a constant diagonal.  Hence every `wrap_*` theorem above
covers `WKind.addedDiag` / `WKind.addedDiagConst` (they are members of `WKind`).  The ad-hoc preconditioner attributes are not part of
`_memoize_cache` and are not modelled. -/
theorem addedDiag_hooks_ok (σ : Settings) (m : Nat) (constDiag : Bool) : HooksOk (Hooks.addedDiag σ m constDiag) m :=
  hooksOk_addedDiag σ m constDiag

/-- Code as it is (tied by the exact key-set correspondence on `AddedDiag(Dense, Diag)` / `AddedDiag(Dense, ConstantDiag)`): `svd()` on a fresh
operator densifies the sum and its Diag part for a general diagonal, and asks only the first part for its SVD for a constant diagonal. -/
theorem addedDiag_key_sets :
    let subs : List SubObj := [⟨Profile.base, 5, 2, ⟨[], 0, []⟩⟩, ⟨Profile.diag, 5, 3, ⟨[], 0, []⟩⟩]
    let df : Settings := ⟨800, true, true, true⟩
    let g := (wStep .addedDiag df 5 1 (.self .svd) (wFresh subs)).1
    let c := (wStep .addedDiagConst df 5 1 (.self .svd) (wFresh subs)).1
    g.self.cache.map (·.1) = [denseKey, svdKey] ∧ g.subs.map (fun o => o.st.cache.map (·.1)) = [[], [denseKey]] ∧
    c.self.cache.map (·.1) = [svdKey] ∧ c.subs.map (fun o => o.st.cache.map (·.1)) = [[svdKey], []] := by
  decide

/-- Code as it is (tied by the exact key-set correspondence on `KroneckerProductLinearOperator(Dense, Dense)`): `root_decomposition()`
on a fresh 2-factor product leaves TWO `root_decomposition` keys on the product at or below `max_cholesky_size` (the override's and the
re-entered base method's) plus the factor-wise Cholesky entries; above it one key on the product and `root_decomposition||method=None`
on every factor; `logdet()` leaves `diagonalization||method='symeig'` only. -/
theorem kron_key_sets :
    let subs : List SubObj := [⟨Profile.base, 2, 2, ⟨[], 0, []⟩⟩, ⟨Profile.base, 3, 3, ⟨[], 0, []⟩⟩]
    let df : Settings := ⟨800, true, true, true⟩
    let sm : Settings := ⟨1, true, true, true⟩
    let a := (wStep .kron df 6 1 (.self (.root .noargs)) (wFresh subs)).1
    let b := (wStep .kron sm 6 1 (.self (.root .noargs)) (wFresh subs)).1
    let l := (wStep .kron df 6 1 .logdet (wFresh subs)).1
    a.self.cache.map (·.1) = [.full "cholesky" [] [("upper", .bool false)], rootKey .kwNone, rootKey .noargs] ∧
    a.subs.map (fun o => o.st.cache.map (·.1)) = [[.full "cholesky" [] [("upper", .bool false)]], [.full "cholesky" [] [("upper", .bool false)]]] ∧
    b.self.cache.map (·.1) = [rootKey .noargs] ∧
    b.subs.map (fun o => o.st.cache.map (·.1)) = [[rootKey .kwNone], [rootKey .kwNone]] ∧
    l.self.cache.map (·.1) = [diagzKey ⟨[], [("method", .str "symeig")]⟩] := by
  decide

/-- **Every memoised method whose computation reads a global setting** (regenerated from /repo on every run by
`harness/extract/c12_settings.py`: `settings.<chain>` read directly in the body of a `@cached` function, or in a non-memoised
`self.<helper>()` it calls) is one of the reviewed, MODELLED ones: the Kronecker root overrides (`max_cholesky_size` -> `Hooks.kron`,
branch `n ≤ σ.mcs`), and the base-class `diagonalization` / `root_decomposition` / `root_inv_decomposition` (`_choose_root_method`:
`chooseRootMethod`; `max_root_decomposition_size`, the eigh dtype and the `verbose_linalg` logger change the numerical content /
logging only, never the kind or validity of the entry).  A new setting-dependent memoised computation must be modelled first. -/
theorem gen_setting_reads_reviewed :
    LinOp.Generated.C12.settingReads =
      [⟨"KroneckerProductLinearOperator", "root_decomposition", "root_decomposition", ["max_cholesky_size"], []⟩,
       ⟨"KroneckerProductLinearOperator", "root_inv_decomposition", "root_inv_decomposition", ["max_cholesky_size"], []⟩,
       ⟨"LinearOperator", "_svd", "svd", [], ["_symeig:_linalg_dtype_symeig", "_symeig:verbose_linalg.logger.debug"]⟩,
       ⟨"LinearOperator", "diagonalization", "diagonalization", ["max_cholesky_size"],
        ["_root_decomposition_size:max_root_decomposition_size", "_symeig:_linalg_dtype_symeig", "_symeig:verbose_linalg.logger.debug"]⟩,
       ⟨"LinearOperator", "root_decomposition", "root_decomposition", [],
        ["_choose_root_method:fast_computations.covar_root_decomposition", "_choose_root_method:max_cholesky_size",
         "_root_decomposition_size:max_root_decomposition_size", "_symeig:_linalg_dtype_symeig", "_symeig:verbose_linalg.logger.debug"]⟩,
       ⟨"LinearOperator", "root_inv_decomposition", "root_inv_decomposition", [],
        ["_choose_root_method:fast_computations.covar_root_decomposition", "_choose_root_method:max_cholesky_size",
         "_symeig:_linalg_dtype_symeig", "_symeig:verbose_linalg.logger.debug"]⟩] := by
  decide +kernel

/-- Satisfiability: a history on a 3-factor Kronecker product that mixes the structured branch, a settings flip and a factor handle. -/
example :
    let subs : List SubObj := [⟨Profile.base, 2, 2, ⟨[], 0, []⟩⟩, ⟨Profile.base, 2, 3, ⟨[], 0, []⟩⟩, ⟨Profile.sum, 3, 4, ⟨[], 0, []⟩⟩]
    let h : List (Settings × WQuery) := [(⟨1, true, true, true⟩, .self (.rootInv .noargs)), (⟨800, true, true, true⟩, .sub 3 (.root .noargs)),
      (⟨800, true, true, true⟩, .logdet)]
    answerOk 1 (.root .noargs)
      (wStep .kron ⟨800, true, true, true⟩ 12 1 (.self (.root .noargs)) (wRunHist .kron 12 1 h (wFresh subs))).2 := by
  decide

/-! ### derived operators -/

/-- **derived_fresh**: derivations other than the two transplants start from an empty cache, which satisfies
the invariant for the new matrix whatever the parent's cache contained. -/
theorem derived_fresh (m' : Nat) : deriveFresh = [] ∧ Inv m' deriveFresh := ⟨rfl, Inv.nil m'⟩

/-- **Transplant by `cat_rows`** is valid for the new matrix whenever the parent's root and inverse root are an
exact mutually-inverse pair; the parent's own cache stays valid in every case. -/
theorem transplant_catRows (P : Profile) (σ : Settings) (n m m' : Nat) (s : St) (hs : Inv m s.cache) :
    Inv m (catRows P σ n m m' s).1.cache ∧
    (paired (rootDecomp P σ n m .noargs s).2 (rootInvDecomp P σ n m .noargs (rootDecomp P σ n m .noargs s).1).2 = true →
      Inv m' (catRows P σ n m m' s).2) := by
  have h1 := good_root P σ n m .noargs s hs
  have h2 := good_rootInv P σ n m .noargs _ h1.1
  refine ⟨h2.1, ?_⟩
  intro hp
  obtain ⟨p, tri, triOk, hv, _⟩ := valid_rootKey m h1.2
  rw [hv] at hp
  unfold catRows
  simp only [hv, hp, valMat, Bool.true_and, beq_self_eq_true, if_true]
  apply inv_pair
  · simp [rootKey, rootInvKey]
  · simp [validFor, rootInvKey, Key.name]
  · simp [validFor, rootKey, Key.name, rootTri]

/-- **Transplant by `add_low_rank`** (code after fix 98f87b2): valid for the new matrix whenever the parent's root and
inverse root are an exact mutually-inverse pair — whatever class the parent's root has; the parent's cache stays valid
in every case.  (Still conditional on pairing, which the code does not ensure: D30.) -/
theorem transplant_addLowRank (P : Profile) (σ : Settings) (n m m' : Nat) (s : St) (hs : Inv m s.cache) :
    Inv m (addLowRank P σ n m m' s).1.cache ∧
    (paired (rootDecomp P σ n m .kwNone s).2 (rootInvDecomp P σ n m .kwNone (rootDecomp P σ n m .kwNone s).1).2 = true →
      Inv m' (addLowRank P σ n m m' s).2) := by
  have h1 := good_root P σ n m .kwNone s hs
  have h2 := good_rootInv P σ n m .kwNone _ h1.1
  refine ⟨h2.1, ?_⟩
  intro hp
  obtain ⟨p, tri, triOk, hv, _⟩ := valid_rootKey m h1.2
  rw [hv] at hp
  unfold addLowRank
  simp only [hv, hp, valMat, Bool.true_and, beq_self_eq_true, if_true]
  apply inv_pair
  · simp [rootKey, rootInvKey]
  · simp [validFor, rootKey, Key.name]
  · simp [validFor, rootInvKey, Key.name]

/-- Under default settings (Cholesky roots) the pair is mutually inverse, so `add_low_rank` on a fresh object yields a
valid cache, and `logdet` / `inv_quad_logdet` on the new object is acceptable (the D31 history, now correct). -/
theorem addLowRank_default_then_logdet_ok :
    Inv 2 (addLowRank Profile.base ⟨800, true, true, true⟩ 6 1 2 ⟨[], 0, []⟩).2 ∧
    answerOk 2 .iql (runQuery Profile.base ⟨800, true, true, true⟩ 6 2 .iql
        ⟨(addLowRank Profile.base ⟨800, true, true, true⟩ 6 1 2 ⟨[], 0, []⟩).2, 0, []⟩).2 :=
  ⟨(transplant_addLowRank Profile.base ⟨800, true, true, true⟩ 6 1 2 ⟨[], 0, []⟩ (Inv.nil 1)).2 (by decide), by decide⟩

/-- D30 (as the code is): a fresh 6×6 object with `max_cholesky_size = 1` (Lanczos regime); `add_low_rank`
obtains root and inverse root from two different Lanczos runs, and the entry it writes into the new object's
cache is not a factorization of the new matrix. -/
theorem transplant_lanczos_counterexample :
    ∃ k v, (addLowRank Profile.base ⟨1, true, true, true⟩ 6 1 2 ⟨[], 0, []⟩).2.get k = some v ∧ ¬ validFor 2 k v :=
  ⟨rootKey .noargs, Val.root .transplant false false 0, by decide, by decide⟩

/-- The same for `cat_rows`. -/
theorem transplant_catRows_lanczos_counterexample :
    ∃ k v, (catRows Profile.base ⟨1, true, true, true⟩ 6 1 2 ⟨[], 0, []⟩).2.get k = some v ∧ ¬ validFor 2 k v :=
  ⟨rootKey .noargs, Val.root .transplant false false 0, by decide, by decide⟩

/-- D31 (OLD formula, fixed in 98f87b2 — a statement about `addLowRankOldWrapping`, not about the current code): with
default settings (Cholesky roots, exact and mutually inverse) the old code stored the dense updated root flagged as
triangular, which is not a valid `root_decomposition` entry … -/
theorem oldWrapping_triangular_counterexample :
    ∃ k v, (addLowRankOldWrapping Profile.base ⟨800, true, true, true⟩ 6 1 2 ⟨[], 0, []⟩).2.get k = some v ∧ ¬ validFor 2 k v :=
  ⟨rootKey .noargs, Val.root .transplant true false 2, by decide, by decide⟩

/-- … and `logdet` / `inv_quad_logdet` on the new object then used it as a Cholesky factor: a re-introduction of the
wrapping makes this query unacceptable again (contrast `addLowRank_default_then_logdet_ok`). -/
theorem oldWrapping_breaks_logdet :
    ¬ answerOk 2 .iql (runQuery Profile.base ⟨800, true, true, true⟩ 6 2 .iql
        ⟨(addLowRankOldWrapping Profile.base ⟨800, true, true, true⟩ 6 1 2 ⟨[], 0, []⟩).2, 0, []⟩).2 := by
  decide

/-! ### the algebra of the transplants (Mathlib matrices over any commutative ring) -/

open Matrix in
/-- `(L U S̃)(L U S̃)ᵀ = A + B Bᵀ` under the explicit hypothesis that the cached pair is exact (`L Lᵀ = A`) and
mutually inverse (`L P = 1`). -/
theorem transplant_valid_lowrank {R : Type} [CommRing R] {n r : Type} [Fintype n] [DecidableEq n] [Fintype r]
    (A L Pm U : Matrix n n R) (B : Matrix n r R) (sig d : n → R)
    (hA : L * Lᵀ = A) (hLP : L * Pm = 1) (hU : U * Uᵀ = 1)
    (hS : U * diagonal (fun i => sig i * sig i) * Uᵀ = (Pm * B) * (Pm * B)ᵀ)
    (hd : ∀ i, d i * d i = sig i * sig i + 1) :
    (L * U * diagonal d) * (L * U * diagonal d)ᵀ = A + B * Bᵀ :=
  Algebra.transplant_valid_lowrank A L Pm U B sig d hA hLP hU hS hd

open Matrix in
/-- Without the pairing hypothesis the update yields `L Lᵀ + (L P) B Bᵀ (L P)ᵀ` — whatever `L P` is. -/
theorem transplant_lowrank_general {R : Type} [CommRing R] {n r : Type} [Fintype n] [DecidableEq n] [Fintype r]
    (L Pm U : Matrix n n R) (B : Matrix n r R) (sig d : n → R) (hU : U * Uᵀ = 1)
    (hS : U * diagonal (fun i => sig i * sig i) * Uᵀ = (Pm * B) * (Pm * B)ᵀ)
    (hd : ∀ i, d i * d i = sig i * sig i + 1) :
    (L * U * diagonal d) * (L * U * diagonal d)ᵀ = L * Lᵀ + (L * Pm) * B * Bᵀ * (L * Pm)ᵀ :=
  Algebra.lowrank_root_general L Pm U B sig d hU hS hd

open Matrix in
/-- … which differs from `A + B Bᵀ` already for 2×2 integer matrices with exact but unpaired roots. -/
theorem transplant_lowrank_unpaired_counterexample :
    ∃ (L Pm : Matrix (Fin 2) (Fin 2) ℤ) (B : Matrix (Fin 2) (Fin 1) ℤ),
      L * Lᵀ = 1 ∧ Pmᵀ * Pm = 1 ∧ L * Lᵀ + (L * Pm) * B * Bᵀ * (L * Pm)ᵀ ≠ 1 + B * Bᵀ :=
  Algebra.lowrank_unpaired_counterexample

open Matrix in
/-- The transplanted inverse root is the transposed inverse of the transplanted root. -/
theorem transplant_valid_lowrank_inv {R : Type} [CommRing R] {n : Type} [Fintype n] [DecidableEq n]
    (L Pm U : Matrix n n R) (d e : n → R) (hPL : Pm * L = 1) (hU : Uᵀ * U = 1) (hde : ∀ i, e i * d i = 1) :
    (Pmᵀ * U * diagonal e)ᵀ * (L * U * diagonal d) = 1 :=
  Algebra.transplant_valid_lowrank_inv L Pm U d e hPL hU hde

open Matrix in
/-- Block-root identity of `cat_rows`: `[E 0; F G][E 0; F G]ᵀ = [[A, Bᵀ], [B, D]]`. -/
theorem transplant_valid_catrows {R : Type} [CommRing R] {n o : Type} [Fintype n] [DecidableEq n] [Fintype o] [DecidableEq o]
    (A E Rinv : Matrix n n R) (B : Matrix o n R) (D G : Matrix o o R)
    (hE : E * Eᵀ = A) (hER : E * Rinvᵀ = 1) (hG : G * Gᵀ = D - (B * Rinv) * (B * Rinv)ᵀ) :
    fromBlocks E 0 (B * Rinv) G * (fromBlocks E 0 (B * Rinv) G)ᵀ = fromBlocks A Bᵀ B D :=
  Algebra.transplant_valid_catrows A E Rinv B D G hE hER hG

/-! ### the other derivations: when would carrying a factorization over be valid? -/

open Matrix in
/-- **mul by a constant** `c = s²`: the root scaled by `s` is a root of `c·A` (what `ConstantMul.root_decomposition` — model
`Hooks.constMul`, `rootOv` —, `Chol._mul_constant`, `Triangular._mul_constant` build); nothing else is carried over. -/
theorem derive_scale_valid {R : Type} [CommRing R] {n k : Type} [Fintype n] [Fintype k] [DecidableEq n]
    (A : Matrix n n R) (L : Matrix n k R) (s c : R) (hA : L * Lᵀ = A) (hs : s * s = c) : (s • L) * (s • L)ᵀ = c • A :=
  Algebra.derive_scale A L s c hA hs

open Matrix in
/-- **transpose**: a root of `A` is a root of `Aᵀ`. -/
theorem derive_transpose_valid {R : Type} [CommRing R] {n k : Type} [Fintype n] [Fintype k] [DecidableEq n]
    (A : Matrix n n R) (L : Matrix n k R) (hA : L * Lᵀ = A) : L * Lᵀ = Aᵀ :=
  Algebra.derive_transpose A L hA

open Matrix in
/-- **`__getitem__`** of a principal submatrix: the ROW-selected root `L[I, :]` is a root of `A[I, I]`. -/
theorem derive_getitem_valid {R : Type} [CommRing R] {n k r : Type} [Fintype n] [Fintype k] [Fintype r] [DecidableEq n]
    (L : Matrix n k R) (f : r → n) : (L.submatrix f id) * (L.submatrix f id)ᵀ = (L * Lᵀ).submatrix f f :=
  Algebra.derive_getitem L f

open Matrix in
/-- **`add_jitter` / `add_diagonal`**: the parent's root is a root of `A + diag(d)` if AND ONLY IF `d = 0`: the derived operator
must start from an empty cache (`derived_fresh`; `expand` / `unsqueeze` act entrywise on batches of such identities). -/
theorem derive_add_diagonal_valid_iff {R : Type} [CommRing R] {n k : Type} [Fintype n] [Fintype k] [DecidableEq n]
    (A : Matrix n n R) (L : Matrix n k R) (d : n → R) (hA : L * Lᵀ = A) : L * Lᵀ = A + diagonal d ↔ d = 0 :=
  Algebra.derive_add_diagonal_iff A L d hA

/-- D30, `_partial` form over the model: the transplant of `add_low_rank` / `cat_rows` is valid whenever root and inverse root
have the same exact provenance; with `max_cholesky_size` above `n` on a fresh base-class object that is the case (Cholesky /
Cholesky) — the full claim "valid for every history and settings" is FALSE (`transplant_lanczos_counterexample`,
`transplant_catRows_lanczos_counterexample`, `transplant_lowrank_unpaired_counterexample`). -/
theorem transplant_fresh_cholesky_regime_partial (σ : Settings) (n m m' : Nat) (hσ : n ≤ σ.mcs) :
    Inv m' (addLowRank Profile.base σ n m m' ⟨[], 0, []⟩).2 ∧ Inv m' (catRows Profile.base σ n m m' ⟨[], 0, []⟩).2 := by
  have hc : chooseRootMethod σ n [] = "cholesky" := by
    simp [chooseRootMethod, Cache.hasFirst, hσ]
  constructor
  · apply (transplant_addLowRank Profile.base σ n m m' ⟨[], 0, []⟩ (Inv.nil m)).2
    simp [rootDecomp, rootInvDecomp, Profile.base, cachedCall, Cache.get, rootCompute, rootInvCompute, Call.kwNone, Call.method,
      rootKey, rootInvKey, Cache.put, chooseRootMethod, Cache.hasFirst, Key.first, hσ, rootBody, rootInvBody, cholesky, cholLower,
      cholKey, St.log, paired]
  · apply (transplant_catRows Profile.base σ n m m' ⟨[], 0, []⟩ (Inv.nil m)).2
    simp [rootDecomp, rootInvDecomp, Profile.base, cachedCall, Cache.get, rootCompute, rootInvCompute, Call.noargs, Call.method,
      rootKey, rootInvKey, Cache.put, chooseRootMethod, Cache.hasFirst, Key.first, hσ, rootBody, rootInvBody, cholesky, cholLower,
      cholKey, St.log, paired]

/-! ### obligations over the table regenerated from /repo on every run -/
open LinOp.Generated.C12

/-- `ignore_args=True` is used only on `_cholesky` of the diagonal classes (whose factor is its own transpose). -/
theorem gen_ignoreArgs_reviewed :
    (decos.filter (·.ignoreArgs)).map (fun d => (d.cls, d.fn, d.name)) =
      [("DiagLinearOperator", "_cholesky", "cholesky"), ("IdentityLinearOperator", "_cholesky", "cholesky")] := by
  decide +kernel

/-- A cache name belongs to exactly one function name (no two different computations share a name). -/
theorem gen_name_determines_function :
    decos.all (fun d₁ => decos.all fun d₂ => d₁.name != d₂.name || d₁.fn == d₂.fn) = true := by
  decide +kernel

/-- Every `_cholesky` memoises on `upper` (or ignores its arguments, previous theorem), and the only caller of
`_cholesky` is `cholesky()`, which always asks for the lower factor and transposes outside the cache. -/
theorem gen_cholesky_key_discipline :
    (decos.filter (·.name == "cholesky")).all (fun d => d.fn == "_cholesky" && d.params == ["upper"]) = true ∧
    cholCalls.map (fun c => (c.fn, c.recv, c.args)) = [("cholesky", "self", "upper=False")] := by
  decide +kernel

/-- Method-taking factorizations keep `method` in the key. -/
theorem gen_method_in_key :
    (decos.filter (fun d => d.name == "root_decomposition" || d.name == "root_inv_decomposition" || d.name == "diagonalization")).all
      (fun d => !d.ignoreArgs && d.params.contains "method") = true := by
  decide +kernel

/-- The direct writers of the cache are exactly the reviewed ones (side write of `_root_inv_decomposition`, the two
transplants), all under argument-free keys. -/
theorem gen_writers_reviewed :
    (sites.filter (·.api == "add_to_cache")).map (fun s => (s.fn, s.name, s.target, s.nextra, s.kwargs)) =
      [("_root_inv_decomposition", "root_decomposition", "self", 0, []),
       ("_root_inv_decomposition", "root_decomposition", "self", 0, []),
       ("add_low_rank", "root_decomposition", "new_linear_op", 0, []),
       ("add_low_rank", "root_inv_decomposition", "new_linear_op", 0, []),
       ("cat_rows", "root_inv_decomposition", "new_linear_op", 0, []),
       ("cat_rows", "root_decomposition", "new_linear_op", 0, [])] := by
  decide +kernel

/-- Every name that is probed / popped is either written by a function decorated with that name, or is one of
the two dead probes (`symeig`, `lanczos`) that NOTHING writes — so `eigh` can never return its `(evals, None)` form
and `_choose_root_method` never answers from those probes. -/
theorem gen_reads_are_written_or_dead :
    (sites.filter (fun s => s.api != "add_to_cache")).all
      (fun s => decos.any (fun d => d.name == s.name) || s.name == "symeig" || s.name == "lanczos") = true ∧
    decos.all (fun d => d.name != "symeig" && d.name != "lanczos") = true ∧
    sites.all (fun s => s.api != "add_to_cache" || (s.name != "symeig" && s.name != "lanczos")) = true := by
  decide +kernel

/-- The reviewed list of read sites (function, API, name). A new probe of the cache must be modelled first. -/
theorem gen_readers_reviewed :
    (sites.filter (fun s => s.api != "add_to_cache")).map (fun s => (s.fn, s.api, s.name)) =
      [("_choose_root_method", "_is_in_cache_ignore_all_args", "symeig"),
       ("_choose_root_method", "_is_in_cache_ignore_all_args", "diagonalization"),
       ("_choose_root_method", "_is_in_cache_ignore_all_args", "lanczos"),
       ("add_low_rank", "_is_in_cache_ignore_args", "root_decomposition"),
       ("add_low_rank", "_is_in_cache_ignore_args", "root_inv_decomposition"),
       ("cat_rows", "_is_in_cache_ignore_args", "root_decomposition"),
       ("cat_rows", "_is_in_cache_ignore_args", "root_inv_decomposition"),
       ("eigh", "pop_from_cache", "symeig"),
       ("eigvalsh", "pop_from_cache", "symeig"),
       ("inv_quad_logdet", "_is_in_cache_ignore_all_args", "root_decomposition")] := by
  decide +kernel

/-- The cache names in use are exactly the ones the implementation-side audit knows how to validate. -/
theorem gen_cache_names_known :
    decos.all (fun d => ["cholesky", "root_decomposition", "root_inv_decomposition", "diagonalization", "svd", "size",
      "kernel_diag", "covar_mat", "chol_cap_mat", "fn:to_dense", "fn:_diagonal", "fn:inverse"].contains d.name) = true := by
  decide +kernel

/-- **Every cache WRITE site keys on every argument its value depends on.**

Dependence analysis (done by the translator on the current source, stated here):
* a decorated function `f(self, p₁ … pₖ)` is called by the memoize wrapper `g(self, *args, **kwargs)` with exactly the
  `args` / `kwargs` that form the key (`gen_memoize_key_shape`), so with `ignore_args = False` every parameter is in the key,
  positionally by value and by keyword by NAME AND VALUE; with `ignore_args = True` nothing is — then no parameter may occur in
  the body at all (`uses` = parameters occurring anywhere in the body; a parameter that does not occur cannot influence the value);
* a direct `add_to_cache(target, name, value, *key_args, **key_kwargs)`: `deps` = parameters of the enclosing function in the
  backward slice of `value` (names in the expression, closed under every local assignment / loop / with target of the function and
  under the tests of the `if` / `while` / `for` statements enclosing the call — a flow-insensitive over-approximation), `keyed` =
  parameters occurring in the key arguments.  If the target is an object CONSTRUCTED in that function (`targetFresh`: `add_low_rank`,
  `cat_rows`) the parameters are part of what the new object denotes and need not be keyed; a write into `self` must have
  `deps ⊆ keyed`, with ONE reviewed exception: the Lanczos side write of `_root_inv_decomposition` stores, under the argument-free key,
  a root computed from `initial_vectors` — its VALUE depends on the start vectors, its VALIDITY (being a root of this matrix) does not
  (modelled as `Prov.lanczos run`; the harness query `rootinv_iv` exercises it). -/
theorem gen_write_keys_cover_dependences :
    decos.all (fun d => !d.ignoreArgs || d.uses.isEmpty) = true ∧
    decos.all (fun d => d.uses.all d.params.contains) = true ∧
    (sites.filter (fun s => s.api == "add_to_cache" && !s.targetFresh)).all
      (fun s => s.target == "self" &&
        (s.deps.all s.keyed.contains || (s.fn, s.name, s.deps) == ("_root_inv_decomposition", "root_decomposition", ["initial_vectors"]))) = true ∧
    (sites.filter (fun s => s.api == "add_to_cache" && s.targetFresh)).all
      (fun s => s.target != "self" && (s.fn == "add_low_rank" || s.fn == "cat_rows")) = true ∧
    (sites.filter (fun s => s.api != "add_to_cache")).all (fun s => s.deps.isEmpty && s.keyed.isEmpty) = true := by
  decide +kernel

/-- **The key really is `(name, args, pickle(kwargs))`** (args by value, kwargs by name and value) at every store / load / membership /
pop of `utils/memoize.py`, `kwargs_pkl` is always `pickle.dumps(kwargs)` of the full dict, and the wrappers pass the method exactly the
arguments they key on.  (The Lean `Key.full name args kwargs` / `Key.bare name` mirrors this table.) -/
theorem gen_memoize_key_shape :
    memoKeys.map (fun k => (k.fn, k.role, k.expr)) =
      [("add_to_cache", "call:_add_to_cache", "obj,name,val,*args,kwargs_pkl=pickle.dumps(kwargs)"),
       ("add_to_cache", "kwargs_pkl", "pickle.dumps(kwargs)"),
       ("get_from_cache", "call:_get_from_cache", "obj,name,*args,kwargs_pkl=pickle.dumps(kwargs)"),
       ("get_from_cache", "kwargs_pkl", "pickle.dumps(kwargs)"),
       ("pop_from_cache", "pop", "(name, args, pickle.dumps(kwargs))"),
       ("pop_from_cache_ignore_args", "pop", "name"),
       ("_cached.g", "signature", "self,*args,**kwargs"),
       ("_cached.g", "kwargs_pkl", "pickle.dumps(kwargs)"),
       ("_cached.g", "call:_is_in_cache", "self,cache_name,*args,kwargs_pkl=kwargs_pkl"),
       ("_cached.g", "call:_add_to_cache", "self,cache_name,method(self, *args, **kwargs),*args,kwargs_pkl=kwargs_pkl"),
       ("_cached.g", "call:_get_from_cache", "self,cache_name,*args,kwargs_pkl=kwargs_pkl"),
       ("_cached_ignore_args.g", "signature", "self,*args,**kwargs"),
       ("_cached_ignore_args.g", "call:_is_in_cache_ignore_args", "self,cache_name"),
       ("_cached_ignore_args.g", "call:_add_to_cache_ignore_args", "self,cache_name,method(self, *args, **kwargs)"),
       ("_cached_ignore_args.g", "call:_get_from_cache_ignore_args", "self,cache_name"),
       ("_add_to_cache", "store", "(name, args, kwargs_pkl)"),
       ("_get_from_cache", "load", "(name, args, kwargs_pkl)"),
       ("_is_in_cache", "in", "(name, args, kwargs_pkl)"),
       ("_add_to_cache_ignore_args", "store", "name"),
       ("_get_from_cache_ignore_args", "load", "name"),
       ("_is_in_cache_ignore_args", "in", "name"),
       ("_is_in_cache_ignore_all_args", "in-derived", "name in [x[0] for x in obj._memoize_cache.keys()]")] := by
  decide +kernel

/-! ### non-vacuity -/

/-- The hypotheses of the transplant theorems are satisfiable: default settings give a paired (Cholesky) couple;
`cat_rows` then produces a valid cache. -/
example : Inv 2 (catRows Profile.base ⟨800, true, true, true⟩ 6 1 2 ⟨[], 0, []⟩).2 :=
  (transplant_catRows Profile.base ⟨800, true, true, true⟩ 6 1 2 ⟨[], 0, []⟩ (Inv.nil 1)).2 (by decide)

/-- A history in which the side write matters: inverse root by Lanczos, then the default root is served from the
cache entry written by that same run (paired), and `cat_rows` is valid. -/
example : paired
    (rootDecomp Profile.base ⟨1, true, true, true⟩ 6 1 .noargs (rootInvDecomp Profile.base ⟨1, true, true, true⟩ 6 1 .noargs ⟨[], 0, []⟩).1).2
    (rootInvDecomp Profile.base ⟨1, true, true, true⟩ 6 1 .noargs ⟨[], 0, []⟩).2 = true := by decide

end LinOp.C12
