import LinOp.C06.Proofs
import LinOp.C06.ProofsPost
import LinOp.C06.ProofsCompose
import LinOp.C06.ProofsLanczos
import LinOp.Generated.C06Consts
import Mathlib.Data.Sign.Basic
import Mathlib.Algebra.Order.Field.Basic
import Mathlib.Tactic.FieldSimp
import Mathlib.Tactic.NormNum
/-!
C06 — every factorization returned really factorizes the operator.  Property theorems only.

Conventions.  Matrices are Mathlib matrices over a commutative ring (field where a division occurs).
The numerical primitives are parameters with their textbook contracts as hypotheses
(`L * Lᵀ = A` for `cholesky_ex`, `Qᵀ * Q = 1 ∧ Q * diagonal w * Qᵀ = A` for `eigh`, scalar square roots
as `s i * s i = w i`).  "`R Rᵀ = A⁻¹`" is stated as `R * Rᵀ * A = 1` (for square matrices over a
commutative ring this also gives `A * (R * Rᵀ) = 1`, `Matrix.mul_eq_one_comm`).
Each theorem names the code path it is about.  `LowerTri/UpperTri` are exact zero patterns.
-/
namespace LinOp.C06
open Matrix Kronecker

variable {α : Type} [CommRing α]
variable {n k : Type} [Fintype n] [Fintype k] [DecidableEq n] [DecidableEq k]

/-! ### Cholesky -/

/-- `LinearOperator.cholesky(upper=True)` returns the transpose of the lower factor: if `L` is lower
triangular with `L Lᵀ = A` then `R = Lᵀ` is upper triangular with `Rᵀ R = A`. -/
theorem chol_factorizes {m : Nat} (L A : Matrix (Fin m) (Fin m) α) (hL : L * Lᵀ = A) (hT : LowerTri L) :
    (LowerTri L ∧ L * Lᵀ = A) ∧
      (UpperTri (upperM L) ∧ (upperM L)ᵀ * upperM L = A) := by
  refine ⟨⟨hT, hL⟩, lowerTri_transpose hT, ?_⟩
  show (Lᵀ)ᵀ * Lᵀ = A
  rw [transpose_transpose]; exact hL

/-- `KroneckerProductLinearOperator._cholesky`: the Kronecker product of the factors' Cholesky factors
factorizes the Kronecker product (any index types). -/
theorem kronChol_factorizes {m : Type} [Fintype m] (L₁ A₁ : Matrix n n α) (L₂ A₂ : Matrix m m α)
    (h₁ : L₁ * L₁ᵀ = A₁) (h₂ : L₂ * L₂ᵀ = A₂) : (L₁ ⊗ₖ L₂) * (L₁ ⊗ₖ L₂)ᵀ = A₁ ⊗ₖ A₂ := by
  rw [← h₁, ← h₂, ← kroneckerMap_transpose, ← mul_kronecker_mul]

/-- … and in the library's flat row-major index order (`KroneckerProductTriangularLinearOperator`) the
factor is lower triangular and factorizes the flat Kronecker product — all sizes. -/
theorem kronChol {m p : Nat} (L₁ A₁ : Matrix (Fin m) (Fin m) α) (L₂ A₂ : Matrix (Fin p) (Fin p) α)
    (h₁ : L₁ * L₁ᵀ = A₁) (h₂ : L₂ * L₂ᵀ = A₂) (t₁ : LowerTri L₁) (t₂ : LowerTri L₂) :
    LowerTri (kronM L₁ L₂) ∧ kronM L₁ L₂ * (kronM L₁ L₂)ᵀ = kronM A₁ A₂ := by
  refine ⟨kron_lowerTri t₁ t₂, ?_⟩
  unfold kronM
  rw [kron_eq_kronecker, kron_eq_kronecker, ← kronChol_factorizes L₁ A₁ L₂ A₂ h₁ h₂]
  simp [Matrix.reindex_apply, Matrix.submatrix_mul_equiv]

/-- `BlockInterleavedLinearOperator._cholesky` (index `(row, block)`, block fastest) and
`BlockDiagLinearOperator._cholesky`: block-diagonal of the blocks' factors factorizes the block-diagonal. -/
theorem block_chol {o : Type} [Fintype o] [DecidableEq o] (L A : o → Matrix n n α)
    (h : ∀ b, L b * (L b)ᵀ = A b) : blockDiagonal L * (blockDiagonal L)ᵀ = blockDiagonal A := by
  rw [blockDiagonal_transpose, ← blockDiagonal_mul]
  congr 1; funext b; exact h b

/-- Triangularity of the block factor in the interleaved order (lexicographic on `(row, block)`). -/
theorem blockInterleaved_chol_lowerTri {o ι : Type} [DecidableEq o] [LinearOrder ι] [LT o]
    (L : o → Matrix ι ι α) (h : ∀ b, LowerTri (L b)) (i j : ι) (b b' : o)
    (hlt : i < j ∨ (i = j ∧ b < b')) (hirr : ∀ x : o, ¬ x < x) : blockDiagonal L (i, b) (j, b') = 0 := by
  rw [blockDiagonal_apply]
  by_cases hb : b = b'
  · subst hb
    rcases hlt with h1 | ⟨_, h2⟩
    · simp [h b i j h1]
    · exact absurd h2 (hirr b)
  · simp [hb]

/-- Triangularity in the block-major order of `BlockDiagLinearOperator` (lexicographic on `(block, row)`). -/
theorem blockDiag_chol_lowerTri {o ι : Type} [DecidableEq o] [LT ι] [LT o]
    (L : o → Matrix ι ι α) (h : ∀ b, LowerTri (L b)) (i j : ι) (b b' : o)
    (hlt : b < b' ∨ (b = b' ∧ i < j)) (hirr : ∀ x : o, ¬ x < x) : blockDiagonal L (i, b) (j, b') = 0 := by
  rw [blockDiagonal_apply]
  by_cases hb : b = b'
  · subst hb
    rcases hlt with h1 | ⟨_, h2⟩
    · exact absurd h1 (hirr b)
    · simp [h b i j h2]
  · simp [hb]

/-- `BatchRepeatLinearOperator._cholesky`: batch member `b` of the repeated factor is the factor of base
member `b % r`, hence factorizes batch member `b` of the repeated operator. -/
theorem batchRepeat_chol {r : Nat} (hr : 0 < r) (L A : Fin r → Matrix n n α) (h : ∀ b, L b * (L b)ᵀ = A b)
    (b : Nat) : L ⟨b % r, Nat.mod_lt _ hr⟩ * (L ⟨b % r, Nat.mod_lt _ hr⟩)ᵀ = A ⟨b % r, Nat.mod_lt _ hr⟩ := h _

/-- `CholLinearOperator(R, upper=True)` (meaning `RᵀR`): `cholesky(upper=True)` returns `R` itself and
`cholesky(upper=False)` its transpose, which is lower triangular with `L Lᵀ = RᵀR`. -/
theorem cholUpper_cholesky {m : Nat} (R A : Matrix (Fin m) (Fin m) α) (hR : Rᵀ * R = A) (hT : UpperTri R) :
    (UpperTri R ∧ Rᵀ * R = A) ∧ (LowerTri Rᵀ ∧ Rᵀ * (Rᵀ)ᵀ = A) := by
  refine ⟨⟨hT, hR⟩, fun i j hij => hT j i hij, ?_⟩
  rw [transpose_transpose]; exact hR

/-- `CholLinearOperator(R, upper=True).root_decomposition()` returns `RootLinearOperator(Rᵀ)`: `B = Rᵀ`
satisfies `B Bᵀ = RᵀR`; `root_inv_decomposition()` returns `RootLinearOperator(R⁻¹)`: `R⁻¹ R⁻ᵀ (RᵀR) = I`. -/
theorem cholUpper_roots (R Ri A : Matrix n n α) (hR : Rᵀ * R = A) (hi : R * Ri = 1) :
    Rᵀ * (Rᵀ)ᵀ = A ∧ Ri * Riᵀ * A = 1 := by
  refine ⟨by rw [transpose_transpose]; exact hR, ?_⟩
  have hi' : Ri * R = 1 := mul_eq_one_comm.1 hi
  have hti : Riᵀ * Rᵀ = 1 := by rw [← transpose_mul, hi, transpose_one]
  rw [← hR]
  calc Ri * Riᵀ * (Rᵀ * R) = Ri * (Riᵀ * Rᵀ) * R := by simp only [Matrix.mul_assoc]
    _ = 1 := by rw [hti, Matrix.mul_one, hi']

/-! ### Roots per method -/

/-- `scaleCols` of the model is right multiplication by a diagonal matrix. -/
theorem scaleCols_eq {a b : Nat} (Q : Matrix (Fin a) (Fin b) α) (v : Fin b → α) :
    (scaleCols Q v : Matrix (Fin a) (Fin b) α) = Q * diagonal v := by
  ext i j; simp [scaleCols, Matrix.mul_diagonal]

/-- `root_decomposition(method="symeig"|"diagonalization")`: `R = Q·diag(√w)`. -/
theorem root_method_symeig (Q : Matrix n k α) (A : Matrix n n α) (w s : k → α)
    (hA : Q * diagonal w * Qᵀ = A) (hs : ∀ i, s i * s i = w i) :
    (Q * diagonal s) * (Q * diagonal s)ᵀ = A := by
  rw [scaled_gram, ← hA]; congr 3; funext i; exact hs i

/-- `root_decomposition(method="svd")`: `R = U·diag(√S)` with `U = Q·sign(w)`, `S = |w|`; a root of `A`
exactly when `sign(w)²·|w| = w`, i.e. for `w ≥ 0`. -/
theorem root_method_svd (Q : Matrix n k α) (A : Matrix n n α) (w sg ab s : k → α)
    (hA : Q * diagonal w * Qᵀ = A) (hs : ∀ i, s i * s i = ab i) (hw : ∀ i, sg i * sg i * ab i = w i) :
    ((Q * diagonal sg) * diagonal s) * ((Q * diagonal sg) * diagonal s)ᵀ = A := by
  have h0 : Q * diagonal sg * diagonal s = Q * diagonal (fun i => sg i * s i) := by
    rw [Matrix.mul_assoc, diagonal_mul_diagonal]
  rw [h0, scaled_gram, ← hA]
  congr 3; funext i
  rw [← hw i, ← hs i]; ring

/-- `root_inv_decomposition(method="symeig"|"svd"|"diagonalization")`: `R = Q·diag(1/√w)` (the clamp
`1e-7` is inactive for `w ≥ 1e-7`): `R Rᵀ A = I`. -/
theorem rootInv_method_symeig (Q : Matrix n k α) (A : Matrix n n α) (w t : k → α)
    (hQ : Qᵀ * Q = 1) (hQ' : Q * Qᵀ = 1) (hA : Q * diagonal w * Qᵀ = A) (ht : ∀ i, t i * t i * w i = 1) :
    (Q * diagonal t) * (Q * diagonal t)ᵀ * A = 1 := by
  rw [scaled_gram, ← hA, conj_mul_conj Q hQ]
  have : (fun i => t i * t i * w i) = fun _ => (1 : α) := funext ht
  rw [this, diagonal_one, Matrix.mul_one, hQ']

/-- `root_decomposition(method="cholesky")` returns `CholLinearOperator(L)` whose root is `L`. -/
theorem root_from_chol (L A : Matrix n n α) (hL : L * Lᵀ = A) : L * Lᵀ = A := hL

/-- `root_inv_decomposition(method="cholesky")`: `R = (L⁻¹)ᵀ` from a triangular solve against `I`. -/
theorem rootInv_from_chol (L Li A : Matrix n n α) (hL : L * Lᵀ = A) (hi : L * Li = 1) :
    Liᵀ * (Liᵀ)ᵀ * A = 1 := by
  have hi' : Li * L = 1 := mul_eq_one_comm.1 hi
  have hti : Lᵀ * Liᵀ = 1 := by rw [← transpose_mul, hi', transpose_one]
  have hti' : Liᵀ * Lᵀ = 1 := mul_eq_one_comm.1 hti
  rw [transpose_transpose, ← hL]
  calc Liᵀ * Li * (L * Lᵀ) = Liᵀ * (Li * L) * Lᵀ := by simp only [Matrix.mul_assoc]
    _ = 1 := by rw [hi', Matrix.mul_one, hti']

/-- `cat_rows` (Cholesky branch): with `Z = [[E, 0], [F, G]]` lower triangular, `Z Zᵀ = C`, the cached inverse
root must be `(Z⁻¹)ᵀ`: `(Z⁻¹)ᵀ ((Z⁻¹)ᵀ)ᵀ C = I`. -/
theorem catRows_rootInv (Z Zi C : Matrix n n α) (hZ : Z * Zᵀ = C) (hi : Z * Zi = 1) :
    Ziᵀ * (Ziᵀ)ᵀ * C = 1 := rootInv_from_chol Z Zi C hZ hi

/-- … whereas `Z⁻¹` itself (the transpose forgotten) is in general **not** an inverse root:
`Z = [[1,0],[1,1]]`, `Z⁻¹ Z⁻ᵀ · Z Zᵀ ≠ I`. -/
theorem catRows_rootInv_untransposed_counterexample :
    ∃ (Z Zi : Matrix (Fin 2) (Fin 2) ℚ), Z * Zi = 1 ∧ Zi * Ziᵀ * (Z * Zᵀ) ≠ 1 := by
  refine ⟨!![1, 0; 1, 1], !![1, 0; -1, 1], ?_, ?_⟩
  · ext i j; fin_cases i <;> fin_cases j <;> simp [Matrix.mul_apply, Fin.sum_univ_two]
  · intro h
    have := congrFun (congrFun h 0) 1
    simp [Matrix.mul_apply, Fin.sum_univ_two, Matrix.vecMul, dotProduct, Matrix.transpose_apply] at this

/-- `root_inv_decomposition(method="pinverse")`: `P = pinv(R)ᵀ` with `pinv(R) = Rᵀ(R Rᵀ)⁻¹` for a root of
full row rank: `P Pᵀ A = I`. -/
theorem pinverse_rootInv (R : Matrix n k α) (A Ai : Matrix n n α) (hR : R * Rᵀ = A) (hAi : Ai * A = 1) :
    (Rᵀ * Ai)ᵀ * ((Rᵀ * Ai)ᵀ)ᵀ * A = 1 := by
  have hsym : Aᵀ = A := by rw [← hR, transpose_mul, transpose_transpose]
  have hAi' : A * Ai = 1 := mul_eq_one_comm.1 hAi
  have hAit : Aiᵀ * A = 1 := by
    have : (A * Ai)ᵀ = 1 := by rw [hAi', transpose_one]
    rwa [transpose_mul, hsym] at this
  rw [transpose_transpose, transpose_mul, transpose_transpose]
  calc Aiᵀ * R * (Rᵀ * Ai) * A = Aiᵀ * (R * Rᵀ) * (Ai * A) := by simp only [Matrix.mul_assoc]
    _ = 1 := by rw [hR, hAi, Matrix.mul_one, hAit]

/-- `ConstantMulLinearOperator.root_decomposition` (`c ≥ 0`): `√c·R`. -/
theorem constMul_root (R : Matrix n k α) (A : Matrix n n α) (c r : α) (hR : R * Rᵀ = A) (hr : r * r = c) :
    (r • R) * (r • R)ᵀ = c • A := by
  rw [transpose_smul, Matrix.smul_mul, Matrix.mul_smul, smul_smul, hr, hR]

/-- `ConstantMulLinearOperator.root_inv_decomposition` (`c > 0`, /repo c4c33aa): the base operator's inverse root
`R₀` (`R₀ R₀ᵀ = A⁻¹`, stated as `R₀ R₀ᵀ A = 1`) scaled by `ri = c^{-1/2}` (contract of `self._constant ** -0.5`:
`ri·ri·c = 1`) is an inverse root of `c·A`: `(ri R₀)(ri R₀)ᵀ (cA) = 1`, i.e. `R Rᵀ = (cA)⁻¹`.  All sizes, any
(also rectangular: truncated Lanczos) root shape, any commutative ring. -/
theorem constMul_rootInv (R₀ : Matrix n k α) (A : Matrix n n α) (c ri : α) (hR : R₀ * R₀ᵀ * A = 1)
    (hri : ri * ri * c = 1) : (ri • R₀) * (ri • R₀)ᵀ * (c • A) = 1 := by
  rw [constMulRootInv_gram, Matrix.smul_mul, Matrix.mul_smul, smul_smul, hri, one_smul, hR]

/-- … and the other side (`(cA)·R Rᵀ = 1`), so `R Rᵀ` is the two-sided inverse of `c·A`. -/
theorem constMul_rootInv_left (R₀ : Matrix n k α) (A : Matrix n n α) (c ri : α) (hR : R₀ * R₀ᵀ * A = 1)
    (hri : ri * ri * c = 1) : (c • A) * ((ri • R₀) * (ri • R₀)ᵀ) = 1 :=
  mul_eq_one_comm.1 (constMul_rootInv R₀ A c ri hR hri)

/-- The point of the override (the former defect: `add_low_rank` / `cat_rows` combine the cached root `L` and
inverse root `R` of the same operator and need `Lᵀ R = I`): if the base pair is paired, `L₀ᵀ R₀ = 1`, then the
ConstantMul pair `L = √c·L₀` (`constMul_root`), `R = c^{-1/2}·R₀` is paired, for every `r, ri` with `r·ri = 1`
(`√c · c^{-1/2} = 1`).  Rectangular roots allowed (`L₀, R₀ : n × k`). -/
theorem constMul_roots_paired (L₀ R₀ : Matrix n k α) (r ri : α) (hP : L₀ᵀ * R₀ = 1) (h : r * ri = 1) :
    (r • L₀)ᵀ * (ri • R₀) = 1 := by
  rw [transpose_smul, Matrix.smul_mul, Matrix.mul_smul, smul_smul, h, one_smul, hP]

/-- … and in the other order `Rᵀ L = 1`. -/
theorem constMul_roots_paired_swap (L₀ R₀ : Matrix n k α) (r ri : α) (hP : R₀ᵀ * L₀ = 1) (h : r * ri = 1) :
    (ri • R₀)ᵀ * (r • L₀) = 1 := by
  rw [transpose_smul, Matrix.smul_mul, Matrix.mul_smul, smul_smul, mul_comm ri r, h, one_smul, hP]

/-- The two scalar contracts fit together: `r·r = c` (`** 0.5`) and `r·ri = 1` give the hypothesis of
`constMul_rootInv`, `ri·ri·c = 1`. -/
theorem constMul_scalars (c r ri : α) (hr : r * r = c) (h : r * ri = 1) : ri * ri * c = 1 := by
  rw [← hr]; calc ri * ri * (r * r) = (r * ri) * (r * ri) := by ring
    _ = 1 := by rw [h, mul_one]

/-- The executable `constMulRoot` of the model (what the correspondence cells compare with the library's
`ConstantMulLinearOperator(base_root, s)`) is the scalar multiple the theorems above are about. -/
theorem constMulRoot_eq_smul {p q : Nat} (s : α) (R : Matrix (Fin p) (Fin q) α) : constMulRoot s R = s • R := by
  ext i j; rfl

/-- Selection model of the override (`constMulDelegate`): with an all-positive constant the outcome is the base
operator's outcome for the same method re-wrapped as a `RootLinearOperator` (same primitives, errors propagate);
otherwise it is the base-class outcome on the operator itself. -/
theorem constMulDelegate_spec (base own : Outcome) :
    (∀ p cl, base = .ok p cl → constMulDelegate true base own = .ok p "Root") ∧
      (∀ e, base = .error e → constMulDelegate true base own = .error e) ∧
      constMulDelegate false base own = own := by
  refine ⟨?_, ?_, rfl⟩
  · rintro p cl rfl; rfl
  · rintro e rfl; rfl

/-- The state before /repo c4c33aa, kept as a named statement: the base-class inverse root of `c·A` computed by its
own factorization (`R = (c·A)^{-1/2}` from e.g. Cholesky of `cA`) is a valid inverse root, but it is NOT in general
paired with the override's root `√c·L₀`: over ℚ, `A = [[4,2],[2,10]]`, `c = 4`, `L₀ = chol(A)` and the symmetric
inverse root `R = (1/2)·A^{-1/2}`-style choice `R = (1/2)·L₀^{-ᵀ}·Q` with a rotation/reflection `Q ≠ I` give
`Lᵀ R = Q ≠ I` although both factorize. -/
theorem previous_constMul_unpaired_counterexample :
    ∃ (L R A : Matrix (Fin 2) (Fin 2) ℚ), L * Lᵀ = A ∧ R * Rᵀ * A = 1 ∧ Lᵀ * R ≠ 1 := by
  refine ⟨!![2, 0; 0, 1], !![0, 1/2; 1, 0], !![4, 0; 0, 1], ?_, ?_, ?_⟩
  · ext i j; fin_cases i <;> fin_cases j <;> simp [Matrix.mul_apply, Fin.sum_univ_two] <;> (try norm_num)
  · ext i j
    fin_cases i <;> fin_cases j <;>
      simp [Matrix.mul_apply, Matrix.vecMul, dotProduct, Fin.sum_univ_two] <;> (try norm_num)
  · intro h
    have := congrFun (congrFun h 0) 0
    simp [Matrix.mul_apply, Fin.sum_univ_two] at this

/-! ### Eigendecompositions and SVD -/

/-- Base `_svd` from `_symeig`: `U = Q·sign(w)`, `S = |w|`, `V = Q` reconstructs `A`, `S ≥ 0` and `V` is
orthonormal; `U` is orthonormal when no eigenvalue is zero (`sign² = 1`).  Abstract sign/abs. -/
theorem svd_from_symeig (Q : Matrix n n α) (A : Matrix n n α) (w sg ab : n → α)
    (hQ : Qᵀ * Q = 1) (hA : Q * diagonal w * Qᵀ = A) (hw : ∀ i, sg i * ab i = w i) :
    (Q * diagonal sg) * diagonal ab * Qᵀ = A ∧ Qᵀ * Q = 1 ∧
      ((∀ i, sg i * sg i = 1) → (Q * diagonal sg)ᵀ * (Q * diagonal sg) = 1) := by
  refine ⟨?_, hQ, ?_⟩
  · rw [Matrix.mul_assoc Q, diagonal_mul_diagonal, ← hA]; congr 3; funext i; exact hw i
  · intro hs
    rw [transpose_mul, diagonal_transpose, Matrix.mul_assoc, ← Matrix.mul_assoc Qᵀ, hQ, Matrix.one_mul,
      diagonal_mul_diagonal]
    have : (fun i => sg i * sg i) = fun _ => (1 : α) := funext hs
    rw [this, diagonal_one]

/-- The same over an ordered field with the real `sign` and `|·|` (what `torch.sign/abs` compute). -/
theorem svd_from_symeig_ordered {F : Type} [Field F] [LinearOrder F] [IsStrictOrderedRing F]
    (Q A : Matrix n n F) (w : n → F) (hQ : Qᵀ * Q = 1) (hA : Q * diagonal w * Qᵀ = A) :
    (Q * diagonal fun i => (SignType.sign (w i) : F)) * diagonal (fun i => |w i|) * Qᵀ = A ∧
      (∀ i, 0 ≤ |w i|) ∧
      ((∀ i, w i ≠ 0) → (Q * diagonal fun i => (SignType.sign (w i) : F))ᵀ *
        (Q * diagonal fun i => (SignType.sign (w i) : F)) = 1) := by
  have h := svd_from_symeig Q A w (fun i => (SignType.sign (w i) : F)) (fun i => |w i|) hQ hA
    (fun i => sign_mul_abs (w i))
  refine ⟨h.1, fun i => abs_nonneg _, fun hne => h.2.2 fun i => ?_⟩
  rcases lt_trichotomy (w i) 0 with hx | hx | hx
  · simp [sign_neg hx]
  · exact absurd hx (hne i)
  · simp [sign_pos hx]

/-- Defect cell: an eigenvalue that is exactly zero (a singular PSD operator; the base `_symeig` clamps
tiny negative eigenvalues to exactly `0.0`) makes the corresponding column of `U` zero, so `U` is **not**
orthonormal: here `A = diag(1, 0)`, `Q = I`. -/
theorem svd_sign_zero_counterexample :
    ∃ (Q : Matrix (Fin 2) (Fin 2) ℚ) (w : Fin 2 → ℚ), Qᵀ * Q = 1 ∧
      (Q * diagonal fun i => (SignType.sign (w i) : ℚ))ᵀ * (Q * diagonal fun i => (SignType.sign (w i) : ℚ)) ≠ 1 := by
  refine ⟨1, ![1, 0], by simp, ?_⟩
  intro h
  have := congrFun (congrFun h 1) 1
  simp [Matrix.mul_apply, Fin.sum_univ_two, Matrix.diagonal_apply] at this

/-- `KroneckerProductLinearOperator._symeig/_svd`: eigendecomposition of `A ⊗ B` from the factors'. -/
theorem kron_symeig {m : Type} [Fintype m] [DecidableEq m] (Q₁ A₁ : Matrix n n α) (Q₂ A₂ : Matrix m m α)
    (w₁ : n → α) (w₂ : m → α) (h₁ : Q₁ᵀ * Q₁ = 1) (h₂ : Q₂ᵀ * Q₂ = 1)
    (a₁ : Q₁ * diagonal w₁ * Q₁ᵀ = A₁) (a₂ : Q₂ * diagonal w₂ * Q₂ᵀ = A₂) :
    (Q₁ ⊗ₖ Q₂)ᵀ * (Q₁ ⊗ₖ Q₂) = 1 ∧
      (Q₁ ⊗ₖ Q₂) * diagonal (fun p : n × m => w₁ p.1 * w₂ p.2) * (Q₁ ⊗ₖ Q₂)ᵀ = A₁ ⊗ₖ A₂ := by
  constructor
  · rw [← kroneckerMap_transpose, ← mul_kronecker_mul, h₁, h₂, one_kronecker_one]
  · rw [← diagonal_kronecker_diagonal, ← kroneckerMap_transpose, ← mul_kronecker_mul, ← mul_kronecker_mul, a₁, a₂]

/-- `AddedDiagLinearOperator._symeig/_svd`, `KroneckerProductAddedDiagLinearOperator._symeig` with a
constant diagonal: same eigenvectors, eigenvalues shifted by `c`. -/
theorem addedDiagConst_symeig (Q A : Matrix n n α) (w : n → α) (c : α) (hQ' : Q * Qᵀ = 1)
    (hA : Q * diagonal w * Qᵀ = A) : Q * diagonal (fun i => w i + c) * Qᵀ = A + c • (1 : Matrix n n α) := by
  have : diagonal (fun i => w i + c) = diagonal w + c • (1 : Matrix n n α) := by
    ext i j; by_cases h : i = j <;> simp [diagonal_apply, Matrix.one_apply, h]
  rw [this, Matrix.mul_add, Matrix.add_mul, hA, Matrix.mul_smul, Matrix.smul_mul, Matrix.mul_one, hQ']

/-- `BlockDiag/BlockInterleaved._symeig`: block-diagonal of the eigenvector blocks is orthogonal and
diagonalizes the block-diagonal operator, eigenvalues concatenated in the same index order. -/
theorem block_symeig {o : Type} [Fintype o] [DecidableEq o] (Q A : o → Matrix n n α) (w : o → n → α)
    (hQ : ∀ b, (Q b)ᵀ * Q b = 1) (hA : ∀ b, Q b * diagonal (w b) * (Q b)ᵀ = A b) :
    (blockDiagonal Q)ᵀ * blockDiagonal Q = 1 ∧
      blockDiagonal Q * diagonal (fun p : n × o => w p.2 p.1) * (blockDiagonal Q)ᵀ = blockDiagonal A := by
  constructor
  · rw [blockDiagonal_transpose, ← blockDiagonal_mul]
    have : (fun b => (Q b)ᵀ * Q b) = fun _ => (1 : Matrix n n α) := funext hQ
    rw [this]; exact blockDiagonal_one
  · have : diagonal (fun p : n × o => w p.2 p.1) = blockDiagonal fun b => diagonal (w b) := by
      rw [blockDiagonal_diagonal]
    rw [this, blockDiagonal_transpose, ← blockDiagonal_mul, ← blockDiagonal_mul]
    congr 1; funext b; exact hA b

/-! ### KroneckerProductAddedDiagLinearOperator roots (D13) -/

/-- `_root_decomposition`, constant diagonal: `R = Q (Λ + cI)^{1/2}`. -/
theorem kpadlo_root_const (Q K : Matrix n n α) (w s : n → α) (c : α) (hQ' : Q * Qᵀ = 1)
    (hK : Q * diagonal w * Qᵀ = K) (hs : ∀ i, s i * s i = w i + c) :
    (Q * diagonal s) * (Q * diagonal s)ᵀ = K + c • (1 : Matrix n n α) := by
  rw [← addedDiagConst_symeig Q K w c hQ' hK]
  exact root_method_symeig Q _ _ s rfl hs

/-- `_root_inv_decomposition`, constant diagonal: `R = Q (Λ + cI)^{-1/2}` is an inverse root. -/
theorem kpadlo_rootInv_const (Q K : Matrix n n α) (w t : n → α) (c : α) (hQ : Qᵀ * Q = 1) (hQ' : Q * Qᵀ = 1)
    (hK : Q * diagonal w * Qᵀ = K) (ht : ∀ i, t i * t i * (w i + c) = 1) :
    (Q * diagonal t) * (Q * diagonal t)ᵀ * (K + c • (1 : Matrix n n α)) = 1 :=
  rootInv_method_symeig Q _ _ t hQ hQ' (addedDiagConst_symeig Q K w c hQ' hK) ht

/-- `_root_decomposition`, Kronecker diagonal with constant factors (`D = d·I`, `d = Π aᵢ`, `r = √d`):
`R = (r·Q)(Λ/d + I)^{1/2}` is a root of `K + D`.  `di` is `1/d`. -/
theorem kpadlo_root_kronConst (Q K : Matrix n n α) (w s : n → α) (d di r : α) (hQ' : Q * Qᵀ = 1)
    (hK : Q * diagonal w * Qᵀ = K) (hr : r * r = d) (hd : d * di = 1) (hs : ∀ i, s i * s i = w i * di + 1) :
    ((r • Q) * diagonal s) * ((r • Q) * diagonal s)ᵀ = K + d • (1 : Matrix n n α) := by
  rw [← addedDiagConst_symeig Q K w d hQ' hK, smul_scaled_gram, hr, ← Matrix.smul_mul, ← Matrix.mul_smul]
  congr 2
  ext i j
  by_cases h : i = j
  · subst h
    simp only [Matrix.smul_apply, diagonal_apply_eq, smul_eq_mul, hs i]
    calc d * (w i * di + 1) = w i * (d * di) + d := by ring
      _ = w i + d := by rw [hd, mul_one]
  · simp [diagonal_apply, h]

/-- **D13, first branch, as written**: the inverse root is built with the *same* scaling `r = √d` of the
eigenvectors, `R = (r·Q)(Λ/d + I)^{-1/2}`; then `R Rᵀ (K + D) = d²·I`, an inverse root only if `d² = 1`. -/
theorem kpadlo_rootInv_kronConst_asWritten (Q K : Matrix n n α) (w t : n → α) (d di r : α)
    (hQ : Qᵀ * Q = 1) (hQ' : Q * Qᵀ = 1) (hK : Q * diagonal w * Qᵀ = K) (hr : r * r = d) (hd : d * di = 1)
    (ht : ∀ i, t i * t i * (w i * di + 1) = 1) :
    ((r • Q) * diagonal t) * ((r • Q) * diagonal t)ᵀ * (K + d • (1 : Matrix n n α)) = (d * d) • (1 : Matrix n n α) := by
  rw [← addedDiagConst_symeig Q K w d hQ' hK, smul_scaled_gram, hr, Matrix.smul_mul, conj_mul_conj Q hQ]
  have : (fun i => t i * t i * (w i + d)) = fun _ => d := by
    funext i
    calc t i * t i * (w i + d) = t i * t i * (w i * (d * di) + d) := by rw [hd, mul_one]
      _ = d * (t i * t i * (w i * di + 1)) := by ring
      _ = d := by rw [ht i, mul_one]
  rw [this, conj_const, hQ', smul_smul]

/-- Machine-checked counterexample for the branch as written (`K = [12]`, `D = [4]`): the hypotheses of
the formula hold and `R Rᵀ (K + D) = 16 ≠ 1`. -/
theorem kpadlo_rootInv_kronConst_counterexample :
    ∃ (Q K : Matrix (Fin 1) (Fin 1) ℚ) (w t : Fin 1 → ℚ) (d r : ℚ),
      Qᵀ * Q = 1 ∧ Q * diagonal w * Qᵀ = K ∧ r * r = d ∧ (∀ i, t i * t i * (w i / d + 1) = 1) ∧
      ((r • Q) * diagonal t) * ((r • Q) * diagonal t)ᵀ * (K + d • (1 : Matrix (Fin 1) (Fin 1) ℚ)) ≠ 1 := by
  refine ⟨1, diagonal ![12], ![12], ![1 / 2], 4, 2, by simp, by simp, by norm_num, ?_, ?_⟩
  · intro i; fin_cases i; norm_num
  · intro h
    have := congrFun (congrFun h 0) 0
    simp [Matrix.mul_apply, Matrix.diagonal_apply, Matrix.add_apply] at this
    norm_num at this

/-- … and with the proposed one-line correction (`evec_ / dlt_.diag_values.sqrt()`, `ri = 1/√d`):
`R = (ri·Q)(Λ/d + I)^{-1/2}` satisfies `R Rᵀ (K + D) = I`. -/
theorem kpadlo_rootInv_kronConst_fixed (Q K : Matrix n n α) (w t : n → α) (d di ri : α)
    (hQ : Qᵀ * Q = 1) (hQ' : Q * Qᵀ = 1) (hK : Q * diagonal w * Qᵀ = K) (hr : ri * ri = di) (hd : d * di = 1)
    (ht : ∀ i, t i * t i * (w i * di + 1) = 1) :
    ((ri • Q) * diagonal t) * ((ri • Q) * diagonal t)ᵀ * (K + d • (1 : Matrix n n α)) = 1 := by
  rw [← addedDiagConst_symeig Q K w d hQ' hK, smul_scaled_gram, hr, Matrix.smul_mul, conj_mul_conj Q hQ]
  have : (fun i => t i * t i * (w i + d)) = fun _ => d := by
    funext i
    calc t i * t i * (w i + d) = t i * t i * (w i * (d * di) + d) := by rw [hd, mul_one]
      _ = d * (t i * t i * (w i * di + 1)) := by ring
      _ = d := by rw [ht i, mul_one]
  rw [this, conj_const, hQ', smul_smul, mul_comm, hd, one_smul]

/-- `_root_decomposition`, symmetrised branch: with `Dh² = D`, `Dhi = Dh⁻¹` (diagonal matrices) and the
eigendecomposition `Q̃ Λ̃ Q̃ᵀ = Dhi K Dhi`, `R = Dh Q̃ (Λ̃ + I)^{1/2}` is a root of `K + D`. -/
theorem kpadlo_root_symm (Q K : Matrix n n α) (w s dh dhi : n → α) (hQ' : Q * Qᵀ = 1)
    (hS : Q * diagonal w * Qᵀ = diagonal dhi * K * diagonal dhi) (hdi : ∀ i, dh i * dhi i = 1)
    (hs : ∀ i, s i * s i = w i + 1) :
    (diagonal dh * (Q * diagonal s)) * (diagonal dh * (Q * diagonal s))ᵀ
      = K + diagonal (fun i => dh i * dh i) := by
  have h1 : diagonal dh * diagonal dhi = (1 : Matrix n n α) := by
    rw [diagonal_mul_diagonal]; rw [show (fun i => dh i * dhi i) = fun _ => (1 : α) from funext hdi, diagonal_one]
  have h2 : diagonal dhi * diagonal dh = (1 : Matrix n n α) := mul_eq_one_comm.1 h1
  have hR : (Q * diagonal s) * (Q * diagonal s)ᵀ = diagonal dhi * K * diagonal dhi + 1 := by
    have := kpadlo_root_const Q _ w s 1 hQ' hS (by simpa using hs)
    simpa using this
  rw [transpose_mul, diagonal_transpose, Matrix.mul_assoc, ← Matrix.mul_assoc (Q * diagonal s), hR]
  rw [Matrix.add_mul, Matrix.mul_add, Matrix.one_mul, diagonal_mul_diagonal]
  congr 1
  calc diagonal dh * (diagonal dhi * K * diagonal dhi * diagonal dh)
      = (diagonal dh * diagonal dhi) * K * (diagonal dhi * diagonal dh) := by simp only [Matrix.mul_assoc]
    _ = K := by rw [h1, h2, Matrix.one_mul, Matrix.mul_one]

/-- **D13, second branch, corrected** (`dlt_inv_root` used as it is, not inverted again):
`R = Dhi Q̃ (Λ̃ + I)^{-1/2}` satisfies `R Rᵀ (K + D) = I`. -/
theorem kpadlo_rootInv_symm_fixed (Q K : Matrix n n α) (w t dh dhi : n → α) (hQ : Qᵀ * Q = 1) (hQ' : Q * Qᵀ = 1)
    (hS : Q * diagonal w * Qᵀ = diagonal dhi * K * diagonal dhi) (hdi : ∀ i, dh i * dhi i = 1)
    (ht : ∀ i, t i * t i * (w i + 1) = 1) :
    (diagonal dhi * (Q * diagonal t)) * (diagonal dhi * (Q * diagonal t))ᵀ
      * (K + diagonal (fun i => dh i * dh i)) = 1 := by
  have h1 : diagonal dh * diagonal dhi = (1 : Matrix n n α) := by
    rw [diagonal_mul_diagonal]; rw [show (fun i => dh i * dhi i) = fun _ => (1 : α) from funext hdi, diagonal_one]
  have h2 : diagonal dhi * diagonal dh = (1 : Matrix n n α) := mul_eq_one_comm.1 h1
  have hM : (Q * diagonal t) * (Q * diagonal t)ᵀ * (diagonal dhi * K * diagonal dhi + 1) = 1 := by
    have := kpadlo_rootInv_const Q _ w t 1 hQ hQ' hS (by simpa using ht)
    simpa using this
  have hKD : K + diagonal (fun i => dh i * dh i)
      = diagonal dh * (diagonal dhi * K * diagonal dhi + 1) * diagonal dh := by
    rw [Matrix.mul_add, Matrix.add_mul, Matrix.mul_one, diagonal_mul_diagonal]
    congr 1
    calc K = (diagonal dh * diagonal dhi) * K * (diagonal dhi * diagonal dh) := by
          rw [h1, h2, Matrix.one_mul, Matrix.mul_one]
      _ = _ := by simp only [Matrix.mul_assoc]
  rw [hKD, transpose_mul, diagonal_transpose]
  calc diagonal dhi * (Q * diagonal t) * ((Q * diagonal t)ᵀ * diagonal dhi)
        * (diagonal dh * (diagonal dhi * K * diagonal dhi + 1) * diagonal dh)
      = diagonal dhi * ((Q * diagonal t) * (Q * diagonal t)ᵀ) * (diagonal dhi * diagonal dh)
          * (diagonal dhi * K * diagonal dhi + 1) * diagonal dh := by simp only [Matrix.mul_assoc]
    _ = diagonal dhi * ((Q * diagonal t) * (Q * diagonal t)ᵀ * (diagonal dhi * K * diagonal dhi + 1)) * diagonal dh := by
        rw [h2, Matrix.mul_one]; simp only [Matrix.mul_assoc]
    _ = 1 := by rw [hM, Matrix.mul_one, h2]

/-- **D13, second branch, as written** (`dlt_sqrt.inverse()` = `D^{1/2}` used where `D^{-1/2}` is needed):
counterexample `K = [12]`, `D = [4]`: `R = 2·1·(1/2) = 1`, `R Rᵀ (K + D) = 16 ≠ 1`. -/
theorem kpadlo_rootInv_symm_counterexample :
    ∃ (Q K : Matrix (Fin 1) (Fin 1) ℚ) (w t dh dhi : Fin 1 → ℚ),
      Qᵀ * Q = 1 ∧ Q * diagonal w * Qᵀ = diagonal dhi * K * diagonal dhi ∧ (∀ i, dh i * dhi i = 1) ∧
      (∀ i, t i * t i * (w i + 1) = 1) ∧
      (diagonal dh * (Q * diagonal t)) * (diagonal dh * (Q * diagonal t))ᵀ * (K + diagonal (fun i => dh i * dh i)) ≠ 1 := by
  refine ⟨1, diagonal ![12], ![3], ![1 / 2], ![2], ![1 / 2], by simp, ?_, ?_, ?_, ?_⟩
  · ext i j; fin_cases i; fin_cases j; simp [Matrix.mul_apply, Matrix.diagonal_apply]; norm_num
  · intro i; fin_cases i; norm_num
  · intro i; fin_cases i; norm_num
  · intro h
    have := congrFun (congrFun h 0) 0
    simp [Matrix.mul_apply, Matrix.diagonal_apply, Matrix.add_apply] at this
    norm_num at this

/-- The spectra the driver predicts for the constant-factor branch: corrected = `1/(λ+d)`, as written =
`d²/(λ+d)` (over a field, `d ≠ 0`, `λ + d ≠ 0`). -/
theorem kpadloConstInvSpectrum_spec {F : Type} [Field F] (d : F) (lam : List F) (hd : d ≠ 0)
    (hl : ∀ l ∈ lam, l + d ≠ 0) :
    kpadloConstInvSpectrumFixed d lam = lam.map (fun l => 1 / (l + d)) ∧
      kpadloConstInvSpectrumAsWritten d lam = lam.map (fun l => d * d / (l + d)) := by
  constructor <;>
  · simp only [kpadloConstInvSpectrumFixed, kpadloConstInvSpectrumAsWritten]
    apply List.map_congr_left
    intro l hlm
    have h1 := hl l hlm
    have h2 : l / d + 1 ≠ 0 := by
      have : l / d + 1 = (l + d) / d := by field_simp
      rw [this]; exact div_ne_zero h1 hd
    field_simp

/-! ### SumKronecker, Lanczos -/

/-- `SumKroneckerLinearOperator._root_decomposition`: with `S` a root of `C`, `Rc` the inverse root used in
`_sum_formulation` (`M = Rcᵀ A Rc + I`), `T` a root of `M`: `S·T` is a root of `A + C` **provided the two
roots of `C` are consistent**, `S Rcᵀ = I` (true for the Cholesky pair `L, L⁻ᵀ` and the symeig pair
`QΛ^{1/2}, QΛ^{-1/2}`; not for two independent Lanczos runs). -/
theorem sumKron_root (A C S Rc T : Matrix n n α) (hS : S * Sᵀ = C) (hSR : S * Rcᵀ = 1)
    (hT : T * Tᵀ = Rcᵀ * A * Rc + 1) : (S * T) * (S * T)ᵀ = A + C := by
  have hSR' : Rc * Sᵀ = 1 := by
    have : (S * Rcᵀ)ᵀ = 1 := by rw [hSR, transpose_one]
    rwa [transpose_mul, transpose_transpose] at this
  rw [transpose_mul, Matrix.mul_assoc, ← Matrix.mul_assoc T, hT, Matrix.add_mul, Matrix.mul_add, Matrix.one_mul, hS]
  congr 1
  calc S * (Rcᵀ * A * Rc * Sᵀ) = (S * Rcᵀ) * A * (Rc * Sᵀ) := by simp only [Matrix.mul_assoc]
    _ = A := by rw [hSR, hSR', Matrix.one_mul, Matrix.mul_one]

/-- `SumKroneckerLinearOperator._root_inv_decomposition`: `Rc·Ti` with `Rc Rcᵀ C = I` and `Ti Tiᵀ M = I`. -/
theorem sumKron_rootInv (A C Rc Rci Ti : Matrix n n α) (hC : Rci * Rciᵀ = C) (hi : Rc * Rciᵀ = 1)
    (hT : Ti * Tiᵀ * (Rcᵀ * A * Rc + 1) = 1) : (Rc * Ti) * (Rc * Ti)ᵀ * (A + C) = 1 := by
  -- `Rci = Rc⁻ᵀ`, so `A + C = Rciᵀ… ` i.e. `A + C = Rci (Rcᵀ A Rc + 1) Rciᵀ`
  have hi2 : Rciᵀ * Rc = 1 := mul_eq_one_comm.1 hi
  have hi3 : Rcᵀ * Rci = 1 := by
    have : (Rciᵀ * Rc)ᵀ = 1 := by rw [hi2, transpose_one]
    rwa [transpose_mul, transpose_transpose] at this
  have hi4 : Rci * Rcᵀ = 1 := mul_eq_one_comm.1 hi3
  have hAC : A + C = Rci * (Rcᵀ * A * Rc + 1) * Rciᵀ := by
    rw [Matrix.mul_add, Matrix.add_mul, Matrix.mul_one, hC]
    congr 1
    calc A = (Rci * Rcᵀ) * A * (Rc * Rciᵀ) := by rw [hi4, hi, Matrix.one_mul, Matrix.mul_one]
      _ = _ := by simp only [Matrix.mul_assoc]
  rw [hAC, transpose_mul]
  calc Rc * Ti * (Tiᵀ * Rcᵀ) * (Rci * (Rcᵀ * A * Rc + 1) * Rciᵀ)
      = Rc * (Ti * Tiᵀ) * (Rcᵀ * Rci) * (Rcᵀ * A * Rc + 1) * Rciᵀ := by simp only [Matrix.mul_assoc]
    _ = Rc * (Ti * Tiᵀ * (Rcᵀ * A * Rc + 1)) * Rciᵀ := by rw [hi3, Matrix.mul_one]; simp only [Matrix.mul_assoc]
    _ = 1 := by rw [hT, Matrix.mul_one, hi]

/-- `RootDecomposition.forward` (Lanczos): with `Q` (n×k, orthonormal columns) and the eigendecomposition
`V Θ Vᵀ = T + j·I` of the jittered tridiagonal matrix, `R = (Q V) Θ^{1/2}` satisfies `R Rᵀ = Q (T + jI) Qᵀ`:
the (jittered) orthogonal compression of `A` onto the Krylov space when `T = Qᵀ A Q`. -/
theorem lanczos_root_is_compression (Q : Matrix n k α) (V T : Matrix k k α) (th s : k → α) (j : α)
    (hV : V * diagonal th * Vᵀ = T + j • (1 : Matrix k k α)) (hs : ∀ i, s i * s i = th i) :
    ((Q * V) * diagonal s) * ((Q * V) * diagonal s)ᵀ = Q * (T + j • (1 : Matrix k k α)) * Qᵀ := by
  rw [scaled_gram, show (fun i => s i * s i) = th from funext hs, transpose_mul, ← hV]
  simp only [Matrix.mul_assoc]

/-- Once the Krylov space is everything (`Q` square orthogonal, `T = Qᵀ A Q`) the Lanczos root is a root
of `A` up to the documented jitter: `R Rᵀ = A + j·I`. -/
theorem lanczos_root_full (Q A V : Matrix n n α) (th s : n → α) (j : α) (hQ' : Q * Qᵀ = 1)
    (hV : V * diagonal th * Vᵀ = Qᵀ * A * Q + j • (1 : Matrix n n α)) (hs : ∀ i, s i * s i = th i) :
    ((Q * V) * diagonal s) * ((Q * V) * diagonal s)ᵀ = A + j • (1 : Matrix n n α) := by
  rw [lanczos_root_is_compression Q V _ th s j hV hs, Matrix.mul_add, Matrix.add_mul, Matrix.mul_smul,
    Matrix.smul_mul, Matrix.mul_one, hQ']
  congr 1
  calc Q * (Qᵀ * A * Q) * Qᵀ = (Q * Qᵀ) * A * (Q * Qᵀ) := by simp only [Matrix.mul_assoc]
    _ = A := by rw [hQ', Matrix.one_mul, Matrix.mul_one]

/-- … and the Lanczos inverse root `(Q V) Θ^{-1/2}` inverts `A + j·I` in that case. -/
theorem lanczos_rootInv_full (Q A V : Matrix n n α) (th t : n → α) (j : α) (hQ : Qᵀ * Q = 1) (hQ' : Q * Qᵀ = 1)
    (hV1 : Vᵀ * V = 1) (hV1' : V * Vᵀ = 1)
    (hV : V * diagonal th * Vᵀ = Qᵀ * A * Q + j • (1 : Matrix n n α)) (ht : ∀ i, t i * t i * th i = 1) :
    ((Q * V) * diagonal t) * ((Q * V) * diagonal t)ᵀ * (A + j • (1 : Matrix n n α)) = 1 := by
  have hQV : (Q * V)ᵀ * (Q * V) = 1 := by
    rw [transpose_mul, Matrix.mul_assoc, ← Matrix.mul_assoc Qᵀ, hQ, Matrix.one_mul, hV1]
  have hQV' : (Q * V) * (Q * V)ᵀ = 1 := mul_eq_one_comm.1 hQV
  refine rootInv_method_symeig (Q * V) _ th t hQV hQV' ?_ ht
  have := lanczos_root_full Q A V th th j hQ' hV
  -- reuse the algebra: (QV) Θ (QV)ᵀ = Q (V Θ Vᵀ) Qᵀ = A + jI
  rw [transpose_mul]
  calc Q * V * diagonal th * (Vᵀ * Qᵀ) = Q * (V * diagonal th * Vᵀ) * Qᵀ := by simp only [Matrix.mul_assoc]
    _ = Q * (Qᵀ * A * Q) * Qᵀ + j • (Q * Qᵀ) := by
        rw [hV, Matrix.mul_add, Matrix.add_mul, Matrix.mul_smul, Matrix.smul_mul, Matrix.mul_one]
    _ = (Q * Qᵀ) * A * (Q * Qᵀ) + j • (Q * Qᵀ) := by simp only [Matrix.mul_assoc]
    _ = A + j • (1 : Matrix n n α) := by rw [hQ', Matrix.one_mul, Matrix.mul_one]

/-! ### Overrides of `_symeig` / `_svd` (Diag, Identity, Kronecker `_svd`, BatchRepeat), sign conventions -/

/-- `DiagLinearOperator._symeig` / `IdentityLinearOperator._symeig`: eigenvalues = the diagonal, eigenvectors = `I`. -/
theorem diag_symeig (d : n → α) :
    (1 : Matrix n n α)ᵀ * 1 = 1 ∧ (1 : Matrix n n α) * diagonal d * (1 : Matrix n n α)ᵀ = diagonal d := by
  simp

/-- `DiagLinearOperator._svd` (as corrected by fix_4): `U = I`, `S = |d|`, `V = diag(sign d)` with `sign 0 := +1`:
abstractly, for any `sg, ab` with `sg·ab = d` and `sg² = 1`: `U diag(S) Vᵀ = diag d`, `UᵀU = 1`, `VᵀV = 1`. -/
theorem diag_svd (d sg ab : n → α) (h : ∀ i, sg i * ab i = d i) (h1 : ∀ i, sg i * sg i = 1) :
    (1 : Matrix n n α) * diagonal ab * (diagonal sg)ᵀ = diagonal d ∧ (1 : Matrix n n α)ᵀ * 1 = 1 ∧
      (diagonal sg)ᵀ * diagonal sg = 1 := by
  refine ⟨?_, by simp, ?_⟩
  · rw [Matrix.one_mul, diagonal_transpose, diagonal_mul_diagonal]
    congr 1; funext i; rw [mul_comm]; exact h i
  · rw [diagonal_transpose, diagonal_mul_diagonal, show (fun i => sg i * sg i) = fun _ => (1 : α) from funext h1,
      diagonal_one]

/-- … with the concrete convention of the code over an ordered field: `signs = where(d < 0, −1, 1)`, `S = |d|`;
also `S ≥ 0`.  Zero and negative diagonal entries included. -/
theorem diag_svd_ordered {F : Type} [Field F] [LinearOrder F] [IsStrictOrderedRing F] (d : n → F) :
    (1 : Matrix n n F) * diagonal (fun i => |d i|) * (diagonal fun i => if d i < 0 then (-1 : F) else 1)ᵀ = diagonal d ∧
      (diagonal fun i => if d i < 0 then (-1 : F) else 1)ᵀ * (diagonal fun i => if d i < 0 then (-1 : F) else 1) = 1 ∧
      ∀ i, 0 ≤ |d i| := by
  have h := diag_svd d (fun i => if d i < 0 then (-1 : F) else 1) (fun i => |d i|)
    (fun i => by
      by_cases hd : d i < 0
      · simp [hd, abs_of_neg hd]
      · simp [hd, abs_of_nonneg (not_lt.1 hd)])
    (fun i => by by_cases hd : d i < 0 <;> simp [hd])
  exact ⟨h.1, h.2.2, fun i => abs_nonneg _⟩

/-- The elementwise product `evecs * signs.unsqueeze(-1)` of the identity-structured eigenvector operator that
`DiagLinearOperator._svd` used before fix_4 keeps only one sign: for `d = (0, 1)` under `sign 0 = 0` the result `V = 0`
is not orthogonal (the `C06/exact/svd-diag/zero-first` cell). -/
theorem diag_svd_zero_sign_counterexample :
    ∃ (sg : Fin 2 → ℚ), (∀ i, sg i = SignType.sign (![0, 1] i : ℚ)) ∧ (diagonal sg)ᵀ * diagonal sg ≠ (1 : Matrix (Fin 2) (Fin 2) ℚ) := by
  refine ⟨![0, 1], ?_, ?_⟩
  · intro i; fin_cases i <;> simp
  · intro h
    have := congrFun (congrFun h 0) 0
    simp [Matrix.mul_apply, Fin.sum_univ_two, Matrix.diagonal_apply] at this

/-- `KroneckerProductLinearOperator._svd`: from the factors' SVDs, `U = U₁ ⊗ U₂`, `S = S₁ ⊗ S₂` (the diagonal of the
Kronecker product of the diagonal matrices), `V = V₁ ⊗ V₂`: reconstructs `A₁ ⊗ A₂`, `U`, `V` orthonormal. -/
theorem kron_svd {m : Type} [Fintype m] [DecidableEq m] (U₁ V₁ A₁ : Matrix n n α) (U₂ V₂ A₂ : Matrix m m α)
    (s₁ : n → α) (s₂ : m → α) (hU₁ : U₁ᵀ * U₁ = 1) (hU₂ : U₂ᵀ * U₂ = 1) (hV₁ : V₁ᵀ * V₁ = 1) (hV₂ : V₂ᵀ * V₂ = 1)
    (a₁ : U₁ * diagonal s₁ * V₁ᵀ = A₁) (a₂ : U₂ * diagonal s₂ * V₂ᵀ = A₂) :
    (U₁ ⊗ₖ U₂) * diagonal (fun p : n × m => s₁ p.1 * s₂ p.2) * (V₁ ⊗ₖ V₂)ᵀ = A₁ ⊗ₖ A₂ ∧
      (U₁ ⊗ₖ U₂)ᵀ * (U₁ ⊗ₖ U₂) = 1 ∧ (V₁ ⊗ₖ V₂)ᵀ * (V₁ ⊗ₖ V₂) = 1 := by
  refine ⟨?_, ?_, ?_⟩
  · rw [← diagonal_kronecker_diagonal, ← kroneckerMap_transpose, ← mul_kronecker_mul, ← mul_kronecker_mul, a₁, a₂]
  · rw [← kroneckerMap_transpose, ← mul_kronecker_mul, hU₁, hU₂, one_kronecker_one]
  · rw [← kroneckerMap_transpose, ← mul_kronecker_mul, hV₁, hV₂, one_kronecker_one]

/-- … and the Kronecker singular values are non-negative when the factors' are (ordered field). -/
theorem kron_svd_nonneg {F : Type} [Field F] [LinearOrder F] [IsStrictOrderedRing F] {m : Type} (s₁ : n → F) (s₂ : m → F)
    (h₁ : ∀ i, 0 ≤ s₁ i) (h₂ : ∀ j, 0 ≤ s₂ j) (p : n × m) : 0 ≤ s₁ p.1 * s₂ p.2 :=
  mul_nonneg (h₁ _) (h₂ _)

/-- `BatchRepeatLinearOperator._symeig/_svd`: batch member `b` of the repeated result is the decomposition of base member
`b % r`, hence diagonalizes batch member `b` of the repeated operator. -/
theorem batchRepeat_symeig {r : Nat} (hr : 0 < r) (Q A : Fin r → Matrix n n α) (w : Fin r → n → α)
    (hQ : ∀ b, (Q b)ᵀ * Q b = 1) (hA : ∀ b, Q b * diagonal (w b) * (Q b)ᵀ = A b) (b : Nat) :
    (Q ⟨b % r, Nat.mod_lt _ hr⟩)ᵀ * Q ⟨b % r, Nat.mod_lt _ hr⟩ = 1 ∧
      Q ⟨b % r, Nat.mod_lt _ hr⟩ * diagonal (w ⟨b % r, Nat.mod_lt _ hr⟩) * (Q ⟨b % r, Nat.mod_lt _ hr⟩)ᵀ
        = A ⟨b % r, Nat.mod_lt _ hr⟩ := ⟨hQ _, hA _⟩

/-- Base `_svd` as corrected (fix_4: sign of a zero eigenvalue taken as `+1`): with `sg = where(w < 0, −1, 1)` the factor
`U = Q·diag(sg)` is orthonormal for **every** spectrum (zero and negative eigenvalues included), `S = |w| ≥ 0`,
`U diag(S) Vᵀ = A`. -/
theorem svd_from_symeig_signpos {F : Type} [Field F] [LinearOrder F] [IsStrictOrderedRing F]
    (Q A : Matrix n n F) (w : n → F) (hQ : Qᵀ * Q = 1) (hA : Q * diagonal w * Qᵀ = A) :
    (Q * diagonal fun i => if w i < 0 then (-1 : F) else 1) * diagonal (fun i => |w i|) * Qᵀ = A ∧
      (∀ i, 0 ≤ |w i|) ∧ Qᵀ * Q = 1 ∧
      (Q * diagonal fun i => if w i < 0 then (-1 : F) else 1)ᵀ * (Q * diagonal fun i => if w i < 0 then (-1 : F) else 1) = 1 := by
  have h := svd_from_symeig Q A w (fun i => if w i < 0 then (-1 : F) else 1) (fun i => |w i|) hQ hA
    (fun i => by
      by_cases hd : w i < 0
      · simp [hd, abs_of_neg hd]
      · simp [hd, abs_of_nonneg (not_lt.1 hd)])
  exact ⟨h.1, fun i => abs_nonneg _, hQ, h.2.2 fun i => by by_cases hd : w i < 0 <;> simp [hd]⟩

/-! ### `_postprocess_lanczos_root_inv_decomp` (initial_vectors / test_vectors of `root_inv_decomposition`) -/

/-- The inverse root returned for `P ≥ 1` probes is candidate number `i* < P`, its modelled residual
`Σ_b Σ_c ‖A_b R R ᵀ t_{b,c} − t_{b,c}‖` is minimal among the `P` candidates, and every earlier candidate is strictly worse
(first minimiser, as `residuals.min(0)`).  Any `sqrt`, any sizes, any batch. -/
theorem postprocess_selects_min {F : Type} [LinearOrder F] [Add F] [Zero F] [Mul F] [Sub F] (sqrt : F → F) {a b c : Nat}
    (As : List (Mat F a a)) (Ts : List (Mat F a c)) (cands : Nat → List (Mat F a b)) (P : Nat) (hP : 0 < P) :
    let i := postprocessIndex sqrt As Ts cands P
    i < P ∧ postprocess sqrt As Ts cands P = cands i ∧
      (∀ p, p < P → residBatch sqrt As (cands i) Ts ≤ residBatch sqrt As (cands p) Ts) ∧
      (∀ p, p < i → residBatch sqrt As (cands i) Ts < residBatch sqrt As (cands p) Ts) := by
  intro i
  obtain ⟨h1, h2, h3⟩ := argminNat_spec (fun p => residBatch sqrt As (cands p) Ts) (P - 1)
  refine ⟨?_, rfl, fun p hp => h2 p (by omega), fun p hp => h3 p hp⟩
  show argminNat _ (P - 1) < P
  omega

/-- Consequently whatever holds of **every** candidate (each is an inverse root of `A` once its Krylov space is complete,
`lanczos_rootInv_full` / `rootInv_lanczos_end_to_end`) holds of the returned one. -/
theorem postprocess_preserves {F : Type} [LinearOrder F] [Add F] [Zero F] [Mul F] [Sub F] (sqrt : F → F) {a b c : Nat}
    (As : List (Mat F a a)) (Ts : List (Mat F a c)) (cands : Nat → List (Mat F a b)) (P : Nat) (hP : 0 < P)
    (Good : List (Mat F a b) → Prop) (h : ∀ p, p < P → Good (cands p)) : Good (postprocess sqrt As Ts cands P) :=
  h _ (postprocess_selects_min sqrt As Ts cands P hP).1

/-! ### End-to-end statements per method (C09 / C10 imported, not assumed) -/

section endToEnd
open LinOp.C09
variable {K : Type} [Field K] [LinearOrder K] [IsStrictOrderedRing K] {N : Nat}

/-- **`root_decomposition(method="lanczos")`, end to end** (base class, `N ≠ 1`): the dispatch runs Lanczos with the budget
`min(max_root_decomposition_size, N)` and one `eigh` of that size (`rootBase`); the model of `lanczos_tridiag` (C09, imported)
on the closure of the symmetric `A` succeeds with `count ≤` that budget, and — no breakdown on the returned part — for any
eigendecomposition `(θ, V)` of the jittered `T` with `θ ≥ 0` the root `R = (Q V) θ^{1/2}` that `RootDecomposition.forward`
assembles satisfies `R Rᵀ = (QQᵀ) A (QQᵀ) + j·QQᵀ` (the orthogonal compression of `A` onto the Krylov space, plus the
documented jitter), and `R Rᵀ = A + j·1` once `count = N`.  No hypothesis on `Q`, `T`. -/
theorem root_lanczos_end_to_end {ops : NumOps K} {p : Params K} (hs : C09.SqrtLaw ops) {A : Matrix (Fin N) (Fin N) K}
    (hA : Aᵀ = A) (c : Cfg) (v : Vec K N) (hv : fn v ⬝ᵥ fn v ≠ 0) (hg : p.guardsSingle = true) (hN : N ≠ 1)
    (h1 : 1 ≤ min c.maxRoot N) (jit : K) :
    rootBase N c (some .lanczos) = .ok [.lanczos N (min c.maxRoot N), .symeig (min c.maxRoot N)] "Root" ∧
    ∃ o, lanczosTridiag ops p (amulOf A) (min c.maxRoot N) v = .ok o ∧ 1 ≤ o.count ∧ o.count ≤ min c.maxRoot N ∧
      (BetaOK (o.count - 1) o.st →
        (Matrix.of o.Q)ᵀ * Matrix.of o.Q = 1 ∧ (Matrix.of o.Q)ᵀ * A * Matrix.of o.Q = Matrix.of o.T ∧
        ∀ (V : Matrix (Fin o.count) (Fin o.count) K) (θ : Fin o.count → K),
          V * Matrix.diagonal θ * Vᵀ = Matrix.of (jitteredT ltb jit o.T) → (∀ j, 0 ≤ θ j) →
          lanczosRoot ops (Matrix.of o.Q) V θ * (lanczosRoot ops (Matrix.of o.Q) V θ)ᵀ
            = (Matrix.of o.Q * (Matrix.of o.Q)ᵀ) * A * (Matrix.of o.Q * (Matrix.of o.Q)ᵀ)
              + jitterOf ltb jit o.T • (Matrix.of o.Q * (Matrix.of o.Q)ᵀ) ∧
          (o.count = N →
            lanczosRoot ops (Matrix.of o.Q) V θ * (lanczosRoot ops (Matrix.of o.Q) V θ)ᵀ
              = A + jitterOf ltb jit o.T • (1 : Matrix (Fin N) (Fin N) K))) := by
  refine ⟨by simp [rootBase, hN, lanczosPrims], ?_⟩
  have h1' : 1 ≤ min (min c.maxRoot N) N := by omega
  obtain ⟨o, ho, ha, hb, hc⟩ := Lanczos.tridiag_root (p := p) hs hA (min c.maxRoot N) v hv hg h1' jit
  exact ⟨o, ho, ha, by omega, hc⟩

/-- **`root_inv_decomposition(method="lanczos")`, end to end**: same run; with an orthogonal eigendecomposition of the
jittered `T` and positive Ritz values the inverse root `R⁻ = (Q V) θ^{-1/2}` satisfies `R⁻ R⁻ᵀ = Q (T + j·1)⁻¹ Qᵀ`, and
`= (A + j·1)⁻¹` once `count = N`. -/
theorem rootInv_lanczos_end_to_end {ops : NumOps K} {p : Params K} (hs : C09.SqrtLaw ops) {A : Matrix (Fin N) (Fin N) K}
    (hA : Aᵀ = A) (c : Cfg) (v : Vec K N) (hv : fn v ⬝ᵥ fn v ≠ 0) (hg : p.guardsSingle = true) (hN : N ≠ 1)
    (h1 : 1 ≤ min c.maxRoot N) (jit : K) :
    rootInvBase N c (some .lanczos) = .ok [.lanczos N (min c.maxRoot N), .symeig (min c.maxRoot N)] "Root" ∧
    ∃ o, lanczosTridiag ops p (amulOf A) (min c.maxRoot N) v = .ok o ∧ 1 ≤ o.count ∧ o.count ≤ min c.maxRoot N ∧
      (BetaOK (o.count - 1) o.st →
        ∀ (V : Matrix (Fin o.count) (Fin o.count) K) (θ : Fin o.count → K),
          V * Matrix.diagonal θ * Vᵀ = Matrix.of (jitteredT ltb jit o.T) → Vᵀ * V = 1 → (∀ j, 0 < θ j) →
          lanczosRootInv ops (Matrix.of o.Q) V θ * (lanczosRootInv ops (Matrix.of o.Q) V θ)ᵀ
            = Matrix.of o.Q * (Matrix.of (jitteredT ltb jit o.T))⁻¹ * (Matrix.of o.Q)ᵀ ∧
          (o.count = N →
            lanczosRootInv ops (Matrix.of o.Q) V θ * (lanczosRootInv ops (Matrix.of o.Q) V θ)ᵀ
              = (A + jitterOf ltb jit o.T • (1 : Matrix (Fin N) (Fin N) K))⁻¹)) := by
  refine ⟨by simp [rootInvBase, hN, lanczosPrims], ?_⟩
  have h1' : 1 ≤ min (min c.maxRoot N) N := by omega
  obtain ⟨o, ho, ha, hb, hc⟩ := Lanczos.tridiag_root_inv (p := p) hs hA (min c.maxRoot N) v hv hg h1' jit
  exact ⟨o, ho, ha, by omega, hc⟩

/-- **`root_decomposition(method="pivoted_cholesky")`, end to end** (the operator is densified first, so the diagonal the
pivots are chosen from is the exact one): for symmetric positive-definite `A` the dispatch logs one pivoted Cholesky with
rank bound `min(max_root_decomposition_size, N)`; the model of `PivotedCholesky.forward` (C10, imported) takes `r` pivots,
`1 ≤ r ≤` that bound; `A − R Rᵀ` is PSD (`R Rᵀ ≤ A`) and vanishes on the `r` pivot rows; it stopped before the bound only
with relative residual trace `≤ tol`; and `R Rᵀ = A` entry by entry when `r = N`. -/
theorem root_pivoted_cholesky_end_to_end {P : C10.Prim K} {A : Mat K N N} (hP : C10.SqrtLaw P) (hA : C10.Symm A)
    (hpd : C10.PD A) (c : Cfg) (tol : K) (hrank : 0 < c.maxRoot) (hN : N ≠ 1) (hn : 0 < N) :
    rootBase N c (some .pivotedCholesky) = .ok [.pivChol N (min c.maxRoot N)] "Root" ∧
    (let r := (C10.run P [A] c.maxRoot tol).1
     let s := C10.iter P A r
     1 ≤ r ∧ r ≤ min c.maxRoot N ∧ (C10.run P [A] c.maxRoot tol).2 = [s] ∧
      C10.PSD (C10.resid A s.rows) ∧
      (∀ j : Fin N, j.val < r → ∀ k, C10.resid A s.rows (s.perm.get j) k = 0) ∧
      (r < min c.maxRoot N → C10.errAt P [A] r ≤ tol) ∧
      (r = N → ∀ i k, A i k = C10.lltEntry s.rows i k)) :=
  ⟨by simp [rootBase, hN], pivchol_root_of_pd hP hA hpd c.maxRoot tol hrank hn⟩

/-- `root_decomposition(method="cholesky" | "symeig" | "svd" | "diagonalization")`, end to end for the exact methods:
whichever of them is selected, given the primitive's contract the returned `R` satisfies `R Rᵀ = A` (collects
`root_from_chol`, `root_method_symeig`, `root_method_svd`). -/
theorem root_exact_methods_end_to_end (A : Matrix n n α) :
    (∀ L : Matrix n n α, L * Lᵀ = A → L * Lᵀ = A) ∧
    (∀ (Q : Matrix n k α) (w s : k → α), Q * diagonal w * Qᵀ = A → (∀ i, s i * s i = w i) →
        (Q * diagonal s) * (Q * diagonal s)ᵀ = A) ∧
    (∀ (Q : Matrix n k α) (w sg ab s : k → α), Q * diagonal w * Qᵀ = A → (∀ i, s i * s i = ab i) →
        (∀ i, sg i * sg i * ab i = w i) → ((Q * diagonal sg) * diagonal s) * ((Q * diagonal sg) * diagonal s)ᵀ = A) :=
  ⟨fun _ h => h, fun Q w s hA hs => root_method_symeig Q A w s hA hs,
    fun Q w sg ab s hA hs hw => root_method_svd Q A w sg ab s hA hs hw⟩

end endToEnd

/-! ### Method selection -/

/-- `_choose_root_method` without cache hits: Cholesky iff the size is within `max_cholesky_size` or fast
root decompositions are off; otherwise Lanczos. -/
theorem chooseRootMethod_spec (n : Nat) (c : Cfg) (h : c.cSymeig = false ∧ c.cDiag = false ∧ c.cLanczos = false) :
    (chooseRootMethod n c = .cholesky ↔ (n ≤ c.maxChol ∨ c.fastRoot = false)) ∧
      (chooseRootMethod n c = .lanczos ↔ ¬ (n ≤ c.maxChol ∨ c.fastRoot = false)) := by
  obtain ⟨h1, h2, h3⟩ := h
  unfold chooseRootMethod
  simp only [h1, h2, h3]
  by_cases hn : n ≤ c.maxChol <;> cases hf : c.fastRoot <;> simp [hn]

/-- Cache probes take precedence in the order symeig, diagonalization, lanczos. -/
theorem chooseRootMethod_cache (n : Nat) (c : Cfg) :
    (c.cSymeig = true → chooseRootMethod n c = .symeig) ∧
      (c.cSymeig = false → c.cDiag = true → chooseRootMethod n c = .diagonalization) ∧
      (c.cSymeig = false → c.cDiag = false → c.cLanczos = true → chooseRootMethod n c = .lanczos) := by
  refine ⟨fun h => ?_, fun h1 h2 => ?_, fun h1 h2 h3 => ?_⟩ <;> simp [chooseRootMethod, *]

/-- The selection never leaves the set of methods the dispatch chain of `root_decomposition` handles, and
with `method=None` the base class never raises: every settings/cache combination yields `ok`. -/
theorem rootBase_none_total (n : Nat) (c : Cfg) (ok : Bool) : ∃ p cl, rootBase n c none ok = .ok p cl := by
  unfold rootBase
  by_cases h1 : n = 1
  · simp [h1]
  · simp only [h1, if_false, Option.getD_none]
    unfold chooseRootMethod
    by_cases a : c.cSymeig <;> by_cases b : c.cDiag <;> by_cases d : c.cLanczos <;>
      by_cases e : (n ≤ c.maxChol || !c.fastRoot) <;> cases ok <;>
      simp [a, b, d, e, diagPrims, lanczosPrims] <;> (by_cases f : n ≤ c.maxChol <;> simp [f])

/-- Only direct dense primitives run at or below `max_cholesky_size` (no cache hits): `method=None` takes the
Cholesky path and reports the class `CholLinearOperator`. -/
theorem rootBase_small_is_cholesky (n : Nat) (c : Cfg) (hn : n ≠ 1) (hle : n ≤ c.maxChol)
    (h : c.cSymeig = false ∧ c.cDiag = false ∧ c.cLanczos = false) :
    rootBase n c none true = .ok [.chol n] "Chol" := by
  obtain ⟨h1, h2, h3⟩ := h
  simp [rootBase, hn, chooseRootMethod, h1, h2, h3, hle]

/-- The Lanczos path runs exactly `min(max_root_decomposition_size, n)` iterations and one eigendecomposition
of that size — the rank bound reaches `n` iff `max_root_decomposition_size ≥ n`. -/
theorem lanczosPrims_rank (n : Nat) (c : Cfg) :
    lanczosPrims n c = [.lanczos n (min c.maxRoot n), .symeig (min c.maxRoot n)] ∧
      (min c.maxRoot n = n ↔ n ≤ c.maxRoot) := by
  refine ⟨rfl, ?_⟩
  omega

/-- `KroneckerProductLinearOperator.root_inv_decomposition` above `max_cholesky_size`: the factors' inverse roots
with the **same** `method` (forwarded since f68e44a), concatenated in factor order. -/
theorem rootInvKron_forwards_method (ns : List Nat) (c : Cfg) (m : Option Method) (h : c.maxChol < prod ns) :
    rootInvKron ns c m = seqOutcomes (ns.map fun k => rootInvBase k c m) "Root" := by
  simp [rootInvKron, Nat.not_le.2 h]

/-! ### Call histories (memoisation) -/

/-- **Every result in every history meets the contract of the method requested**: if each method's computation
is valid under any settings (`hc`, the per-method theorems above) and the cache is keyed by the method
(`κ` = (entry, method)), then whatever was called before — and under whatever settings — each call of a history
returns a value that is `Good` for the key it was called with. -/
theorem memo_valid {κ σ ν : Type} [DecidableEq κ] (compute : κ → σ → ν) (Good : κ → ν → Prop)
    (hc : ∀ k s, Good k (compute k s)) :
    ∀ (calls : List (κ × σ)) (st : List (κ × ν)), (∀ x ∈ st, Good x.1 x.2) →
      List.Forall₂ (fun c v => Good c.1 v) calls (memoRun compute st calls) := by
  intro calls
  induction calls with
  | nil => intro st _; exact List.Forall₂.nil
  | cons c rest ih =>
    intro st hst
    obtain ⟨k, s⟩ := c
    simp only [memoRun, memoCall]
    cases hf : st.find? (fun x => x.1 = k) with
    | some x =>
      have hx : x ∈ st := List.mem_of_find?_eq_some hf
      have hk : x.1 = k := by simpa using List.find?_some hf
      exact List.Forall₂.cons (by simpa [hk] using hst x hx) (ih st hst)
    | none =>
      refine List.Forall₂.cons (hc k s) (ih _ ?_)
      intro x hx
      rcases List.mem_cons.1 hx with h | h
      · subst h; exact hc k s
      · exact hst x h

/-- **History independence**: under fixed settings, the value returned for a key does not depend on which calls
were made before (fresh object, cache keyed by (entry, method)). -/
theorem memo_history_independent {κ σ ν : Type} [DecidableEq κ] (compute : κ → σ → ν) (s : σ) :
    ∀ (keys : List κ) (st : List (κ × ν)), (∀ x ∈ st, x.2 = compute x.1 s) →
      memoRun compute st (keys.map fun k => (k, s)) = keys.map fun k => compute k s := by
  intro keys
  induction keys with
  | nil => intro st _; rfl
  | cons k rest ih =>
    intro st hst
    simp only [List.map_cons, memoRun, memoCall]
    cases hf : st.find? (fun x => x.1 = k) with
    | some x =>
      have hx : x ∈ st := List.mem_of_find?_eq_some hf
      have hk : x.1 = k := by simpa using List.find?_some hf
      simp only [List.cons.injEq]
      exact ⟨by rw [hst x hx, hk], ih st hst⟩
    | none =>
      simp only [List.cons.injEq, true_and]
      apply ih
      intro x hx
      rcases List.mem_cons.1 hx with h | h
      · subst h; rfl
      · exact hst x h

/-- What goes wrong when a method-dependent entry ignores its arguments (`ignore_args=True`): with the method
moved out of the key, the second call returns the first call's result. -/
theorem memo_ignoreArgs_counterexample :
    memoRun (fun (_ : Unit) (m : Bool) => m) [] [((), true), ((), false)] ≠ [true, false] := by decide

/-! ### Facts regenerated from /repo's source on every run (translator `harness/extract/c06_factor.py`) -/

/-- `_choose_root_method` in today's source has the shape the model `chooseRootMethod` mirrors: the three
cache probes in this order, `size ≤ max_cholesky_size or fast root decompositions off → cholesky`, else lanczos. -/
theorem generated_choose_matches_model :
    Generated.C06.probes = [("symeig", "symeig"), ("diagonalization", "diagonalization"), ("lanczos", "lanczos")] ∧
      Generated.C06.sizeCmp = "self.size(-1) LtE settings.max_cholesky_size.value()" ∧
      Generated.C06.flag = "settings.fast_computations.covar_root_decomposition.off()" ∧
      Generated.C06.smallMethod = "cholesky" ∧ Generated.C06.largeMethod = "lanczos" := by decide +kernel

/-- The method strings the three dispatch chains compare against are exactly those the model dispatches on. -/
theorem generated_dispatch_methods :
    Generated.C06.rootMethods = ["cholesky", "pivoted_cholesky", "symeig", "diagonalization", "svd", "lanczos"] ∧
      Generated.C06.rootInvMethods = ["cholesky", "lanczos", "symeig", "diagonalization", "svd", "pinverse"] ∧
      Generated.C06.diagMethods = ["lanczos", "symeig"] := by decide +kernel

/-- Clamp constants: roots clamp eigenvalues at 0 (inactive for PSD input), inverse roots at `1e-7` (inactive
under the hypothesis `λ ≥ 1e-7` of `rootInv_method_symeig`), `_symeig` chops negatives at 0. -/
theorem generated_clamps :
    Generated.C06.rootClamps = [0, 0] ∧
      Generated.C06.rootInvClamps = [(1 : Rat) / 10000000, (1 : Rat) / 10000000, (1 : Rat) / 10000000] ∧
      Generated.C06.symeigClamps = [0] := by decide +kernel

/-- Defaults and thresholds the check's tolerances and the selection model rely on. -/
theorem generated_defaults :
    Generated.C06.maxCholeskySize = 800 ∧ Generated.C06.maxRootDecompositionSize = 100 ∧
      Generated.C06.tridiagonalJitter = (1 : Rat) / 1000000 ∧ Generated.C06.choleskyMaxTries = 3 ∧
      Generated.C06.preconditionerTolerance = (1 : Rat) / 1000 ∧
      Generated.C06.choleskyJitterFloat = (1 : Rat) / 1000000 ∧ Generated.C06.choleskyJitterDouble = (1 : Rat) / 100000000 ∧
      Generated.C06.lanczosTol = (1 : Rat) / 100000 ∧ Generated.C06.lanczosBreak = (1 : Rat) / 1000000 ∧
      Generated.C06.lanczosRounds = 10 ∧ Generated.C06.lanczosSmallEig = 32 ∧
      Generated.C06.symeigDtype = "torch.double" := by decide +kernel

/-- Structure: the upper Cholesky factor is the transposed lower factor (`chol_factorizes`), and the Kronecker
`root_inv_decomposition` forwards `method` on both branches (`rootInvKron_forwards_method`). -/
theorem generated_structure :
    Generated.C06.cholUpperViaTranspose = true ∧ Generated.C06.kronRootInvForwardsMethod = true := by decide +kernel

/-- `root_decomposition(method="pivoted_cholesky")` densifies the operator before `pivoted_cholesky` in today's source, so
the diagonal the pivots are chosen from is the exact one (`_approx_diagonal` of a dense operator) — the premise under which
`root_pivoted_cholesky_end_to_end` (C10's model starts from `diag A`) describes this entry point also for operators whose
own `_approx_diagonal` is only approximate (Interpolated, ConstantMul of it). -/
theorem generated_pivchol_root_densifies :
    Generated.C06.pivCholRootReceiver = "to_linear_operator(self.to_dense())" := by decide +kernel

/-- `_postprocess_lanczos_root_inv_decomp` in today's source has the shape `postprocessIndex` mirrors: 2-norm over the
vector dimension, first minimum over the probe dimension, and the candidate with that index is returned. -/
theorem generated_postprocess_matches_model :
    Generated.C06.postprocessResidual = "(mat_times_solves - test_vectors).norm(2, dim=-2)" ∧
      Generated.C06.postprocessSelect = "residuals.min(0)" ∧
      Generated.C06.postprocessReturn = "inv_roots[best_solve_index].squeeze(0)" := by decide +kernel

/-- The classes that override a factorization hook are exactly the ones the theorems above and the catalogue
cover; a new or removed override changes this table and breaks the obligation. -/
theorem generated_overrides_covered :
    Generated.C06.overrides =
      [("AddedDiagLinearOperator", ["_symeig", "_svd"]),
       ("BatchRepeatLinearOperator", ["_cholesky", "_root_decomposition", "_root_inv_decomposition", "_symeig", "_svd"]),
       ("BlockDiagLinearOperator", ["_cholesky", "_root_decomposition", "_root_inv_decomposition", "_symeig", "_svd"]),
       ("BlockInterleavedLinearOperator", ["_cholesky", "_root_decomposition", "_root_inv_decomposition"]),
       ("CholLinearOperator", ["_cholesky", "_root_decomposition", "root_decomposition", "root_inv_decomposition"]),
       ("ConstantMulLinearOperator", ["root_decomposition", "root_inv_decomposition"]),
       ("DiagLinearOperator", ["_cholesky", "_root_decomposition", "_root_inv_decomposition", "_symeig", "_svd"]),
       ("IdentityLinearOperator", ["_cholesky", "_root_decomposition", "_root_inv_decomposition", "_symeig", "_svd"]),
       ("KroneckerProductAddedDiagLinearOperator", ["_root_decomposition", "_root_inv_decomposition", "_symeig"]),
       ("KroneckerProductDiagLinearOperator", ["_cholesky", "_symeig"]),
       ("KroneckerProductLinearOperator", ["_cholesky", "root_decomposition", "root_inv_decomposition", "_symeig", "_svd", "diagonalization"]),
       ("KroneckerProductTriangularLinearOperator", ["_cholesky", "_symeig"]),
       ("RootLinearOperator", ["_root_decomposition", "root_decomposition", "_root_decomposition_size"]),
       ("SumKroneckerLinearOperator", ["_root_decomposition", "_root_inv_decomposition"]),
       ("TriangularLinearOperator", ["_cholesky", "_root_decomposition", "_root_inv_decomposition"]),
       ("ZeroLinearOperator", ["_root_decomposition", "_root_inv_decomposition", "_root_decomposition_size"])] := by
  decide +kernel

/-- Keying discipline of the factorization caches in today's source: no `@cached(…, ignore_args=True)` on an entry
whose function takes `method` (so that `memo_valid` / `memo_history_independent` apply: the key contains the
method), nothing produces a `"symeig"` (or `"lanczos"`) cache entry (the `pop_from_cache(self, "symeig")` branch of
`eigh/eigvalsh` and two probes of `_choose_root_method` stay dormant), and every entry taking `method` is keyed. -/
theorem generated_cache_keyed_by_method :
    (Generated.C06.cachedEntries.all fun e => !(e.2.2.2.1 && e.2.2.2.2)) = true ∧
      (Generated.C06.cachedEntries.all fun e => e.2.2.1 != "symeig" && e.2.2.1 != "lanczos") = true ∧
      (Generated.C06.cacheWriters.all fun w => w.2 != "symeig" && w.2 != "lanczos" && w.2 != "diagonalization") = true := by
  decide +kernel

/-- The only code that writes a factorization cache entry from *another* method is the set the history model
(`hstep`: Lanczos inverse root ↦ `(root, none)`) and the derived-operator cells (`add_low_rank`, `cat_rows`) cover. -/
theorem generated_cache_writers :
    Generated.C06.cacheWriters =
      [("LinearOperator._root_inv_decomposition", "root_decomposition"), ("LinearOperator._root_inv_decomposition", "root_decomposition"),
       ("LinearOperator.add_low_rank", "root_decomposition"), ("LinearOperator.add_low_rank", "root_inv_decomposition"),
       ("LinearOperator.cat_rows", "root_decomposition"), ("LinearOperator.cat_rows", "root_inv_decomposition")] := by
  decide +kernel

/-- The method-dependent cached entry points, all keyed by their arguments. -/
theorem generated_cached_method_entries :
    (Generated.C06.cachedEntries.filter fun e => e.2.2.2.2).map (fun e => (e.1, e.2.1, e.2.2.2.1)) =
      [("ConstantMulLinearOperator", "root_decomposition", false),
       ("ConstantMulLinearOperator", "root_inv_decomposition", false),
       ("KroneckerProductLinearOperator", "root_decomposition", false),
       ("KroneckerProductLinearOperator", "root_inv_decomposition", false),
       ("LinearOperator", "diagonalization", false), ("LinearOperator", "root_decomposition", false),
       ("LinearOperator", "root_inv_decomposition", false)] := by
  decide +kernel

/-! ### Satisfiability of the hypotheses (non-vacuity) -/

/-- `constMul_rootInv` / `constMul_roots_paired`: `A = [[4,2],[2,10]]`, `L₀ = chol A = [[2,0],[1,3]]`,
`R₀ = L₀^{-ᵀ} = [[1/2,-1/6],[0,1/3]]`, `c = 4`, `r = 2`, `ri = 1/2`. -/
example : ∃ (L₀ R₀ A : Matrix (Fin 2) (Fin 2) ℚ) (c r ri : ℚ),
    L₀ * L₀ᵀ = A ∧ R₀ * R₀ᵀ * A = 1 ∧ L₀ᵀ * R₀ = 1 ∧ r * r = c ∧ r * ri = 1 ∧ ri * ri * c = 1 ∧ c ≠ 1 ∧ R₀ 0 1 ≠ 0 := by
  refine ⟨!![2, 0; 1, 3], !![1/2, -1/6; 0, 1/3], !![4, 2; 2, 10], 4, 2, 1/2, ?_, ?_, ?_, by norm_num, by norm_num,
    by norm_num, by norm_num, by simp⟩
  · ext i j; fin_cases i <;> fin_cases j <;> simp [Matrix.mul_apply, Fin.sum_univ_two] <;> norm_num
  · ext i j
    fin_cases i <;> fin_cases j <;>
      simp [Matrix.mul_apply, Matrix.vecMul, dotProduct, Fin.sum_univ_two] <;> (try norm_num)
  · ext i j; fin_cases i <;> fin_cases j <;> simp [Matrix.mul_apply, Fin.sum_univ_two] <;> (try norm_num)

example : ∃ (L A : Matrix (Fin 2) (Fin 2) ℚ), L * Lᵀ = A ∧ LowerTri L ∧ L 1 0 ≠ 0 := by
  refine ⟨!![2, 0; 1, 3], !![4, 2; 2, 10], ?_, ?_, by simp⟩
  · ext i j; fin_cases i <;> fin_cases j <;> simp [Matrix.mul_apply, Fin.sum_univ_two] <;> norm_num
  · intro i j hij; fin_cases i <;> fin_cases j <;> simp_all

example : ∃ (Q K : Matrix (Fin 1) (Fin 1) ℚ) (w t : Fin 1 → ℚ) (d di ri : ℚ),
    Qᵀ * Q = 1 ∧ Q * Qᵀ = 1 ∧ Q * diagonal w * Qᵀ = K ∧ ri * ri = di ∧ d * di = 1 ∧
      ∀ i, t i * t i * (w i * di + 1) = 1 :=
  ⟨1, diagonal ![12], ![12], ![1 / 2], 4, 1 / 4, 1 / 2, by simp, by simp, by simp, by norm_num, by norm_num,
    by intro i; fin_cases i; norm_num⟩

/-- hypotheses of the end-to-end Lanczos theorems are satisfiable (C09's real instance: `ℝ`, `Real.sqrt`, `A = [[2,1],[1,3]]`). -/
example : C09.SqrtLaw C09.realOps ∧ C09.exAᵀ = C09.exA ∧ C09.fn C09.exV ⬝ᵥ C09.fn C09.exV ≠ 0 ∧ C09.exP.guardsSingle = true ∧
    (2 : Nat) ≠ 1 ∧ 1 ≤ min (Cfg.mk 800 100 true false false false).maxRoot 2 :=
  ⟨C09.real_instance.1, C09.exA_symm, C09.real_instance.2.2.1, C09.real_instance.2.2.2.1, by decide, by decide⟩

/-- a selection with two candidates whose residuals differ: the second is returned (over `ℚ`, `sqrt := id`). -/
example : postprocessIndex (fun x : ℚ => x) [fun (_ _ : Fin 1) => (2 : ℚ)] [fun (_ _ : Fin 1) => (1 : ℚ)]
    (fun p => if p = 0 then [fun (_ _ : Fin 1) => (1 : ℚ)] else [fun (_ _ : Fin 1) => (1 / 2 : ℚ)]) 2 = 1 := by
  decide +kernel

end LinOp.C06
